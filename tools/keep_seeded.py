#!/usr/bin/env python3
"""keep_seeded.py <round-tag> <letter> <missed-ids-comma-separated>
Copies confirmed seeded changes /tmp/mut/<L>NN/_out/mK into /verif/seeded/CNN-<tag>mK/ (patch.diff, demo_test.go.txt, meta.json)
using the triage logs in /tmp/mut/results/CNN-<tag>mK.log."""
import json, os, re, shutil, sys, glob
tag, L, missed = sys.argv[1], sys.argv[2], set(filter(None, sys.argv[3].split(",")))
for d in sorted(glob.glob(f"/tmp/mut/{L}[0-9][0-9]/_out/m*")):
    w = os.path.basename(os.path.dirname(os.path.dirname(d))); k = os.path.basename(d)
    prop = "C" + w[1:]; sid = f"{prop}-{tag}{k}"
    logp = f"/tmp/mut/results/{sid}.log"
    if not os.path.exists(logp) or not os.path.exists(d + "/patch.diff"):
        print("skip", sid); continue
    log = open(logp).read().splitlines()
    conf = [l for l in log if l.startswith("CONFIRM")]
    good = ("CONFIRM: existing suite passes with the change" in conf and "CONFIRM: demo fails with the change" in conf
            and "CONFIRM: demo passes without the change" in conf)
    res = [l for l in log if re.match(r"^(OK|VIOLATION)", l)]
    det = [l[:300] for l in log if re.match(r"^(no longer|failing)", l)]
    if not good:
        print("NOT CONFIRMED", sid, conf); continue
    try:
        meta = json.load(open(d + "/meta.json"))
    except Exception as e:
        meta = {"summary": "(meta.json of the sub-agent unreadable: %s)" % e}
    out = f"/verif/seeded/{sid}"
    os.makedirs(out, exist_ok=True)
    shutil.copy(d + "/patch.diff", out + "/patch.diff")
    if os.path.exists(d + "/demo_test.go"):
        shutil.copy(d + "/demo_test.go", out + "/demo_test.go.txt")
    m = {"id": sid, "round": tag, "property": prop, "summary": meta.get("summary", ""), "needs": meta.get("needs", ""),
         "files": meta.get("files", []), "demo": "demo_test.go.txt (drop into %s as demo_test.go)" % meta.get("demo_pkg_dir", "?"),
         "author": "independent sub-agent given only the property text and a scratch worktree",
         "confirmed_by_me": conf, "what_i_ran": "tools/mutant_wt.sh <worktree> <dir> " + prop + " (checks run against the patched worktree via VERIF_REPO)",
         "check_result": [re.sub(r"replay=\S+/replays/", "replay=replays/", r) for r in res], "check_detail": det[:3],
         "caught_on_first_pass": sid not in missed}
    json.dump(m, open(out + "/meta.json", "w"), indent=1)
    print("kept", sid, res[0][:40] if res else "NO RESULT", "first-pass" if sid not in missed else "after hardening")
