#!/bin/sh
# tools/harmless_wt.sh <glob of dirs with patch.diff+meta.json>   (e.g. "/tmp/mut/H0*/_out/C*-h*")
# Each harmless refactoring is applied in the worktree it lives in (…/<wt>/_out/<id>), the unedited suite must pass,
# and the property's quick check (VERIF_REPO=<wt>, from $VERIF_DIR) must stay quiet.
export GOFLAGS=-mod=mod GOPROXY=off GOSUMDB=off GOTOOLCHAIN=local
V=${VERIF_DIR:-/verif}
mkdir -p /tmp/mut/results
for d in $1; do
  [ -f $d/patch.diff ] || continue
  id=$(basename $d); p=$(echo $id | cut -d- -f1); wt=$(dirname $(dirname $d))
  out=/tmp/mut/results/$id.log
  [ -f $out ] && [ -z "$FORCE" ] && continue
  ( cd $wt && git checkout -q -- . && git clean -fdq -e _out && git apply $d/patch.diff && go build ./... && \
    if go test -vet=off -count=1 ./... >/dev/null 2>&1; then echo "CONFIRM: suite passes"; else echo "CONFIRM: suite FAILS"; fi ) > $out 2>&1
  ( cd $V && VERIF_REPO=$wt ./check $p 2>&1 | grep -E "^(OK|VIOLATION|no longer|failing)" | cut -c1-600 ) >> $out
  ( cd $wt && git checkout -q -- . && git clean -fdq -e _out )
  echo "$id: $(grep CONFIRM $out | cut -c10-) ; $(grep -E '^(OK|VIOLATION)' $out | cut -c1-110)"
done
