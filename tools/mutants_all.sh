#!/bin/sh
# run every seeded mutation found under /tmp/mut/*/_out/m* that has no result yet
mkdir -p /tmp/mut/results
for d in /tmp/mut/C*/_out/m*; do
  [ -f $d/patch.diff ] || continue
  p=$(basename $(dirname $(dirname $d))); k=$(basename $d)
  out=/tmp/mut/results/$p-$k.log
  [ -f $out ] && [ -z "$FORCE" ] && continue
  /verif/tools/mutant.sh /tmp/mut/$p $d $p > $out 2>&1
  echo "$p-$k: $(grep -c '^CONFIRM' $out) confirms; $(grep -E '^(OK|VIOLATION)' $out | cut -c1-120)"
done
