#!/bin/sh
# run every seeded mutation found under /tmp/mut/{C,D}*/_out/m* that has no result yet
mkdir -p /tmp/mut/results
for d in /tmp/mut/[CD][0-9][0-9]/_out/m*; do
  [ -f $d/patch.diff ] || continue
  [ -f $d/meta.json ] || continue
  w=$(basename $(dirname $(dirname $d))); k=$(basename $d)
  p=C$(echo $w | cut -c2-)
  id=$p-$k; [ "$(echo $w | cut -c1)" = D ] && id=$p-r2$k
  out=/tmp/mut/results/$id.log
  [ -f $out ] && [ -z "$FORCE" ] && continue
  /verif/tools/mutant.sh /tmp/mut/$w $d $p > $out 2>&1
  echo "$id: $(grep -c '^CONFIRM' $out) confirms [$(grep '^CONFIRM' $out | grep -c -i 'bad\|FAILS with')] bad; $(grep -E '^(OK|VIOLATION)' $out | cut -c1-120)"
done
