#!/usr/bin/env python3
"""Regenerates seeded/README.md from the meta.json files under seeded/."""
import json, os, glob
rows = []
for d in sorted(glob.glob('/verif/seeded/C*')):
    try:
        m = json.load(open(d + '/meta.json'))
    except Exception:
        continue
    cid = os.path.basename(d)
    first = m.get('caught_on_first_pass')
    fp = 'yes' if first is True else ('no → generator / oracle strengthened' if first is False else str(first or ''))
    res = (m.get('check_result') or [''])[0]
    res = res.split(' replay=')[0]
    rows.append(f"| {cid} | {m.get('summary','').replace('|','/')[:150]} | {fp} | {res} |")
h = sorted(glob.glob('/verif/seeded/harmless/C*'))
out = ["# Seeded changes (mutation campaign)", "",
       f"{len(rows)} seeded defects (rounds 1–6; ids: -mK round 1, -r2mK … -r6mK) and {len(h)} harmless refactorings (seeded/harmless: -eK round 1, -hK round 2).",
       "Each directory: patch.diff, the demonstration (demo_test.go.txt), meta.json (what it needs to manifest, what was run, the check's verdict).",
       "Re-run everything with tools/regress_seeded.sh (uses one scratch worktree of /repo; /repo itself is not touched).", "",
       "| id | change | caught on first pass | now |", "|---|---|---|---|"] + rows
out += ["", "## Harmless refactorings (must stay quiet)", "", "| id | refactoring |", "|---|---|"]
for d in h:
    try:
        m = json.load(open(d + '/meta.json'))
    except Exception:
        m = {}
    out.append(f"| {os.path.basename(d)} | {m.get('summary','').replace('|','/')[:170]} |")
open('/verif/seeded/README.md', 'w').write("\n".join(out) + "\n")
print(len(rows), len(h))
