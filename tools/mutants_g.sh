#!/bin/sh
# round 4 (and later): /tmp/mut/<L>NN/_out/m*  (L = letter given as $1, default G), property = C<NN>; triage through mutant_wt.sh
L=${1:-G}
mkdir -p /tmp/mut/results
for d in /tmp/mut/$L[0-9][0-9]/_out/m*; do
  [ -f $d/patch.diff ] && [ -f $d/meta.json ] || continue
  w=$(basename $(dirname $(dirname $d))); k=$(basename $d)
  p=C$(echo $w | cut -c2-)
  id=$p-${TAG:-r4}$k
  out=/tmp/mut/results/$id.log
  [ -f $out ] && [ -z "$FORCE" ] && continue
  ${RUNNER:-/verif/tools/mutant_wt.sh} /tmp/mut/$w $d $p > $out 2>&1
  echo "$id: $(grep -c '^CONFIRM' $out) confirms [$(grep '^CONFIRM' $out | grep -c -i 'bad\|FAILS with')] bad; $(grep -E '^(OK|VIOLATION)' $out | cut -c1-120)"
done
