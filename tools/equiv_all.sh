#!/bin/sh
# run every harmless refactoring under /tmp/mut/E*/_out/Cxx-eK against the check of its property (expects OK)
export GOFLAGS=-mod=mod GOPROXY=off GOSUMDB=off GOTOOLCHAIN=local
mkdir -p /tmp/mut/results
for d in /tmp/mut/E[0-9]/_out/C*-e*; do
  [ -f $d/patch.diff ] || continue
  id=$(basename $d); p=$(echo $id | cut -d- -f1)
  out=/tmp/mut/results/$id.log
  [ -f $out ] && [ -z "$FORCE" ] && continue
  wt=$(dirname $(dirname $d))
  ( cd $wt && git checkout -q -- . && git apply $d/patch.diff && go build ./... && go test -vet=off -count=1 ./... >/dev/null 2>&1 && echo "CONFIRM: suite passes" || echo "CONFIRM: suite FAILS"; git checkout -q -- . ) > $out 2>&1
  rm -rf /verif/.work/evidence.keep && cp -r /verif/evidence /verif/.work/evidence.keep
  ( cd /repo && git apply $d/patch.diff ) || { echo "$id: cannot apply"; continue; }
  ( cd /verif && ./check $p 2>&1 | grep -E "^(OK|VIOLATION|no longer|failing)" | cut -c1-500 ) >> $out
  git -C /repo checkout -- .
  rm -rf /verif/evidence && mv /verif/.work/evidence.keep /verif/evidence
  echo "$id: $(grep CONFIRM $out | cut -c10-) ; $(grep -E '^(OK|VIOLATION)' $out | cut -c1-110)"
done
