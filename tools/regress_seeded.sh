#!/bin/sh
# tools/regress_seeded.sh [dir-glob]   -- run every kept seeded change (default seeded/C*) and every harmless refactoring
# (seeded/harmless/*) against the checks of $VERIF_DIR (default /verif), using ONE scratch worktree of /repo as the
# tree under test (VERIF_REPO), so that /repo itself is never touched.  Prints one line per change.
export GOFLAGS=-mod=mod GOPROXY=off GOSUMDB=off GOTOOLCHAIN=local
V=${VERIF_DIR:-/verif}
WT=${SCRATCH_WT:-/tmp/mut/RW}
[ -d $WT ] || git -C /repo worktree add --detach $WT HEAD >/dev/null 2>&1
cd $V
for d in ${1:-$V/seeded/C*} ; do
  [ -f $d/patch.diff ] || continue
  id=$(basename $d); p=$(echo $id | cut -d- -f1)
  ( cd $WT && git checkout -q -- . && git clean -fdq && git apply $d/patch.diff ) || { echo "$id: cannot apply"; continue; }
  r=$(VERIF_REPO=$WT ./check $p 2>&1 | grep -E "^(OK|VIOLATION)" | sed 's/replay=[^ ]*//' | cut -c1-60)
  echo "$id: $r"
done
( cd $WT && git checkout -q -- . && git clean -fdq )
