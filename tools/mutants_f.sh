#!/bin/sh
# round 3: /tmp/mut/F*/_out/m*, property taken from meta.json
mkdir -p /tmp/mut/results
for d in /tmp/mut/F[0-9]/_out/m*; do
  [ -f $d/patch.diff ] && [ -f $d/meta.json ] || continue
  w=$(basename $(dirname $(dirname $d))); k=$(basename $d)
  p=$(python3 -c "import json;print(json.load(open('$d/meta.json'))['property'])")
  id=$p-r3$w$k
  out=/tmp/mut/results/$id.log
  [ -f $out ] && [ -z "$FORCE" ] && continue
  [ -n "$SKIP" ] && [ "$p" = "$SKIP" ] && continue
  /verif/tools/mutant.sh /tmp/mut/$w $d $p > $out 2>&1
  echo "$id: $(grep -c '^CONFIRM' $out) confirms; $(grep -E '^(OK|VIOLATION|cannot)' $out | cut -c1-120)"
done
