#!/bin/sh
# tools/mutant.sh <worktree> <mutation-dir> <prop> [more props...]
# 1. confirm in the scratch worktree: patch applies, builds, existing tests pass, demo fails with it and passes without.
# 2. apply to /repo, run the listed checks (quick), undo.
export GOFLAGS=-mod=mod GOPROXY=off GOSUMDB=off GOTOOLCHAIN=local
wt=$1; md=$2; shift 2
cd "$wt" || exit 2
git checkout -q -- . ; git clean -fdq -e _out
pkg=$(python3 -c "import json;print(json.load(open('$md/meta.json')).get('demo_pkg_dir','.'))" 2>/dev/null)
[ -d "$wt/$pkg" ] || pkg=$(dirname $(grep -m1 '^+++ b/' $md/patch.diff | sed 's/+++ b\///'))
demo=""
[ -f $md/demo_test.go ] && demo=$md/demo_test.go
echo "## confirm: pkg=$pkg demo=$demo"
git apply $md/patch.diff || { echo "CONFIRM: patch does not apply"; exit 3; }
go build ./... || { echo "CONFIRM: does not build"; git checkout -q -- .; exit 3; }
if go test -vet=off -count=1 ./... >/tmp/mut_suite.log 2>&1; then echo "CONFIRM: existing suite passes with the change"; else echo "CONFIRM: existing suite FAILS with the change"; tail -5 /tmp/mut_suite.log; fi
if [ -n "$demo" ]; then
  cp $demo $pkg/zz_demo_test.go
  if go test -vet=off -count=1 -run 'Demo|demo' ./$pkg/ >/tmp/mut_demo.log 2>&1; then echo "CONFIRM: demo PASSES with the change (bad)"; else echo "CONFIRM: demo fails with the change"; fi
  git checkout -q -- . 
  if go test -vet=off -count=1 -run 'Demo|demo' ./$pkg/ >/tmp/mut_demo0.log 2>&1; then echo "CONFIRM: demo passes without the change"; else echo "CONFIRM: demo FAILS without the change (bad)"; tail -5 /tmp/mut_demo0.log; fi
  rm -f $pkg/zz_demo_test.go
else
  git checkout -q -- .
  echo "CONFIRM: no demo_test.go (main program?)"
fi
git checkout -q -- . ; git clean -fdq -e _out
# 2. run checks against /repo with the change applied
cd /repo && git apply $md/patch.diff || { echo "cannot apply to /repo"; exit 4; }
cd /verif
rm -rf /verif/.work/evidence.keep && mkdir -p /verif/.work && cp -r /verif/evidence /verif/.work/evidence.keep
for p in "$@"; do
  echo "## check $p"
  ./check $p --tier ${TIER:-quick} 2>&1 | grep -E "^(OK|VIOLATION|KNOWN|no longer|failing)" | cut -c1-400
done
git -C /repo checkout -- . 
git -C /repo status --short | head -3
# evidence files must describe the unchanged tree: restore them
rm -rf /verif/evidence && mv /verif/.work/evidence.keep /verif/evidence
