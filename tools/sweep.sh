#!/bin/sh
# tools/sweep.sh <tier> <seed>...   -- unchanged-tree sweep for false alarms (run via: vp run --with-repo -- tools/sweep.sh quick 11 12 13)
# Uses the repository snapshot in $VP_RUN_REPO when present so that edits to /repo do not disturb it.
tier=$1; shift
[ -n "$VP_RUN_REPO" ] && export VERIF_REPO=$VP_RUN_REPO
./setup.sh > setup.log 2>&1 || { echo "setup failed"; tail -20 setup.log; exit 2; }
rc=0
for s in "$@"; do
  echo "== seed $s tier $tier"
  VERIF_SEED=$s ./run_all.sh $tier || rc=1
done
echo "sweep done rc=$rc"
exit $rc
