#!/bin/sh
# tools/mutant_wt.sh <worktree> <mutation-dir> <prop> [more props...]
# Like mutant.sh, but the checks run from $VERIF_DIR (default /verif) against the WORKTREE with the patch
# applied (VERIF_REPO), so neither /repo nor /verif's build are touched: used for triage from a clone of /verif.
export GOFLAGS=-mod=mod GOPROXY=off GOSUMDB=off GOTOOLCHAIN=local
V=${VERIF_DIR:-/verif}
wt=$1; md=$2; shift 2
cd "$wt" || exit 2
git checkout -q -- . ; git clean -fdq -e _out
pkg=$(python3 -c "import json;print(json.load(open('$md/meta.json')).get('demo_pkg_dir','.'))" 2>/dev/null)
[ -d "$wt/$pkg" ] || pkg=$(dirname $(grep -m1 '^+++ b/' $md/patch.diff | sed 's/+++ b\///'))
demo=""
[ -f $md/demo_test.go ] && demo=$md/demo_test.go
echo "## confirm: pkg=$pkg demo=$demo"
git apply $md/patch.diff || { echo "CONFIRM: patch does not apply"; exit 3; }
go build ./... || { echo "CONFIRM: does not build"; git checkout -q -- .; exit 3; }
if go test -vet=off -count=1 ./... >$wt/_out/suite.log 2>&1; then echo "CONFIRM: existing suite passes with the change"; else echo "CONFIRM: existing suite FAILS with the change"; tail -5 $wt/_out/suite.log; fi
if [ -n "$demo" ]; then
  cp $demo $pkg/zz_demo_test.go
  if go test -vet=off -count=1 -run 'Demo|demo' ./$pkg/ >$wt/_out/demo1.log 2>&1; then echo "CONFIRM: demo PASSES with the change (bad)"; else echo "CONFIRM: demo fails with the change"; fi
  git checkout -q -- .
  if go test -vet=off -count=1 -run 'Demo|demo' ./$pkg/ >$wt/_out/demo0.log 2>&1; then echo "CONFIRM: demo passes without the change"; else echo "CONFIRM: demo FAILS without the change (bad)"; tail -5 $wt/_out/demo0.log; fi
  rm -f $pkg/zz_demo_test.go
else
  echo "CONFIRM: no demo_test.go"
fi
git checkout -q -- . ; git clean -fdq -e _out
git apply $md/patch.diff
cd $V
for p in "$@"; do
  echo "## check $p"
  VERIF_REPO=$wt ./check $p --tier ${TIER:-quick} 2>&1 | grep -E "^(OK|VIOLATION|KNOWN|no longer|failing)" | cut -c1-400
done
cd $wt && git checkout -q -- . ; git clean -fdq -e _out
