#!/bin/sh
# Build everything once, offline, from files on disk.
set -e
cd "$(dirname "$0")"
export GOFLAGS=-mod=mod GOPROXY=off GOSUMDB=off GOTOOLCHAIN=local CGO_ENABLED=0
REPO=${VERIF_REPO:-/repo}
mkdir -p harness/bin evidence replays .work lean/Bio/Generated
cp $REPO/go.sum harness/go.sum
if [ "$REPO" != /repo ]; then   # background sweeps against a snapshot of the repository (never the registered commands)
  sed "s#=> /repo#=> $REPO#" harness/go.mod > harness/go.alt.mod; cp $REPO/go.sum harness/go.alt.sum
  export GOFLAGS="-mod=mod -modfile=$(pwd)/harness/go.alt.mod"
fi
(cd harness && go build -o bin/tablegen ./cmd/tablegen && go build -o bin/translate ./cmd/translate && go build -o bin/corr ./cmd/corr)
rm -f lean/Bio/Generated/Tables.lean lean/Bio/Generated/Flag.lean lean/Bio/Generated/Src.lean lean/Bio/Generated/GoSrc.lean
(cd harness && ./bin/tablegen ../lean/Bio/Generated/Tables.lean && ./bin/translate $REPO/formats/sam/flag.go ../lean/Bio/Generated/Flag.lean && ./bin/translate -src $REPO ../lean/Bio/Generated/Src.lean && ./bin/translate -go $REPO ../lean/Bio/Generated/GoSrc.lean)
(cd lean && lake build Bio biodriver)
# the property modules (some may legitimately fail to build if /repo violates a property; checks report that)
(cd lean && lake build Bio.Props.All) || true
