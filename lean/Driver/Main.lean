/-
  Line-protocol driver: one operation per input line, one canonical output
  line per operation, computed by the SAME definitions the theorems are about
  (Bio.Model.*).  Core Lean only, so it links as a `lean_exe`.
-/
import Bio.Model.Basic
import Bio.Model.Lines
import Bio.Model.Fasta
import Bio.Model.Fastq
import Bio.Model.Sam
import Bio.Model.Bed
import Bio.Model.Newick
import Bio.Model.Traverse
import Bio.Model.Align
import Bio.Model.Sequtil
import Bio.Model.Trie
import Bio.Model.Regions
import Bio.Model.Mash
import Bio.Model.Matrix
import Bio.Model.Float
import Bio.Generated.Tables

open Bio

namespace Driver

/-! ## Text helpers -/

def hexNib (n : Nat) : Char := if n < 10 then Char.ofNat (48 + n) else Char.ofNat (87 + n)

def hexOf (b : Bytes) : String :=
  if b.isEmpty then "-" else
  String.ofList (b.foldr (fun x acc => hexNib (x.toNat / 16) :: hexNib (x.toNat % 16) :: acc) [])

def nibVal (c : Char) : Nat :=
  let n := c.toNat
  if 48 ≤ n && n ≤ 57 then n - 48 else if 97 ≤ n && n ≤ 102 then n - 87 else 0

def unhexChars : List Char → Bytes
  | a :: b :: rest => UInt8.ofNat (nibVal a * 16 + nibVal b) :: unhexChars rest
  | _ => []

def unhex (s : String) : Bytes := if s == "-" then [] else unhexChars s.toList

def intOf (s : String) : Int := s.toInt?.getD 0
def natOf (s : String) : Nat := s.toNat?.getD 0

def endingOf (s : String) : Ending := if s == "f" then .fail else .eof

def joinS (sep : String) (l : List String) : String := sep.intercalate l

def itemsS {α : Type} (f : α → String) (l : List (Item α)) : String :=
  if l.isEmpty then "." else
  joinS "|" (l.map fun i => match i with
    | .ok r => f r
    | .err => "E")

def ints (l : List Int) : String := if l.isEmpty then "-" else joinS "," (l.map toString)
def nats (l : List Nat) : String := if l.isEmpty then "-" else joinS "," (l.map toString)
def intsOf (s : String) : List Int := if s == "-" then [] else (s.splitOn ",").map intOf

/-- The consumer that declines at its `j`-th call (1-based; 0 = never), as a
pure function of the items: used only through `stopAt`. -/
def stopAt {α : Type} (j : Nat) (full : List α) : List α := if j == 0 then full else full.take j

/-! ## Records -/

def faS (r : Fasta.Fa) : String := s!"R {hexOf r.name} {hexOf r.seq}"
def fqS (r : Fastq.Fq) : String := s!"R {hexOf r.name} {hexOf r.seq} {hexOf r.quals}"

def tagS (p : Bytes × Sam.TagVal) : String :=
  match p.2 with
  | .A c => s!"{hexOf p.1} A {c.toNat}"
  | .I n => s!"{hexOf p.1} I {n}"
  | .F t => s!"{hexOf p.1} F {hexOf t}"
  | .Z s => s!"{hexOf p.1} Z {hexOf s}"
  | .H b => s!"{hexOf p.1} H {hexOf b}"

def samS (s : Sam.Sam) : String :=
  let base := s!"S {hexOf s.qname} {s.flag} {hexOf s.rname} {s.pos} {s.mapq} {hexOf s.cigar} {hexOf s.rnext} {s.pnext} {s.tlen} {hexOf s.seq} {hexOf s.qual} {s.tags.length}"
  if s.tags.isEmpty then base else base ++ " " ++ joinS " " (s.tags.map tagS)

def parseTagsS : Nat → List String → List (Bytes × Sam.TagVal)
  | 0, _ => []
  | n + 1, name :: ty :: v :: rest =>
    let tv : Sam.TagVal := match ty with
      | "A" => .A (UInt8.ofNat (natOf v))
      | "I" => .I (intOf v)
      | "F" => .F (unhex v)
      | "Z" => .Z (unhex v)
      | _ => .H (unhex v)
    (unhex name, tv) :: parseTagsS n rest
  | _, _ => []

def samOf (a : List String) : Option Sam.Sam :=
  match a with
  | qn :: fl :: rn :: po :: mq :: cg :: rx :: pn :: tl :: sq :: ql :: nt :: rest =>
    some ⟨unhex qn, intOf fl, unhex rn, intOf po, intOf mq, unhex cg, unhex rx, intOf pn, intOf tl,
          unhex sq, unhex ql, parseTagsS (natOf nt) rest⟩
  | _ => none

def entryS (e : Sam.Entry) : String :=
  match e with
  | .hdr h => s!"H {hexOf h}"
  | .sam s => samS s

def bedS (b : Bed.Bed) : String :=
  s!"B {b.n} {hexOf b.chrom} {b.chromStart} {b.chromEnd} {hexOf b.name} {b.score} {hexOf b.strand} {b.thickStart} {b.thickEnd} {b.rgb.1.toNat},{b.rgb.2.1.toNat},{b.rgb.2.2.toNat} {b.blockCount} {ints b.blockSizes} {ints b.blockStarts}"

def bedOf (a : List String) : Option Bed.Bed :=
  match a with
  | [n, ch, cs, ce, nm, sc, st, ts, te, rgb, bc, bs, bst] =>
    let c := (rgb.splitOn ",").map natOf
    some ⟨intOf n, unhex ch, intOf cs, intOf ce, unhex nm, intOf sc, unhex st, intOf ts, intOf te,
      (UInt8.ofNat (c.getD 0 0), UInt8.ofNat (c.getD 1 0), UInt8.ofNat (c.getD 2 0)),
      intOf bc, intsOf bs, intsOf bst⟩
  | _ => none

/-! ## Trees: pre-order token triples `name dist nkids` -/

open Newick in
partial def treeToks (t : Tree) : List String :=
  let rec kidsToks : Forest → List String
    | .nil => []
    | .cons n d k r => treeToks ⟨n, d, k⟩ ++ kidsToks r
  let d := match t.dist with
    | none => "~"
    | some x => hexOf x
  [hexOf t.name, d, toString t.kids.length] ++ kidsToks t.kids

def treeS (t : Newick.Tree) : String := "T " ++ joinS " " (treeToks t)

open Newick in
/-- Parse one tree from tokens; returns the tree and the remaining tokens. -/
partial def treeOf : List String → Option (Tree × List String)
  | name :: d :: nk :: rest =>
    let rec kids : Nat → List String → Forest → Option (Forest × List String)
      | 0, toks, acc => some (acc, toks)
      | n + 1, toks, acc =>
        match treeOf toks with
        | some (t, toks') => kids n toks' (acc.snoc t)
        | none => none
    match kids (natOf nk) rest .nil with
    | some (f, rest') =>
      some (⟨unhex name, if d == "~" then none else some (unhex d), f⟩, rest')
    | none => none
  | _ => none

/-! ## Matrices -/

def stepS (s : Align.Step) : String :=
  match s with
  | .none => "0" | .mch => "1" | .del => "2" | .ins => "3"

/-- `n k0 k1 v ...` → association list, rest of tokens. -/
def matOf : List String → List ((UInt8 × UInt8) × Int) × List String
  | n :: rest =>
    let rec go : Nat → List String → List ((UInt8 × UInt8) × Int) → List ((UInt8 × UInt8) × Int) × List String
      | 0, toks, acc => (acc.reverse, toks)
      | k + 1, a :: b :: v :: toks, acc => go k toks (((UInt8.ofNat (natOf a), UInt8.ofNat (natOf b)), intOf v) :: acc)
      | _, toks, acc => (acc.reverse, toks)
    go (natOf n) rest []
  | [] => ([], [])

def matS (m : Matrix.M) : String :=
  toString m.length ++ (m.foldl (fun acc e => acc ++ s!" {e.1.1.toNat} {e.1.2.toNat} {e.2}") "")

def shipped (name : String) : Option (List ((UInt8 × UInt8) × Int)) :=
  match name with
  | "blosum45" => some Generated.blosum45
  | "blosum62" => some Generated.blosum62
  | "blosum80" => some Generated.blosum80
  | "pam120" => some Generated.pam120
  | "pam160" => some Generated.pam160
  | "pam250" => some Generated.pam250
  | _ => none

/-- The association list as an array of 65536 entries (first entry wins, as `List.find?`). -/
def matArr (l : List ((UInt8 × UInt8) × Int)) : Array (Option Int) :=
  l.foldl
    (fun (a : Array (Option Int)) e =>
      let i := e.1.1.toNat * 256 + e.1.2.toNat
      if ((a[i]?).getD none).isSome then a else a.set! i (some e.2))
    (Array.replicate 65536 none)

/-- Matrix function over a prebuilt array (build the array ONCE per op: a `let` inside
`fun x y => …` would be recomputed at every look-up). -/
def pmatOfArr (arr : Array (Option Int)) : Align.PMat :=
  fun x y => (arr[x.toNat * 256 + y.toNat]?).getD none

def levPMat : Align.PMat := fun x y => some (if x == y then 0 else -1)

/-! ## murmur3 x64-128, first 64 bits, seed 0 (spaolacci/murmur3 `Sum64`) -/

def rotl (x : UInt64) (r : UInt64) : UInt64 := (x <<< r) ||| (x >>> (64 - r))
def c1 : UInt64 := 0x87c37b91114253d5
def c2 : UInt64 := 0x4cf5ad432745937f

def le64 (b : List UInt8) : UInt64 :=
  (b.take 8).reverse.foldl (fun acc x => (acc <<< 8) ||| x.toUInt64) 0

def fmix (k : UInt64) : UInt64 :=
  let k := k ^^^ (k >>> 33)
  let k := k * 0xff51afd7ed558ccd
  let k := k ^^^ (k >>> 33)
  let k := k * 0xc4ceb9fe1a85ec53
  k ^^^ (k >>> 33)

partial def murmurBlocks (h1 h2 : UInt64) (b : List UInt8) : UInt64 × UInt64 × List UInt8 :=
  if b.length < 16 then (h1, h2, b) else
  let k1 := le64 b
  let k2 := le64 (b.drop 8)
  let k1 := rotl (k1 * c1) 31 * c2
  let h1 := h1 ^^^ k1
  let h1 := (rotl h1 27 + h2) * 5 + 0x52dce729
  let k2 := rotl (k2 * c2) 33 * c1
  let h2 := h2 ^^^ k2
  let h2 := (rotl h2 31 + h1) * 5 + 0x38495ab5
  murmurBlocks h1 h2 (b.drop 16)

def murmur64 (data : Bytes) : UInt64 :=
  let (h1, h2, tail) := murmurBlocks 0 0 data
  let k2 : UInt64 := le64 (tail.drop 8)
  let h2 := if tail.length > 8 then h2 ^^^ (rotl (k2 * c2) 33 * c1) else h2
  let k1 : UInt64 := le64 tail
  let h1 := if tail.length > 0 then h1 ^^^ (rotl (k1 * c1) 31 * c2) else h1
  let n : UInt64 := UInt64.ofNat data.length
  let h1 := h1 ^^^ n
  let h2 := h2 ^^^ n
  let h1 := h1 + h2
  let h2 := h2 + h1
  let h1 := fmix h1
  let h2 := fmix h2
  h1 + h2

def hashNat (b : Bytes) : Nat := (murmur64 b).toNat

/-! ## Trie histories -/

def trieOp (t : Trie.T) (op : String) : Trie.T × String :=
  let kind := op.take 1
  let arg := unhex (op.drop 1).toString
  match kind.toString with
  | "a" => (Trie.add arg t, "ok")
  | "d" => match Trie.del arg t with
    | some t' => (t', "1")
    | none => (t, "0")
  | "h" => (t, if Trie.has arg t then "1" else "0")
  | "e" =>
    let ms := (Trie.members t).map hexOf
    (t, "e:" ++ joinS "," (ms.toArray.qsort (· < ·)).toList)
  | "j" => (t, "j:" ++ hexOf (Trie.toJSON t))
  | _ => (t, "bad-op")

/-! ## Dispatch -/

def optS (o : Option String) : String := o.getD "P"

def qs : Bytes := Generated.newickQuoteBytes
def ctbl : List UInt8 := Generated.compTable

def step (line : String) : String :=
  match (line.trimAscii.toString.splitOn " ") with
  | ["fa.enc", n, s] => hexOf (Fasta.encode Generated.fastaLineLen ⟨unhex n, unhex s⟩)
  | ["fa.dec", e, x] => itemsS faS (Fasta.decodeSrc (endingOf e) (unhex x))
  | ["fq.enc", n, s, q] => hexOf (Fastq.encode ⟨unhex n, unhex s, unhex q⟩)
  | ["fq.dec", e, x] => itemsS fqS (Fastq.decodeSrc (endingOf e) (unhex x))
  | "sam.enc" :: rest => optS ((samOf rest).map fun s => hexOf (Sam.encode s))
  | ["sam.dec", e, x] => itemsS samS (Sam.decodeSrc FloatTok.samFloat (endingOf e) (unhex x))
  | ["sam.dech", e, x] => itemsS entryS (Sam.decodeHeaderSrc FloatTok.samFloat (endingOf e) (unhex x))
  | "bed.enc" :: rest =>
    match bedOf rest with
    | some b => match Bed.encode b with
      | some t => hexOf t
      | none => "ERR"
    | none => "bad-op"
  | ["bed.dec", e, x] => itemsS bedS (Bed.decodeSrc (endingOf e) (unhex x))
  | "nwk.enc" :: rest =>
    match treeOf rest with
    | some (t, _) => hexOf (Newick.write qs t)
    | none => "bad-op"
  | ["nwk.dec", e, x] => itemsS treeS (Newick.decodeSrc FloatTok.newickDist (endingOf e) (unhex x))
  | "tv" :: ord :: j :: rest =>
    match treeOf rest with
    | some (t, _) =>
      let pre := ord == "pre"
      let jn := natOf j
      -- consumer declines at its jn-th call: count calls through the log length
      let full := Newick.traverse pre (fun _ => true) t
      let log := if jn == 0 then full else
        -- run the real model loop with a consumer that knows the jn-th item
        let target := full.take jn
        -- the consumer is a function of the node only; use position via name ids (names unique)
        match target.getLast? with
        | some last => if target.length < jn then full else Newick.traverse pre (fun n => n.name != last.name) t
        | none => full
      joinS "," (log.map fun n => hexOf n.name)
    | none => "bad-op"
  | "al.global" :: rest =>
    let (ml, rest) := matOf rest
    match rest with
    | [a, b] => match Align.globalP (pmatOfArr (matArr ml)) (unhex a) (unhex b) with
      | some (steps, sc) => s!"{joinS "" (steps.map stepS)} {sc}"
      | none => "P"
    | _ => "bad-op"
  | "al.local" :: rest =>
    let (ml, rest) := matOf rest
    match rest with
    | [a, b] => match Align.localP (pmatOfArr (matArr ml)) (unhex a) (unhex b) with
      | some (steps, ai, bi, sc) => s!"{joinS "" (steps.map stepS)} {ai} {bi} {sc}"
      | none => "P"
    | _ => "bad-op"
  | ["al.ship", name, which, a, b] =>
    match shipped name with
    | some ml =>
      if which == "g" then
        match Align.globalP (pmatOfArr (matArr ml)) (unhex a) (unhex b) with
        | some (steps, sc) => s!"{joinS "" (steps.map stepS)} {sc}"
        | none => "P"
      else match Align.localP (pmatOfArr (matArr ml)) (unhex a) (unhex b) with
        | some (steps, ai, bi, sc) => s!"{joinS "" (steps.map stepS)} {ai} {bi} {sc}"
        | none => "P"
    | none => "bad-op"
  | ["al.lev", a, b] =>
    match Align.globalP levPMat (unhex a) (unhex b) with
    | some (steps, sc) => s!"{joinS "" (steps.map stepS)} {sc}"
    | none => "P"
  | ["su.rc", d, s] => optS ((Sequtil.revComp ctbl (unhex d) (unhex s)).map hexOf)
  | ["su.canon", k, j, s] =>
    let jn := natOf j
    match Sequtil.canonical ctbl (unhex s) (natOf k) with
    | none => "P"
    | some full => joinS "," ((stopAt jn full).map hexOf)
  | ["su.to2bit", d, s] => optS ((Sequtil.to2bit Generated.ntoiTable (unhex d) (unhex s)).map hexOf)
  | ["su.from2bit", d, s] => hexOf (Sequtil.from2bit Generated.from2bitTable (unhex d) (unhex s))
  | ["su.ntoi", b] => toString (Sequtil.ntoi Generated.ntoiTable (UInt8.ofNat (natOf b)))
  | ["su.iton", n] => toString (Sequtil.iton (intOf n)).toNat
  | ["su.translate", d, s] => optS ((Sequtil.translate Generated.codonTable (unhex d) (unhex s)).map hexOf)
  | ["su.frames", s] => optS ((Sequtil.frames Generated.codonTable (unhex s)).map fun l => joinS "," (l.map hexOf))
  | ["su.amino", b] =>
    optS ((Sequtil.aminoName Generated.aminoTable (UInt8.ofNat (natOf b))).map fun p => s!"{hexOf p.1} {hexOf p.2}")
  | "tr.hist" :: ops =>
    let (_, outs) := ops.foldl (fun (st : Trie.T × List String) op =>
      let (t', o) := trieOp st.1 op
      (t', o :: st.2)) (Trie.T.nil, [])
    joinS "|" outs.reverse
  | "tr.each" :: j :: ops =>
    -- build with adds, then ForEach with a consumer declining at call j: log length only
    let t := ops.foldl (fun t op => Trie.add (unhex op) t) Trie.T.nil
    let full := Trie.members t
    let jn := natOf j
    toString (if jn == 0 then full.length else min jn full.length)
  | ["rg.at", s, e, q] =>
    match Regions.newIndex (intsOf s) (intsOf e) with
    | none => "P"
    | some idx => joinS "|" ((intsOf q).map fun i => nats (Regions.at' idx i))
  | "ms.sketch" :: n :: k :: seqs =>
    optS ((Mash.sketch ctbl hashNat (natOf n) (natOf k) (seqs.map unhex)).map nats)
  | "ms.add" :: n :: k :: m :: seqs =>
    -- first m sequences in one call, the rest added afterwards
    let all := seqs.map unhex
    let first := all.take (natOf m)
    let second := all.drop (natOf m)
    optS (((Mash.sketch ctbl hashNat (natOf n) (natOf k) first).bind
      fun s => Mash.addTo ctbl hashNat (natOf n) (natOf k) s second).map nats)
  | ["ms.jac", n, a, b] =>
    let r := Mash.intersect (natOf n) ((intsOf a).map Int.toNat) ((intsOf b).map Int.toNat)
    s!"{r.1} {r.2}"
  | ["sm.read", x] => optS ((Matrix.readNCBI (unhex x)).map matS)
  | "sm.sym" :: rest => optS ((Matrix.symmetrical (matOf rest).1).map matS)
  | "sm.gostr" :: rest => hexOf (Matrix.goString Generated.quoteTable (matOf rest).1)
  | _ => "bad-op"

partial def loop (inp : IO.FS.Stream) (out : IO.FS.Stream) : IO Unit := do
  let line ← inp.getLine
  if line.isEmpty then return ()
  out.putStrLn (step line)
  loop inp out

end Driver

def main : IO Unit := do
  let inp ← IO.getStdin
  let out ← IO.getStdout
  Driver.loop inp out
  out.flush
