/-
  Generic lemmas for the Go-source-level proofs about align/{align,global,local}.go
  (`Bio/Props/C08Go.lean`): the encoding of model cells as translated `block`s, flat
  (row-major) indices, the `for cond { }` loop with fuel, the in-place reversal loop,
  the flat dynamic-programming loop.  Nothing here mentions `Bio.Generated.GoSrc`.
-/
import Bio.Lemmas.GoRt
import Bio.Lemmas.Align

set_option linter.unusedVariables false
set_option linter.unusedSimpArgs false
namespace Bio.GoSrcLemmas
open Bio Bio.GoRt

/-! ## Encodings -/

/-- a model step as the translated `Step` byte -/
def encStep : Align.Step → UInt8
  | .none => 0
  | .mch => 1
  | .del => 2
  | .ins => 3

/-- a model cell as the translated `block{score, step}` -/
def encCell (c : Align.Cell) : Int × UInt8 := (c.score, encStep c.step)

/-- the translated `map[[2]byte]float64` as the model's partial matrix -/
def matOf (m : List (List UInt8 × Int)) : Align.PMat :=
  fun x y => (m.find? fun e => e.1 == [x, y]).map (·.2)

theorem encStep_inj {s t : Align.Step} (h : encStep s = encStep t) : s = t := by
  cases s <;> cases t <;> first | rfl | exact absurd h (by decide)

@[simp] theorem encStep_eq_zero (s : Align.Step) : (encStep s == 0) = (s == .none) := by
  cases s <;> decide
@[simp] theorem encStep_eq_one (s : Align.Step) : (encStep s == 1) = (s == .mch) := by
  cases s <;> decide
@[simp] theorem encStep_eq_two (s : Align.Step) : (encStep s == 2) = (s == .del) := by
  cases s <;> decide
@[simp] theorem encStep_eq_three (s : Align.Step) : (encStep s == 3) = (s == .ins) := by
  cases s <;> decide
@[simp] theorem encStep_ne_two (s : Align.Step) : (encStep s != 2) = (s != .del) := by
  cases s <;> decide
@[simp] theorem encStep_ne_three (s : Align.Step) : (encStep s != 3) = (s != .ins) := by
  cases s <;> decide

@[simp] theorem encCell_fst (c : Align.Cell) : (encCell c).1 = c.score := rfl
@[simp] theorem encCell_snd (c : Align.Cell) : (encCell c).2 = encStep c.step := rfl

/-! ## Flat (row-major) positions -/

/-- flat index of cell `(i, j)` in a table with rows of length `bn` -/
def alnPos (bn i j : Nat) : Nat := i * bn + j

theorem alnPos_div (bn i j : Nat) (hj : j < bn) : alnPos bn i j / bn = i := by
  unfold alnPos
  rw [Nat.mul_comm, Nat.mul_add_div (by omega), Nat.div_eq_of_lt hj]; rfl

theorem alnPos_mod (bn i j : Nat) (hj : j < bn) : alnPos bn i j % bn = j := by
  unfold alnPos
  rw [Nat.mul_comm, Nat.mul_add_mod, Nat.mod_eq_of_lt hj]

theorem alnPos_exists (bn k : Nat) (hbn : 0 < bn) : ∃ i j, j < bn ∧ k = alnPos bn i j :=
  ⟨k / bn, k % bn, Nat.mod_lt _ hbn, by unfold alnPos; rw [Nat.mul_comm]; exact (Nat.div_add_mod k bn).symm⟩

theorem alnPos_succ_left (bn i j : Nat) : alnPos bn (i + 1) j = alnPos bn i j + bn := by
  unfold alnPos; rw [Nat.succ_mul]; omega

theorem alnPos_succ_right (bn i j : Nat) : alnPos bn i (j + 1) = alnPos bn i j + 1 := by
  unfold alnPos; omega

theorem alnPos_zero (bn : Nat) : alnPos bn 0 0 = 0 := by simp [alnPos]

theorem alnPos_lt (bn an i j : Nat) (hi : i < an) (hj : j < bn) : alnPos bn i j < an * bn := by
  unfold alnPos
  calc i * bn + j < i * bn + bn := by omega
    _ = (i + 1) * bn := by rw [Nat.succ_mul]
    _ ≤ an * bn := Nat.mul_le_mul_right _ hi

theorem alnPos_lt_iff_row (bn an i j : Nat) (hj : j < bn) (h : alnPos bn i j < an * bn) : i < an := by
  unfold alnPos at h
  apply Nat.lt_of_not_le
  intro hle
  have : an * bn ≤ i * bn := Nat.mul_le_mul_right _ hle
  omega

theorem quo_alnPos (bn i j : Nat) (hj : j < bn) :
    quo ((alnPos bn i j : Nat) : Int) (bn : Int) = some (i : Int) := by
  unfold quo
  have h0 : ¬ ((bn : Int) = 0) := by omega
  rw [if_neg h0, Int.natCast_tdiv_eq_ediv, ← Int.natCast_ediv, alnPos_div bn i j hj]

theorem rem_alnPos (bn i j : Nat) (hj : j < bn) :
    rem ((alnPos bn i j : Nat) : Int) (bn : Int) = some (j : Int) := by
  unfold rem
  have h0 : ¬ ((bn : Int) = 0) := by omega
  rw [if_neg h0, ← Int.ofNat_tmod, alnPos_mod bn i j hj]

/-! ## The flat table -/

/-- cell `k` of the flattened (row-major) model table, as a translated `block` -/
def alnCellF (t : List (List Align.Cell)) (bn k : Nat) : Int × UInt8 :=
  encCell (Align.cellAt t (k / bn) (k % bn))

/-- the model table, flattened, as the translated `[]block` -/
def alnFlat (t : List (List Align.Cell)) (an bn : Nat) : List (Int × UInt8) :=
  (List.range (an * bn)).map (alnCellF t bn)

theorem alnCellF_pos (t : List (List Align.Cell)) (bn i j : Nat) (hj : j < bn) :
    alnCellF t bn (alnPos bn i j) = encCell (Align.cellAt t i j) := by
  unfold alnCellF; rw [alnPos_div bn i j hj, alnPos_mod bn i j hj]

theorem alnFlat_length (t : List (List Align.Cell)) (an bn : Nat) : (alnFlat t an bn).length = an * bn := by
  simp [alnFlat]

theorem alnFlat_getElem? (t : List (List Align.Cell)) (an bn k : Nat) (hk : k < an * bn) :
    (alnFlat t an bn)[k]? = some (alnCellF t bn k) := by
  simp [alnFlat, hk]

theorem alnFlat_pos (t : List (List Align.Cell)) (an bn i j : Nat) (hi : i < an) (hj : j < bn) :
    (alnFlat t an bn)[alnPos bn i j]? = some (encCell (Align.cellAt t i j)) := by
  rw [alnFlat_getElem? t an bn _ (alnPos_lt bn an i j hi hj), alnCellF_pos t bn i j hj]

/-! ## The dynamic-programming loop over the flat array -/

/-- a loop `for i := range blocks { … blocks[i] = F i … }` that fills cell `k` with `F k` (reading
only already filled cells) or panics when `ok k` fails: it yields the whole table, or panics when
some `ok k` fails -/
theorem aln_dp_loop (F : Nat → Int × UInt8) (ok : Nat → Bool) (N : Nat)
    (body : Int → List (Int × UInt8) → Option (ForInStep (List (Int × UInt8))))
    (hbody : ∀ (k : Nat) (blocks : List (Int × UInt8)), k < N → blocks.length = N →
      (∀ k', k' < k → ok k' = true) → (∀ k', k' < k → blocks[k']? = some (F k')) →
      (∀ k', k ≤ k' → k' < N → blocks[k']? = some (0, 0)) →
      body (Int.ofNat k) blocks = if ok k then some (.yield (blocks.set k (F k))) else none) :
    ∀ (n k : Nat) (blocks : List (Int × UInt8)), k + n = N → blocks.length = N →
      (∀ k', k' < k → ok k' = true) → (∀ k', k' < k → blocks[k']? = some (F k')) →
      (∀ k', k ≤ k' → k' < N → blocks[k']? = some (0, 0)) →
      forIn ((List.range' k n).map Int.ofNat) blocks body
        = if (List.range' k n).all ok then some ((List.range N).map F) else none := by
  intro n
  induction n with
  | zero =>
    intro k blocks hk hlen hok hprev hzero
    have : k = N := by omega
    subst this
    simp only [List.range'_zero, List.map_nil, List.forIn_nil, List.all_nil, if_true, Option.pure_def]
    congr 1
    apply List.ext_getElem?
    intro p
    by_cases hp : p < k
    · rw [hprev p hp]; simp [hp]
    · rw [List.getElem?_eq_none (by omega), List.getElem?_eq_none (by simp; omega)]
  | succ n ih =>
    intro k blocks hk hlen hok hprev hzero
    simp only [List.range'_succ, List.map_cons, List.forIn_cons, List.all_cons]
    rw [hbody k blocks (by omega) hlen hok hprev hzero]
    cases hokk : ok k with
    | false => simp
    | true =>
      simp only [if_true, Option.bind_eq_bind, Option.bind_some, Bool.true_and]
      apply ih (k + 1) _ (by omega) (by simp [hlen])
      · intro k' hk'
        by_cases h : k' = k
        · subst h; exact hokk
        · exact hok k' (by omega)
      · intro k' hk'
        by_cases h : k' = k
        · subst h; rw [List.getElem?_set_self (by omega)]
        · rw [List.getElem?_set_ne (by omega)]; exact hprev k' (by omega)
      · intro k' hk' hk'N
        rw [List.getElem?_set_ne (by omega)]; exact hzero k' (by omega) hk'N

/-! ## The in-place reversal loop -/

/-- `for i := 0; i < len(s)/2; i++ { s[i], s[len(s)-1-i] = s[len(s)-1-i], s[i] }` reverses `s` -/
theorem aln_reverse_loop {α : Type} (orig : List α)
    (body : Int → List α → Option (ForInStep (List α)))
    (hbody : ∀ (k : Nat) (st : List α) (x y : α), st.length = orig.length → k < orig.length / 2 →
      st[k]? = some x → st[orig.length - 1 - k]? = some y →
      body (Int.ofNat k) st = some (.yield ((st.set k y).set (orig.length - 1 - k) x))) :
    forIn (upTo (Int.tdiv (len orig) 2)) orig body = some orig.reverse := by
  have key : ∀ (n k : Nat) (st : List α), k + n = orig.length / 2 → st.length = orig.length →
      (∀ p, p < orig.length →
        st[p]? = if p < k ∨ orig.length - k ≤ p then orig[orig.length - 1 - p]? else orig[p]?) →
      forIn ((List.range' k n).map Int.ofNat) st body = some orig.reverse := by
    intro n
    induction n with
    | zero =>
      intro k st hk hlen hinv
      simp only [List.range'_zero, List.map_nil, List.forIn_nil, Option.pure_def]
      congr 1
      apply List.ext_getElem?
      intro p
      by_cases hp : p < orig.length
      · rw [hinv p hp, List.getElem?_reverse hp]
        split
        · rfl
        · have : orig.length - 1 - p = p := by omega
          rw [this]
      · rw [List.getElem?_eq_none (by omega), List.getElem?_eq_none (by simp; omega)]
    | succ n ih =>
      intro k st hk hlen hinv
      simp only [List.range'_succ, List.map_cons, List.forIn_cons]
      have hkL : k < orig.length := by omega
      have h1 : st[k]? = some orig[k] := by
        rw [hinv k hkL, if_neg (by omega)]; simp [hkL]
      have hk2 : orig.length - 1 - k < orig.length := by omega
      have h2 : st[orig.length - 1 - k]? = some orig[orig.length - 1 - k] := by
        rw [hinv _ hk2, if_neg (by omega)]; simp [hk2]
      rw [hbody k st _ _ hlen (by omega) h1 h2]
      simp only [Option.bind_eq_bind, Option.bind_some]
      apply ih (k + 1) _ (by omega) (by simp [hlen])
      intro p hp
      by_cases hp1 : orig.length - 1 - k = p
      · subst hp1
        rw [List.getElem?_set_self (by simp [hlen]; omega), if_pos (by omega)]
        have : orig.length - 1 - (orig.length - 1 - k) = k := by omega
        rw [this]; simp [hkL]
      · rw [List.getElem?_set_ne hp1]
        by_cases hp2 : k = p
        · subst hp2
          rw [List.getElem?_set_self (by omega), if_pos (by omega)]
          simp [hk2]
        · rw [List.getElem?_set_ne hp2, hinv p hp]
          by_cases hp3 : p < k ∨ orig.length - k ≤ p
          · rw [if_pos hp3, if_pos (by omega)]
          · rw [if_neg hp3, if_neg (by omega)]
  have hup : upTo (Int.tdiv (len orig) 2) = (List.range' 0 (orig.length / 2)).map Int.ofNat := by
    unfold upTo len
    have : (Int.tdiv (orig.length : Int) 2).toNat = orig.length / 2 := by
      rw [Int.natCast_tdiv_eq_ediv]; omega
    rw [this, List.range_eq_range']
  rw [hup]
  apply key _ 0 orig (by omega) rfl
  intro p hp
  rw [if_neg (by omega)]

/-! ## The global traceback loop -/

/-- the `for i > 0 { … }` loop of `traceAlignmentSteps` on the flattened global table, started at
cell `(i, j)`: it appends the model's `traceG` path, ends at index 0 with `done`, and needs
`i + j + 1` iterations at most -/
theorem aln_traceG_loop (m : Align.Mat) (a b : Bytes) (blocks : List (Int × UInt8)) (bnI : Int)
    (hbnI : bnI = ((b.length + 1 : Nat) : Int))
    (hblocks : blocks = alnFlat (Align.table m false a b) (a.length + 1) (b.length + 1))
    (body : Nat → (List UInt8 × Int × Bool) → Option (ForInStep (List UInt8 × Int × Bool)))
    (hdone : ∀ x s d, body x (s, 0, d) = some (.done (s, 0, true)))
    (hstep : ∀ x s d (k : Nat) (c : Int × UInt8), 0 < k → blocks[k]? = some c →
        body x (s, (k : Int), d) = some (.yield (s ++ [c.2],
          (if c.2 == 1 then (k : Int) - (bnI + 1) else if c.2 == 2 then (k : Int) - bnI
           else if c.2 == 3 then (k : Int) - 1 else (k : Int)), d))) :
    ∀ (l : List Nat) (f' i j : Nat) (s : List UInt8) (d : Bool), i ≤ a.length → j ≤ b.length →
      i + j + 1 ≤ l.length → i + j ≤ f' →
      forIn l (s, ((alnPos (b.length + 1) i j : Nat) : Int), d) body
        = some (s ++ (Align.traceG (Align.table m false a b) f' i j).map encStep, 0, true) := by
  intro l
  induction l with
  | nil => intro f' i j s d hi hj hl; simp at hl
  | cons x l ih =>
    intro f' i j s d hi hj hl hf
    simp only [List.forIn_cons]
    by_cases hij : i = 0 ∧ j = 0
    · obtain ⟨rfl, rfl⟩ := hij
      rw [alnPos_zero, Int.natCast_zero, hdone, Align.traceG_zero]
      simp
    · obtain ⟨f'', rfl⟩ : ∃ f'', f' = f'' + 1 := ⟨f' - 1, by omega⟩
      have hkpos : 0 < alnPos (b.length + 1) i j := by
        rcases i with _ | i
        · simp only [alnPos]; omega
        · rw [alnPos_succ_left]; omega
      have hc : blocks[alnPos (b.length + 1) i j]? = some (encCell (Align.cellAt (Align.table m false a b) i j)) := by
        rw [hblocks]; exact alnFlat_pos _ _ _ i j (by omega) (by omega)
      rw [hstep x s d _ _ hkpos hc, Align.traceG_step _ _ _ _ hij]
      simp only [Option.bind_eq_bind, Option.bind_some, encCell_snd, encStep_eq_one, encStep_eq_two,
        encStep_eq_three]
      simp only [List.length_cons] at hl
      rcases Align.global_step_shape m a b i j hi hj hij with ⟨hs, h1, h2⟩ | ⟨hs, h1⟩ | ⟨hs, h2⟩
      · obtain ⟨i, rfl⟩ : ∃ i', i = i' + 1 := ⟨i - 1, by omega⟩
        obtain ⟨j, rfl⟩ : ∃ j', j = j' + 1 := ⟨j - 1, by omega⟩
        rw [hs]
        have e : ((alnPos (b.length + 1) (i + 1) (j + 1) : Nat) : Int) - (bnI + 1)
            = ((alnPos (b.length + 1) i j : Nat) : Int) := by
          rw [alnPos_succ_left, alnPos_succ_right, hbnI]; omega
        simp only [beq_self_eq_true, if_true, e, Nat.add_sub_cancel]
        rw [ih f'' i j _ d (by omega) (by omega) (by omega) (by omega)]
        simp [encStep]
      · obtain ⟨i, rfl⟩ : ∃ i', i = i' + 1 := ⟨i - 1, by omega⟩
        rw [hs]
        have e : ((alnPos (b.length + 1) (i + 1) j : Nat) : Int) - bnI
            = ((alnPos (b.length + 1) i j : Nat) : Int) := by
          rw [alnPos_succ_left, hbnI]; omega
        have h21 : ((Align.Step.del == Align.Step.mch) = false) := by decide
        simp only [beq_self_eq_true, if_true, e, Nat.add_sub_cancel, h21, Bool.false_eq_true, if_false]
        rw [ih f'' i j _ d (by omega) (by omega) (by omega) (by omega)]
        simp [encStep]
      · obtain ⟨j, rfl⟩ : ∃ j', j = j' + 1 := ⟨j - 1, by omega⟩
        rw [hs]
        have e : ((alnPos (b.length + 1) i (j + 1) : Nat) : Int) - 1
            = ((alnPos (b.length + 1) i j : Nat) : Int) := by
          rw [alnPos_succ_right]; omega
        have h31 : ((Align.Step.ins == Align.Step.mch) = false) := by decide
        have h32 : ((Align.Step.ins == Align.Step.del) = false) := by decide
        simp only [beq_self_eq_true, if_true, e, Nat.add_sub_cancel, h31, h32, Bool.false_eq_true, if_false]
        rw [ih f'' i j _ d (by omega) (by omega) (by omega) (by omega)]
        simp [encStep]

/-! ## The local traceback loop -/

theorem aln_clamp_true_cases (c : Align.Cell) :
    Align.clamp true c = ⟨0, .none⟩ ∨ Align.clamp true c = c := by
  unfold Align.clamp
  by_cases h : c.score < 0 <;> simp [h]

/-- Stored steps of the local table at non-zero cells point to a predecessor inside the table. -/
theorem aln_local_step_shape (m : Align.Mat) (a b : Bytes) (i j : Nat) (hi : i ≤ a.length)
    (hj : j ≤ b.length) (hne : (Align.cellAt (Align.table m true a b) i j).score ≠ 0) :
    ((Align.cellAt (Align.table m true a b) i j).step = .mch ∧ 1 ≤ i ∧ 1 ≤ j) ∨
    ((Align.cellAt (Align.table m true a b) i j).step = .del ∧ 1 ≤ i) ∨
    ((Align.cellAt (Align.table m true a b) i j).step = .ins ∧ 1 ≤ j) := by
  match i, j with
  | 0, 0 => rw [Align.cellAt_zero_zero] at hne; exact absurd rfl hne
  | 0, j + 1 =>
    have hjl : j < b.length := by omega
    rw [Align.cellAt_zero_succ m true a b j _ (List.getElem?_eq_getElem hjl)] at hne ⊢
    rcases aln_clamp_true_cases ⟨(Align.cellAt (Align.table m true a b) 0 j).score + m Align.GAP b[j]
        + (if j = 0 then m Align.GAP Align.GAP else 0), .ins⟩ with h | h
    · rw [h] at hne; exact absurd rfl hne
    · rw [h]; simp
  | i + 1, 0 =>
    have hil : i < a.length := by omega
    rw [Align.cellAt_succ_zero m true a b i _ (List.getElem?_eq_getElem hil)] at hne ⊢
    rcases aln_clamp_true_cases ⟨(Align.cellAt (Align.table m true a b) i 0).score + m a[i] Align.GAP
        + (if i = 0 then m Align.GAP Align.GAP else 0), .del⟩ with h | h
    · rw [h] at hne; exact absurd rfl hne
    · rw [h]; simp
  | i + 1, j + 1 =>
    have hil : i < a.length := by omega
    have hjl : j < b.length := by omega
    rw [Align.cellAt_succ_succ m true a b i j _ _ (List.getElem?_eq_getElem hil)
      (List.getElem?_eq_getElem hjl), Align.stepCell_eq] at hne ⊢
    generalize hd : Align.decideOnStep _ _ _ = dc at hne ⊢
    rcases aln_clamp_true_cases dc with h | h
    · rw [h] at hne; exact absurd rfl hne
    · rw [h, ← hd]
      rcases Align.decideOnStep_cases (((Align.cellAt (Align.table m true a b) i j)).score + m a[i] b[j])
          ((Align.cellAt (Align.table m true a b) i (j + 1)).score + m a[i] Align.GAP
            + Align.openIf m (Align.cellAt (Align.table m true a b) i (j + 1)).step .del)
          ((Align.cellAt (Align.table m true a b) (i + 1) j).score + m Align.GAP b[j]
            + Align.openIf m (Align.cellAt (Align.table m true a b) (i + 1) j).step .ins) with hd | hd | hd <;>
        rw [hd] <;> simp

/-- the `for i > 0 { … }` loop of `traceAlignmentStepsLocal` on the flattened local table, started
at cell `(i, j)` with `last` the flat index of `last`: it appends the model's `traceL` path and leaves
`last` at the flat index of the model's last cell -/
theorem aln_traceL_loop (m : Align.Mat) (a b : Bytes) (blocks : List (Int × UInt8)) (bnI : Int)
    (hbnI : bnI = ((b.length + 1 : Nat) : Int))
    (hblocks : blocks = alnFlat (Align.table m true a b) (a.length + 1) (b.length + 1))
    (body : Nat → (List UInt8 × Int × Int × Bool) → Option (ForInStep (List UInt8 × Int × Int × Bool)))
    (hdone : ∀ x s la d, body x (s, 0, la, d) = some (.done (s, 0, la, true)))
    (hzero : ∀ x s la d (k : Nat) (c : Int × UInt8), 0 < k → blocks[k]? = some c → c.1 = 0 →
        body x (s, (k : Int), la, d) = some (.done (s, (k : Int), la, true)))
    (hstep : ∀ x s la d (k : Nat) (c : Int × UInt8), 0 < k → blocks[k]? = some c → 0 < c.1 →
        body x (s, (k : Int), la, d) = some (.yield (s ++ [c.2],
          (if c.2 == 1 then (k : Int) - (bnI + 1) else if c.2 == 2 then (k : Int) - bnI
           else if c.2 == 3 then (k : Int) - 1 else (k : Int)), (k : Int), d))) :
    ∀ (l : List Nat) (f' i j : Nat) (s : List UInt8) (d : Bool) (last : Nat × Nat),
      i ≤ a.length → j ≤ b.length → last.1 ≤ a.length → last.2 ≤ b.length →
      i + j + 1 ≤ l.length → i + j ≤ f' →
      ∃ iend : Nat,
        forIn l (s, ((alnPos (b.length + 1) i j : Nat) : Int),
            ((alnPos (b.length + 1) last.1 last.2 : Nat) : Int), d) body
          = some (s ++ (Align.traceL (Align.table m true a b) f' i j last).1.map encStep, (iend : Int),
              ((alnPos (b.length + 1) (Align.traceL (Align.table m true a b) f' i j last).2.1
                (Align.traceL (Align.table m true a b) f' i j last).2.2 : Nat) : Int), true) ∧
        (Align.traceL (Align.table m true a b) f' i j last).2.1 ≤ a.length ∧
        (Align.traceL (Align.table m true a b) f' i j last).2.2 ≤ b.length := by
  intro l
  induction l with
  | nil => intro f' i j s d last hi hj hl1 hl2 hl; simp at hl
  | cons x l ih =>
    intro f' i j s d last hi hj hl1 hl2 hl hf
    simp only [List.forIn_cons]
    by_cases hij : i = 0 ∧ j = 0
    · obtain ⟨rfl, rfl⟩ := hij
      rw [alnPos_zero, Int.natCast_zero, hdone,
        Align.traceL_of_zero _ _ _ _ _ (by rw [Align.cellAt_zero_zero])]
      exact ⟨0, by simp, hl1, hl2⟩
    · have hkpos : 0 < alnPos (b.length + 1) i j := by
        rcases i with _ | i
        · simp only [alnPos]; omega
        · rw [alnPos_succ_left]; omega
      have hc : blocks[alnPos (b.length + 1) i j]? = some (encCell (Align.cellAt (Align.table m true a b) i j)) := by
        rw [hblocks]; exact alnFlat_pos _ _ _ i j (by omega) (by omega)
      by_cases hz : (Align.cellAt (Align.table m true a b) i j).score = 0
      · rw [hzero x s _ d _ _ hkpos hc hz, Align.traceL_of_zero _ _ _ _ _ hz]
        exact ⟨alnPos (b.length + 1) i j, by simp, hl1, hl2⟩
      · have hnn := Align.local_cell_nonneg m a b i j hi hj
        have hpos : 0 < (encCell (Align.cellAt (Align.table m true a b) i j)).1 := by
          simp only [encCell_fst]; omega
        obtain ⟨f'', rfl⟩ : ∃ f'', f' = f'' + 1 := ⟨f' - 1, by omega⟩
        rw [hstep x s _ d _ _ hkpos hc hpos]
        simp only [Option.bind_eq_bind, Option.bind_some, encCell_snd, encStep_eq_one, encStep_eq_two,
          encStep_eq_three]
        simp only [List.length_cons] at hl
        rcases aln_local_step_shape m a b i j hi hj hz with ⟨hs, h1, h2⟩ | ⟨hs, h1⟩ | ⟨hs, h2⟩
        · obtain ⟨i, rfl⟩ : ∃ i', i = i' + 1 := ⟨i - 1, by omega⟩
          obtain ⟨j, rfl⟩ : ∃ j', j = j' + 1 := ⟨j - 1, by omega⟩
          rw [Align.traceL_mch _ _ _ _ _ hij hz hs, hs]
          have e : ((alnPos (b.length + 1) (i + 1) (j + 1) : Nat) : Int) - (bnI + 1)
              = ((alnPos (b.length + 1) i j : Nat) : Int) := by
            rw [alnPos_succ_left, alnPos_succ_right, hbnI]; omega
          simp only [beq_self_eq_true, if_true, e, Nat.add_sub_cancel]
          obtain ⟨iend, h1, h2, h3⟩ := ih f'' i j (s ++ [encStep .mch]) d (i + 1, j + 1) (by omega) (by omega)
            hi hj (by omega) (by omega)
          exact ⟨iend, by rw [h1]; simp, h2, h3⟩
        · obtain ⟨i, rfl⟩ : ∃ i', i = i' + 1 := ⟨i - 1, by omega⟩
          rw [Align.traceL_del _ _ _ _ _ hij hz hs, hs]
          have e : ((alnPos (b.length + 1) (i + 1) j : Nat) : Int) - bnI
              = ((alnPos (b.length + 1) i j : Nat) : Int) := by
            rw [alnPos_succ_left, hbnI]; omega
          have h21 : ((Align.Step.del == Align.Step.mch) = false) := by decide
          simp only [beq_self_eq_true, if_true, e, Nat.add_sub_cancel, h21, Bool.false_eq_true, if_false]
          obtain ⟨iend, h1, h2, h3⟩ := ih f'' i j (s ++ [encStep .del]) d (i + 1, j) (by omega) (by omega)
            hi hj (by omega) (by omega)
          exact ⟨iend, by rw [h1]; simp, h2, h3⟩
        · obtain ⟨j, rfl⟩ : ∃ j', j = j' + 1 := ⟨j - 1, by omega⟩
          rw [Align.traceL_ins _ _ _ _ _ hij hz hs, hs]
          have e : ((alnPos (b.length + 1) i (j + 1) : Nat) : Int) - 1
              = ((alnPos (b.length + 1) i j : Nat) : Int) := by
            rw [alnPos_succ_right]; omega
          have h31 : ((Align.Step.ins == Align.Step.mch) = false) := by decide
          have h32 : ((Align.Step.ins == Align.Step.del) = false) := by decide
          simp only [beq_self_eq_true, if_true, e, Nat.add_sub_cancel, h31, h32, Bool.false_eq_true, if_false]
          obtain ⟨iend, h1, h2, h3⟩ := ih f'' i j (s ++ [encStep .ins]) d (i, j + 1) (by omega) (by omega)
            hi hj (by omega) (by omega)
          exact ⟨iend, by rw [h1]; simp, h2, h3⟩

/-! ## Flattening, and the argmax loop -/

theorem aln_flatten_getElem? {α : Type} (bn : Nat) : ∀ (L : List (List α)) (i j : Nat),
    (∀ r ∈ L, r.length = bn) → j < bn → L.flatten[alnPos bn i j]? = (L[i]?.getD [])[j]?
  | [], i, j, _, _ => by simp
  | r :: L, 0, j, h, hj => by
    have hr : r.length = bn := h r (by simp)
    simp only [alnPos, Nat.zero_mul, Nat.zero_add, List.flatten_cons, List.getElem?_cons_zero,
      Option.getD_some]
    rw [List.getElem?_append_left (by omega)]
  | r :: L, i + 1, j, h, hj => by
    have hr : r.length = bn := h r (by simp)
    rw [alnPos_succ_left, List.flatten_cons, List.getElem?_append_right (by omega)]
    have : alnPos bn i j + bn - r.length = alnPos bn i j := by omega
    rw [this, aln_flatten_getElem? bn L i j (fun r hr => h r (by simp [hr])) hj]
    simp

theorem alnFlat_eq_flatten (m : Align.Mat) (loc : Bool) (a b : Bytes) :
    alnFlat (Align.table m loc a b) (a.length + 1) (b.length + 1)
      = (Align.table m loc a b).flatten.map encCell := by
  apply List.ext_getElem?
  intro k
  obtain ⟨i, j, hj, rfl⟩ := alnPos_exists (b.length + 1) k (by omega)
  rw [List.getElem?_map, aln_flatten_getElem? _ _ i j (Align.table_row_length m loc a b) hj]
  by_cases hi : i < a.length + 1
  · rw [alnFlat_pos _ _ _ i j hi hj]
    obtain ⟨r, hr, hc⟩ := Align.cellAt_spec m loc a b i j (by omega) (by omega)
    rw [hr, Option.getD_some, hc]; rfl
  · have h1 : (Align.table m loc a b)[i]? = none :=
      List.getElem?_eq_none (by rw [Align.table_length]; omega)
    rw [h1]
    have h2 : ¬ alnPos (b.length + 1) i j < (a.length + 1) * (b.length + 1) := fun h =>
      hi (alnPos_lt_iff_row _ _ _ _ hj h)
    rw [List.getElem?_eq_none (by rw [alnFlat_length]; omega)]
    simp

/-- the invariant of the argmax loop: `imax` is the flat index of the model's best cell so far -/
def alnArgInv (L : List (Int × UInt8)) (bn : Nat) (best : Nat × Nat × Int) : Prop :=
  ∃ cm, L[alnPos bn best.1 best.2.1]? = some cm ∧ cm.1 = best.2.2

theorem aln_argmax_row (L : List (Int × UInt8)) (bn : Nat)
    (body : Int × (Int × UInt8) → Int → Option (ForInStep Int))
    (hbody : ∀ (k imax : Nat) (c cm : Int × UInt8), L[imax]? = some cm →
      body ((k : Int), c) (imax : Int) = some (.yield (if c.1 > cm.1 then (k : Int) else (imax : Int))))
    (i : Nat) :
    ∀ (cs : List Align.Cell) (rest : List (Int × UInt8)) (j0 : Nat) (best : Nat × Nat × Int) (o : Nat),
      o = alnPos bn i j0 →
      (∀ k c, cs[k]? = some c → L[o + k]? = some (encCell c)) →
      alnArgInv L bn best →
      forIn ((((cs.map encCell) ++ rest).zipIdx o).map fun p => ((p.2 : Int), p.1))
          ((alnPos bn best.1 best.2.1 : Nat) : Int) body
        = forIn ((rest.zipIdx (o + cs.length)).map fun p => ((p.2 : Int), p.1))
          ((alnPos bn (Align.argmaxRow cs i j0 best).1 (Align.argmaxRow cs i j0 best).2.1 : Nat) : Int) body
      ∧ alnArgInv L bn (Align.argmaxRow cs i j0 best) := by
  intro cs
  induction cs with
  | nil => intro rest j0 best o ho hL hinv; simpa [Align.argmaxRow_nil] using hinv
  | cons c cs ih =>
    intro rest j0 best o ho hL hinv
    obtain ⟨cm, hcm, hcm2⟩ := hinv
    simp only [List.map_cons, List.cons_append, List.zipIdx_cons, List.forIn_cons]
    rw [hbody o _ (encCell c) cm hcm, Align.argmaxRow_cons]
    simp only [Option.bind_eq_bind, Option.bind_some, encCell_fst, hcm2]
    have hnext : (if c.score > best.2.2 then (o : Int) else ((alnPos bn best.1 best.2.1 : Nat) : Int))
        = ((alnPos bn (if c.score > best.2.2 then (i, j0, c.score) else best).1
            (if c.score > best.2.2 then (i, j0, c.score) else best).2.1 : Nat) : Int) := by
      split
      · rw [ho]
      · rfl
    have hinv' : alnArgInv L bn (if c.score > best.2.2 then (i, j0, c.score) else best) := by
      split
      · refine ⟨encCell c, ?_, rfl⟩
        have := hL 0 c (by simp)
        rw [← ho]; simpa using this
      · exact ⟨cm, hcm, hcm2⟩
    rw [hnext]
    have := ih rest (j0 + 1) _ (o + 1) (by rw [ho, alnPos_succ_right])
      (fun k c' hk => by
        have := hL (k + 1) c' (by simpa using hk)
        rw [show o + 1 + k = o + (k + 1) by omega]; exact this) hinv'
    rw [show o + 1 + cs.length = o + (c :: cs).length by simp; omega] at this
    exact this

theorem aln_argmax_rows (L : List (Int × UInt8)) (bn : Nat)
    (body : Int × (Int × UInt8) → Int → Option (ForInStep Int))
    (hbody : ∀ (k imax : Nat) (c cm : Int × UInt8), L[imax]? = some cm →
      body ((k : Int), c) (imax : Int) = some (.yield (if c.1 > cm.1 then (k : Int) else (imax : Int)))) :
    ∀ (rows : List (List Align.Cell)) (i0 : Nat) (best : Nat × Nat × Int),
      (∀ r ∈ rows, r.length = bn) →
      (∀ k r j c, rows[k]? = some r → r[j]? = some c → L[alnPos bn (i0 + k) j]? = some (encCell c)) →
      alnArgInv L bn best →
      forIn (((rows.flatten.map encCell).zipIdx (alnPos bn i0 0)).map fun p => ((p.2 : Int), p.1))
          ((alnPos bn best.1 best.2.1 : Nat) : Int) body
        = some ((alnPos bn (Align.argmaxAux rows i0 best).1 (Align.argmaxAux rows i0 best).2.1 : Nat) : Int)
      ∧ alnArgInv L bn (Align.argmaxAux rows i0 best) := by
  intro rows
  induction rows with
  | nil => intro i0 best _ _ hinv; exact ⟨by simp [Align.argmaxAux_nil], hinv⟩
  | cons row rows ih =>
    intro i0 best hlen hL hinv
    have hr : row.length = bn := hlen row (by simp)
    rw [List.flatten_cons, List.map_append, Align.argmaxAux_cons]
    obtain ⟨h1, h2⟩ := aln_argmax_row L bn body hbody i0 row (rows.flatten.map encCell) 0 best
      (alnPos bn i0 0) rfl
      (fun k c hk => by
        have := hL 0 row k c (by simp) hk
        simpa [alnPos] using this) hinv
    rw [h1]
    have e : alnPos bn i0 0 + row.length = alnPos bn (i0 + 1) 0 := by rw [alnPos_succ_left, hr]
    rw [e]
    exact ih (i0 + 1) _ (fun r hr => hlen r (by simp [hr]))
      (fun k r j c hk hj => by
        have := hL (k + 1) r j c (by simpa using hk) hj
        rw [show i0 + 1 + k = i0 + (k + 1) by omega]; exact this) h2

/-- the argmax loop on the flattened table yields the flat index of the model's `argmax` -/
theorem aln_argmax_loop (m : Align.Mat) (loc : Bool) (a b : Bytes)
    (body : Int × (Int × UInt8) → Int → Option (ForInStep Int))
    (hbody : ∀ (k imax : Nat) (c cm : Int × UInt8),
      (alnFlat (Align.table m loc a b) (a.length + 1) (b.length + 1))[imax]? = some cm →
      body ((k : Int), c) (imax : Int) = some (.yield (if c.1 > cm.1 then (k : Int) else (imax : Int)))) :
    forIn (enum (alnFlat (Align.table m loc a b) (a.length + 1) (b.length + 1))) (0 : Int) body
      = some ((alnPos (b.length + 1) (Align.argmax (Align.table m loc a b)).1
          (Align.argmax (Align.table m loc a b)).2.1 : Nat) : Int) := by
  have h := (aln_argmax_rows _ (b.length + 1) body hbody (Align.table m loc a b) 0
    (0, 0, (Align.cellAt (Align.table m loc a b) 0 0).score)
    (Align.table_row_length m loc a b)
    (fun k r j c hk hj => by
      have hkl : k < (Align.table m loc a b).length := (List.getElem?_eq_some_iff.mp hk).1
      rw [Align.table_length] at hkl
      have hjl : j < r.length := (List.getElem?_eq_some_iff.mp hj).1
      rw [Align.table_row_length m loc a b r (List.mem_of_getElem? hk)] at hjl
      rw [Nat.zero_add, alnFlat_pos _ _ _ k j hkl hjl, Align.cellAt_of_getElem? _ k j r c hk hj])
    ⟨_, alnFlat_pos _ _ _ 0 0 (by omega) (by omega), rfl⟩).1
  rw [← Align.argmax_eq] at h
  rw [enum, alnFlat_eq_flatten]
  simpa [alnPos_zero] using h

end Bio.GoSrcLemmas
