/-
  trie/trie.go at the Go SOURCE level, part 2: `New`, `(*Trie).Has`, `(*Trie).Add`.

  * `has_loop`: the translated `for len(b) > 0 { … }` loop of `Has`, started at ANY node that
    represents a sub-trie `t`, answers `Trie.has b t` (induction on the rest of `b`).
  * `add_chain_loop`: below a fresh empty node the loop of `Add` appends the cells `chainHeap`.
  * `add_loop`: the loop of `Add`, started at ANY node `n` with `Good heap n t S`, ends with a heap
    in which `n` represents `Trie.add b t` (same edge order); only `n`, cells of the footprint `S`
    and fresh cells are touched (the frame needed one level up).
-/
import Bio.Lemmas.GoSrcTrie1
set_option linter.unusedVariables false
set_option linter.unusedSimpArgs false
namespace Bio.GoSrcLemmas
namespace TrieGo
open Bio Bio.GoRt Bio.Generated Bio.Trie

/-! ## Small facts about the byte slice `b` -/

theorem len_cons_pos (k : UInt8) (bs : Bytes) : decide (len (k :: bs) > 0) = true := by
  simp [len]

theorem len_nil_pos' : decide (len ([] : Bytes) > 0) = false := by simp [len]

theorem idx_zero_cons {α : Type} (k : α) (bs : List α) : idx (k :: bs) 0 = some k := by
  simp [idx]

theorem slice_tail {α : Type} (k : α) (bs : List α) : slice (k :: bs) 1 (len (k :: bs)) = some bs := by
  have := slice_ofNat (k :: bs) 1 (bs.length + 1) (by omega) (by simp)
  simpa [len] using this

theorem natCast_ne_neg_one (c : Nat) : ((c : Int) == -1) = false := by
  simp

/-! ## `Has` -/

abbrev HasSt := Option Bool × Bytes × Int × Bool

theorem has_loop (heap : Heap) (body : Nat → HasSt → Option (ForInStep HasSt))
    (fin : HasSt → Option Bool)
    (hnil : ∀ a cur d, body a (none, [], cur, d) = some (.done (none, [], cur, true)))
    (hcons : ∀ a k bs (n : Nat) es d, heap[n]? = some es →
      body a (none, k :: bs, (n : Int), d) =
        if (mapGet es k (-1) == -1) = true then some (.done (some false, k :: bs, (n : Int), d))
        else some (.yield (none, bs, mapGet es k (-1), d)))
    (hfin : ∀ st, fin st = match st.1 with
      | some r => some r
      | none => if st.2.2.2 = true then some true else none) :
    ∀ (b : Bytes) (l : List Nat) (n : Nat) (es : List (UInt8 × Int)) (t : T) (S : List Nat) (d : Bool),
      heap[n]? = some es → RepE heap es t S → b.length + 1 ≤ l.length →
      (forIn l ((none, b, (n : Int), d) : HasSt) body).bind fin = some (has b t) := by
  intro b
  induction b with
  | nil =>
    intro l n es t S d hn hr hl
    cases l with
    | nil => simp at hl
    | cons a l => simp [List.forIn_cons, hnil, hfin, has]
  | cons k bs ih =>
    intro l n es t S d hn hr hl
    cases l with
    | nil => simp at hl
    | cons a l =>
      simp only [List.length_cons] at hl
      simp only [List.forIn_cons, hcons a k bs n es d hn]
      rcases hr.lookup k with ⟨h1, h2⟩ | ⟨es1, es2, c, h1, h2, h3⟩
      · rw [h1]
        have : has (k :: bs) t = false := has_absent k bs t (by rw [hr.keys]; exact h2)
        simp [hfin, this]
      · rw [h1, natCast_ne_neg_one]
        subst h2
        obtain ⟨t1, tc, t2, S1, Sc, S2, es', hc, r1, rc, r2, rfl, rfl⟩ := hr.at_edge
        rw [has_present k bs t1 tc t2 (by rw [r1.keys]; exact h3)]
        simpa using ih l c es' tc Sc d hc rc (by omega)

theorem Has_eq (hF : GoSrc.Trie_Has_Found = true) (fuel : Nat) (heap : Heap) (n : Nat)
    (es : List (UInt8 × Int)) (t : T) (S : List Nat) (b : Bytes)
    (hn : heap[n]? = some es) (hr : RepE heap es t S) (hf : b.length + 1 ≤ fuel) :
    GoSrc.Trie_Has fuel heap (n : Int) b = some (has b t) := by
  first
  | exact absurd hF (by decide)
  | (unfold GoSrc.Trie_Has
     simp only [Option.pure_def, Option.bind_eq_bind]
     refine has_loop heap _ _ ?_ ?_ ?_ b (List.range fuel) n es t S false hn hr (by simpa using hf)
     · intro a cur d
       simp [len_nil_pos']
     · intro a k bs n es d hn
       simp only [len_cons_pos, idx_ofNat, hn, idx_zero_cons, slice_tail, Option.bind_some,
         Bool.not_true, Bool.false_eq_true, if_false]
     · intro st
       rcases st with ⟨_ | r, b, c, _ | _⟩ <;> rfl)

/-! ## `New` -/

theorem New_eq (hF : GoSrc.New_Found = true) (heap : Heap) :
    GoSrc.New heap = some ((heap.length : Int), heap ++ [[]]) := by
  first
  | exact absurd hF (by decide)
  | (unfold GoSrc.New
     simp [len])

/-! ## `Add` -/

abbrev AddSt := Bytes × Heap × Int × Bool

/-- what the loop body of `Add` does (hypotheses of the loop lemmas) -/
structure AddBody (body : Nat → AddSt → Option (ForInStep AddSt)) (fin : AddSt → Option Heap) : Prop where
  hnil : ∀ a heap cur d, body a ([], heap, cur, d) = some (.done ([], heap, cur, true))
  hcons : ∀ a k bs (heap : Heap) (n : Nat) es d, heap[n]? = some es →
      body a (k :: bs, heap, (n : Int), d) =
        if (mapGet es k (-1) == -1) = true then
          some (.yield (bs, (heap ++ [[]]).set n (mapSet es k (heap.length : Int)), (heap.length : Int), d))
        else some (.yield (bs, heap, mapGet es k (-1), d))
  hfin : ∀ st, fin st = if st.2.2.2 = true then some st.2.1 else none

theorem add_chain_loop {body fin} (hb : AddBody body fin) :
    ∀ (bs : Bytes) (l : List Nat) (H : Heap) (d : Bool), bs.length + 1 ≤ l.length →
      (forIn l ((bs, H ++ [[]], (H.length : Int), d) : AddSt) body).bind fin
        = some (H ++ chainHeap H.length bs) := by
  intro bs
  induction bs with
  | nil =>
    intro l H d hl
    cases l with
    | nil => simp at hl
    | cons a l => simp [List.forIn_cons, hb.hnil, hb.hfin, chainHeap]
  | cons k bs ih =>
    intro l H d hl
    cases l with
    | nil => simp at hl
    | cons a l =>
      simp only [List.length_cons] at hl
      have hn : (H ++ [[]])[H.length]? = some ([] : List (UInt8 × Int)) := by simp
      simp only [List.forIn_cons, hb.hcons a k bs (H ++ [[]]) H.length [] d hn, mapGet_nil]
      have e1 : ((H ++ [[]] ++ [[]]).set H.length (mapSet [] k ((H ++ [[]]).length : Int)))
          = (H ++ [[(k, ((H.length + 1 : Nat) : Int))]]) ++ [[]] := by
        rw [List.append_assoc, List.set_append_right _ _ (by omega)]
        simp [mapSet]
      have e2 : (((H ++ [[]]).length : Nat) : Int) = ((H ++ [[(k, ((H.length + 1 : Nat) : Int))]]).length : Int) := by
        simp
      have := ih l (H ++ [[(k, ((H.length + 1 : Nat) : Int))]]) d (by omega)
      simp only [beq_self_eq_true, if_true, Option.bind_some, Option.bind_eq_bind] at this ⊢
      rw [e1, e2, this]
      simp [chainHeap]

/-- `Nodup` of a footprint with the root in front, unfolded -/
theorem nodup_fp {n : Nat} {S1 S2 Sc : List Nat} {c : Nat} :
    (n :: (S1 ++ c :: (Sc ++ S2))).Nodup ↔
      (n ∉ S1 ∧ n ≠ c ∧ n ∉ Sc ∧ n ∉ S2) ∧ S1.Nodup ∧ (c ∉ S1 ∧ c ∉ Sc ∧ c ∉ S2) ∧ Sc.Nodup ∧ S2.Nodup ∧
      (∀ x ∈ S1, x ∉ Sc) ∧ (∀ x ∈ S1, x ∉ S2) ∧ (∀ x ∈ Sc, x ∉ S2) := by
  simp only [List.nodup_cons, List.nodup_append, List.mem_append, List.mem_cons, not_or]
  constructor
  · rintro ⟨⟨h1, h2, h3, h4⟩, h5, ⟨⟨h6, h7⟩, h8, h9, h10⟩, h11⟩
    refine ⟨⟨h1, h2, h3, h4⟩, h5, ⟨?_, h6, h7⟩, h8, h9, ?_, ?_, ?_⟩
    · intro hc; exact h11 c hc c (Or.inl rfl) rfl
    · intro x hx hx'; exact h11 x hx x (Or.inr (Or.inl hx')) rfl
    · intro x hx hx'; exact h11 x hx x (Or.inr (Or.inr hx')) rfl
    · intro x hx hx'; exact h10 x hx x hx' rfl
  · rintro ⟨⟨h1, h2, h3, h4⟩, h5, ⟨h6, h7, h8⟩, h9, h10, h11, h12, h13⟩
    refine ⟨⟨h1, h2, h3, h4⟩, h5, ⟨⟨h7, h8⟩, h9, h10, ?_⟩, ?_⟩
    · intro a ha b hb hab; subst hab; exact h13 a ha hb
    · intro a ha b hb hab
      subst hab
      rcases hb with rfl | hb | hb
      · exact h6 ha
      · exact h11 a ha hb
      · exact h12 a ha hb

theorem add_loop {body fin} (hb : AddBody body fin) :
    ∀ (b : Bytes) (l : List Nat) (heap : Heap) (n : Nat) (t : T) (S : List Nat) (d : Bool),
      Good heap n t S → b.length + 1 ≤ l.length →
      ∃ heap' S', (forIn l ((b, heap, (n : Int), d) : AddSt) body).bind fin = some heap' ∧
        Good heap' n (add b t) S' ∧ heap.length ≤ heap'.length ∧
        (∀ x, x < heap.length → x ≠ n → x ∉ S → heap'[x]? = heap[x]?) ∧
        (∀ x ∈ S', x ∈ S ∨ heap.length ≤ x) := by
  intro b
  induction b with
  | nil =>
    intro l heap n t S d hg hl
    cases l with
    | nil => simp at hl
    | cons a l =>
      refine ⟨heap, S, by simp [List.forIn_cons, hb.hnil, hb.hfin], by simpa [add] using hg,
        Nat.le_refl _, fun _ _ _ _ => rfl, fun x hx => Or.inl hx⟩
  | cons k bs ih =>
    intro l heap n t S d hg hl
    obtain ⟨es, hn, hr, hnd, hk⟩ := hg
    have hnlt : n < heap.length := (List.getElem?_eq_some_iff.1 hn).1
    cases l with
    | nil => simp at hl
    | cons a l =>
      simp only [List.length_cons] at hl
      simp only [List.forIn_cons, hb.hcons a k bs heap n es d hn]
      rcases hr.lookup k with ⟨h1, h2⟩ | ⟨es1, es2, c, h1, h2, h3⟩
      · -- no edge `k`: a fresh chain
        rw [h1]
        simp only [beq_self_eq_true, if_true, Option.bind_some, Option.bind_eq_bind]
        rw [mapSet_absent es k _ h2, List.set_append_left _ _ hnlt]
        have hlen : (heap.set n (es ++ [(k, (heap.length : Int))])).length = heap.length := by simp
        have hloop := add_chain_loop hb bs l (heap.set n (es ++ [(k, (heap.length : Int))])) d (by omega)
        rw [hlen] at hloop
        rw [hloop]
        have hSlt := hr.lt
        have hn' : n ∉ S := (List.nodup_cons.1 hnd).1
        have hSnd : S.Nodup := (List.nodup_cons.1 hnd).2
        have hframe : ∀ x, x < heap.length → x ≠ n →
            (heap.set n (es ++ [(k, (heap.length : Int))]) ++ chainHeap heap.length bs)[x]? = heap[x]? := by
          intro x hx hxn
          rw [List.getElem?_append_left (by simpa using hx), List.getElem?_set_ne (Ne.symm hxn)]
        have hchain := chain_rep bs (heap.set n (es ++ [(k, (heap.length : Int))]))
        rw [hlen] at hchain
        have hN : (heap.set n (es ++ [(k, (heap.length : Int))]) ++ chainHeap heap.length bs)[heap.length]?
            = some (chainHead heap.length bs) := by
          rw [List.getElem?_append_right (by simp), chainHeap_eq]
          simp
        refine ⟨_, S ++ heap.length :: (chainFp heap.length bs ++ []), rfl,
          ⟨es ++ [(k, (heap.length : Int))], ?_, ?_, ?_, ?_⟩, ?_, ?_, ?_⟩
        · rw [List.getElem?_append_left (by simpa using hnlt)]
          simp [hnlt]
        · rw [add_absent k bs t (by rw [hr.keys]; exact h2)]
          refine RepE.append (hr.frame ?_) (RepE.cons rfl hN hchain RepE.nil)
          intro x hx
          exact hframe x (hSlt x hx) (fun h => hn' (h ▸ hx))
        · simp only [List.append_nil, List.nodup_cons, List.nodup_append, List.mem_append,
            List.mem_cons, not_or]
          refine ⟨⟨hn', by omega, ?_⟩, hSnd, ⟨?_, chainFp_nodup _ _⟩, ?_⟩
          · intro h; have := chainFp_gt _ _ _ h; omega
          · intro h; have := chainFp_gt _ _ _ h; omega
          · intro x hx y hy hxy
            subst hxy
            have := hSlt x hx
            rcases hy with rfl | hy
            · omega
            · have := chainFp_gt _ _ _ hy; omega
        · intro x hx es0 hes0
          by_cases hxn : x = n
          · subst hxn
            rw [List.getElem?_append_left (by simpa using hnlt)] at hes0
            simp [hnlt] at hes0
            subst hes0
            have := hk x (by simp) es hn
            rw [List.map_append, List.nodup_append]
            refine ⟨this, by simp, ?_⟩
            intro a ha b hb hab
            simp at hb
            subst hab hb
            exact h2 ha
          · by_cases hxl : x < heap.length
            · rw [hframe x hxl hxn] at hes0
              refine hk x ?_ es0 hes0
              simp only [List.append_nil, List.mem_cons, List.mem_append] at hx ⊢
              rcases hx with h | h | h | h
              · exact absurd h hxn
              · exact Or.inr h
              · omega
              · have := chainFp_gt _ _ _ h; omega
            · have := chain_keysOK bs (heap.set n (es ++ [(k, (heap.length : Int))])) x (by simp; omega) es0
              rw [hlen] at this
              exact this hes0
        · simp [chainHeap_length]
        · intro x hx hxn _
          exact hframe x hx hxn
        · intro x hx
          simp only [List.append_nil, List.mem_cons, List.mem_append] at hx
          rcases hx with h | h | h
          · exact Or.inl h
          · omega
          · have := chainFp_gt _ _ _ h; omega
      · -- the edge exists: walk down, the heap changes only below
        rw [h1, natCast_ne_neg_one]
        simp only [Bool.false_eq_true, if_false, Option.bind_some, Option.bind_eq_bind]
        subst h2
        obtain ⟨t1, tc, t2, S1, Sc, S2, es', hc, r1, rc, r2, rfl, rfl⟩ := hr.at_edge
        obtain ⟨⟨n1, n2, n3, n4⟩, d1, ⟨c1, c2, c3⟩, dc, d2, x1, x2, x3⟩ := nodup_fp.1 hnd
        have hgc : Good heap c tc Sc := by
          refine ⟨es', hc, rc, List.nodup_cons.2 ⟨c2, dc⟩, ?_⟩
          intro x hx
          refine hk x ?_
          simp only [List.mem_cons, List.mem_append] at hx ⊢
          rcases hx with h | h
          · exact Or.inr (Or.inr (Or.inl h))
          · exact Or.inr (Or.inr (Or.inr (Or.inl h)))
        obtain ⟨heap', Sc', hrun, hg', hlen, hfr, hsub⟩ := ih l heap c tc Sc d hgc (by omega)
        obtain ⟨es'', hc', rc', hnd', hk'⟩ := hg'
        have hclt : c < heap.length := (List.getElem?_eq_some_iff.1 hc).1
        have l1 := r1.lt
        have l2 := r2.lt
        have lc := rc.lt
        have hndc : c ∉ Sc' := (List.nodup_cons.1 hnd').1
        have hndS : Sc'.Nodup := (List.nodup_cons.1 hnd').2
        have hn' : heap'[n]? = some (es1 ++ (k, (c : Int)) :: es2) := by
          rw [hfr n hnlt n2 n3]; exact hn
        have f1 : RepE heap' es1 t1 S1 :=
          r1.frame fun x hx => hfr x (l1 x hx) (fun h => c1 (h ▸ hx)) (x1 x hx)
        have f2 : RepE heap' es2 t2 S2 :=
          r2.frame fun x hx => hfr x (l2 x hx) (fun h => c3 (h ▸ hx)) (fun h => x3 x h hx)
        refine ⟨heap', S1 ++ c :: (Sc' ++ S2), hrun, ⟨_, hn', ?_, ?_, ?_⟩, hlen, ?_, ?_⟩
        · rw [add_present k bs t1 tc t2 (by rw [r1.keys]; exact h3)]
          exact RepE.append f1 (RepE.cons rfl hc' rc' f2)
        · refine nodup_fp.2 ⟨⟨n1, n2, ?_, n4⟩, d1, ⟨c1, hndc, c3⟩, hndS, d2, ?_, x2, ?_⟩
          · intro h
            rcases hsub n h with h | h
            · exact n3 h
            · omega
          · intro x hx h
            rcases hsub x h with h | h
            · exact x1 x hx h
            · have := l1 x hx; omega
          · intro x h hx
            rcases hsub x h with h | h
            · exact x3 x h hx
            · have := l2 x hx; omega
        · intro x hx es0 hes0
          have hold : x = n ∨ x ∈ S1 ∨ x ∈ S2 ∨ x ∈ c :: Sc' := by
            simp only [List.mem_cons, List.mem_append] at hx ⊢
            rcases hx with h | h | h | h | h
            · exact Or.inl h
            · exact Or.inr (Or.inl h)
            · exact Or.inr (Or.inr (Or.inr (Or.inl h)))
            · exact Or.inr (Or.inr (Or.inr (Or.inr h)))
            · exact Or.inr (Or.inr (Or.inl h))
          rcases hold with h | h | h | h
          · subst h
            rw [hfr x hnlt n2 n3] at hes0
            exact hk x (by simp) es0 hes0
          · rw [hfr x (l1 x h) (fun e => c1 (e ▸ h)) (x1 x h)] at hes0
            exact hk x (by simp [h]) es0 hes0
          · rw [hfr x (l2 x h) (fun e => c3 (e ▸ h)) (fun e => x3 x e h)] at hes0
            exact hk x (by simp [h]) es0 hes0
          · exact hk' x h es0 hes0
        · intro x hx hxn hxS
          simp only [List.mem_cons, List.mem_append, not_or] at hxS
          exact hfr x hx hxS.2.1 hxS.2.2.1
        · intro x hx
          simp only [List.mem_cons, List.mem_append] at hx ⊢
          rcases hx with h | h | h | h
          · exact Or.inl (Or.inl h)
          · exact Or.inl (Or.inr (Or.inl h))
          · rcases hsub x h with h | h
            · exact Or.inl (Or.inr (Or.inr (Or.inl h)))
            · exact Or.inr h
          · exact Or.inl (Or.inr (Or.inr (Or.inr h)))

theorem Add_eq (hN : GoSrc.New_Found = true) (hF : GoSrc.Trie_Add_Found = true) (fuel : Nat)
    (heap : Heap) (n : Nat) (t : T) (S : List Nat) (b : Bytes)
    (hg : Good heap n t S) (hf : b.length + 1 ≤ fuel) :
    ∃ heap' S', GoSrc.Trie_Add fuel heap (n : Int) b = some heap' ∧
      Good heap' n (add b t) S' ∧ heap.length ≤ heap'.length ∧
      (∀ x, x < heap.length → x ≠ n → x ∉ S → heap'[x]? = heap[x]?) ∧
      (∀ x ∈ S', x ∈ S ∨ heap.length ≤ x) := by
  first
  | exact absurd hF (by decide)
  | exact absurd hN (by decide)
  | (unfold GoSrc.Trie_Add
     simp only [Option.pure_def, Option.bind_eq_bind]
     refine add_loop ⟨?_, ?_, ?_⟩ b (List.range fuel) heap n t S false hg (by simpa using hf)
     · intro a heap cur d
       simp [len_nil_pos']
     · intro a k bs heap n es d hn
       have hnlt : n < heap.length := (List.getElem?_eq_some_iff.1 hn).1
       have hn2 : (heap ++ [[]])[n]? = some es := by
         rw [List.getElem?_append_left hnlt]; exact hn
       simp only [len_cons_pos, idx_ofNat, hn, idx_zero_cons, slice_tail, Option.bind_some,
         Bool.not_true, Bool.false_eq_true, if_false, New_eq hN, hn2, setIdx_ofNat]
       have : n < (heap ++ [[]]).length := by simp; omega
       simp only [this, if_true, Option.bind_some]
     · intro st
       rcases st with ⟨b, h, c, _ | _⟩ <;> rfl)

end TrieGo
end Bio.GoSrcLemmas
