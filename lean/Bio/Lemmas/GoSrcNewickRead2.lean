/-
  `(*reader).read` of formats/newick/newick.go (`Bio.Generated.GoSrc.newick_read`) against the
  hand-written parser `Newick.readLoop`.  Part 2: the loop.

  * `NwkRd.step` / `NwkRd.stepTok` / `NwkRd.fin`: the translated loop body and what follows the loop,
    verbatim (`newick_read_unfold`).
  * `NwkRd.Sim`: the simulation relation between the model state `(cur, stack)` — a stack of PARTIAL
    trees, a finished child being closed into its parent at `)` / `,` — and the Go state
    `(heap, stack of pointers)` — a child's pointer being appended to its parent's `Children` when the
    child is created.
  * `nwk_tok_sim`: one Go loop iteration = one unfolding of `readLoop` (`Newick.tokStep`).
  * `nwk_read_loop`: the loop; `newick_read_post`: the whole function.
  * `NwkRd.goDecodeLoop` / `NwkRd.goNewickDecode`: `Reader` of newick.go; `nwk_decode_loop`.

  Guarded by the translator's `<f>_Found` flags as in `Bio.Lemmas.GoSrc`.
-/
import Bio.Lemmas.GoSrcNewickRead1
import Bio.Lemmas.GoSrcNewickTok
import Bio.Lemmas.GoSrcNewick
import Bio.Lemmas.Newick
set_option linter.unusedVariables false
set_option linter.unusedSimpArgs false
namespace Bio.GoSrcLemmas
open Bio Bio.GoRt Bio.Generated Bio.Newick

namespace NwkRd

abbrev Res := Int × GoErr × Heap × ByteRd × Bytes
abbrev St := Option Res × ByteRd × Bytes × Heap × List Int × Int × Bool × Bool
abbrev PF := Bytes → Int → Newick.Dist × GoErr

/-- `return nil, err` inside the loop -/
def ret (heap : Heap) (r : ByteRd) (rb : Bytes) (stack : List Int) (state : Int) (ra d : Bool)
    (err : GoErr) : Option (ForInStep St) :=
  some (.done (some (-1, err, heap, r, rb), r, rb, heap, stack, state, ra, d))

def stepDist (pf : PF) (heap : Heap) (stack : List Int) (state : Int) (d : Bool)
    (token : Bytes) (r : ByteRd) (rb : Bytes) (cur_1 : Int) : Option (ForInStep St) :=
  if ((pf token 64).2 != GoErr.nil) = true then ret heap r rb stack state true d (pf token 64).2
  else (idx heap cur_1).bind fun tmp_16 =>
    (setIdx heap cur_1 (tmp_16.1, (pf token 64).1, tmp_16.2.2)).bind fun heap' =>
      some (.yield (none, r, rb, heap', stack, 3, true, d))

/-- the loop body after `token, err := r.nextToken()` -/
def stepTok (pf : PF) (heap : Heap) (stack : List Int) (state : Int) (ra d : Bool)
    (tk : Bytes × GoErr × ByteRd × Bytes) : Option (ForInStep St) :=
  if (tk.2.1 != GoErr.nil) = true then
    if (tk.2.1 == GoErr.eof && ra) = true then ret heap tk.2.2.1 tk.2.2.2 stack state ra d GoErr.other
    else ret heap tk.2.2.1 tk.2.2.2 stack state ra d tk.2.1
  else if (tk.1 == [40]) = true then
    if (state != 0) = true then ret heap tk.2.2.1 tk.2.2.2 stack state true d GoErr.other
    else (idx stack (len stack - 1)).bind fun cur =>
      (idx (heap ++ [([], none, [])]) cur).bind fun c1 =>
      (idx (heap ++ [([], none, [])]) cur).bind fun c2 =>
      (setIdx (heap ++ [([], none, [])]) cur
          (c2.1, c2.2.1, c1.2.2 ++ [len (heap ++ [([], none, [])]) - 1])).bind fun heap' =>
        some (.yield (none, tk.2.2.1, tk.2.2.2, heap',
          stack ++ [len (heap ++ [([], none, [])]) - 1], state, true, d))
  else if (tk.1 == [41]) = true then
    if (state == 2) = true then ret heap tk.2.2.1 tk.2.2.2 stack state true d GoErr.other
    else if (len stack == 1) = true then ret heap tk.2.2.1 tk.2.2.2 stack state true d GoErr.other
    else (slice stack 0 (len stack - 1)).bind fun stack' =>
      some (.yield (none, tk.2.2.1, tk.2.2.2, heap, stack', 4, true, d))
  else if (tk.1 == [44]) = true then
    if (state == 2) = true then ret heap tk.2.2.1 tk.2.2.2 stack state true d GoErr.other
    else if (len stack == 1) = true then ret heap tk.2.2.1 tk.2.2.2 stack state true d GoErr.other
    else (idx stack (len stack - 2)).bind fun parent =>
      (idx (heap ++ [([], none, [])]) parent).bind fun c1 =>
      (idx (heap ++ [([], none, [])]) parent).bind fun c2 =>
      (setIdx (heap ++ [([], none, [])]) parent
          (c2.1, c2.2.1, c1.2.2 ++ [len (heap ++ [([], none, [])]) - 1])).bind fun heap' =>
      (setIdx stack (len stack - 1) (len (heap ++ [([], none, [])]) - 1)).bind fun stack' =>
        some (.yield (none, tk.2.2.1, tk.2.2.2, heap', stack', 0, true, d))
  else if (tk.1 == [58]) = true then
    if (state == 2 || state == 3) = true then ret heap tk.2.2.1 tk.2.2.2 stack state true d GoErr.other
    else some (.yield (none, tk.2.2.1, tk.2.2.2, heap, stack, 2, true, d))
  else if (tk.1 == [59]) = true then
    if (len stack != 1) = true then ret heap tk.2.2.1 tk.2.2.2 stack state true d GoErr.other
    else if (state == 2) = true then ret heap tk.2.2.1 tk.2.2.2 stack state true d GoErr.other
    else some (.done (none, tk.2.2.1, tk.2.2.2, heap, stack, state, true, true))
  else if (state == 1 || state == 3) = true then
    ret heap tk.2.2.1 tk.2.2.2 stack state true d GoErr.other
  else (idx stack (len stack - 1)).bind fun cur_1 =>
    if (state == 0 || state == 4) = true then
      (GoSrc.nameFromText tk.1).bind fun nm =>
      (idx heap cur_1).bind fun tmp_12 =>
      (setIdx heap cur_1 (nm, tmp_12.2.1, tmp_12.2.2)).bind fun heap' =>
        some (.yield (none, tk.2.2.1, tk.2.2.2, heap', stack, 1, true, d))
    else if (state != 2) = true then
      (none : Option Unit).bind fun _ => stepDist pf heap stack state d tk.1 tk.2.2.1 tk.2.2.2 cur_1
    else stepDist pf heap stack state d tk.1 tk.2.2.1 tk.2.2.2 cur_1

/-- one iteration of the translated loop (the body of `GoSrc.newick_read`) -/
def step (pf : PF) (fuel : Nat) (s : St) : Option (ForInStep St) :=
  (GoSrc.newick_nextToken fuel s.2.1 s.2.2.1).bind
    (stepTok pf s.2.2.2.1 s.2.2.2.2.1 s.2.2.2.2.2.1 s.2.2.2.2.2.2.1 s.2.2.2.2.2.2.2)

/-- after the loop: a pending `return`, or `return stack[0], nil` after `break loop` -/
def fin (s : St) : Option Res :=
  match s.1 with
  | some r => some r
  | none =>
    if s.2.2.2.2.2.2.2 = true then
      (idx s.2.2.2.2.1 0).bind fun p => some (p, GoErr.nil, s.2.2.2.1, s.2.1, s.2.2.1)
    else none


/-! ## The simulation relation -/

/-- parser states as the translated code numbers them (`iota`) -/
def stI : PState → Int
  | .beforeNode => 0
  | .afterName => 1
  | .afterColon => 2
  | .afterDist => 3
  | .afterChildren => 4

/-- what is assumed about the parameter standing for `strconv.ParseFloat(·, 64)`: where the model's
distance parser `pd` accepts, no error and the model's value; where it rejects, an error -/
def PFModel (pf : PF) (pd : Bytes → Option Dist) : Prop :=
  ∀ s, (∀ d, pd s = some d → pf s 64 = (d, GoErr.nil)) ∧ (pd s = none → (pf s 64).2 ≠ GoErr.nil)

/-- the distance parser a given `ParseFloat` induces (so that `PFModel pf (pdOf pf)` always holds) -/
def pdOf (pf : PF) : Bytes → Option Dist :=
  fun s => if (pf s 64).2 = GoErr.nil then some (pf s 64).1 else none

/-- Model state `(cur, stack)` (current partial tree, its unfinished ancestors nearest first) against
Go state `(heap, gstack)`: the Go stack is the model's reversed (root first, current node `p` last);
`p`'s cell represents `cur`; each ancestor's cell holds its partial tree's name/distance, and its
`Children` are its closed children followed by the next stack entry (`Anc`); the root is the first
cell allocated by this call (`len h0`); `heap` extends the initial heap `h0`. -/
def Sim (h0 heap : Heap) (gstack : List Int) (cur : Tree) (stack : List Tree) : Prop :=
  ∃ p ps, gstack = ps.reverse ++ [p] ∧ RepT heap p cur ∧ Anc heap (len h0) p ps stack ∧ Ext h0 heap

/-- what `read()` returns (`r`), against the model's outcome: `heapIn`, `ra` = the heap and `readAny`
at the point considered (the model reports `.eof` only before any token) -/
def Post (pf : PF) (pd : Bytes → Option Dist) (h0 : Heap) (e : Ending) (heapIn : Heap) (ra : Bool) :
    ReadRes → Option Res → Prop
  | .tree t rest, r => ∃ heap' last' rb',
      r = some (len h0, GoErr.nil, heap', ⟨last', rest, e⟩, rb') ∧ RepT heap' (len h0) t ∧ Ext h0 heap'
  | .eof, r => ra = false ∧ r = some (-1, GoErr.eof, heapIn, ⟨none, [], e⟩, [])
  | .err, r => ∃ err heap' r' rb', r = some (-1, err, heap', r', rb') ∧ err ≠ GoErr.nil ∧
      (err = GoErr.other ∨ ∃ s, pd s = none ∧ err = (pf s 64).2) ∧ Ext h0 heap' ∧ r'.ending = e

/-- the iteration ends the loop, with the model's outcome `R` -/
def Done (pf : PF) (pd : Bytes → Option Dist) (h0 : Heap) (e : Ending) (heapIn : Heap) (ra : Bool)
    (o : Option (ForInStep St)) (R : ReadRes) : Prop :=
  ∃ s', o = some (.done s') ∧ Post pf pd h0 e heapIn ra R (fin s')

/-- the iteration continues the loop in a state that simulates the model's next state -/
def Cont (pd : Bytes → Option Dist) (h0 : Heap) (e : Ending) (o : Option (ForInStep St)) (r : ByteRd)
    (rb rest : Bytes) (R : ReadRes) : Prop :=
  ∃ heap' gstack' cur' stack' st',
    o = some (.yield (none, r, rb, heap', gstack', stI st', true, false)) ∧
    Sim h0 heap' gstack' cur' stack' ∧ R = readLoop pd e rest cur' stack' st' true

/-! ## `Reader` -/

/-- `Reader` of newick.go on one receiver: `read()` called again and again (at most `calls` times, each
with `fuel` loop iterations; heap, reader and buffer carried from call to call), stopping silently at
`io.EOF`; any other error is yielded and ends the stream; a tree is read back from the heap as it is
when yielded (`none` = a call panicked / ran out of fuel, or `calls` calls did not reach the end) -/
def goDecodeLoop (pf : PF) (fuel : Nat) : Nat → Heap → ByteRd → Bytes → Option (List (Item Tree))
  | 0, _, _, _ => none
  | calls + 1, heap, r, rb =>
    match GoSrc.newick_read pf fuel heap r rb with
    | none => none
    | some (p, err, heap', r', rb') =>
      if err = GoErr.eof then some []
      else if err ≠ GoErr.nil then some [Item.err]
      else (goDecodeLoop pf fuel calls heap' r' rb').map
        fun items => Item.ok (absT heap' heap'.length p) :: items

/-- … on a fresh reader (`newReader`) over the input `x` of a source ending with `e`, an empty heap -/
def goNewickDecode (pf : PF) (fuel : Nat) (x : Bytes) (e : Ending) : Option (List (Item Tree)) :=
  goDecodeLoop pf fuel fuel [] ⟨none, x, e⟩ []

end NwkRd
open NwkRd

theorem pfModel_pdOf (pf : PF) : PFModel pf (pdOf pf) := by
  intro s
  unfold pdOf
  constructor
  · intro d h
    split at h
    · rename_i h1
      injection h with h
      subst h
      exact Prod.ext rfl h1
    · cases h
  · intro h
    split at h
    · cases h
    · assumption

/-- the translated function is the loop `step` followed by `fin` -/
theorem newick_read_unfold (hF : GoSrc.newick_read_Found = true) (pf : PF) (fuel : Nat) (heap : Heap)
    (r : ByteRd) (rb : Bytes) :
    GoSrc.newick_read pf fuel heap r rb =
      (forIn (List.range fuel)
        ((none, r, rb, heap ++ [zero], [len (heap ++ [zero]) - 1], 0, false, false) : St)
        (fun _ s => step pf fuel s)).bind fin := by
  first
  | exact absurd hF (by decide)
  | (unfold GoSrc.newick_read
     simp only [Option.pure_def, Option.bind_eq_bind]
     congr 1
     funext s
     rcases s with ⟨_ | r, rr, buf, hp, stk, st, ra, _ | _⟩ <;> rfl)

/-! ## The Go stack -/

theorem nwk_idx_last (rs : List Int) (p : Int) : idx (rs ++ [p]) (len (rs ++ [p]) - 1) = some p := by
  rw [nwk_len_append_one, show len rs + 1 - 1 = len rs by omega]
  exact nwk_idx_append_len rs p

theorem nwk_idx_last2 (rs : List Int) (p' p : Int) :
    idx (rs ++ [p'] ++ [p]) (len (rs ++ [p'] ++ [p]) - 2) = some p' := by
  rw [nwk_len_append_one, nwk_len_append_one, show len rs + 1 + 1 - 2 = len rs by omega]
  exact nwk_idx_append [p] (nwk_idx_append_len rs p')

theorem nwk_slice_init (rs : List Int) (p : Int) :
    slice (rs ++ [p]) 0 (len (rs ++ [p]) - 1) = some rs := by
  unfold len
  rw [show (((rs ++ [p]).length : Int) - 1) = ((rs.length : Nat) : Int) by simp,
    show (0 : Int) = ((0 : Nat) : Int) by rfl, slice_ofNat _ _ _ (Nat.zero_le _) (by simp)]
  simp

theorem nwk_setIdx_last (rs : List Int) (p q : Int) :
    setIdx (rs ++ [p]) (len (rs ++ [p]) - 1) q = some (rs ++ [q]) := by
  unfold len
  rw [show (((rs ++ [p]).length : Int) - 1) = ((rs.length : Nat) : Int) by simp, setIdx_ofNat]
  simp

theorem nwk_len_one_iff (rs : List Int) (p : Int) : len (rs ++ [p]) = 1 ↔ rs = [] := by
  unfold len
  cases rs with
  | nil => simp
  | cons a t => simp; omega

/-! ## One token -/

theorem nwk_done_err {pf : PF} {pd : Bytes → Option Dist} {h0 heap heapIn : Heap} {e : Ending}
    {r : ByteRd} (rb : Bytes) (gstack : List Int) (state : Int) (ra ra' : Bool)
    (hext : Ext h0 heap) (hr : r.ending = e) :
    Done pf pd h0 e heapIn ra (ret heap r rb gstack state ra' false GoErr.other) .err :=
  ⟨_, rfl, GoErr.other, heap, r, rb, rfl, by decide, Or.inl rfl, hext, hr⟩

section tokens
variable {pf : PF} {pd : Bytes → Option Dist} {h0 heap : Heap} {e : Ending} {gstack : List Int}
  {cur : Tree} {stack : List Tree}

/-- `(` -/
theorem nwk_tok_open (hsim : Sim h0 heap gstack cur stack) (st : PState) (ra : Bool)
    (last : Option UInt8) (rest rb : Bytes) :
    Done pf pd h0 e heap ra (stepTok pf heap gstack (stI st) ra false ([40], GoErr.nil, ⟨last, rest, e⟩, rb))
      (tokStep pd e [40] rest cur stack st) ∨
    Cont pd h0 e (stepTok pf heap gstack (stI st) ra false ([40], GoErr.nil, ⟨last, rest, e⟩, rb))
      ⟨last, rest, e⟩ rb rest (tokStep pd e [40] rest cur stack st) := by
  obtain ⟨p, ps, hg, hrep, hanc, hext⟩ := hsim
  by_cases hst : st = .beforeNode
  · subst hst
    right
    obtain ⟨ks, hc, hk⟩ := hrep
    have hb := nwk_idx_some hc
    have hroot := Anc.root_le hanc
    have hs := nwk_sim_open hc hk hanc
    refine ⟨upd (heap ++ [zero]) p (cur.name, cur.dist, ks ++ [len heap]), gstack ++ [len heap], emptyNode, cur :: stack, .beforeNode, ?_, ?_, ?_⟩
    · subst hg
      have e1 := nwk_idx_last ps.reverse p
      have e2 : idx (heap ++ [(([], none, []) : Cell)]) p = some (cur.name, cur.dist, ks) :=
        nwk_idx_append _ hc
      have e3 : len (heap ++ [(([], none, []) : Cell)]) - 1 = len heap := by
        rw [nwk_len_append_one]; omega
      have e4 : ∀ v, setIdx (heap ++ [(([], none, []) : Cell)]) p v = some (upd (heap ++ [zero]) p v) :=
        fun v => nwk_setIdx_upd _ _ _ hb.1 (by rw [nwk_len_append_one]; omega)
      simp [stepTok, stI, e1, e2, e3, e4]
    · exact ⟨len heap, p :: ps, by simp [hg], hs.1, hs.2,
        Ext.upd (Ext.append hext [zero]) p _ hroot⟩
    · simp [tokStep]
  · left
    have h1 : (stI st != 0) = true := by cases st <;> simp_all [stI]
    have h2 : (st != PState.beforeNode) = true := by simpa using hst
    simp only [stepTok, tokStep, h1, h2, if_true]
    exact nwk_done_err rb gstack _ ra true hext rfl

/-- `)` -/
theorem nwk_tok_close (hsim : Sim h0 heap gstack cur stack) (st : PState) (ra : Bool)
    (last : Option UInt8) (rest rb : Bytes) :
    Done pf pd h0 e heap ra (stepTok pf heap gstack (stI st) ra false ([41], GoErr.nil, ⟨last, rest, e⟩, rb))
      (tokStep pd e [41] rest cur stack st) ∨
    Cont pd h0 e (stepTok pf heap gstack (stI st) ra false ([41], GoErr.nil, ⟨last, rest, e⟩, rb))
      ⟨last, rest, e⟩ rb rest (tokStep pd e [41] rest cur stack st) := by
  obtain ⟨p, ps, hg, hrep, hanc, hext⟩ := hsim
  by_cases hst : st = .afterColon
  · subst hst
    left
    simp only [stepTok, tokStep, stI]
    simp
    exact nwk_done_err rb gstack _ ra true hext rfl
  · have h1 : (stI st == 2) = false := by cases st <;> simp_all [stI]
    have h2 : (st == PState.afterColon) = false := by simpa using hst
    cases stack with
    | nil =>
      left
      have hps : ps = [] := (Anc.nil_iff hanc).mpr rfl
      subst hps
      subst hg
      simp only [stepTok, tokStep, h1, h2]
      simp [len]
      exact nwk_done_err rb _ _ ra true hext rfl
    | cons t stack' =>
      right
      cases ps with
      | nil => simp [Anc] at hanc
      | cons p' ps' =>
        obtain ⟨ks', hc', hk', ha'⟩ := nwk_sim_close hrep hanc
        have hl : (len gstack == 1) = false := by
          subst hg
          have := nwk_len_one_iff (p' :: ps').reverse p
          simp at this
          simpa using this
        have e1 : slice gstack 0 (len gstack - 1) = some ((p' :: ps').reverse) := by
          subst hg; exact nwk_slice_init _ _
        refine ⟨heap, (p' :: ps').reverse, closeTop cur t, stack', .afterChildren, ?_, ?_, ?_⟩
        · simp only [stepTok, h1, hl, e1]
          simp [stI]
        · exact ⟨p', ps', by simp, ⟨ks', hc', hk'⟩, ha', hext⟩
        · simp [tokStep, h2]

/-- `,` -/
theorem nwk_tok_comma (hsim : Sim h0 heap gstack cur stack) (st : PState) (ra : Bool)
    (last : Option UInt8) (rest rb : Bytes) :
    Done pf pd h0 e heap ra (stepTok pf heap gstack (stI st) ra false ([44], GoErr.nil, ⟨last, rest, e⟩, rb))
      (tokStep pd e [44] rest cur stack st) ∨
    Cont pd h0 e (stepTok pf heap gstack (stI st) ra false ([44], GoErr.nil, ⟨last, rest, e⟩, rb))
      ⟨last, rest, e⟩ rb rest (tokStep pd e [44] rest cur stack st) := by
  obtain ⟨p, ps, hg, hrep, hanc, hext⟩ := hsim
  by_cases hst : st = .afterColon
  · subst hst
    left
    simp only [stepTok, tokStep, stI]
    simp
    exact nwk_done_err rb gstack _ ra true hext rfl
  · have h1 : (stI st == 2) = false := by cases st <;> simp_all [stI]
    have h2 : (st == PState.afterColon) = false := by simpa using hst
    cases stack with
    | nil =>
      left
      have hps : ps = [] := (Anc.nil_iff hanc).mpr rfl
      subst hps
      subst hg
      simp only [stepTok, tokStep, h1, h2]
      simp [len]
      exact nwk_done_err rb _ _ ra true hext rfl
    | cons t stack' =>
      right
      cases ps with
      | nil => simp [Anc] at hanc
      | cons p' ps' =>
        obtain ⟨ks', hc', hk', ha'⟩ := nwk_sim_close hrep hanc
        have hb := nwk_idx_some hc'
        have hroot := Anc.root_le ha'
        have hs := nwk_sim_open hc' hk' ha'
        have hg' : gstack = ps'.reverse ++ [p'] ++ [p] := by simp [hg]
        have hl : (len gstack == 1) = false := by
          subst hg
          have := nwk_len_one_iff (p' :: ps').reverse p
          simp at this
          simpa using this
        have e1 : idx gstack (len gstack - 2) = some p' := by
          rw [hg']; exact nwk_idx_last2 _ _ _
        have e2 : idx (heap ++ [(([], none, []) : Cell)]) p'
            = some ((closeTop cur t).name, (closeTop cur t).dist, ks') := nwk_idx_append _ hc'
        have e3 : len (heap ++ [(([], none, []) : Cell)]) - 1 = len heap := by
          rw [nwk_len_append_one]; omega
        have e4 : ∀ v, setIdx (heap ++ [(([], none, []) : Cell)]) p' v
            = some (upd (heap ++ [zero]) p' v) :=
          fun v => nwk_setIdx_upd _ _ _ hb.1 (by rw [nwk_len_append_one]; omega)
        have e5 : setIdx gstack (len gstack - 1) (len heap) = some (ps'.reverse ++ [p'] ++ [len heap]) := by
          rw [hg']; exact nwk_setIdx_last _ _ _
        refine ⟨upd (heap ++ [zero]) p' ((closeTop cur t).name, (closeTop cur t).dist, ks' ++ [len heap]),
          ps'.reverse ++ [p'] ++ [len heap], emptyNode, closeTop cur t :: stack', .beforeNode, ?_, ?_, ?_⟩
        · simp only [stepTok, h1, hl, e1, e2, e3, e4, e5, Option.bind_some]
          simp [stI]
        · exact ⟨len heap, p' :: ps', by simp, hs.1, hs.2,
            Ext.upd (Ext.append hext [zero]) p' _ hroot⟩
        · simp [tokStep, h2]

/-- `:` -/
theorem nwk_tok_colon (hsim : Sim h0 heap gstack cur stack) (st : PState) (ra : Bool)
    (last : Option UInt8) (rest rb : Bytes) :
    Done pf pd h0 e heap ra (stepTok pf heap gstack (stI st) ra false ([58], GoErr.nil, ⟨last, rest, e⟩, rb))
      (tokStep pd e [58] rest cur stack st) ∨
    Cont pd h0 e (stepTok pf heap gstack (stI st) ra false ([58], GoErr.nil, ⟨last, rest, e⟩, rb))
      ⟨last, rest, e⟩ rb rest (tokStep pd e [58] rest cur stack st) := by
  have hext : Ext h0 heap := hsim.choose_spec.choose_spec.2.2.2
  by_cases hst : st = .afterColon ∨ st = .afterDist
  · left
    have h1 : (stI st == 2 || stI st == 3) = true := by rcases hst with rfl | rfl <;> simp [stI]
    have h2 : (st == PState.afterColon || st == PState.afterDist) = true := by
      rcases hst with rfl | rfl <;> simp
    simp only [stepTok, tokStep, h1, h2]
    simp
    exact nwk_done_err rb gstack _ ra true hext rfl
  · right
    have h1 : (stI st == 2 || stI st == 3) = false := by cases st <;> simp_all [stI]
    have h2 : (st == PState.afterColon || st == PState.afterDist) = false := by
      cases st <;> simp_all
    refine ⟨heap, gstack, cur, stack, .afterColon, ?_, hsim, ?_⟩
    · simp only [stepTok, h1]
      simp [stI]
    · simp [tokStep, h2]

/-- `;` -/
theorem nwk_tok_semi (hsim : Sim h0 heap gstack cur stack) (st : PState) (ra : Bool)
    (last : Option UInt8) (rest rb : Bytes) :
    Done pf pd h0 e heap ra (stepTok pf heap gstack (stI st) ra false ([59], GoErr.nil, ⟨last, rest, e⟩, rb))
      (tokStep pd e [59] rest cur stack st) := by
  obtain ⟨p, ps, hg, hrep, hanc, hext⟩ := hsim
  cases stack with
  | cons t stack' =>
    cases ps with
    | nil => simp [Anc] at hanc
    | cons p' ps' =>
      have hl : (len gstack != 1) = true := by
        subst hg
        have := nwk_len_one_iff (p' :: ps').reverse p
        simp at this
        simpa using this
      simp only [stepTok, tokStep, hl]
      simp
      exact nwk_done_err rb gstack _ ra true hext rfl
  | nil =>
    have hps : ps = [] := (Anc.nil_iff hanc).mpr rfl
    subst hps
    have hp : p = len h0 := by simpa [Anc] using hanc
    subst hg
    by_cases hst : st = .afterColon
    · subst hst
      simp only [stepTok, tokStep, stI]
      simp [len]
      exact nwk_done_err rb _ _ ra true hext rfl
    · have h1 : (stI st == 2) = false := by cases st <;> simp_all [stI]
      have h2 : (st == PState.afterColon) = false := by simpa using hst
      simp only [stepTok, tokStep, h1, h2]
      simp [len]
      refine ⟨_, rfl, ?_⟩
      simp only [Post, fin]
      refine ⟨heap, last, rb, ?_, hp ▸ hrep, hext⟩
      simp [idx, hp]

/-- any other token: a name, or a distance -/
theorem nwk_tok_default (hN : GoSrc.nameFromText_Found = true) (hQ : GoSrc.quoted_Found = true)
    (hpf : PFModel pf pd) (hsim : Sim h0 heap gstack cur stack) (st : PState) (ra : Bool)
    (last : Option UInt8) (rest rb : Bytes) (t : Bytes) (ht : NotStructTok t) :
    Done pf pd h0 e heap ra (stepTok pf heap gstack (stI st) ra false (t, GoErr.nil, ⟨last, rest, e⟩, rb))
      (tokStep pd e t rest cur stack st) ∨
    Cont pd h0 e (stepTok pf heap gstack (stI st) ra false (t, GoErr.nil, ⟨last, rest, e⟩, rb))
      ⟨last, rest, e⟩ rb rest (tokStep pd e t rest cur stack st) := by
  rw [tokStep_default _ _ _ _ _ _ _ ht]
  obtain ⟨h40, h41, h44, h58, h59⟩ := ht
  have b40 : (t == [40]) = false := by simpa using h40
  have b41 : (t == [41]) = false := by simpa using h41
  have b44 : (t == [44]) = false := by simpa using h44
  have b58 : (t == [58]) = false := by simpa using h58
  have b59 : (t == [59]) = false := by simpa using h59
  obtain ⟨p, ps, hg, hrep, hanc, hext⟩ := hsim
  obtain ⟨ks, hc, hk⟩ := hrep
  have hb := nwk_idx_some hc
  have hroot := Anc.root_le hanc
  have e1 : idx gstack (len gstack - 1) = some p := by subst hg; exact nwk_idx_last _ _
  have e4 : ∀ v, setIdx heap p v = some (upd heap p v) := fun v => nwk_setIdx_upd _ _ _ hb.1 hb.2
  have hname : Cont pd h0 e
      (some (.yield (none, ⟨last, rest, e⟩, rb, upd heap p (Newick.nameFromText t, cur.dist, ks), gstack,
        1, true, false))) ⟨last, rest, e⟩ rb rest
      (readLoop pd e rest { cur with name := Newick.nameFromText t } stack .afterName true) := by
    have hs := nwk_sim_set (Newick.nameFromText t) cur.dist hc hk hanc
    exact ⟨_, gstack, { cur with name := Newick.nameFromText t }, stack, .afterName, rfl,
      ⟨p, ps, hg, ⟨ks, hs.1, hs.2.1⟩, hs.2.2, Ext.upd hext p _ hroot⟩, rfl⟩
  cases st with
  | afterName =>
    left
    simp only [stepTok, stI, b40, b41, b44, b58, b59]
    simp
    exact nwk_done_err rb gstack _ ra true hext rfl
  | afterDist =>
    left
    simp only [stepTok, stI, b40, b41, b44, b58, b59]
    simp
    exact nwk_done_err rb gstack _ ra true hext rfl
  | beforeNode =>
    right
    simp only [stepTok, stI, b40, b41, b44, b58, b59, e1, Option.bind_some,
      nameFromText_eq hN hQ, hc, e4]
    simpa using hname
  | afterChildren =>
    right
    simp only [stepTok, stI, b40, b41, b44, b58, b59, e1, Option.bind_some,
      nameFromText_eq hN hQ, hc, e4]
    simpa using hname
  | afterColon =>
    cases hp : pd t with
    | none =>
      left
      have hne := (hpf t).2 hp
      have hne' : ((pf t 64).2 != GoErr.nil) = true := by simpa using hne
      simp only [stepTok, stepDist, stI, b40, b41, b44, b58, b59, e1, Option.bind_some, hne']
      simp
      exact ⟨_, rfl, (pf t 64).2, heap, ⟨last, rest, e⟩, rb, rfl, hne, Or.inr ⟨t, hp, rfl⟩, hext, rfl⟩
    | some d =>
      right
      have hv := (hpf t).1 d hp
      have hs := nwk_sim_set cur.name d hc hk hanc
      refine ⟨upd heap p (cur.name, d, ks), gstack, { cur with dist := d }, stack, .afterDist, ?_,
        ⟨p, ps, hg, ⟨ks, hs.1, hs.2.1⟩, hs.2.2, Ext.upd hext p _ hroot⟩, ?_⟩
      · simp only [stepTok, stepDist, stI, b40, b41, b44, b58, b59, e1, Option.bind_some, hv, hc, e4]
        simp
      · simp

end tokens

/-! ## One iteration = one unfolding of `readLoop` -/

section loop
variable {pf : PF} {pd : Bytes → Option Dist} {h0 : Heap} {e : Ending}

theorem nwk_tok_sim (hN : GoSrc.nameFromText_Found = true) (hQ : GoSrc.quoted_Found = true)
    (hpf : PFModel pf pd) {heap : Heap} {gstack : List Int} {cur : Tree} {stack : List Tree}
    (hsim : Sim h0 heap gstack cur stack) (st : PState) (ra : Bool)
    (last : Option UInt8) (rest rb : Bytes) (t : Bytes) :
    Done pf pd h0 e heap ra (stepTok pf heap gstack (stI st) ra false (t, GoErr.nil, ⟨last, rest, e⟩, rb))
      (tokStep pd e t rest cur stack st) ∨
    Cont pd h0 e (stepTok pf heap gstack (stI st) ra false (t, GoErr.nil, ⟨last, rest, e⟩, rb))
      ⟨last, rest, e⟩ rb rest (tokStep pd e t rest cur stack st) := by
  by_cases h40 : t = [40]
  · subst h40; exact nwk_tok_open hsim st ra last rest rb
  by_cases h41 : t = [41]
  · subst h41; exact nwk_tok_close hsim st ra last rest rb
  by_cases h44 : t = [44]
  · subst h44; exact nwk_tok_comma hsim st ra last rest rb
  by_cases h58 : t = [58]
  · subst h58; exact nwk_tok_colon hsim st ra last rest rb
  by_cases h59 : t = [59]
  · subst h59; exact Or.inl (nwk_tok_semi hsim st ra last rest rb)
  exact nwk_tok_default hN hQ hpf hsim st ra last rest rb t ⟨h40, h41, h44, h58, h59⟩

/-- One iteration of the translated loop from a state that simulates the model's: out of fuel in the
tokenizer; or the loop ends with the model's outcome; or the model's tokenizer found a token and the
loop continues in a state that simulates the model's next state. -/
theorem nwk_step_sim (hT : GoSrc.newick_nextToken_Found = true) (hN : GoSrc.nameFromText_Found = true)
    (hQ : GoSrc.quoted_Found = true) (hpf : PFModel pf pd) (fuel : Nat)
    {heap : Heap} {gstack : List Int} {cur : Tree} {stack : List Tree}
    (hsim : Sim h0 heap gstack cur stack) (st : PState) (ra : Bool) (last : Option UInt8) (x rb : Bytes) :
    (fuel < NwkTok.sCost x ∧
      step pf fuel (none, ⟨last, x, e⟩, rb, heap, gstack, stI st, ra, false) = none) ∨
    Done pf pd h0 e heap ra (step pf fuel (none, ⟨last, x, e⟩, rb, heap, gstack, stI st, ra, false))
      (readLoop pd e x cur stack st ra) ∨
    ∃ t rest last' rb', nextToken e x = .tok t rest ∧
      Cont pd h0 e (step pf fuel (none, ⟨last, x, e⟩, rb, heap, gstack, stI st, ra, false))
        ⟨last', rest, e⟩ rb' rest (readLoop pd e x cur stack st ra) := by
  have hext : Ext h0 heap := hsim.choose_spec.choose_spec.2.2.2
  by_cases hf : NwkTok.sCost x ≤ fuel
  · right
    have hm := newick_nextToken_model hT x e last rb fuel hf
    cases hn : nextToken e x with
    | eof =>
      left
      simp only [hn] at hm
      rw [readLoop_eof _ _ _ _ _ _ _ hn]
      simp only [step, hm, Option.bind_some]
      cases ra with
      | false =>
        simp [stepTok]
        exact ⟨_, rfl, rfl, rfl⟩
      | true =>
        simp [stepTok]
        exact nwk_done_err [] gstack _ true true hext rfl
    | err =>
      left
      simp only [hn] at hm
      obtain ⟨l', r', rb', hm⟩ := hm
      rw [readLoop_err _ _ _ _ _ _ _ hn]
      simp only [step, hm, Option.bind_some]
      simp [stepTok]
      exact nwk_done_err rb' gstack _ ra ra hext rfl
    | tok t rest =>
      simp only [hn] at hm
      obtain ⟨l', rb', hm⟩ := hm
      rw [readLoop_tokStep _ _ _ _ _ _ _ _ _ hn]
      simp only [step, hm, Option.bind_some]
      rcases nwk_tok_sim hN hQ hpf hsim st ra l' rest rb' t with h | h
      · exact Or.inl h
      · exact Or.inr ⟨t, rest, l', rb', rfl, h⟩
  · left
    refine ⟨by omega, ?_⟩
    simp only [step]
    rw [newick_nextToken_short hT fuel last x e rb (by omega)]
    rfl

theorem Post.weaken {heap heap' : Heap} {ra : Bool} {R : ReadRes} {r : Option Res}
    (h : Post pf pd h0 e heap' true R r) : Post pf pd h0 e heap ra R r := by
  cases R with
  | tree t rest => exact h
  | err => exact h
  | eof => exact absurd h.1 (by decide)

/-- The translated loop from a state that simulates the model's: whatever the fuel, it reports `none`
(no claim) or the model's outcome; and with `x.length + 1` iterations (and as much fuel for the
tokenizer) it does not report `none`. -/
theorem nwk_read_loop (hT : GoSrc.newick_nextToken_Found = true) (hN : GoSrc.nameFromText_Found = true)
    (hQ : GoSrc.quoted_Found = true) (hpf : PFModel pf pd) (fuel : Nat)
    (body : Nat → St → Option (ForInStep St)) (hbody : ∀ k s, body k s = step pf fuel s) :
    ∀ (l : List Nat) (x : Bytes) (last : Option UInt8) (rb : Bytes) (heap : Heap) (gstack : List Int)
      (cur : Tree) (stack : List Tree) (st : PState) (ra : Bool), Sim h0 heap gstack cur stack →
      (((forIn l ((none, ⟨last, x, e⟩, rb, heap, gstack, stI st, ra, false) : St) body).bind fin = none ∨
        Post pf pd h0 e heap ra (readLoop pd e x cur stack st ra)
          ((forIn l ((none, ⟨last, x, e⟩, rb, heap, gstack, stI st, ra, false) : St) body).bind fin)) ∧
       (x.length + 1 ≤ l.length → x.length + 1 ≤ fuel →
        Post pf pd h0 e heap ra (readLoop pd e x cur stack st ra)
          ((forIn l ((none, ⟨last, x, e⟩, rb, heap, gstack, stI st, ra, false) : St) body).bind fin))) := by
  intro l
  induction l with
  | nil =>
    intro x last rb heap gstack cur stack st ra hsim
    exact ⟨Or.inl rfl, fun h _ => by simp at h⟩
  | cons k l ih =>
    intro x last rb heap gstack cur stack st ra hsim
    simp only [List.forIn_cons, hbody]
    rcases nwk_step_sim hT hN hQ hpf fuel hsim st ra last x rb with ⟨hf, hs⟩ | ⟨s', hs, hp⟩ |
      ⟨t, rest, last', rb', hn, heap', gstack', cur', stack', st', hs, hsim', hR⟩
    · rw [hs]
      refine ⟨Or.inl rfl, fun _ h2 => ?_⟩
      have := sCost_le x
      omega
    · rw [hs]
      exact ⟨Or.inr hp, fun _ _ => hp⟩
    · rw [hs, hR]
      have hlt := nextToken_lt e x t rest hn
      have := ih rest last' rb' heap' gstack' cur' stack' st' true hsim'
      simp only [List.length_cons]
      refine ⟨?_, fun h1 h2 => Post.weaken (this.2 (by omega) (by omega))⟩
      rcases this.1 with h | h
      · exact Or.inl h
      · exact Or.inr (Post.weaken h)

/-- The translated `read()` on the remaining input `x` (any heap, any reader history): whatever the
fuel, `none` (no claim) or the model's `readTree`; and not `none` with `x.length + 1` fuel. -/
theorem newick_read_post (hR : GoSrc.newick_read_Found = true)
    (hT : GoSrc.newick_nextToken_Found = true) (hN : GoSrc.nameFromText_Found = true)
    (hQ : GoSrc.quoted_Found = true) (hpf : PFModel pf pd) (x : Bytes) (last : Option UInt8)
    (rb : Bytes) (fuel : Nat) :
    (GoSrc.newick_read pf fuel h0 ⟨last, x, e⟩ rb = none ∨
      Post pf pd h0 e (h0 ++ [zero]) false (readTree pd e x)
        (GoSrc.newick_read pf fuel h0 ⟨last, x, e⟩ rb)) ∧
    (x.length + 1 ≤ fuel → Post pf pd h0 e (h0 ++ [zero]) false (readTree pd e x)
        (GoSrc.newick_read pf fuel h0 ⟨last, x, e⟩ rb)) := by
  rw [newick_read_unfold hR]
  have e3 : len (h0 ++ [zero]) - 1 = len h0 := by rw [nwk_len_append_one]; omega
  have hsim : Sim h0 (h0 ++ [zero]) [len (h0 ++ [zero]) - 1] emptyNode [] := by
    refine ⟨len h0, [], by simp [e3], ⟨[], ?_, ?_⟩, ?_, Ext.append (Ext.refl h0) _⟩
    · rw [nwk_idx_append_len]; rfl
    · simp [emptyNode, RepF]
    · simp [Anc]
  have := nwk_read_loop (h0 := h0) (e := e) hT hN hQ hpf fuel (fun _ s => step pf fuel s)
    (fun _ _ => rfl) (List.range fuel) x last rb (h0 ++ [zero]) [len (h0 ++ [zero]) - 1] emptyNode []
    .beforeNode false hsim
  rw [List.length_range] at this
  exact ⟨this.1, fun h => this.2 h h⟩

/-! ## `Reader` -/

theorem nwk_decode_loop (hR : GoSrc.newick_read_Found = true)
    (hT : GoSrc.newick_nextToken_Found = true) (hN : GoSrc.nameFromText_Found = true)
    (hQ : GoSrc.quoted_Found = true) (hpf : PFModel pf pd) (fuel : Nat) :
    ∀ (calls : Nat) (x : Bytes) (heap : Heap) (last : Option UInt8) (rb : Bytes),
      x.length + 1 ≤ calls → x.length + 1 ≤ fuel →
      ((∀ s, pd s = none → (pf s 64).2 ≠ GoErr.eof) ∨ Item.err ∉ decodeSrc pd e x) →
      goDecodeLoop pf fuel calls heap ⟨last, x, e⟩ rb = some (decodeSrc pd e x) := by
  intro calls
  induction calls with
  | zero => intro x heap last rb h; omega
  | succ n ih =>
    intro x heap last rb hc hf hH
    have hp := (newick_read_post (h0 := heap) (e := e) hR hT hN hQ hpf x last rb fuel).2 hf
    cases hr : readTree pd e x with
    | eof =>
      simp only [hr, Post] at hp
      simp [goDecodeLoop, hp.2, decodeSrc_eof _ _ _ hr]
    | err =>
      simp only [hr, Post] at hp
      obtain ⟨err, heap', r', rb', h1, h2, h3, _, _⟩ := hp
      rw [decodeSrc_err _ _ _ hr] at hH ⊢
      have h4 : err ≠ GoErr.eof := by
        rcases hH with hH | hH
        · rcases h3 with h3 | ⟨s, hs, h3⟩
          · subst h3; decide
          · subst h3; exact hH s hs
        · simp at hH
      simp [goDecodeLoop, h1, h2, h4]
    | tree t rest =>
      simp only [hr, Post] at hp
      obtain ⟨heap', last', rb', h1, h2, _⟩ := hp
      have hlt := readTree_rest_lt pd e x t rest hr
      rw [decodeSrc_tree _ _ _ _ _ hr] at hH ⊢
      have hb := nwk_idx_some h2.choose_spec.1
      have hab : absT heap' heap'.length (len heap) = t :=
        absT_of_RepT h2 _ (by omega) (by unfold len at hb; omega)
      have := ih rest heap' last' rb' (by omega) (by omega)
        (hH.imp id (fun h hh => h (List.mem_cons_of_mem _ hh)))
      simp [goDecodeLoop, h1, this, hab]

end loop

end Bio.GoSrcLemmas
