/-
  Helper lemmas for C09 / C10: table-access recurrences of the alignment DP
  (proved here independently of `Bio/Lemmas/Align.lean`), and the optimality
  argument for zero gap-open.
-/
import Bio.Model.Align
namespace Bio.Align.Opt

/-! ## Row lengths -/

theorem row0Aux_length (m : Mat) (loc : Bool) (b : Bytes) :
    ∀ prev first, (row0Aux m loc prev first b).length = b.length := by
  induction b with
  | nil => intros; rfl
  | cons y ys ih => intro prev first; simp [row0Aux, ih]

theorem row0_length (m : Mat) (loc : Bool) (b : Bytes) :
    (row0 m loc b).length = b.length + 1 := by
  simp [row0, row0Aux_length]

theorem rowAux_length (m : Mat) (loc : Bool) (x : UInt8) :
    ∀ (ys : Bytes) (left diag : Cell) (ups : List Cell), ups.length = ys.length →
      (rowAux m loc x left diag ups ys).length = ys.length := by
  intro ys
  induction ys with
  | nil => intro left diag ups h; cases ups <;> simp [rowAux]
  | cons y ys ih =>
    intro left diag ups h
    cases ups with
    | nil => simp at h
    | cons up ups =>
      simp only [rowAux, List.length_cons]
      rw [ih]; simpa using h

theorem nextRow_length (m : Mat) (loc : Bool) (x : UInt8) (first : Bool) (prev : List Cell)
    (b : Bytes) (h : prev.length = b.length + 1) :
    (nextRow m loc x first prev b).length = b.length + 1 := by
  cases prev with
  | nil => simp at h
  | cons up0 ups =>
    simp only [nextRow, List.length_cons]
    rw [rowAux_length]; simpa using h

/-! ## Row 0 -/

/-- Generalised access to `row0Aux`: `L = c :: row0Aux … c.score first ys`. -/
theorem row0Aux_get (m : Mat) (loc : Bool) :
    ∀ (ys : Bytes) (c : Cell) (first : Bool) (j : Nat) (hj : j < ys.length),
      ((c :: row0Aux m loc c.score first ys)[j + 1]?).getD ⟨0, .none⟩ =
        clamp loc ⟨(((c :: row0Aux m loc c.score first ys)[j]?).getD ⟨0, .none⟩).score
          + m GAP ys[j] + (if j = 0 then (if first then m GAP GAP else 0) else 0), .ins⟩ := by
  intro ys
  induction ys with
  | nil => intro c first j hj; simp at hj
  | cons y ys ih =>
    intro c first j hj
    cases j with
    | zero => simp [row0Aux]
    | succ j =>
      have := ih (clamp loc ⟨c.score + m GAP y + (if first then m GAP GAP else 0), .ins⟩) false j
        (by simpa using hj)
      simp only [row0Aux, List.getElem?_cons_succ] at this ⊢
      rw [this]
      simp

/-! ## Inner rows -/

theorem rowAux_get (m : Mat) (loc : Bool) (x : UInt8) :
    ∀ (ys : Bytes) (left diag : Cell) (ups : List Cell) (j : Nat) (hj : j < ys.length)
      (_hu : ups.length = ys.length),
      ((left :: rowAux m loc x left diag ups ys)[j + 1]?).getD ⟨0, .none⟩ =
        clamp loc (decideOnStep
          ((((diag :: ups)[j]?).getD ⟨0, .none⟩).score + m x ys[j])
          ((((diag :: ups)[j + 1]?).getD ⟨0, .none⟩).score + m x GAP +
            (if (((diag :: ups)[j + 1]?).getD ⟨0, .none⟩).step != .del then m GAP GAP else 0))
          ((((left :: rowAux m loc x left diag ups ys)[j]?).getD ⟨0, .none⟩).score + m GAP ys[j] +
            (if (((left :: rowAux m loc x left diag ups ys)[j]?).getD ⟨0, .none⟩).step != .ins
              then m GAP GAP else 0))) := by
  intro ys
  induction ys with
  | nil => intro left diag ups j hj; simp at hj
  | cons y ys ih =>
    intro left diag ups j hj hu
    cases ups with
    | nil => simp at hu
    | cons up ups =>
      cases j with
      | zero => simp [rowAux]
      | succ j =>
        have := ih (clamp loc (decideOnStep (diag.score + m x y)
            (up.score + m x GAP + (if up.step != .del then m GAP GAP else 0))
            (left.score + m GAP y + (if left.step != .ins then m GAP GAP else 0)))) up ups j
          (by simpa using hj) (by simpa using hu)
        simp only [rowAux, List.getElem?_cons_succ] at this ⊢
        rw [this]
        simp

/-! ## Rows of the table -/

/-- Row `i` of a table (empty if out of range). -/
def rowAt (t : List (List Cell)) (i : Nat) : List Cell := (t[i]?).getD []

theorem cellAt_eq (t : List (List Cell)) (i j : Nat) :
    cellAt t i j = ((rowAt t i)[j]?).getD ⟨0, .none⟩ := rfl

theorem tableAux_row (m : Mat) (loc : Bool) (b : Bytes) :
    ∀ (xs : Bytes) (prev : List Cell) (first : Bool) (k : Nat) (hk : k < xs.length),
      rowAt (prev :: tableAux m loc b prev first xs) (k + 1) =
        nextRow m loc xs[k] (if k = 0 then first else false)
          (rowAt (prev :: tableAux m loc b prev first xs) k) b := by
  intro xs
  induction xs with
  | nil => intro prev first k hk; simp at hk
  | cons x xs ih =>
    intro prev first k hk
    cases k with
    | zero => simp [rowAt, tableAux]
    | succ k =>
      have := ih (nextRow m loc x first prev b) false k (by simpa using hk)
      simp only [rowAt, tableAux, List.getElem?_cons_succ] at this ⊢
      rw [this]
      simp

theorem table_row_zero (m : Mat) (loc : Bool) (a b : Bytes) :
    rowAt (table m loc a b) 0 = row0 m loc b := by
  simp [rowAt, table]

theorem table_row_succ (m : Mat) (loc : Bool) (a b : Bytes) (i : Nat) (hi : i < a.length) :
    rowAt (table m loc a b) (i + 1) =
      nextRow m loc a[i] (decide (i = 0)) (rowAt (table m loc a b) i) b := by
  have := tableAux_row m loc b a (row0 m loc b) true i hi
  simp only [table]
  rw [this]
  by_cases h : i = 0 <;> simp [h]

theorem table_row_length (m : Mat) (loc : Bool) (a b : Bytes) :
    ∀ i, i ≤ a.length → (rowAt (table m loc a b) i).length = b.length + 1 := by
  intro i
  induction i with
  | zero => intro _; rw [table_row_zero, row0_length]
  | succ i ih =>
    intro hi
    rw [table_row_succ m loc a b i (by omega)]
    exact nextRow_length _ _ _ _ _ _ (ih (by omega))

/-! ## The four cell recurrences -/

theorem cell_zero_zero (m : Mat) (loc : Bool) (a b : Bytes) :
    cellAt (table m loc a b) 0 0 = ⟨0, .none⟩ := by
  simp [cellAt_eq, table_row_zero, row0]

theorem cell_zero_succ (m : Mat) (loc : Bool) (a b : Bytes) (j : Nat) (hj : j < b.length) :
    cellAt (table m loc a b) 0 (j + 1) =
      clamp loc ⟨(cellAt (table m loc a b) 0 j).score + m GAP b[j] +
        (if j = 0 then m GAP GAP else 0), .ins⟩ := by
  simp only [cellAt_eq, table_row_zero, row0]
  have := row0Aux_get m loc b ⟨0, .none⟩ true j hj
  simp only at this
  rw [this]; simp

theorem cell_succ_zero (m : Mat) (loc : Bool) (a b : Bytes) (i : Nat) (hi : i < a.length) :
    cellAt (table m loc a b) (i + 1) 0 =
      clamp loc ⟨(cellAt (table m loc a b) i 0).score + m a[i] GAP +
        (if i = 0 then m GAP GAP else 0), .del⟩ := by
  simp only [cellAt_eq]
  rw [table_row_succ m loc a b i hi]
  have hl := table_row_length m loc a b i (by omega)
  generalize rowAt (table m loc a b) i = prev at hl
  cases prev with
  | nil => simp at hl
  | cons up0 ups => by_cases h : i = 0 <;> simp [nextRow, h]

theorem cell_succ_succ (m : Mat) (loc : Bool) (a b : Bytes) (i j : Nat)
    (hi : i < a.length) (hj : j < b.length) :
    cellAt (table m loc a b) (i + 1) (j + 1) =
      clamp loc (decideOnStep
        ((cellAt (table m loc a b) i j).score + m a[i] b[j])
        ((cellAt (table m loc a b) i (j + 1)).score + m a[i] GAP +
          (if (cellAt (table m loc a b) i (j + 1)).step != .del then m GAP GAP else 0))
        ((cellAt (table m loc a b) (i + 1) j).score + m GAP b[j] +
          (if (cellAt (table m loc a b) (i + 1) j).step != .ins then m GAP GAP else 0))) := by
  have hl := table_row_length m loc a b i (by omega)
  obtain ⟨up0, ups, hp⟩ : ∃ up0 ups, rowAt (table m loc a b) i = up0 :: ups := by
    cases h : rowAt (table m loc a b) i with
    | nil => simp [h] at hl
    | cons up0 ups => exact ⟨_, _, rfl⟩
  have hu : ups.length = b.length := by simpa [hp] using hl
  simp only [cellAt_eq, table_row_succ m loc a b i hi, hp, nextRow]
  exact rowAux_get m loc a[i] b _ up0 ups j hj hu

/-! ## Equations of `rescore` -/

theorem rescore_nil (m : Mat) (p : Step) (A B : Bytes) : rescore m p A B [] = some (0, A, B) := by
  simp [rescore]

theorem rescore_mch_cons (m : Mat) (p : Step) (x y : UInt8) (A B : Bytes) (s : List Step) :
    rescore m p (x :: A) (y :: B) (.mch :: s) =
      (rescore m .mch A B s).map fun r => (m x y + r.1, r.2) := by
  simp [rescore]

theorem rescore_del_cons (m : Mat) (p : Step) (x : UInt8) (A B : Bytes) (s : List Step) :
    rescore m p (x :: A) B (.del :: s) =
      (rescore m .del A B s).map fun r =>
        (m x GAP + (if p != .del then m GAP GAP else 0) + r.1, r.2) := by
  simp [rescore]

theorem rescore_ins_cons (m : Mat) (p : Step) (y : UInt8) (A B : Bytes) (s : List Step) :
    rescore m p A (y :: B) (.ins :: s) =
      (rescore m .ins A B s).map fun r =>
        (m GAP y + (if p != .ins then m GAP GAP else 0) + r.1, r.2) := by
  cases A <;> simp [rescore]

theorem rescore_none_cons (m : Mat) (p : Step) (A B : Bytes) (s : List Step) :
    rescore m p A B (.none :: s) = none := by
  cases A <;> cases B <;> simp [rescore]

theorem rescore_mch_nil_left (m : Mat) (p : Step) (B : Bytes) (s : List Step) :
    rescore m p [] B (.mch :: s) = none := by
  cases B <;> simp [rescore]

theorem rescore_mch_nil_right (m : Mat) (p : Step) (A : Bytes) (s : List Step) :
    rescore m p A [] (.mch :: s) = none := by
  cases A <;> simp [rescore]

theorem rescore_del_nil (m : Mat) (p : Step) (B : Bytes) (s : List Step) :
    rescore m p [] B (.del :: s) = none := by
  cases B <;> simp [rescore]

theorem rescore_ins_nil (m : Mat) (p : Step) (A : Bytes) (s : List Step) :
    rescore m p A [] (.ins :: s) = none := by
  cases A <;> simp [rescore]

/-! ## Elementary facts on `decideOnStep`, `clamp` -/

theorem decideOnStep_cases (x y z : Int) :
    decideOnStep x y z = ⟨x, .mch⟩ ∨ decideOnStep x y z = ⟨y, .del⟩ ∨
      decideOnStep x y z = ⟨z, .ins⟩ := by
  unfold decideOnStep; split
  · simp
  · split <;> simp

theorem decideOnStep_ge (x y z : Int) :
    x ≤ (decideOnStep x y z).score ∧ y ≤ (decideOnStep x y z).score ∧
      z ≤ (decideOnStep x y z).score := by
  unfold decideOnStep; split
  · simp; omega
  · split <;> simp <;> omega

theorem clamp_ge (loc : Bool) (c : Cell) : c.score ≤ (clamp loc c).score := by
  unfold clamp; split
  · rename_i h; simp at h ⊢; omega
  · exact Int.le_refl _

theorem clamp_false (c : Cell) : clamp false c = c := by simp [clamp]

theorem clamp_true_nonneg (c : Cell) : 0 ≤ (clamp true c).score := by
  unfold clamp; split
  · simp
  · rename_i h; simp at h; exact h

/-! ## Zero gap-open: every step is available at every cell -/

section ZeroOpen
variable (m : Mat) (loc : Bool) (a b : Bytes) (h0 : m GAP GAP = 0)
include h0

omit h0 in
theorem step_mch_le (i j : Nat) (hi : i < a.length) (hj : j < b.length) :
    (cellAt (table m loc a b) i j).score + m a[i] b[j] ≤
      (cellAt (table m loc a b) (i + 1) (j + 1)).score := by
  rw [cell_succ_succ m loc a b i j hi hj]
  exact Int.le_trans (decideOnStep_ge _ _ _).1 (clamp_ge _ _)

theorem step_del_le (i j : Nat) (hi : i < a.length) (hj : j ≤ b.length) :
    (cellAt (table m loc a b) i j).score + m a[i] GAP ≤
      (cellAt (table m loc a b) (i + 1) j).score := by
  cases j with
  | zero =>
    rw [cell_succ_zero m loc a b i hi]
    refine Int.le_trans ?_ (clamp_ge _ _)
    simp [h0]
  | succ j =>
    rw [cell_succ_succ m loc a b i j hi (by omega)]
    refine Int.le_trans ?_ (Int.le_trans (decideOnStep_ge _ _ _).2.1 (clamp_ge _ _))
    simp [h0]

theorem step_ins_le (i j : Nat) (hi : i ≤ a.length) (hj : j < b.length) :
    (cellAt (table m loc a b) i j).score + m GAP b[j] ≤
      (cellAt (table m loc a b) i (j + 1)).score := by
  cases i with
  | zero =>
    rw [cell_zero_succ m loc a b j hj]
    refine Int.le_trans ?_ (clamp_ge _ _)
    simp [h0]
  | succ i =>
    rw [cell_succ_succ m loc a b i j (by omega) hj]
    refine Int.le_trans ?_ (Int.le_trans (decideOnStep_ge _ _ _).2.2 (clamp_ge _ _))
    simp [h0]

end ZeroOpen

/-! ## Segments -/

/-- `a[i..i')`. -/
def seg (a : Bytes) (i i' : Nat) : Bytes := (a.drop i).take (i' - i)

theorem seg_length (a : Bytes) (i i' : Nat) (h : i ≤ i') (h' : i' ≤ a.length) :
    (seg a i i').length = i' - i := by
  simp [seg]; omega

theorem seg_cons (a : Bytes) (i i' : Nat) (h : i < i') (h' : i' ≤ a.length) :
    seg a i i' = a[i] :: seg a (i + 1) i' := by
  unfold seg
  have : i' - i = (i' - (i + 1)) + 1 := by omega
  rw [this, List.drop_eq_getElem_cons (by omega), List.take_succ_cons]

theorem seg_zero_length (a : Bytes) : seg a 0 a.length = a := by simp [seg]

/-- The central monotonicity fact: with zero gap-open, an alignment of the
segment pair `a[i..i')`, `b[j..j')` scoring `v` lifts the DP value by at least
`v` between cells `(i,j)` and `(i',j')`. -/
theorem path_le (m : Mat) (loc : Bool) (a b : Bytes) (h0 : m GAP GAP = 0) (i' j' : Nat)
    (hi' : i' ≤ a.length) (hj' : j' ≤ b.length) :
    ∀ (s : List Step) (p : Step) (i j : Nat) (v : Int), i ≤ i' → j ≤ j' →
      rescore m p (seg a i i') (seg b j j') s = some (v, [], []) →
      (cellAt (table m loc a b) i j).score + v ≤ (cellAt (table m loc a b) i' j').score := by
  intro s
  induction s with
  | nil =>
    intro p i j v hi hj h
    rw [rescore_nil] at h
    simp only [Option.some.injEq, Prod.mk.injEq] at h
    obtain ⟨hv, hA, hB⟩ := h
    have h1 := seg_length a i i' hi hi'
    have h2 := seg_length b j j' hj hj'
    rw [hA] at h1; rw [hB] at h2
    simp at h1 h2
    have : i = i' := by omega
    have : j = j' := by omega
    subst_vars; simp
  | cons st s ih =>
    intro p i j v hi hj h
    cases st with
    | none => rw [rescore_none_cons] at h; simp at h
    | mch =>
      by_cases hii : i = i'
      · subst hii; simp [seg, rescore_mch_nil_left] at h
      by_cases hjj : j = j'
      · subst hjj; simp [seg, rescore_mch_nil_right] at h
      rw [seg_cons a i i' (by omega) hi', seg_cons b j j' (by omega) hj', rescore_mch_cons] at h
      simp only [Option.map_eq_some_iff, Prod.mk.injEq] at h
      obtain ⟨⟨v', ra, rb⟩, hr, hv, hrest⟩ := h
      simp only [Prod.mk.injEq] at hv hrest
      obtain ⟨rfl, rfl⟩ := hrest
      have := ih .mch (i + 1) (j + 1) v' (by omega) (by omega) hr
      have := step_mch_le m loc a b i j (by omega) (by omega)
      omega
    | del =>
      by_cases hii : i = i'
      · subst hii; simp [seg, rescore_del_nil] at h
      rw [seg_cons a i i' (by omega) hi', rescore_del_cons] at h
      simp only [Option.map_eq_some_iff, Prod.mk.injEq] at h
      obtain ⟨⟨v', ra, rb⟩, hr, hv, hrest⟩ := h
      simp only [Prod.mk.injEq] at hv hrest
      obtain ⟨rfl, rfl⟩ := hrest
      have := ih .del (i + 1) j v' (by omega) (by omega) hr
      have := step_del_le m loc a b h0 i j (by omega) (by omega)
      simp only [h0, ite_self] at hv
      omega
    | ins =>
      by_cases hjj : j = j'
      · subst hjj; simp [seg, rescore_ins_nil] at h
      rw [seg_cons b j j' (by omega) hj', rescore_ins_cons] at h
      simp only [Option.map_eq_some_iff, Prod.mk.injEq] at h
      obtain ⟨⟨v', ra, rb⟩, hr, hv, hrest⟩ := h
      simp only [Prod.mk.injEq] at hv hrest
      obtain ⟨rfl, rfl⟩ := hrest
      have := ih .ins i (j + 1) v' (by omega) (by omega) hr
      have := step_ins_le m loc a b h0 i j (by omega) (by omega)
      simp only [h0, ite_self] at hv
      omega

theorem globalT_score (m : Mat) (a b : Bytes) :
    (globalT m a b).2 = (cellAt (table m false a b) a.length b.length).score := rfl

/-- Global optimality for zero gap-open. -/
theorem global_opt_zero (m : Mat) (a b : Bytes) (h0 : m GAP GAP = 0) (s : List Step) (v : Int)
    (h : rescore m .none a b s = some (v, [], [])) : v ≤ (globalT m a b).2 := by
  have := path_le m false a b h0 a.length b.length (Nat.le_refl _) (Nat.le_refl _) s .none 0 0 v
    (Nat.zero_le _) (Nat.zero_le _) (by simpa [seg_zero_length] using h)
  rw [cell_zero_zero] at this
  rw [globalT_score]; simpa using this


/-! ## `argmax` returns the maximum score of the table -/

theorem argmaxRow_score (i : Nat) : ∀ (row : List Cell) (j0 : Nat) (best : Nat × Nat × Int),
    (argmaxRow row i j0 best).2.2 =
      row.foldl (fun acc c => if c.score > acc then c.score else acc) best.2.2 := by
  intro row
  induction row with
  | nil => intro j0 best; rfl
  | cons c cs ih =>
    intro j0 best
    have := ih (j0 + 1) (if c.score > best.2.2 then (i, j0, c.score) else best)
    simp only [argmaxRow, List.foldl_cons] at this ⊢
    rw [this]
    congr 1
    split <;> rfl

theorem foldl_max_ge_init : ∀ (row : List Cell) (x : Int),
    x ≤ row.foldl (fun acc c => if c.score > acc then c.score else acc) x := by
  intro row
  induction row with
  | nil => intro x; exact Int.le_refl _
  | cons c cs ih =>
    intro x
    simp only [List.foldl_cons]
    refine Int.le_trans ?_ (ih _)
    split <;> omega

theorem foldl_max_ge_mem : ∀ (row : List Cell) (x : Int) (c : Cell), c ∈ row →
    c.score ≤ row.foldl (fun acc c => if c.score > acc then c.score else acc) x := by
  intro row
  induction row with
  | nil => intro x c h; simp at h
  | cons d cs ih =>
    intro x c h
    simp only [List.foldl_cons]
    rcases List.mem_cons.1 h with rfl | h
    · refine Int.le_trans ?_ (foldl_max_ge_init cs _)
      split <;> omega
    · exact ih _ c h

theorem argmax_score (t : List (List Cell)) :
    (argmax t).2.2 = t.foldl (fun acc row =>
      row.foldl (fun acc c => if c.score > acc then c.score else acc) acc) (cellAt t 0 0).score := by
  unfold argmax
  generalize (cellAt t 0 0).score = x0
  have : ∀ (rows : List (List Cell)) (i0 : Nat) (best : Nat × Nat × Int),
      (rows.foldl (fun (st : Nat × (Nat × Nat × Int)) row =>
        (st.1 + 1, argmaxRow row st.1 0 st.2)) (i0, best)).2.2.2 =
      rows.foldl (fun acc row =>
        row.foldl (fun acc c => if c.score > acc then c.score else acc) acc) best.2.2 := by
    intro rows
    induction rows with
    | nil => intro i0 best; rfl
    | cons r rs ih =>
      intro i0 best
      simp only [List.foldl_cons]
      rw [ih, argmaxRow_score]
  exact this t 0 (0, 0, x0)

theorem foldl2_max_ge_init : ∀ (rows : List (List Cell)) (x : Int),
    x ≤ rows.foldl (fun acc row =>
      row.foldl (fun acc c => if c.score > acc then c.score else acc) acc) x := by
  intro rows
  induction rows with
  | nil => intro x; exact Int.le_refl _
  | cons r rs ih =>
    intro x
    simp only [List.foldl_cons]
    exact Int.le_trans (foldl_max_ge_init r x) (ih _)

theorem foldl2_max_ge_mem : ∀ (rows : List (List Cell)) (x : Int) (row : List Cell) (c : Cell),
    row ∈ rows → c ∈ row →
    c.score ≤ rows.foldl (fun acc row =>
      row.foldl (fun acc c => if c.score > acc then c.score else acc) acc) x := by
  intro rows
  induction rows with
  | nil => intro x row c h; simp at h
  | cons r rs ih =>
    intro x row c h hc
    simp only [List.foldl_cons]
    rcases List.mem_cons.1 h with rfl | h
    · exact Int.le_trans (foldl_max_ge_mem _ x c hc) (foldl2_max_ge_init rs _)
    · exact ih _ row c h hc

/-- Every in-range cell of the table is dominated by the `argmax` score. -/
theorem argmax_ge_cell (m : Mat) (loc : Bool) (a b : Bytes) (i j : Nat) (hi : i ≤ a.length)
    (hj : j ≤ b.length) :
    (cellAt (table m loc a b) i j).score ≤ (argmax (table m loc a b)).2.2 := by
  have hl := table_row_length m loc a b i hi
  rw [argmax_score]
  unfold rowAt at hl
  cases hr : (table m loc a b)[i]? with
  | none => simp [hr] at hl
  | some row =>
    simp only [hr, Option.getD_some] at hl
    have hjr : j < row.length := by omega
    have hc : cellAt (table m loc a b) i j = row[j] := by
      simp [cellAt, hr, List.getElem?_eq_getElem hjr]
    rw [hc]
    exact foldl2_max_ge_mem _ _ row _ (List.mem_of_getElem? hr) (List.getElem_mem hjr)

theorem localT_score (m : Mat) (a b : Bytes) :
    (localT m a b).2.2.2 = (argmax (table m true a b)).2.2 := by
  unfold localT
  simp only
  split
  · rename_i h; simp at h; simp [h]
  · rfl

theorem local_score_nonneg (m : Mat) (a b : Bytes) : 0 ≤ (localT m a b).2.2.2 := by
  rw [localT_score]
  have := argmax_ge_cell m true a b 0 0 (Nat.zero_le _) (Nat.zero_le _)
  rwa [cell_zero_zero] at this

/-- Cells of the local table are non-negative. -/
theorem local_cell_nonneg (m : Mat) (a b : Bytes) (i j : Nat) (hi : i ≤ a.length)
    (hj : j ≤ b.length) : 0 ≤ (cellAt (table m true a b) i j).score := by
  cases i with
  | zero =>
    cases j with
    | zero => rw [cell_zero_zero]; exact Int.le_refl _
    | succ j => rw [cell_zero_succ m true a b j (by omega)]; exact clamp_true_nonneg _
  | succ i =>
    cases j with
    | zero => rw [cell_succ_zero m true a b i (by omega)]; exact clamp_true_nonneg _
    | succ j =>
      rw [cell_succ_succ m true a b i j (by omega) (by omega)]; exact clamp_true_nonneg _

/-- Local optimality for zero gap-open (no sign condition on gap scores is needed). -/
theorem local_opt_zero (m : Mat) (a b : Bytes) (h0 : m GAP GAP = 0) (i i' j j' : Nat)
    (hi : i ≤ i') (hi' : i' ≤ a.length) (hj : j ≤ j') (hj' : j' ≤ b.length)
    (s : List Step) (v : Int)
    (h : rescore m .none ((a.drop i).take (i' - i)) ((b.drop j).take (j' - j)) s
      = some (v, [], [])) : v ≤ (localT m a b).2.2.2 := by
  have h1 := path_le m true a b h0 i' j' hi' hj' s .none i j v hi hj h
  have h2 := local_cell_nonneg m a b i j (by omega) (by omega)
  have h3 := argmax_ge_cell m true a b i' j' hi' hj'
  rw [localT_score]
  omega

/-! ## Mirroring an alignment -/

def swapStep : Step → Step
  | .del => .ins
  | .ins => .del
  | s => s

theorem swapStep_del : swapStep .del = .ins := rfl
theorem swapStep_ins : swapStep .ins = .del := rfl
theorem swapStep_mch : swapStep .mch = .mch := rfl
theorem swapStep_none : swapStep .none = .none := rfl

set_option linter.unusedSimpArgs false in
theorem rescore_swap (m : Mat) (hs : ∀ x y, m x y = m y x) :
    ∀ (s : List Step) (p : Step) (a b : Bytes),
      rescore m (swapStep p) b a (s.map swapStep) =
        (rescore m p a b s).map fun r => (r.1, r.2.2, r.2.1) := by
  intro s
  induction s with
  | nil => intro p a b; simp [rescore_nil]
  | cons st s ih =>
    intro p a b
    cases st with
    | none => simp [swapStep_del, swapStep_ins, swapStep_mch, swapStep_none, rescore_none_cons]
    | mch =>
      cases a with
      | nil => simp [swapStep_del, swapStep_ins, swapStep_mch, swapStep_none, rescore_mch_nil_left, rescore_mch_nil_right]
      | cons x a =>
        cases b with
        | nil => simp [swapStep_del, swapStep_ins, swapStep_mch, swapStep_none, rescore_mch_nil_left, rescore_mch_nil_right]
        | cons y b =>
          have := ih .mch a b
          simp only [swapStep_del, swapStep_ins, swapStep_mch, List.map_cons, rescore_mch_cons] at this ⊢
          rw [this, hs y x]
          simp [Option.map_map, Function.comp_def]
    | del =>
      cases a with
      | nil => simp [swapStep_del, swapStep_ins, swapStep_mch, swapStep_none, rescore_del_nil, rescore_ins_nil]
      | cons x a =>
        have := ih .del (a) b
        simp only [swapStep_del, swapStep_ins, swapStep_mch, List.map_cons, rescore_del_cons, rescore_ins_cons] at this ⊢
        rw [this, hs GAP x]
        have : (swapStep p != Step.ins) = (p != Step.del) := by cases p <;> rfl
        simp [Option.map_map, Function.comp_def, this]
    | ins =>
      cases b with
      | nil => simp [swapStep_del, swapStep_ins, swapStep_mch, swapStep_none, rescore_del_nil, rescore_ins_nil]
      | cons y b =>
        have := ih .ins a b
        simp only [swapStep_del, swapStep_ins, swapStep_mch, List.map_cons, rescore_del_cons, rescore_ins_cons] at this ⊢
        rw [this, hs y GAP]
        have : (swapStep p != Step.del) = (p != Step.ins) := by cases p <;> rfl
        simp [Option.map_map, Function.comp_def, this]


theorem swap_le (m : Mat) (a b : Bytes) (hs : ∀ x y, m x y = m y x) (h0 : m GAP GAP = 0)
    (s : List Step) (v : Int) (h : rescore m .none a b s = some (v, [], [])) :
    v ≤ (globalT m b a).2 := by
  refine global_opt_zero m b a h0 (s.map swapStep) v ?_
  have := rescore_swap m hs s .none a b
  rw [swapStep_none, h] at this
  simpa using this

/-! ## With zero gap-open the previous step is irrelevant -/

theorem rescore_prev_irrel (m : Mat) (h0 : m GAP GAP = 0) (p p' : Step) (a b : Bytes)
    (s : List Step) : rescore m p a b s = rescore m p' a b s := by
  cases s with
  | nil => simp [rescore_nil]
  | cons st s =>
    cases st with
    | none => simp [rescore_none_cons]
    | mch =>
      cases a with
      | nil => simp [rescore_mch_nil_left]
      | cons x a =>
        cases b with
        | nil => simp [rescore_mch_nil_right]
        | cons y b => simp [rescore_mch_cons]
    | del =>
      cases a with
      | nil => simp [rescore_del_nil]
      | cons x a => simp [rescore_del_cons, h0]
    | ins =>
      cases b with
      | nil => simp [rescore_ins_nil]
      | cons y b => simp [rescore_ins_cons, h0]

/-! ## Levenshtein -/

/-- The Levenshtein matrix of /repo/align/levenshtein.go: 0 on the diagonal
(including `(GAP, GAP)`), -1 elsewhere. -/
def lev : Mat := fun x y => if x = y then 0 else -1

/-- Edit distance, Wagner–Fischer recurrence from the front (unconditional
three-way minimum). -/
def ed : Bytes → Bytes → Nat
  | [], b => b.length
  | a, [] => a.length
  | x :: a, y :: b =>
    min (ed a b + (if x = y then 0 else 1)) (min (ed a (y :: b) + 1) (ed (x :: a) b + 1))

theorem ed_nil_left (b : Bytes) : ed [] b = b.length := by simp [ed]

theorem ed_nil_right (a : Bytes) : ed a [] = a.length := by cases a <;> simp [ed]

theorem ed_cons_cons (x y : UInt8) (a b : Bytes) :
    ed (x :: a) (y :: b) =
      min (ed a b + (if x = y then 0 else 1)) (min (ed a (y :: b) + 1) (ed (x :: a) b + 1)) := by
  simp [ed]

theorem ed_cons_left_le (x : UInt8) (a b : Bytes) : ed (x :: a) b ≤ ed a b + 1 := by
  cases b with
  | nil => simp [ed_nil_right]
  | cons y b => rw [ed_cons_cons]; omega

theorem ed_cons_right_le (y : UInt8) (a b : Bytes) : ed a (y :: b) ≤ ed a b + 1 := by
  cases a with
  | nil => simp [ed_nil_left]
  | cons x a => rw [ed_cons_cons]; omega

theorem lev_gap_gap : lev GAP GAP = 0 := by simp [lev]

theorem lev_gap_right (x : UInt8) (h : x ≠ GAP) : lev x GAP = -1 := by simp [lev, h]

theorem lev_gap_left (y : UInt8) (h : y ≠ GAP) : lev GAP y = -1 := by
  simp [lev, Ne.symm h]

/-- No alignment of gap-free strings under `lev` beats minus the edit distance. -/
theorem lev_le_ed : ∀ (s : List Step) (p : Step) (a b : Bytes) (v : Int),
    GAP ∉ a → GAP ∉ b → rescore lev p a b s = some (v, [], []) → v ≤ -(ed a b : Int) := by
  intro s
  induction s with
  | nil =>
    intro p a b v _ _ h
    rw [rescore_nil] at h
    simp only [Option.some.injEq, Prod.mk.injEq] at h
    obtain ⟨rfl, rfl, rfl⟩ := h
    simp [ed]
  | cons st s ih =>
    intro p a b v ha hb h
    cases st with
    | none => rw [rescore_none_cons] at h; simp at h
    | mch =>
      cases a with
      | nil => rw [rescore_mch_nil_left] at h; simp at h
      | cons x a =>
        cases b with
        | nil => rw [rescore_mch_nil_right] at h; simp at h
        | cons y b =>
          rw [rescore_mch_cons] at h
          simp only [Option.map_eq_some_iff] at h
          obtain ⟨⟨v', ra, rb⟩, hr, hv⟩ := h
          simp only [Prod.mk.injEq] at hv
          obtain ⟨hv, rfl, rfl⟩ := hv
          have := ih .mch a b v' (by simp at ha; simp [ha]) (by simp at hb; simp [hb]) hr
          have h1 := ed_cons_cons x y a b
          simp only [lev] at hv
          split at hv <;> simp_all <;> omega
    | del =>
      cases a with
      | nil => rw [rescore_del_nil] at h; simp at h
      | cons x a =>
        rw [rescore_del_cons] at h
        simp only [Option.map_eq_some_iff] at h
        obtain ⟨⟨v', ra, rb⟩, hr, hv⟩ := h
        simp only [Prod.mk.injEq] at hv
        obtain ⟨hv, rfl, rfl⟩ := hv
        have := ih .del a b v' (by simp at ha; simp [ha]) hb hr
        have h1 := ed_cons_left_le x a b
        rw [lev_gap_right x (by simp at ha; exact fun h => ha.1 h.symm), lev_gap_gap] at hv
        simp only [ite_self] at hv
        omega
    | ins =>
      cases b with
      | nil => rw [rescore_ins_nil] at h; simp at h
      | cons y b =>
        rw [rescore_ins_cons] at h
        simp only [Option.map_eq_some_iff] at h
        obtain ⟨⟨v', ra, rb⟩, hr, hv⟩ := h
        simp only [Prod.mk.injEq] at hv
        obtain ⟨hv, rfl, rfl⟩ := hv
        have := ih .ins a b v' ha (by simp at hb; simp [hb]) hr
        have h1 := ed_cons_right_le y a b
        rw [lev_gap_left y (by simp at hb; exact fun h => hb.1 h.symm), lev_gap_gap] at hv
        simp only [ite_self] at hv
        omega

/-- Minus the edit distance is attained by an alignment under `lev`. -/
theorem lev_attains_ed : ∀ (a b : Bytes), GAP ∉ a → GAP ∉ b →
    ∃ s, rescore lev .none a b s = some (-(ed a b : Int), [], []) := by
  intro a
  induction a with
  | nil =>
    intro b
    induction b with
    | nil => intro _ _; exact ⟨[], by simp [rescore_nil, ed]⟩
    | cons y b ihb =>
      intro ha hb
      obtain ⟨s, hs⟩ := ihb ha (by simp at hb; simp [hb])
      refine ⟨.ins :: s, ?_⟩
      rw [rescore_ins_cons, rescore_prev_irrel lev lev_gap_gap .ins .none, hs,
        lev_gap_left y (by simp at hb; exact fun h => hb.1 h.symm), lev_gap_gap]
      simp [ed_nil_left]; omega
  | cons x a iha =>
    intro b
    induction b with
    | nil =>
      intro ha hb
      obtain ⟨s, hs⟩ := iha [] (by simp at ha; simp [ha]) hb
      refine ⟨.del :: s, ?_⟩
      rw [rescore_del_cons, rescore_prev_irrel lev lev_gap_gap .del .none, hs,
        lev_gap_right x (by simp at ha; exact fun h => ha.1 h.symm), lev_gap_gap]
      simp [ed_nil_right]; omega
    | cons y b ihb =>
      intro ha hb
      have ha' : GAP ∉ a := by simp at ha; simp [ha]
      have hb' : GAP ∉ b := by simp at hb; simp [hb]
      have hx : x ≠ GAP := by simp at ha; exact fun h => ha.1 h.symm
      have hy : y ≠ GAP := by simp at hb; exact fun h => hb.1 h.symm
      have hE := ed_cons_cons x y a b
      have hcases : ed (x :: a) (y :: b) = ed a b + (if x = y then 0 else 1) ∨
          ed (x :: a) (y :: b) = ed a (y :: b) + 1 ∨
          ed (x :: a) (y :: b) = ed (x :: a) b + 1 := by omega
      rcases hcases with h | h | h
      · obtain ⟨s, hs⟩ := iha b ha' hb'
        refine ⟨.mch :: s, ?_⟩
        rw [rescore_mch_cons, rescore_prev_irrel lev lev_gap_gap .mch .none, hs, h]
        simp only [lev, Option.map_some]
        split <;> simp <;> omega
      · obtain ⟨s, hs⟩ := iha (y :: b) ha' hb
        refine ⟨.del :: s, ?_⟩
        rw [rescore_del_cons, rescore_prev_irrel lev lev_gap_gap .del .none, hs, h,
          lev_gap_right x hx, lev_gap_gap]
        simp; omega
      · obtain ⟨s, hs⟩ := ihb ha hb'
        refine ⟨.ins :: s, ?_⟩
        rw [rescore_ins_cons, rescore_prev_irrel lev lev_gap_gap .ins .none, hs, h,
          lev_gap_left y hy, lev_gap_gap]
        simp; omega


/-! ## Cutting the unconsumed remainders off an alignment -/

theorem rescore_unframe (m : Mat) : ∀ (s : List Step) (p : Step) (X Y : Bytes) (v : Int)
    (ra rb : Bytes), rescore m p X Y s = some (v, ra, rb) →
    ∃ A B, X = A ++ ra ∧ Y = B ++ rb ∧ rescore m p A B s = some (v, [], []) := by
  intro s
  induction s with
  | nil =>
    intro p X Y v ra rb h
    rw [rescore_nil] at h
    simp only [Option.some.injEq, Prod.mk.injEq] at h
    obtain ⟨rfl, rfl, rfl⟩ := h
    exact ⟨[], [], rfl, rfl, by simp [rescore_nil]⟩
  | cons st s ih =>
    intro p X Y v ra rb h
    cases st with
    | none => rw [rescore_none_cons] at h; simp at h
    | mch =>
      cases X with
      | nil => rw [rescore_mch_nil_left] at h; simp at h
      | cons x X =>
        cases Y with
        | nil => rw [rescore_mch_nil_right] at h; simp at h
        | cons y Y =>
          rw [rescore_mch_cons] at h
          simp only [Option.map_eq_some_iff] at h
          obtain ⟨⟨v', ra', rb'⟩, hr, hv⟩ := h
          simp only [Prod.mk.injEq] at hv
          obtain ⟨hv, rfl, rfl⟩ := hv
          obtain ⟨A, B, rfl, rfl, hAB⟩ := ih .mch X Y v' _ _ hr
          exact ⟨x :: A, y :: B, rfl, rfl, by rw [rescore_mch_cons, hAB]; simp [hv]⟩
    | del =>
      cases X with
      | nil => rw [rescore_del_nil] at h; simp at h
      | cons x X =>
        rw [rescore_del_cons] at h
        simp only [Option.map_eq_some_iff] at h
        obtain ⟨⟨v', ra', rb'⟩, hr, hv⟩ := h
        simp only [Prod.mk.injEq] at hv
        obtain ⟨hv, rfl, rfl⟩ := hv
        obtain ⟨A, B, rfl, rfl, hAB⟩ := ih .del X Y v' _ _ hr
        exact ⟨x :: A, B, rfl, rfl, by rw [rescore_del_cons, hAB]; simpa using hv⟩
    | ins =>
      cases Y with
      | nil => rw [rescore_ins_nil] at h; simp at h
      | cons y Y =>
        rw [rescore_ins_cons] at h
        simp only [Option.map_eq_some_iff] at h
        obtain ⟨⟨v', ra', rb'⟩, hr, hv⟩ := h
        simp only [Prod.mk.injEq] at hv
        obtain ⟨hv, rfl, rfl⟩ := hv
        obtain ⟨A, B, rfl, rfl, hAB⟩ := ih .ins X Y v' _ _ hr
        exact ⟨A, y :: B, rfl, rfl, by rw [rescore_ins_cons, hAB]; simpa using hv⟩

theorem seg_of_drop_eq (a A : Bytes) (i i' : Nat) (h : i ≤ i') (h' : i' ≤ a.length)
    (hA : a.drop i = A ++ a.drop i') : (a.drop i).take (i' - i) = A := by
  have hl := congrArg List.length hA
  simp only [List.length_drop, List.length_append] at hl
  have : i' - i = A.length := by omega
  rw [this, hA, List.take_left]

/-- An alignment that starts at offsets `(i, j)` and leaves `a.drop i'`,
`b.drop j'` is an alignment of the segments `a[i..i')`, `b[j..j')`. -/
theorem rescore_segment (m : Mat) (a b : Bytes) (i i' j j' : Nat) (hi : i ≤ i')
    (hi' : i' ≤ a.length) (hj : j ≤ j') (hj' : j' ≤ b.length) (s : List Step) (p : Step) (v : Int)
    (h : rescore m p (a.drop i) (b.drop j) s = some (v, a.drop i', b.drop j')) :
    rescore m p ((a.drop i).take (i' - i)) ((b.drop j).take (j' - j)) s = some (v, [], []) := by
  obtain ⟨A, B, hA, hB, hAB⟩ := rescore_unframe m s p _ _ v _ _ h
  rw [seg_of_drop_eq a A i i' hi hi' hA, seg_of_drop_eq b B j j' hj hj' hB]
  exact hAB

end Bio.Align.Opt
