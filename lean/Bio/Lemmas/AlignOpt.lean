/-
  Helper lemmas for C09 / C10: table-access recurrences of the alignment DP
  (proved here independently of `Bio/Lemmas/Align.lean`), and the optimality
  argument for zero gap-open.
-/
import Bio.Model.Align
namespace Bio.Align

/-! ## Row lengths -/

theorem row0Aux_length (m : Mat) (loc : Bool) (b : Bytes) :
    ∀ prev first, (row0Aux m loc prev first b).length = b.length := by
  induction b with
  | nil => intros; rfl
  | cons y ys ih => intro prev first; simp [row0Aux, ih]

theorem row0_length (m : Mat) (loc : Bool) (b : Bytes) :
    (row0 m loc b).length = b.length + 1 := by
  simp [row0, row0Aux_length]

theorem rowAux_length (m : Mat) (loc : Bool) (x : UInt8) :
    ∀ (ys : Bytes) (left diag : Cell) (ups : List Cell), ups.length = ys.length →
      (rowAux m loc x left diag ups ys).length = ys.length := by
  intro ys
  induction ys with
  | nil => intro left diag ups h; cases ups <;> simp [rowAux]
  | cons y ys ih =>
    intro left diag ups h
    cases ups with
    | nil => simp at h
    | cons up ups =>
      simp only [rowAux, List.length_cons]
      rw [ih]; simpa using h

theorem nextRow_length (m : Mat) (loc : Bool) (x : UInt8) (first : Bool) (prev : List Cell)
    (b : Bytes) (h : prev.length = b.length + 1) :
    (nextRow m loc x first prev b).length = b.length + 1 := by
  cases prev with
  | nil => simp at h
  | cons up0 ups =>
    simp only [nextRow, List.length_cons]
    rw [rowAux_length]; simpa using h

/-! ## Row 0 -/

/-- Generalised access to `row0Aux`: `L = c :: row0Aux … c.score first ys`. -/
theorem row0Aux_get (m : Mat) (loc : Bool) :
    ∀ (ys : Bytes) (c : Cell) (first : Bool) (j : Nat) (hj : j < ys.length),
      ((c :: row0Aux m loc c.score first ys)[j + 1]?).getD ⟨0, .none⟩ =
        clamp loc ⟨(((c :: row0Aux m loc c.score first ys)[j]?).getD ⟨0, .none⟩).score
          + m GAP ys[j] + (if j = 0 then (if first then m GAP GAP else 0) else 0), .ins⟩ := by
  intro ys
  induction ys with
  | nil => intro c first j hj; simp at hj
  | cons y ys ih =>
    intro c first j hj
    cases j with
    | zero => simp [row0Aux]
    | succ j =>
      have := ih (clamp loc ⟨c.score + m GAP y + (if first then m GAP GAP else 0), .ins⟩) false j
        (by simpa using hj)
      simp only [row0Aux, List.getElem?_cons_succ] at this ⊢
      rw [this]
      simp

/-! ## Inner rows -/

theorem rowAux_get (m : Mat) (loc : Bool) (x : UInt8) :
    ∀ (ys : Bytes) (left diag : Cell) (ups : List Cell) (j : Nat) (hj : j < ys.length)
      (_hu : ups.length = ys.length),
      ((left :: rowAux m loc x left diag ups ys)[j + 1]?).getD ⟨0, .none⟩ =
        clamp loc (decideOnStep
          ((((diag :: ups)[j]?).getD ⟨0, .none⟩).score + m x ys[j])
          ((((diag :: ups)[j + 1]?).getD ⟨0, .none⟩).score + m x GAP +
            (if (((diag :: ups)[j + 1]?).getD ⟨0, .none⟩).step != .del then m GAP GAP else 0))
          ((((left :: rowAux m loc x left diag ups ys)[j]?).getD ⟨0, .none⟩).score + m GAP ys[j] +
            (if (((left :: rowAux m loc x left diag ups ys)[j]?).getD ⟨0, .none⟩).step != .ins
              then m GAP GAP else 0))) := by
  intro ys
  induction ys with
  | nil => intro left diag ups j hj; simp at hj
  | cons y ys ih =>
    intro left diag ups j hj hu
    cases ups with
    | nil => simp at hu
    | cons up ups =>
      cases j with
      | zero => simp [rowAux]
      | succ j =>
        have := ih (clamp loc (decideOnStep (diag.score + m x y)
            (up.score + m x GAP + (if up.step != .del then m GAP GAP else 0))
            (left.score + m GAP y + (if left.step != .ins then m GAP GAP else 0)))) up ups j
          (by simpa using hj) (by simpa using hu)
        simp only [rowAux, List.getElem?_cons_succ] at this ⊢
        rw [this]
        simp

/-! ## Rows of the table -/

/-- Row `i` of a table (empty if out of range). -/
def rowAt (t : List (List Cell)) (i : Nat) : List Cell := (t[i]?).getD []

theorem cellAt_eq (t : List (List Cell)) (i j : Nat) :
    cellAt t i j = ((rowAt t i)[j]?).getD ⟨0, .none⟩ := rfl

theorem tableAux_row (m : Mat) (loc : Bool) (b : Bytes) :
    ∀ (xs : Bytes) (prev : List Cell) (first : Bool) (k : Nat) (hk : k < xs.length),
      rowAt (prev :: tableAux m loc b prev first xs) (k + 1) =
        nextRow m loc xs[k] (if k = 0 then first else false)
          (rowAt (prev :: tableAux m loc b prev first xs) k) b := by
  intro xs
  induction xs with
  | nil => intro prev first k hk; simp at hk
  | cons x xs ih =>
    intro prev first k hk
    cases k with
    | zero => simp [rowAt, tableAux]
    | succ k =>
      have := ih (nextRow m loc x first prev b) false k (by simpa using hk)
      simp only [rowAt, tableAux, List.getElem?_cons_succ] at this ⊢
      rw [this]
      simp

theorem table_row_zero (m : Mat) (loc : Bool) (a b : Bytes) :
    rowAt (table m loc a b) 0 = row0 m loc b := by
  simp [rowAt, table]

theorem table_row_succ (m : Mat) (loc : Bool) (a b : Bytes) (i : Nat) (hi : i < a.length) :
    rowAt (table m loc a b) (i + 1) =
      nextRow m loc a[i] (decide (i = 0)) (rowAt (table m loc a b) i) b := by
  have := tableAux_row m loc b a (row0 m loc b) true i hi
  simp only [table]
  rw [this]
  by_cases h : i = 0 <;> simp [h]

theorem table_row_length (m : Mat) (loc : Bool) (a b : Bytes) :
    ∀ i, i ≤ a.length → (rowAt (table m loc a b) i).length = b.length + 1 := by
  intro i
  induction i with
  | zero => intro _; rw [table_row_zero, row0_length]
  | succ i ih =>
    intro hi
    rw [table_row_succ m loc a b i (by omega)]
    exact nextRow_length _ _ _ _ _ _ (ih (by omega))

/-! ## The four cell recurrences -/

theorem cell_zero_zero (m : Mat) (loc : Bool) (a b : Bytes) :
    cellAt (table m loc a b) 0 0 = ⟨0, .none⟩ := by
  simp [cellAt_eq, table_row_zero, row0]

theorem cell_zero_succ (m : Mat) (loc : Bool) (a b : Bytes) (j : Nat) (hj : j < b.length) :
    cellAt (table m loc a b) 0 (j + 1) =
      clamp loc ⟨(cellAt (table m loc a b) 0 j).score + m GAP b[j] +
        (if j = 0 then m GAP GAP else 0), .ins⟩ := by
  simp only [cellAt_eq, table_row_zero, row0]
  have := row0Aux_get m loc b ⟨0, .none⟩ true j hj
  simp only at this
  rw [this]; simp

theorem cell_succ_zero (m : Mat) (loc : Bool) (a b : Bytes) (i : Nat) (hi : i < a.length) :
    cellAt (table m loc a b) (i + 1) 0 =
      clamp loc ⟨(cellAt (table m loc a b) i 0).score + m a[i] GAP +
        (if i = 0 then m GAP GAP else 0), .del⟩ := by
  simp only [cellAt_eq]
  rw [table_row_succ m loc a b i hi]
  have hl := table_row_length m loc a b i (by omega)
  generalize rowAt (table m loc a b) i = prev at hl
  cases prev with
  | nil => simp at hl
  | cons up0 ups => by_cases h : i = 0 <;> simp [nextRow, h]

theorem cell_succ_succ (m : Mat) (loc : Bool) (a b : Bytes) (i j : Nat)
    (hi : i < a.length) (hj : j < b.length) :
    cellAt (table m loc a b) (i + 1) (j + 1) =
      clamp loc (decideOnStep
        ((cellAt (table m loc a b) i j).score + m a[i] b[j])
        ((cellAt (table m loc a b) i (j + 1)).score + m a[i] GAP +
          (if (cellAt (table m loc a b) i (j + 1)).step != .del then m GAP GAP else 0))
        ((cellAt (table m loc a b) (i + 1) j).score + m GAP b[j] +
          (if (cellAt (table m loc a b) (i + 1) j).step != .ins then m GAP GAP else 0))) := by
  have hl := table_row_length m loc a b i (by omega)
  obtain ⟨up0, ups, hp⟩ : ∃ up0 ups, rowAt (table m loc a b) i = up0 :: ups := by
    cases h : rowAt (table m loc a b) i with
    | nil => simp [h] at hl
    | cons up0 ups => exact ⟨_, _, rfl⟩
  have hu : ups.length = b.length := by simpa [hp] using hl
  simp only [cellAt_eq, table_row_succ m loc a b i hi, hp, nextRow]
  exact rowAux_get m loc a[i] b _ up0 ups j hj hu

/-! ## Equations of `rescore` -/

theorem rescore_nil (m : Mat) (p : Step) (A B : Bytes) : rescore m p A B [] = some (0, A, B) := by
  simp [rescore]

theorem rescore_mch_cons (m : Mat) (p : Step) (x y : UInt8) (A B : Bytes) (s : List Step) :
    rescore m p (x :: A) (y :: B) (.mch :: s) =
      (rescore m .mch A B s).map fun r => (m x y + r.1, r.2) := by
  simp [rescore]

theorem rescore_del_cons (m : Mat) (p : Step) (x : UInt8) (A B : Bytes) (s : List Step) :
    rescore m p (x :: A) B (.del :: s) =
      (rescore m .del A B s).map fun r =>
        (m x GAP + (if p != .del then m GAP GAP else 0) + r.1, r.2) := by
  simp [rescore]

theorem rescore_ins_cons (m : Mat) (p : Step) (y : UInt8) (A B : Bytes) (s : List Step) :
    rescore m p A (y :: B) (.ins :: s) =
      (rescore m .ins A B s).map fun r =>
        (m GAP y + (if p != .ins then m GAP GAP else 0) + r.1, r.2) := by
  cases A <;> simp [rescore]

theorem rescore_none_cons (m : Mat) (p : Step) (A B : Bytes) (s : List Step) :
    rescore m p A B (.none :: s) = none := by
  cases A <;> cases B <;> simp [rescore]

theorem rescore_mch_nil_left (m : Mat) (p : Step) (B : Bytes) (s : List Step) :
    rescore m p [] B (.mch :: s) = none := by
  cases B <;> simp [rescore]

theorem rescore_mch_nil_right (m : Mat) (p : Step) (A : Bytes) (s : List Step) :
    rescore m p A [] (.mch :: s) = none := by
  cases A <;> simp [rescore]

theorem rescore_del_nil (m : Mat) (p : Step) (B : Bytes) (s : List Step) :
    rescore m p [] B (.del :: s) = none := by
  cases B <;> simp [rescore]

theorem rescore_ins_nil (m : Mat) (p : Step) (A : Bytes) (s : List Step) :
    rescore m p A [] (.ins :: s) = none := by
  cases A <;> simp [rescore]

/-! ## Elementary facts on `decideOnStep`, `clamp` -/

theorem decideOnStep_cases (x y z : Int) :
    decideOnStep x y z = ⟨x, .mch⟩ ∨ decideOnStep x y z = ⟨y, .del⟩ ∨
      decideOnStep x y z = ⟨z, .ins⟩ := by
  unfold decideOnStep; split
  · simp
  · split <;> simp

theorem decideOnStep_ge (x y z : Int) :
    x ≤ (decideOnStep x y z).score ∧ y ≤ (decideOnStep x y z).score ∧
      z ≤ (decideOnStep x y z).score := by
  unfold decideOnStep; split
  · simp; omega
  · split <;> simp <;> omega

theorem clamp_ge (loc : Bool) (c : Cell) : c.score ≤ (clamp loc c).score := by
  unfold clamp; split
  · rename_i h; simp at h ⊢; omega
  · exact Int.le_refl _

theorem clamp_false (c : Cell) : clamp false c = c := by simp [clamp]

theorem clamp_true_nonneg (c : Cell) : 0 ≤ (clamp true c).score := by
  unfold clamp; split
  · simp
  · rename_i h; simp at h; exact h

/-! ## Zero gap-open: every step is available at every cell -/

section ZeroOpen
variable (m : Mat) (loc : Bool) (a b : Bytes) (h0 : m GAP GAP = 0)
include h0

theorem step_mch_le (i j : Nat) (hi : i < a.length) (hj : j < b.length) :
    (cellAt (table m loc a b) i j).score + m a[i] b[j] ≤
      (cellAt (table m loc a b) (i + 1) (j + 1)).score := by
  rw [cell_succ_succ m loc a b i j hi hj]
  exact Int.le_trans (decideOnStep_ge _ _ _).1 (clamp_ge _ _)

theorem step_del_le (i j : Nat) (hi : i < a.length) (hj : j ≤ b.length) :
    (cellAt (table m loc a b) i j).score + m a[i] GAP ≤
      (cellAt (table m loc a b) (i + 1) j).score := by
  cases j with
  | zero =>
    rw [cell_succ_zero m loc a b i hi]
    refine Int.le_trans ?_ (clamp_ge _ _)
    simp [h0]
  | succ j =>
    rw [cell_succ_succ m loc a b i j hi (by omega)]
    refine Int.le_trans ?_ (Int.le_trans (decideOnStep_ge _ _ _).2.1 (clamp_ge _ _))
    simp [h0]

theorem step_ins_le (i j : Nat) (hi : i ≤ a.length) (hj : j < b.length) :
    (cellAt (table m loc a b) i j).score + m GAP b[j] ≤
      (cellAt (table m loc a b) i (j + 1)).score := by
  cases i with
  | zero =>
    rw [cell_zero_succ m loc a b j hj]
    refine Int.le_trans ?_ (clamp_ge _ _)
    simp [h0]
  | succ i =>
    rw [cell_succ_succ m loc a b i j (by omega) hj]
    refine Int.le_trans ?_ (Int.le_trans (decideOnStep_ge _ _ _).2.2 (clamp_ge _ _))
    simp [h0]

end ZeroOpen

/-! ## Segments -/

/-- `a[i..i')`. -/
def seg (a : Bytes) (i i' : Nat) : Bytes := (a.drop i).take (i' - i)

theorem seg_length (a : Bytes) (i i' : Nat) (h : i ≤ i') (h' : i' ≤ a.length) :
    (seg a i i').length = i' - i := by
  simp [seg]; omega

theorem seg_cons (a : Bytes) (i i' : Nat) (h : i < i') (h' : i' ≤ a.length) :
    seg a i i' = a[i] :: seg a (i + 1) i' := by
  unfold seg
  have : i' - i = (i' - (i + 1)) + 1 := by omega
  rw [this, List.drop_eq_getElem_cons (by omega), List.take_succ_cons]

theorem seg_zero_length (a : Bytes) : seg a 0 a.length = a := by simp [seg]

/-- The central monotonicity fact: with zero gap-open, an alignment of the
segment pair `a[i..i')`, `b[j..j')` scoring `v` lifts the DP value by at least
`v` between cells `(i,j)` and `(i',j')`. -/
theorem path_le (m : Mat) (loc : Bool) (a b : Bytes) (h0 : m GAP GAP = 0) (i' j' : Nat)
    (hi' : i' ≤ a.length) (hj' : j' ≤ b.length) :
    ∀ (s : List Step) (p : Step) (i j : Nat) (v : Int), i ≤ i' → j ≤ j' →
      rescore m p (seg a i i') (seg b j j') s = some (v, [], []) →
      (cellAt (table m loc a b) i j).score + v ≤ (cellAt (table m loc a b) i' j').score := by
  intro s
  induction s with
  | nil =>
    intro p i j v hi hj h
    rw [rescore_nil] at h
    simp only [Option.some.injEq, Prod.mk.injEq] at h
    obtain ⟨hv, hA, hB⟩ := h
    have h1 := seg_length a i i' hi hi'
    have h2 := seg_length b j j' hj hj'
    rw [hA] at h1; rw [hB] at h2
    simp at h1 h2
    have : i = i' := by omega
    have : j = j' := by omega
    subst_vars; simp
  | cons st s ih =>
    intro p i j v hi hj h
    cases st with
    | none => rw [rescore_none_cons] at h; simp at h
    | mch =>
      by_cases hii : i = i'
      · subst hii; simp [seg, rescore_mch_nil_left] at h
      by_cases hjj : j = j'
      · subst hjj; simp [seg, rescore_mch_nil_right] at h
      rw [seg_cons a i i' (by omega) hi', seg_cons b j j' (by omega) hj', rescore_mch_cons] at h
      simp only [Option.map_eq_some_iff, Prod.mk.injEq] at h
      obtain ⟨⟨v', ra, rb⟩, hr, hv, hra, hrb⟩ := h
      trace_state
      subst hra hrb
      have := ih .mch (i + 1) (j + 1) v' (by omega) (by omega) hr
      have := step_mch_le m loc a b h0 i j (by omega) (by omega)
      omega
    | del =>
      by_cases hii : i = i'
      · subst hii; simp [seg, rescore_del_nil] at h
      rw [seg_cons a i i' (by omega) hi', rescore_del_cons] at h
      simp only [Option.map_eq_some_iff, Prod.mk.injEq] at h
      obtain ⟨⟨v', ra, rb⟩, hr, hv, hra, hrb⟩ := h
      simp only at hv hra hrb
      subst hra hrb
      have := ih .del (i + 1) j v' (by omega) (by omega) hr
      have := step_del_le m loc a b h0 i j (by omega) (by omega)
      simp only [h0, ite_self] at hv
      omega
    | ins =>
      by_cases hjj : j = j'
      · subst hjj; simp [seg, rescore_ins_nil] at h
      rw [seg_cons b j j' (by omega) hj', rescore_ins_cons] at h
      simp only [Option.map_eq_some_iff, Prod.mk.injEq] at h
      obtain ⟨⟨v', ra, rb⟩, hr, hv, hra, hrb⟩ := h
      simp only at hv hra hrb
      subst hra hrb
      have := ih .ins i (j + 1) v' (by omega) (by omega) hr
      have := step_ins_le m loc a b h0 i j (by omega) (by omega)
      simp only [h0, ite_self] at hv
      omega

theorem globalT_score (m : Mat) (a b : Bytes) :
    (globalT m a b).2 = (cellAt (table m false a b) a.length b.length).score := rfl

/-- Global optimality for zero gap-open. -/
theorem global_opt_zero (m : Mat) (a b : Bytes) (h0 : m GAP GAP = 0) (s : List Step) (v : Int)
    (h : rescore m .none a b s = some (v, [], [])) : v ≤ (globalT m a b).2 := by
  have := path_le m false a b h0 a.length b.length (Nat.le_refl _) (Nat.le_refl _) s .none 0 0 v
    (Nat.zero_le _) (Nat.zero_le _) (by simpa [seg_zero_length] using h)
  rw [cell_zero_zero] at this
  rw [globalT_score]; simpa using this

end Bio.Align
