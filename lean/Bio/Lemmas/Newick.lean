/-
  Helper lemmas for the Newick codec (property C05).
  Bottom-up: bytes, name quoting, tokenizer, parser steps, the forest
  invariant, the Reader loop.
-/
import Bio.Model.Newick
namespace Bio.Newick

/-! ## Hypotheses used by the C05 theorems -/

/-- The quote set contains every structural byte, the quote, the underscore,
TAB, LF and CR. -/
def QS_OK (qs : Bytes) : Prop := ∀ b ∈ [40,41,44,58,59,39,95,9,10,13], b ∈ qs

/-- Assumption on the external float codec for one distance token. -/
def DistOK (pd : Bytes → Option Dist) (d : Dist) : Prop :=
  match d with
  | none => True
  | some t => pd t = some (some t) ∧ t ≠ [] ∧
      (∀ b ∈ t, isStruct b = false ∧ isWS b = false ∧ b ≠ 39)

/-- The part of `DistOK` that does not mention the parser: a distance token has
no whitespace and no quote. -/
def DistClean (d : Dist) : Prop :=
  match d with
  | none => True
  | some t => ∀ b ∈ t, isWS b = false ∧ b ≠ 39

/-- `P` holds of every distance in the forest. -/
def Forest.AllDist (P : Dist → Prop) : Forest → Prop
  | .nil => True
  | .cons _ d k r => P d ∧ k.AllDist P ∧ r.AllDist P

/-- `P` holds of every distance in the tree. -/
def Tree.AllDist (P : Dist → Prop) (t : Tree) : Prop := P t.dist ∧ t.kids.AllDist P

/-- Scanner for "condensed": toggles the in-quote flag at every quote byte (a
doubled quote inside a quoted name toggles out and straight back in), rejects
whitespace outside quotes, and requires the text to end outside quotes. -/
def scanNoWS : Bool → Bytes → Bool
  | q, [] => !q
  | false, b :: r => if b == QUOTE then scanNoWS true r else !isWS b && scanNoWS false r
  | true, b :: r => if b == QUOTE then scanNoWS false r else scanNoWS true r

def outsideQuotesNoWS (x : Bytes) : Bool := scanNoWS false x

/-! All hypotheses are decidable predicates on the inputs. -/

instance (qs : Bytes) : Decidable (QS_OK qs) :=
  inferInstanceAs (Decidable (∀ b ∈ [40,41,44,58,59,39,95,9,10,13], b ∈ qs))

instance (pd : Bytes → Option Dist) : (d : Dist) → Decidable (DistOK pd d)
  | none => isTrue trivial
  | some t => inferInstanceAs (Decidable (pd t = some (some t) ∧ t ≠ [] ∧
      (∀ b ∈ t, isStruct b = false ∧ isWS b = false ∧ b ≠ 39)))

instance : (d : Dist) → Decidable (DistClean d)
  | none => isTrue trivial
  | some t => inferInstanceAs (Decidable (∀ b ∈ t, isWS b = false ∧ b ≠ 39))

def Forest.decAllDist (P : Dist → Prop) [DecidablePred P] : (f : Forest) → Decidable (f.AllDist P)
  | .nil => isTrue trivial
  | .cons _ d k r =>
    have := Forest.decAllDist P k
    have := Forest.decAllDist P r
    inferInstanceAs (Decidable (P d ∧ k.AllDist P ∧ r.AllDist P))

instance (P : Dist → Prop) [DecidablePred P] (f : Forest) : Decidable (f.AllDist P) :=
  Forest.decAllDist P f

instance (P : Dist → Prop) [DecidablePred P] (t : Tree) : Decidable (t.AllDist P) :=
  inferInstanceAs (Decidable (P t.dist ∧ t.kids.AllDist P))

theorem DistOK.clean {pd d} (h : DistOK pd d) : DistClean d := by
  cases d with
  | none => trivial
  | some t => intro b hb; exact ⟨(h.2.2 b hb).2.1, (h.2.2 b hb).2.2⟩

theorem Forest.AllDist.mono {P Q : Dist → Prop} (hPQ : ∀ d, P d → Q d) :
    ∀ f : Forest, f.AllDist P → f.AllDist Q
  | .nil, _ => trivial
  | .cons _ _ k r, h => ⟨hPQ _ h.1, Forest.AllDist.mono hPQ k h.2.1, Forest.AllDist.mono hPQ r h.2.2⟩

/-! ## Bytes -/

/-- No structural byte, no whitespace, no quote. -/
def Clean (t : Bytes) : Prop := ∀ b ∈ t, isStruct b = false ∧ isWS b = false ∧ b ≠ 39

/-- What may follow a token for it to be cut exactly there. -/
def Term (e : Ending) (rest : Bytes) : Prop :=
  (rest = [] ∧ e = .eof) ∨ ∃ c r, rest = c :: r ∧ isStruct c = true

theorem Term.struct {e c r} (h : isStruct c = true) : Term e (c :: r) := Or.inr ⟨c, r, rfl, h⟩

theorem isStruct_ne_quote {c : UInt8} (h : isStruct c = true) : c ≠ 39 := by
  rintro rfl; simp [isStruct] at h

theorem isStruct_not_ws {c : UInt8} (h : isStruct c = true) : isWS c = false := by
  simp only [isStruct, Bool.or_eq_true, beq_iff_eq] at h
  rcases h with (((h | h) | h) | h) | h <;> subst h <;> decide

theorem isStruct_cases {c : UInt8} (h : isStruct c = true) :
    c = 40 ∨ c = 41 ∨ c = 44 ∨ c = 58 ∨ c = 59 := by
  simp only [isStruct, Bool.or_eq_true, beq_iff_eq] at h
  rcases h with (((h | h) | h) | h) | h <;> simp [h]

/-! ## Names -/

theorem undouble_double (s : Bytes) : undoubleQuotes (doubleQuotes s) = s := by
  induction s with
  | nil => rfl
  | cons b rest ih =>
    simp only [doubleQuotes]
    split
    · rename_i h
      have : b = QUOTE := by simpa using h
      subst this
      simp [undoubleQuotes, ih]
    · rename_i h
      cases hr : doubleQuotes rest with
      | nil =>
        rw [hr] at ih
        simp [undoubleQuotes, ← ih]
      | cons a r =>
        rw [hr] at ih
        simp only [undoubleQuotes]
        simp [h, ih]

theorem needsQuote_false_iff {qs s} : needsQuote qs s = false ↔ ∀ b ∈ s, b ∉ qs := by
  simp [needsQuote]

theorem needsQuote_true_iff {qs s} : needsQuote qs s = true ↔ ∃ b ∈ s, b ∈ qs := by
  simp [needsQuote]

theorem quoted_wrap (u : Bytes) : quoted (QUOTE :: u ++ [QUOTE]) = true := by
  have : (QUOTE :: u ++ [QUOTE]).getLast? = some QUOTE := by
    rw [show QUOTE :: u ++ [QUOTE] = (QUOTE :: u) ++ [QUOTE] from rfl, List.getLast?_concat]
  simp only [quoted, this]
  simp

/-- Text of a name that needs no quoting. -/
theorem nameToText_bare {qs s} (h : needsQuote qs s = false) :
    nameToText qs s = s.map fun b => if b == 32 then 95 else b := by
  simp [nameToText, h]

theorem nameToText_quoted {qs s} (h : needsQuote qs s = true) :
    nameToText qs s = QUOTE :: doubleQuotes s ++ [QUOTE] := by
  simp [nameToText, h]

theorem bare_clean {qs s} (hq : QS_OK qs) (h : needsQuote qs s = false) :
    Clean (s.map fun b => if b == 32 then 95 else b) := by
  rw [needsQuote_false_iff] at h
  intro b hb
  rw [List.mem_map] at hb
  obtain ⟨a, ha, rfl⟩ := hb
  have hn := h a ha
  have h40 : a ≠ 40 := fun hh => hn (hh ▸ hq 40 (by simp))
  have h41 : a ≠ 41 := fun hh => hn (hh ▸ hq 41 (by simp))
  have h44 : a ≠ 44 := fun hh => hn (hh ▸ hq 44 (by simp))
  have h58 : a ≠ 58 := fun hh => hn (hh ▸ hq 58 (by simp))
  have h59 : a ≠ 59 := fun hh => hn (hh ▸ hq 59 (by simp))
  have h39 : a ≠ 39 := fun hh => hn (hh ▸ hq 39 (by simp))
  have h9 : a ≠ 9 := fun hh => hn (hh ▸ hq 9 (by simp))
  have h10 : a ≠ 10 := fun hh => hn (hh ▸ hq 10 (by simp))
  have h13 : a ≠ 13 := fun hh => hn (hh ▸ hq 13 (by simp))
  by_cases h32 : a = 32
  · subst h32; decide
  · simp [isStruct, isWS, *]

theorem nameToText_nil_iff {qs s} : nameToText qs s = [] → s = [] := by
  unfold nameToText
  split
  · simp
  · simp

theorem nameToText_ne_nil {qs s} (h : s ≠ []) : nameToText qs s ≠ [] :=
  fun hh => h (nameToText_nil_iff hh)

theorem name_roundtrip' (qs : Bytes) (h : QS_OK qs) (s : Bytes) :
    nameFromText (nameToText qs s) = s := by
  cases hn : needsQuote qs s with
  | true =>
    rw [nameToText_quoted hn]
    unfold nameFromText
    rw [quoted_wrap]
    simp [undouble_double]
  | false =>
    rw [nameToText_bare hn]
    have hc := bare_clean h hn
    have hnq : quoted (s.map fun b => if b == 32 then 95 else b) = false := by
      cases s with
      | nil => rfl
      | cons a r =>
        have := (hc _ (List.mem_cons_self)).2.2
        simp only [] at this
        have h3 : ¬ (if a = 32 then (95 : UInt8) else a) = 39 := by simpa using this
        simp only [quoted, List.map_cons, List.head?_cons, QUOTE]
        simp
        intro _ h4
        exact absurd h4 h3
    unfold nameFromText
    rw [hnq]
    simp only [Bool.false_eq_true, if_false, List.map_map]
    rw [needsQuote_false_iff] at hn
    conv => rhs; rw [← List.map_id s]
    apply List.map_congr_left
    intro a ha
    have h95 : a ≠ 95 := fun hh => hn a ha (hh ▸ h 95 (by simp))
    by_cases h32 : a = 32
    · subst h32; decide
    · simp [h32, h95]

/-- A name text is never a single structural byte. -/
def NotStructTok (t : Bytes) : Prop := t ≠ [40] ∧ t ≠ [41] ∧ t ≠ [44] ∧ t ≠ [58] ∧ t ≠ [59]

theorem Clean.notStructTok {t} (h : Clean t) : NotStructTok t := by
  refine ⟨?_, ?_, ?_, ?_, ?_⟩ <;> rintro rfl <;>
    · have := (h _ List.mem_cons_self).1
      revert this; decide

theorem quote_head_notStructTok (u : Bytes) : NotStructTok (QUOTE :: u) := by
  refine ⟨?_, ?_, ?_, ?_, ?_⟩ <;> intro h <;> injection h with h1 _ <;> revert h1 <;> decide

theorem nameToText_notStructTok {qs} (hq : QS_OK qs) (s : Bytes) : NotStructTok (nameToText qs s) := by
  cases hn : needsQuote qs s with
  | true => rw [nameToText_quoted hn]; exact quote_head_notStructTok _
  | false => rw [nameToText_bare hn]; exact (bare_clean hq hn).notStructTok

/-! ## Tokenizer -/

theorem nextToken_struct (e : Ending) {c : UInt8} (r : Bytes) (h : isStruct c = true) :
    nextToken e (c :: r) = .tok [c] r := by
  have := isStruct_ne_quote h
  simp [nextToken, QUOTE, this, h]

theorem bareTail_clean (e : Ending) (t rest : Bytes) (ht : Clean t) (hr : Term e rest) :
    bareTail e (t ++ rest) = some (some (t, rest)) := by
  induction t with
  | nil =>
    rcases hr with ⟨rfl, rfl⟩ | ⟨c, r, rfl, hc⟩
    · rfl
    · have := isStruct_ne_quote hc
      simp [bareTail, QUOTE, this, hc]
  | cons b t ih =>
    have hb := ht b List.mem_cons_self
    have ih := ih (fun x hx => ht x (List.mem_cons_of_mem _ hx))
    simp [bareTail, QUOTE, hb.1, hb.2.1, hb.2.2, ih]

theorem nextToken_clean (e : Ending) (t rest : Bytes) (ht : Clean t) (hne : t ≠ [])
    (hr : Term e rest) : nextToken e (t ++ rest) = .tok t rest := by
  cases t with
  | nil => exact absurd rfl hne
  | cons b t =>
    have hb := ht b List.mem_cons_self
    have := bareTail_clean e t rest (fun x hx => ht x (List.mem_cons_of_mem _ hx)) hr
    simp [nextToken, QUOTE, hb.1, hb.2.1, hb.2.2, this]

theorem quotedTail_double (e : Ending) (s rest : Bytes) (hr : Term e rest) :
    quotedTail e false (doubleQuotes s ++ QUOTE :: rest) = some (doubleQuotes s ++ [QUOTE], rest) := by
  induction s with
  | nil =>
    rcases hr with ⟨rfl, rfl⟩ | ⟨c, r, rfl, hc⟩
    · simp [doubleQuotes, quotedTail]
    · have := isStruct_ne_quote hc
      simp [doubleQuotes, quotedTail, QUOTE, this]
  | cons b s ih =>
    simp only [doubleQuotes]
    split
    · simp [quotedTail, ih]
    · rename_i h
      simp [quotedTail, h, ih]

theorem nextToken_quoted (e : Ending) (s rest : Bytes) (hr : Term e rest) :
    nextToken e (QUOTE :: doubleQuotes s ++ [QUOTE] ++ rest) = .tok (QUOTE :: doubleQuotes s ++ [QUOTE]) rest := by
  have := quotedTail_double e s rest hr
  simp [nextToken, this]

theorem nextToken_name (qs : Bytes) (hq : QS_OK qs) (e : Ending) (s rest : Bytes)
    (hne : nameToText qs s ≠ []) (hr : Term e rest) :
    nextToken e (nameToText qs s ++ rest) = .tok (nameToText qs s) rest := by
  cases hn : needsQuote qs s with
  | true => rw [nameToText_quoted hn]; exact nextToken_quoted e s rest hr
  | false =>
    rw [nameToText_bare hn] at hne ⊢
    exact nextToken_clean e _ rest (bare_clean hq hn) hne hr

/-- Leading whitespace is invisible to the tokenizer. -/
theorem nextToken_ws (e : Ending) (w x : Bytes) (hw : ∀ b ∈ w, isWS b = true) :
    nextToken e (w ++ x) = nextToken e x := by
  induction w with
  | nil => rfl
  | cons b w ih =>
    have hb := hw b List.mem_cons_self
    have h39 : b ≠ 39 := by rintro rfl; simp [isWS] at hb
    have hs : isStruct b = false := by
      cases hsb : isStruct b with
      | false => rfl
      | true => rw [isStruct_not_ws hsb] at hb; cases hb
    simp only [List.cons_append, nextToken]
    simp [QUOTE, h39, hs, hb]
    exact ih (fun x hx => hw x (List.mem_cons_of_mem _ hx))

/-! ## Parser: one token at a time -/

theorem readLoop_eof (pd e x cur stack st ra) (h : nextToken e x = .eof) :
    readLoop pd e x cur stack st ra = if ra then .err else .eof := by
  rw [readLoop]
  split <;> simp_all

theorem readLoop_err (pd e x cur stack st ra) (h : nextToken e x = .err) :
    readLoop pd e x cur stack st ra = .err := by
  rw [readLoop]
  split <;> simp_all

theorem readLoop_tok (pd e x cur stack st ra t rest) (h : nextToken e x = .tok t rest) :
    readLoop pd e x cur stack st ra =
      match t with
      | [40] =>
        if st != .beforeNode then .err
        else readLoop pd e rest emptyNode (cur :: stack) st true
      | [41] =>
        if st == .afterColon then .err
        else match stack with
          | [] => .err
          | parent :: stack' => readLoop pd e rest (closeTop cur parent) stack' .afterChildren true
      | [44] =>
        if st == .afterColon then .err
        else match stack with
          | [] => .err
          | parent :: stack' =>
            readLoop pd e rest emptyNode (closeTop cur parent :: stack') .beforeNode true
      | [58] =>
        if st == .afterColon || st == .afterDist then .err
        else readLoop pd e rest cur stack .afterColon true
      | [59] =>
        if !stack.isEmpty then .err
        else if st == .afterColon then .err
        else .tree cur rest
      | _ =>
        if st == .afterName || st == .afterDist then .err
        else if st == .beforeNode || st == .afterChildren then
          readLoop pd e rest { cur with name := nameFromText t } stack .afterName true
        else match pd t with
          | none => .err
          | some d => readLoop pd e rest { cur with dist := d } stack .afterDist true := by
  rw [readLoop]
  split
  · simp_all
  · simp_all
  · rename_i t' rest' h'
    rw [h] at h'
    injection h' with h1 h2
    subst h1 h2
    rfl

section Steps

variable (pd : Bytes → Option Dist) (e : Ending)

theorem step_open (x cur stack ra) :
    readLoop pd e (40 :: x) cur stack .beforeNode ra
      = readLoop pd e x emptyNode (cur :: stack) .beforeNode true := by
  rw [readLoop_tok pd e _ _ _ _ _ _ _ (nextToken_struct e x (c := 40) (by decide))]
  simp

theorem step_close (x cur p stack st ra) (hst : st ≠ .afterColon) :
    readLoop pd e (41 :: x) cur (p :: stack) st ra
      = readLoop pd e x (closeTop cur p) stack .afterChildren true := by
  rw [readLoop_tok pd e _ _ _ _ _ _ _ (nextToken_struct e x (c := 41) (by decide))]
  simp [hst]

theorem step_comma (x cur p stack st ra) (hst : st ≠ .afterColon) :
    readLoop pd e (44 :: x) cur (p :: stack) st ra
      = readLoop pd e x emptyNode (closeTop cur p :: stack) .beforeNode true := by
  rw [readLoop_tok pd e _ _ _ _ _ _ _ (nextToken_struct e x (c := 44) (by decide))]
  simp [hst]

theorem step_colon (x cur stack st ra) (h1 : st ≠ .afterColon) (h2 : st ≠ .afterDist) :
    readLoop pd e (58 :: x) cur stack st ra
      = readLoop pd e x cur stack .afterColon true := by
  rw [readLoop_tok pd e _ _ _ _ _ _ _ (nextToken_struct e x (c := 58) (by decide))]
  simp [h1, h2]

theorem step_semi (x cur st ra) (hst : st ≠ .afterColon) :
    readLoop pd e (59 :: x) cur [] st ra = .tree cur x := by
  rw [readLoop_tok pd e _ _ _ _ _ _ _ (nextToken_struct e x (c := 59) (by decide))]
  simp [hst]

theorem step_name (x t rest cur stack st ra) (hx : nextToken e x = .tok t rest)
    (ht : NotStructTok t) (hst : st = .beforeNode ∨ st = .afterChildren) :
    readLoop pd e x cur stack st ra
      = readLoop pd e rest { cur with name := nameFromText t } stack .afterName true := by
  rw [readLoop_tok pd e _ _ _ _ _ _ _ hx]
  obtain ⟨h1, h2, h3, h4, h5⟩ := ht
  split
  · exact absurd rfl h1
  · exact absurd rfl h2
  · exact absurd rfl h3
  · exact absurd rfl h4
  · exact absurd rfl h5
  · rcases hst with rfl | rfl <;> simp

theorem step_dist (x t rest cur stack ra d) (hx : nextToken e x = .tok t rest)
    (ht : NotStructTok t) (hd : pd t = some d) :
    readLoop pd e x cur stack .afterColon ra
      = readLoop pd e rest { cur with dist := d } stack .afterDist true := by
  rw [readLoop_tok pd e _ _ _ _ _ _ _ hx]
  obtain ⟨h1, h2, h3, h4, h5⟩ := ht
  split
  · exact absurd rfl h1
  · exact absurd rfl h2
  · exact absurd rfl h3
  · exact absurd rfl h4
  · exact absurd rfl h5
  · simp [hd]

end Steps


/-! ## Forests -/

def Forest.append : Forest → Forest → Forest
  | .nil, g => g
  | .cons n d k r, g => .cons n d k (r.append g)

theorem Forest.snoc_eq_append (p : Forest) (t : Tree) :
    p.snoc t = p.append (.cons t.name t.dist t.kids .nil) := by
  induction p with
  | nil => rfl
  | cons n d k r _ ih => simp [Forest.snoc, Forest.append, ih]

theorem Forest.append_assoc (a b c : Forest) : (a.append b).append c = a.append (b.append c) := by
  induction a with
  | nil => rfl
  | cons n d k r _ ih => simp [Forest.append, ih]

theorem Forest.snoc_append (p : Forest) (t : Tree) (r : Forest) :
    (p.snoc t).append r = p.append (.cons t.name t.dist t.kids r) := by
  rw [Forest.snoc_eq_append, Forest.append_assoc]; rfl

/-! ## Writer pieces -/

def kidsText (qs : Bytes) (k : Forest) : Bytes :=
  match k with
  | .nil => []
  | _ => 40 :: writeForest qs k ++ [41]

def sibText (qs : Bytes) (r : Forest) : Bytes :=
  match r with
  | .nil => []
  | _ => 44 :: writeForest qs r

theorem writeForest_cons (qs n d k r) :
    writeForest qs (.cons n d k r)
      = kidsText qs k ++ (nameToText qs n ++ (distText d ++ sibText qs r)) := by
  cases k <;> cases r <;> simp [writeForest, kidsText, sibText]

theorem kidsText_cons (qs n d k r) :
    kidsText qs (.cons n d k r) = 40 :: (writeForest qs (.cons n d k r) ++ [41]) := rfl

theorem sibText_cons (qs n d k r) :
    sibText qs (.cons n d k r) = 44 :: writeForest qs (.cons n d k r) := rfl

/-! ## Parser: pieces of one node -/

section Node
variable (qs : Bytes) (pd : Bytes → Option Dist) (e : Ending)

/-- What it means for the parser to read the children `k` (non-empty) of some
node correctly: from just after "(", up to and including ")". -/
def ReadsKids (k : Forest) : Prop :=
  ∀ (parent : Tree) (stack : List Tree) (rest : Bytes) (ra : Bool),
    readLoop pd e (writeForest qs k ++ 41 :: rest) emptyNode (parent :: stack) .beforeNode ra
      = readLoop pd e rest { parent with kids := parent.kids.append k } stack .afterChildren true

theorem read_kids_part (k : Forest) (hk : k ≠ .nil → ReadsKids qs pd e k)
    (y : Bytes) (stack : List Tree) (ra : Bool) :
    ∃ st1 ra1, (st1 = .beforeNode ∨ st1 = .afterChildren) ∧
      readLoop pd e (kidsText qs k ++ y) emptyNode stack .beforeNode ra
        = readLoop pd e y ⟨[], none, k⟩ stack st1 ra1 := by
  cases k with
  | nil => exact ⟨.beforeNode, ra, Or.inl rfl, rfl⟩
  | cons n d k r =>
    refine ⟨.afterChildren, true, Or.inr rfl, ?_⟩
    rw [kidsText_cons]
    simp only [List.cons_append, List.append_assoc, List.nil_append]
    rw [step_open, hk (by simp) emptyNode stack y true]
    rfl

theorem read_name_part (hq : QS_OK qs) (n : Bytes) (dd : Dist) (k : Forest)
    (y : Bytes) (hy : Term e y) (stack : List Tree) (st1 : PState) (ra1 : Bool)
    (hst : st1 = .beforeNode ∨ st1 = .afterChildren) :
    ∃ st2 ra2, (st2 ≠ .afterColon ∧ st2 ≠ .afterDist) ∧
      readLoop pd e (nameToText qs n ++ y) ⟨[], dd, k⟩ stack st1 ra1
        = readLoop pd e y ⟨n, dd, k⟩ stack st2 ra2 := by
  by_cases hne : nameToText qs n = []
  · have : n = [] := nameToText_nil_iff hne
    subst this
    refine ⟨st1, ra1, ?_, by rw [hne]; rfl⟩
    rcases hst with rfl | rfl <;> simp
  · refine ⟨.afterName, true, by simp, ?_⟩
    rw [step_name pd e _ _ _ _ _ _ _ (nextToken_name qs hq e n y hne hy)
      (nameToText_notStructTok hq n) hst]
    simp [name_roundtrip' qs hq n]

theorem read_dist_part (n : Bytes) (d : Dist) (hd : DistOK pd d) (k : Forest)
    (y : Bytes) (hy : Term e y) (stack : List Tree) (st2 : PState) (ra2 : Bool)
    (hst : st2 ≠ .afterColon ∧ st2 ≠ .afterDist) :
    ∃ st3 ra3, st3 ≠ .afterColon ∧
      readLoop pd e (distText d ++ y) ⟨n, none, k⟩ stack st2 ra2
        = readLoop pd e y ⟨n, d, k⟩ stack st3 ra3 := by
  cases d with
  | none => exact ⟨st2, ra2, hst.1, rfl⟩
  | some t =>
    obtain ⟨hp, hne, hc⟩ := hd
    refine ⟨.afterDist, true, by simp, ?_⟩
    simp only [distText, List.cons_append]
    rw [step_colon pd e _ _ _ _ _ hst.1 hst.2]
    rw [step_dist pd e _ _ _ _ _ _ _ (nextToken_clean e t y hc hne hy)
      (Clean.notStructTok hc) hp]

/-- One whole node (children, name, distance), followed by a structural byte. -/
theorem read_node (hq : QS_OK qs) (n : Bytes) (d : Dist) (k : Forest) (hd : DistOK pd d)
    (hk : k ≠ .nil → ReadsKids qs pd e k)
    (y : Bytes) (hy : Term e y) (stack : List Tree) (ra : Bool) :
    ∃ st' ra', st' ≠ .afterColon ∧
      readLoop pd e (kidsText qs k ++ (nameToText qs n ++ (distText d ++ y))) emptyNode stack
          .beforeNode ra
        = readLoop pd e y ⟨n, d, k⟩ stack st' ra' := by
  have hy2 : Term e (distText d ++ y) := by
    cases d with
    | none => exact hy
    | some t => exact Term.struct (c := 58) (by decide)
  obtain ⟨st1, ra1, h1, e1⟩ := read_kids_part qs pd e k hk (nameToText qs n ++ (distText d ++ y)) stack ra
  obtain ⟨st2, ra2, h2, e2⟩ := read_name_part qs pd e hq n none k _ hy2 stack st1 ra1 h1
  obtain ⟨st3, ra3, h3, e3⟩ := read_dist_part pd e n d hd k y hy stack st2 ra2 h2
  exact ⟨st3, ra3, h3, by rw [e1, e2, e3]⟩

/-- The forest invariant: every non-empty forest of siblings is read back. -/
theorem readsKids (hq : QS_OK qs) (f : Forest) (hd : f.AllDist (DistOK pd)) (hne : f ≠ .nil) :
    ReadsKids qs pd e f := by
  induction f with
  | nil => exact absurd rfl hne
  | cons n d k r ihk ihr =>
    obtain ⟨hd1, hdk, hdr⟩ := hd
    intro parent stack rest ra
    rw [writeForest_cons]
    simp only [List.append_assoc]
    cases r with
    | nil =>
      obtain ⟨st', ra', hs, eq⟩ := read_node qs pd e hq n d k hd1 (ihk hdk) (41 :: rest)
        (Term.struct (by decide)) (parent :: stack) ra
      simp only [sibText, List.nil_append]
      rw [eq, step_close pd e _ _ _ _ _ _ hs]
      simp [closeTop, Forest.snoc_eq_append]
    | cons n2 d2 k2 r2 =>
      obtain ⟨st', ra', hs, eq⟩ := read_node qs pd e hq n d k hd1 (ihk hdk)
        (44 :: (writeForest qs (.cons n2 d2 k2 r2) ++ 41 :: rest))
        (Term.struct (by decide)) (parent :: stack) ra
      rw [sibText_cons]
      simp only [List.cons_append]
      rw [eq, step_comma pd e _ _ _ _ _ _ hs]
      rw [ihr hdr (by simp) (closeTop ⟨n, d, k⟩ parent) stack rest true]
      simp [closeTop, Forest.snoc_append]

end Node

theorem write_eq (qs : Bytes) (t : Tree) :
    write qs t = kidsText qs t.kids ++ (nameToText qs t.name ++ (distText t.dist ++ [59])) := by
  simp [write, writeForest_cons, sibText]

theorem readTree_write (qs pd) (e : Ending) (hq : QS_OK qs) (t : Tree)
    (hd : t.AllDist (DistOK pd)) (rest : Bytes) :
    readTree pd e (write qs t ++ rest) = .tree t rest := by
  obtain ⟨n, d, k⟩ := t
  obtain ⟨hd1, hdk⟩ := hd
  rw [write_eq]
  simp only [List.append_assoc, readTree]
  obtain ⟨st', ra', hs, eq⟩ := read_node qs pd e hq n d k hd1
    (fun hne => readsKids qs pd e hq k hdk hne) (59 :: rest) (Term.struct (by decide)) [] false
  simp only [List.singleton_append]
  rw [eq, step_semi pd e _ _ _ _ hs]



/-! ## The Reader loop -/

/-- The body of `readLoop` after a token, as a plain function (no dependent match). -/
def tokStep (pd : Bytes → Option Dist) (e : Ending) (t rest : Bytes) (cur : Tree)
    (stack : List Tree) (st : PState) : ReadRes :=
  match t with
  | [40] =>
    if st != .beforeNode then .err
    else readLoop pd e rest emptyNode (cur :: stack) st true
  | [41] =>
    if st == .afterColon then .err
    else match stack with
      | [] => .err
      | parent :: stack' => readLoop pd e rest (closeTop cur parent) stack' .afterChildren true
  | [44] =>
    if st == .afterColon then .err
    else match stack with
      | [] => .err
      | parent :: stack' =>
        readLoop pd e rest emptyNode (closeTop cur parent :: stack') .beforeNode true
  | [58] =>
    if st == .afterColon || st == .afterDist then .err
    else readLoop pd e rest cur stack .afterColon true
  | [59] =>
    if !stack.isEmpty then .err
    else if st == .afterColon then .err
    else .tree cur rest
  | _ =>
    if st == .afterName || st == .afterDist then .err
    else if st == .beforeNode || st == .afterChildren then
      readLoop pd e rest { cur with name := nameFromText t } stack .afterName true
    else match pd t with
      | none => .err
      | some d => readLoop pd e rest { cur with dist := d } stack .afterDist true

theorem tokStep_default (pd e t rest cur stack st) (ht : NotStructTok t) :
    tokStep pd e t rest cur stack st =
      if st == .afterName || st == .afterDist then .err
      else if st == .beforeNode || st == .afterChildren then
        readLoop pd e rest { cur with name := nameFromText t } stack .afterName true
      else match pd t with
        | none => .err
        | some d => readLoop pd e rest { cur with dist := d } stack .afterDist true := by
  obtain ⟨h1, h2, h3, h4, h5⟩ := ht
  unfold tokStep
  split
  · exact absurd rfl h1
  · exact absurd rfl h2
  · exact absurd rfl h3
  · exact absurd rfl h4
  · exact absurd rfl h5
  · rfl

theorem readLoop_tokStep (pd e x cur stack st ra t rest) (h : nextToken e x = .tok t rest) :
    readLoop pd e x cur stack st ra = tokStep pd e t rest cur stack st := by
  rw [readLoop_tok _ _ _ _ _ _ _ _ _ h]
  split
  · rfl
  · rfl
  · rfl
  · rfl
  · rfl
  · rename_i h1 h2 h3 h4 h5
    exact (tokStep_default _ _ _ _ _ _ _
      ⟨fun hh => h1 (hh ▸ h) hh (proof_irrel_heq _ _), fun hh => h2 (hh ▸ h) hh (proof_irrel_heq _ _),
       fun hh => h3 (hh ▸ h) hh (proof_irrel_heq _ _), fun hh => h4 (hh ▸ h) hh (proof_irrel_heq _ _),
       fun hh => h5 (hh ▸ h) hh (proof_irrel_heq _ _)⟩).symm

theorem readLoop_congr (pd e) (x y : Bytes) (h : nextToken e x = nextToken e y) (cur stack st ra) :
    readLoop pd e x cur stack st ra = readLoop pd e y cur stack st ra := by
  cases hy : nextToken e y with
  | eof => rw [readLoop_eof _ _ _ _ _ _ _ (h.trans hy), readLoop_eof _ _ _ _ _ _ _ hy]
  | err => rw [readLoop_err _ _ _ _ _ _ _ (h.trans hy), readLoop_err _ _ _ _ _ _ _ hy]
  | tok t rest =>
    rw [readLoop_tokStep _ _ _ _ _ _ _ _ _ (h.trans hy), readLoop_tokStep _ _ _ _ _ _ _ _ _ hy]

theorem readTree_ws (pd e) (w x : Bytes) (hw : ∀ b ∈ w, isWS b = true) :
    readTree pd e (w ++ x) = readTree pd e x :=
  readLoop_congr pd e _ _ (nextToken_ws e w x hw) _ _ _ _

/-- Every tree consumes at least one byte (so the progress guard in `decodeSrc`
never fires). -/
theorem readLoop_rest_lt (pd e) : ∀ (m : Nat) (x : Bytes), x.length ≤ m → ∀ cur stack st ra t rest,
    readLoop pd e x cur stack st ra = .tree t rest → rest.length < x.length := by
  intro m
  induction m with
  | zero =>
    intro x hx cur stack st ra t rest h
    have : x = [] := List.length_eq_zero_iff.mp (Nat.le_zero.mp hx)
    subst this
    cases e
    · rw [readLoop_eof _ _ _ _ _ _ _ (by rfl)] at h; split at h <;> cases h
    · rw [readLoop_err _ _ _ _ _ _ _ (by rfl)] at h; cases h
  | succ m ih =>
    intro x hx cur stack st ra t rest h
    cases hy : nextToken e x with
    | eof => rw [readLoop_eof _ _ _ _ _ _ _ hy] at h; split at h <;> cases h
    | err => rw [readLoop_err _ _ _ _ _ _ _ hy] at h; cases h
    | tok t' rest' =>
      have hlt := nextToken_lt e x t' rest' hy
      have ih' : ∀ cur stack st ra, readLoop pd e rest' cur stack st ra = .tree t rest →
          rest.length < x.length := fun cur stack st ra hh =>
        Nat.lt_trans (ih rest' (by omega) cur stack st ra t rest hh) hlt
      rw [readLoop_tok _ _ _ _ _ _ _ _ _ hy] at h
      split at h
      · split at h
        · cases h
        · exact ih' _ _ _ _ h
      · split at h
        · cases h
        · split at h
          · cases h
          · exact ih' _ _ _ _ h
      · split at h
        · cases h
        · split at h
          · cases h
          · exact ih' _ _ _ _ h
      · split at h
        · cases h
        · exact ih' _ _ _ _ h
      · split at h
        · cases h
        · split at h
          · cases h
          · injection h with h1 h2; subst h2; exact hlt
      · split at h
        · cases h
        · split at h
          · exact ih' _ _ _ _ h
          · split at h
            · cases h
            · exact ih' _ _ _ _ h

theorem readTree_rest_lt (pd e x t rest) (h : readTree pd e x = .tree t rest) :
    rest.length < x.length :=
  readLoop_rest_lt pd e x.length x (Nat.le_refl _) _ _ _ _ t rest h

theorem decodeSrc_eof (pd e x) (h : readTree pd e x = .eof) : decodeSrc pd e x = [] := by
  rw [decodeSrc]; split <;> simp_all

theorem decodeSrc_err (pd e x) (h : readTree pd e x = .err) : decodeSrc pd e x = [.err] := by
  rw [decodeSrc]; split <;> simp_all

theorem decodeSrc_tree (pd e x t rest) (h : readTree pd e x = .tree t rest) :
    decodeSrc pd e x = .ok t :: decodeSrc pd e rest := by
  have hlt := readTree_rest_lt pd e x t rest h
  rw [decodeSrc]
  split
  · simp_all
  · simp_all
  · rename_i t' rest' h'
    rw [h] at h'
    injection h' with h1 h2
    subst h1 h2
    simp [hlt]

theorem decodeSrc_ws (pd e) (w x : Bytes) (hw : ∀ b ∈ w, isWS b = true) :
    decodeSrc pd e (w ++ x) = decodeSrc pd e x := by
  have h := readTree_ws pd e w x hw
  cases hx : readTree pd e x with
  | eof => rw [decodeSrc_eof _ _ _ (h.trans hx), decodeSrc_eof _ _ _ hx]
  | err => rw [decodeSrc_err _ _ _ (h.trans hx), decodeSrc_err _ _ _ hx]
  | tree t rest => rw [decodeSrc_tree _ _ _ _ _ (h.trans hx), decodeSrc_tree _ _ _ _ _ hx]

theorem decodeSrc_nil (pd) : decodeSrc pd .eof [] = [] :=
  decodeSrc_eof pd .eof [] (by simp [readTree, readLoop_eof _ _ _ _ _ _ _ (show nextToken .eof [] = .eof from rfl)])

/-- Shape of every decoder output: records, then at most one final error. -/
theorem decodeSrc_shape (pd e) : ∀ (m : Nat) (x : Bytes), x.length ≤ m →
    ∃ oks : List Tree, decodeSrc pd e x = oks.map .ok ∨ decodeSrc pd e x = oks.map .ok ++ [.err] := by
  intro m
  induction m with
  | zero =>
    intro x hx
    cases hr : readTree pd e x with
    | eof => exact ⟨[], Or.inl (decodeSrc_eof _ _ _ hr)⟩
    | err => exact ⟨[], Or.inr (decodeSrc_err _ _ _ hr)⟩
    | tree t rest => have := readTree_rest_lt _ _ _ _ _ hr; omega
  | succ m ih =>
    intro x hx
    cases hr : readTree pd e x with
    | eof => exact ⟨[], Or.inl (decodeSrc_eof _ _ _ hr)⟩
    | err => exact ⟨[], Or.inr (decodeSrc_err _ _ _ hr)⟩
    | tree t rest =>
      have hlt := readTree_rest_lt _ _ _ _ _ hr
      obtain ⟨oks, h | h⟩ := ih rest (by omega)
      · exact ⟨t :: oks, Or.inl (by rw [decodeSrc_tree _ _ _ _ _ hr, h]; rfl)⟩
      · exact ⟨t :: oks, Or.inr (by rw [decodeSrc_tree _ _ _ _ _ hr, h]; rfl)⟩

/-- Trees each followed by a whitespace string. -/
def writeAll (qs : Bytes) (tws : List (Tree × Bytes)) : Bytes :=
  tws.flatMap fun p => write qs p.1 ++ p.2

theorem decodeSrc_writeAll (qs pd) (hq : QS_OK qs) (tws : List (Tree × Bytes))
    (hd : ∀ p ∈ tws, p.1.AllDist (DistOK pd)) (hw : ∀ p ∈ tws, ∀ b ∈ p.2, isWS b = true) :
    decodeSrc pd .eof (writeAll qs tws) = tws.map fun p => Item.ok p.1 := by
  induction tws with
  | nil => exact decodeSrc_nil pd
  | cons p tws ih =>
    have ih := ih (fun q hq' => hd q (List.mem_cons_of_mem _ hq')) (fun q hq' => hw q (List.mem_cons_of_mem _ hq'))
    simp only [writeAll, List.flatMap_cons, List.append_assoc, List.map_cons] at ih ⊢
    rw [decodeSrc_tree _ _ _ _ _ (readTree_write qs pd .eof hq p.1 (hd p List.mem_cons_self) _)]
    rw [decodeSrc_ws _ _ _ _ (hw p List.mem_cons_self)]
    rw [← ih]

/-! ## Condensed output -/

theorem scan_true_double (s y : Bytes) : scanNoWS true (doubleQuotes s ++ y) = scanNoWS true y := by
  induction s with
  | nil => rfl
  | cons b s ih =>
    simp only [doubleQuotes]
    split
    · simp [scanNoWS, ih]
    · rename_i h; simp [scanNoWS, h, ih]

theorem scan_clean (t y : Bytes) (ht : ∀ b ∈ t, isWS b = false ∧ b ≠ 39) :
    scanNoWS false (t ++ y) = scanNoWS false y := by
  induction t with
  | nil => rfl
  | cons b t ih =>
    have hb := ht b List.mem_cons_self
    simp [scanNoWS, QUOTE, hb.1, hb.2, ih (fun x hx => ht x (List.mem_cons_of_mem _ hx))]

theorem scan_struct {c : UInt8} (hc : isStruct c = true) (y : Bytes) :
    scanNoWS false (c :: y) = scanNoWS false y :=
  scan_clean [c] y (by
    intro b hb; simp only [List.mem_singleton] at hb; subst hb
    exact ⟨isStruct_not_ws hc, isStruct_ne_quote hc⟩)

theorem scan_name (qs) (hq : QS_OK qs) (n y : Bytes) :
    scanNoWS false (nameToText qs n ++ y) = scanNoWS false y := by
  cases hn : needsQuote qs n with
  | true =>
    rw [nameToText_quoted hn]
    simp [scanNoWS, scan_true_double]
  | false =>
    rw [nameToText_bare hn]
    exact scan_clean _ _ (fun b hb => (bare_clean hq hn b hb).2)

theorem scan_dist (d : Dist) (hd : DistClean d) (y : Bytes) :
    scanNoWS false (distText d ++ y) = scanNoWS false y := by
  cases d with
  | none => rfl
  | some t =>
    simp only [distText, List.cons_append]
    rw [scan_struct (by decide), scan_clean t y hd]

theorem scan_forest (qs) (hq : QS_OK qs) (f : Forest) (hd : f.AllDist DistClean) (y : Bytes) :
    scanNoWS false (writeForest qs f ++ y) = scanNoWS false y := by
  induction f generalizing y with
  | nil => rfl
  | cons n d k r ihk ihr =>
    obtain ⟨hd1, hdk, hdr⟩ := hd
    rw [writeForest_cons]
    simp only [List.append_assoc]
    have hk : ∀ z, scanNoWS false (kidsText qs k ++ z) = scanNoWS false z := by
      intro z
      cases k with
      | nil => rfl
      | cons n1 d1 k1 r1 =>
        rw [kidsText_cons]
        simp only [List.cons_append, List.append_assoc]
        rw [scan_struct (by decide), ihk hdk]
        exact scan_struct (by decide) _
    have hr : ∀ z, scanNoWS false (sibText qs r ++ z) = scanNoWS false z := by
      intro z
      cases r with
      | nil => rfl
      | cons n1 d1 k1 r1 =>
        rw [sibText_cons]
        simp only [List.cons_append]
        rw [scan_struct (by decide), ihr hdr]
    rw [hk, scan_name qs hq, scan_dist d hd1, hr]

theorem scan_write (qs) (hq : QS_OK qs) (t : Tree) (hd : t.AllDist DistClean) :
    outsideQuotesNoWS (write qs t) = true := by
  unfold outsideQuotesNoWS write
  rw [scan_forest qs hq (.cons t.name t.dist t.kids .nil) ⟨hd.1, hd.2, trivial⟩]
  decide

theorem write_getLast (qs) (t : Tree) : (write qs t).getLast? = some 59 := by
  unfold write; rw [List.getLast?_concat]


/-! ## Index form of "an error is last" -/

theorem err_index_last (l : List (Item Tree))
    (hs : ∃ oks : List Tree, l = oks.map .ok ∨ l = oks.map .ok ++ [.err])
    (i : Nat) (hi : l[i]? = some .err) : i + 1 = l.length := by
  obtain ⟨oks, h | h⟩ := hs
  · subst h
    rw [List.getElem?_map] at hi
    cases ho : oks[i]? with
    | none => simp [ho] at hi
    | some a => simp [ho] at hi
  · subst h
    by_cases hlt : i < oks.length
    · rw [List.getElem?_append_left (by simpa using hlt), List.getElem?_map] at hi
      cases ho : oks[i]? with
      | none => simp [ho] at hi
      | some a => simp [ho] at hi
    · by_cases heq : i = oks.length
      · simp [heq]
      · have : (List.map Item.ok oks ++ [Item.err])[i]? = none := by
          apply List.getElem?_eq_none
          simp; omega
        rw [this] at hi; cases hi

end Bio.Newick
