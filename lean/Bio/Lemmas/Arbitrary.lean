/-
  Helper lemmas and specification vocabulary for `Bio/Props/C11Arbitrary.lean`: what the
  FASTQ / SAM / BED / FASTA decoders do on ARBITRARY byte strings.
-/
import Bio.Lemmas.Fastq
import Bio.Lemmas.Fasta
import Bio.Lemmas.Sam
import Bio.Lemmas.Bed

/-! ## FASTQ -/
namespace Bio.Fastq

/-- The three ways `fromLines` can go on any line list. -/
theorem fromLines_cases (e : Ending) (ls : List Bytes) :
    ls = [] ∨
    (∃ name sq pl ql rest, ls = (64 :: name) :: sq :: (43 :: pl) :: ql :: rest ∧
      ql.length = sq.length ∧ fromLines e ls = .ok ⟨name, sq, ql⟩ :: fromLines e rest) ∨
    (ls ≠ [] ∧ fromLines e ls = [.err]) := by
  fun_cases fromLines e ls
  case case3 name sq ql rest pl h =>
    exact Or.inr (Or.inl ⟨name, sq, pl, ql, rest, rfl, h, by simp⟩)
  all_goals simp_all

/-- Record `i` of the output is the `i`-th group of four lines; all earlier items are records. -/
theorem fromLines_ok_lines (e : Ending) (ls : List Bytes) (i : Nat) (r : Fq)
    (h : (fromLines e ls)[i]? = some (Item.ok r)) :
    (∃ pl, (ls.drop (4 * i)).take 4 = [64 :: r.name, r.seq, 43 :: pl, r.quals]) ∧
    r.seq.length = r.quals.length ∧
    ∀ j < i, ∃ r', (fromLines e ls)[j]? = some (Item.ok r') := by
  induction i generalizing ls with
  | zero =>
    rcases fromLines_cases e ls with rfl | ⟨name, sq, pl, ql, rest, rfl, hl, heq⟩ | ⟨_, heq⟩
    · cases e <;> simp [fromLines] at h
    · rw [heq] at h
      simp at h
      subst h
      exact ⟨⟨pl, by simp⟩, hl.symm, by simp⟩
    · rw [heq] at h; simp at h
  | succ i ih =>
    rcases fromLines_cases e ls with rfl | ⟨name, sq, pl, ql, rest, rfl, hl, heq⟩ | ⟨_, heq⟩
    · cases e <;> simp [fromLines] at h
    · rw [heq] at h ⊢
      simp only [List.getElem?_cons_succ] at h
      obtain ⟨⟨pl', h1⟩, h2, h3⟩ := ih rest h
      refine ⟨⟨pl', ?_⟩, h2, ?_⟩
      · rw [show 4 * (i + 1) = 4 * i + 4 by omega]
        simpa using h1
      · intro j hj
        cases j with
        | zero => exact ⟨_, rfl⟩
        | succ j => simpa using h3 j (by omega)
    · rw [heq] at h; simp at h

theorem fromLines_length_le (e : Ending) (ls : List Bytes) :
    (fromLines e ls).length ≤ ls.length / 4 + 1 := by
  fun_induction fromLines e ls <;> simp_all <;> omega

/-- No error item: the items are exactly the groups of four lines. -/
theorem fromLines_complete (ls : List Bytes) (h : Item.err ∉ fromLines .eof ls) :
    (fromLines .eof ls).length * 4 = ls.length := by
  fun_induction fromLines .eof ls <;> simp_all <;> omega

end Bio.Fastq

/-! ## SAM -/
namespace Bio.Sam

/-- The `Reader` item of one record line. -/
def recItem (pf : Bytes → Option Bytes) (l : Bytes) : Item Sam :=
  match parseLine pf (splitOn TAB l) with
  | some s => .ok s
  | none => .err

/-- A line the `Reader` answers with an item: non-empty and not starting with `'@'`. -/
def isRecLine (l : Bytes) : Bool := l ≠ [] && l.head? ≠ some 64

theorem decodeHeader_eq (pf : Bytes → Option Bytes) (x : Bytes) :
    decodeHeader pf x = ((scanLines x).filter (· ≠ [])).map (lineItem pf) := by
  simp [decodeHeader, decodeHeaderSrc, itemsOfLines, textLines, endItems]

theorem dropHeaders_map_lineItem (pf : Bytes → Option Bytes) (ls : List Bytes) :
    dropHeaders (ls.map (lineItem pf)) =
      (ls.filter (fun l => l.head? ≠ some 64)).map (recItem pf) := by
  induction ls with
  | nil => rfl
  | cons l ls ih =>
    by_cases h : l.head? = some 64
    · simp [lineItem_hdr pf h, dropHeaders, ih, h]
    · rw [List.map_cons, lineItem_not_hdr pf h]
      simp only [h, ne_eq, not_false_eq_true, decide_true, List.filter_cons_of_pos, List.map_cons,
        recItem]
      split <;> rename_i heq <;> simp [dropHeaders, ih, heq]

theorem decode_eq_recLines (pf : Bytes → Option Bytes) (x : Bytes) :
    decode pf x = ((scanLines x).filter isRecLine).map (recItem pf) := by
  rw [decode, decodeSrc, ← decodeHeader, decodeHeader_eq, dropHeaders_map_lineItem,
    List.filter_filter]
  congr 1
  apply List.filter_congr
  intro l _
  simp [isRecLine, Bool.and_comm]

theorem hdr_mem (pf : Bytes → Option Bytes) (x : Bytes) (h : Bytes)
    (hm : Item.ok (Entry.hdr h) ∈ decodeHeader pf x) : h ∈ scanLines x ∧ h.head? = some 64 := by
  rw [decodeHeader_eq] at hm
  obtain ⟨l, hl, he⟩ := List.mem_map.mp hm
  have hl' := (List.mem_filter.mp hl).1
  by_cases hh : l.head? = some 64
  · rw [lineItem_hdr pf hh] at he
    cases he
    exact ⟨hl', hh⟩
  · rw [lineItem_not_hdr pf hh] at he
    split at he <;> cases he

end Bio.Sam

/-! ## BED -/
namespace Bio.Bed

/-- The lines the reader parses: not blank, not a `#` comment. -/
def kept (x : Bytes) : List Bytes := (scanLines x).filter (fun l => !isSkipped l)

/-- Field count of a line. -/
def nFields (l : Bytes) : Nat := (splitOn TAB l).length

/-- The record item of a line that parses (nothing otherwise). -/
def lineRec (l : Bytes) : Option (Item Bed) := (parseLine (splitOn TAB l)).map Item.ok

/-- A line the reader accepts when the field count is fixed to `c`. -/
def goodLine (c : Nat) (l : Bytes) : Bool := nFields l == c && (parseLine (splitOn TAB l)).isSome

/-- Items for kept lines `K` under a fixed field count `c`. -/
def itemsFor (c : Nat) (K : List Bytes) : List (Item Bed) :=
  (K.takeWhile (goodLine c)).filterMap lineRec ++
    if (K.takeWhile (goodLine c)).length < K.length then [Item.err] else []

theorem itemsFor_nil (c : Nat) : itemsFor c [] = [] := by simp [itemsFor]

theorem itemsFor_cons_bad (c : Nat) (l : Bytes) (K : List Bytes) (h : goodLine c l = false) :
    itemsFor c (l :: K) = [Item.err] := by
  simp [itemsFor, h]

theorem itemsFor_cons_good (c : Nat) (l : Bytes) (K : List Bytes) (b : Bed)
    (h : goodLine c l = true) (hp : parseLine (splitOn TAB l) = some b) :
    itemsFor c (l :: K) = Item.ok b :: itemsFor c K := by
  simp [itemsFor, h, lineRec, hp]

theorem fromLines_some (c : Nat) (ls : List Bytes) :
    fromLines .eof (some c) ls = itemsFor c (ls.filter (fun l => !isSkipped l)) := by
  induction ls with
  | nil => simp [fromLines, endItems, itemsFor_nil]
  | cons l ls ih =>
    rw [fromLines]
    by_cases hs : isSkipped l = true
    · simp [hs, ih]
    · simp only [hs, Bool.false_eq_true, ↓reduceIte, Bool.not_false, List.filter_cons_of_pos]
      by_cases hc : (splitOn TAB l).length = c
      · cases hp : parseLine (splitOn TAB l) with
        | none =>
          rw [itemsFor_cons_bad _ _ _ (by simp [goodLine, hp])]
          simp [hc]
        | some b =>
          rw [itemsFor_cons_good _ _ _ b (by simp [goodLine, nFields, hc, hp]) hp]
          simp [hc, ih]
      · rw [itemsFor_cons_bad _ _ _ (by simp [goodLine, nFields, hc])]
        have : (some c != some (splitOn TAB l).length) = true := by
          simp [bne_iff_ne]; exact fun e => hc e.symm
        simp [this]

theorem fromLines_none (ls : List Bytes) :
    fromLines .eof none ls =
      itemsFor (nFields ((ls.filter (fun l => !isSkipped l)).head?.getD []))
        (ls.filter (fun l => !isSkipped l)) := by
  induction ls with
  | nil => simp [fromLines, endItems, itemsFor_nil]
  | cons l ls ih =>
    rw [fromLines]
    by_cases hs : isSkipped l = true
    · simp [hs, ih]
    · simp only [hs, Bool.false_eq_true, ↓reduceIte, Bool.not_false, List.filter_cons_of_pos,
        List.head?_cons, Option.getD_some]
      cases hp : parseLine (splitOn TAB l) with
      | none =>
        rw [itemsFor_cons_bad _ _ _ (by simp [goodLine, hp])]
        simp
      | some b =>
        rw [itemsFor_cons_good _ _ _ b (by simp [goodLine, hp]) hp]
        simp [fromLines_some, nFields]

end Bio.Bed

namespace Bio.Bed

theorem takeWhile_eq_take_length {α : Type} (p : α → Bool) (l : List α) :
    l.takeWhile p = l.take (l.takeWhile p).length := by
  induction l with
  | nil => rfl
  | cons a l ih =>
    by_cases h : p a = true
    · simp [h]; exact ih
    · simp [h]

theorem mem_takeWhile_true {α : Type} (p : α → Bool) (l : List α) (a : α)
    (h : a ∈ l.takeWhile p) : p a = true := by
  induction l with
  | nil => simp at h
  | cons b l ih =>
    by_cases hb : p b = true
    · simp [hb] at h
      rcases h with rfl | h
      · exact hb
      · exact ih h
    · simp [hb] at h

theorem takeWhile_next_false {α : Type} (p : α → Bool) (l : List α) (a : α)
    (h : l[(l.takeWhile p).length]? = some a) : p a = false := by
  induction l with
  | nil => simp at h
  | cons b l ih =>
    by_cases hb : p b = true
    · simp [hb] at h; exact ih h
    · simp [hb] at h; subst h; simpa using hb

theorem filterMap_length_of_isSome {α β : Type} (f : α → Option β) (l : List α)
    (h : ∀ a ∈ l, (f a).isSome) : (l.filterMap f).length = l.length := by
  induction l with
  | nil => rfl
  | cons a l ih =>
    have ha := h a (by simp)
    obtain ⟨b, hb⟩ := Option.isSome_iff_exists.mp ha
    simp [hb, ih (fun a' ha' => h a' (by simp [ha']))]

end Bio.Bed

namespace Bio.Bed

/-- `itemsFor` as a prefix of the kept lines plus at most one error, with the reason for it. -/
theorem itemsFor_spec (c : Nat) (K : List Bytes) :
    ∃ n, n ≤ K.length ∧
      itemsFor c K = (K.take n).filterMap lineRec ++ (if n < K.length then [Item.err] else []) ∧
      (∀ l ∈ K.take n, goodLine c l = true) ∧
      (∀ l, K[n]? = some l → goodLine c l = false) := by
  refine ⟨(K.takeWhile (goodLine c)).length, (List.takeWhile_sublist _).length_le, ?_, ?_, ?_⟩
  · rw [← takeWhile_eq_take_length]; rfl
  · rw [← takeWhile_eq_take_length]
    intro l hl
    exact mem_takeWhile_true _ _ _ hl
  · intro l hl
    exact takeWhile_next_false _ _ _ hl

theorem goodLine_lineRec_isSome {c : Nat} {l : Bytes} (h : goodLine c l = true) :
    (lineRec l).isSome = true := by
  simp only [goodLine, Bool.and_eq_true] at h
  simp [lineRec, h.2]

theorem decode_eq_itemsFor (x : Bytes) :
    decode x = itemsFor (nFields ((kept x).head?.getD [])) (kept x) := by
  simp only [decode, decodeSrc, textLines, kept]
  exact fromLines_none _

end Bio.Bed

/-! ## FASTA -/
namespace Bio.Fasta

/-- All name and sequence bytes of the delivered records, in order. -/
def payload : List (Item Fa) → Bytes
  | [] => []
  | .ok r :: rest => r.name ++ r.seq ++ payload rest
  | .err :: rest => payload rest

/-- The input without its line-break bytes and without the `'>'` bytes that stand at the start
of the input or directly after a line break.  `atLineStart` = nothing but line breaks since the
beginning of the input / the last line break. -/
def stripAux (atLineStart : Bool) : Bytes → Bytes
  | [] => []
  | b :: rest =>
    if isNL b then stripAux true rest
    else if atLineStart && b == 62 then stripAux false rest
    else b :: stripAux false rest

def strip (x : Bytes) : Bytes := stripAux true x

/-- Number of `'>'` bytes that directly follow a line-break byte. -/
def gtAfterNL : Bytes → Nat
  | a :: b :: rest => (if isNL a && b == 62 then 1 else 0) + gtAfterNL (b :: rest)
  | _ => 0

@[simp] theorem beq_newline_newline : (St.newline == St.newline) = true := by decide
@[simp] theorem beq_name_newline : (St.name == St.newline) = false := by decide
@[simp] theorem beq_seq_newline : (St.seq == St.newline) = false := by decide

theorem loop_name_nil (st : St) (y : Bytes) (h : st ≠ .name) : (loop st y).1 = [] := by
  induction y generalizing st with
  | nil => simp [loop]
  | cons b rest ih =>
    cases st
    · simp only [loop]; repeat' split
      all_goals simp [ih]
    · exact absurd rfl h
    · simp only [loop]; repeat' split
      all_goals simp [ih]

theorem loop_strip (st : St) (y : Bytes) :
    (loop st y).1 ++ (loop st y).2.1 ++ stripAux true (loop st y).2.2 =
      stripAux (st == .newline) y := by
  induction y generalizing st with
  | nil => simp [loop, stripAux]
  | cons b rest ih =>
    cases st
    · -- newline
      simp only [loop, stripAux]
      by_cases hnl : isNL b = true
      · simpa [hnl] using ih .newline
      · by_cases hb : b = 62
        · subst hb; simp [stripAux, isNL]
        · have := ih .seq
          have h0 := loop_name_nil .seq rest (by simp)
          simp [hnl, hb, h0] at this ⊢
          exact this
    · -- name
      simp only [loop, stripAux]
      by_cases hnl : isNL b = true
      · simpa [hnl] using ih .newline
      · have := ih .name
        simp [hnl] at this ⊢
        exact this
    · -- seq
      simp only [loop, stripAux]
      by_cases hnl : isNL b = true
      · simpa [hnl] using ih .newline
      · have := ih .seq
        have h0 := loop_name_nil .seq rest (by simp)
        simp [hnl, h0] at this ⊢
        exact this


theorem payload_decodeSrc (x : Bytes) : payload (decodeSrc .eof x) = stripAux true x := by
  induction x using decodeSrc.induct .eof with
  | case1 he => simp [decodeSrc_nil, payload, stripAux]
  | case2 he => cases he
  | case4 b rest p h he => cases he
  | case3 b rest p h he =>
    rw [decodeSrc_cons, if_pos h]
    have hl := loop_strip (startState b) rest
    have h' : (loop (startState b) rest).2.2 = [] := h
    rw [h'] at hl
    simp only [payload, readOne, stripAux, List.append_nil] at hl ⊢
    by_cases hb : b = 62
    · subst hb
      simpa [startSeq, startState, isNL] using hl
    · by_cases hnl : isNL b = true
      · simpa [startSeq, startState, hb, hnl] using hl
      · have h0 := loop_name_nil .seq rest (by simp)
        simp [startSeq, startState, hb, hnl, h0] at hl ⊢
        exact hl
  | case5 b rest p h ih =>
    rw [decodeSrc_cons, if_neg h]
    have hl := loop_strip (startState b) rest
    have ih' : payload (decodeSrc .eof (loop (startState b) rest).2.2) =
      stripAux true (loop (startState b) rest).2.2 := ih
    rw [← ih'] at hl
    simp only [payload, readOne, stripAux] at hl ⊢
    by_cases hb : b = 62
    · subst hb
      simpa [startSeq, startState, isNL] using hl
    · by_cases hnl : isNL b = true
      · simpa [startSeq, startState, hb, hnl] using hl
      · have h0 := loop_name_nil .seq rest (by simp)
        simp [startSeq, startState, hb, hnl, h0] at hl ⊢
        exact hl

/-- State-machine form of `gtAfterNL`. -/
def cntAux (afterNL : Bool) : Bytes → Nat
  | [] => 0
  | b :: rest => (if afterNL && b == 62 then 1 else 0) + cntAux (isNL b) rest

theorem gtAfterNL_cons (a : UInt8) (y : Bytes) : gtAfterNL (a :: y) = cntAux (isNL a) y := by
  induction y generalizing a with
  | nil => simp [gtAfterNL, cntAux]
  | cons b rest ih => simp [gtAfterNL, cntAux, ih]

/-- Records still to come when the unread rest is `r`. -/
def nRec (r : Bytes) : Nat := if r = [] then 0 else 1 + gtAfterNL r

theorem loop_cnt (st : St) (y : Bytes) :
    nRec (loop st y).2.2 = cntAux (st == .newline) y := by
  induction y generalizing st with
  | nil => simp [loop, cntAux, nRec]
  | cons b rest ih =>
    cases st
    · simp only [loop, cntAux]
      by_cases hnl : isNL b = true
      · have : b ≠ 62 := by rintro rfl; simp [isNL] at hnl
        simpa [hnl, this] using ih .newline
      · by_cases hb : b = 62
        · subst hb; simp [nRec, gtAfterNL_cons, isNL]
        · simpa [hnl, hb] using ih .seq
    · simp only [loop, cntAux]
      by_cases hnl : isNL b = true
      · simpa [hnl] using ih .newline
      · simpa [hnl] using ih .name
    · simp only [loop, cntAux]
      by_cases hnl : isNL b = true
      · simpa [hnl] using ih .newline
      · simpa [hnl] using ih .seq

theorem decodeSrc_length (x : Bytes) : (decodeSrc .eof x).length = nRec x := by
  induction x using decodeSrc.induct .eof with
  | case1 he => simp [decodeSrc_nil, nRec]
  | case2 he => cases he
  | case4 b rest p h he => cases he
  | case3 b rest p h he =>
    rw [decodeSrc_cons, if_pos h]
    have hl := loop_cnt (startState b) rest
    have h' : (loop (startState b) rest).2.2 = [] := h
    rw [h'] at hl
    simp only [nRec, gtAfterNL_cons] at hl ⊢
    by_cases hb : b = 62
    · subst hb; simpa [startState, isNL] using hl.symm
    · by_cases hnl : isNL b = true
      · simpa [startState, hb, hnl] using hl.symm
      · simpa [startState, hb, hnl] using hl.symm
  | case5 b rest p h ih =>
    rw [decodeSrc_cons, if_neg h]
    have hl := loop_cnt (startState b) rest
    have ih' : (decodeSrc .eof (loop (startState b) rest).2.2).length =
      nRec (loop (startState b) rest).2.2 := ih
    simp only [List.length_cons, readOne, ih', hl]
    simp only [nRec, gtAfterNL_cons]
    by_cases hb : b = 62
    · subst hb; simp [startState, isNL]; omega
    · by_cases hnl : isNL b = true
      · simp [startState, hb, hnl]; omega
      · simp [startState, hb, hnl]; omega

theorem gtAfterNL_lt (x : Bytes) (h : x ≠ []) : gtAfterNL x < x.length := by
  induction x with
  | nil => exact absurd rfl h
  | cons a y ih =>
    cases y with
    | nil => simp [gtAfterNL]
    | cons b rest =>
      have := ih (by simp)
      simp only [gtAfterNL, List.length_cons] at this ⊢
      split <;> omega

end Bio.Fasta

namespace Bio.Fasta

theorem stripAux_sublist (a : Bool) (y : Bytes) : (stripAux a y).Sublist y := by
  induction y generalizing a with
  | nil => simp [stripAux]
  | cons b rest ih =>
    simp only [stripAux]
    split
    · exact (ih _).cons _
    · split
      · exact (ih _).cons _
      · exact (ih _).cons_cons _

theorem stripAux_length (a : Bool) (y : Bytes) :
    (stripAux a y).length + (y.filter isNL).length + cntAux a y = y.length := by
  induction y generalizing a with
  | nil => simp [stripAux, cntAux]
  | cons b rest ih =>
    by_cases hnl : isNL b = true
    · have hb : (b == 62) = false := by
        have : b ≠ 62 := by rintro rfl; simp [isNL] at hnl
        simpa using this
      have := ih true
      simp only [stripAux, cntAux, hnl, hb, List.filter_cons_of_pos, List.length_cons, if_true,
        Bool.and_false, Bool.false_eq_true, if_false]
      omega
    · have h62 : isNL 62 = false := by decide
      have := ih false
      by_cases hb : b = 62
      · subst hb
        cases a <;>
          simp only [stripAux, cntAux, h62, List.length_cons, Bool.false_eq_true, if_false,
            Bool.and_true, Bool.and_self, beq_self_eq_true, if_true,
            List.filter_cons] <;> omega
      · have hb' : (b == 62) = false := by simpa using hb
        simp only [stripAux, cntAux, hnl, hb', List.length_cons, Bool.false_eq_true, if_false,
          Bool.and_false, List.filter_cons]
        omega

theorem cntAux_true (x : Bytes) :
    cntAux true x = (if x.head? = some 62 then 1 else 0) + gtAfterNL x := by
  cases x with
  | nil => simp [cntAux, gtAfterNL]
  | cons b rest => simp [cntAux, gtAfterNL_cons]

end Bio.Fasta
