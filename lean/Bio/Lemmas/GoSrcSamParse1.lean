/-
  The SAM line parser of formats/sam (`splitTag`, `parseTags` of tags.go; `parseInts`, `parseLine` of
  sam.go), as translated on every run from the Go SOURCE TEXT into `Bio.Generated.GoSrc.splitTag`,
  `parseTags`, `parseInts`, `sam_parseLine` (with `strconv.Atoi`, `strconv.ParseFloat`,
  `hex.DecodeString` as parameters `f`, `g`, `h`), part 1: for ARBITRARY parameters the translated
  functions are total (never `none` = never a Go panic, except `parseInts` on lists of different
  lengths) and equal to small parametrised specifications:

  * `splitTag_eq`   : `splitTag` is the model's `Sam.splitTag` (`splitTagRes`);
  * `parseInts_eq`  : `parseInts` is `intsSpec` on lists of equal length, `none` otherwise;
  * `parseTags_eq`  : `parseTags` is `tagsSpec (reqA f) (reqP g) (reqH h)` — the model's `parseTags` with
    the three value parsers as parameters and the Go map kept in INSERTION order (`mapSet`);
  * `sam_parseLine_eq` : `parseLine` is `lineSpec`.

  Guarded by the translator's `_Found` flags as in `Bio.Lemmas.GoSrc`.
-/
import Bio.Generated.GoSrc
import Bio.Lemmas.GoRt
import Bio.Lemmas.Sam
import Bio.Lemmas.GoSrcBedRead1
set_option linter.unusedVariables false
namespace Bio.GoSrcLemmas
open Bio Bio.GoRt Bio.Generated
namespace SamP
open BedRd (reqA AtoiModel)

/-- the body of the colon-finding loop of `splitTag` -/
def colonBody (x : Int × UInt8) (s : Int × Int) : Option (ForInStep (Int × Int)) :=
  if (x.snd == 58) = true then
    if (s.fst == -1) = true then some (ForInStep.yield (x.fst, s.snd))
    else some (ForInStep.done (s.fst, x.fst))
  else some (ForInStep.yield (s.fst, s.snd))

theorem colonLoop2 (r : Bytes) (j : Nat) (c1 : Int) (hc : c1 ≠ -1) :
    forIn ((r.zipIdx j).map fun p => ((p.2 : Int), p.1)) (c1, (-1 : Int)) colonBody
      = some (match Sam.splitColon r with
        | none => (c1, -1)
        | some (b, _) => (c1, ((j + b.length : Nat) : Int))) := by
  induction r generalizing j with
  | nil => rfl
  | cons x r ih =>
    simp only [List.zipIdx_cons, List.map_cons, List.forIn_cons, Sam.splitColon]
    by_cases hx : x = 58
    · subst hx
      have : (c1 == -1) = false := by simpa using hc
      simp [colonBody, this, Sam.COLON]
    · have h1 : (x == 58) = false := by simpa using hx
      have h2 : (x == Sam.COLON) = false := h1
      simp only [colonBody, h1, h2, Bool.false_eq_true, if_false, Option.bind_some, Option.bind_eq_bind]
      rw [ih (j + 1)]
      cases Sam.splitColon r with
      | none => rfl
      | some p => simp; omega

theorem colonLoop1 (tag : Bytes) (k : Nat) :
    forIn ((tag.zipIdx k).map fun p => ((p.2 : Int), p.1)) ((-1 : Int), (-1 : Int)) colonBody
      = some (match Sam.splitColon tag with
        | none => (-1, -1)
        | some (a, r) => match Sam.splitColon r with
          | none => (((k + a.length : Nat) : Int), -1)
          | some (b, _) => (((k + a.length : Nat) : Int), ((k + a.length + 1 + b.length : Nat) : Int))) := by
  induction tag generalizing k with
  | nil => rfl
  | cons x r ih =>
    simp only [List.zipIdx_cons, List.map_cons, List.forIn_cons, Sam.splitColon]
    by_cases hx : x = 58
    · subst hx
      simp only [colonBody, Sam.COLON, beq_self_eq_true, if_true, Option.bind_some, Option.bind_eq_bind]
      rw [colonLoop2 r (k + 1) (k : Int) (by omega)]
      cases Sam.splitColon r with
      | none => simp
      | some p => simp
    · have h1 : (x == 58) = false := by simpa using hx
      have h2 : (x == Sam.COLON) = false := h1
      simp only [colonBody, h1, h2, Bool.false_eq_true, if_false, Option.bind_some, Option.bind_eq_bind]
      rw [ih (k + 1)]
      cases Sam.splitColon r with
      | none => rfl
      | some p =>
        obtain ⟨a, r'⟩ := p
        simp only [List.length_cons]
        cases Sam.splitColon r' with
        | none => simp; omega
        | some q => simp; omega

theorem slice_mid {α : Type} (pre mid suf : List α) (lo hi : Int) (hlo : lo = (pre.length : Int))
    (hhi : hi = ((pre.length + mid.length : Nat) : Int)) : slice (pre ++ (mid ++ suf)) lo hi = some mid := by
  subst hlo; subst hhi
  rw [slice_ofNat _ _ _ (by omega) (by simp)]
  simp

/-- what the translated `splitTag` returns, in terms of the model's `Sam.splitTag` -/
def splitTagRes (tag : Bytes) : List Bytes × GoErr :=
  match Sam.splitTag tag with
  | some (n, ty, v) => ([n, ty, v], GoErr.nil)
  | none => ([[], [], []], GoErr.other)

theorem splitTag_eq (hF : GoSrc.splitTag_Found = true) (tag : Bytes) :
    GoSrc.splitTag tag = some (splitTagRes tag) := by
  first
  | exact absurd hF (by decide)
  | (unfold GoSrc.splitTag
     simp only [Option.pure_def, Option.bind_eq_bind]
     have hl := colonLoop1 tag 0
     unfold colonBody at hl
     unfold enum
     rw [hl]
     unfold splitTagRes Sam.splitTag
     cases h1 : Sam.splitColon tag with
     | none => simp
     | some p =>
       obtain ⟨a, r⟩ := p
       cases h2 : Sam.splitColon r with
       | none => simp [h2]
       | some q =>
         obtain ⟨b, v⟩ := q
         obtain ⟨e1, _⟩ := Sam.splitColon_some h1
         obtain ⟨e2, _⟩ := Sam.splitColon_some h2
         simp only [h2, Option.bind_some, Nat.zero_add]
         have hne : ¬ (((a.length + 1 + b.length : Nat) : Int) = -1) := by omega
         simp only [beq_iff_eq, hne, if_false]
         have s1 : slice tag 0 (a.length : Int) = some a := by
           have := slice_mid [] a (Sam.COLON :: r) 0 (a.length : Int) rfl (by simp)
           simpa [e1] using this
         have s2 : slice tag ((a.length : Int) + 1) ((a.length + 1 + b.length : Nat) : Int) = some b := by
           have := slice_mid (a ++ [Sam.COLON]) b (Sam.COLON :: v) ((a.length : Int) + 1)
             ((a.length + 1 + b.length : Nat) : Int) (by simp) (by simp)
           simpa [e1, e2] using this
         have s3 : slice tag (((a.length + 1 + b.length : Nat) : Int) + 1) (len tag) = some v := by
           have := slice_mid (a ++ [Sam.COLON] ++ b ++ [Sam.COLON]) v [] (((a.length + 1 + b.length : Nat) : Int) + 1)
             (len tag) (by simp; omega) (by subst e1; subst e2; simp [len]; omega)
           simpa [e1, e2] using this
         rw [s1, s2, s3]
         rfl)

/-- `parseInts` on lists of equal length, for an arbitrary `strconv.Atoi`: the error of the first
string with an error (nil when there is none) and the pointees afterwards (the values before that
string written, the rest untouched) -/
def intsSpec (f : Bytes → Int × GoErr) : List Bytes → List Int → GoErr × List Int
  | s :: strs, x :: p =>
    if (f s).2 = GoErr.nil then ((intsSpec f strs p).1, (f s).1 :: (intsSpec f strs p).2)
    else ((f s).2, x :: p)
  | _, p => (GoErr.nil, p)

theorem intsSpec_length (f : Bytes → Int × GoErr) (strs : List Bytes) (p : List Int) :
    (intsSpec f strs p).2.length = p.length := by
  induction strs generalizing p with
  | nil => simp [intsSpec]
  | cons s strs ih =>
    cases p with
    | nil => simp [intsSpec]
    | cons x p =>
      simp only [intsSpec]
      split <;> simp [ih]

abbrev IntsSt := Option (GoErr × List Int) × List Int

def intsBody (f : Bytes → Int × GoErr) (x : Int × Bytes) (s : IntsSt) : Option (ForInStep IntsSt) :=
  if ((f x.snd).snd != GoErr.nil) = true then some (ForInStep.done (some ((f x.snd).snd, s.snd), s.snd))
  else (setIdx s.snd x.fst (f x.snd).fst).bind fun p => some (ForInStep.yield (none, p))

def intsK (s : IntsSt) : Option (GoErr × List Int) :=
  match s.fst with
  | some r => some r
  | none => some (GoErr.nil, s.snd)

theorem intsLoop (f : Bytes → Int × GoErr) (strs : List Bytes) (p done : List Int) (r0 : Option (GoErr × List Int))
    (hlen : strs.length = p.length) :
    (forIn ((strs.zipIdx done.length).map fun q => ((q.2 : Int), q.1)) ((none, done ++ p) : IntsSt) (intsBody f)).bind intsK
      = some ((intsSpec f strs p).1, done ++ (intsSpec f strs p).2) := by
  induction strs generalizing p done with
  | nil =>
    cases p with
    | nil => rfl
    | cons x p => simp at hlen
  | cons s strs ih =>
    cases p with
    | nil => simp at hlen
    | cons x p =>
      simp only [List.zipIdx_cons, List.map_cons, List.forIn_cons, intsSpec]
      by_cases he : (f s).2 = GoErr.nil
      · have hset : setIdx (done ++ x :: p) (done.length : Int) (f s).1 = some ((done ++ [(f s).1]) ++ p) := by
          rw [setIdx_ofNat, if_pos (by simp)]; simp
        simp only [intsBody, he, bne_self_eq_false, Bool.false_eq_true, if_false, hset, Option.bind_some,
          Option.bind_eq_bind, if_true]
        have := ih p (done ++ [(f s).1]) (by simpa using hlen)
        simp only [List.length_append, List.length_cons, List.length_nil, Nat.zero_add] at this
        rw [this]; simp
      · have hb : ((f s).2 != GoErr.nil) = true := by simpa using he
        simp [intsBody, hb, he, intsK]

theorem parseInts_eq (hF : GoSrc.parseInts_Found = true) (f : Bytes → Int × GoErr) (strs : List Bytes) (p : List Int) :
    GoSrc.parseInts f strs p = if strs.length = p.length then some (intsSpec f strs p) else none := by
  first
  | exact absurd hF (by decide)
  | (unfold GoSrc.parseInts
     simp only [Option.pure_def, Option.bind_eq_bind]
     by_cases hl : strs.length = p.length
     · have hl' : (len strs != len p) = false := by simp [len, hl]
       rw [hl', if_pos hl]
       simp only [Bool.false_eq_true, if_false]
       have := intsLoop f strs p [] none hl
       simp only [List.length_nil, List.nil_append] at this
       unfold enum
       refine Eq.trans ?_ this
       congr 1
       funext s
       rcases s with ⟨_ | _, _⟩ <;> rfl
     · have hl' : (len strs != len p) = true := by simp [len]; omega
       rw [hl', if_neg hl]; rfl)

/-- `x, err := strconv.ParseFloat(s, 64); if err != nil { return … }`: the value, when there is no error -/
def reqP (g : Bytes → Int → Bytes × GoErr) (s : Bytes) : Option Bytes :=
  if (g s 64).2 = GoErr.nil then some (g s 64).1 else none

/-- `x, err := hex.DecodeString(s); if err != nil { return … }` -/
def reqH (h : Bytes → Bytes × GoErr) (s : Bytes) : Option Bytes :=
  if (h s).2 = GoErr.nil then some (h s).1 else none

/-- the model's `parseTagVal` with its three value parsers as parameters -/
def tagValSpec (A : Bytes → Option Int) (P H : Bytes → Option Bytes) (ty val : Bytes) : Option Sam.TagVal :=
  match ty with
  | [65] => match val with
    | [c] => some (.A c)
    | _ => none
  | [105] => (A val).map .I
  | [102] => (P val).map .F
  | [90] => some (.Z val)
  | [72] => (H val).map .H
  | [66] => some (.Z val)
  | _ => none

theorem tagValSpec_model (pf : Bytes → Option Bytes) : tagValSpec atoi pf hexDec = Sam.parseTagVal pf := rfl

theorem tagValSpec_unknown (A : Bytes → Option Int) (P H : Bytes → Option Bytes) {ty : Bytes} (val : Bytes)
    (h : ty ∉ [[65], [105], [102], [90], [72], [66]]) : tagValSpec A P H ty val = none := by
  unfold tagValSpec
  split <;> first | rfl | simp at h

/-- one tag field: split, parse the value by its type letter, `result[name] = value` -/
def tagStep (A : Bytes → Option Int) (P H : Bytes → Option Bytes) (fld : Bytes) (acc : Sam.Tags) : Option Sam.Tags :=
  match Sam.splitTag fld with
  | none => none
  | some (name, ty, val) => (tagValSpec A P H ty val).map fun v => mapSet acc name v

/-- the translated `parseTags` with the value parsers as parameters: the Go map in insertion order -/
def tagsSpec (A : Bytes → Option Int) (P H : Bytes → Option Bytes) : List Bytes → Sam.Tags → Option Sam.Tags
  | [], acc => some acc
  | fld :: rest, acc =>
    match tagStep A P H fld acc with
    | none => none
    | some acc' => tagsSpec A P H rest acc'

def tagsRes (o : Option Sam.Tags) : Sam.Tags × GoErr :=
  match o with
  | some r => (r, GoErr.nil)
  | none => ([], GoErr.other)

abbrev TagsSt := Option (Sam.Tags × GoErr) × Sam.Tags

theorem tagsLoop (A : Bytes → Option Int) (P H : Bytes → Option Bytes)
    (body : Bytes → TagsSt → Option (ForInStep TagsSt)) (K : TagsSt → Option (Sam.Tags × GoErr))
    (hbody : ∀ fld acc, body fld (none, acc) = some (match tagStep A P H fld acc with
      | some acc' => ForInStep.yield (none, acc')
      | none => ForInStep.done (some ([], GoErr.other), acc)))
    (hK : ∀ s, K s = some (match s.1 with | some r => r | none => (s.2, GoErr.nil)))
    (vs : List Bytes) (acc : Sam.Tags) :
    (forIn vs ((none, acc) : TagsSt) body).bind K = some (tagsRes (tagsSpec A P H vs acc)) := by
  induction vs generalizing acc with
  | nil => simp [hK, tagsSpec, tagsRes]
  | cons fld rest ih =>
    simp only [List.forIn_cons, hbody, tagsSpec, Option.bind_eq_bind, Option.bind_some]
    cases tagStep A P H fld acc with
    | none => simp [hK, tagsRes]
    | some acc' => exact ih acc'

theorem parseTags_eq (hF : GoSrc.parseTags_Found = true) (hS : GoSrc.splitTag_Found = true)
    (h : Bytes → Bytes × GoErr) (f : Bytes → Int × GoErr) (g : Bytes → Int → Bytes × GoErr) (vs : List Bytes) :
    GoSrc.parseTags h f g vs = some (tagsRes (tagsSpec (reqA f) (reqP g) (reqH h) vs [])) := by
  first
  | exact absurd hF (by decide)
  | (unfold GoSrc.parseTags
     simp only [Option.pure_def, Option.bind_eq_bind]
     apply tagsLoop
     · intro fld acc
       simp only [splitTag_eq hS, Option.bind_some]
       unfold splitTagRes tagStep
       cases Sam.splitTag fld with
       | none => simp
       | some t =>
         obtain ⟨n, ty, v⟩ := t
         have i0 : idx [n, ty, v] 0 = some n := rfl
         have i1 : idx [n, ty, v] 1 = some ty := rfl
         have i2 : idx [n, ty, v] 2 = some v := rfl
         simp only [i0, i1, i2, Option.bind_some, bne_self_eq_false, Bool.false_eq_true, if_false, beq_iff_eq]
         by_cases t1 : ty = [65]
         · subst t1
           rcases v with _ | ⟨c, _ | ⟨d, r⟩⟩
           · simp [tagValSpec, len]
           · simp [tagValSpec, len, idx]
           · simp [tagValSpec, len]; omega
         rw [if_neg t1]
         by_cases t2 : ty = [105]
         · subst t2
           by_cases e : (f v).2 = GoErr.nil <;> simp [tagValSpec, reqA, e]
         rw [if_neg t2]
         by_cases t3 : ty = [102]
         · subst t3
           by_cases e : (g v 64).2 = GoErr.nil <;> simp [tagValSpec, reqP, e]
         rw [if_neg t3]
         by_cases t4 : ty = [90]
         · subst t4; simp [tagValSpec]
         rw [if_neg t4]
         by_cases t5 : ty = [72]
         · subst t5
           by_cases e : (h v).2 = GoErr.nil <;> simp [tagValSpec, reqH, e]
         rw [if_neg t5]
         by_cases t6 : ty = [66]
         · subst t6; simp [tagValSpec]
         rw [if_neg t6]
         rw [tagValSpec_unknown _ _ _ v (by simp [t1, t2, t3, t4, t5, t6])]
         rfl
     · intro s
       rcases s with ⟨_ | _, _⟩ <;> rfl)

/-- a `*SAM` of the translated code: the twelve fields (`Tags` as the association list of the Go map) -/
abbrev SamT := Bytes × Int × Bytes × Int × Int × Bytes × Bytes × Int × Int × Bytes × Bytes × Sam.Tags

set_option synthInstance.maxSize 100000 in
/-- (found in one step; the search through twelve nested products doubles in size at every level) -/
instance instDecidableEqSamT : DecidableEq SamT := by unfold SamT; exact inferInstance

/-- the fields of a model record with the given tag map, as the translated code holds them -/
def tupleOf (s : Sam.Sam) (tags : Sam.Tags) : SamT :=
  (s.qname, s.flag, s.rname, s.pos, s.mapq, s.cigar, s.rnext, s.pnext, s.tlen, s.seq, s.qual, tags)

/-- the translated `parseLine` for arbitrary parameters -/
def lineSpec (h : Bytes → Bytes × GoErr) (f : Bytes → Int × GoErr) (g : Bytes → Int → Bytes × GoErr)
    (line : List Bytes) : Option SamT × GoErr :=
  match line with
  | qn :: fl :: rn :: po :: mq :: cg :: rx :: pn :: tl :: sq :: ql :: tagFields =>
    let r := intsSpec f [fl, po, mq, pn, tl] [0, 0, 0, 0, 0]
    if r.1 ≠ GoErr.nil then (none, r.1)
    else match tagsSpec (reqA f) (reqP g) (reqH h) tagFields [] with
      | none => (none, GoErr.other)
      | some tags => (some (qn, (r.2[0]?).getD 0, rn, (r.2[1]?).getD 0, (r.2[2]?).getD 0, cg, rx,
          (r.2[3]?).getD 0, (r.2[4]?).getD 0, sq, ql, tags), GoErr.nil)
  | _ => (none, GoErr.other)

theorem list5_of_length {α : Type} (l : List α) (h : l.length = 5) : ∃ a b c d e, l = [a, b, c, d, e] := by
  match l, h with
  | [a, b, c, d, e], _ => exact ⟨a, b, c, d, e, rfl⟩

theorem sam_parseLine_eq (hF : GoSrc.sam_parseLine_Found = true) (hI : GoSrc.parseInts_Found = true)
    (hT : GoSrc.parseTags_Found = true) (hS : GoSrc.splitTag_Found = true)
    (h : Bytes → Bytes × GoErr) (f : Bytes → Int × GoErr) (g : Bytes → Int → Bytes × GoErr) (line : List Bytes) :
    GoSrc.sam_parseLine h f g line = some (lineSpec h f g line) := by
  first
  | exact absurd hF (by decide)
  | (unfold GoSrc.sam_parseLine
     simp only [Option.pure_def, Option.bind_eq_bind]
     by_cases hn : line.length < 11
     · have hn' : len line < 11 := by unfold len; omega
       rw [if_pos hn']
       unfold lineSpec
       split
       · simp at hn; omega
       · rfl
     · have hn' : ¬ (len line < 11) := by unfold len; omega
       rw [if_neg hn']
       rcases line with _ | ⟨qn, _ | ⟨fl, _ | ⟨rn, _ | ⟨po, _ | ⟨mq, _ | ⟨cg, _ | ⟨rx, _ | ⟨pn, _ | ⟨tl, _ | ⟨sq, _ | ⟨ql, tagFields⟩⟩⟩⟩⟩⟩⟩⟩⟩⟩⟩ <;>
         try (simp at hn; done)
       have i0 : idx (qn :: fl :: rn :: po :: mq :: cg :: rx :: pn :: tl :: sq :: ql :: tagFields) 0 = some qn := rfl
       have i2 : idx (qn :: fl :: rn :: po :: mq :: cg :: rx :: pn :: tl :: sq :: ql :: tagFields) 2 = some rn := rfl
       have i5 : idx (qn :: fl :: rn :: po :: mq :: cg :: rx :: pn :: tl :: sq :: ql :: tagFields) 5 = some cg := rfl
       have i6 : idx (qn :: fl :: rn :: po :: mq :: cg :: rx :: pn :: tl :: sq :: ql :: tagFields) 6 = some rx := rfl
       have i9 : idx (qn :: fl :: rn :: po :: mq :: cg :: rx :: pn :: tl :: sq :: ql :: tagFields) 9 = some sq := rfl
       have i10 : idx (qn :: fl :: rn :: po :: mq :: cg :: rx :: pn :: tl :: sq :: ql :: tagFields) 10 = some ql := rfl
       have iat : atIdx (qn :: fl :: rn :: po :: mq :: cg :: rx :: pn :: tl :: sq :: ql :: tagFields) [1, 3, 4, 7, 8]
           = some [fl, po, mq, pn, tl] := rfl
       have isl : slice (qn :: fl :: rn :: po :: mq :: cg :: rx :: pn :: tl :: sq :: ql :: tagFields) 11
           (len (qn :: fl :: rn :: po :: mq :: cg :: rx :: pn :: tl :: sq :: ql :: tagFields)) = some tagFields := by
         have := slice_from (qn :: fl :: rn :: po :: mq :: cg :: rx :: pn :: tl :: sq :: ql :: tagFields) 11
         rw [show min ((11 : Nat) : Int) (len (qn :: fl :: rn :: po :: mq :: cg :: rx :: pn :: tl :: sq :: ql :: tagFields)) = 11 by
           simp [len]; omega] at this
         simpa using this
       simp only [i0, i2, i5, i6, i9, i10, iat, isl, Option.bind_some, parseInts_eq hI, parseTags_eq hT hS]
       unfold lineSpec
       simp only [List.length_cons, List.length_nil, if_true, Option.bind_some]
       obtain ⟨a, b, c, d, e, hr⟩ := list5_of_length _ (intsSpec_length f [fl, po, mq, pn, tl] [0, 0, 0, 0, 0])
       generalize intsSpec f [fl, po, mq, pn, tl] [0, 0, 0, 0, 0] = r at hr
       obtain ⟨er, pr⟩ := r
       simp only at hr
       subst hr
       have j0 : idx [a, b, c, d, e] 0 = some a := rfl
       have j1 : idx [a, b, c, d, e] 1 = some b := rfl
       have j2 : idx [a, b, c, d, e] 2 = some c := rfl
       have j3 : idx [a, b, c, d, e] 3 = some d := rfl
       have j4 : idx [a, b, c, d, e] 4 = some e := rfl
       simp only [j0, j1, j2, j3, j4, Option.bind_some]
       by_cases he : er = GoErr.nil
       · subst he
         simp only [bne_self_eq_false, Bool.false_eq_true, if_false, ne_eq, not_true_eq_false]
         cases tagsSpec (reqA f) (reqP g) (reqH h) tagFields [] with
         | none => simp [tagsRes]
         | some tags => simp [tagsRes]
       · simp [he])

end SamP
end Bio.GoSrcLemmas

