/-
  Facts about the two concrete float-token recognisers of `Bio/Model/Float.lean`
  (`FloatTok.samFloat`, `FloatTok.newickDist`) that discharge the hypotheses the codec
  theorems make about their float parameters `pf` / `pd`:

  * a canonical token is non-empty and consists of digits, `.`, `e`, `+`, `-` and the letters
    of `NaN` / `Inf` only — hence free of every SAM / Newick separator byte;
  * `samFloat` / `newickDist` return their argument unchanged (or "zero = no distance"), so
    they are idempotent;
  * `WFVal samFloat (.F t) ↔ isCanonE t`, `DistOK newickDist (some t) ↔ isCanonG t ∧ t ≠ 0, -0`.
-/
import Bio.Model.Float
import Bio.Lemmas.Sam
import Bio.Lemmas.Newick
import Bio.Lemmas.CrossSam
namespace Bio.FloatTok
open Bio

/-! ## The alphabet of canonical tokens -/

/-- Digits, `.`, `e`, `+`, `-`, and the letters `N a I n f`. -/
def okByte (b : UInt8) : Bool :=
  isDigit b || b == 46 || b == 101 || b == 43 || b == 45 ||
  b == 78 || b == 97 || b == 73 || b == 110 || b == 102

theorem isDigit_range {b : UInt8} (h : isDigit b = true) : 48 ≤ b.toNat ∧ b.toNat ≤ 57 := by
  simp only [isDigit, Bool.and_eq_true, decide_eq_true_eq, UInt8.le_iff_toNat_le] at h
  exact h

theorem okByte_of_digit {b : UInt8} (h : isDigit b = true) : okByte b = true := by
  simp [okByte, h]

/-- A byte of the alphabet is none of: TAB LF CR SP `'` `(` `)` `,` `:` `;`. -/
theorem okByte_ne {b : UInt8} (h : okByte b = true) :
    b ≠ 9 ∧ b ≠ 10 ∧ b ≠ 13 ∧ b ≠ 32 ∧ b ≠ 39 ∧ b ≠ 40 ∧ b ≠ 41 ∧ b ≠ 44 ∧ b ≠ 58 ∧ b ≠ 59 := by
  simp only [okByte, Bool.or_eq_true, beq_iff_eq] at h
  rcases h with ((((((((h | h) | h) | h) | h) | h) | h) | h) | h) | h
  · have := isDigit_range h
    refine ⟨?_, ?_, ?_, ?_, ?_, ?_, ?_, ?_, ?_, ?_⟩ <;>
      (intro e; subst e; revert this; decide)
  all_goals (subst h; decide)

/-! ## Pieces of the recognisers -/

theorem allDigits_mem {s : Bytes} (h : allDigits s = true) : ∀ b ∈ s, isDigit b = true := by
  simp only [allDigits, Bool.and_eq_true, List.all_eq_true] at h
  exact h.2

theorem mem_splitOn_pieces (sep : UInt8) (s : Bytes) :
    ∀ b ∈ s, b = sep ∨ ∃ p ∈ splitOn sep s, b ∈ p := by
  induction s with
  | nil => intro b hb; simp at hb
  | cons c rest ih =>
    intro b hb
    by_cases hc : c = sep
    · subst hc
      rcases List.mem_cons.1 hb with h | h
      · exact Or.inl h
      · rcases ih b h with h' | ⟨p, hp, hbp⟩
        · exact Or.inl h'
        · refine Or.inr ⟨p, ?_, hbp⟩
          rw [splitOn_cons_sep]; exact List.mem_cons_of_mem _ hp
    · obtain ⟨p, ps, hp, hcp⟩ := splitOn_cons_ne hc rest
      rw [hcp]
      rcases List.mem_cons.1 hb with h | h
      · subst h; exact Or.inr ⟨b :: p, by simp, by simp⟩
      · rcases ih b h with h' | ⟨q, hq, hbq⟩
        · exact Or.inl h'
        · rw [hp] at hq
          rcases List.mem_cons.1 hq with e | e
          · subst e; exact Or.inr ⟨c :: q, by simp, List.mem_cons_of_mem _ hbq⟩
          · exact Or.inr ⟨q, List.mem_cons_of_mem _ e, hbq⟩

theorem isMantissa_nil : isMantissa [] = false := by decide

theorem isMantissa_bytes {s : Bytes} (h : isMantissa s = true) : ∀ b ∈ s, okByte b = true := by
  intro b hb
  rcases mem_splitOn_pieces 46 s b hb with h46 | ⟨p, hp, hbp⟩
  · subst h46; decide
  · unfold isMantissa at h
    split at h
    · rename_i i hi
      rw [hi] at hp
      simp only [List.mem_singleton] at hp
      subst hp
      exact okByte_of_digit (allDigits_mem h b hbp)
    · rename_i i f hi
      rw [hi] at hp
      simp only [Bool.and_eq_true] at h
      simp only [List.mem_cons, List.not_mem_nil, or_false] at hp
      rcases hp with rfl | rfl
      · exact okByte_of_digit (allDigits_mem h.1 b hbp)
      · exact okByte_of_digit (allDigits_mem h.2 b hbp)
    · exact absurd h (by simp)

theorem isExp_bytes {s : Bytes} (h : isExp s = true) : ∀ b ∈ s, okByte b = true := by
  unfold isExp at h
  split at h
  · rename_i sg ds
    simp only [Bool.and_eq_true, Bool.or_eq_true, beq_iff_eq, List.all_eq_true] at h
    intro b hb
    simp only [List.mem_cons] at hb
    rcases hb with rfl | rfl | hb
    · decide
    · rcases h.1.1 with rfl | rfl <;> decide
    · exact okByte_of_digit (h.2 b hb)
  · exact absurd h (by simp)

theorem splitE_append (s : Bytes) : (splitE s).1 ++ (splitE s).2 = s := by
  induction s with
  | nil => rfl
  | cons b rest ih =>
    unfold splitE
    split
    · rfl
    · simp [ih]

theorem stripSign_cases (s : Bytes) : s = stripSign s ∨ s = 45 :: stripSign s := by
  unfold stripSign
  split
  · exact Or.inr rfl
  · exact Or.inl rfl

theorem isSpecial_cases {s : Bytes} (h : isSpecial s = true) :
    s = [78, 97, 78] ∨ s = [43, 73, 110, 102] ∨ s = [45, 73, 110, 102] := by
  simpa [isSpecial, or_assoc] using h

/-! ## 1. Structural facts about canonical tokens -/

/-- Every `'e'`-canonical token is `%v`-canonical. -/
theorem isCanonG_of_isCanonE {t : Bytes} (h : isCanonE t = true) : isCanonG t = true := by
  simp only [isCanonE, isCanonG, Bool.or_eq_true, Bool.and_eq_true] at h ⊢
  rcases h with h | h
  · exact Or.inl h
  · exact Or.inr ⟨h.1.1, Or.inr h.1.2⟩

/-- A `%v`-canonical token is non-empty and built from the alphabet `okByte`. -/
theorem isCanonG_okByte {t : Bytes} (h : isCanonG t = true) :
    t ≠ [] ∧ ∀ b ∈ t, okByte b = true := by
  simp only [isCanonG, Bool.or_eq_true, Bool.and_eq_true] at h
  rcases h with h | ⟨hm, he⟩
  · rcases isSpecial_cases h with rfl | rfl | rfl <;> decide
  · have hs : ∀ b ∈ stripSign t, okByte b = true := by
      intro b hb
      rw [← splitE_append (stripSign t)] at hb
      rcases List.mem_append.1 hb with hb | hb
      · exact isMantissa_bytes hm b hb
      · rcases he with he | he
        · have : (splitE (stripSign t)).2 = [] := by simpa using he
          rw [this] at hb; simp at hb
        · exact isExp_bytes he b hb
    have hne : stripSign t ≠ [] := by
      intro e
      rw [e] at hm
      have : (splitE ([] : Bytes)).1 = [] := rfl
      rw [this, isMantissa_nil] at hm
      exact absurd hm (by simp)
    rcases stripSign_cases t with e | e
    · rw [e]; exact ⟨hne, hs⟩
    · rw [e]
      refine ⟨by simp, ?_⟩
      intro b hb
      rcases List.mem_cons.1 hb with rfl | hb
      · decide
      · exact hs b hb

/-- `%v`-canonical tokens: non-empty; no TAB, LF, CR, colon, space, and no Newick structural
byte, quote or whitespace. -/
theorem isCanonG_bytes (t : Bytes) (h : isCanonG t = true) :
    t ≠ [] ∧ ∀ b ∈ t, b ≠ 9 ∧ b ≠ 10 ∧ b ≠ 13 ∧ b ≠ 58 ∧ b ≠ 32 ∧
      b ≠ 39 ∧ b ≠ 40 ∧ b ≠ 41 ∧ b ≠ 44 ∧ b ≠ 59 := by
  obtain ⟨hne, hb⟩ := isCanonG_okByte h
  refine ⟨hne, fun b hm => ?_⟩
  obtain ⟨h9, h10, h13, h32, h39, h40, h41, h44, h58, h59⟩ := okByte_ne (hb b hm)
  exact ⟨h9, h10, h13, h58, h32, h39, h40, h41, h44, h59⟩

/-- `'e'`-canonical tokens: non-empty; no TAB, LF, CR, colon, space. -/
theorem isCanonE_bytes (t : Bytes) (h : isCanonE t = true) :
    t ≠ [] ∧ ∀ b ∈ t, b ≠ 9 ∧ b ≠ 10 ∧ b ≠ 13 ∧ b ≠ 58 ∧ b ≠ 32 := by
  obtain ⟨hne, hb⟩ := isCanonG_bytes t (isCanonG_of_isCanonE h)
  refine ⟨hne, fun b hm => ?_⟩
  obtain ⟨h9, h10, h13, h58, h32, _⟩ := hb b hm
  exact ⟨h9, h10, h13, h58, h32⟩

theorem isCanonE_textOK {t : Bytes} (h : isCanonE t = true) : Sam.textOK t := by
  intro b hb
  obtain ⟨h9, h10, h13, _⟩ := (isCanonE_bytes t h).2 b hb
  exact ⟨h9, h10, h13⟩

theorem samFloat_eq_some {t t' : Bytes} :
    samFloat t = some t' ↔ isCanonE t = true ∧ t' = t := by
  unfold samFloat
  split
  · rename_i h; simp [h, eq_comm]
  · rename_i h; simp [h]

theorem samFloat_idem {t t' : Bytes} (h : samFloat t = some t') :
    t' = t ∧ samFloat t' = some t' := by
  obtain ⟨hc, rfl⟩ := samFloat_eq_some.1 h
  exact ⟨rfl, h⟩

theorem newickDist_eq_some_some {t d : Bytes} :
    newickDist t = some (some d) ↔
      isCanonG t = true ∧ t ≠ [48] ∧ t ≠ [45, 48] ∧ d = t := by
  unfold newickDist
  by_cases hc : isCanonG t = true
  · by_cases hz : (t == [48] || t == [45, 48]) = true
    · have hz' : t = [48] ∨ t = [45, 48] := by simpa using hz
      simp only [hc, hz]
      rcases hz' with rfl | rfl <;> simp
    · have hz' : ¬ (t = [48] ∨ t = [45, 48]) := by simpa using hz
      have h1 : t ≠ [48] := fun e => hz' (Or.inl e)
      have h2 : t ≠ [45, 48] := fun e => hz' (Or.inr e)
      simp [hc, hz, h1, h2, eq_comm]
  · simp [hc]

theorem newickDist_idem {t d : Bytes} (h : newickDist t = some (some d)) :
    d = t ∧ newickDist d = some (some d) := by
  obtain ⟨_, _, _, rfl⟩ := newickDist_eq_some_some.1 h
  exact ⟨rfl, h⟩

theorem newickDist_zero {t : Bytes} :
    newickDist t = some none ↔ t = [48] ∨ t = [45, 48] := by
  constructor
  · intro h
    unfold newickDist at h
    split at h
    · cases h
    · split at h
      · rename_i hz; simpa using hz
      · cases h
  · rintro (rfl | rfl) <;> decide

/-! ## 2. Discharged hypotheses -/

/-- SAM: the `F` clause of `WFVal` for the concrete codec is just canonicity. -/
theorem wfVal_samFloat_F (t : Bytes) : Sam.WFVal samFloat (.F t) ↔ isCanonE t = true := by
  constructor
  · intro h; exact (samFloat_eq_some.1 h.1).1
  · intro h; exact ⟨samFloat_eq_some.2 ⟨h, rfl⟩, isCanonE_textOK h⟩

/-- The hypothesis `hpf` of `C11_sam_fixed_point` / `Sam.accepted_WF`. -/
theorem hpf_samFloat : ∀ t t', samFloat t = some t' → samFloat t' = some t' :=
  fun _ _ h => (samFloat_idem h).2

/-- Newick: `DistOK` for the concrete parser is canonicity plus "not a spelling of zero". -/
theorem distOK_newickDist (t : Bytes) (h : isCanonG t = true) (hz : t ≠ [48] ∧ t ≠ [45, 48]) :
    Newick.DistOK newickDist (some t) := by
  obtain ⟨hne, hb⟩ := isCanonG_bytes t h
  refine ⟨newickDist_eq_some_some.2 ⟨h, hz.1, hz.2, rfl⟩, hne, fun b hm => ?_⟩
  obtain ⟨h9, h10, h13, h58, h32, h39, h40, h41, h44, h59⟩ := hb b hm
  simp [Newick.isStruct, Newick.isWS, *]

theorem distOK_newickDist_iff (t : Bytes) :
    Newick.DistOK newickDist (some t) ↔ isCanonG t = true ∧ t ≠ [48] ∧ t ≠ [45, 48] := by
  constructor
  · intro h
    obtain ⟨h1, h2, h3, _⟩ := newickDist_eq_some_some.1 h.1
    exact ⟨h1, h2, h3⟩
  · intro h; exact distOK_newickDist t h.1 h.2

/-- The hypothesis `hpd` of `C11_newick_fixed_point` / `Newick.accepted_allDist`. -/
theorem hpd_newickDist : ∀ t d, newickDist t = some (some d) → Newick.DistOK newickDist (some d) := by
  intro t d h
  obtain ⟨h1, h2, h3, rfl⟩ := newickDist_eq_some_some.1 h
  exact distOK_newickDist _ h1 ⟨h2, h3⟩

end Bio.FloatTok

/-! ## Decidable, codec-free forms of the round-trip domains -/

namespace Bio.Sam
open Bio

/-- `WFVal` with the float clause replaced by the decidable canonicity check. -/
def WFValCanon : TagVal → Prop
  | .A c => c ≠ 9 ∧ c ≠ 10 ∧ c ≠ 13
  | .I n => int64Min ≤ n ∧ n ≤ int64Max
  | .F t => FloatTok.isCanonE t = true
  | .Z s => textOK s
  | .H _ => True

/-- `WF` with `WFValCanon` in place of `WFVal pf`: no mention of a float codec. -/
def WFCanon (s : Sam) : Prop :=
  textOK s.qname ∧ textOK s.rname ∧ textOK s.cigar ∧ textOK s.rnext ∧ textOK s.seq ∧
  textOK s.qual ∧ s.qname.head? ≠ some 64 ∧
  (int64Min ≤ s.flag ∧ s.flag ≤ int64Max) ∧ (int64Min ≤ s.pos ∧ s.pos ≤ int64Max) ∧
  (int64Min ≤ s.mapq ∧ s.mapq ≤ int64Max) ∧ (int64Min ≤ s.pnext ∧ s.pnext ≤ int64Max) ∧
  (int64Min ≤ s.tlen ∧ s.tlen ≤ int64Max) ∧
  (∀ p ∈ s.tags, nameOK p.1 ∧ WFValCanon p.2) ∧
  List.Pairwise (fun a b => bytesLt a.1 b.1 = true) s.tags

instance : (v : TagVal) → Decidable (WFValCanon v)
  | .A c => inferInstanceAs (Decidable (c ≠ 9 ∧ c ≠ 10 ∧ c ≠ 13))
  | .I n => inferInstanceAs (Decidable (int64Min ≤ n ∧ n ≤ int64Max))
  | .F t => inferInstanceAs (Decidable (FloatTok.isCanonE t = true))
  | .Z s => inferInstanceAs (Decidable (textOK s))
  | .H _ => inferInstanceAs (Decidable True)
instance (s : Sam) : Decidable (WFCanon s) := inferInstanceAs (Decidable (_ ∧ _))

theorem wfValCanon_iff (v : TagVal) : WFValCanon v ↔ WFVal FloatTok.samFloat v := by
  cases v with
  | A c => exact Iff.rfl
  | I n => exact Iff.rfl
  | F t => exact (FloatTok.wfVal_samFloat_F t).symm
  | Z s => exact Iff.rfl
  | H bs => exact Iff.rfl

theorem wfCanon_iff (s : Sam) : WFCanon s ↔ WF FloatTok.samFloat s := by
  unfold WFCanon WF
  simp only [wfValCanon_iff]

/-- `valClean` without the float clause. -/
def valCleanNF : TagVal → Prop
  | .A c => c ≠ 9 ∧ c ≠ 10 ∧ c ≠ 13
  | .Z s => textOK s
  | _ => True

/-- `Clean` without the float clause: nothing is asked of `F` tokens. -/
def CleanNF (s : Sam) : Prop :=
  textOK s.qname ∧ textOK s.rname ∧ textOK s.cigar ∧ textOK s.rnext ∧ textOK s.seq ∧
  textOK s.qual ∧ ∀ p ∈ s.tags, textOK p.1 ∧ valCleanNF p.2

instance : (v : TagVal) → Decidable (valCleanNF v)
  | .A c => inferInstanceAs (Decidable (c ≠ 9 ∧ c ≠ 10 ∧ c ≠ 13))
  | .I _ => inferInstanceAs (Decidable True)
  | .F _ => inferInstanceAs (Decidable True)
  | .Z s => inferInstanceAs (Decidable (textOK s))
  | .H _ => inferInstanceAs (Decidable True)
instance (s : Sam) : Decidable (CleanNF s) := inferInstanceAs (Decidable (_ ∧ _))

/-- With the concrete codec the float clause of `Clean` is automatic for every record the
reader delivers: an accepted `F` token is canonical, hence free of TAB/CR/LF. -/
theorem accepted_clean_samFloat (e : Ending) (x : Bytes) (s : Sam)
    (hm : Item.ok s ∈ decodeSrc FloatTok.samFloat e x) (hc : CleanNF s) : Clean s := by
  obtain ⟨l, _, _, hp⟩ := header_ok_mem FloatTok.samFloat e x s (mem_dropHeaders hm)
  obtain ⟨_, _, _, _, _, _, _, htags⟩ := parseLine_some hp
  obtain ⟨c1, c2, c3, c4, c5, c6, c7⟩ := hc
  refine ⟨c1, c2, c3, c4, c5, c6, fun p hp' => ⟨(c7 p hp').1, ?_⟩⟩
  have hv := (c7 p hp').2
  have hpv := (htags p hp').2
  cases h : p.2 with
  | A c => rw [h] at hv; exact hv
  | I n => trivial
  | F t =>
    rw [h] at hpv
    obtain ⟨t0, h0⟩ := hpv
    exact FloatTok.isCanonE_textOK
      ((FloatTok.samFloat_eq_some.1 ((FloatTok.samFloat_idem h0).2)).1)
  | Z z => rw [h] at hv; exact hv
  | H bs => trivial

end Bio.Sam

namespace Bio.Newick
open Bio

/-- `DistOK` for the concrete parser, codec-free: absent, or a canonical `%v` token that is
not a spelling of zero (`0`, `-0` mean "no distance" to the reader). -/
def DistCanon (d : Dist) : Prop :=
  match d with
  | none => True
  | some t => FloatTok.isCanonG t = true ∧ t ≠ [48] ∧ t ≠ [45, 48]

instance : (d : Dist) → Decidable (DistCanon d)
  | none => isTrue trivial
  | some t => inferInstanceAs (Decidable (FloatTok.isCanonG t = true ∧ t ≠ [48] ∧ t ≠ [45, 48]))

theorem distCanon_iff (d : Dist) : DistCanon d ↔ DistOK FloatTok.newickDist d := by
  cases d with
  | none => exact Iff.rfl
  | some t => exact (FloatTok.distOK_newickDist_iff t).symm

theorem allDist_canon {t : Tree} (h : t.AllDist DistCanon) :
    t.AllDist (DistOK FloatTok.newickDist) :=
  ⟨(distCanon_iff _).1 h.1, Forest.AllDist.mono (fun d => (distCanon_iff d).1) _ h.2⟩

theorem allDist_canon_iff (t : Tree) :
    t.AllDist DistCanon ↔ t.AllDist (DistOK FloatTok.newickDist) :=
  ⟨allDist_canon, fun h =>
    ⟨(distCanon_iff _).2 h.1, Forest.AllDist.mono (fun d => (distCanon_iff d).2) _ h.2⟩⟩

end Bio.Newick
