/-
  Helper lemmas for C18 with a consumer that may keep state
  (`Bio/Model/IterReadersH.lean`): every history-consumer loop, run with the
  consumer `h`, logs `takeThroughH h acc` of what the corresponding pure-consumer
  loop of the existing models logs when it is never stopped — hence
  `takeThroughH h []` of the item list of the existing decoders.
-/
import Bio.Model.IterReadersH
import Bio.Lemmas.GoSrcIterWrite

namespace Bio.IterH
open Bio Bio.Iter Bio.GoRt Bio.GoSrcLemmas

/-! ## The take-through law for history consumers -/

/-- `it` hands its consumer the items of `L`, in order, up to and including the
first one after which the consumer (asked about everything it was handed so far)
says stop — and nothing after it. -/
def TakeThroughLawH {α : Type} (it : SeqH α) (L : List α) : Prop :=
  ∀ h, it h = takeThroughH h [] L

/-- `takeThroughH` never asks about the empty history. -/
theorem takeThroughH_congr_ne {α : Type} (h g : List α → Bool) (hg : ∀ l, l ≠ [] → h l = g l)
    (xs : List α) : ∀ acc, takeThroughH h acc xs = takeThroughH g acc xs := by
  induction xs with
  | nil => intro acc; rfl
  | cons x xs ih =>
    intro acc
    rw [takeThroughH_cons, takeThroughH_cons, hg (acc ++ [x]) (by simp), ih]

theorem takeThrough_true_consumer' {α : Type} (l : List α) :
    takeThrough (fun x => !(fun _ : α => true) x) l = l :=
  Iter.takeThrough_true_consumer l

/-! ### Consequences of the law, for any iterator -/

theorem lawH_prefix {α : Type} (it : SeqH α) (L : List α) (hl : TakeThroughLawH it L)
    (h : List α → Bool) : it h <+: L := by
  rw [hl h]; exact takeThroughH_prefix h L

theorem lawH_go_on {α : Type} (it : SeqH α) (L : List α) (hl : TakeThroughLawH it L)
    (h : List α → Bool) (i : Nat) (hi : i + 1 < (it h).length) :
    h ((it h).take (i + 1)) = true := by
  rw [hl h] at hi ⊢; exact takeThroughH_go_on h L i hi

theorem lawH_stop {α : Type} (it : SeqH α) (L : List α) (hl : TakeThroughLawH it L)
    (h : List α → Bool) (i : Nat) (hi : i < (it h).length)
    (hf : h ((it h).take (i + 1)) = false) : i + 1 = (it h).length := by
  rw [hl h] at hi hf ⊢; exact takeThroughH_stop h L i hi hf

/-- (a) ∧ (b) ∧ (c) in one statement. -/
theorem lawH_early_stop {α : Type} (it : SeqH α) (L : List α) (hl : TakeThroughLawH it L)
    (h : List α → Bool) :
    it h <+: L
    ∧ (∀ i, i + 1 < (it h).length → h ((it h).take (i + 1)) = true)
    ∧ (∀ i, i < (it h).length → h ((it h).take (i + 1)) = false → i + 1 = (it h).length) :=
  ⟨lawH_prefix it L hl h, lawH_go_on it L hl h, lawH_stop it L hl h⟩

theorem takeThroughH_true {α : Type} (L : List α) :
    ∀ acc, takeThroughH (fun _ : List α => true) acc L = acc ++ L := by
  induction L with
  | nil => intro acc; simp [takeThroughH]
  | cons x xs ih => intro acc; rw [takeThroughH_cons, if_pos rfl, ih]; simp

/-- A consumer that never stops sees the whole run. -/
theorem lawH_all {α : Type} (it : SeqH α) (L : List α) (hl : TakeThroughLawH it L) :
    it (fun _ => true) = L := by
  rw [hl]; simpa using takeThroughH_true L []

/-- The bridge: an iterator with the history law, run with the stateless consumer
`lastH f`, logs what an iterator with the pure law for the same list logs with `f`. -/
theorem lawH_bridge {α : Type} (it : SeqH α) (it0 : Seq α) (L : List α)
    (hl : TakeThroughLawH it L) (hl0 : TakeThroughLaw it0 L) (f : α → Bool) :
    it (lastH f) = it0 f := by
  rw [hl, hl0, takeThroughH_lastH]

/-! ## The base loops -/

section loops
variable {ρ σ : Type} (S : Source ρ σ) (h : List (Item ρ) → Bool) (acc : List (Item ρ)) (s : σ)

theorem iterLoopH_err (hs : S.next s = .err) : iterLoopH S h acc s = acc ++ [.err] := by
  rw [iterLoopH]; split <;> simp_all
theorem iterLoopH_done (hs : S.next s = .done) : iterLoopH S h acc s = acc := by
  rw [iterLoopH]; split <;> simp_all
theorem iterLoopH_item (a : ρ) (s' : σ) (hs : S.next s = .item a s') :
    iterLoopH S h acc s
      = if h (acc ++ [.ok a]) then iterLoopH S h (acc ++ [.ok a]) s' else acc ++ [.ok a] := by
  rw [iterLoopH]; split <;> simp_all

theorem readerLoopH_err (hs : S.next s = .err) : readerLoopH S h acc s = acc ++ [.err] := by
  rw [readerLoopH]; split <;> simp_all
theorem readerLoopH_done (hs : S.next s = .done) : readerLoopH S h acc s = acc := by
  rw [readerLoopH]; split <;> simp_all
theorem readerLoopH_item (a : ρ) (s' : σ) (hs : S.next s = .item a s') :
    readerLoopH S h acc s
      = if h (acc ++ [.ok a]) then readerLoopH S h (acc ++ [.ok a]) s' else acc ++ [.ok a] := by
  rw [readerLoopH]; split <;> simp_all

/-- The log with the history consumer `h` is the uninterrupted log of the
pure-consumer loop, cut right after the first item after which `h` says stop. -/
theorem iterLoopH_log :
    iterLoopH S h acc s = takeThroughH h acc (iterLoop S (fun _ => true) s) := by
  induction hn : S.size s using Nat.strongRecOn generalizing s acc with
  | _ n ih =>
    cases hs : S.next s with
    | err => rw [iterLoopH_err S h acc s hs, iterLoop_err S _ s hs, takeThroughH_singleton]
    | done => rw [iterLoopH_done S h acc s hs, iterLoop_done S _ s hs]; rfl
    | item a s' =>
      have hdec := S.dec s a s' hs
      have ih' := fun acc => ih (S.size s') (hn ▸ hdec) acc s' rfl
      rw [iterLoopH_item S h acc s a s' hs, iterLoop_item S _ s a s' hs, if_pos rfl,
        takeThroughH_cons, ih']

theorem readerLoopH_log :
    readerLoopH S h acc s = takeThroughH h acc (readerLoop S (fun _ => true) s) := by
  induction hn : S.size s using Nat.strongRecOn generalizing s acc with
  | _ n ih =>
    cases hs : S.next s with
    | err => rw [readerLoopH_err S h acc s hs, readerLoop_err S _ s hs, takeThroughH_singleton]
    | done => rw [readerLoopH_done S h acc s hs, readerLoop_done S _ s hs]; rfl
    | item a s' =>
      have hdec := S.dec s a s' hs
      have ih' := fun acc => ih (S.size s') (hn ▸ hdec) acc s' rfl
      rw [readerLoopH_item S h acc s a s' hs, readerLoop_item S _ s a s' hs, if_pos rfl,
        takeThroughH_cons, ih']

/-- The two loop shapes are the same loop. -/
theorem iterLoopH_eq_readerLoopH : iterLoopH S h acc s = readerLoopH S h acc s := by
  rw [iterLoopH_log, readerLoopH_log, iterLoop_eq_readerLoop]

/-- The answer to `yield(nil, err)` is never looked at: consumers that agree on
every history that ends in a record get the same log. -/
theorem iterLoopH_congr (g : List (Item ρ) → Bool)
    (hg : ∀ l a, h (l ++ [.ok a]) = g (l ++ [.ok a])) :
    iterLoopH S h acc s = iterLoopH S g acc s := by
  induction hn : S.size s using Nat.strongRecOn generalizing s acc with
  | _ n ih =>
    cases hs : S.next s with
    | err => rw [iterLoopH_err S h acc s hs, iterLoopH_err S g acc s hs]
    | done => rw [iterLoopH_done S h acc s hs, iterLoopH_done S g acc s hs]
    | item a s' =>
      have hdec := S.dec s a s' hs
      have ih' := fun acc => ih (S.size s') (hn ▸ hdec) acc s' rfl
      rw [iterLoopH_item S h acc s a s' hs, iterLoopH_item S g acc s a s' hs, hg, ih']

theorem readerLoopH_congr (g : List (Item ρ) → Bool)
    (hg : ∀ l a, h (l ++ [.ok a]) = g (l ++ [.ok a])) :
    readerLoopH S h acc s = readerLoopH S g acc s := by
  rw [← iterLoopH_eq_readerLoopH, ← iterLoopH_eq_readerLoopH]; exact iterLoopH_congr S h acc s g hg

end loops

/-! ## The SAM `ReaderHeader` loop -/

section sam
variable {σ : Type} (pf : Bytes → Option Bytes) (S : Source Bytes σ)
  (h : List (Item Sam.Entry) → Bool) (acc : List (Item Sam.Entry)) (s : σ)

theorem samHeaderLoopH_err (hs : S.next s = .err) :
    samHeaderLoopH pf S h acc s = acc ++ [.err] := by
  rw [samHeaderLoopH]; split <;> simp_all
theorem samHeaderLoopH_done (hs : S.next s = .done) : samHeaderLoopH pf S h acc s = acc := by
  rw [samHeaderLoopH]; split <;> simp_all

/-- One turn of the loop on a text line: an empty line is skipped without a
callback; any other line gives the one item `Sam.lineItem`, and the loop goes on
iff the consumer says so — also when that item is a parse error. -/
theorem samHeaderLoopH_item (text : Bytes) (s' : σ) (hs : S.next s = .item text s') :
    samHeaderLoopH pf S h acc s =
      if text = [] then samHeaderLoopH pf S h acc s'
      else if h (acc ++ [Sam.lineItem pf text])
        then samHeaderLoopH pf S h (acc ++ [Sam.lineItem pf text]) s'
        else acc ++ [Sam.lineItem pf text] := by
  rw [samHeaderLoopH]
  split
  · simp_all
  · simp_all
  · rename_i t t' ht
    rw [hs] at ht
    simp only [Pull.item.injEq] at ht
    obtain ⟨rfl, rfl⟩ := ht
    by_cases h0 : text = []
    · simp [h0]
    · simp only [ne_eq, h0, not_false_eq_true, ↓reduceIte]
      split
      · rfl
      · rename_i hne
        have hl : Sam.lineItem pf text
            = match Sam.parseLine pf (splitOn TAB text) with
              | some r => .ok (.sam r)
              | none => .err := by
          unfold Sam.lineItem
          split
          · exact absurd HEq.rfl (hne _ hs rfl)
          · rfl
        rw [hl]
        cases Sam.parseLine pf (splitOn TAB text) <;> rfl

theorem samHeaderLoopH_log :
    samHeaderLoopH pf S h acc s
      = takeThroughH h acc (samHeaderLoop pf S (fun _ => true) s) := by
  induction hn : S.size s using Nat.strongRecOn generalizing s acc with
  | _ n ih =>
    cases hs : S.next s with
    | err =>
      rw [samHeaderLoopH_err pf S h acc s hs, samHeaderLoop_err pf S _ s hs, takeThroughH_singleton]
    | done => rw [samHeaderLoopH_done pf S h acc s hs, samHeaderLoop_done pf S _ s hs]; rfl
    | item text s' =>
      have hdec := S.dec s text s' hs
      have ih' := fun acc => ih (S.size s') (hn ▸ hdec) acc s' rfl
      rw [samHeaderLoopH_item pf S h acc s text s' hs, samHeaderLoop_item pf S _ s text s' hs]
      by_cases h0 : text = []
      · simp only [h0, ↓reduceIte]; exact ih' acc
      · simp only [h0, ↓reduceIte, takeThroughH_cons, ih']

end sam

/-! ## Ranging over an inner iterator -/

theorem runBody_nil {α β : Type} (body : List β → α → List β × Bool) :
    runBody body [] = ([], true) := rfl

/-- One more inner item: the body runs on it with the outer log built so far. -/
theorem runBody_concat {α β : Type} (body : List β → α → List β × Bool) (l : List α) (x : α) :
    runBody body (l ++ [x]) = body (runBody body l).1 x := by
  simp [runBody, List.foldl_append]

theorem foldl_filterMapBodyH_fst {α β : Type} (g : α → Option β) (h : List β → Bool) (l : List α) :
    ∀ st : List β × Bool,
      (l.foldl (fun st x => filterMapBodyH g h st.1 x) st).1 = st.1 ++ l.filterMap g := by
  induction l with
  | nil => intro st; simp
  | cons x xs ih =>
    intro st
    rw [List.foldl_cons, ih]
    cases hg : g x with
    | none => simp [filterMapBodyH, hg]
    | some y => simp [filterMapBodyH, hg]

/-- What the filter-and-map body has handed out after the inner items `l`. -/
theorem runBody_filterMap_fst {α β : Type} (g : α → Option β) (h : List β → Bool) (l : List α) :
    (runBody (filterMapBodyH g h) l).1 = l.filterMap g := by
  simpa [runBody] using foldl_filterMapBodyH_fst g h l ([], true)

/-- The answer of the filter-and-map body on the last inner item. -/
theorem runBody_filterMap_snd {α β : Type} (g : α → Option β) (h : List β → Bool) (l : List α)
    (x : α) :
    (runBody (filterMapBodyH g h) (l ++ [x])).2
      = match g x with
        | none => true
        | some y => h (l.filterMap g ++ [y]) := by
  rw [runBody_concat, runBody_filterMap_fst]
  cases hg : g x <;> simp [filterMapBodyH, hg]

/-- Running the filter-and-map body over a history take-through of `xs` gives the
history take-through of `xs.filterMap g`: items skipped by `continue` give no
callback, do not stop the loop and are not part of the outer consumer's history. -/
theorem runBody_takeThroughH {α β : Type} (g : α → Option β) (h : List β → Bool) (xs : List α) :
    ∀ acc : List α,
      (runBody (filterMapBodyH g h)
          (takeThroughH (fun l => (runBody (filterMapBodyH g h) l).2) acc xs)).1
        = takeThroughH h (acc.filterMap g) (xs.filterMap g) := by
  induction xs with
  | nil => intro acc; simp [takeThroughH, runBody_filterMap_fst]
  | cons x xs ih =>
    intro acc
    rw [takeThroughH_cons, runBody_filterMap_snd]
    cases hg : g x with
    | none =>
      simp only [if_true]
      rw [ih, List.filterMap_append, List.filterMap_cons_none hg, List.filterMap_cons_none hg]
      simp
    | some y =>
      rw [List.filterMap_cons_some hg, takeThroughH_cons]
      by_cases hy : h (acc.filterMap g ++ [y]) = true
      · simp only [hy, if_true]
        rw [ih, List.filterMap_append, List.filterMap_cons_some hg]
        simp
      · simp only [hy, if_false, Bool.false_eq_true]
        rw [runBody_filterMap_fst, List.filterMap_append, List.filterMap_cons_some hg]
        simp

/-- A filtering-and-mapping wrapper over an inner iterator that satisfies the
history law satisfies it too, for the filtered-and-mapped list. -/
theorem wrapFilterMapH_law {α β : Type} (g : α → Option β) (inner : SeqH α) (L : List α)
    (hl : TakeThroughLawH inner L) : TakeThroughLawH (wrapFilterMapH g inner) (L.filterMap g) := by
  intro h
  rw [wrapFilterMapH, rangeOverH, hl]
  simpa using runBody_takeThroughH g h L []

theorem wrapH_eq_filterMap {α : Type} (inner : SeqH α) : wrapH inner = wrapFilterMapH some inner :=
  rfl

/-- `for x := range inner { if !yield(x) { break } }` keeps the law. -/
theorem wrapH_law {α : Type} (inner : SeqH α) (L : List α) (hl : TakeThroughLawH inner L) :
    TakeThroughLawH (wrapH inner) L := by
  have := wrapFilterMapH_law some inner L hl
  rwa [List.filterMap_some] at this

theorem foldl_wrapBody {α : Type} (h : List α → Bool) (l : List α) :
    ∀ st : List α × Bool,
      l.foldl (fun st x => ((st.1 ++ [x], h (st.1 ++ [x])) : List α × Bool)) st
        = (st.1 ++ l, if l = [] then st.2 else h (st.1 ++ l)) := by
  induction l with
  | nil => intro st; simp
  | cons x xs ih =>
    intro st
    rw [List.foldl_cons, ih]
    cases xs <;> simp

/-- For ANY inner iterator: the wrapper calls the inner iterator with the outer
consumer itself — the inner history is the outer history.  (`inner` is handed
`true` for the empty history, about which no iterator ever asks.) -/
theorem wrapH_apply {α : Type} (inner : SeqH α) (h : List α → Bool) :
    wrapH inner h = inner (fun l => if l = [] then true else h l) := by
  have hb : ∀ l : List α,
      runBody (fun out x => ((out ++ [x], h (out ++ [x])) : List α × Bool)) l
        = (l, if l = [] then true else h l) := by
    intro l; simpa [runBody] using foldl_wrapBody h l ([], true)
  simp only [wrapH, rangeOverH, hb]

/-- What the body of sam `Reader` does with one `ReaderHeader` item is
`filterMapBodyH` of `Iter.samPick`. -/
theorem samBodyH_eq (h : List (Item Sam.Sam) → Bool) : samBodyH h = filterMapBodyH samPick h := by
  funext out it
  rcases it with (_ | _) | _ <;> rfl

theorem samWrapH_eq : samWrapH = wrapFilterMapH samPick := by
  funext inner h
  rw [samWrapH, wrapFilterMapH, samBodyH_eq]

theorem samWrapH_law (inner : SeqH (Item Sam.Entry)) (L : List (Item Sam.Entry))
    (hl : TakeThroughLawH inner L) : TakeThroughLawH (samWrapH inner) (Sam.dropHeaders L) := by
  rw [samWrapH_eq, dropHeaders_eq]; exact wrapFilterMapH_law samPick inner L hl

/-! ## `File` -/

theorem fileH_none {ρ : Type} (h : List (Item ρ) → Bool) :
    fileH (none : Option (SeqH (Item ρ))) h = [.err] := rfl

/-- `File` as a whole: one error item for an unopenable path (whatever the consumer
answers), else the law of the wrapped reader. -/
theorem fileH_law {ρ ι : Type} (rd : ι → SeqH (Item ρ)) (items : ι → List (Item ρ))
    (hl : ∀ i, TakeThroughLawH (rd i) (items i)) (o : Option ι) :
    TakeThroughLawH (fileH (o.map rd))
      (match o with | none => [.err] | some i => items i) := by
  intro h
  cases o with
  | none => rw [Option.map_none, fileH_none]; exact (takeThroughH_singleton h [] _).symm
  | some i => exact wrapH_law (rd i) (items i) (hl i) h

/-! ## The readers satisfy the history law, for the item lists of the existing decoders -/

theorem fastaIterH_law (e : Ending) (x : Bytes) :
    TakeThroughLawH (fastaIterH e x) (Fasta.decodeSrc e x) := by
  intro h; rw [fastaIterH, iterLoopH_log, fasta_full]

theorem fastaReaderH_law (e : Ending) (x : Bytes) :
    TakeThroughLawH (fastaReaderH e x) (Fasta.decodeSrc e x) :=
  wrapH_law _ _ (fastaIterH_law e x)

theorem fastqIterH_law (e : Ending) (x : Bytes) :
    TakeThroughLawH (fastqIterH e x) (Fastq.decodeSrc e x) := by
  intro h; rw [fastqIterH, iterLoopH_log, fastq_full]; rfl

theorem fastqReaderH_law (e : Ending) (x : Bytes) :
    TakeThroughLawH (fastqReaderH e x) (Fastq.decodeSrc e x) :=
  wrapH_law _ _ (fastqIterH_law e x)

theorem bedReaderH_law (e : Ending) (x : Bytes) :
    TakeThroughLawH (bedReaderH e x) (Bed.decodeSrc e x) := by
  intro h; rw [bedReaderH, readerLoopH_log, bed_full]; rfl

theorem newickReaderH_law (pd : Bytes → Option Newick.Dist) (e : Ending) (x : Bytes) :
    TakeThroughLawH (newickReaderH pd e x) (Newick.decodeSrc pd e x) := by
  intro h; rw [newickReaderH, readerLoopH_log, newick_full]

theorem samReaderHeaderH_law (pf : Bytes → Option Bytes) (e : Ending) (x : Bytes) :
    TakeThroughLawH (samReaderHeaderH pf e x) (Sam.decodeHeaderSrc pf e x) := by
  intro h; rw [samReaderHeaderH, samHeaderLoopH_log, sam_full]; rfl

theorem samReaderH_law (pf : Bytes → Option Bytes) (e : Ending) (x : Bytes) :
    TakeThroughLawH (samReaderH pf e x) (Sam.decodeSrc pf e x) :=
  samWrapH_law _ _ (samReaderHeaderH_law pf e x)

theorem fastaFileH_law (o : Option Input) :
    TakeThroughLawH (fastaFileH o)
      (match o with | none => [.err] | some i => Fasta.decodeSrc i.1 i.2) := by
  cases o <;> exact fileH_law (fun i : Input => fastaReaderH i.1 i.2) _ (fun i => fastaReaderH_law i.1 i.2) _

theorem fastqFileH_law (o : Option Input) :
    TakeThroughLawH (fastqFileH o)
      (match o with | none => [.err] | some i => Fastq.decodeSrc i.1 i.2) := by
  cases o <;> exact fileH_law (fun i : Input => fastqReaderH i.1 i.2) _ (fun i => fastqReaderH_law i.1 i.2) _

theorem bedFileH_law (o : Option Input) :
    TakeThroughLawH (bedFileH o)
      (match o with | none => [.err] | some i => Bed.decodeSrc i.1 i.2) := by
  cases o <;> exact fileH_law (fun i : Input => bedReaderH i.1 i.2) _ (fun i => bedReaderH_law i.1 i.2) _

theorem newickFileH_law (pd : Bytes → Option Newick.Dist) (o : Option Input) :
    TakeThroughLawH (newickFileH pd o)
      (match o with | none => [.err] | some i => Newick.decodeSrc pd i.1 i.2) := by
  cases o <;> exact fileH_law (fun i : Input => newickReaderH pd i.1 i.2) _ (fun i => newickReaderH_law pd i.1 i.2) _

theorem samFileH_law (pf : Bytes → Option Bytes) (o : Option Input) :
    TakeThroughLawH (samFileH pf o)
      (match o with | none => [.err] | some i => Sam.decodeSrc pf i.1 i.2) := by
  cases o <;> exact fileH_law (fun i : Input => samReaderH pf i.1 i.2) _ (fun i => samReaderH_law pf i.1 i.2) _

theorem samFileHeaderH_law (pf : Bytes → Option Bytes) (o : Option Input) :
    TakeThroughLawH (samFileHeaderH pf o)
      (match o with | none => [.err] | some i => Sam.decodeHeaderSrc pf i.1 i.2) := by
  cases o <;> exact fileH_law (fun i : Input => samReaderHeaderH pf i.1 i.2) _
    (fun i => samReaderHeaderH_law pf i.1 i.2) _

/-! ## The explicit-stack iterators -/

open Bio.Newick in
/-- The history machine logs the history take-through of what the pure machine
logs when never stopped — for every fuel and every stack. -/
theorem travH_log (pre : Bool) (h : List Tree → Bool) (fuel : Nat) :
    ∀ (s : List (Tree × Nat)) (acc : List Tree),
      travH pre h fuel s acc = takeThroughH h acc (trav pre (fun _ => true) fuel s) := by
  induction fuel with
  | zero => intro s acc; simp [travH, trav, takeThroughH]
  | succ fuel ih =>
    intro s acc
    cases s with
    | nil => simp [travH, trav, takeThroughH]
    | cons x s =>
      obtain ⟨n, i⟩ := x
      cases pre <;> cases h0 : (i == 0) <;> cases hl : (i == n.kids.length) <;>
        cases hg : n.kids.get? i <;>
        simp [travH, trav, h0, hl, hg, ih, takeThroughH_cons, takeThroughH]

open Bio.Newick in
theorem traverseH_log (pre : Bool) (h : List Tree → Bool) (t : Tree) :
    traverseH pre h t = takeThroughH h [] (if pre then preRec t else postRec t) := by
  rw [traverseH, travH_log, trav_start pre _ t _ (by omega), takeThrough_true_consumer']

open Bio.Trie in
theorem eachLoopH_log (h : List Bytes → Bool) (fuel : Nat) :
    ∀ (s : List (Bool × T)) (cur : Bytes) (acc : List Bytes),
      eachLoopH h fuel s cur acc = takeThroughH h acc (eachLoop (fun _ => true) fuel s cur) := by
  induction fuel with
  | zero => intro s cur acc; simp [eachLoopH, eachLoop, takeThroughH]
  | succ fuel ih =>
    intro s cur acc
    cases s with
    | nil => simp [eachLoopH, eachLoop, takeThroughH]
    | cons x s =>
      obtain ⟨leaf, rem⟩ := x
      cases hb : (leaf && !cur.isEmpty) <;> cases rem <;> cases s <;>
        simp [eachLoopH, eachLoop, hb, ih, takeThroughH_cons, takeThroughH]

open Bio.Trie in
theorem forEachLogH_log (h : List Bytes → Bool) (t : T) :
    forEachLogH h t = takeThroughH h [] (leaves t) := by
  rw [forEachLogH, eachLoopH_log, eachLoop_start _ t _ (by omega), takeThrough_true_consumer']

open Bio.Sequtil in
theorem canonLoopH_log (h : List Bytes → Bool) (seq rc : Bytes) (k : Nat) :
    ∀ (n i : Nat) (acc : List Bytes),
      canonLoopH h seq rc k i n acc
        = takeThroughH h acc (canonLoop (fun _ => true) seq rc k i n) := by
  intro n
  induction n with
  | zero => intro i acc; simp [canonLoopH, canonLoop, takeThroughH]
  | succ n ih => intro i acc; simp [canonLoopH, canonLoop, ih, takeThroughH_cons]

open Bio.Sequtil in
theorem canonLoopH_eq (h : List Bytes → Bool) (seq rc : Bytes) (k i n : Nat) (acc : List Bytes) :
    canonLoopH h seq rc k i n acc
      = takeThroughH h acc ((List.range n).map fun j => canonItem seq rc k (i + j)) := by
  rw [canonLoopH_log, canonLoop_eq_aux, takeThrough_true_consumer']

end Bio.IterH
