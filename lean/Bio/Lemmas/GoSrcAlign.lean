/-
  The translated Go source of align/{align,global,local}.go (`Bio.Generated.GoSrc`:
  `Matrix_Get`, `decideOnStep`, `traceAlignmentSteps`, `Global`, `argmax`,
  `traceAlignmentStepsLocal`, `Local`) IS the hand-written model `Bio/Model/Align.lean`.
  Generic parts are in `Bio/Lemmas/GoSrcAlign1.lean`.

  Every theorem is guarded by the translator's `<f>_Found` flags: a definition the translator
  no longer recognises becomes a `none` placeholder with `_Found = false`, and the proofs
  then close by `absurd`.
-/
import Bio.Generated.GoSrc
import Bio.Lemmas.GoSrcAlign1

set_option linter.unusedVariables false
set_option linter.unusedSimpArgs false
namespace Bio.GoSrcLemmas
open Bio Bio.GoRt Bio.Generated

/-- a translated `Step` byte as a model step (bytes other than 1, 2, 3 are no step) -/
def decStep (x : UInt8) : Align.Step :=
  if x = 1 then .mch else if x = 2 then .del else if x = 3 then .ins else .none

@[simp] theorem decStep_encStep (s : Align.Step) : decStep (encStep s) = s := by
  cases s <;> rfl

@[simp] theorem map_decStep_encStep (l : List Align.Step) : (l.map encStep).map decStep = l := by
  induction l with
  | nil => rfl
  | cons s l ih => simp [ih]

/-! ## `Get` and `decideOnStep` -/

theorem Matrix_Get_eq (hF : GoSrc.Matrix_Get_Found = true) (m : List (List UInt8 × Int)) (a b : UInt8) :
    GoSrc.Matrix_Get m a b = matOf m a b := by
  first
  | exact absurd hF (by decide)
  | (unfold GoSrc.Matrix_Get matOf mapGet mapHas
     cases h : (List.find? (fun e => e.1 == [a, b]) m) <;> simp [h])

theorem decideOnStep_eq (hF : GoSrc.decideOnStep_Found = true) (x y z : Int) :
    GoSrc.decideOnStep x y z = some (encCell (Align.decideOnStep x y z)) := by
  first
  | exact absurd hF (by decide)
  | (unfold GoSrc.decideOnStep Align.decideOnStep
     by_cases h1 : x ≥ y ∧ x ≥ z
     · have h1a := h1.1
       have h1b := h1.2
       simp [h1a, h1b, encCell, encStep]
     · by_cases h2 : y ≥ z
       · have : ¬ (y ≤ x ∧ z ≤ x) := h1
         simp [h2, this, encCell, encStep]
       · have : ¬ (y ≤ x ∧ z ≤ x) := h1
         simp [h2, this, encCell, encStep])

/-! ## Which matrix entries the DP loop reads -/

/-- the entries read when cell `(i, j)` is filled are present (the gap-open entry is read at flat
index 1 at the latest, so it is counted at every cell but the origin) -/
def alnOkAt (pm : Align.PMat) (a b : Bytes) (i j : Nat) : Bool :=
  (i == 0 && j == 0) ||
    ((pm Align.GAP Align.GAP).isSome
      && (i == 0 || (pm (a.getD (i - 1) 0) Align.GAP).isSome)
      && (j == 0 || (pm Align.GAP (b.getD (j - 1) 0)).isSome)
      && (i == 0 || j == 0 || (pm (a.getD (i - 1) 0) (b.getD (j - 1) 0)).isSome))

def alnOk (pm : Align.PMat) (a b : Bytes) (k : Nat) : Bool :=
  alnOkAt pm a b (k / (b.length + 1)) (k % (b.length + 1))

theorem alnOk_pos (pm : Align.PMat) (a b : Bytes) (i j : Nat) (hj : j < b.length + 1) :
    alnOk pm a b (alnPos (b.length + 1) i j) = alnOkAt pm a b i j := by
  unfold alnOk; rw [alnPos_div _ i j hj, alnPos_mod _ i j hj]

theorem alnOk_one (pm : Align.PMat) (a b : Bytes) (h : alnOk pm a b 1 = true) :
    (pm Align.GAP Align.GAP).isSome = true := by
  obtain ⟨i, j, hj, h1⟩ := alnPos_exists (b.length + 1) 1 (by omega)
  rw [h1, alnOk_pos pm a b i j hj] at h
  have hij : (i == 0 && j == 0) = false := by
    rcases i with _ | i
    · rcases j with _ | j
      · simp [alnPos] at h1
      · simp
    · simp
  simp only [alnOkAt, hij, Bool.false_or, Bool.and_eq_true] at h
  exact h.1.1.1

theorem aln_set_self {α : Type} {l : List α} {k : Nat} {v : α} (h : l[k]? = some v) : l.set k v = l := by
  obtain ⟨hk, hv⟩ := List.getElem?_eq_some_iff.mp h
  rw [← hv]; exact List.set_getElem_self hk

/-- the DP loop reads exactly the model's `needed` entries -/
theorem aln_all_ok (pm : Align.PMat) (a b : Bytes) :
    (List.range' 0 ((a.length + 1) * (b.length + 1))).all (alnOk pm a b)
      = (Align.needed a b).all fun p => (pm p.1 p.2).isSome := by
  rw [Bool.eq_iff_iff]
  simp only [List.all_eq_true, List.mem_range'_1, Nat.zero_add, Nat.zero_le, true_and]
  have hN : (a.length + 1) * (b.length + 1) = a.length * (b.length + 1) + (b.length + 1) := Nat.succ_mul _ _
  constructor
  · intro h p hp
    rcases (Align.mem_needed a b p).1 hp with ⟨rfl, hab⟩ | ⟨x, hx, rfl⟩ | ⟨y, hy, rfl⟩ | ⟨x, hx, y, hy, rfl⟩
    · apply alnOk_one pm a b
      apply h
      rcases hab with ha | hb
      · have : 0 < a.length := List.length_pos_iff.mpr ha
        have := Nat.mul_pos this (show 0 < b.length + 1 by omega)
        omega
      · have : 0 < b.length := List.length_pos_iff.mpr hb
        omega
    · obtain ⟨i, hi, rfl⟩ := List.mem_iff_getElem.mp hx
      have := h (alnPos (b.length + 1) (i + 1) 0) (alnPos_lt _ _ _ _ (by omega) (by omega))
      rw [alnOk_pos pm a b _ _ (by omega)] at this
      simp [alnOkAt, List.getD, hi] at this
      exact this.2
    · obtain ⟨j, hj, rfl⟩ := List.mem_iff_getElem.mp hy
      have := h (alnPos (b.length + 1) 0 (j + 1)) (alnPos_lt _ _ _ _ (by omega) (by omega))
      rw [alnOk_pos pm a b _ _ (by omega)] at this
      simp [alnOkAt, List.getD, hj] at this
      exact this.2
    · obtain ⟨i, hi, rfl⟩ := List.mem_iff_getElem.mp hx
      obtain ⟨j, hj, rfl⟩ := List.mem_iff_getElem.mp hy
      have := h (alnPos (b.length + 1) (i + 1) (j + 1)) (alnPos_lt _ _ _ _ (by omega) (by omega))
      rw [alnOk_pos pm a b _ _ (by omega)] at this
      simp [alnOkAt, List.getD, hi, hj] at this
      exact this.2
  · intro h k hk
    obtain ⟨i, j, hj, rfl⟩ := alnPos_exists (b.length + 1) k (by omega)
    have hi : i < a.length + 1 := alnPos_lt_iff_row _ _ _ _ hj hk
    rw [alnOk_pos pm a b i j hj]
    unfold alnOkAt
    by_cases hij : i = 0 ∧ j = 0
    · simp [hij.1, hij.2]
    · have hgg : (pm Align.GAP Align.GAP).isSome = true := by
        apply h (Align.GAP, Align.GAP)
        rw [Align.mem_needed]
        left
        refine ⟨rfl, ?_⟩
        by_cases hi0 : i = 0
        · right; intro hb; subst hb; simp at hj; omega
        · left; intro ha; subst ha; simp at hi; omega
      have h1 : (i == 0 || (pm (a.getD (i - 1) 0) Align.GAP).isSome) = true := by
        by_cases hi0 : i = 0
        · simp [hi0]
        · have hil : i - 1 < a.length := by omega
          have := h (a[i - 1], Align.GAP) ((Align.mem_needed a b _).2 (Or.inr (Or.inl ⟨_, List.getElem_mem hil, rfl⟩)))
          simp [List.getD, hil, this]
      have h2 : (j == 0 || (pm Align.GAP (b.getD (j - 1) 0)).isSome) = true := by
        by_cases hj0 : j = 0
        · simp [hj0]
        · have hjl : j - 1 < b.length := by omega
          have := h (Align.GAP, b[j - 1]) ((Align.mem_needed a b _).2 (Or.inr (Or.inr (Or.inl ⟨_, List.getElem_mem hjl, rfl⟩))))
          simp [List.getD, hjl, this]
      have h3 : (i == 0 || j == 0 || (pm (a.getD (i - 1) 0) (b.getD (j - 1) 0)).isSome) = true := by
        by_cases hi0 : i = 0
        · simp [hi0]
        · by_cases hj0 : j = 0
          · simp [hj0]
          · have hil : i - 1 < a.length := by omega
            have hjl : j - 1 < b.length := by omega
            have := h (a[i - 1], b[j - 1]) ((Align.mem_needed a b _).2
              (Or.inr (Or.inr (Or.inr ⟨_, List.getElem_mem hil, _, List.getElem_mem hjl, rfl⟩))))
            simp [List.getD, hil, hjl, this]
      rw [hgg, h1, h2, h3]; simp

/-! ## The DP loops -/

theorem aln_enc_ins (s : Int) : encCell ⟨s, .ins⟩ = (s, 3) := rfl
theorem aln_enc_del (s : Int) : encCell ⟨s, .del⟩ = (s, 2) := rfl

theorem aln_ite_yield {α : Type} (c : Prop) [Decidable c] (l : List α) (k : Nat) (x y : α) :
    (if c then some (ForInStep.yield (l.set k x)) else some (ForInStep.yield (l.set k y)))
      = some (ForInStep.yield (l.set k (if c then x else y))) := by
  split <;> rfl

theorem aln_encCell_clamp (c : Align.Cell) :
    encCell (Align.clamp true c) = if c.score < 0 then ((0 : Int), (0 : UInt8)) else encCell c := by
  unfold Align.clamp
  by_cases h : c.score < 0 <;> simp [h, encCell, encStep]


theorem aln_toNat (a b : Bytes) :
    ((len a + 1) * (len b + 1)).toNat = (a.length + 1) * (b.length + 1) := by
  unfold len
  have : ((a.length : Int) + 1) * ((b.length : Int) + 1) = (((a.length + 1) * (b.length + 1) : Nat) : Int) := by
    push_cast; rfl
  rw [this]; exact Int.toNat_natCast _

theorem aln_upTo_replicate (a b : Bytes) :
    upTo (len (List.replicate ((len a + 1) * (len b + 1)).toNat ((0 : Int), (0 : UInt8))))
      = (List.range' 0 ((a.length + 1) * (b.length + 1))).map Int.ofNat := by
  rw [aln_toNat]
  unfold upTo len
  rw [List.length_replicate, Int.toNat_natCast, List.range_eq_range']

/-- `Global` is its DP loop — which yields the flattened model table, or panics when a needed entry is
missing — followed by the traceback -/
theorem Global_dp (hF : GoSrc.Global_Found = true) (hM : GoSrc.Matrix_Get_Found = true)
    (hD : GoSrc.decideOnStep_Found = true) (fuel : Nat) (a b : Bytes) (m : List (List UInt8 × Int)) :
    GoSrc.Global fuel a b m =
      (if (List.range' 0 ((a.length + 1) * (b.length + 1))).all (alnOk (matOf m) a b) then
        some (alnFlat (Align.table (Align.total (matOf m)) false a b) (a.length + 1) (b.length + 1))
       else none).bind fun s => GoSrc.traceAlignmentSteps fuel s (len b + 1) := by
  first
  | exact absurd hF (by decide)
  | (unfold GoSrc.Global
     simp only [Option.pure_def, Option.bind_eq_bind]
     rw [aln_upTo_replicate, aln_toNat]
     rw [aln_dp_loop (alnCellF (Align.table (Align.total (matOf m)) false a b) (b.length + 1))
       (alnOk (matOf m) a b) ((a.length + 1) * (b.length + 1)) _ ?_ _ 0 _ (by omega) (by simp)
       (by intro k' hk'; omega) (by intro k' hk'; omega)
       (by intro k' _ hk'; simp [hk'])]
     · rfl
     · intro k blocks hk hlen hok hprev hzero
       obtain ⟨i, j, hj, rfl⟩ := alnPos_exists (b.length + 1) k (by omega)
       have hi : i < a.length + 1 := alnPos_lt_iff_row _ _ _ _ hj hk
       rw [show Int.ofNat (alnPos (b.length + 1) i j) = ((alnPos (b.length + 1) i j : Nat) : Int) from rfl]
       have hbn : len b + 1 = ((b.length + 1 : Nat) : Int) := by simp [len]
       simp only [hbn, quo_alnPos _ i j hj, rem_alnPos _ i j hj, Option.bind_some]
       have hgg : 2 ≤ alnPos (b.length + 1) i j → ∃ g, matOf m Align.GAP Align.GAP = some g := fun h2 =>
         Option.isSome_iff_exists.mp (alnOk_one _ a b (hok 1 (by omega)))
       have hcur : blocks[alnPos (b.length + 1) i j]? = some (0, 0) := hzero _ (Nat.le_refl _) hk
       have hklt : alnPos (b.length + 1) i j < blocks.length := by omega
       rw [alnOk_pos _ a b i j hj, alnCellF_pos _ _ i j hj]
       rcases i with _ | i <;> rcases j with _ | j
       · -- the origin
         have : blocks.set (alnPos (b.length + 1) 0 0) (encCell (Align.cellAt (Align.table (Align.total (matOf m)) false a b) 0 0)) = blocks := by
           apply aln_set_self; rw [Align.cellAt_zero_zero]; exact hcur
         rw [this]
         simp [alnOkAt]
       · -- first row
         have hjb : j < b.length := by omega
         obtain ⟨y, hbj⟩ : ∃ y, b[j]? = some y := ⟨b[j], List.getElem?_eq_getElem hjb⟩
         have hpl : alnPos (b.length + 1) 0 j < alnPos (b.length + 1) 0 (j + 1) := by
           rw [alnPos_succ_right]; omega
         have hrd : blocks[alnPos (b.length + 1) 0 j]?
             = some (encCell (Align.cellAt (Align.table (Align.total (matOf m)) false a b) 0 j)) := by
           rw [hprev _ hpl, alnCellF_pos _ _ 0 j (by omega)]
         have e1 : ((alnPos (b.length + 1) 0 (j + 1) : Nat) : Int) - 1 = ((alnPos (b.length + 1) 0 j : Nat) : Int) := by
           rw [alnPos_succ_right]; omega
         have e2 : ((j + 1 : Nat) : Int) - 1 = (j : Int) := by omega
         have c1 : ((((0 : Nat) : Int) == 0) && (((j + 1 : Nat) : Int) == 0)) = false := by
           simp; omega
         have c2 : (((0 : Nat) : Int) == 0) = true := by simp
         have hne1 : alnPos (b.length + 1) 0 (j + 1) ≠ alnPos (b.length + 1) 0 j := by omega
         simp only [c1, c2, idx_ofNat, hcur, Option.bind_some, setIdx_ofNat, hklt, if_true,
           List.getElem?_set_self, List.length_set, e1, List.getElem?_set_ne hne1, hrd, e2, hbj,
           Matrix_Get_eq hM, List.set_set, Bool.false_eq_true, if_false]
         rw [Align.cellAt_zero_succ _ false a b j _ hbj]
         have c0 : (((j + 1 : Nat) : Int) == 0) = false := by simp; omega
         have c3 : (((j + 1 : Nat) : Int) == 1) = decide (j = 0) := by
           by_cases h : j = 0 <;> simp [h]; omega
         have hb0 : b.getD j 0 = y := by simp [List.getD, hbj]
         have hG : (255 : UInt8) = Align.GAP := rfl
         simp only [c0, c3, Bool.and_false, Bool.false_eq_true, if_false, hG]
         by_cases hj0 : j = 0
         · subst hj0
           cases hv : matOf m Align.GAP y <;> cases hg : matOf m Align.GAP Align.GAP <;>
             simp [alnOkAt, Align.total, hv, hg, Align.clamp, encCell, encStep, hbj]
         · obtain ⟨g, hg⟩ := hgg (by simp only [alnPos]; omega)
           cases hv : matOf m Align.GAP y <;>
             simp [alnOkAt, Align.total, hv, hg, Align.clamp, encCell, encStep, hj0, hbj]
       · -- first column
         have hia : i < a.length := by omega
         obtain ⟨x, hai⟩ : ∃ x, a[i]? = some x := ⟨a[i], List.getElem?_eq_getElem hia⟩
         have hpl : alnPos (b.length + 1) i 0 < alnPos (b.length + 1) (i + 1) 0 := by
           rw [alnPos_succ_left]; omega
         have hrd : blocks[alnPos (b.length + 1) i 0]?
             = some (encCell (Align.cellAt (Align.table (Align.total (matOf m)) false a b) i 0)) := by
           rw [hprev _ hpl, alnCellF_pos _ _ i 0 (by omega)]
         have e1 : ((alnPos (b.length + 1) (i + 1) 0 : Nat) : Int) - ((b.length + 1 : Nat) : Int)
             = ((alnPos (b.length + 1) i 0 : Nat) : Int) := by
           rw [alnPos_succ_left]; omega
         have e2 : ((i + 1 : Nat) : Int) - 1 = (i : Int) := by omega
         have c0 : (((i + 1 : Nat) : Int) == 0) = false := by simp; omega
         have c2 : (((0 : Nat) : Int) == 0) = true := by simp
         have c3 : (((i + 1 : Nat) : Int) == 1) = decide (i = 0) := by
           by_cases h : i = 0 <;> simp [h]; omega
         have hne1 : alnPos (b.length + 1) (i + 1) 0 ≠ alnPos (b.length + 1) i 0 := by omega
         have hG : (255 : UInt8) = Align.GAP := rfl
         simp only [c0, c2, c3, Bool.false_and, idx_ofNat, hcur, Option.bind_some, setIdx_ofNat, hklt, if_true,
           List.getElem?_set_self, List.length_set, e1, List.getElem?_set_ne hne1, hrd, e2, hai,
           Matrix_Get_eq hM, List.set_set, Bool.false_eq_true, if_false, hG]
         rw [Align.cellAt_succ_zero _ false a b i _ hai]
         by_cases hi0 : i = 0
         · subst hi0
           cases hv : matOf m x Align.GAP <;> cases hg : matOf m Align.GAP Align.GAP <;>
             simp [alnOkAt, Align.total, hv, hg, Align.clamp, encCell, encStep, hai]
         · obtain ⟨g, hg⟩ := hgg (by
             obtain ⟨i', rfl⟩ := Nat.exists_eq_succ_of_ne_zero hi0
             rw [alnPos_succ_left, alnPos_succ_left]; omega)
           cases hv : matOf m x Align.GAP <;>
             simp [alnOkAt, Align.total, hv, hg, Align.clamp, encCell, encStep, hi0, hai]
       · -- the middle of the table
         have hia : i < a.length := by omega
         have hjb : j < b.length := by omega
         obtain ⟨x, hai⟩ : ∃ x, a[i]? = some x := ⟨a[i], List.getElem?_eq_getElem hia⟩
         obtain ⟨y, hbj⟩ : ∃ y, b[j]? = some y := ⟨b[j], List.getElem?_eq_getElem hjb⟩
         have hrdD : blocks[alnPos (b.length + 1) i j]?
             = some (encCell (Align.cellAt (Align.table (Align.total (matOf m)) false a b) i j)) := by
           rw [hprev _ (by rw [alnPos_succ_left, alnPos_succ_right]; omega), alnCellF_pos _ _ i j (by omega)]
         have hrdU : blocks[alnPos (b.length + 1) i (j + 1)]?
             = some (encCell (Align.cellAt (Align.table (Align.total (matOf m)) false a b) i (j + 1))) := by
           rw [hprev _ (by rw [alnPos_succ_left]; omega), alnCellF_pos _ _ i (j + 1) (by omega)]
         have hrdL : blocks[alnPos (b.length + 1) (i + 1) j]?
             = some (encCell (Align.cellAt (Align.table (Align.total (matOf m)) false a b) (i + 1) j)) := by
           rw [hprev _ (by rw [alnPos_succ_right]; omega), alnCellF_pos _ _ (i + 1) j (by omega)]
         have eD : ((alnPos (b.length + 1) (i + 1) (j + 1) : Nat) : Int) - ((b.length + 1 : Nat) : Int) - 1
             = ((alnPos (b.length + 1) i j : Nat) : Int) := by
           rw [alnPos_succ_left, alnPos_succ_right]; omega
         have eD' : ((alnPos (b.length + 1) i (j + 1) : Nat) : Int) - 1
             = ((alnPos (b.length + 1) i j : Nat) : Int) := by
           rw [alnPos_succ_right]; omega
         have eU : ((alnPos (b.length + 1) (i + 1) (j + 1) : Nat) : Int) - ((b.length + 1 : Nat) : Int)
             = ((alnPos (b.length + 1) i (j + 1) : Nat) : Int) := by
           rw [alnPos_succ_left]; omega
         have eL : ((alnPos (b.length + 1) (i + 1) (j + 1) : Nat) : Int) - 1
             = ((alnPos (b.length + 1) (i + 1) j : Nat) : Int) := by
           rw [alnPos_succ_right]; omega
         have e2 : ((i + 1 : Nat) : Int) - 1 = (i : Int) := by omega
         have e3 : ((j + 1 : Nat) : Int) - 1 = (j : Int) := by omega
         have c0 : (((i + 1 : Nat) : Int) == 0) = false := by simp; omega
         have c1 : (((j + 1 : Nat) : Int) == 0) = false := by simp; omega
         have hG : (255 : UInt8) = Align.GAP := rfl
         obtain ⟨g, hg⟩ := hgg (by rw [alnPos_succ_left]; omega)
         simp only [c0, c1, Bool.false_and, idx_ofNat, Option.bind_some, setIdx_ofNat, hklt, if_true,
           eD, eD', eU, eL, hrdD, hrdU, hrdL, e2, e3, hai, hbj,
           Matrix_Get_eq hM, decideOnStep_eq hD, Bool.false_eq_true, if_false, hG, hg, encCell_fst, encCell_snd,
           encStep_ne_two, encStep_ne_three]
         rw [Align.cellAt_succ_succ _ false a b i j _ _ hai hbj]
         generalize Align.cellAt (Align.table (Align.total (matOf m)) false a b) i j = cD
         generalize Align.cellAt (Align.table (Align.total (matOf m)) false a b) i (j + 1) = cU
         generalize Align.cellAt (Align.table (Align.total (matOf m)) false a b) (i + 1) j = cL
         cases h1 : matOf m x y <;> cases h2 : matOf m x Align.GAP <;> cases h3 : matOf m Align.GAP y <;>
           cases hU : (cU.step != Align.Step.del) <;> cases hL : (cL.step != Align.Step.ins) <;>
           simp [alnOkAt, Align.stepCell, Align.total, Align.clamp, h1, h2, h3, hg, hU, hL, hai, hbj])

/-- `Local` is its DP loop — which yields the flattened model table, or panics when a needed entry is
missing — followed by the traceback and the conversion of the start index -/
theorem Local_dp (hF : GoSrc.Local_Found = true) (hM : GoSrc.Matrix_Get_Found = true)
    (hD : GoSrc.decideOnStep_Found = true) (fuel : Nat) (a b : Bytes) (m : List (List UInt8 × Int)) :
    GoSrc.Local fuel a b m =
      (if (List.range' 0 ((a.length + 1) * (b.length + 1))).all (alnOk (matOf m) a b) then
        some (alnFlat (Align.table (Align.total (matOf m)) true a b) (a.length + 1) (b.length + 1))
       else none).bind fun s =>
        (GoSrc.traceAlignmentStepsLocal fuel s (len b + 1)).bind fun r =>
          (quo r.2.1 (len b + 1)).bind fun q => (rem r.2.1 (len b + 1)).bind fun q' =>
            some (r.1, q - 1, q' - 1, r.2.2) := by
  first
  | exact absurd hF (by decide)
  | (unfold GoSrc.Local
     simp only [Option.pure_def, Option.bind_eq_bind]
     rw [aln_upTo_replicate, aln_toNat]
     rw [aln_dp_loop (alnCellF (Align.table (Align.total (matOf m)) true a b) (b.length + 1))
       (alnOk (matOf m) a b) ((a.length + 1) * (b.length + 1)) _ ?_ _ 0 _ (by omega) (by simp)
       (by intro k' hk'; omega) (by intro k' hk'; omega)
       (by intro k' _ hk'; simp [hk'])]
     · rfl
     · intro k blocks hk hlen hok hprev hzero
       obtain ⟨i, j, hj, rfl⟩ := alnPos_exists (b.length + 1) k (by omega)
       have hi : i < a.length + 1 := alnPos_lt_iff_row _ _ _ _ hj hk
       rw [show Int.ofNat (alnPos (b.length + 1) i j) = ((alnPos (b.length + 1) i j : Nat) : Int) from rfl]
       have hbn : len b + 1 = ((b.length + 1 : Nat) : Int) := by simp [len]
       simp only [hbn, quo_alnPos _ i j hj, rem_alnPos _ i j hj, Option.bind_some]
       have hgg : 2 ≤ alnPos (b.length + 1) i j → ∃ g, matOf m Align.GAP Align.GAP = some g := fun h2 =>
         Option.isSome_iff_exists.mp (alnOk_one _ a b (hok 1 (by omega)))
       have hcur : blocks[alnPos (b.length + 1) i j]? = some (0, 0) := hzero _ (Nat.le_refl _) hk
       have hklt : alnPos (b.length + 1) i j < blocks.length := by omega
       rw [alnOk_pos _ a b i j hj, alnCellF_pos _ _ i j hj]
       rcases i with _ | i <;> rcases j with _ | j
       · -- the origin
         have : blocks.set (alnPos (b.length + 1) 0 0) (encCell (Align.cellAt (Align.table (Align.total (matOf m)) true a b) 0 0)) = blocks := by
           apply aln_set_self; rw [Align.cellAt_zero_zero]; exact hcur
         rw [this]
         simp [alnOkAt]
       · -- first row
         have hjb : j < b.length := by omega
         obtain ⟨y, hbj⟩ : ∃ y, b[j]? = some y := ⟨b[j], List.getElem?_eq_getElem hjb⟩
         have hpl : alnPos (b.length + 1) 0 j < alnPos (b.length + 1) 0 (j + 1) := by
           rw [alnPos_succ_right]; omega
         have hrd : blocks[alnPos (b.length + 1) 0 j]?
             = some (encCell (Align.cellAt (Align.table (Align.total (matOf m)) true a b) 0 j)) := by
           rw [hprev _ hpl, alnCellF_pos _ _ 0 j (by omega)]
         have e1 : ((alnPos (b.length + 1) 0 (j + 1) : Nat) : Int) - 1 = ((alnPos (b.length + 1) 0 j : Nat) : Int) := by
           rw [alnPos_succ_right]; omega
         have e2 : ((j + 1 : Nat) : Int) - 1 = (j : Int) := by omega
         have c1 : ((((0 : Nat) : Int) == 0) && (((j + 1 : Nat) : Int) == 0)) = false := by
           simp; omega
         have c2 : (((0 : Nat) : Int) == 0) = true := by simp
         have hne1 : alnPos (b.length + 1) 0 (j + 1) ≠ alnPos (b.length + 1) 0 j := by omega
         simp only [c1, c2, idx_ofNat, hcur, Option.bind_some, setIdx_ofNat, hklt, if_true,
           List.getElem?_set_self, List.length_set, e1, List.getElem?_set_ne hne1, hrd, e2, hbj,
           Matrix_Get_eq hM, List.set_set, Bool.false_eq_true, if_false]
         rw [Align.cellAt_zero_succ _ true a b j _ hbj]
         have c0 : (((j + 1 : Nat) : Int) == 0) = false := by simp; omega
         have c3 : (((j + 1 : Nat) : Int) == 1) = decide (j = 0) := by
           by_cases h : j = 0 <;> simp [h]; omega
         have hb0 : b.getD j 0 = y := by simp [List.getD, hbj]
         have hG : (255 : UInt8) = Align.GAP := rfl
         simp only [c0, c3, Bool.and_false, Bool.false_eq_true, if_false, hG]
         by_cases hj0 : j = 0
         · subst hj0
           cases hv : matOf m Align.GAP y <;> cases hg : matOf m Align.GAP Align.GAP <;>
             (simp [alnOkAt, Align.total, hv, hg, aln_encCell_clamp, aln_enc_ins, aln_enc_del, aln_ite_yield, hbj])
         · obtain ⟨g, hg⟩ := hgg (by simp only [alnPos]; omega)
           cases hv : matOf m Align.GAP y <;>
             (simp [alnOkAt, Align.total, hv, hg, aln_encCell_clamp, aln_enc_ins, aln_enc_del, aln_ite_yield, hj0, hbj] <;> exact aln_ite_yield _ _ _ _ _)
       · -- first column
         have hia : i < a.length := by omega
         obtain ⟨x, hai⟩ : ∃ x, a[i]? = some x := ⟨a[i], List.getElem?_eq_getElem hia⟩
         have hpl : alnPos (b.length + 1) i 0 < alnPos (b.length + 1) (i + 1) 0 := by
           rw [alnPos_succ_left]; omega
         have hrd : blocks[alnPos (b.length + 1) i 0]?
             = some (encCell (Align.cellAt (Align.table (Align.total (matOf m)) true a b) i 0)) := by
           rw [hprev _ hpl, alnCellF_pos _ _ i 0 (by omega)]
         have e1 : ((alnPos (b.length + 1) (i + 1) 0 : Nat) : Int) - ((b.length + 1 : Nat) : Int)
             = ((alnPos (b.length + 1) i 0 : Nat) : Int) := by
           rw [alnPos_succ_left]; omega
         have e2 : ((i + 1 : Nat) : Int) - 1 = (i : Int) := by omega
         have c0 : (((i + 1 : Nat) : Int) == 0) = false := by simp; omega
         have c2 : (((0 : Nat) : Int) == 0) = true := by simp
         have c3 : (((i + 1 : Nat) : Int) == 1) = decide (i = 0) := by
           by_cases h : i = 0 <;> simp [h]; omega
         have hne1 : alnPos (b.length + 1) (i + 1) 0 ≠ alnPos (b.length + 1) i 0 := by omega
         have hG : (255 : UInt8) = Align.GAP := rfl
         simp only [c0, c2, c3, Bool.false_and, idx_ofNat, hcur, Option.bind_some, setIdx_ofNat, hklt, if_true,
           List.getElem?_set_self, List.length_set, e1, List.getElem?_set_ne hne1, hrd, e2, hai,
           Matrix_Get_eq hM, List.set_set, Bool.false_eq_true, if_false, hG]
         rw [Align.cellAt_succ_zero _ true a b i _ hai]
         by_cases hi0 : i = 0
         · subst hi0
           cases hv : matOf m x Align.GAP <;> cases hg : matOf m Align.GAP Align.GAP <;>
             (simp [alnOkAt, Align.total, hv, hg, aln_encCell_clamp, aln_enc_ins, aln_enc_del, aln_ite_yield, hai])
         · obtain ⟨g, hg⟩ := hgg (by
             obtain ⟨i', rfl⟩ := Nat.exists_eq_succ_of_ne_zero hi0
             rw [alnPos_succ_left, alnPos_succ_left]; omega)
           cases hv : matOf m x Align.GAP <;>
             (simp [alnOkAt, Align.total, hv, hg, aln_encCell_clamp, aln_enc_ins, aln_enc_del, aln_ite_yield, hi0, hai] <;> exact aln_ite_yield _ _ _ _ _)
       · -- the middle of the table
         have hia : i < a.length := by omega
         have hjb : j < b.length := by omega
         obtain ⟨x, hai⟩ : ∃ x, a[i]? = some x := ⟨a[i], List.getElem?_eq_getElem hia⟩
         obtain ⟨y, hbj⟩ : ∃ y, b[j]? = some y := ⟨b[j], List.getElem?_eq_getElem hjb⟩
         have hrdD : blocks[alnPos (b.length + 1) i j]?
             = some (encCell (Align.cellAt (Align.table (Align.total (matOf m)) true a b) i j)) := by
           rw [hprev _ (by rw [alnPos_succ_left, alnPos_succ_right]; omega), alnCellF_pos _ _ i j (by omega)]
         have hrdU : blocks[alnPos (b.length + 1) i (j + 1)]?
             = some (encCell (Align.cellAt (Align.table (Align.total (matOf m)) true a b) i (j + 1))) := by
           rw [hprev _ (by rw [alnPos_succ_left]; omega), alnCellF_pos _ _ i (j + 1) (by omega)]
         have hrdL : blocks[alnPos (b.length + 1) (i + 1) j]?
             = some (encCell (Align.cellAt (Align.table (Align.total (matOf m)) true a b) (i + 1) j)) := by
           rw [hprev _ (by rw [alnPos_succ_right]; omega), alnCellF_pos _ _ (i + 1) j (by omega)]
         have eD : ((alnPos (b.length + 1) (i + 1) (j + 1) : Nat) : Int) - ((b.length + 1 : Nat) : Int) - 1
             = ((alnPos (b.length + 1) i j : Nat) : Int) := by
           rw [alnPos_succ_left, alnPos_succ_right]; omega
         have eD' : ((alnPos (b.length + 1) i (j + 1) : Nat) : Int) - 1
             = ((alnPos (b.length + 1) i j : Nat) : Int) := by
           rw [alnPos_succ_right]; omega
         have eU : ((alnPos (b.length + 1) (i + 1) (j + 1) : Nat) : Int) - ((b.length + 1 : Nat) : Int)
             = ((alnPos (b.length + 1) i (j + 1) : Nat) : Int) := by
           rw [alnPos_succ_left]; omega
         have eL : ((alnPos (b.length + 1) (i + 1) (j + 1) : Nat) : Int) - 1
             = ((alnPos (b.length + 1) (i + 1) j : Nat) : Int) := by
           rw [alnPos_succ_right]; omega
         have e2 : ((i + 1 : Nat) : Int) - 1 = (i : Int) := by omega
         have e3 : ((j + 1 : Nat) : Int) - 1 = (j : Int) := by omega
         have c0 : (((i + 1 : Nat) : Int) == 0) = false := by simp; omega
         have c1 : (((j + 1 : Nat) : Int) == 0) = false := by simp; omega
         have hG : (255 : UInt8) = Align.GAP := rfl
         obtain ⟨g, hg⟩ := hgg (by rw [alnPos_succ_left]; omega)
         simp only [c0, c1, Bool.false_and, idx_ofNat, Option.bind_some, setIdx_ofNat, hklt, if_true,
           eD, eD', eU, eL, hrdD, hrdU, hrdL, e2, e3, hai, hbj,
           Matrix_Get_eq hM, decideOnStep_eq hD, Bool.false_eq_true, if_false, hG, hg, encCell_fst, encCell_snd,
           encStep_ne_two, encStep_ne_three]
         rw [Align.cellAt_succ_succ _ true a b i j _ _ hai hbj]
         generalize Align.cellAt (Align.table (Align.total (matOf m)) true a b) i j = cD
         generalize Align.cellAt (Align.table (Align.total (matOf m)) true a b) i (j + 1) = cU
         generalize Align.cellAt (Align.table (Align.total (matOf m)) true a b) (i + 1) j = cL
         cases h1 : matOf m x y <;> cases h2 : matOf m x Align.GAP <;> cases h3 : matOf m Align.GAP y <;>
           cases hU : (cU.step != Align.Step.del) <;> cases hL : (cL.step != Align.Step.ins) <;>
           (simp [alnOkAt, Align.stepCell, Align.total, aln_encCell_clamp, aln_ite_yield, h1, h2, h3, hg, hU, hL, hai, hbj, hklt] <;>
             first | rfl | exact aln_ite_yield _ _ _ _ _))

/-! ## The tracebacks -/

theorem aln_len_flat (t : List (List Align.Cell)) (a b : Bytes) :
    len (alnFlat t (a.length + 1) (b.length + 1))
      = ((alnPos (b.length + 1) (a.length + 1) 0 : Nat) : Int) := by
  simp [len, alnFlat_length, alnPos]

theorem aln_len_flat_pred (t : List (List Align.Cell)) (a b : Bytes) :
    len (alnFlat t (a.length + 1) (b.length + 1)) - 1
      = ((alnPos (b.length + 1) a.length b.length : Nat) : Int) := by
  rw [aln_len_flat, alnPos_succ_left]
  simp only [alnPos]; omega

theorem aln_pos_pred (a b : Bytes) :
    ((alnPos (b.length + 1) (a.length + 1) 0 : Nat) : Int) - 1
      = ((alnPos (b.length + 1) a.length b.length : Nat) : Int) := by
  rw [alnPos_succ_left]
  simp only [alnPos]; omega

theorem aln_makeCap (a b : Bytes) :
    makeCap (α := UInt8) (((b.length + 1 : Nat) : Int) + ((a.length + 1 : Nat) : Int)) = some [] := by
  unfold makeCap
  rw [if_neg (by omega)]

/-- the body of the reversal loop, as translated -/
theorem aln_swap_body (k : Nat) (st : List UInt8) (x y : UInt8) (L : Nat) (hlen : st.length = L)
    (hk : k < L / 2) (hx : st[k]? = some x) (hy : st[L - 1 - k]? = some y) :
    ((idx st (len st - 1 - Int.ofNat k)).bind fun tmp_3 =>
      (idx st (Int.ofNat k)).bind fun tmp_4 =>
        (setIdx st (Int.ofNat k) tmp_3).bind fun steps =>
          (setIdx steps (len st - 1 - Int.ofNat k) tmp_4).bind fun steps => some (ForInStep.yield steps))
      = some (ForInStep.yield ((st.set k y).set (L - 1 - k) x)) := by
  subst hlen
  have e : len st - 1 - Int.ofNat k = ((st.length - 1 - k : Nat) : Int) := by
    simp only [len]; rw [show Int.ofNat k = (k : Int) from rfl]; omega
  rw [e, show Int.ofNat k = (k : Int) from rfl]
  have h1 : k < st.length := by omega
  have h2 : st.length - 1 - k < st.length := by omega
  obtain ⟨_, rfl⟩ := List.getElem?_eq_some_iff.mp hx
  obtain ⟨_, rfl⟩ := List.getElem?_eq_some_iff.mp hy
  simp [idx_ofNat, setIdx_ofNat, h1, h2]

/-- `traceAlignmentSteps` on the flattened global table is the model's traceback -/
theorem traceAlignmentSteps_eq (hF : GoSrc.traceAlignmentSteps_Found = true) (fuel : Nat) (m : Align.Mat)
    (a b : Bytes) (hfuel : a.length + b.length + 1 ≤ fuel) :
    GoSrc.traceAlignmentSteps fuel (alnFlat (Align.table m false a b) (a.length + 1) (b.length + 1)) (len b + 1)
      = some ((Align.globalT m a b).1.map encStep, (Align.globalT m a b).2) := by
  first
  | exact absurd hF (by decide)
  | (unfold GoSrc.traceAlignmentSteps
     simp only [Option.pure_def, Option.bind_eq_bind]
     have hbn : len b + 1 = ((b.length + 1 : Nat) : Int) := by simp [len]
     simp only [hbn, aln_len_flat, aln_pos_pred, quo_alnPos _ _ 0 (Nat.succ_pos _), Option.bind_some,
       aln_makeCap]
     rw [aln_traceG_loop m a b _ ((b.length + 1 : Nat) : Int) rfl rfl _ ?hdone ?hstep (List.range fuel)
       (a.length + b.length + 1) a.length b.length [] false (Nat.le_refl _) (Nat.le_refl _)
       (by simp; omega) (by omega)]
     case hdone => intro x s d; simp
     case hstep =>
       intro x s d k c hk hc
       simp only [idx_ofNat, hc, Option.bind_some]
       have : ((k : Int) > 0) := by omega
       simp only [this, decide_true, Bool.not_true, Bool.false_eq_true, if_false]
       repeat (first | rfl | split)
     simp only [Option.bind_some, List.nil_append, Bool.not_true, Bool.false_eq_true, if_false,
       Int.lt_irrefl]
     rw [aln_reverse_loop _ _ ?hrev]
     case hrev =>
       intro k st x y hlen hk hx hy
       exact aln_swap_body k st x y _ hlen hk hx hy
     simp only [Option.bind_some, idx_ofNat, alnFlat_pos _ _ _ _ _ (Nat.lt_succ_self _) (Nat.lt_succ_self _),
       encCell_fst, Align.globalT, List.map_reverse])

/-- `Global` is the model's `globalP`, for all inputs, including the panic -/
theorem Global_eq (hF : GoSrc.Global_Found = true) (hM : GoSrc.Matrix_Get_Found = true)
    (hD : GoSrc.decideOnStep_Found = true) (hT : GoSrc.traceAlignmentSteps_Found = true)
    (a b : Bytes) (m : List (List UInt8 × Int)) (fuel : Nat) (hfuel : a.length + b.length + 1 ≤ fuel) :
    GoSrc.Global fuel a b m
      = (Align.globalP (matOf m) a b).map fun r => (r.1.map encStep, r.2) := by
  rw [Global_dp hF hM hD, aln_all_ok]
  unfold Align.globalP
  by_cases h : ((Align.needed a b).all fun p => (matOf m p.1 p.2).isSome) = true
  · rw [if_pos h, if_pos h, Option.bind_some, traceAlignmentSteps_eq hT fuel _ a b hfuel]
    rfl
  · rw [if_neg h, if_neg h]; rfl

/-- `argmax` on the flattened table is the flat index of the model's `argmax` -/
theorem argmax_eq (hF : GoSrc.argmax_Found = true) (m : Align.Mat) (loc : Bool) (a b : Bytes) :
    GoSrc.argmax (alnFlat (Align.table m loc a b) (a.length + 1) (b.length + 1))
      = some ((alnPos (b.length + 1) (Align.argmax (Align.table m loc a b)).1
          (Align.argmax (Align.table m loc a b)).2.1 : Nat) : Int) := by
  first
  | exact absurd hF (by decide)
  | (unfold GoSrc.argmax
     simp only [Option.pure_def, Option.bind_eq_bind]
     rw [aln_argmax_loop m loc a b _ ?hbody]
     case hbody =>
       intro k imax c cm h
       simp only [idx_ofNat, h, Option.bind_some]
       split <;> rfl
     rfl)

/-- `traceAlignmentStepsLocal` on the flattened local table is the model's local traceback -/
theorem traceAlignmentStepsLocal_eq (hF : GoSrc.traceAlignmentStepsLocal_Found = true)
    (hA : GoSrc.argmax_Found = true) (fuel : Nat) (m : Align.Mat)
    (a b : Bytes) (hfuel : a.length + b.length + 1 ≤ fuel) :
    ∃ li lj : Nat, li ≤ a.length ∧ lj ≤ b.length ∧
      (li, lj) = (Align.traceL (Align.table m true a b) (a.length + b.length + 1)
          (Align.argmax (Align.table m true a b)).1 (Align.argmax (Align.table m true a b)).2.1
          ((Align.argmax (Align.table m true a b)).1, (Align.argmax (Align.table m true a b)).2.1)).2 ∧
    GoSrc.traceAlignmentStepsLocal fuel (alnFlat (Align.table m true a b) (a.length + 1) (b.length + 1)) (len b + 1)
      = some (if (Align.argmax (Align.table m true a b)).2.2 = 0 then ([], 0, 0) else
          (((Align.traceL (Align.table m true a b) (a.length + b.length + 1)
              (Align.argmax (Align.table m true a b)).1 (Align.argmax (Align.table m true a b)).2.1
              ((Align.argmax (Align.table m true a b)).1, (Align.argmax (Align.table m true a b)).2.1)).1.reverse).map encStep,
            ((alnPos (b.length + 1) li lj : Nat) : Int), (Align.argmax (Align.table m true a b)).2.2)) := by
  first
  | exact absurd hF (by decide)
  | (unfold GoSrc.traceAlignmentStepsLocal
     simp only [Option.pure_def, Option.bind_eq_bind]
     have hbn : len b + 1 = ((b.length + 1 : Nat) : Int) := by simp [len]
     obtain ⟨hmi, hmj⟩ := Align.argmax_table_in_range m true a b
     simp only [hbn, argmax_eq hA, aln_len_flat, quo_alnPos _ _ 0 (Nat.succ_pos _), Option.bind_some,
       aln_makeCap]
     generalize hX : (forIn (m := Option) (List.range fuel) (_ : List UInt8 × Int × Int × Bool) _) = X
     have H : ∃ iend : Nat,
         X = some ([] ++ (Align.traceL (Align.table m true a b) (a.length + b.length + 1)
                (Align.argmax (Align.table m true a b)).1 (Align.argmax (Align.table m true a b)).2.1
                ((Align.argmax (Align.table m true a b)).1, (Align.argmax (Align.table m true a b)).2.1)).1.map encStep,
              (iend : Int),
              ((alnPos (b.length + 1) (Align.traceL (Align.table m true a b) (a.length + b.length + 1)
                (Align.argmax (Align.table m true a b)).1 (Align.argmax (Align.table m true a b)).2.1
                ((Align.argmax (Align.table m true a b)).1, (Align.argmax (Align.table m true a b)).2.1)).2.1
                (Align.traceL (Align.table m true a b) (a.length + b.length + 1)
                (Align.argmax (Align.table m true a b)).1 (Align.argmax (Align.table m true a b)).2.1
                ((Align.argmax (Align.table m true a b)).1, (Align.argmax (Align.table m true a b)).2.1)).2.2 : Nat) : Int), true) ∧
         (Align.traceL (Align.table m true a b) (a.length + b.length + 1)
                (Align.argmax (Align.table m true a b)).1 (Align.argmax (Align.table m true a b)).2.1
                ((Align.argmax (Align.table m true a b)).1, (Align.argmax (Align.table m true a b)).2.1)).2.1 ≤ a.length ∧
         (Align.traceL (Align.table m true a b) (a.length + b.length + 1)
                (Align.argmax (Align.table m true a b)).1 (Align.argmax (Align.table m true a b)).2.1
                ((Align.argmax (Align.table m true a b)).1, (Align.argmax (Align.table m true a b)).2.1)).2.2 ≤ b.length := by
       rw [← hX]
       exact aln_traceL_loop m a b _ ((b.length + 1 : Nat) : Int) rfl rfl _
         (by intro x s la d; simp)
         (by
           intro x s la d k c hk hc hc0
           simp only [idx_ofNat, hc, Option.bind_some, hc0]
           have : ((k : Int) > 0) := by omega
           simp [this])
         (by
           intro x s la d k c hk hc hc0
           simp only [idx_ofNat, hc, Option.bind_some]
           have : ((k : Int) > 0) := by omega
           have h1 : ¬ (c.1 < 0) := by omega
           have h2 : (c.1 == 0) = false := by simp; omega
           simp only [this, decide_true, Bool.not_true, Bool.false_eq_true, if_false, h1, h2]
           repeat (first | rfl | split))
         (List.range fuel) (a.length + b.length + 1) (Align.argmax (Align.table m true a b)).1
         (Align.argmax (Align.table m true a b)).2.1 [] false
         ((Align.argmax (Align.table m true a b)).1, (Align.argmax (Align.table m true a b)).2.1)
         hmi hmj hmi hmj (by simp; omega) (by omega)
     clear hX
     obtain ⟨iend, hloop, hl1, hl2⟩ := H
     refine ⟨_, _, hl1, hl2, rfl, ?_⟩
     rw [hloop]
     have hnn : ¬ ((iend : Int) < 0) := by omega
     have hsc : (Align.cellAt (Align.table m true a b) (Align.argmax (Align.table m true a b)).1
         (Align.argmax (Align.table m true a b)).2.1).score = (Align.argmax (Align.table m true a b)).2.2 :=
       (Align.argmax_spec _).1.symm
     simp only [Option.bind_some, List.nil_append, Bool.not_true, Bool.false_eq_true, if_false, hnn,
       idx_ofNat, alnFlat_pos _ _ _ _ _ (Nat.lt_succ_of_le hmi) (Nat.lt_succ_of_le hmj), encCell_fst, hsc]
     by_cases h0 : (Align.argmax (Align.table m true a b)).2.2 = 0
     · simp [h0]
     · have h0' : ((Align.argmax (Align.table m true a b)).2.2 == 0) = false := by simpa using h0
       simp only [h0', Bool.false_eq_true, if_false, h0]
       rw [aln_reverse_loop _ _ ?hrev]
       case hrev =>
         intro k st x y hlen hk hx hy
         exact aln_swap_body k st x y _ hlen hk hx hy
       simp only [Option.bind_some, List.map_reverse])

/-- `Local` is the model's `localP`, for all inputs, including the panic -/
theorem Local_eq (hF : GoSrc.Local_Found = true) (hM : GoSrc.Matrix_Get_Found = true)
    (hD : GoSrc.decideOnStep_Found = true) (hT : GoSrc.traceAlignmentStepsLocal_Found = true)
    (hA : GoSrc.argmax_Found = true)
    (a b : Bytes) (m : List (List UInt8 × Int)) (fuel : Nat) (hfuel : a.length + b.length + 1 ≤ fuel) :
    GoSrc.Local fuel a b m
      = (Align.localP (matOf m) a b).map fun r => (r.1.map encStep, r.2.1, r.2.2.1, r.2.2.2) := by
  rw [Local_dp hF hM hD, aln_all_ok]
  unfold Align.localP
  by_cases h : ((Align.needed a b).all fun p => (matOf m p.1 p.2).isSome) = true
  · rw [if_pos h, if_pos h, Option.bind_some]
    obtain ⟨li, lj, h1, h2, hl, hT⟩ := traceAlignmentStepsLocal_eq hT hA fuel (Align.total (matOf m)) a b hfuel
    rw [hT]
    have hbn : len b + 1 = ((b.length + 1 : Nat) : Int) := by simp [len]
    by_cases h0 : (Align.argmax (Align.table (Align.total (matOf m)) true a b)).2.2 = 0
    · have q0 := quo_alnPos (b.length + 1) 0 0 (Nat.succ_pos _)
      have r0 := rem_alnPos (b.length + 1) 0 0 (Nat.succ_pos _)
      rw [alnPos_zero] at q0 r0
      simp only [Int.natCast_zero] at q0 r0
      simp only [h0, if_true, Option.bind_some, hbn, q0, r0, Option.map_some, Align.localT_of_zero _ a b h0]
      rfl
    · simp only [h0, if_false, Option.bind_some, hbn, quo_alnPos _ li lj (Nat.lt_succ_of_le h2),
        rem_alnPos _ li lj (Nat.lt_succ_of_le h2), Option.map_some, Align.localT_of_ne_zero _ a b h0]
      rw [← hl]
  · rw [if_neg h, if_neg h]; rfl

end Bio.GoSrcLemmas
