/-
  `(*reader).nextToken` of formats/newick/newick.go, translated from the Go source text on every run
  into `Bio.Generated.GoSrc.newick_nextToken` (the labelled `for { }` loop bounded by `fuel`; the
  receiver's `*bufio.Reader` as a `ByteRd`, its `*bytes.Buffer` as the bytes written since `Reset`),
  IS the hand-written tokenizer `Newick.nextToken` of `Bio.Model.Newick`.

  The loop body is a three-mode machine:
  * quoted  (`quote = true`, flag `afterQuote`)            — `quoted_loop`  against `Newick.quotedTail`;
  * bare    (`quote = false`, buffer non-empty)            — `bare_loop`    against `NwkTok.bGo`;
  * start   (`quote = false`, buffer empty: skipping ws)   — `start_loop`   against `NwkTok.sGo`;
  `NwkTok.sGo e x` is the exact 4-tuple the Go code returns (token, error, reader, buffer), and
  `sGo_agrees` relates it to the model's `Tok`.  The number of loop iterations needed is computed
  exactly (`NwkTok.sCost`), is at most `x.length + 1`, and on a token at most (bytes consumed) + 1.

  Guarded by the translator's `<f>_Found` flags as in `Bio.Lemmas.GoSrc`.
-/
import Bio.Generated.GoSrc
import Bio.Model.Newick
set_option linter.unusedVariables false
set_option linter.unusedSimpArgs false
namespace Bio.GoSrcLemmas
open Bio Bio.GoRt Bio.Generated Bio.Newick

namespace NwkTok

/-- what `nextToken` returns: token, error, and the receiver's fields `r.r`, `r.b` afterwards -/
abbrev Res := Bytes × GoErr × ByteRd × Bytes

/-- the mutable variables of the translated loop: pending `return`, `r.r`, `r.b`, `quote`,
`afterQuote`, the `break loop` flag -/
abbrev St := Option Res × ByteRd × Bytes × Bool × Bool × Bool

/-- one iteration of the translated loop (the body of `GoSrc.newick_nextToken`, verbatim) -/
def step (s : St) : Option (ForInStep St) :=
  let rd := readByte s.2.1
  let b := rd.1
  let err := rd.2.1
  let r' := rd.2.2
  let buf := s.2.2.1
  let q := s.2.2.2.1
  let aq := s.2.2.2.2.1
  let d := s.2.2.2.2.2
  if err != GoErr.nil then
    if (err == GoErr.eof) && ((len buf) > 0) then
      some (.done (none, r', buf, q, aq, true))
    else some (.done (some ([], err, r', buf), r', buf, q, aq, d))
  else if q then
    if b == 39 then some (.yield (none, r', buf ++ [b], q, !aq, d))
    else if aq then some (.done (none, unreadByte r', buf, q, aq, true))
    else some (.yield (none, r', buf ++ [b], q, aq, d))
  else if b == 39 then
    if (len buf) > 0 then some (.done (some ([], GoErr.other, r', buf), r', buf, q, aq, d))
    else some (.yield (none, r', buf ++ [b], true, aq, d))
  else if b == 40 || b == 41 || b == 44 || b == 58 || b == 59 then
    if (len buf) > 0 then some (.done (none, unreadByte r', buf, q, aq, true))
    else some (.done (some ([b], GoErr.nil, r', buf), r', buf, q, aq, d))
  else if b == 32 || b == 9 || b == 10 || b == 13 then
    if (len buf) > 0 then some (.done (none, r', buf, q, aq, true))
    else some (.yield (none, r', buf, q, aq, d))
  else some (.yield (none, r', buf ++ [b], q, aq, d))

/-- what follows the translated loop: a pending `return`, or `return r.b.String(), nil` after
`break loop` (out of fuel = `none`) -/
def fin (s : St) : Option Res :=
  match s.1 with
  | some r => some r
  | none => if s.2.2.2.2.2 = true then some (s.2.2.1, GoErr.nil, s.2.1, s.2.2.1) else none

/-! ### Iterations needed in each mode -/

def qCost : Bool → Bytes → Nat
  | _, [] => 1
  | aq, b :: rest =>
    if b == QUOTE then 1 + qCost (!aq) rest
    else if aq then 1
    else 1 + qCost false rest

def bCost : Bytes → Nat
  | [] => 1
  | b :: rest =>
    if b == QUOTE then 1 else if isStruct b then 1 else if isWS b then 1 else 1 + bCost rest

/-- loop iterations `nextToken` makes on the remaining input `x` (= `ReadByte` calls) -/
def sCost : Bytes → Nat
  | [] => 1
  | b :: rest =>
    if b == QUOTE then 1 + qCost false rest
    else if isStruct b then 1
    else if isWS b then 1 + sCost rest
    else 1 + bCost rest

/-! ### What the Go code returns, exactly -/

/-- inside an unquoted token, `buf` = the token so far (non-empty) -/
def bGo (e : Ending) : Bytes → Bytes → Res
  | buf, [] => match e with
    | .eof => (buf, GoErr.nil, ⟨none, [], e⟩, buf)
    | .fail => ([], GoErr.other, ⟨none, [], e⟩, buf)
  | buf, b :: rest =>
    if b == QUOTE then ([], GoErr.other, ⟨some b, rest, e⟩, buf)
    else if isStruct b then (buf, GoErr.nil, ⟨none, b :: rest, e⟩, buf)
    else if isWS b then (buf, GoErr.nil, ⟨some b, rest, e⟩, buf)
    else bGo e (buf ++ [b]) rest

/-- inside a quoted token, `buf` = the token so far -/
def qGo (e : Ending) (aq : Bool) (buf x : Bytes) : Res :=
  match quotedTail e aq x with
  | some p => (buf ++ p.1, GoErr.nil, ⟨none, p.2, e⟩, buf ++ p.1)
  | none => ([], GoErr.other, ⟨none, [], e⟩, buf ++ x)

/-- a whole call of `nextToken` on the remaining input `x` of a source ending with `e` -/
def sGo (e : Ending) : Bytes → Res
  | [] => ([], endErr e, ⟨none, [], e⟩, [])
  | b :: rest =>
    if b == QUOTE then qGo e false [b] rest
    else if isStruct b then ([b], GoErr.nil, ⟨some b, rest, e⟩, [])
    else if isWS b then sGo e rest
    else bGo e [b] rest

/-- the Go result `r` says what the model's `Tok` says (token, `nil`, exact remaining input /
`io.EOF` with nothing left / an error that is neither) -/
def Agrees (e : Ending) : Tok → Res → Prop
  | .tok t rest, r => r.1 = t ∧ r.2.1 = GoErr.nil ∧ r.2.2.1.rest = rest ∧ r.2.2.1.ending = e
  | .eof, r => r = ([], GoErr.eof, ⟨none, [], e⟩, [])
  | .err, r => r.1 = [] ∧ r.2.1 = GoErr.other ∧ r.2.2.1.ending = e

/-- the model's token stream: `Newick.nextToken` iterated on what it leaves, until it reports the
end of the input (`io.EOF`) or an error; the tokens and how the stream ended -/
def modelTokens (e : Ending) (x : Bytes) : List Bytes × GoErr :=
  match h : nextToken e x with
  | .eof => ([], GoErr.eof)
  | .err => ([], GoErr.other)
  | .tok t rest =>
    have : rest.length < x.length := nextToken_lt e x t rest h
    (t :: (modelTokens e rest).1, (modelTokens e rest).2)
termination_by x.length

/-- the translated `nextToken` called again and again on the same receiver (the reader state and the
buffer `r.b` are carried from call to call, as `read()` does), at most `calls` times, each call
with `fuel` loop iterations: the tokens, and the error that ended the stream (`none` = a call
panicked / ran out of fuel, or `calls` calls did not reach the end) -/
def goLoop (fuel : Nat) : Nat → ByteRd → Bytes → Option (List Bytes × GoErr)
  | 0, _, _ => none
  | calls + 1, r, rb =>
    match GoSrc.newick_nextToken fuel r rb with
    | none => none
    | some (t, err, r', rb') =>
      if err = GoErr.nil then (goLoop fuel calls r' rb').map fun p => (t :: p.1, p.2)
      else some ([], err)

/-- … started on a fresh reader over the input `x` of a source ending with `e` (`newReader`) -/
def goTokens (fuel : Nat) (e : Ending) (x : Bytes) : Option (List Bytes × GoErr) :=
  goLoop fuel fuel ⟨none, x, e⟩ []

end NwkTok

open NwkTok

/-! ## The loops -/

theorem nwk_len_pos (buf : Bytes) (h : buf ≠ []) : (len buf > 0) := by
  cases buf with
  | nil => exact absurd rfl h
  | cons a t => simp [len]

theorem nwk_snoc_ne (buf : Bytes) (b : UInt8) : buf ++ [b] ≠ [] := by simp

theorem qCost_pos (aq : Bool) (x : Bytes) : 1 ≤ qCost aq x := by
  cases x with
  | nil => simp [qCost]
  | cons b rest => simp only [qCost]; split <;> (try split) <;> omega

theorem bCost_pos (x : Bytes) : 1 ≤ bCost x := by
  cases x with
  | nil => simp [bCost]
  | cons b rest => simp only [bCost]; split <;> (try split) <;> (try split) <;> omega

theorem sCost_pos (x : Bytes) : 1 ≤ sCost x := by
  cases x with
  | nil => simp [sCost]
  | cons b rest => simp only [sCost]; split <;> (try split) <;> (try split) <;> omega

section loops
variable (body : Nat → St → Option (ForInStep St)) (hbody : ∀ k s, body k s = step s)
include hbody

theorem quoted_loop (e : Ending) (x : Bytes) : ∀ (l : List Nat) (last : Option UInt8) (buf : Bytes)
    (aq d : Bool), buf ≠ [] → qCost aq x ≤ l.length →
    (forIn l ((none, ⟨last, x, e⟩, buf, true, aq, d) : St) body).bind fin = some (qGo e aq buf x) := by
  induction x with
  | nil =>
    intro l last buf aq d hb hl
    cases l with
    | nil => have := qCost_pos aq []; simp at hl; omega
    | cons k l =>
      have hp := nwk_len_pos buf hb
      cases e <;> simp [hbody, step, readByte, endErr, hp, fin, qGo, quotedTail]
  | cons b rest ih =>
    intro l last buf aq d hb hl
    cases l with
    | nil => have := qCost_pos aq (b :: rest); simp at hl; omega
    | cons k l =>
      simp only [qCost, List.length_cons] at hl
      by_cases hq : b = 39
      · subst hq
        have hl' : qCost (!aq) rest ≤ l.length := by simp [QUOTE] at hl; omega
        have := ih l (some 39) (buf ++ [39]) (!aq) d (by simp) hl'
        simp [hbody, step, readByte, this]
        simp [qGo, quotedTail, QUOTE]
        cases quotedTail e (!aq) rest <;> simp
      · have hq' : (b == QUOTE) = false := by simpa [QUOTE] using hq
        cases aq with
        | true =>
          simp [hbody, step, readByte, unreadByte, hq, fin, qGo, quotedTail, hq']
        | false =>
          have hl' : qCost false rest ≤ l.length := by simp [hq'] at hl; omega
          have := ih l (some b) (buf ++ [b]) false d (by simp) hl'
          simp [hbody, step, readByte, hq, this]
          simp [qGo, quotedTail, hq']
          cases quotedTail e false rest <;> simp

theorem bare_loop (e : Ending) (x : Bytes) : ∀ (l : List Nat) (last : Option UInt8) (buf : Bytes)
    (d : Bool), buf ≠ [] → bCost x ≤ l.length →
    (forIn l ((none, ⟨last, x, e⟩, buf, false, false, d) : St) body).bind fin = some (bGo e buf x) := by
  induction x with
  | nil =>
    intro l last buf d hb hl
    cases l with
    | nil => have := bCost_pos []; simp at hl; omega
    | cons k l =>
      have hp := nwk_len_pos buf hb
      cases e <;> simp [hbody, step, readByte, endErr, hp, fin, bGo]
  | cons b rest ih =>
    intro l last buf d hb hl
    cases l with
    | nil => have := bCost_pos (b :: rest); simp at hl; omega
    | cons k l =>
      have hp := nwk_len_pos buf hb
      simp only [bCost, List.length_cons] at hl
      by_cases hq : b = 39
      · subst hq
        simp [hbody, step, readByte, hp, fin, bGo, QUOTE]
      · have hq' : (b == QUOTE) = false := by simpa [QUOTE] using hq
        cases hs : isStruct b with
        | true =>
          have hs' := hs
          simp only [isStruct] at hs'
          simp [hbody, step, readByte, unreadByte, hp, fin, bGo, hq, hq', hs, hs']
        | false =>
          have hs' := hs
          simp only [isStruct] at hs'
          cases hw : isWS b with
          | true =>
            have hw' := hw
            simp only [isWS] at hw'
            simp [hbody, step, readByte, hp, fin, bGo, hq, hq', hs, hs', hw, hw']
          | false =>
            have hw' := hw
            simp only [isWS] at hw'
            have hl' : bCost rest ≤ l.length := by simp [hq', hs, hw] at hl; omega
            have := ih l (some b) (buf ++ [b]) d (by simp) hl'
            simp [hbody, step, readByte, hp, bGo, hq, hq', hs, hs', hw, hw', this]

theorem start_loop (e : Ending) (x : Bytes) : ∀ (l : List Nat) (last : Option UInt8) (d : Bool),
    sCost x ≤ l.length →
    (forIn l ((none, ⟨last, x, e⟩, [], false, false, d) : St) body).bind fin = some (sGo e x) := by
  induction x with
  | nil =>
    intro l last d hl
    cases l with
    | nil => have := sCost_pos []; simp at hl; omega
    | cons k l =>
      cases e <;> simp [hbody, step, readByte, endErr, fin, sGo, len]
  | cons b rest ih =>
    intro l last d hl
    cases l with
    | nil => have := sCost_pos (b :: rest); simp at hl; omega
    | cons k l =>
      simp only [sCost, List.length_cons] at hl
      by_cases hq : b = 39
      · subst hq
        have hl' : qCost false rest ≤ l.length := by simp [QUOTE] at hl; omega
        have := quoted_loop body hbody e rest l (some 39) [39] false d (by simp) hl'
        simp [hbody, step, readByte, len, sGo, QUOTE, this]
      · have hq' : (b == QUOTE) = false := by simpa [QUOTE] using hq
        cases hs : isStruct b with
        | true =>
          have hs' := hs
          simp only [isStruct] at hs'
          simp [hbody, step, readByte, len, fin, sGo, hq, hq', hs, hs']
        | false =>
          have hs' := hs
          simp only [isStruct] at hs'
          cases hw : isWS b with
          | true =>
            have hw' := hw
            simp only [isWS] at hw'
            have hl' : sCost rest ≤ l.length := by simp [hq', hs, hw] at hl; omega
            have := ih l (some b) d hl'
            simp [hbody, step, readByte, len, sGo, hq, hq', hs, hs', hw, hw', this]
          | false =>
            have hw' := hw
            simp only [isWS] at hw'
            have hl' : bCost rest ≤ l.length := by simp [hq', hs, hw] at hl; omega
            have := bare_loop body hbody e rest l (some b) [b] d (by simp) hl'
            simp [hbody, step, readByte, len, sGo, hq, hq', hs, hs', hw, hw', this]

/-! … and with fewer iterations than `qCost`/`bCost`/`sCost` the loop is not done: out of fuel -/

theorem quoted_short (e : Ending) (x : Bytes) : ∀ (l : List Nat) (last : Option UInt8) (buf : Bytes)
    (aq : Bool), l.length < qCost aq x →
    (forIn l ((none, ⟨last, x, e⟩, buf, true, aq, false) : St) body).bind fin = none := by
  induction x with
  | nil =>
    intro l last buf aq hl
    cases l with
    | nil => simp [fin]
    | cons k l => simp [qCost] at hl
  | cons b rest ih =>
    intro l last buf aq hl
    cases l with
    | nil => simp [fin]
    | cons k l =>
      simp only [qCost, List.length_cons] at hl
      by_cases hq : b = 39
      · subst hq
        have hl' : l.length < qCost (!aq) rest := by simp [QUOTE] at hl; omega
        have := ih l (some 39) (buf ++ [39]) (!aq) hl'
        simp [hbody, step, readByte, this]
      · have hq' : (b == QUOTE) = false := by simpa [QUOTE] using hq
        cases aq with
        | true => simp [hq'] at hl
        | false =>
          have hl' : l.length < qCost false rest := by simp [hq'] at hl; omega
          have := ih l (some b) (buf ++ [b]) false hl'
          simp [hbody, step, readByte, hq, this]

theorem bare_short (e : Ending) (x : Bytes) : ∀ (l : List Nat) (last : Option UInt8) (buf : Bytes),
    l.length < bCost x →
    (forIn l ((none, ⟨last, x, e⟩, buf, false, false, false) : St) body).bind fin = none := by
  induction x with
  | nil =>
    intro l last buf hl
    cases l with
    | nil => simp [fin]
    | cons k l => simp [bCost] at hl
  | cons b rest ih =>
    intro l last buf hl
    cases l with
    | nil => simp [fin]
    | cons k l =>
      simp only [bCost, List.length_cons] at hl
      by_cases hq : b = 39
      · subst hq; simp [QUOTE] at hl
      · have hq' : (b == QUOTE) = false := by simpa [QUOTE] using hq
        cases hs : isStruct b with
        | true => simp [hq', hs] at hl
        | false =>
          have hs' := hs
          simp only [isStruct] at hs'
          cases hw : isWS b with
          | true => simp [hq', hs, hw] at hl
          | false =>
            have hw' := hw
            simp only [isWS] at hw'
            have hl' : l.length < bCost rest := by simp [hq', hs, hw] at hl; omega
            have := ih l (some b) (buf ++ [b]) hl'
            simp [hbody, step, readByte, hq, hq', hs, hs', hw, hw', this]

theorem start_short (e : Ending) (x : Bytes) : ∀ (l : List Nat) (last : Option UInt8),
    l.length < sCost x →
    (forIn l ((none, ⟨last, x, e⟩, [], false, false, false) : St) body).bind fin = none := by
  induction x with
  | nil =>
    intro l last hl
    cases l with
    | nil => simp [fin]
    | cons k l => simp [sCost] at hl
  | cons b rest ih =>
    intro l last hl
    cases l with
    | nil => simp [fin]
    | cons k l =>
      simp only [sCost, List.length_cons] at hl
      by_cases hq : b = 39
      · subst hq
        have hl' : l.length < qCost false rest := by simp [QUOTE] at hl; omega
        have := quoted_short body hbody e rest l (some 39) [39] false hl'
        simp [hbody, step, readByte, len, this]
      · have hq' : (b == QUOTE) = false := by simpa [QUOTE] using hq
        cases hs : isStruct b with
        | true => simp [hq', hs] at hl
        | false =>
          have hs' := hs
          simp only [isStruct] at hs'
          cases hw : isWS b with
          | true =>
            have hw' := hw
            simp only [isWS] at hw'
            have hl' : l.length < sCost rest := by simp [hq', hs, hw] at hl; omega
            have := ih l (some b) hl'
            simp [hbody, step, readByte, len, hq, hq', hs, hs', hw, hw', this]
          | false =>
            have hw' := hw
            simp only [isWS] at hw'
            have hl' : l.length < bCost rest := by simp [hq', hs, hw] at hl; omega
            have := bare_short body hbody e rest l (some b) [b] hl'
            simp [hbody, step, readByte, len, hq, hq', hs, hs', hw, hw', this]

end loops

/-- the translated `nextToken` returns exactly `sGo e x`, as soon as `sCost x ≤ fuel` -/
theorem newick_nextToken_eq (hF : GoSrc.newick_nextToken_Found = true) (fuel : Nat)
    (last : Option UInt8) (x : Bytes) (e : Ending) (rb : Bytes) (hf : sCost x ≤ fuel) :
    GoSrc.newick_nextToken fuel ⟨last, x, e⟩ rb = some (sGo e x) := by
  first
  | exact absurd hF (by decide)
  | (unfold GoSrc.newick_nextToken
     simp only [Option.pure_def, Option.bind_eq_bind]
     have hfin : ∀ (f : St → Option Res), (∀ s, f s = fin s) → ∀ (o : Option St), o.bind f = o.bind fin := by
       intro f hf o; cases o <;> simp [hf]
     rw [hfin _ (by
       intro s
       rcases s with ⟨_ | r, rr, buf, q, aq, _ | _⟩ <;> rfl)]
     exact start_loop _ (by intro k s; rfl) e x (List.range fuel) last false
       (by rw [List.length_range]; exact hf))

/-- … and with less fuel than `sCost x` it reports `none` (no claim): the bound is exact -/
theorem newick_nextToken_short (hF : GoSrc.newick_nextToken_Found = true) (fuel : Nat)
    (last : Option UInt8) (x : Bytes) (e : Ending) (rb : Bytes) (hf : fuel < sCost x) :
    GoSrc.newick_nextToken fuel ⟨last, x, e⟩ rb = none := by
  first
  | exact absurd hF (by decide)
  | (unfold GoSrc.newick_nextToken
     simp only [Option.pure_def, Option.bind_eq_bind]
     have hfin : ∀ (f : St → Option Res), (∀ s, f s = fin s) → ∀ (o : Option St), o.bind f = o.bind fin := by
       intro f hf o; cases o <;> simp [hf]
     rw [hfin _ (by
       intro s
       rcases s with ⟨_ | r, rr, buf, q, aq, _ | _⟩ <;> rfl)]
     exact start_short _ (by intro k s; rfl) e x (List.range fuel) last
       (by rw [List.length_range]; exact hf))

/-! ## Fuel: the iterations needed -/

theorem qCost_le (aq : Bool) (x : Bytes) : qCost aq x ≤ x.length + 1 := by
  induction x generalizing aq with
  | nil => simp [qCost]
  | cons b rest ih =>
    simp only [qCost, List.length_cons]
    split
    · have := ih (!aq); omega
    · split
      · omega
      · have := ih false; omega

theorem bCost_le (x : Bytes) : bCost x ≤ x.length + 1 := by
  induction x with
  | nil => simp [bCost]
  | cons b rest ih =>
    simp only [bCost, List.length_cons]
    split <;> (try split) <;> (try split) <;> omega

theorem sCost_le (x : Bytes) : sCost x ≤ x.length + 1 := by
  induction x with
  | nil => simp [sCost]
  | cons b rest ih =>
    simp only [sCost, List.length_cons]
    have := qCost_le false rest
    have := bCost_le rest
    split <;> (try split) <;> (try split) <;> omega

theorem qCost_tight (e : Ending) (aq : Bool) (x : Bytes) (p : Bytes × Bytes)
    (h : quotedTail e aq x = some p) : qCost aq x + p.2.length ≤ x.length + 1 := by
  induction x generalizing aq p with
  | nil => cases e <;> simp [quotedTail] at h; subst h; simp [qCost]
  | cons b rest ih =>
    simp only [quotedTail] at h
    simp only [qCost, List.length_cons]
    split at h
    · rename_i hq
      simp only [hq, if_true]
      cases hq2 : quotedTail e (!aq) rest with
      | none => simp [hq2] at h
      | some q => simp [hq2] at h; subst h; have := ih _ q hq2; simp; omega
    · rename_i hq
      simp only [hq, if_false]
      split at h
      · rename_i ha
        simp at h; subst h; simp [ha]; omega
      · rename_i ha
        simp only [ha, if_false]
        cases hq2 : quotedTail e false rest with
        | none => simp [hq2] at h
        | some q => simp [hq2] at h; subst h; have := ih _ q hq2; simp; omega

theorem bCost_tight (e : Ending) (x : Bytes) (p : Bytes × Bytes)
    (h : bareTail e x = some (some p)) : bCost x + p.2.length ≤ x.length + 1 := by
  induction x generalizing p with
  | nil => cases e <;> simp [bareTail] at h; subst h; simp [bCost]
  | cons b rest ih =>
    simp only [bareTail] at h
    simp only [bCost, List.length_cons]
    split at h
    · simp at h
    · rename_i hq
      simp only [hq, if_false]
      split at h
      · rename_i hs
        simp at h; subst h; simp [hs]; omega
      · rename_i hs
        simp only [hs, if_false]
        split at h
        · rename_i hw
          simp at h; subst h; simp [hw]; omega
        · rename_i hw
          simp only [hw, if_false]
          cases hq2 : bareTail e rest with
          | none => simp [hq2] at h
          | some o => cases o with
            | none => simp [hq2] at h
            | some q => simp [hq2] at h; subst h; have := ih q hq2; simp; omega

theorem bCost_clean (x : Bytes) (h : ∀ b ∈ x, isStruct b = false ∧ isWS b = false ∧ b ≠ 39) :
    bCost x = x.length + 1 := by
  induction x with
  | nil => simp [bCost]
  | cons b rest ih =>
    have hb := h b (by simp)
    have := ih (fun c hc => h c (by simp [hc]))
    simp [bCost, QUOTE, hb.1, hb.2.1, hb.2.2, this]; omega

/-- a token of ordinary bytes that runs to the end of the input costs one iteration more than it
has bytes (the failed `ReadByte`) -/
theorem sCost_clean (x : Bytes) (h : ∀ b ∈ x, isStruct b = false ∧ isWS b = false ∧ b ≠ 39) :
    sCost x = x.length + 1 := by
  cases x with
  | nil => simp [sCost]
  | cons b rest =>
    have hb := h b (by simp)
    have := bCost_clean rest (fun c hc => h c (by simp [hc]))
    simp [sCost, QUOTE, hb.1, hb.2.1, hb.2.2, this]; omega

/-- on a token, the loop makes at most (bytes consumed) + 1 iterations -/
theorem sCost_tight (e : Ending) (x t rest : Bytes) (h : nextToken e x = .tok t rest) :
    sCost x + rest.length ≤ x.length + 1 := by
  induction x with
  | nil => cases e <;> simp [nextToken] at h
  | cons b r ih =>
    simp only [nextToken] at h
    simp only [sCost, List.length_cons]
    split at h
    · rename_i hq
      simp only [hq, if_true]
      cases hq2 : quotedTail e false r with
      | none => simp [hq2] at h
      | some q =>
        simp [hq2] at h; obtain ⟨_, h2⟩ := h; subst h2
        have := qCost_tight e false r q hq2; omega
    · rename_i hq
      simp only [hq, if_false]
      split at h
      · rename_i hs
        simp at h; obtain ⟨_, h2⟩ := h; subst h2; simp [hs]; omega
      · rename_i hs
        simp only [hs, if_false]
        split at h
        · rename_i hw
          have := ih h; simp [hw]; omega
        · rename_i hw
          simp [hw]
          cases hq2 : bareTail e r with
          | none => simp [hq2] at h
          | some o => cases o with
            | none => simp [hq2] at h
            | some q =>
              simp [hq2] at h; obtain ⟨_, h2⟩ := h; subst h2
              have := bCost_tight e r q hq2; omega

/-! ## The Go result against the model's `Tok` -/

theorem bGo_agrees (e : Ending) (x : Bytes) : ∀ buf : Bytes,
    match bareTail e x with
    | some (some p) => (bGo e buf x).1 = buf ++ p.1 ∧ (bGo e buf x).2.1 = GoErr.nil ∧
        (bGo e buf x).2.2.1.rest = p.2 ∧ (bGo e buf x).2.2.1.ending = e
    | _ => (bGo e buf x).1 = [] ∧ (bGo e buf x).2.1 = GoErr.other ∧ (bGo e buf x).2.2.1.ending = e := by
  induction x with
  | nil => intro buf; cases e <;> simp [bareTail, bGo]
  | cons b rest ih =>
    intro buf
    simp only [bareTail, bGo]
    by_cases hq : (b == QUOTE) = true
    · simp [hq]
    · by_cases hs : isStruct b = true
      · simp [hq, hs]
      · by_cases hw : isWS b = true
        · simp [hq, hs, hw]
        · simp only [hq, hs, hw, if_false, Bool.false_eq_true]
          have := ih (buf ++ [b])
          cases hb : bareTail e rest with
          | none => simp only [hb] at this ⊢; exact this
          | some o =>
            cases o with
            | none => simp only [hb] at this ⊢; exact this
            | some q => simp only [hb] at this ⊢; simpa using this

theorem sGo_agrees (e : Ending) (x : Bytes) : Agrees e (nextToken e x) (sGo e x) := by
  induction x with
  | nil => cases e <;> simp [nextToken, sGo, Agrees, endErr]
  | cons b rest ih =>
    simp only [nextToken, sGo]
    by_cases hq : (b == QUOTE) = true
    · simp only [hq, if_true, qGo]
      cases quotedTail e false rest <;> simp [Agrees]
    · by_cases hs : isStruct b = true
      · simp [hq, hs, Agrees]
      · by_cases hw : isWS b = true
        · simp only [hq, hs, hw, if_false, if_true, Bool.false_eq_true]
          exact ih
        · simp only [hq, hs, hw, if_false, Bool.false_eq_true]
          have := bGo_agrees e rest [b]
          cases hb : bareTail e rest with
          | none => simp only [hb] at this; simpa [Agrees] using this
          | some o =>
            cases o with
            | none => simp only [hb] at this; simpa [Agrees] using this
            | some q => simp only [hb] at this; simpa [Agrees] using this

theorem nextToken_tok_ne_nil (e : Ending) (x t rest : Bytes) (h : nextToken e x = .tok t rest) :
    t ≠ [] := by
  induction x with
  | nil => cases e <;> simp [nextToken] at h
  | cons b r ih =>
    simp only [nextToken] at h
    split at h
    · cases hq2 : quotedTail e false r <;> simp [hq2] at h
      obtain ⟨h1, _⟩ := h; subst h1; simp
    · split at h
      · simp at h; obtain ⟨h1, _⟩ := h; subst h1; simp
      · split at h
        · exact ih h
        · cases hq2 : bareTail e r with
          | none => simp [hq2] at h
          | some o => cases o with
            | none => simp [hq2] at h
            | some q => simp [hq2] at h; obtain ⟨h1, _⟩ := h; subst h1; simp

/-! ## The translated function against the model -/

/-- the translated `nextToken` against the model's: the token and exactly the model's remaining
input / `io.EOF` with nothing left / an error that is neither `nil` nor `io.EOF` -/
theorem newick_nextToken_model (hF : GoSrc.newick_nextToken_Found = true) (x : Bytes) (e : Ending)
    (last : Option UInt8) (rb : Bytes) (fuel : Nat) (hf : sCost x ≤ fuel) :
    match nextToken e x with
    | .tok t rest => ∃ last' rb', GoSrc.newick_nextToken fuel ⟨last, x, e⟩ rb
        = some (t, GoErr.nil, ⟨last', rest, e⟩, rb')
    | .eof => GoSrc.newick_nextToken fuel ⟨last, x, e⟩ rb = some ([], GoErr.eof, ⟨none, [], e⟩, [])
    | .err => ∃ last' rest' rb', GoSrc.newick_nextToken fuel ⟨last, x, e⟩ rb
        = some ([], GoErr.other, ⟨last', rest', e⟩, rb') := by
  rw [newick_nextToken_eq hF fuel last x e rb hf]
  have h := sGo_agrees e x
  generalize sGo e x = r at h
  obtain ⟨t', err, ⟨l', rest', e'⟩, rb'⟩ := r
  cases hn : nextToken e x with
  | eof => simp only [hn, Agrees] at h; simp [h]
  | err =>
    simp only [hn, Agrees] at h
    obtain ⟨h1, h2, h3⟩ := h
    subst h1 h2 h3
    exact ⟨l', rest', rb', rfl⟩
  | tok t rest =>
    simp only [hn, Agrees] at h
    obtain ⟨h1, h2, h3, h4⟩ := h
    subst h1 h2 h3 h4
    exact ⟨l', rb', rfl⟩

/-- whatever the translated loop was given as `last` and buffer, and however much fuel: the first
iteration reads (which sets `last`) before anything can be unread, and the buffer is reset -/
theorem newick_nextToken_indep (hF : GoSrc.newick_nextToken_Found = true) (fuel : Nat) (x : Bytes)
    (e : Ending) (l1 l2 : Option UInt8) (rb1 rb2 : Bytes) :
    GoSrc.newick_nextToken fuel ⟨l1, x, e⟩ rb1 = GoSrc.newick_nextToken fuel ⟨l2, x, e⟩ rb2 := by
  first
  | exact absurd hF (by decide)
  | (unfold GoSrc.newick_nextToken
     simp only [Option.pure_def, Option.bind_eq_bind]
     cases List.range fuel with
     | nil => rfl
     | cons k l =>
       simp only [List.forIn_cons]
       cases x <;> simp [readByte])

theorem modelTokens_eq (e : Ending) (x : Bytes) :
    modelTokens e x = match nextToken e x with
      | .eof => ([], GoErr.eof)
      | .err => ([], GoErr.other)
      | .tok t rest => (t :: (modelTokens e rest).1, (modelTokens e rest).2) := by
  rw [modelTokens]
  split <;> simp [*]

theorem goLoop_model (hF : GoSrc.newick_nextToken_Found = true) (e : Ending) (fuel : Nat) :
    ∀ (calls : Nat) (x : Bytes) (last : Option UInt8) (rb : Bytes),
      x.length + 1 ≤ calls → x.length + 1 ≤ fuel →
      goLoop fuel calls ⟨last, x, e⟩ rb = some (modelTokens e x) := by
  intro calls
  induction calls with
  | zero => intro x last rb h; omega
  | succ n ih =>
    intro x last rb hc hf
    have hm := newick_nextToken_model hF x e last rb fuel (Nat.le_trans (sCost_le x) hf)
    rw [modelTokens_eq]
    cases hn : nextToken e x with
    | eof => simp only [hn] at hm; simp [goLoop, hm]
    | err =>
      simp only [hn] at hm
      obtain ⟨l', r', rb', hm⟩ := hm
      simp [goLoop, hm]
    | tok t rest =>
      simp only [hn] at hm
      obtain ⟨l', rb', hm⟩ := hm
      have hlt := nextToken_lt e x t rest hn
      simp [goLoop, hm, ih rest l' rb' (by omega) (by omega)]

end Bio.GoSrcLemmas
