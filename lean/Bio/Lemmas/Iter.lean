/-
  Helper lemmas for C18: early stop of the explicit-stack / indexed iterators
  (trie `ForEach`, sequtil `CanonicalSubsequences`) and the generic
  `takeThrough` / `runIter` adapter facts.
-/
import Bio.Lemmas.Traverse
import Bio.Model.Trie
import Bio.Model.Sequtil

namespace Bio

/-! ## `takeThrough` -/

theorem takeThrough_isPrefix {α : Type} (p : α → Bool) (l : List α) : takeThrough p l <+: l := by
  induction l with
  | nil => simp [takeThrough]
  | cons x xs ih =>
    rw [takeThrough_cons]
    cases p x <;> simp [ih]

theorem takeThrough_dropLast {α : Type} (p : α → Bool) (l : List α) :
    ∀ x ∈ (takeThrough p l).dropLast, p x = false := by
  induction l with
  | nil => simp [takeThrough]
  | cons x xs ih =>
    rw [takeThrough_cons]
    cases hp : p x with
    | true => simp
    | false =>
      simp only [Bool.false_eq_true, ↓reduceIte]
      cases hq : takeThrough p xs with
      | nil => simp
      | cons y ys =>
        rw [List.dropLast_cons_cons]
        intro z hz
        rcases List.mem_cons.1 hz with rfl | hz
        · exact hp
        · exact ih z (hq ▸ hz)

theorem takeThrough_eq_self {α : Type} (p : α → Bool) (l : List α)
    (h : ∀ x ∈ l, p x = false) : takeThrough p l = l := by
  induction l with
  | nil => rfl
  | cons x xs ih =>
    rw [takeThrough_cons, h x (by simp), ih fun y hy => h y (by simp [hy])]
    simp

theorem takeThrough_getLast {α : Type} (p : α → Bool) (l : List α)
    (h : ∃ x ∈ l, p x = true) : ∃ y, (takeThrough p l).getLast? = some y ∧ p y = true := by
  induction l with
  | nil => simp at h
  | cons x xs ih =>
    rw [takeThrough_cons]
    cases hp : p x with
    | true => exact ⟨x, by simp, hp⟩
    | false =>
      obtain ⟨z, hz, hpz⟩ := h
      have hz' : z ∈ xs := by
        rcases List.mem_cons.1 hz with rfl | hz
        · simp [hp] at hpz
        · exact hz
      obtain ⟨y, hy, hpy⟩ := ih ⟨z, hz', hpz⟩
      refine ⟨y, ?_, hpy⟩
      simp only [Bool.false_eq_true, ↓reduceIte]
      cases hq : takeThrough p xs with
      | nil => simp [hq] at hy
      | cons a as => rw [List.getLast?_cons_cons, ← hq]; exact hy

end Bio

/-! ## Trie `ForEach` -/

namespace Bio.Trie

theorem T.isNil_iff (t : T) : t.isNil = true ↔ t = .nil := by
  cases t <;> simp [T.isNil]

/-- Paths (from the root) to the leaf nodes below a node whose path is `p`
and whose edges are `t`, in edge order.  A child without edges is a leaf. -/
def leavesFrom : Bytes → T → List Bytes
  | _, .nil => []
  | p, .cons k c r =>
    (if c.isNil then [p ++ [k]] else leavesFrom (p ++ [k]) c) ++ leavesFrom p r

/-- The final sequences of a trie.  The root is never a leaf. -/
def leaves (t : T) : List Bytes := leavesFrom [] t

/-- Same as `leavesFrom` with the path kept reversed, as in `eachLoop`. -/
def leavesRev : Bytes → T → List Bytes
  | _, .nil => []
  | cur, .cons k c r =>
    (if c.isNil then [(k :: cur).reverse] else []) ++ leavesRev (k :: cur) c ++ leavesRev cur r

theorem leavesRev_eq (cur : Bytes) (t : T) : leavesRev cur t = leavesFrom cur.reverse t := by
  induction t generalizing cur with
  | nil => rfl
  | cons k c r ih1 ih2 =>
    simp only [leavesRev, leavesFrom, ih1, ih2, List.reverse_cons]
    cases c <;> simp [T.isNil, leavesFrom]

/-- The uninterrupted output still to come from a stack with current path `cur`. -/
def pending : List (Bool × T) → Bytes → List Bytes
  | [], _ => []
  | (leaf, rem) :: s, cur =>
    (if leaf && !cur.isEmpty then [cur.reverse] else []) ++ leavesRev cur rem
      ++ pending s (cur.drop 1)

def work : List (Bool × T) → Nat
  | [] => 0
  | (_, rem) :: s => 2 * rem.size + 1 + work s

/-- A frame flagged as leaf has no edges left. -/
def WF (s : List (Bool × T)) : Prop := ∀ x ∈ s, x.1 = true → x.2 = .nil

theorem eachLoop_eq_pending (f : Bytes → Bool) (fuel : Nat) (s : List (Bool × T)) (cur : Bytes)
    (hwf : WF s) (hfuel : work s ≤ fuel) :
    eachLoop f fuel s cur = takeThrough (fun x => !f x) (pending s cur) := by
  induction fuel generalizing s cur with
  | zero =>
    cases s with
    | nil => simp [eachLoop, pending, takeThrough]
    | cons x s => obtain ⟨l, rem⟩ := x; simp [work] at hfuel
  | succ fuel ih =>
    cases s with
    | nil => simp [eachLoop, pending, takeThrough]
    | cons x s =>
      obtain ⟨leaf, rem⟩ := x
      have hleaf : leaf = true → rem = .nil := hwf (leaf, rem) (by simp)
      have hwfs : WF s := fun y hy => hwf y (by simp [hy])
      cases rem with
      | nil =>
        have hw : work s ≤ fuel := by simp [work, T.size] at hfuel; omega
        have ih' := ih s (cur.drop 1) hwfs hw
        cases s with
        | nil =>
          cases hb : (leaf && !cur.isEmpty) <;> cases hfn : f cur.reverse <;>
            simp [eachLoop, pending, leavesRev, takeThrough_cons, hb, hfn, takeThrough]
        | cons y s =>
          cases hb : (leaf && !cur.isEmpty) <;> cases hfn : f cur.reverse <;>
            simp [eachLoop, pending, leavesRev, takeThrough_cons, hb, hfn] <;>
            simpa [pending] using ih'
      | cons k c r =>
        have hl : leaf = false := by
          cases leaf
          · rfl
          · simp at hleaf
        subst hl
        have hwf' : WF ((c.isNil, c) :: (false, r) :: s) := by
          intro y hy
          simp only [List.mem_cons] at hy
          rcases hy with rfl | rfl | hy
          · exact (T.isNil_iff c).1
          · simp
          · exact hwfs y hy
        have hw : work ((c.isNil, c) :: (false, r) :: s) ≤ fuel := by
          simp only [work, T.size] at hfuel ⊢; omega
        have ih' := ih _ (k :: cur) hwf' hw
        simp [eachLoop, ih', pending, leavesRev]

theorem eachLoop_start (f : Bytes → Bool) (t : T) (fuel : Nat) (h : 2 * t.size + 1 ≤ fuel) :
    eachLoop f fuel [(t.isNil, t)] [] = takeThrough (fun x => !f x) (leaves t) := by
  rw [eachLoop_eq_pending f fuel _ _ ?_ ?_]
  · simp [pending, leaves, leavesRev_eq]
  · intro x hx
    simp only [List.mem_singleton] at hx
    subst hx
    exact (T.isNil_iff t).1
  · simpa [work] using h

theorem leavesFrom_ne_nil (p : Bytes) (t : T) : ∀ x ∈ leavesFrom p t, p.length < x.length := by
  induction t generalizing p with
  | nil => simp [leavesFrom]
  | cons k c r ih1 ih2 =>
    intro x hx
    simp only [leavesFrom, List.mem_append] at hx
    rcases hx with hx | hx
    · split at hx
      · simp at hx; subst hx; simp
      · have := ih1 _ x hx
        simp at this; omega
    · exact ih2 p x hx

end Bio.Trie

/-! ## Sequtil `CanonicalSubsequences` -/

namespace Bio.Sequtil

theorem canonLoop_eq_aux (f : Bytes → Bool) (seq rc : Bytes) (k i n : Nat) :
    canonLoop f seq rc k i n
      = takeThrough (fun x => !f x) ((List.range n).map fun j => canonItem seq rc k (i + j)) := by
  induction n generalizing i with
  | zero => simp [canonLoop, takeThrough]
  | succ n ih =>
    rw [List.range_succ_eq_map]
    simp only [canonLoop, List.map_cons, List.map_map, takeThrough_cons, Nat.add_zero, ih (i + 1)]
    have : ((fun j => canonItem seq rc k (i + j)) ∘ Nat.succ)
        = fun j => canonItem seq rc k (i + 1 + j) := by
      funext j; simp only [Function.comp, Nat.succ_eq_add_one]; congr 1; omega
    rw [this]
    cases f (canonItem seq rc k i) <;> simp

end Bio.Sequtil
