/-
  The translated `parseLine` (formats/bed/bed.go) IS the parametrised model parser
  `BedRd.parseSpec (reqA f) (u8G g)` of `Bio.Lemmas.GoSrcBedRead1`, for arbitrary `strconv` parameters
  `f`, `g` (`go_parseLine_spec`).  The translated code is a chain of join points (one per optional
  field); the proof walks it top-down, one block at a time, proving each block against an abstract
  continuation so that nothing is duplicated.

  Guarded by the translator's `parseLine_Found` flag as in `Bio.Lemmas.GoSrc`.
-/
import Bio.Lemmas.GoSrcBedRead1
set_option linter.unusedVariables false
set_option linter.unusedSimpArgs false
namespace Bio.GoSrcLemmas
open Bio Bio.GoRt Bio.Generated

namespace BedRd

abbrev LoopSt (β : Type) := Option β × List Int × GoErr

theorem list_loop_aux {β : Type} (f : Bytes → Int × GoErr) (R : β) (P : List Bytes)
    (body : Int → LoopSt β → Option (ForInStep (LoopSt β)))
    (hbody : ∀ (i : Nat) (r : Option β) (bs : List Int) (e : GoErr) (s : Bytes), P[i]? = some s →
      body (i : Int) (r, bs, e) = (setIdx bs (i : Int) (f s).1).bind fun bs' =>
        if (f s).2 = GoErr.nil then some (.yield (none, bs', (f s).2))
        else some (.done (some R, bs', (f s).2))) :
    ∀ (suf pre : List Bytes) (done : List Int) (e0 : GoErr), pre ++ suf = P → done.length = pre.length →
      ∃ st, forIn ((List.range' pre.length suf.length).map Int.ofNat)
              ((none, done ++ List.replicate suf.length 0, e0) : LoopSt β) body = some st
        ∧ (match suf.mapM (reqA f) with
           | some l => st.1 = none ∧ st.2.1 = done ++ l
           | none => st.1 = some R) := by
  intro suf
  induction suf with
  | nil =>
    intro pre done e0 _ _
    exact ⟨_, rfl, by simp⟩
  | cons s suf ih =>
    intro pre done e0 hP hlen
    have hs : P[pre.length]? = some s := by rw [← hP]; simp
    simp only [List.length_cons, List.range'_succ, List.map_cons, List.forIn_cons]
    rw [show Int.ofNat pre.length = (pre.length : Int) from rfl, hbody _ _ _ _ _ hs, setIdx_ofNat]
    have hlt : pre.length < (done ++ List.replicate (suf.length + 1) (0 : Int)).length := by simp; omega
    rw [if_pos hlt]
    simp only [Option.bind_some, Option.bind_eq_bind]
    by_cases he : (f s).2 = GoErr.nil
    · rw [if_pos he]
      simp only [Option.bind_some]
      have hset : (done ++ List.replicate (suf.length + 1) (0 : Int)).set pre.length (f s).1
          = (done ++ [(f s).1]) ++ List.replicate suf.length 0 := by
        rw [← hlen, List.replicate_succ]
        simp
      rw [hset]
      obtain ⟨st, h1, h2⟩ := ih (pre ++ [s]) (done ++ [(f s).1]) (f s).2 (by simpa using hP) (by simp [hlen])
      have hl : (pre ++ [s]).length = pre.length + 1 := by simp
      rw [hl] at h1
      refine ⟨st, h1, ?_⟩
      have hr : reqA f s = some (f s).1 := by simp [reqA, he]
      simp only [List.mapM_cons, hr, Option.bind_eq_bind, Option.bind_some, Option.pure_def]
      cases hm : suf.mapM (reqA f) with
      | none => rw [hm] at h2; simpa using h2
      | some l => rw [hm] at h2; simpa using h2
    · rw [if_neg he]
      refine ⟨_, rfl, ?_⟩
      have hr : reqA f s = none := by simp [reqA, he]
      simp [List.mapM_cons, hr]

theorem list_loop {β : Type} (f : Bytes → Int × GoErr) (R : β) (P : List Bytes) (e0 : GoErr)
    (body : Int → LoopSt β → Option (ForInStep (LoopSt β)))
    (hbody : ∀ (i : Nat) (r : Option β) (bs : List Int) (e : GoErr) (s : Bytes), P[i]? = some s →
      body (i : Int) (r, bs, e) = (setIdx bs (i : Int) (f s).1).bind fun bs' =>
        if (f s).2 = GoErr.nil then some (.yield (none, bs', (f s).2))
        else some (.done (some R, bs', (f s).2))) :
    ∃ st, forIn (upTo (len P)) ((none, List.replicate (len P).toNat 0, e0) : LoopSt β) body = some st
      ∧ (match P.mapM (reqA f) with
         | some l => st.1 = none ∧ st.2.1 = l
         | none => st.1 = some R) := by
  have := list_loop_aux f R P body hbody P [] [] e0 rfl rfl
  simpa [upTo, len, List.range_eq_range'] using this

theorem list_loop_elim {β γ : Type} (f : Bytes → Int × GoErr) (R : β) (P : List Bytes) (e0 : GoErr)
    (body : Int → LoopSt β → Option (ForInStep (LoopSt β))) (K : LoopSt β → Option γ) (RHS : Option γ)
    (hbody : ∀ (i : Nat) (r : Option β) (bs : List Int) (e : GoErr) (s : Bytes), P[i]? = some s →
      body (i : Int) (r, bs, e) = (setIdx bs (i : Int) (f s).1).bind fun bs' =>
        if (f s).2 = GoErr.nil then some (.yield (none, bs', (f s).2))
        else some (.done (some R, bs', (f s).2)))
    (hok : ∀ l e, P.mapM (reqA f) = some l → K (none, l, e) = RHS)
    (hbad : ∀ l e, P.mapM (reqA f) = none → K (some R, l, e) = RHS) :
    (forIn (upTo (len P)) ((none, List.replicate (len P).toNat 0, e0) : LoopSt β) body).bind K = RHS := by
  obtain ⟨⟨r, l, e⟩, hst, hm⟩ := list_loop f R P e0 body hbody
  rw [hst, Option.bind_some]
  cases hmm : P.mapM (reqA f) with
  | none =>
    rw [hmm] at hm
    simp only at hm
    rw [hm]; exact hbad l e hmm
  | some l' =>
    rw [hmm] at hm
    simp only at hm
    rw [hm.1, hm.2]; exact hok l' e hmm

theorem list12_of_length {α : Type} (l : List α) (h : l.length = 12) :
    ∃ f0 f1 f2 f3 f4 f5 f6 f7 f8 f9 f10 f11, l = [f0, f1, f2, f3, f4, f5, f6, f7, f8, f9, f10, f11] := by
  match l, h with
  | [f0, f1, f2, f3, f4, f5, f6, f7, f8, f9, f10, f11], _ => exact ⟨f0, f1, f2, f3, f4, f5, f6, f7, f8, f9, f10, f11, rfl⟩

theorem getD_pad (fs : List Bytes) (m i : Nat) :
    ((fs ++ List.replicate m ([] : Bytes))[i]?).getD [] = (fs[i]?).getD [] := by
  by_cases h : i < fs.length
  · rw [List.getElem?_append_left h]
  · rw [List.getElem?_append_right (by omega), List.getElem?_eq_none (by omega : fs.length ≤ i)]
    by_cases h2 : i - fs.length < m
    · simp [List.getElem?_replicate, h2]
    · simp [List.getElem?_replicate, h2]

theorem idx12 (f0 f1 f2 f3 f4 f5 f6 f7 f8 f9 f10 f11 : Bytes) :
    idx [f0, f1, f2, f3, f4, f5, f6, f7, f8, f9, f10, f11] 0 = some f0
    ∧ idx [f0, f1, f2, f3, f4, f5, f6, f7, f8, f9, f10, f11] 1 = some f1
    ∧ idx [f0, f1, f2, f3, f4, f5, f6, f7, f8, f9, f10, f11] 2 = some f2
    ∧ idx [f0, f1, f2, f3, f4, f5, f6, f7, f8, f9, f10, f11] 3 = some f3
    ∧ idx [f0, f1, f2, f3, f4, f5, f6, f7, f8, f9, f10, f11] 4 = some f4
    ∧ idx [f0, f1, f2, f3, f4, f5, f6, f7, f8, f9, f10, f11] 5 = some f5
    ∧ idx [f0, f1, f2, f3, f4, f5, f6, f7, f8, f9, f10, f11] 6 = some f6
    ∧ idx [f0, f1, f2, f3, f4, f5, f6, f7, f8, f9, f10, f11] 7 = some f7
    ∧ idx [f0, f1, f2, f3, f4, f5, f6, f7, f8, f9, f10, f11] 8 = some f8
    ∧ idx [f0, f1, f2, f3, f4, f5, f6, f7, f8, f9, f10, f11] 9 = some f9
    ∧ idx [f0, f1, f2, f3, f4, f5, f6, f7, f8, f9, f10, f11] 10 = some f10
    ∧ idx [f0, f1, f2, f3, f4, f5, f6, f7, f8, f9, f10, f11] 11 = some f11 :=
  ⟨rfl, rfl, rfl, rfl, rfl, rfl, rfl, rfl, rfl, rfl, rfl, rfl⟩


theorem ite_app_and {β : Type} (F : Bool → β) (c x : Bool) :
    (if c = true then F x else F false) = F (c && x) := by cases c <;> rfl

theorem strand_cond (s : Bytes) :
    ((((s != []) && (s != [43])) && (s != [45])) && (s != [46])) = !Bed.validStrand s := by
  unfold Bed.validStrand
  by_cases h1 : s = [] <;> by_cases h2 : s = [43] <;> by_cases h3 : s = [45] <;> by_cases h4 : s = [46] <;>
    simp [h1, h2, h3, h4]

local macro "bedrd_leaf" : tactic => `(tactic| (subst_vars; simp [parseSpec12, resultOf, tupleOf, *]))

set_option hygiene false in
/-- `if fields[k] != "" { if x, err = strconv.Atoi(fields[k]); err != nil { return … } }` -/
local macro "bedrd_opt_int" fk:ident v:ident hv:ident : tactic => `(tactic| (
  extract_lets -underBinder +onlyGivenNames jp
  suffices hjp : ∀ v e, optI (reqA f) $fk = some v → jp () v e = RHS by
    clear_value jp
    by_cases h : $fk = []
    · simp only [h, bne_self_eq_false, Bool.false_eq_true, if_false]
      exact hjp _ _ (by simp [optI, h])
    · by_cases h' : (f $fk).2 = GoErr.nil
      · simp only [h, h', bne_iff_ne, ne_eq, not_false_eq_true, if_true, not_true_eq_false, if_false]
        exact hjp _ _ (by simp [optI, reqA, h, h'])
      · have hbad : optI (reqA f) $fk = none := by simp [optI, reqA, h, h']
        simp only [h, h', bne_iff_ne, ne_eq, not_false_eq_true, if_true]
        bedrd_leaf
  intro $v e $hv
  simp -zeta only [jp]
  clear jp))

/-- For ARBITRARY `f` (`strconv.Atoi`) and `g` (`strconv.ParseUint`): the translated `parseLine` is the
parametrised model parser at `reqA f`, `u8G g`; it never panics (every index is in range: the padded
slice has 12 elements, the RGB loop runs over exactly 3 pieces, the block loops over the pieces the
slice was allocated for). -/
theorem go_parseLine_spec (hF : GoSrc.parseLine_Found = true) (f : Bytes → Int × GoErr)
    (g : Bytes → Int → Int → Int × GoErr) (fs : List Bytes) :
    GoSrc.parseLine f g fs = some (resultOf (parseSpec (reqA f) (u8G g) fs)) := by
  first
  | exact absurd hF (by decide)
  | (by_cases hn : fs.length < 3 ∨ fs.length > 12
     · have hn' : (len fs < 3) ∨ (len fs > 12) := by unfold len; omega
       unfold GoSrc.parseLine parseSpec
       rw [if_pos hn]
       rcases hn' with h | h <;> simp [h, resultOf]
     · obtain ⟨f0, f1, f2, f3, f4, f5, f6, f7, f8, f9, f10, f11, hfs⟩ :=
         list12_of_length (fs ++ List.replicate (12 - len fs).toNat ([] : Bytes)) (by simp [len]; omega)
       have hp : ∀ i : Nat, (fs[i]?).getD [] = ([f0, f1, f2, f3, f4, f5, f6, f7, f8, f9, f10, f11][i]?).getD [] := by
         intro i; rw [← hfs, getD_pad]
       unfold parseSpec
       rw [if_neg hn]
       simp only [hp, List.getElem?_cons_zero, List.getElem?_cons_succ, Option.getD_some]
       clear hp
       generalize hR : some (resultOf (parseSpec12 (reqA f) (u8G g) fs.length f0 f1 f2 f3 f4 f5 f6 f7 f8 f9 f10 f11)) = RHS
       have hn1 : ¬ (len fs < 3) := by unfold len; omega
       have hn2 : ¬ (len fs > 12) := by unfold len; omega
       obtain ⟨i0, i1, i2, i3, i4, i5, i6, i7, i8, i9, i10, i11⟩ := idx12 f0 f1 f2 f3 f4 f5 f6 f7 f8 f9 f10 f11
       unfold GoSrc.parseLine
       extract_lets
       simp -zeta +zetaDelta only [hn1, hn2, decide_false, Bool.or_false, Bool.false_eq_true, if_false, hfs,
         i0, i1, i2, i3, i4, i5, i6, i7, i8, i9, i10, i11, Option.bind_eq_bind, Option.bind_some, Option.pure_def]
       clear i0 i1 i2 i3 i4 i5 i6 i7 i8 i9 i10 i11 hfs
       -- field 2
       extract_lets -underBinder +onlyGivenNames t1 c1 r1
       by_cases e1 : (f f1).2 = GoErr.nil
       case neg =>
         have h1 : reqA f f1 = none := by simp [reqA, e1]
         simp -zeta +zetaDelta only [e1, bne_iff_ne, ne_eq, not_false_eq_true, if_true]
         bedrd_leaf
       have h1 : reqA f f1 = some (f f1).1 := by simp [reqA, e1]
       simp -zeta +zetaDelta only [e1, bne_self_eq_false, Bool.false_eq_true, if_false]
       clear r1
       -- field 3
       extract_lets -underBinder +onlyGivenNames t2 c2 r2
       by_cases e2 : (f f2).2 = GoErr.nil
       case neg =>
         have h2 : reqA f f2 = none := by simp [reqA, e2]
         simp -zeta +zetaDelta only [e2, bne_iff_ne, ne_eq, not_false_eq_true, if_true]
         bedrd_leaf
       have h2 : reqA f f2 = some (f f2).1 := by simp [reqA, e2]
       simp -zeta +zetaDelta only [e2, bne_self_eq_false, Bool.false_eq_true, if_false]
       clear r2
       -- field 5 (score)
       bedrd_opt_int f4 sc h4
       -- field 6 (strand)
       extract_lets -underBinder +onlyGivenNames jpA
       rw [ite_app_and]
       simp -zeta only [jpA]
       clear jpA
       extract_lets -underBinder +onlyGivenNames jpB
       rw [ite_app_and]
       simp -zeta only [jpB]
       clear jpB
       extract_lets -underBinder +onlyGivenNames jpC
       rw [ite_app_and]
       simp -zeta only [jpC]
       clear jpC
       rw [strand_cond]
       by_cases h5 : Bed.validStrand f5 = true
       case neg =>
         simp only [h5, Bool.not_false, if_true]
         bedrd_leaf
       simp -zeta only [h5, Bool.not_true, Bool.false_eq_true, if_false]
       -- fields 7, 8
       bedrd_opt_int f6 ts h6
       bedrd_opt_int f7 te h7
       -- field 9 (RGB)
       extract_lets -underBinder +onlyGivenNames jp
       suffices hjp : ∀ r, rgbU (u8G g) f8 = some r → jp () [r.1, r.2.1, r.2.2] = RHS by
         clear_value jp
         by_cases h : f8 = []
         · simp only [h, bne_self_eq_false, Bool.false_eq_true, if_false]
           exact hjp (0, 0, 0) (by simp [rgbU, h])
         · simp only [h, bne_iff_ne, ne_eq, not_false_eq_true, if_true]
           rcases hsp : splitOn 44 f8 with _ | ⟨a, _ | ⟨b, _ | ⟨c, _ | ⟨d, r⟩⟩⟩⟩
           · have hbad : rgbU (u8G g) f8 = none := by simp [rgbU, h, hsp]
             simp [len]
             bedrd_leaf
           · have hbad : rgbU (u8G g) f8 = none := by simp [rgbU, h, hsp]
             simp [len]
             bedrd_leaf
           · have hbad : rgbU (u8G g) f8 = none := by simp [rgbU, h, hsp]
             simp [len]
             bedrd_leaf
           · have ia : idx [a, b, c] 0 = some a := rfl
             have ib : idx [a, b, c] 1 = some b := rfl
             have ic : idx [a, b, c] 2 = some c := rfl
             have hlen : len [a, b, c] = 3 := rfl
             have hup : upTo 3 = [0, 1, 2] := rfl
             have s0 : ∀ x : UInt8, setIdx (List.replicate 3 (0 : UInt8)) 0 x = some [x, 0, 0] := fun _ => rfl
             have s0' : ∀ x : UInt8, setIdx [(0 : UInt8), 0, 0] 0 x = some [x, 0, 0] := fun _ => rfl
             have s1 : ∀ x y : UInt8, setIdx [x, 0, 0] 1 y = some [x, y, 0] := fun _ _ => rfl
             have s2 : ∀ x y z : UInt8, setIdx [x, y, 0] 2 z = some [x, y, z] := fun _ _ _ => rfl
             simp only [hlen, hup, not_true_eq_false, if_false, List.forIn_cons, List.forIn_nil, ia, ib, ic,
               Option.bind_some, Option.bind_eq_bind]
             by_cases ha : (g a 0 8).2 = GoErr.nil
             case neg =>
               have hbad : rgbU (u8G g) f8 = none := by simp [rgbU, h, hsp, u8G, ha]
               simp [ha]
               bedrd_leaf
             by_cases hb : (g b 0 8).2 = GoErr.nil
             case neg =>
               have hbad : rgbU (u8G g) f8 = none := by simp [rgbU, h, hsp, u8G, ha, hb]
               simp [ha, hb, s0, s0']
               bedrd_leaf
             by_cases hc : (g c 0 8).2 = GoErr.nil
             case neg =>
               have hbad : rgbU (u8G g) f8 = none := by simp [rgbU, h, hsp, u8G, ha, hb, hc]
               simp [ha, hb, hc, s0, s0', s1]
               bedrd_leaf
             simp [ha, hb, hc, s0, s0', s1, s2]
             exact hjp (u8 (g a 0 8).1, u8 (g b 0 8).1, u8 (g c 0 8).1) (by simp [rgbU, h, hsp, u8G, ha, hb, hc])
           · have hbad : rgbU (u8G g) f8 = none := by simp [rgbU, h, hsp]
             simp [len]
             have hne : ¬ ((r.length : Int) + 1 + 1 + 1 + 1 = 3) := by omega
             simp [hne]
             bedrd_leaf
       intro rgb h8
       simp -zeta only [jp]
       clear jp
       -- field 10
       bedrd_opt_int f9 bc h9
       -- field 11
       extract_lets -underBinder +onlyGivenNames jp
       suffices hjp : ∀ l e, listI (reqA f) f10 = some l → jp () l e = RHS by
         clear_value jp
         by_cases h : f10 = []
         · simp only [h, bne_self_eq_false, Bool.false_eq_true, if_false]
           exact hjp _ _ (by simp [listI, h])
         · simp only [h, bne_iff_ne, ne_eq, not_false_eq_true, if_true]
           apply list_loop_elim f (none, GoErr.other)
           · intro i r bs e s hs
             simp only [idx_ofNat, hs, Option.bind_some, Option.bind_eq_bind]
             by_cases he : (f s).2 = GoErr.nil <;> simp [he]
           · intro l e hl
             exact hjp l e (by simp [listI, h, hl])
           · intro l e hl
             have hbad : listI (reqA f) f10 = none := by simp [listI, h, hl]
             simp only
             bedrd_leaf
       intro bs e h10
       simp -zeta only [jp]
       clear jp
       -- field 12
       extract_lets -underBinder +onlyGivenNames jp
       suffices hjp : ∀ l e, listI (reqA f) f11 = some l → jp () l e = RHS by
         clear_value jp
         by_cases h : f11 = []
         · simp only [h, bne_self_eq_false, Bool.false_eq_true, if_false]
           exact hjp _ _ (by simp [listI, h])
         · simp only [h, bne_iff_ne, ne_eq, not_false_eq_true, if_true]
           apply list_loop_elim f (none, GoErr.other)
           · intro i r bs e s hs
             simp only [idx_ofNat, hs, Option.bind_some, Option.bind_eq_bind]
             by_cases he : (f s).2 = GoErr.nil <;> simp [he]
           · intro l e hl
             exact hjp l e (by simp [listI, h, hl])
           · intro l e hl
             have hbad : listI (reqA f) f11 = none := by simp [listI, h, hl]
             simp only
             bedrd_leaf
       intro bst e h11
       simp -zeta only [jp]
       clear jp
       subst hR
       simp [parseSpec12, len, *]
       by_cases c1 : 10 < (fs.length : Int) ∧ ¬ (bs.length : Int) = bc
       · simp [c1, resultOf]
       · by_cases c2 : 11 < (fs.length : Int) ∧ ¬ (bst.length : Int) = bc
         · simp [c1, c2, resultOf]
         · simp [c1, c2, resultOf, tupleOf])

end BedRd

end Bio.GoSrcLemmas
