/-
  Helper lemmas for the BED model (property C04): decimal codec round trips,
  splitOn/joinWith, line splitting, field-level and line-level round trips.
-/
import Bio.Model.Bed
namespace Bio.Bed

/-! ## Decimal codec -/

theorem digitChar_spec : ∀ d, d < 10 →
    isDigit (digitChar d) = true ∧ (digitChar d).toNat - 48 = d ∧ digitChar d ≠ 9 ∧
    digitChar d ≠ 10 ∧ digitChar d ≠ 13 ∧ digitChar d ≠ 44 ∧ digitChar d ≠ 45 ∧ digitChar d ≠ 43 := by
  decide

theorem digitChar_ne48 : ∀ d, d < 10 → 0 < d → digitChar d ≠ 48 := by decide

theorem parseNatAux_snoc (s : Bytes) (d : UInt8) : ∀ acc,
    parseNatAux acc (s ++ [d]) =
      (parseNatAux acc s).bind (fun v => if isDigit d then some (v * 10 + (d.toNat - 48)) else none) := by
  induction s with
  | nil => intro acc; simp [parseNatAux]
  | cons b s ih =>
    intro acc
    simp only [List.cons_append, parseNatAux]
    split
    · exact ih _
    · rfl

theorem natDigits_ne_nil (n : Nat) : natDigits n ≠ [] := by
  rw [natDigits]; split <;> simp

theorem parseNatAux_natDigits (n : Nat) : parseNatAux 0 (natDigits n) = some n := by
  induction n using Nat.strongRecOn with
  | _ n ih =>
    rw [natDigits]
    split
    · rename_i h
      have := digitChar_spec n h
      simp [parseNatAux, this.1, this.2.1]
    · rename_i h
      have hd := digitChar_spec (n % 10) (Nat.mod_lt _ (by omega))
      rw [parseNatAux_snoc, ih (n / 10) (by omega)]
      simp [hd.1, hd.2.1]
      omega

theorem parseNat_natDigits (n : Nat) : parseNat (natDigits n) = some n := by
  have h := natDigits_ne_nil n
  unfold parseNat
  split
  · contradiction
  · exact parseNatAux_natDigits n

theorem natDigits_isDigit (n : Nat) : ∀ b ∈ natDigits n, isDigit b = true := by
  induction n using Nat.strongRecOn with
  | _ n ih =>
    rw [natDigits]
    split
    · rename_i h
      simp [(digitChar_spec n h).1]
    · intro b hb
      simp only [List.mem_append, List.mem_singleton] at hb
      rcases hb with hb | hb
      · exact ih _ (by omega) b hb
      · subst hb; exact (digitChar_spec _ (Nat.mod_lt _ (by omega))).1

theorem isDigit_ne {b : UInt8} (h : isDigit b = true) :
    b ≠ 9 ∧ b ≠ 10 ∧ b ≠ 13 ∧ b ≠ 44 ∧ b ≠ 45 ∧ b ≠ 43 ∧ b ≠ 35 := by
  refine ⟨?_, ?_, ?_, ?_, ?_, ?_, ?_⟩ <;> (rintro rfl; revert h; decide)

theorem natDigits_head (n : Nat) : ∃ d r, natDigits n = d :: r ∧ isDigit d = true := by
  have h := natDigits_ne_nil n
  match hm : natDigits n with
  | [] => contradiction
  | d :: r => exact ⟨d, r, rfl, natDigits_isDigit n d (by simp [hm])⟩

theorem natDigits_head_ne48 (n : Nat) (hn : 0 < n) : ∃ d r, natDigits n = d :: r ∧ d ≠ 48 := by
  induction n using Nat.strongRecOn with
  | _ n ih =>
    rw [natDigits]
    split
    · rename_i h
      exact ⟨_, [], rfl, digitChar_ne48 n h hn⟩
    · obtain ⟨d, r, h1, h2⟩ := ih (n / 10) (by omega) (by omega)
      exact ⟨d, r ++ [digitChar (n % 10)], by simp [h1], h2⟩





theorem atoi_itoa (i : Int) (h : int64Min ≤ i ∧ i ≤ int64Max) : atoi (itoa i) = some i := by

  cases i with
  | ofNat n =>
    obtain ⟨d, r, hd, hdig⟩ := natDigits_head n
    have hne := isDigit_ne hdig
    have hp := parseNat_natDigits n
    simp only [itoa]
    rw [hd] at hp ⊢
    unfold atoi
    split
    · rename_i heq
      split at heq
      · rename_i h43; cases h43; exact absurd rfl hne.2.2.2.2.2.1
      · rename_i h45; cases h45; exact absurd rfl hne.2.2.2.2.1
      · cases heq
        simp only [hp]
        simp_all
  | negSucc n =>
    have hp := parseNat_natDigits (n + 1)
    simp only [itoa]
    unfold atoi
    simp only [hp]
    have : -((n + 1 : Nat) : Int) = Int.negSucc n := by omega
    simp_all

theorem itoa_ne_nil (i : Int) : itoa i ≠ [] := by
  cases i <;> simp [itoa, natDigits_ne_nil]

theorem itoa_bytes (i : Int) : ∀ b ∈ itoa i, isDigit b = true ∨ b = 45 := by
  cases i with
  | ofNat n => intro b hb; exact Or.inl (natDigits_isDigit n b hb)
  | negSucc n =>
    intro b hb
    simp only [itoa, List.mem_cons] at hb
    rcases hb with hb | hb
    · exact Or.inr hb
    · exact Or.inl (natDigits_isDigit _ b hb)

/-! ## splitOn / joinWith -/

theorem splitOn_ne_nil (sep : UInt8) (s : Bytes) : splitOn sep s ≠ [] := by
  induction s with
  | nil => simp [splitOn]
  | cons b s ih =>
    simp only [splitOn]
    split
    · simp
    · split <;> simp

theorem splitOn_free (sep : UInt8) (p : Bytes) (hp : ∀ b ∈ p, b ≠ sep) : splitOn sep p = [p] := by
  induction p with
  | nil => rfl
  | cons b p ih =>
    have hb : b ≠ sep := hp b (by simp)
    have := ih (fun c hc => hp c (by simp [hc]))
    simp [splitOn, hb, this]

theorem splitOn_append_sep (sep : UInt8) (p rest : Bytes) (hp : ∀ b ∈ p, b ≠ sep) :
    splitOn sep (p ++ sep :: rest) = p :: splitOn sep rest := by
  induction p with
  | nil => simp [splitOn]
  | cons b p ih =>
    have hb : b ≠ sep := hp b (by simp)
    have := ih (fun c hc => hp c (by simp [hc]))
    simp [splitOn, hb, this]

theorem splitOn_joinWith (sep : UInt8) (ps : List Bytes) (hne : ps ≠ [])
    (hp : ∀ p ∈ ps, ∀ b ∈ p, b ≠ sep) : splitOn sep (joinWith sep ps) = ps := by
  induction ps with
  | nil => contradiction
  | cons p qs ih =>
    cases qs with
    | nil => simpa [joinWith] using splitOn_free sep p (hp p (by simp))
    | cons q qs =>
      simp only [joinWith]
      rw [splitOn_append_sep sep p _ (hp p (by simp)), ih (by simp) (fun r hr => hp r (by simp [hr]))]

theorem mem_joinWith (sep : UInt8) (ps : List Bytes) (b : UInt8) (hb : b ∈ joinWith sep ps) :
    b = sep ∨ ∃ p ∈ ps, b ∈ p := by
  induction ps with
  | nil => simp [joinWith] at hb
  | cons p qs ih =>
    cases qs with
    | nil => right; exact ⟨p, by simp, by simpa [joinWith] using hb⟩
    | cons q qs =>
      simp only [joinWith, List.mem_append, List.mem_cons] at hb
      rcases hb with hb | hb | hb
      · right; exact ⟨p, by simp, hb⟩
      · left; exact hb
      · rcases ih hb with h | ⟨r, hr, hbr⟩
        · left; exact h
        · right; exact ⟨r, by simp [hr], hbr⟩

theorem joinWith_cons_ne_nil (sep : UInt8) (p : Bytes) (ps : List Bytes) (hp : p ≠ []) :
    joinWith sep (p :: ps) ≠ [] := by
  cases ps <;> simp [joinWith, hp]

/-! ## Lines -/

theorem dropCR_of_no_CR (l : Bytes) (h : ∀ b ∈ l, b ≠ 13) : dropCR l = l := by
  unfold dropCR
  split
  · rename_i heq
    exact absurd rfl (h 13 (List.mem_of_getLast? heq))
  · rfl

theorem dropCR_append_CR (l : Bytes) : dropCR (l ++ [13]) = l := by
  simp [dropCR]

theorem rawLines_append_LF (l rest : Bytes) (hl : ∀ b ∈ l, b ≠ 10) :
    rawLines (l ++ 10 :: rest) = l :: rawLines rest := by
  induction l with
  | nil => simp [rawLines]
  | cons b l ih =>
    have hb : b ≠ 10 := hl b (by simp)
    have := ih (fun c hc => hl c (by simp [hc]))
    simp [rawLines, hb, this]

theorem rawLines_free (l : Bytes) (hne : l ≠ []) (hl : ∀ b ∈ l, b ≠ 10) : rawLines l = [l] := by
  induction l with
  | nil => contradiction
  | cons b l ih =>
    have hb : b ≠ 10 := hl b (by simp)
    cases l with
    | nil => simp [rawLines, hb]
    | cons c l =>
      have := ih (by simp) (fun c hc => hl c (by simp [hc]))
      rw [rawLines, this]
      simp [hb]

/-- LF-terminated line without CR. -/
theorem scanLines_append_LF (l rest : Bytes) (hl : ∀ b ∈ l, b ≠ 10 ∧ b ≠ 13) :
    scanLines (l ++ 10 :: rest) = l :: scanLines rest := by
  unfold scanLines
  rw [rawLines_append_LF l rest (fun b hb => (hl b hb).1)]
  simp [dropCR_of_no_CR l (fun b hb => (hl b hb).2)]

/-- CRLF-terminated line. -/
theorem scanLines_append_CRLF (l rest : Bytes) (hl : ∀ b ∈ l, b ≠ 10) :
    scanLines (l ++ 13 :: 10 :: rest) = l :: scanLines rest := by
  unfold scanLines
  have : l ++ 13 :: 10 :: rest = (l ++ [13]) ++ 10 :: rest := by simp
  rw [this, rawLines_append_LF (l ++ [13]) rest]
  · simp [dropCR_append_CR]
  · intro b hb
    simp only [List.mem_append, List.mem_singleton] at hb
    rcases hb with hb | hb
    · exact hl b hb
    · subst hb; decide

/-- Unterminated final line. -/
theorem scanLines_last (l : Bytes) (hne : l ≠ []) (hl : ∀ b ∈ l, b ≠ 10 ∧ b ≠ 13) :
    scanLines l = [l] := by
  unfold scanLines
  rw [rawLines_free l hne (fun b hb => (hl b hb).1)]
  simp [dropCR_of_no_CR l (fun b hb => (hl b hb).2)]

theorem scanLines_nil : scanLines [] = [] := rfl

theorem completeLines_append_LF (l rest : Bytes) (hl : ∀ b ∈ l, b ≠ 10) :
    completeLines (l ++ 10 :: rest) = l :: completeLines rest := by
  unfold completeLines
  rw [splitOn_append_sep 10 l rest hl]
  exact List.dropLast_cons_of_ne_nil (splitOn_ne_nil 10 rest)

theorem completeLines_free (l : Bytes) (hl : ∀ b ∈ l, b ≠ 10) : completeLines l = [] := by
  unfold completeLines
  rw [splitOn_free 10 l hl]; rfl

/-! ## Field-level round trips -/

theorem optInt_nil : optInt [] = some 0 := rfl

theorem optInt_itoa (i : Int) (h : int64Min ≤ i ∧ i ≤ int64Max) : optInt (itoa i) = some i := by
  simp [optInt, itoa_ne_nil, atoi_itoa i h]

theorem parseU8_natDigits (v : UInt8) : parseU8 (natDigits v.toNat) = some v := by
  by_cases hv : v.toNat = 0
  · have : v = 0 := by
      apply UInt8.toNat_inj.mp; simpa using hv
    subst this; decide +kernel
  · obtain ⟨d, r, hd, hne⟩ := natDigits_head_ne48 v.toNat (by omega)
    have hp := parseNat_natDigits v.toNat
    rw [hd] at hp ⊢
    unfold parseU8
    split
    · simp_all
    · simp_all
    · simp_all
    · simp only [hp]
      have : v.toNat ≤ 255 := by have := v.toNat_lt; omega
      simp [this]

theorem natDigits_no_comma (n : Nat) : ∀ b ∈ natDigits n, b ≠ COMMA := by
  intro b hb; exact (isDigit_ne (natDigits_isDigit n b hb)).2.2.2.1

theorem rgbText_ne_nil (a b c : Nat) :
    natDigits a ++ COMMA :: natDigits b ++ COMMA :: natDigits c ≠ [] := by
  simp

theorem parseRGB_enc (r g b : UInt8) :
    parseRGB (natDigits r.toNat ++ COMMA :: natDigits g.toNat ++ COMMA :: natDigits b.toNat) = some (r, g, b) := by
  unfold parseRGB
  rw [if_neg (rgbText_ne_nil _ _ _)]
  have h1 : (natDigits r.toNat ++ COMMA :: natDigits g.toNat ++ COMMA :: natDigits b.toNat)
      = natDigits r.toNat ++ COMMA :: (natDigits g.toNat ++ COMMA :: natDigits b.toNat) := by simp
  rw [h1, splitOn_append_sep COMMA _ _ (natDigits_no_comma _),
    splitOn_append_sep COMMA _ _ (natDigits_no_comma _), splitOn_free COMMA _ (natDigits_no_comma _)]
  simp [parseU8_natDigits]

theorem parseRGB_nil : parseRGB [] = some (0, 0, 0) := rfl

theorem mapM_atoi_itoa (l : List Int) (h : ∀ i ∈ l, int64Min ≤ i ∧ i ≤ int64Max) :
    (l.map itoa).mapM atoi = some l := by
  induction l with
  | nil => rfl
  | cons i l ih =>
    simp [List.mapM_cons, atoi_itoa i (h i (by simp)), ih (fun j hj => h j (by simp [hj]))]

theorem itoa_no_comma (i : Int) : ∀ b ∈ itoa i, b ≠ COMMA := by
  intro b hb
  rcases itoa_bytes i b hb with h | h
  · exact (isDigit_ne h).2.2.2.1
  · subst h; decide

theorem parseIntList_nil : parseIntList [] = some [] := rfl

theorem parseIntList_intList (l : List Int) (h : ∀ i ∈ l, int64Min ≤ i ∧ i ≤ int64Max) :
    parseIntList (intList l) = some l := by
  cases l with
  | nil => rfl
  | cons i l =>
    unfold parseIntList intList
    rw [if_neg (by simpa using joinWith_cons_ne_nil COMMA (itoa i) (l.map itoa) (itoa_ne_nil i))]
    rw [splitOn_joinWith COMMA _ (by simp)]
    · exact mapM_atoi_itoa _ h
    · intro p hp
      simp only [List.mem_map] at hp
      obtain ⟨j, _, rfl⟩ := hp
      exact itoa_no_comma j

/-! ## Bytes of the fields: free of TAB, LF, CR -/

/-- No TAB, LF or CR. -/
def Clean (s : Bytes) : Prop := ∀ b ∈ s, b ≠ 9 ∧ b ≠ 10 ∧ b ≠ 13

theorem clean_natDigits (n : Nat) : Clean (natDigits n) := by
  intro b hb
  have := isDigit_ne (natDigits_isDigit n b hb)
  exact ⟨this.1, this.2.1, this.2.2.1⟩

theorem clean_itoa (i : Int) : Clean (itoa i) := by
  intro b hb
  rcases itoa_bytes i b hb with h | h
  · have := isDigit_ne h
    exact ⟨this.1, this.2.1, this.2.2.1⟩
  · subst h; decide

theorem clean_append {s t : Bytes} (hs : Clean s) (ht : Clean t) : Clean (s ++ t) := by
  intro b hb
  rcases List.mem_append.mp hb with h | h
  · exact hs b h
  · exact ht b h

theorem clean_cons {c : UInt8} {s : Bytes} (hc : c ≠ 9 ∧ c ≠ 10 ∧ c ≠ 13) (hs : Clean s) :
    Clean (c :: s) := by
  intro b hb
  rcases List.mem_cons.mp hb with h | h
  · subst h; exact hc
  · exact hs b h

theorem clean_intList (l : List Int) : Clean (intList l) := by
  intro b hb
  rcases mem_joinWith COMMA _ b hb with h | ⟨p, hp, hbp⟩
  · subst h; decide
  · simp only [List.mem_map] at hp
    obtain ⟨j, _, rfl⟩ := hp
    exact clean_itoa j b hbp

theorem clean_strand (s : Bytes) (h : validStrand s = true) : Clean s := by
  simp only [validStrand, Bool.or_eq_true, decide_eq_true_eq] at h
  rcases h with ((h | h) | h) | h <;> subst h <;> intro b hb <;> simp at hb <;> subst hb <;> decide

theorem clean_allFields (b : Bed) (hc : Clean b.chrom) (hn : Clean b.name)
    (hs : validStrand b.strand = true) : ∀ f ∈ allFields b, Clean f := by
  intro f hf
  simp only [allFields, List.mem_cons, List.not_mem_nil, or_false] at hf
  have hcomma : (COMMA ≠ 9 ∧ COMMA ≠ 10 ∧ COMMA ≠ 13) := by decide
  rcases hf with h | h | h | h | h | h | h | h | h | h | h | h <;> subst h
  · exact hc
  · exact clean_itoa _
  · exact clean_itoa _
  · exact hn
  · exact clean_itoa _
  · exact clean_strand _ hs
  · exact clean_itoa _
  · exact clean_itoa _
  · exact clean_append (clean_append (clean_natDigits _) (clean_cons hcomma (clean_natDigits _)))
      (clean_cons hcomma (clean_natDigits _))
  · exact clean_itoa _
  · exact clean_intList _
  · exact clean_intList _

/-! ## Record-level round trip -/

/-- 64-bit range (same as `inRange` of the property file). -/
def InR (i : Int) : Prop := int64Min ≤ i ∧ i ≤ int64Max

theorem validStrand_nil : validStrand [] = true := rfl

set_option linter.unusedSimpArgs false in
theorem parseLine_take (b : Bed) (N : Nat) (h3 : 3 ≤ N) (h12 : N ≤ 12)
    (hstrand : validStrand b.strand = true)
    (hcs : InR b.chromStart) (hce : InR b.chromEnd) (hsc : InR b.score)
    (hts : InR b.thickStart) (hte : InR b.thickEnd) (hbc : InR b.blockCount)
    (hsz : ∀ i ∈ b.blockSizes, InR i) (hst : ∀ i ∈ b.blockStarts, InR i)
    (hbs : N > 10 → (b.blockSizes.length : Int) = b.blockCount)
    (hbst : N > 11 → (b.blockStarts.length : Int) = b.blockCount) :
    parseLine ((allFields b).take N) =
      some ⟨(N : Int), b.chrom, b.chromStart, b.chromEnd,
        if N > 3 then b.name else [], if N > 4 then b.score else 0,
        if N > 5 then b.strand else [], if N > 6 then b.thickStart else 0,
        if N > 7 then b.thickEnd else 0, if N > 8 then b.rgb else (0, 0, 0),
        if N > 9 then b.blockCount else 0, if N > 10 then b.blockSizes else [],
        if N > 11 then b.blockStarts else []⟩ := by
  have e1 := atoi_itoa _ hcs
  have e2 := atoi_itoa _ hce
  have e3 := optInt_itoa _ hsc
  have e4 := optInt_itoa _ hts
  have e5 := optInt_itoa _ hte
  have e6 := optInt_itoa _ hbc
  have e7 := parseIntList_intList _ hsz
  have e8 := parseIntList_intList _ hst
  have e9 := parseRGB_enc b.rgb.1 b.rgb.2.1 b.rgb.2.2
  have hN : N = 3 ∨ N = 4 ∨ N = 5 ∨ N = 6 ∨ N = 7 ∨ N = 8 ∨ N = 9 ∨ N = 10 ∨ N = 11 ∨ N = 12 := by
    omega
  rcases hN with h | h | h | h | h | h | h | h | h | h <;> subst h <;>
    simp [parseLine, allFields, e1, e2, e3, e4, e5, e6, e7, e8, e9, optInt_nil, parseRGB_nil,
      parseIntList_nil, hstrand, validStrand_nil] at hbs hbst ⊢ <;> simp_all

/-! ## Line-level facts -/

theorem allFields_length (b : Bed) : (allFields b).length = 12 := rfl

theorem splitOn_line (b : Bed) (N : Nat) (h3 : 3 ≤ N) (hclean : ∀ f ∈ allFields b, Clean f) :
    splitOn TAB (joinWith TAB ((allFields b).take N)) = (allFields b).take N := by
  apply splitOn_joinWith
  · intro h
    have := congrArg List.length h
    simp [allFields_length] at this
    omega
  · intro p hp c hc
    exact (hclean p (List.mem_of_mem_take hp) c hc).1

theorem line_shape (b : Bed) (N : Nat) (h2 : 2 ≤ N) :
    ∃ rest, joinWith TAB ((allFields b).take N) = b.chrom ++ TAB :: rest := by
  obtain ⟨n, rfl⟩ : ∃ n, N = n + 2 := ⟨N - 2, by omega⟩
  refine ⟨joinWith TAB (((allFields b).drop 1).take (n + 1)), ?_⟩
  simp only [allFields, List.take_succ_cons, List.drop_succ_cons, List.drop_zero, joinWith]

theorem isSkipped_line (chrom rest : Bytes) (h : chrom.head? ≠ some 35) :
    isSkipped (chrom ++ TAB :: rest) = false := by
  cases chrom with
  | nil => rfl
  | cons c cs =>
    have hc : c ≠ 35 := by simpa using h
    simp only [List.cons_append, isSkipped]
    split <;> simp_all

theorem line_noNL (b : Bed) (N : Nat) (hclean : ∀ f ∈ allFields b, Clean f) :
    ∀ c ∈ joinWith TAB ((allFields b).take N), c ≠ 10 ∧ c ≠ 13 := by
  intro c hc
  rcases mem_joinWith TAB _ c hc with h | ⟨p, hp, hcp⟩
  · subst h; decide
  · exact (hclean p (List.mem_of_mem_take hp) c hcp).2

/-- All a reader needs to know about one record line. -/
structure LineOK (N : Nat) (line : Bytes) (r : Bed) : Prop where
  noNL : ∀ c ∈ line, c ≠ 10 ∧ c ≠ 13
  notSkipped : isSkipped line = false
  len : (splitOn TAB line).length = N
  parse : parseLine (splitOn TAB line) = some r

/-- What a physical line contributes: a record (`some r`) or nothing. -/
def Spec (N : Nat) (l : Bytes) : Option Bed → Prop
  | none => (∀ c ∈ l, c ≠ 10 ∧ c ≠ 13) ∧ isSkipped l = true
  | some r => LineOK N l r

theorem Spec.noNL {N l o} (h : Spec N l o) : ∀ c ∈ l, c ≠ 10 ∧ c ≠ 13 := by
  cases o with
  | none => exact h.1
  | some r => exact LineOK.noNL h

/-! ## The reader over lines -/

theorem fromLines_specs {α : Type} (e : Ending) (N : Nat) (line : α → Bytes) (out : α → Option Bed)
    (es : List α) (h : ∀ a ∈ es, Spec N (line a) (out a)) :
    ∀ nf, nf = none ∨ nf = some N →
      fromLines e nf (es.map line) = (es.filterMap out).map Item.ok ++ endItems e := by
  induction es with
  | nil => intro nf _; simp [fromLines]
  | cons a es ih =>
    intro nf hnf
    have ha := h a (by simp)
    have ih' := ih (fun x hx => h x (by simp [hx]))
    simp only [List.map_cons, fromLines]
    cases ho : out a with
    | none =>
      rw [ho] at ha
      simp [ha.2, ho, ih' nf hnf]
    | some r =>
      rw [ho] at ha
      have hcond : (nf.isSome && nf != some (splitOn TAB (line a)).length) = false := by
        rcases hnf with rfl | rfl <;> simp [ha.len]
      simp only [ha.notSkipped, hcond, ha.parse, List.filterMap_cons, ho]
      simp [ha.len, ih' (some N) (Or.inr rfl)]

/-- An error item can only be the last one. -/
def ErrLast (l : List (Item Bed)) : Prop := ∀ pre post, l = pre ++ Item.err :: post → post = []

theorem errLast_singleton : ErrLast [Item.err] := by
  intro pre post h
  cases pre with
  | nil => simpa using h.symm
  | cons p pre =>
    have := congrArg List.length h
    simp at this

theorem errLast_nil : ErrLast [] := by
  intro pre post h; simp at h

theorem errLast_cons_ok (b : Bed) (l : List (Item Bed)) (h : ErrLast l) : ErrLast (Item.ok b :: l) := by
  intro pre post heq
  cases pre with
  | nil => simp at heq
  | cons p pre =>
    simp only [List.cons_append, List.cons.injEq] at heq
    exact h pre post heq.2

theorem fromLines_errLast (e : Ending) (ls : List Bytes) : ∀ nf, ErrLast (fromLines e nf ls) := by
  induction ls with
  | nil =>
    intro nf
    cases e
    · exact errLast_nil
    · exact errLast_singleton
  | cons l rest ih =>
    intro nf
    simp only [fromLines]
    split
    · exact ih nf
    · split
      · exact errLast_singleton
      · split
        · exact errLast_singleton
        · exact errLast_cons_ok _ _ (ih _)

/-! ## Files -/

def term (crlf : Bool) : Bytes := if crlf then [13, 10] else [10]

theorem scanLines_append_term (l rest : Bytes) (crlf : Bool) (hl : ∀ b ∈ l, b ≠ 10 ∧ b ≠ 13) :
    scanLines (l ++ term crlf ++ rest) = l :: scanLines rest := by
  cases crlf
  · simpa [term] using scanLines_append_LF l rest hl
  · simpa [term] using scanLines_append_CRLF l rest (fun b hb => (hl b hb).1)

theorem scanLines_file {α : Type} (line : α → Bytes) (crlf : α → Bool) (es : List α)
    (h : ∀ a ∈ es, ∀ c ∈ line a, c ≠ 10 ∧ c ≠ 13) (last : Bytes) :
    scanLines ((es.map fun a => line a ++ term (crlf a)).flatten ++ last)
      = es.map line ++ scanLines last := by
  induction es with
  | nil => simp
  | cons a es ih =>
    simp only [List.map_cons, List.flatten_cons, List.append_assoc, List.cons_append]
    rw [← List.append_assoc, scanLines_append_term _ _ _ (h a (by simp)),
      ih (fun x hx => h x (by simp [hx]))]

theorem decode_file {α : Type} (N : Nat) (line : α → Bytes) (crlf : α → Bool) (out : α → Option Bed)
    (es : List α) (h : ∀ a ∈ es, Spec N (line a) (out a)) :
    decode (es.map fun a => line a ++ term (crlf a)).flatten = (es.filterMap out).map Item.ok := by
  have := scanLines_file line crlf es (fun a ha => (h a ha).noNL) []
  simp only [List.append_nil, scanLines_nil] at this
  simp only [decode, decodeSrc, textLines, this]
  simpa [endItems] using fromLines_specs .eof N line out es h none (Or.inl rfl)

/-- Same, with an unterminated record line at the end. -/
theorem decode_file_last {α : Type} (N : Nat) (line : α → Bytes) (crlf : α → Bool)
    (out : α → Option Bed) (es : List α) (h : ∀ a ∈ es, Spec N (line a) (out a))
    (last : Bytes) (r : Bed) (hlast : LineOK N last r) :
    decode ((es.map fun a => line a ++ term (crlf a)).flatten ++ last)
      = (es.filterMap out).map Item.ok ++ [Item.ok r] := by
  have hne : last ≠ [] := by
    intro h0; have := hlast.notSkipped; rw [h0] at this; simp [isSkipped] at this
  have h1 := scanLines_file line crlf es (fun a ha => (h a ha).noNL) last
  rw [scanLines_last last hne hlast.noNL] at h1
  simp only [decode, decodeSrc, textLines, h1]
  have h2 := fromLines_specs .eof N (fun x : α ⊕ Unit => match x with | .inl a => line a | .inr _ => last)
    (fun x => match x with | .inl a => out a | .inr _ => some r)
    (es.map Sum.inl ++ [Sum.inr ()])
    (by
      intro x hx
      simp only [List.mem_append, List.mem_map, List.mem_singleton] at hx
      rcases hx with ⟨a, ha, rfl⟩ | rfl
      · exact h a ha
      · exact hlast)
    none (Or.inl rfl)
  simpa [endItems, List.filterMap_append, List.filterMap_map, Function.comp_def] using h2

/-- Source failing after `k` bytes of a file of LF-terminated record lines. -/
theorem fault_prefix {α : Type} (N : Nat) (line : α → Bytes) (out : α → Bed) (es : List α)
    (h : ∀ a ∈ es, LineOK N (line a) (out a)) :
    ∀ nf, nf = none ∨ nf = some N → ∀ k, ∃ n,
      fromLines .fail nf (textLines .fail (((es.map fun a => line a ++ [10]).flatten).take k))
        = (es.take n).map (fun a => Item.ok (out a)) ++ [Item.err] := by
  induction es with
  | nil =>
    intro nf _ k
    exact ⟨0, by simp [textLines, completeLines, splitOn, fromLines, endItems]⟩
  | cons a es ih =>
    intro nf hnf k
    have ha := h a (by simp)
    have hLF : ∀ c ∈ line a, c ≠ 10 := fun c hc => (ha.noNL c hc).1
    simp only [List.map_cons, List.flatten_cons, List.append_assoc, List.singleton_append]
    by_cases hk : k ≤ (line a).length
    · refine ⟨0, ?_⟩
      rw [List.take_append_of_le_length hk]
      rw [textLines, completeLines_free _ (fun c hc => hLF c (List.mem_of_mem_take hc))]
      simp [fromLines, endItems]
    · obtain ⟨n, hn⟩ := ih (fun x hx => h x (by simp [hx])) (some N) (Or.inr rfl)
        (k - (line a).length - 1)
      refine ⟨n + 1, ?_⟩
      have hk' : k = (line a).length + ((k - (line a).length - 1) + 1) := by omega
      rw [hk', List.take_length_add_append, List.take_succ_cons]
      simp only [textLines] at hn ⊢
      rw [completeLines_append_LF _ _ hLF]
      simp only [List.map_cons, dropCR_of_no_CR _ (fun c hc => (ha.noNL c hc).2), fromLines]
      have hcond : (nf.isSome && nf != some (splitOn TAB (line a)).length) = false := by
        rcases hnf with rfl | rfl <;> simp [ha.len]
      simp only [ha.notSkipped, hcond]
      simp only [ha.parse, ha.len]
      simpa using hn

/-! ## Everything about the line written for a well-formed record -/

theorem encodeLine_eq (b : Bed) (N : Nat) (hn : b.n = N) (h3 : 3 ≤ N) (h12 : N ≤ 12) :
    encodeLine b = some (joinWith TAB ((allFields b).take N)) := by
  unfold encodeLine
  rw [if_neg (by omega), hn]
  rfl

theorem lineOK_fields (b : Bed) (N : Nat) (h3 : 3 ≤ N) (h12 : N ≤ 12)
    (hc : Clean b.chrom) (hhead : b.chrom.head? ≠ some 35) (hname : Clean b.name)
    (hstrand : validStrand b.strand = true)
    (hcs : InR b.chromStart) (hce : InR b.chromEnd) (hsc : InR b.score)
    (hts : InR b.thickStart) (hte : InR b.thickEnd) (hbc : InR b.blockCount)
    (hsz : ∀ i ∈ b.blockSizes, InR i) (hst : ∀ i ∈ b.blockStarts, InR i)
    (hbs : N > 10 → (b.blockSizes.length : Int) = b.blockCount)
    (hbst : N > 11 → (b.blockStarts.length : Int) = b.blockCount) :
    LineOK N (joinWith TAB ((allFields b).take N))
      ⟨(N : Int), b.chrom, b.chromStart, b.chromEnd,
        if N > 3 then b.name else [], if N > 4 then b.score else 0,
        if N > 5 then b.strand else [], if N > 6 then b.thickStart else 0,
        if N > 7 then b.thickEnd else 0, if N > 8 then b.rgb else (0, 0, 0),
        if N > 9 then b.blockCount else 0, if N > 10 then b.blockSizes else [],
        if N > 11 then b.blockStarts else []⟩ := by
  have hclean := clean_allFields b hc hname hstrand
  have hsplit := splitOn_line b N h3 hclean
  refine ⟨line_noNL b N hclean, ?_, ?_, ?_⟩
  · obtain ⟨rest, hr⟩ := line_shape b N (by omega)
    rw [hr]; exact isSkipped_line _ _ hhead
  · rw [hsplit]; simp [allFields_length]; omega
  · rw [hsplit]
    exact parseLine_take b N h3 h12 hstrand hcs hce hsc hts hte hbc hsz hst hbs hbst

theorem not_skipped_shape (l : Bytes) (h : isSkipped l = false) : l ≠ [] ∧ l.head? ≠ some 35 := by
  cases l with
  | nil => simp [isSkipped] at h
  | cons c cs =>
    refine ⟨by simp, ?_⟩
    intro hc
    have : c = 35 := by simpa using hc
    subst this
    simp [isSkipped] at h

end Bio.Bed
