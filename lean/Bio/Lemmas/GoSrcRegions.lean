/-
  The Go SOURCE TEXT of package regions (regions/regions.go: `eventLess`, `keys`, `cp`, `NewIndex`,
  `(*Index).At`) and of `(*SAM).Write` (formats/sam/sam.go), as translated on every run into
  `Bio.Generated.GoSrc`, against the hand-written models `Bio.Model.Regions` / `Bio.Model.Sam`:

  * `eventLess` is the model's `evLess`; `keys` sorts (and is the identity on an ascending set);
    `cp` copies;
  * `NewIndex starts ends` is the model's `newIndex` (breakpoints with the active sets as `int`s),
    including the panic exactly when the lengths differ;
  * `Index.At` on an index with strictly ascending breakpoint positions is the model's `at'`
    (Go's `sort.Search` loop finds the first breakpoint beyond `i`);
  * `SAM.Write` performs the model's `Sam.writeCalls` on the writer, stopping at the first error.

  Guarded by the translator's `<f>_Found` flags as in `Bio.Lemmas.GoSrc`.
-/
import Bio.Lemmas.GoSrcIterWrite
import Bio.Lemmas.Regions
import Bio.Lemmas.GoRt
import Bio.Model.Sam
set_option linter.unusedVariables false
set_option linter.unusedSimpArgs false
namespace Bio.GoSrcLemmas
open Bio Bio.GoRt Bio.Generated

/-! ## regions -/

/-- the translated `event{idx, pos, start}` -/
abbrev Tup := Int × Int × Bool

/-- a model event as the translated struct -/
def toTup (e : Regions.Ev) : Tup := ((e.idx : Int), e.pos, e.start)

/-- a model index as the translated `[]interval{start, idxs}`: the active sets as Go `int`s -/
def ofIdx (idx : Regions.Index) : List (Int × List Int) := idx.map fun bp => (bp.1, bp.2.map Int.ofNat)

/-- `eventLess` is the model's `evLess` and never panics -/
theorem eventLess_eq (hF : GoSrc.eventLess_Found = true) (i j : Nat) (p q : Int) (s t : Bool) :
    GoSrc.eventLess ((i : Int), p, s) ((j : Int), q, t) = some (Regions.evLess ⟨i, p, s⟩ ⟨j, q, t⟩) := by
  first
  | exact absurd hF (by decide)
  | (unfold GoSrc.eventLess
     simp only [Option.pure_def, Option.bind_eq_bind, Regions.evLess]
     by_cases h1 : p = q
     · by_cases h2 : s = t
       · simp [h1, h2]
       · simp [h1, h2]
     · simp [h1])

theorem eventLess_toTup (hF : GoSrc.eventLess_Found = true) (a b : Regions.Ev) :
    GoSrc.eventLess (toTup a) (toTup b) = some (Regions.evLess a b) :=
  eventLess_eq hF a.idx b.idx a.pos b.pos a.start b.start

theorem forIn_snoc (m : List Int) : ∀ (acc : List Int),
    forIn m acc (fun k r => (some (ForInStep.yield (r ++ [k])) : Option _)) = some (acc ++ m) := by
  induction m with
  | nil => intro acc; simp
  | cons a m ih => intro acc; simp [ih]

/-- `keys` returns the members sorted -/
theorem keys_eq (hF : GoSrc.keys_Found = true) (m : List Int) : GoSrc.keys m = some (sortInts m) := by
  first
  | exact absurd hF (by decide)
  | (unfold GoSrc.keys
     simp only [Option.pure_def, Option.bind_eq_bind]
     cases m with
     | nil => simp [len, sortInts]
     | cons a m =>
       have : (len (a :: m) == 0) = false := by simp [len]; omega
       simp only [this]
       rw [forIn_snoc]
       simp)

theorem sortInts_sorted (m : List Int) (h : m.Pairwise (· < ·)) : sortInts m = m := by
  unfold sortInts
  apply List.mergeSort_of_pairwise
  exact h.imp (fun hab => by simpa using Int.le_of_lt hab)

/-- … which for the ascending duplicate-free representation of the set is the set itself -/
theorem keys_eq_self (hF : GoSrc.keys_Found = true) (m : List Int) (h : m.Pairwise (· < ·)) :
    GoSrc.keys m = some m := by
  rw [keys_eq hF, sortInts_sorted m h]

theorem pairwise_map_ofNat (l : List Nat) (h : l.Pairwise (· < ·)) : (l.map Int.ofNat).Pairwise (· < ·) := by
  rw [List.pairwise_map]
  exact h.imp (fun hab => by simpa using hab)

theorem keys_map_ofNat (hF : GoSrc.keys_Found = true) (l : List Nat) (h : l.Pairwise (· < ·)) :
    GoSrc.keys (l.map Int.ofNat) = some (l.map Int.ofNat) :=
  keys_eq_self hF _ (pairwise_map_ofNat l h)

/-- `cp` returns its argument -/
theorem cp_eq (hF : GoSrc.cp_Found = true) (a : List Int) : GoSrc.cp a = some a := by
  first
  | exact absurd hF (by decide)
  | (unfold GoSrc.cp
     simp only [Option.pure_def, Option.bind_eq_bind]
     cases a with
     | nil => simp [len]
     | cons x a =>
       have : (len (x :: a) == 0) = false := by simp [len]; omega
       simp only [this]
       simp [copyInto, len])

/-! ### the set operations on the ascending representation -/

theorem setInsert_map (x : Nat) (act : List Nat) :
    setInsert (act.map Int.ofNat) (x : Int) = (Regions.insertNat x act).map Int.ofNat := by
  induction act with
  | nil => simp [setInsert, Regions.insertNat]
  | cons y ys ih =>
    simp only [List.map_cons, setInsert, Regions.insertNat]
    rw [show Int.ofNat y = (y : Int) from rfl]
    by_cases h1 : x < y
    · have : (x : Int) < (y : Int) := by omega
      simp [h1, this]
    · have h1' : ¬ ((x : Int) < (y : Int)) := by omega
      by_cases h2 : x = y
      · subst h2; simp
      · have h2' : ¬ ((x : Int) = (y : Int)) := by omega
        simp only [h1, h1', h2, h2', if_false, beq_iff_eq, ih, List.map_cons]
        rfl

theorem setErase_map (x : Nat) (act : List Nat) (h : act.Pairwise (· < ·)) :
    setErase (act.map Int.ofNat) (x : Int) = (act.erase x).map Int.ofNat := by
  have hn : act.Nodup := h.imp (fun h => Nat.ne_of_lt h)
  rw [hn.erase_eq_filter, setErase, List.filter_map]
  congr 1
  apply List.filter_congr
  intro a _
  show (Int.ofNat a != (x : Int)) = (a != x)
  rw [show Int.ofNat a = (a : Int) from rfl]
  by_cases h : a = x
  · subst h; rw [bne_self_eq_false, bne_self_eq_false]
  · have h' : ¬ ((a : Int) = (x : Int)) := by omega
    rw [bne_iff_ne.2 h, bne_iff_ne.2 h']

/-! ### `NewIndex`: the event loop, the sort, the sweep -/

/-- the loop `for i := range starts { if starts[i] >= ends[i] { continue }; events = append(…) }` -/
theorem events_loop (starts ends : List Int) (hlen : starts.length = ends.length)
    (body : Int → List Tup → Option (ForInStep (List Tup)))
    (hbody : ∀ (k : Nat) (s e : Int) (acc : List Tup), starts[k]? = some s → ends[k]? = some e →
      body (Int.ofNat k) acc
        = some (.yield (if s < e then acc ++ [((k : Int), s, true), ((k : Int), e, false)] else acc))) :
    ∀ (n k : Nat) (acc : List Tup), k + n = starts.length →
      forIn ((List.range' k n).map Int.ofNat) acc body
        = some (acc ++ (Regions.eventsFrom k (starts.drop k) (ends.drop k)).map toTup) := by
  intro n
  induction n with
  | zero =>
    intro k acc hk
    have h1 : starts.drop k = [] := List.drop_of_length_le (by omega)
    simp [h1, Regions.eventsFrom]
  | succ n ih =>
    intro k acc hk
    have hk1 : k < starts.length := by omega
    have hk2 : k < ends.length := by omega
    rw [List.drop_eq_getElem_cons hk1, List.drop_eq_getElem_cons hk2]
    simp only [List.range'_succ, List.map_cons, List.forIn_cons, Regions.eventsFrom]
    rw [hbody k starts[k] ends[k] acc (by simp [hk1]) (by simp [hk2])]
    simp only [Option.bind_eq_bind, Option.bind_some]
    rw [ih (k + 1) _ (by omega)]
    by_cases h : starts[k] < ends[k]
    · simp [h, toTup]
    · simp [h]

/-- `sort.Slice(events, eventLess)` (as `sortByLess`) is the model's `mergeSort evLe` -/
theorem sort_events (hF : GoSrc.eventLess_Found = true) (evs : List Regions.Ev) :
    sortByLess (fun a b => (GoSrc.eventLess a b).getD false) (evs.map toTup)
      = (evs.mergeSort Regions.evLe).map toTup := by
  unfold sortByLess
  rw [List.map_mergeSort]
  intro a _ b _
  show _ = !((GoSrc.eventLess (toTup b) (toTup a)).getD false)
  rw [eventLess_toTup hF]
  rfl

abbrev SwSt := List (Int × List Int) × List Int × Int

/-- the position the sweep starts from: that of the first event (`pos` is set at `i == 0`) -/
def firstPosOr (evs : List Regions.Ev) (pos : Int) : Int :=
  match evs with
  | e :: _ => e.pos
  | [] => pos

/-- the loop `for i, e := range events { … }` with the mutable `intervals, idxs, pos`, followed by the
final `append`: the model's `sweep`, for any already emitted prefix `ivs`, any ascending active set
and any loop index `k` (`pos` is overwritten by the first event's position at `k = 0`) -/
theorem sweep_loop (body : Int × Tup → SwSt → Option (ForInStep SwSt)) (fin : SwSt → Option (List (Int × List Int)))
    (hbody : ∀ (k : Nat) (e : Regions.Ev) (ivs : List (Int × List Int)) (act : List Nat) (pos : Int),
      act.Pairwise (· < ·) →
      body ((k : Int), toTup e) (ivs, act.map Int.ofNat, pos)
        = some (.yield (
            if e.pos != (if k = 0 then e.pos else pos) then ivs ++ [(if k = 0 then e.pos else pos, act.map Int.ofNat)] else ivs,
            (Regions.step act e).map Int.ofNat,
            if e.pos != (if k = 0 then e.pos else pos) then e.pos else (if k = 0 then e.pos else pos))))
    (hfin : ∀ (ivs : List (Int × List Int)) (act : List Nat) (pos : Int), act.Pairwise (· < ·) →
      fin (ivs, act.map Int.ofNat, pos) = some (ivs ++ [(pos, act.map Int.ofNat)])) :
    ∀ (evs : List Regions.Ev) (k : Nat) (ivs : List (Int × List Int)) (act : List Nat) (pos : Int),
      act.Pairwise (· < ·) →
      (forIn (((evs.map toTup).zipIdx k).map fun p => ((p.2 : Int), p.1)) ((ivs, act.map Int.ofNat, pos) : SwSt) body).bind fin
        = some (ivs ++ ofIdx (Regions.sweep evs (if k = 0 then firstPosOr evs pos else pos) act)) := by
  intro evs
  induction evs with
  | nil =>
    intro k ivs act pos hact
    simp [hfin _ _ _ hact, Regions.sweep, ofIdx, firstPosOr]
  | cons e es ih =>
    intro k ivs act pos hact
    simp only [List.map_cons, List.zipIdx_cons, List.forIn_cons]
    rw [hbody k e ivs act pos hact]
    simp only [Option.bind_eq_bind, Option.bind_some]
    rw [ih (k + 1) _ _ _ (Regions.pairwise_step e hact)]
    have hstep : (if e.start then Regions.insertNat e.idx act else act.erase e.idx) = Regions.step act e := rfl
    simp only [Regions.sweep, hstep, firstPosOr, Nat.add_eq_zero_iff, Nat.succ_ne_self, and_false, if_false]
    generalize (if k = 0 then e.pos else pos) = pos1
    by_cases h : e.pos = pos1
    · simp [h]
    · have hne : (e.pos != pos1) = true := by simpa using h
      simp [hne, ofIdx]

/-- `NewIndex` is the model's `newIndex`, including the panic exactly when the lengths differ -/
theorem NewIndex_eq (hF : GoSrc.NewIndex_Found = true) (hE : GoSrc.eventLess_Found = true)
    (hK : GoSrc.keys_Found = true) (starts ends : List Int) :
    GoSrc.NewIndex starts ends = (Regions.newIndex starts ends).map ofIdx := by
  first
  | exact absurd hF (by decide)
  | (unfold GoSrc.NewIndex
     simp only [Option.pure_def, Option.bind_eq_bind]
     by_cases hlen : starts.length = ends.length
     · have h1 : (len starts != len ends) = false := by simp [len, hlen]
       simp only [h1, Bool.false_eq_true, if_false]
       have hup : upTo (len starts) = (List.range' 0 starts.length).map Int.ofNat := by
         simp [upTo, len, List.range_eq_range']
       rw [hup, events_loop starts ends hlen _ ?_ starts.length 0 [] (by omega)]
       · simp only [Option.bind_some, List.nil_append, List.drop_zero]
         rw [sort_events hE, Regions.newIndex_eq hlen, enum]
         refine (sweep_loop _ _ ?_ ?_ _ 0 [] [] 0 List.Pairwise.nil).trans ?_
         · intro k e ivs act pos hact
           have hkeys := keys_eq_self hK _ (pairwise_map_ofNat act hact)
           by_cases hk : k = 0
           · subst hk
             cases hs : e.start <;>
               simp [toTup, hs, Regions.step, setInsert_map, setErase_map _ _ hact]
           · have hk' : ((k : Int) == 0) = false := by simp; omega
             by_cases hp : e.pos = pos
             · cases hs : e.start <;>
                 simp [toTup, hs, hk, hk', hp, Regions.step, setInsert_map, setErase_map _ _ hact]
             · cases hs : e.start <;>
                 simp [toTup, hs, hk, hk', hp, hkeys, Regions.step, setInsert_map, setErase_map _ _ hact]
         · intro ivs act pos hact
           simp only [keys_eq_self hK _ (pairwise_map_ofNat act hact), Option.bind_some]
         · simp only [if_true, Option.map_some]
           congr 3
       · intro k s e acc hs he
         rw [show Int.ofNat k = (k : Int) from rfl, idx_ofNat, idx_ofNat, hs, he]
         simp only [Option.bind_some]
         by_cases hse : s < e
         · have : ¬ (s ≥ e) := by omega
           simp [hse, this]
         · have : s ≥ e := by omega
           simp [hse, this]
     · have h1 : (len starts != len ends) = true := by simp [len]; omega
       simp only [h1, if_true, Option.bind_none]
       simp [Regions.newIndex, hlen])

/-! ### `sort.Search` and `At` -/

/-- Go's `sort.Search` loop: for a predicate that is total (`f j = some (g j)`) and monotone on `[lo, hi)`,
it returns the least `r ∈ [lo, hi]` from which on `g` holds -/
theorem searchLoop_spec (f : Int → Option Bool) (g : Int → Bool) :
    ∀ (fuel : Nat) (lo hi : Int), lo ≤ hi → (hi - lo).toNat ≤ fuel →
      (∀ j, lo ≤ j → j < hi → f j = some (g j)) →
      (∀ j k, lo ≤ j → j ≤ k → k < hi → g j = true → g k = true) →
      ∃ r, searchLoop f fuel lo hi = some r ∧ lo ≤ r ∧ r ≤ hi
        ∧ (∀ j, lo ≤ j → j < r → g j = false) ∧ (∀ j, r ≤ j → j < hi → g j = true) := by
  intro fuel
  induction fuel with
  | zero =>
    intro lo hi h1 h2 _ _
    have : lo = hi := by omega
    subst this
    exact ⟨lo, rfl, by omega, by omega, fun j _ _ => by omega, fun j _ _ => by omega⟩
  | succ fuel ih =>
    intro lo hi h1 h2 hf hm
    rw [searchLoop]
    by_cases hlt : lo < hi
    · simp only [hlt, if_true]
      have hh1 : lo ≤ (lo + hi) / 2 := by omega
      have hh2 : (lo + hi) / 2 < hi := by omega
      rw [hf _ hh1 hh2]
      simp only [Option.bind_eq_bind, Option.bind_some]
      cases hg : g ((lo + hi) / 2) with
      | false =>
        simp only [Bool.not_false, if_true]
        obtain ⟨r, e, r1, r2, r3, r4⟩ := ih ((lo + hi) / 2 + 1) hi (by omega) (by omega)
          (fun j a b => hf j (by omega) b) (fun j k a b c => hm j k (by omega) b c)
        refine ⟨r, e, by omega, r2, ?_, r4⟩
        intro j a b
        by_cases hj : (lo + hi) / 2 + 1 ≤ j
        · exact r3 j hj b
        · cases hgj : g j with
          | false => rfl
          | true =>
            have := hm j ((lo + hi) / 2) a (by omega) hh2 hgj
            rw [hg] at this; cases this
      | true =>
        simp only [Bool.not_true, Bool.false_eq_true, if_false]
        obtain ⟨r, e, r1, r2, r3, r4⟩ := ih lo ((lo + hi) / 2) hh1 (by omega)
          (fun j a b => hf j a (by omega)) (fun j k a b c => hm j k a b (by omega))
        refine ⟨r, e, r1, by omega, r3, ?_⟩
        intro j a b
        by_cases hj : j < (lo + hi) / 2
        · exact r4 j a hj
        · exact hm ((lo + hi) / 2) j hh1 (by omega) b hg
    · have : lo = hi := by omega
      subst this
      simp only [hlt, if_false]
      exact ⟨lo, rfl, by omega, by omega, fun j _ _ => by omega, fun j _ _ => by omega⟩

theorem searchGo_spec (n : Nat) (f : Int → Option Bool) (g : Int → Bool)
    (hf : ∀ j : Nat, j < n → f (j : Int) = some (g j))
    (hm : ∀ j k : Nat, j ≤ k → k < n → g j = true → g k = true) :
    ∃ r : Nat, searchGo (n : Int) f = some (r : Int) ∧ r ≤ n
      ∧ (∀ j : Nat, j < r → g j = false) ∧ (∀ j : Nat, r ≤ j → j < n → g j = true) := by
  obtain ⟨r, e, r1, r2, r3, r4⟩ := searchLoop_spec f g ((n : Int).toNat + 1) 0 n (by omega) (by omega)
    (fun j a b => by
      have := hf j.toNat (by omega)
      rwa [Int.toNat_of_nonneg a] at this)
    (fun j k a b c d => by
      have := hm j.toNat k.toNat (by omega) (by omega)
      rw [Int.toNat_of_nonneg a, Int.toNat_of_nonneg (by omega)] at this
      exact this d)
  refine ⟨r.toNat, ?_, by omega, ?_, ?_⟩
  · rw [Int.toNat_of_nonneg r1]; exact e
  · intro j hj; exact r3 j (by omega) (by omega)
  · intro j a b; exact r4 j (by omega) (by omega)

theorem takeWhile_eq_take_of {α : Type} (p : α → Bool) : ∀ (l : List α) (r : Nat), r ≤ l.length →
    (∀ j (h : j < l.length), j < r → p l[j] = true) → (∀ (h : r < l.length), p l[r] = false) →
    l.takeWhile p = l.take r := by
  intro l
  induction l with
  | nil => intro r _ _ _; simp
  | cons a l ih =>
    intro r hr h1 h2
    cases r with
    | zero =>
      have := h2 (by simp)
      simp at this
      simp [List.takeWhile_cons, this]
    | succ r =>
      have ha := h1 0 (by simp) (by omega)
      simp only [List.getElem_cons_zero] at ha
      rw [List.takeWhile_cons, ha]
      simp only [if_true, List.take_succ_cons]
      congr 1
      apply ih r (by simpa using hr)
      · intro j hj hjr
        have := h1 (j + 1) (by simpa using hj) (by omega)
        simpa using this
      · intro h
        have := h2 (by simpa using h)
        simpa using this

/-- `At` on an index with strictly ascending breakpoint positions is the model's `at'`; no panic -/
theorem Index_At_eq (hF : GoSrc.Index_At_Found = true) (hC : GoSrc.cp_Found = true) (idx : Regions.Index)
    (hs : idx.Pairwise (fun a b => a.1 < b.1)) (i : Int) :
    GoSrc.Index_At (ofIdx idx) i = some ((Regions.at' idx i).map Int.ofNat) := by
  first
  | exact absurd hF (by decide)
  | (unfold GoSrc.Index_At
     simp only [Option.pure_def, Option.bind_eq_bind]
     have hlen : len (ofIdx idx) = (idx.length : Int) := by simp [len, ofIdx]
     have hget : ∀ j : Nat, j < idx.length → GoRt.idx (ofIdx idx) (j : Int) = (idx[j]?).map fun bp => (bp.1, bp.2.map Int.ofNat) := by
       intro j hj
       rw [idx_ofNat]; simp [ofIdx]
     obtain ⟨r, e, r1, r2, r3⟩ := searchGo_spec idx.length
       (fun j => (GoRt.idx (ofIdx idx) j).bind fun d => some (decide (d.fst > i)))
       (fun j => match idx[j.toNat]? with | some bp => decide (bp.1 > i) | none => false)
       (fun j hj => by
         simp only [hget j hj]
         simp [hj])
       (fun j k hjk hk => by
         have hj : j < idx.length := by omega
         simp only [Int.toNat_natCast, List.getElem?_eq_getElem hj, List.getElem?_eq_getElem hk, decide_eq_true_eq]
         intro h
         rcases Nat.lt_or_eq_of_le hjk with h' | h'
         · have := List.pairwise_iff_getElem.1 hs j k hj hk h'
           omega
         · subst h'; exact h)
     rw [hlen, e]
     simp only [Option.bind_some]
     have htw : idx.takeWhile (fun bp => decide (bp.1 ≤ i)) = idx.take r := by
       apply takeWhile_eq_take_of _ idx r r1
       · intro j hj hjr
         have := r2 j hjr
         simp only [Int.toNat_natCast, List.getElem?_eq_getElem hj] at this
         simpa using this
       · intro h
         have := r3 r (Nat.le_refl _) h
         simp only [Int.toNat_natCast, List.getElem?_eq_getElem h] at this
         simp at this ⊢; omega
     unfold Regions.at'
     rw [htw]
     cases r with
     | zero => simp
     | succ r =>
       have hr : r < idx.length := by omega
       have h0 : (((r + 1 : Nat) : Int) == 0) = false := by simp; omega
       have h1 : ((r + 1 : Nat) : Int) - 1 = (r : Int) := by omega
       simp only [h0, h1, hget r hr, Bool.false_eq_true, if_false]
       simp [List.getLast?_take, hr, cp_eq hC])

/-! ## `(*SAM).Write` -/

theorem sam_write_loop (body : Bytes → WrSt → Option (ForInStep WrSt))
    (hbody : ∀ (t : Bytes) (o : Option (GoErr × Wr)) (w : Wr),
      body t (o, w)
        = some (if (wrWrite w (TAB :: t)).2 = GoErr.nil
            then .yield (none, (wrWrite w (TAB :: t)).1)
            else .done (some ((wrWrite w (TAB :: t)).2, (wrWrite w (TAB :: t)).1), (wrWrite w (TAB :: t)).1))) :
    ∀ (ts : List Bytes) (w : Wr),
      forIn ts ((none, w) : WrSt) body = some (wrResult (wrWriteAll w (ts.map (TAB :: ·)))) := by
  intro ts
  induction ts with
  | nil => intro w; simp [wrWriteAll, wrResult]
  | cons t ts ih =>
    intro w
    simp only [List.forIn_cons, hbody, List.map_cons, wrWriteAll, Option.bind_eq_bind, Option.bind_some]
    by_cases hw : (wrWrite w (TAB :: t)).2 = GoErr.nil
    · simp only [hw, if_true]
      rw [ih]
    · simp [hw, wrResult]

theorem wrWriteAll_append (w : Wr) (a b : List Bytes) :
    wrWriteAll w (a ++ b) = if (wrWriteAll w a).2 = GoErr.nil then wrWriteAll (wrWriteAll w a).1 b else wrWriteAll w a := by
  induction a generalizing w with
  | nil => simp [wrWriteAll]
  | cons c cs ih =>
    simp only [List.cons_append, wrWriteAll]
    by_cases h : (wrWrite w c).2 = GoErr.nil
    · simp only [h, if_true, ih]
    · simp [h]

/-- `(*SAM).Write` performs the model's `Write` calls in order, stopping at the first error -/
theorem sam_Write_eq (hF : GoSrc.sam_Write_Found = true) (s : Sam.Sam) (w : Wr) :
    GoSrc.sam_Write s.qname s.flag s.rname s.pos s.mapq s.cigar s.rnext s.pnext s.tlen s.seq s.qual
        (Sam.tagsToText s.tags) w
      = some (let r := wrWriteAll w (Sam.writeCalls s); (r.2, r.1)) := by
  first
  | exact absurd hF (by decide)
  | (unfold GoSrc.sam_Write
     simp only [Option.pure_def, Option.bind_eq_bind]
     have hc : (s.qname ++ [9] ++ itoa s.flag ++ [9] ++ s.rname ++ [9] ++ itoa s.pos ++ [9] ++ itoa s.mapq ++ [9] ++
         s.cigar ++ [9] ++ s.rnext ++ [9] ++ itoa s.pnext ++ [9] ++ itoa s.tlen ++ [9] ++ s.seq ++ [9] ++ s.qual : Bytes)
         = joinWith TAB (Sam.fields11 s) := by
       simp [Sam.fields11, joinWith, TAB]
     rw [hc]
     have hcalls : Sam.writeCalls s = [joinWith TAB (Sam.fields11 s)] ++ ((Sam.tagsToText s.tags).map (TAB :: ·) ++ [[10]]) := rfl
     rw [hcalls, wrWriteAll_append, wrWriteAll_append, wrWriteAll_singleton]
     generalize wrWrite w (joinWith TAB (Sam.fields11 s)) = r0
     by_cases h0 : r0.2 = GoErr.nil
     · rw [sam_write_loop _ ?_ _ _]
       · simp only [h0, wrResult, if_true]
         generalize wrWriteAll r0.1 ((Sam.tagsToText s.tags).map (TAB :: ·)) = r1
         by_cases h1 : r1.2 = GoErr.nil
         · simp only [h1, wrWriteAll_singleton]
           by_cases h2 : (wrWrite r1.1 [10]).2 = GoErr.nil <;> simp [h2]
         · simp [h1]
       · intro t o w'
         show (if ((wrWrite w' ([9] ++ t)).2 != GoErr.nil) = true then _ else _) = _
         rw [show ([9] ++ t : Bytes) = TAB :: t from rfl]
         by_cases hw : (wrWrite w' (TAB :: t)).2 = GoErr.nil <;> simp [hw]
     · simp [h0])
end Bio.GoSrcLemmas
