/-
  `(*Node).traverse`, `PreOrder`, `PostOrder` of formats/newick/traverse.go, translated from the Go
  source text on every run into `Bio.Generated.GoSrc.traverse` / `PreOrder` / `PostOrder` (the
  `for len(stack) > 0 { … }` loop bounded by `fuel`, the consumer asked about the whole history of
  nodes handed to it, the result = the log of those nodes; `none` = a Go panic or out of fuel).

  * `trav_loop`: the translated loop started from ANY well-formed stack and ANY log is the hand
    model's history machine `IterH.travH` on the reversed stack (the Go stack has its top frame
    last, the model's first): one loop iteration = one `travH` step;
  * hence `GoSrc.traverse fuel t pre h = some (traverseH pre h t)` for `2 * size + 1 ≤ fuel`
    (`2 * size` suffices: `traverse_eq'`), which is the recursive pre- or post-order cut by the consumer.

  Guarded by the translator's `<f>_Found` flags as in `Bio.Lemmas.GoSrc`.
-/
import Bio.Generated.GoSrc
import Bio.Lemmas.GoRt
import Bio.Lemmas.Traverse
import Bio.Lemmas.IterH
set_option linter.unusedVariables false
set_option linter.unusedSimpArgs false
namespace Bio.GoSrcLemmas
open Bio Bio.GoRt Bio.Generated Bio.Newick

/-! ## `n.Children` -/

theorem forestList_length (f : Forest) : (forestList f).length = f.length := by
  induction f with
  | nil => rfl
  | cons n d k r _ ih => simp [forestList, Forest.length, ih]; omega

theorem forestList_getElem? (f : Forest) (i : Nat) : (forestList f)[i]? = f.get? i := by
  induction f generalizing i with
  | nil => cases i <;> rfl
  | cons n d k r _ ih =>
    cases i with
    | zero => rfl
    | succ i => simpa [forestList, Forest.get?] using ih i

theorem len_kidsOf (t : Tree) : len (kidsOf t) = (t.kids.length : Int) := by
  simp [len, kidsOf, forestList_length]

theorem idx_kidsOf (t : Tree) (i : Nat) : idx (kidsOf t) (i : Int) = t.kids.get? i := by
  rw [idx_ofNat, kidsOf, forestList_getElem?]

/-! ## The stack: a Go slice whose LAST element is the top frame -/

theorem len_snoc_pos {α : Type} (A : List α) (x : α) : decide (len (A ++ [x]) > 0) = true := by
  simp [len]

theorem len_nil_pos {α : Type} : decide (len ([] : List α) > 0) = false := by
  simp [len]

theorem len_snoc_sub {α : Type} (A : List α) (x : α) : len (A ++ [x]) - 1 = (A.length : Int) := by
  simp [len]

theorem idx_snoc_last {α : Type} (A : List α) (x : α) : idx (A ++ [x]) (A.length : Int) = some x := by
  rw [idx_ofNat]; simp

theorem idx_snoc2 {α : Type} (A : List α) (x y : α) :
    idx (A ++ [x] ++ [y]) (A.length : Int) = some x := by
  rw [idx_ofNat]; simp

theorem setIdx_snoc2 {α : Type} (A : List α) (x y v : α) :
    setIdx (A ++ [x] ++ [y]) (A.length : Int) v = some (A ++ [v] ++ [y]) := by
  rw [setIdx_ofNat]; simp

theorem slice_snoc {α : Type} (A : List α) (x : α) :
    slice (A ++ [x]) 0 (A.length : Int) = some A := by
  have := slice_ofNat (A ++ [x]) 0 A.length (Nat.zero_le _) (by simp)
  simpa using this

theorem int_beq_natCast (i j : Nat) : ((i : Int) == (j : Int)) = (i == j) := by
  rw [Bool.eq_iff_iff]; simp; omega

theorem int_beq_zero (i : Nat) : ((i : Int) == 0) = (i == 0) := by
  have := int_beq_natCast i 0
  simpa using this

/-- the Go stack of a model stack (top frame first): reversed, child indices as Go `int`s -/
def encStack (s : List (Tree × Nat)) : List (Tree × Int) := s.reverse.map fun p => (p.1, (p.2 : Int))

theorem encStack_nil : encStack [] = [] := rfl

theorem encStack_cons (n : Tree) (i : Nat) (s : List (Tree × Nat)) :
    encStack ((n, i) :: s) = encStack s ++ [(n, (i : Int))] := by
  simp [encStack]

/-! ## One loop iteration = one `travH` step -/

abbrev TravSt := Option (List Tree) × List Tree × List (Tree × Int) × Bool

/-- what one iteration of the translated loop does on the frame `(n, i)` on top of `s`, with log `acc`
(`cur` = the Go stack at the start of the iteration, `b` = the `done` flag) -/
def travStep (pre : Bool) (h : List Tree → Bool) (acc : List Tree) (n : Tree) (i : Nat)
    (s : List (Tree × Nat)) (cur : List (Tree × Int)) (b : Bool) : Option (ForInStep TravSt) :=
  let go : List Tree → Option (ForInStep TravSt) := fun acc =>
    if i == n.kids.length then
      if !pre then
        (if h (acc ++ [n]) then some (.yield (none, acc ++ [n], encStack s, b))
         else some (.done (some (acc ++ [n]), acc ++ [n], cur, b)))
      else some (.yield (none, acc, encStack s, b))
    else match n.kids.get? i with
      | some c => some (.yield (none, acc, encStack ((c, 0) :: (n, i + 1) :: s), b))
      | none => none
  if pre && i == 0 then
    (if h (acc ++ [n]) then go (acc ++ [n]) else some (.done (some (acc ++ [n]), acc ++ [n], cur, b)))
  else go acc

/-- the loop of the translated `traverse`, from any well-formed stack and any log: with
`work s + 1` iterations available it ends by itself, and its log is the model machine's (`travH`,
any fuel `m ≥ work s`) -/
theorem trav_loop (pre : Bool) (h : List Tree → Bool)
    (body : Nat → TravSt → Option (ForInStep TravSt)) (fin : TravSt → Option (List Tree))
    (hnil : ∀ k acc b, body k (none, acc, [], b) = some (.done (none, acc, [], true)))
    (hbody : ∀ k acc n i s b,
      body k (none, acc, encStack ((n, i) :: s), b) = travStep pre h acc n i s (encStack ((n, i) :: s)) b)
    (hfin : ∀ st, fin st = match st.1 with
      | some r => some r
      | none => if st.2.2.2 = true then some st.2.1 else none)
    (l : List Nat) : ∀ (s : List (Tree × Nat)) (acc : List Tree) (m : Nat),
      WF s → work s + 1 ≤ l.length → work s ≤ m →
      (forIn l ((none, acc, encStack s, false) : TravSt) body).bind fin
        = some (IterH.travH pre h m s acc) := by
  induction l with
  | nil => intro s acc m _ hl _; simp at hl
  | cons a l ih =>
    intro s acc m hwf hl hm
    cases s with
    | nil =>
      simp only [List.forIn_cons, encStack_nil, hnil, Option.bind_eq_bind, Option.bind_some, hfin]
      cases m <;> simp [IterH.travH, hfin]
    | cons x s =>
      obtain ⟨n, i⟩ := x
      have hi : i ≤ n.kids.length := hwf (n, i) (by simp)
      have hwfs : WF s := fun y hy => hwf y (by simp [hy])
      cases m with
      | zero => simp [work] at hm
      | succ m =>
        simp only [List.forIn_cons, hbody, Option.bind_eq_bind]
        simp only [List.length_cons] at hl
        cases hd : Forest.drop i n.kids with
        | nil =>
          have hil : (i == n.kids.length) = true := by
            simpa using (Forest.drop_eq_nil_iff _ _ hi).1 hd
          have hw : work s ≤ m := by simp [work, hd, Forest.size] at hm; omega
          have hw' : work s + 1 ≤ l.length := by simp [work, hd, Forest.size] at hl; omega
          have ih1 := fun acc => ih s acc m hwfs hw' hw
          cases pre <;> cases h0 : (i == 0) <;> cases hh : h (acc ++ [n]) <;>
            (try cases hh2 : h (acc ++ [n] ++ [n])) <;>
            simp [travStep, IterH.travH, hil, h0, hh, hfin, ih1]
        | cons c d kk r =>
          obtain ⟨hget, hdrop, hlt⟩ := Forest.drop_eq_cons _ _ hd
          have hne : (i == n.kids.length) = false := by simp; omega
          have hwf' : WF ((⟨c, d, kk⟩, 0) :: (n, i + 1) :: s) := by
            intro y hy
            simp only [List.mem_cons] at hy
            rcases hy with rfl | rfl | hy
            · simp
            · exact hlt
            · exact hwfs y hy
          have hw : work ((⟨c, d, kk⟩, 0) :: (n, i + 1) :: s) ≤ m := by
            simp only [work, hd, Forest.size, Forest.drop_zero, hdrop] at hm ⊢; omega
          have hw' : work ((⟨c, d, kk⟩, 0) :: (n, i + 1) :: s) + 1 ≤ l.length := by
            simp only [work, hd, Forest.size, Forest.drop_zero, hdrop] at hl ⊢; omega
          have ih1 := fun acc => ih _ acc m hwf' hw' hw
          cases pre <;> cases h0 : (i == 0) <;> cases hh : h (acc ++ [n]) <;>
            simp [travStep, IterH.travH, hne, h0, hh, hfin, hget, ih1]

/-- … and with at most `work s` iterations available a consumer that never stops is not done: the
translated loop runs out of fuel (`none`) — the bound of `trav_loop` is sharp -/
theorem trav_loop_short (pre : Bool)
    (body : Nat → TravSt → Option (ForInStep TravSt)) (fin : TravSt → Option (List Tree))
    (hbody : ∀ k acc n i s b,
      body k (none, acc, encStack ((n, i) :: s), b)
        = travStep pre (fun _ => true) acc n i s (encStack ((n, i) :: s)) b)
    (hfin : ∀ st, fin st = match st.1 with
      | some r => some r
      | none => if st.2.2.2 = true then some st.2.1 else none)
    (l : List Nat) : ∀ (s : List (Tree × Nat)) (acc : List Tree),
      WF s → l.length ≤ work s →
      (forIn l ((none, acc, encStack s, false) : TravSt) body).bind fin = none := by
  induction l with
  | nil => intro s acc _ _; simp [hfin]
  | cons a l ih =>
    intro s acc hwf hl
    cases s with
    | nil => simp [work] at hl
    | cons x s =>
      obtain ⟨n, i⟩ := x
      have hi : i ≤ n.kids.length := hwf (n, i) (by simp)
      have hwfs : WF s := fun y hy => hwf y (by simp [hy])
      simp only [List.forIn_cons, hbody, Option.bind_eq_bind]
      simp only [List.length_cons] at hl
      cases hd : Forest.drop i n.kids with
      | nil =>
        have hil : (i == n.kids.length) = true := by
          simpa using (Forest.drop_eq_nil_iff _ _ hi).1 hd
        have hw' : l.length ≤ work s := by simp [work, hd, Forest.size] at hl; omega
        have ih1 := fun acc => ih s acc hwfs hw'
        cases pre <;> cases h0 : (i == 0) <;> simp [travStep, hil, h0, ih1]
      | cons c d kk r =>
        obtain ⟨hget, hdrop, hlt⟩ := Forest.drop_eq_cons _ _ hd
        have hne : (i == n.kids.length) = false := by simp; omega
        have hwf' : WF ((⟨c, d, kk⟩, 0) :: (n, i + 1) :: s) := by
          intro y hy
          simp only [List.mem_cons] at hy
          rcases hy with rfl | rfl | hy
          · simp
          · exact hlt
          · exact hwfs y hy
        have hw' : l.length ≤ work ((⟨c, d, kk⟩, 0) :: (n, i + 1) :: s) := by
          simp only [work, hd, Forest.size, Forest.drop_zero, hdrop] at hl ⊢; omega
        have ih1 := fun acc => ih _ acc hwf' hw'
        cases pre <;> cases h0 : (i == 0) <;> simp [travStep, hne, h0, hget, ih1]

/-! ## The translated functions -/

theorem work_single (t : Tree) : work [(t, 0)] = 2 * t.size - 1 := by
  simp only [work, Forest.drop_zero, Tree.size]; omega

theorem WF_single (t : Tree) : WF [(t, 0)] := by
  intro x hx; simp at hx; subst hx; simp

/-- the translated `traverse` is the model machine started on `[(t, 0)]`, any model fuel
`m ≥ 2 * size - 1`, as soon as `2 * size ≤ fuel` -/
theorem traverse_travH (hF : GoSrc.traverse_Found = true) (t : Tree) (pre : Bool)
    (h : List Tree → Bool) (fuel m : Nat) (hf : 2 * t.size ≤ fuel) (hm : 2 * t.size ≤ m + 1) :
    GoSrc.traverse fuel t pre h = some (IterH.travH pre h m [(t, 0)] []) := by
  first
  | exact absurd hF (by decide)
  | (unfold GoSrc.traverse
     simp only [Option.pure_def, Option.bind_eq_bind]
     have e : [(t, (0 : Int))] = encStack [(t, 0)] := rfl
     rw [e]
     have hw := work_single t
     have hs : 1 ≤ t.size := by simp [Tree.size]
     refine trav_loop pre h _ _ ?_ ?_ ?_ (List.range fuel) [(t, 0)] [] m (WF_single t)
       (by rw [List.length_range]; omega) (by omega)
     · intro k acc b
       simp [len_nil_pos]
     · intro k acc n i s b
       simp only [travStep, encStack_cons]
       generalize encStack s = A
       simp only [len_snoc_pos, len_snoc_sub, idx_snoc_last, idx_snoc2, setIdx_snoc2, slice_snoc,
         Option.bind_some, int_beq_zero, len_kidsOf, int_beq_natCast, idx_kidsOf, Bool.not_true,
         Bool.false_eq_true, if_false]
       cases pre <;> cases h0 : (i == 0) <;> cases hl : (i == n.kids.length) <;>
         cases hh : h (acc ++ [n]) <;> cases hg : n.kids.get? i <;>
         (try cases hh2 : h (acc ++ [n] ++ [n])) <;> simp
     · intro st
       rcases st with ⟨_ | r, log, s, _ | _⟩ <;> rfl)

/-- the fuel bound is sharp: with fewer than `2 * size` iterations a consumer that never stops is
not done (the translation reports `none` = no claim) -/
theorem traverse_short (hF : GoSrc.traverse_Found = true) (t : Tree) (pre : Bool) (fuel : Nat)
    (hf : fuel < 2 * t.size) : GoSrc.traverse fuel t pre (fun _ => true) = none := by
  first
  | exact absurd hF (by decide)
  | (unfold GoSrc.traverse
     simp only [Option.pure_def, Option.bind_eq_bind]
     have e : [(t, (0 : Int))] = encStack [(t, 0)] := rfl
     rw [e]
     have hw := work_single t
     refine trav_loop_short pre _ _ ?_ ?_ (List.range fuel) [(t, 0)] [] (WF_single t)
       (by rw [List.length_range]; omega)
     · intro k acc n i s b
       simp only [travStep, encStack_cons]
       generalize encStack s = A
       simp only [len_snoc_pos, len_snoc_sub, idx_snoc_last, idx_snoc2, setIdx_snoc2, slice_snoc,
         Option.bind_some, int_beq_zero, len_kidsOf, int_beq_natCast, idx_kidsOf, Bool.not_true,
         Bool.false_eq_true, if_false]
       cases pre <;> cases h0 : (i == 0) <;> cases hl : (i == n.kids.length) <;>
         cases hg : n.kids.get? i <;> simp
     · intro st
       rcases st with ⟨_ | r, log, s, _ | _⟩ <;> rfl)

/-- the translated `traverse` is the hand model `IterH.traverseH` -/
theorem traverse_eq (hF : GoSrc.traverse_Found = true) (t : Tree) (pre : Bool)
    (h : List Tree → Bool) (fuel : Nat) (hf : 2 * t.size ≤ fuel) :
    GoSrc.traverse fuel t pre h = some (IterH.traverseH pre h t) :=
  traverse_travH hF t pre h fuel _ hf (by omega)

/-- … i.e. the recursive pre- or post-order, cut after the first node at which the consumer said stop -/
theorem traverse_log (hF : GoSrc.traverse_Found = true) (t : Tree) (pre : Bool)
    (h : List Tree → Bool) (fuel : Nat) (hf : 2 * t.size ≤ fuel) :
    GoSrc.traverse fuel t pre h
      = some (takeThroughH h [] (if pre then preRec t else postRec t)) := by
  rw [traverse_eq hF t pre h fuel hf, IterH.traverseH_log]

theorem PreOrder_eq_traverse (hP : GoSrc.PreOrder_Found = true) (fuel : Nat) (t : Tree)
    (h : List Tree → Bool) : GoSrc.PreOrder fuel t h = GoSrc.traverse fuel t true h := by
  first
  | exact absurd hP (by decide)
  | (unfold GoSrc.PreOrder
     cases GoSrc.traverse fuel t true h <;> rfl)

theorem PostOrder_eq_traverse (hP : GoSrc.PostOrder_Found = true) (fuel : Nat) (t : Tree)
    (h : List Tree → Bool) : GoSrc.PostOrder fuel t h = GoSrc.traverse fuel t false h := by
  first
  | exact absurd hP (by decide)
  | (unfold GoSrc.PostOrder
     cases GoSrc.traverse fuel t false h <;> rfl)

theorem takeThroughH_true_nil {α : Type} (L : List α) :
    takeThroughH (fun _ : List α => true) [] L = L := by
  simpa using IterH.takeThroughH_true L []

theorem preRec_length (t : Tree) : (preRec t).length = t.size := by
  simp [preRec, preRecF_length, Tree.size]; omega

theorem postRec_length (t : Tree) : (postRec t).length = t.size := by
  simp [postRec, postRecF_length, Tree.size]; omega

/-! ## The recursive orders over `n.Children` -/

theorem preRecF_forestList (k : Forest) : preRecF k = (forestList k).flatMap preRec := by
  induction k with
  | nil => rfl
  | cons n d kk r _ ih => simp [preRecF, forestList, preRec, ih]

theorem postRecF_forestList (k : Forest) : postRecF k = (forestList k).flatMap postRec := by
  induction k with
  | nil => rfl
  | cons n d kk r _ ih => simp [postRecF, forestList, postRec, ih]

theorem preRec_kidsOf (t : Tree) : preRec t = t :: (kidsOf t).flatMap preRec := by
  rw [preRec, preRecF_forestList, kidsOf]

theorem postRec_kidsOf (t : Tree) : postRec t = (kidsOf t).flatMap postRec ++ [t] := by
  rw [postRec, postRecF_forestList, kidsOf]

theorem size_of_mem_forestList (k : Forest) (c : Tree) (hc : c ∈ forestList k) : c.size ≤ k.size := by
  induction k with
  | nil => simp [forestList] at hc
  | cons n d kk r _ ih =>
    simp only [forestList, List.mem_cons] at hc
    rcases hc with rfl | hc
    · simp [Tree.size, Forest.size]
    · have := ih hc; simp only [Forest.size]; omega

theorem size_of_mem_kidsOf (t c : Tree) (hc : c ∈ kidsOf t) : c.size < t.size := by
  have := size_of_mem_forestList t.kids c hc
  simp only [Tree.size] at this ⊢; omega

theorem preRecF_perm_postRecF' (k : Forest) : (preRecF k).Perm (postRecF k) := by
  induction k with
  | nil => exact .refl _
  | cons n d kk r ih1 ih2 =>
    simp only [preRecF, postRecF]
    exact ((ih1.append ih2).cons _).trans List.perm_middle.symm

theorem preRec_perm_postRec (t : Tree) : (preRec t).Perm (postRec t) := by
  rw [preRec, postRec]
  exact ((preRecF_perm_postRecF' t.kids).cons t).trans
    (List.perm_append_singleton t (postRecF t.kids)).symm

end Bio.GoSrcLemmas
