/-
  trie/trie.go at the Go SOURCE level, part 5: `(*Trie).keys` and `(*Trie).ForEach`.

  `Bio.Generated.GoSrc.Trie_keys` / `Trie_ForEach` are translated statement by statement from
  trie/trie.go.  `*Trie` values live in the explicit `heap` (see `GoSrcTrie1`); the `*forEachStep`
  values never leave the function, so their cells live in a FUNCTION-LOCAL heap
  `lheap : List (Int × Bytes × Int)` (fields `t`, `k`, `i`) that starts empty; the Go stack is a
  list of indices into it, top frame LAST; `for k := range t.m` visits the association list in list
  order; the callback is a history consumer and the result is the log of items handed to it.

  * `Trie_keys_eq`: `keys` of a node = the keys of its edge list, in list order.
  * `Sim heap lheap qs s`: the Go stack `qs` (top first here) and the model stack `s` of
    `IterH.eachLoopH` are frame by frame the same: frame `j` is a cell `(p, keys of node p, i)` of
    `lheap`, the model frame's `rem` is the sub-trie of the edges `i, i+1, …` of node `p`, and
    `leaf` says whether node `p` has no edges at all.  The nodes on the stack are maps (distinct
    keys) and so is everything below their unvisited edges.
  * `each_loop`: one iteration of the translated `for { }` = one step of `eachLoopH`; with
    `stackCost s` iterations available the loop ends by itself.
  * `each_loop_short`: with fewer a consumer that never stops is not done: `none`.
  * `ForEach_eq`: `Trie_ForEach fuel heap n h = some (forEachLogH h t)` for `2 * size + 1 ≤ fuel`.
  * `size_run`: the trie after a history has at most as many edges as bytes were added.

  Guarded by the translator's `<f>_Found` flags as in `Bio.Lemmas.GoSrc`.
-/
import Bio.Lemmas.GoSrcTrie
import Bio.Lemmas.GoSrcTraverse
import Bio.Lemmas.IterH
set_option linter.unusedVariables false
set_option linter.unusedSimpArgs false
namespace Bio.GoSrcLemmas
namespace TrieEach
open Bio Bio.GoRt Bio.Generated Bio.Trie Bio.GoSrcLemmas.TrieGo

/-- the function-local heap of `*forEachStep` cells: fields `t`, `k`, `i` -/
abbrev LHeap := List (Int × Bytes × Int)

/-! ## `keys` -/

theorem forIn_keys (es : List (UInt8 × Int)) : ∀ (r : Bytes),
    forIn es r (fun (x : UInt8 × Int) (s : Bytes) =>
      (some (ForInStep.yield (s ++ [x.1])) : Option (ForInStep Bytes))) = some (r ++ es.map Prod.fst) := by
  induction es with
  | nil => intro r; simp
  | cons e es ih => intro r; simp [List.forIn_cons, ih]

theorem Trie_keys_eq (hK : GoSrc.Trie_keys_Found = true) (heap : Heap) (n : Nat)
    (es : List (UInt8 × Int)) (hn : heap[n]? = some es) :
    GoSrc.Trie_keys heap (n : Int) = some (es.map Prod.fst) := by
  first
  | exact absurd hK (by decide)
  | (unfold GoSrc.Trie_keys
     have hc : makeCap (α := UInt8) (len es) = some [] := by
       unfold makeCap len
       rw [if_neg (by omega)]
     simp only [Option.pure_def, Option.bind_eq_bind, idx_ofNat, hn, Option.bind_some, hc,
       forIn_keys, List.nil_append])

theorem Trie_keys_none (hK : GoSrc.Trie_keys_Found = true) (heap : Heap) (p : Int) :
    GoSrc.Trie_keys heap p = none ↔ (p < 0 ∨ (heap.length : Int) ≤ p) := by
  by_cases hp : p < 0
  · constructor
    · intro _; exact Or.inl hp
    · intro _
      first
      | exact absurd hK (by decide)
      | (unfold GoSrc.Trie_keys
         simp [idx, hp])
  · have e : p = (p.toNat : Int) := by omega
    cases hn : heap[p.toNat]? with
    | none =>
      have hl : heap.length ≤ p.toNat := by simpa using hn
      constructor
      · intro _; right; omega
      · intro _
        first
        | exact absurd hK (by decide)
        | (unfold GoSrc.Trie_keys
           have hi : idx heap p = none := by unfold idx; rw [if_neg hp]; exact hn
           simp [hi])
    | some es =>
      have hl : p.toNat < heap.length := (List.getElem?_eq_some_iff.1 hn).1
      rw [e, Trie_keys_eq hK heap p.toNat es hn]
      constructor
      · intro h; cases h
      · intro h; omega

/-! ## Go maps with distinct keys -/

theorem mapGet_of_mem (es : List (UInt8 × Int)) (k : UInt8) (v z : Int)
    (hnd : (es.map Prod.fst).Nodup) (hm : (k, v) ∈ es) : mapGet es k z = v := by
  induction es with
  | nil => simp at hm
  | cons e es ih =>
    obtain ⟨k', v'⟩ := e
    rw [mapGet_cons]
    simp only [List.map_cons, List.nodup_cons] at hnd
    rcases List.mem_cons.1 hm with heq | hm'
    · cases heq; simp
    · have : k' ≠ k := fun hk => hnd.1 (hk ▸ List.mem_map.2 ⟨(k, v), hm', rfl⟩)
      simp [this, ih hnd.2 hm']

/-! ## The simulation relation -/

theorem cost_pos (t : T) : 1 ≤ cost t := by
  cases t <;> simp [cost] <;> omega

/-- the Go frame `q` (a cell of `lheap`) is the model frame `f` -/
def FrameOK (heap : Heap) (lheap : LHeap) (q : Int) (f : Bool × T) : Prop :=
  ∃ (qn p i : Nat) (es : List (UInt8 × Int)) (S : List Nat),
    q = (qn : Int) ∧ lheap[qn]? = some ((p : Int), es.map Prod.fst, (i : Int)) ∧
    heap[p]? = some es ∧ i ≤ es.length ∧ RepE heap (es.drop i) f.2 S ∧ f.1 = es.isEmpty ∧
    (es.map Prod.fst).Nodup ∧ KeysOK heap S

/-- the Go stack (top frame first here) is the model stack, frame by frame; the cells are distinct -/
inductive Sim (heap : Heap) (lheap : LHeap) : List Int → List (Bool × T) → Prop
  | nil : Sim heap lheap [] []
  | cons {q : Int} {qs : List Int} {f : Bool × T} {s : List (Bool × T)} :
      FrameOK heap lheap q f → q ∉ qs → Sim heap lheap qs s → Sim heap lheap (q :: qs) (f :: s)

theorem FrameOK.lt {heap : Heap} {lheap : LHeap} {q : Int} {f : Bool × T}
    (h : FrameOK heap lheap q f) : 0 ≤ q ∧ q < (lheap.length : Int) := by
  obtain ⟨qn, p, i, es, S, rfl, hq, _⟩ := h
  have := (List.getElem?_eq_some_iff.1 hq).1
  omega

theorem Sim.lt {heap : Heap} {lheap : LHeap} {qs s} (h : Sim heap lheap qs s) :
    ∀ q ∈ qs, 0 ≤ q ∧ q < (lheap.length : Int) := by
  induction h with
  | nil => simp
  | cons hf _ _ ih =>
    intro q hq
    rcases List.mem_cons.1 hq with rfl | hq
    · exact hf.lt
    · exact ih q hq

theorem Sim.length {heap : Heap} {lheap : LHeap} {qs s} (h : Sim heap lheap qs s) :
    qs.length = s.length := by
  induction h with
  | nil => rfl
  | cons _ _ _ ih => simp [ih]

/-- a local heap that agrees on the cells of the stack carries the same stack -/
theorem Sim.mono {heap : Heap} {lheap lheap' : LHeap} {qs s} (h : Sim heap lheap qs s)
    (hag : ∀ (qn : Nat), (qn : Int) ∈ qs → lheap'[qn]? = lheap[qn]?) : Sim heap lheap' qs s := by
  induction h with
  | nil => exact .nil
  | @cons q qs f s hf hnot _ ih =>
    refine .cons ?_ hnot (ih fun qn hqn => hag qn (List.mem_cons_of_mem _ hqn))
    obtain ⟨qn, p, i, es, S, rfl, hq, rest⟩ := hf
    exact ⟨qn, p, i, es, S, rfl, by rw [hag qn (by simp)]; exact hq, rest⟩

/-! ## One loop iteration -/

abbrev EachSt := List Bytes × LHeap × List Int × Bytes × Bool

/-- what one iteration of the translated loop does after the leaf report, on the frame `qn` (cell
`(p, ks, i)`, node `p` with edges `es`) on top of the stack `A`, with log `log` -/
def contSpec (keysF : Int → Option Bytes) (lheap : LHeap) (A : List Int) (qn p i : Nat) (ks : Bytes)
    (es : List (UInt8 × Int)) (cur : Bytes) (b : Bool) (log : List Bytes) :
    Option (ForInStep EachSt) :=
  if i == es.length then
    if A.length == 0 then some (.done (log, lheap, A, cur, true))
    else (slice cur 0 (len cur - 1)).bind fun cur' => some (.yield (log, lheap, A, cur', b))
  else
    (ks[i]?).bind fun key =>
      (keysF (mapGet es key (-1))).bind fun ck =>
        some (.yield (log,
          (lheap ++ [(mapGet es key (-1), ck, (0 : Int))]).set qn ((p : Int), ks, ((i : Int) + 1)),
          A ++ [(qn : Int)] ++ [(lheap.length : Int)], cur ++ [key], b))

/-- one iteration of the translated loop -/
def stepSpec (f : List Bytes → Bool) (keysF : Int → Option Bytes) (lheap : LHeap) (A : List Int)
    (qn p i : Nat) (ks : Bytes) (es : List (UInt8 × Int)) (cur : Bytes) (b : Bool)
    (log : List Bytes) : Option (ForInStep EachSt) :=
  if es.isEmpty && !cur.isEmpty then
    if f (log ++ [cur]) then contSpec keysF lheap A qn p i ks es cur b (log ++ [cur])
    else some (.done (log ++ [cur], lheap, A ++ [(qn : Int)], cur, true))
  else contSpec keysF lheap A qn p i ks es cur b log

/-- the model's step after the leaf report -/
def contM (h : List Bytes → Bool) (m : Nat) (leaf : Bool) (rem : T) (s : List (Bool × T))
    (cur : Bytes) (acc : List Bytes) : List Bytes :=
  match rem with
  | .nil =>
    match s with
    | [] => acc
    | _ => IterH.eachLoopH h m s (cur.drop 1) acc
  | .cons k c r => IterH.eachLoopH h m ((c.isNil, c) :: (leaf, r) :: s) (k :: cur) acc

theorem eachLoopH_succ (h : List Bytes → Bool) (m : Nat) (leaf : Bool) (rem : T)
    (s : List (Bool × T)) (cur : Bytes) (acc : List Bytes) :
    IterH.eachLoopH h (m + 1) ((leaf, rem) :: s) cur acc =
      if (leaf && !cur.isEmpty) = true then
        (if h (acc ++ [cur.reverse]) = true then contM h m leaf rem s cur (acc ++ [cur.reverse])
         else acc ++ [cur.reverse])
      else contM h m leaf rem s cur acc := by
  cases rem <;> cases s <;> rfl

/-! ## The loop -/

theorem isNil_eq_isEmpty {heap : Heap} {es t S} (h : RepE heap es t S) : t.isNil = es.isEmpty := by
  cases h <;> rfl

/-- the push step: the child cell is appended to the local heap, the index of the frame below is
advanced; everything further down is untouched -/
theorem Sim.push {heap : Heap} {lheap : LHeap} {qs' : List Int} {s' : List (Bool × T)}
    {qn p i c : Nat} {es es' : List (UInt8 × Int)} {tc tr : T} {Sc Sr : List Nat} {leaf : Bool}
    (hs' : Sim heap lheap qs' s') (hnot : (qn : Int) ∉ qs') (hqlt : qn < lheap.length)
    (hp : heap[p]? = some es) (hilt : i < es.length) (hc : heap[c]? = some es')
    (hc1 : RepE heap es' tc Sc) (hr2 : RepE heap (es.drop (i + 1)) tr Sr) (hleaf : leaf = es.isEmpty)
    (hnd : (es.map Prod.fst).Nodup) (hkS : KeysOK heap (c :: (Sc ++ Sr))) :
    Sim heap ((lheap ++ [((c : Int), es'.map Prod.fst, (0 : Int))]).set qn
        ((p : Int), es.map Prod.fst, ((i : Int) + 1)))
      ((lheap.length : Int) :: (qn : Int) :: qs') ((tc.isNil, tc) :: (leaf, tr) :: s') := by
  refine .cons ?_ ?_ (.cons ?_ hnot (hs'.mono ?_))
  · refine ⟨lheap.length, c, 0, es', Sc, rfl, ?_, hc, Nat.zero_le _, by simpa using hc1,
      isNil_eq_isEmpty hc1, hkS c (by simp) es' hc, fun x hx => hkS x (by simp [hx])⟩
    rw [List.getElem?_set_ne (by omega)]
    simp
  · intro hmem'
    rcases List.mem_cons.1 hmem' with heq | hmem'
    · have : lheap.length = qn := Int.ofNat.inj heq
      omega
    · have := hs'.lt _ hmem'; omega
  · refine ⟨qn, p, i + 1, es, Sr, rfl, ?_, hp, hilt, hr2, hleaf, hnd,
      fun x hx => hkS x (by simp [hx])⟩
    rw [List.getElem?_set_self (by simp; omega)]
    simp
  · intro qn' hqn'
    have h1 := hs'.lt _ hqn'
    have h2 : qn' ≠ qn := by
      rintro rfl; exact hnot hqn'
    rw [List.getElem?_set_ne (Ne.symm h2), List.getElem?_append_left (by omega)]

theorem stackCost_pos (f : Bool × T) (s : List (Bool × T)) : 1 ≤ stackCost (f :: s) := by
  obtain ⟨leaf, rem⟩ := f
  have := cost_pos rem
  simp only [stackCost]; omega

/-- what the loop does with the verdict of one iteration -/
def afterStep (l : List Nat) (body : Nat → EachSt → Option (ForInStep EachSt)) :
    ForInStep EachSt → Option EachSt
  | .done b => some b
  | .yield b => forIn l b body

theorem forIn_cons' (a : Nat) (l : List Nat) (body : Nat → EachSt → Option (ForInStep EachSt))
    (st : EachSt) : forIn (a :: l) st body = (body a st).bind (afterStep l body) := by
  rw [List.forIn_cons]
  show (body a st).bind _ = _
  congr 1
  funext r
  cases r <;> rfl

@[simp] theorem afterStep_done (l : List Nat) (body : Nat → EachSt → Option (ForInStep EachSt))
    (b : EachSt) : afterStep l body (.done b) = some b := rfl

@[simp] theorem afterStep_yield (l : List Nat) (body : Nat → EachSt → Option (ForInStep EachSt))
    (b : EachSt) : afterStep l body (.yield b) = forIn l b body := rfl

/-- the `for { }` loop of the translated `ForEach`, from ANY stack that simulates a model stack and
ANY log: with `stackCost s` iterations available it ends by itself, and its log is the model
machine's (`eachLoopH`, any fuel `m ≥ stackCost s`): one iteration = one model step -/
theorem each_loop (heap : Heap) (h : List Bytes → Bool) (keysF : Int → Option Bytes)
    (hkeys : ∀ (n : Nat) es, heap[n]? = some es → keysF (n : Int) = some (es.map Prod.fst))
    (body : Nat → EachSt → Option (ForInStep EachSt)) (fin : EachSt → Option (List Bytes))
    (hbody : ∀ k log lheap A (qn p i : Nat) ks es cur b,
      lheap[qn]? = some ((p : Int), ks, (i : Int)) → heap[p]? = some es →
      body k (log, lheap, A ++ [(qn : Int)], cur, b) = stepSpec h keysF lheap A qn p i ks es cur b log)
    (hfin : ∀ st, fin st = if st.2.2.2.2 = true then some st.1 else none)
    (l : List Nat) : ∀ (s : List (Bool × T)) (qs : List Int) (lheap : LHeap) (curR : Bytes)
      (acc : List Bytes) (m : Nat),
      Sim heap lheap qs s → curR.length + 1 = s.length → stackCost s ≤ l.length → stackCost s ≤ m →
      (forIn l ((acc, lheap, qs.reverse, curR.reverse, false) : EachSt) body).bind fin
        = some (IterH.eachLoopH h m s curR acc) := by
  induction l with
  | nil =>
    intro s qs lheap curR acc m hsim hlen hl hm
    cases s with
    | nil => simp at hlen
    | cons f s => have := stackCost_pos f s; simp at hl; omega
  | cons a l ih =>
    intro s qs lheap curR acc m hsim hlen hl hm
    cases hsim with
    | nil => simp at hlen
    | @cons q qs' f s' hf hnot hs' =>
      obtain ⟨leaf, rem⟩ := f
      obtain ⟨qn, p, i, es, S, rfl, hq, hp, hi, hr, hleaf, hnd, hk⟩ := hf
      simp only at hr hleaf
      have hqlt : qn < lheap.length := (List.getElem?_eq_some_iff.1 hq).1
      cases m with
      | zero => have := stackCost_pos (leaf, rem) s'; omega
      | succ m =>
        simp only [List.length_cons] at hl hlen
        rw [List.reverse_cons, forIn_cons', hbody a acc lheap qs'.reverse qn p i _ es _ false hq hp,
          eachLoopH_succ]
        -- after the leaf report
        have key : ∀ acc' : List Bytes,
            (((contSpec keysF lheap qs'.reverse qn p i (es.map Prod.fst) es curR.reverse false acc').bind
                (afterStep l body)).bind fin)
              = some (contM h m leaf rem s' curR acc') := by
          intro acc'
          cases rem with
          | nil =>
            have hd : es.drop i = [] := (hr.isNil).1 rfl
            have hie : i = es.length := by
              have := List.drop_eq_nil_iff.1 hd; omega
            subst hie
            cases hs' with
            | nil =>
              simp [contSpec, contM, hfin]
            | @cons q2 qs2 f2 s2 hf2 hnot2 hs2 =>
              cases curR with
              | nil => simp at hlen
              | cons k cr =>
                have hsl : slice (cr.reverse ++ [k]) 0 (len (cr.reverse ++ [k]) - 1) = some cr.reverse := by
                  rw [len_snoc_sub]
                  have := slice_snoc cr.reverse k
                  simpa using this
                have hcost : stackCost (f2 :: s2) ≤ l.length ∧ stackCost (f2 :: s2) ≤ m := by
                  simp only [stackCost, cost] at hl hm ⊢; omega
                have := ih (f2 :: s2) (q2 :: qs2) lheap cr acc' m (.cons hf2 hnot2 hs2)
                  (by simp at hlen ⊢; omega) hcost.1 hcost.2
                simp only [contSpec, contM, List.reverse_cons, hsl, List.drop_one, List.tail_cons] at this ⊢
                simpa using this
          | cons k tc tr =>
            generalize hd : es.drop i = d at hr
            cases hr with
            | @cons _ v c es' es2 _ _ Sc Sr hv hc hc1 hr2 =>
              have hilt : i < es.length := by
                refine Nat.lt_of_not_le fun hcon => ?_
                have : es.drop i = [] := List.drop_eq_nil_iff.2 hcon
                rw [this] at hd; cases hd
              have hget : es[i]? = some (k, v) := by
                have := congrArg List.head? hd
                simpa [List.head?_drop] using this
              have hmem : (k, v) ∈ es := List.mem_of_getElem? hget
              have hmg : mapGet es k (-1) = (c : Int) := by
                rw [mapGet_of_mem es k v (-1) hnd hmem, hv]
              have hd2 : es.drop (i + 1) = es2 := by
                have := congrArg List.tail hd
                simpa [List.tail_drop] using this
              have hne : (i == es.length) = false := by simp; omega
              have hks : (es.map Prod.fst)[i]? = some k := by simp [hget]
              obtain ⟨lheap', hlheap'⟩ : ∃ lheap' : LHeap, lheap' =
                  (lheap ++ [((c : Int), es'.map Prod.fst, (0 : Int))]).set qn
                    ((p : Int), es.map Prod.fst, ((i : Int) + 1)) := ⟨_, rfl⟩
              have hsim' : Sim heap lheap' ((lheap.length : Int) :: (qn : Int) :: qs')
                  ((tc.isNil, tc) :: (leaf, tr) :: s') :=
                hlheap' ▸ Sim.push hs' hnot hqlt hp hilt hc hc1 (hd2 ▸ hr2) hleaf hnd hk
              have hcost : stackCost ((tc.isNil, tc) :: (leaf, tr) :: s') ≤ l.length ∧
                  stackCost ((tc.isNil, tc) :: (leaf, tr) :: s') ≤ m := by
                simp only [stackCost, cost] at hl hm ⊢; omega
              have := ih _ _ lheap' (k :: curR) acc' m hsim' (by simp at hlen ⊢; omega) hcost.1 hcost.2
              simp only [contSpec, contM, hne, hks, hmg, hkeys c es' hc, Option.bind_some,
                Bool.false_eq_true, if_false]
              simpa [List.reverse_cons, hlheap'] using this
        have hce : curR.reverse.isEmpty = curR.isEmpty := by cases curR <;> simp
        simp only [stepSpec, hce, ← hleaf]
        cases hb : (leaf && !curR.isEmpty) <;> cases hh : h (acc ++ [curR.reverse]) <;>
          simp only [Bool.false_eq_true, if_false, if_true, Option.bind_eq_bind, Option.pure_def,
            Option.bind_some] <;>
          first | exact key _ | simp [hfin]

/-- … and with fewer than `stackCost s` iterations available a consumer that never stops is not
done: the translated loop runs out of fuel (`none`) — the bound of `each_loop` is sharp -/
theorem each_loop_short (heap : Heap) (keysF : Int → Option Bytes)
    (hkeys : ∀ (n : Nat) es, heap[n]? = some es → keysF (n : Int) = some (es.map Prod.fst))
    (body : Nat → EachSt → Option (ForInStep EachSt)) (fin : EachSt → Option (List Bytes))
    (hbody : ∀ k log lheap A (qn p i : Nat) ks es cur b,
      lheap[qn]? = some ((p : Int), ks, (i : Int)) → heap[p]? = some es →
      body k (log, lheap, A ++ [(qn : Int)], cur, b)
        = stepSpec (fun _ => true) keysF lheap A qn p i ks es cur b log)
    (hfin : ∀ st, fin st = if st.2.2.2.2 = true then some st.1 else none)
    (l : List Nat) : ∀ (s : List (Bool × T)) (qs : List Int) (lheap : LHeap) (curR : Bytes)
      (acc : List Bytes),
      Sim heap lheap qs s → curR.length + 1 = s.length → l.length < stackCost s →
      (forIn l ((acc, lheap, qs.reverse, curR.reverse, false) : EachSt) body).bind fin = none := by
  induction l with
  | nil =>
    intro s qs lheap curR acc hsim hlen hl
    simp [hfin]
  | cons a l ih =>
    intro s qs lheap curR acc hsim hlen hl
    cases hsim with
    | nil => simp at hlen
    | @cons q qs' f s' hf hnot hs' =>
      obtain ⟨leaf, rem⟩ := f
      obtain ⟨qn, p, i, es, S, rfl, hq, hp, hi, hr, hleaf, hnd, hk⟩ := hf
      simp only at hr hleaf
      have hqlt : qn < lheap.length := (List.getElem?_eq_some_iff.1 hq).1
      simp only [List.length_cons] at hl hlen
      rw [List.reverse_cons, forIn_cons', hbody a acc lheap qs'.reverse qn p i _ es _ false hq hp]
      have key : ∀ acc' : List Bytes,
          (((contSpec keysF lheap qs'.reverse qn p i (es.map Prod.fst) es curR.reverse false acc').bind
              (afterStep l body)).bind fin) = none := by
        intro acc'
        cases rem with
        | nil =>
          have hd : es.drop i = [] := (hr.isNil).1 rfl
          have hie : i = es.length := by
            have := List.drop_eq_nil_iff.1 hd; omega
          subst hie
          cases hs' with
          | nil => simp [stackCost, cost] at hl
          | @cons q2 qs2 f2 s2 hf2 hnot2 hs2 =>
            cases curR with
            | nil => simp at hlen
            | cons k cr =>
              have hsl : slice (cr.reverse ++ [k]) 0 (len (cr.reverse ++ [k]) - 1) = some cr.reverse := by
                rw [len_snoc_sub]
                have := slice_snoc cr.reverse k
                simpa using this
              have hcost : l.length < stackCost (f2 :: s2) := by
                simp only [stackCost, cost] at hl ⊢; omega
              have := ih (f2 :: s2) (q2 :: qs2) lheap cr acc' (.cons hf2 hnot2 hs2)
                (by simp at hlen ⊢; omega) hcost
              simp only [contSpec, List.reverse_cons, hsl] at this ⊢
              simpa using this
        | cons k tc tr =>
          generalize hd : es.drop i = d at hr
          cases hr with
          | @cons _ v c es' es2 _ _ Sc Sr hv hc hc1 hr2 =>
            have hilt : i < es.length := by
              refine Nat.lt_of_not_le fun hcon => ?_
              have : es.drop i = [] := List.drop_eq_nil_iff.2 hcon
              rw [this] at hd; cases hd
            have hget : es[i]? = some (k, v) := by
              have := congrArg List.head? hd
              simpa [List.head?_drop] using this
            have hmem : (k, v) ∈ es := List.mem_of_getElem? hget
            have hmg : mapGet es k (-1) = (c : Int) := by
              rw [mapGet_of_mem es k v (-1) hnd hmem, hv]
            have hd2 : es.drop (i + 1) = es2 := by
              have := congrArg List.tail hd
              simpa [List.tail_drop] using this
            have hne : (i == es.length) = false := by simp; omega
            have hks : (es.map Prod.fst)[i]? = some k := by simp [hget]
            obtain ⟨lheap', hlheap'⟩ : ∃ lheap' : LHeap, lheap' =
                (lheap ++ [((c : Int), es'.map Prod.fst, (0 : Int))]).set qn
                  ((p : Int), es.map Prod.fst, ((i : Int) + 1)) := ⟨_, rfl⟩
            have hsim' : Sim heap lheap' ((lheap.length : Int) :: (qn : Int) :: qs')
                ((tc.isNil, tc) :: (leaf, tr) :: s') :=
              hlheap' ▸ Sim.push hs' hnot hqlt hp hilt hc hc1 (hd2 ▸ hr2) hleaf hnd hk
            have hcost : l.length < stackCost ((tc.isNil, tc) :: (leaf, tr) :: s') := by
              simp only [stackCost, cost] at hl ⊢; omega
            have := ih _ _ lheap' (k :: curR) acc' hsim' (by simp at hlen ⊢; omega) hcost
            simp only [contSpec, hne, hks, hmg, hkeys c es' hc, Option.bind_some,
              Bool.false_eq_true, if_false]
            simpa [List.reverse_cons, hlheap'] using this
      simp only [stepSpec, if_true]
      split <;> exact key _

/-! ## The translated function -/

theorem len_beq_zero {α : Type} (l : List α) : (len l == 0) = l.isEmpty := by
  cases l <;> simp [len]
  try omega

theorem len_pos_iff {α : Type} (l : List α) : (len l > 0) ↔ l.isEmpty = false := by
  cases l <;> simp [len]
  try omega

theorem natCast_beq_len {α : Type} (i : Nat) (l : List α) : ((i : Int) == len l) = (i == l.length) := by
  simp only [len]; exact int_beq_natCast i l.length

/-- the translated `ForEach` on a node: the `keys` call, then the `for { }` loop whose iteration is
`stepSpec`, then "out of fuel = `none`" -/
theorem Trie_ForEach_unfold (hF : GoSrc.Trie_ForEach_Found = true) (hK : GoSrc.Trie_keys_Found = true)
    (heap : Heap) (n : Nat) (es0 : List (UInt8 × Int)) (h : List Bytes → Bool)
    (hn : heap[n]? = some es0) :
    ∃ (body : Nat → EachSt → Option (ForInStep EachSt)) (fin : EachSt → Option (List Bytes)),
      (∀ fuel, GoSrc.Trie_ForEach fuel heap (n : Int) h =
        (forIn (List.range fuel) (([], [((n : Int), es0.map Prod.fst, ((0 : Nat) : Int))],
          [((0 : Nat) : Int)].reverse, ([] : Bytes).reverse, false) : EachSt) body).bind fin) ∧
      (∀ k log lheap A (qn p i : Nat) ks es cur b,
        lheap[qn]? = some ((p : Int), ks, (i : Int)) → heap[p]? = some es →
        body k (log, lheap, A ++ [(qn : Int)], cur, b)
          = stepSpec h (GoSrc.Trie_keys heap) lheap A qn p i ks es cur b log) ∧
      (∀ st, fin st = if st.2.2.2.2 = true then some st.1 else none) := by
  first
  | exact absurd hF (by decide)
  | (apply Exists.intro
     apply Exists.intro
     refine ⟨fun fuel => ?_, ?_, ?_⟩
     · unfold GoSrc.Trie_ForEach
       simp only [Option.pure_def, Option.bind_eq_bind, Trie_keys_eq hK heap n es0 hn, Option.bind_some]
       have e : (([] : LHeap) ++ [((n : Int), es0.map Prod.fst, (0 : Int))]) =
           [((n : Int), es0.map Prod.fst, ((0 : Nat) : Int))] := rfl
       have e2 : [len [((n : Int), es0.map Prod.fst, ((0 : Nat) : Int))] - 1]
           = [((0 : Nat) : Int)].reverse := by
         simp [len]
       rw [e, e2]
       rfl
     · intro k log lheap A qn p i ks es cur b hq hp
       have hqlt : qn < lheap.length := (List.getElem?_eq_some_iff.1 hq).1
       have hset : ∀ x v, setIdx (lheap ++ [x]) (qn : Int) v = some ((lheap ++ [x]).set qn v) := by
         intro x v; rw [setIdx_ofNat, if_pos (by simp; omega)]
       have hget : ∀ x, (lheap ++ [x])[qn]? = some ((p : Int), ks, (i : Int)) := by
         intro x; rw [List.getElem?_append_left hqlt, hq]
       simp only [len_snoc_sub, idx_snoc_last, idx_ofNat, List.getElem?_concat_length, hq, hp,
         Option.bind_some, slice_snoc, len_beq_zero, natCast_beq_len, hset, hget, stepSpec, contSpec]
       have hA : (A.length == 0) = A.isEmpty := by cases A <;> rfl
       rw [hA]
       cases es.isEmpty
       · simp
       · rcases cur with _ | ⟨c0, cur⟩
         · simp [len]
         · cases h (log ++ [c0 :: cur]) <;> simp [len] <;> omega
     · intro st
       rcases st with ⟨log, lh, stk, cur, _ | _⟩ <;> rfl)

/-- the translated `ForEach` on a node of maps is the model machine started on `[(t.isNil, t)]`, any
model fuel `m ≥ 2 * size + 1`, as soon as `2 * size + 1 ≤ fuel` -/
theorem Trie_ForEach_loop (hF : GoSrc.Trie_ForEach_Found = true) (hK : GoSrc.Trie_keys_Found = true)
    (heap : Heap) (n : Nat) (es : List (UInt8 × Int)) (t : T) (S : List Nat)
    (h : List Bytes → Bool) (fuel m : Nat)
    (hn : heap[n]? = some es) (hr : RepE heap es t S) (hnd : (es.map Prod.fst).Nodup)
    (hk : KeysOK heap S) (hf : 2 * t.size + 1 ≤ fuel) (hm : 2 * t.size + 1 ≤ m) :
    GoSrc.Trie_ForEach fuel heap (n : Int) h = some (IterH.eachLoopH h m [(t.isNil, t)] [] []) := by
  obtain ⟨body, fin, hu, hbody, hfin⟩ := Trie_ForEach_unfold hF hK heap n es h hn
  rw [hu]
  refine each_loop heap h (GoSrc.Trie_keys heap) (Trie_keys_eq hK heap) body fin hbody hfin
    (List.range fuel) [(t.isNil, t)] [((0 : Nat) : Int)] _ [] [] m ?_ rfl ?_ ?_
  · refine .cons ⟨0, n, 0, es, S, rfl, rfl, hn, Nat.zero_le _, by simpa using hr,
      isNil_eq_isEmpty hr, hnd, hk⟩ (by simp) .nil
  · simp only [stackCost, cost_eq, List.length_range]; omega
  · simp only [stackCost, cost_eq]; omega

/-- the fuel bound is sharp: with at most `2 * size` iterations a consumer that never stops is not
done (the translation reports `none` = no claim) -/
theorem Trie_ForEach_short (hF : GoSrc.Trie_ForEach_Found = true) (hK : GoSrc.Trie_keys_Found = true)
    (heap : Heap) (n : Nat) (es : List (UInt8 × Int)) (t : T) (S : List Nat) (fuel : Nat)
    (hn : heap[n]? = some es) (hr : RepE heap es t S) (hnd : (es.map Prod.fst).Nodup)
    (hk : KeysOK heap S) (hf : fuel ≤ 2 * t.size) :
    GoSrc.Trie_ForEach fuel heap (n : Int) (fun _ => true) = none := by
  obtain ⟨body, fin, hu, hbody, hfin⟩ := Trie_ForEach_unfold hF hK heap n es (fun _ => true) hn
  rw [hu]
  refine each_loop_short heap (GoSrc.Trie_keys heap) (Trie_keys_eq hK heap) body fin hbody hfin
    (List.range fuel) [(t.isNil, t)] [((0 : Nat) : Int)] _ [] [] ?_ rfl ?_
  · refine .cons ⟨0, n, 0, es, S, rfl, rfl, hn, Nat.zero_le _, by simpa using hr,
      isNil_eq_isEmpty hr, hnd, hk⟩ (by simp) .nil
  · simp only [stackCost, cost_eq, List.length_range]; omega

/-! ## On `Good` heaps -/

theorem ForEach_eq (hF : GoSrc.Trie_ForEach_Found = true) (hK : GoSrc.Trie_keys_Found = true)
    (heap : Heap) (n : Nat) (t : T) (S : List Nat) (h : List Bytes → Bool) (fuel : Nat)
    (hg : Good heap n t S) (hf : 2 * t.size + 1 ≤ fuel) :
    GoSrc.Trie_ForEach fuel heap (n : Int) h = some (IterH.forEachLogH h t) := by
  obtain ⟨es, hn, hr, hnd, hk⟩ := hg
  exact Trie_ForEach_loop hF hK heap n es t S h fuel _ hn hr (hk n (by simp) es hn)
    (fun x hx => hk x (by simp [hx])) hf (by omega)

theorem ForEach_short (hF : GoSrc.Trie_ForEach_Found = true) (hK : GoSrc.Trie_keys_Found = true)
    (heap : Heap) (n : Nat) (t : T) (S : List Nat) (fuel : Nat)
    (hg : Good heap n t S) (hf : fuel ≤ 2 * t.size) :
    GoSrc.Trie_ForEach fuel heap (n : Int) (fun _ => true) = none := by
  obtain ⟨es, hn, hr, hnd, hk⟩ := hg
  exact Trie_ForEach_short hF hK heap n es t S fuel hn hr (hk n (by simp) es hn)
    (fun x hx => hk x (by simp [hx])) hf

/-- frame: a heap that agrees with `heap` on the root cell and on the footprint is as good -/
theorem good_frame {heap heap' : Heap} {n : Nat} {t : T} {S : List Nat} (hg : Good heap n t S)
    (hag : ∀ x ∈ n :: S, heap'[x]? = heap[x]?) : Good heap' n t S := by
  obtain ⟨es, hn, hr, hnd, hk⟩ := hg
  refine ⟨es, by rw [hag n (by simp)]; exact hn, hr.frame fun x hx => hag x (by simp [hx]), hnd, ?_⟩
  intro x hx es' hes'
  rw [hag x hx] at hes'
  exact hk x hx es' hes'

/-! ## The size of the trie after a history (a fuel bound in terms of the calls alone) -/

theorem size_chain : ∀ b : Bytes, (chain b).size = b.length
  | [] => rfl
  | k :: bs => by simp [chain, T.size, size_chain bs]; omega

theorem size_add : ∀ (b : Bytes) (t : T), (add b t).size ≤ t.size + b.length
  | [], t => by simp
  | k :: bs, .nil => by simp [add, T.size, size_chain]; omega
  | k :: bs, .cons k' c r => by
    simp only [add]
    split
    · have := size_add bs c; simp only [T.size, List.length_cons]; omega
    · have := size_add (k :: bs) r; simp only [T.size, List.length_cons] at this ⊢; omega

theorem size_del : ∀ (b : Bytes) (t t' : T), del b t = some t' → t'.size ≤ t.size
  | [], t, t', h => by simp at h; subst h; exact Nat.le_refl _
  | k :: bs, .nil, t', h => by simp [del] at h
  | k :: bs, .cons k' c r, t', h => by
    by_cases hk : k' = k
    · subst hk
      cases bs with
      | nil =>
        rw [del_cons_cons_eq_single] at h
        cases h; simp only [T.size]; omega
      | cons b1 bs =>
        rw [del_cons_cons_eq] at h
        cases hd : del (b1 :: bs) c with
        | none => simp [hd] at h
        | some c' =>
          have := size_del (b1 :: bs) c c' hd
          simp only [hd] at h
          split at h <;> cases h <;> simp only [T.size] <;> omega
    · rw [del_cons_cons_ne hk] at h
      cases hd : del (k :: bs) r with
      | none => simp [hd] at h
      | some r' =>
        have := size_del (k :: bs) r r' hd
        simp [hd] at h; subst h; simp only [T.size]; omega

/-- the bytes a history adds -/
def addBytes : List Op → Nat
  | [] => 0
  | .add b :: ops => b.length + addBytes ops
  | .del _ :: ops => addBytes ops

theorem size_run : ∀ (ops : List Op) (t : T), (run ops t).size ≤ t.size + addBytes ops
  | [], t => by simp [run, addBytes]
  | .add b :: ops, t => by
    have h1 := size_run ops (add b t)
    have h2 := size_add b t
    simp only [run, step, addBytes]; omega
  | .del b :: ops, t => by
    simp only [run, step, addBytes]
    cases hd : del b t with
    | none => simpa using size_run ops t
    | some t' =>
      have h1 := size_run ops t'
      have h2 := size_del b t t' hd
      simp only; omega

end TrieEach
end Bio.GoSrcLemmas
