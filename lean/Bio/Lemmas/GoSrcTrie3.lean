/-
  trie/trie.go at the Go SOURCE level, part 3: `(*Trie).Delete`.

  * `del_loop1`: the first loop (`for i := range b { stack[i] = cur; cur = cur.m[b[i]]; … }`) from
    ANY node that represents `t`: returns `(false, heap)` at the first missing edge exactly when
    `Trie.has b t = false` (⇔ `Trie.del b t = none`); otherwise the stack holds the `Path`.
  * `del_loop2`: the second loop (`for i := len(stack)-1; i >= 0; i--`) is `eraseUp` on the
    (node, key) pairs of the path, deepest first.
  * `del_sem`: `eraseUp` along a path computes `Trie.del`: the last edge is erased, and edges keep
    being erased upwards exactly while the node below became empty (the model's
    `if c'.isNil then some r else some (.cons k c' r)`), stated with a continuation `U` for the
    levels above.
-/
import Bio.Lemmas.GoSrcTrie2
set_option linter.unusedVariables false
set_option linter.unusedSimpArgs false
namespace Bio.GoSrcLemmas
namespace TrieGo
open Bio Bio.GoRt Bio.Generated Bio.Trie

/-- the nodes at which the keys of `b` are looked up, walking down from `p`; every lookup succeeds -/
inductive Path (heap : Heap) : Nat → Bytes → List Nat → Prop
  | nil (p : Nat) : Path heap p [] []
  | cons {p c : Nat} {k : UInt8} {bs : Bytes} {ps : List Nat} {es : List (UInt8 × Int)} :
      heap[p]? = some es → mapGet es k (-1) = (c : Int) → Path heap c bs ps →
      Path heap p (k :: bs) (p :: ps)

theorem Path.length {heap : Heap} {p b ps} (h : Path heap p b ps) : ps.length = b.length := by
  induction h with
  | nil => rfl
  | cons _ _ _ ih => simp [ih]

theorem Path.lt {heap : Heap} {p b ps} (h : Path heap p b ps) : ∀ x ∈ ps, x < heap.length := by
  induction h with
  | nil => simp
  | cons hp _ _ ih =>
    intro x hx
    simp only [List.mem_cons] at hx
    rcases hx with rfl | hx
    · exact (List.getElem?_eq_some_iff.1 hp).1
    · exact ih x hx

/-! ## The first loop -/

abbrev DelSt := Option (Bool × Heap) × List Int × Int

theorem del_loop1 (heap : Heap) (b : Bytes) (body : Int → DelSt → Option (ForInStep DelSt))
    (hbody : ∀ (i : Nat) (stack : List Int) (n : Nat) es k, heap[n]? = some es → b[i]? = some k →
      i < stack.length →
      body (Int.ofNat i) (none, stack, (n : Int)) =
        if (mapGet es k (-1) == -1) = true then
          some (.done (some (false, heap), stack.set i (n : Int), mapGet es k (-1)))
        else some (.yield (none, stack.set i (n : Int), mapGet es k (-1)))) :
    ∀ (suf pre : Bytes) (ps0 : List Int) (n : Nat) (es : List (UInt8 × Int)) (t : T) (S : List Nat),
      b = pre ++ suf → ps0.length = pre.length → heap[n]? = some es → RepE heap es t S →
      (has suf t = false ∧ ∃ st,
        forIn ((List.range' pre.length suf.length).map Int.ofNat)
          ((none, ps0 ++ List.replicate suf.length (-1), (n : Int)) : DelSt) body = some st ∧
          st.1 = some (false, heap)) ∨
      (has suf t = true ∧ ∃ ps cur, Path heap n suf ps ∧
        forIn ((List.range' pre.length suf.length).map Int.ofNat)
          ((none, ps0 ++ List.replicate suf.length (-1), (n : Int)) : DelSt) body
            = some (none, ps0 ++ ps.map Int.ofNat, cur)) := by
  intro suf
  induction suf with
  | nil =>
    intro pre ps0 n es t S hb hl hn hr
    exact Or.inr ⟨by simp [has], [], (n : Int), .nil n, by simp⟩
  | cons k bs ih =>
    intro pre ps0 n es t S hb hl hn hr
    have hbk : b[pre.length]? = some k := by
      rw [hb, List.getElem?_append_right (Nat.le_refl _)]; simp
    have hlt : pre.length < (ps0 ++ List.replicate (k :: bs).length (-1 : Int)).length := by
      simp; omega
    have hset : (ps0 ++ List.replicate (k :: bs).length (-1 : Int)).set pre.length (n : Int)
        = (ps0 ++ [(n : Int)]) ++ List.replicate bs.length (-1) := by
      rw [← hl, List.set_append_right _ _ (Nat.le_refl _)]
      simp [List.replicate_succ]
    simp only [List.length_cons, List.range'_succ, List.map_cons, List.forIn_cons]
    rw [show ((ps0 ++ List.replicate (bs.length + 1) (-1 : Int)) =
      (ps0 ++ List.replicate (k :: bs).length (-1 : Int))) from rfl]
    rw [hbody pre.length _ n es k hn hbk hlt, hset]
    rcases hr.lookup k with ⟨h1, h2⟩ | ⟨es1, es2, c, h1, h2, h3⟩
    · rw [h1]
      refine Or.inl ⟨has_absent k bs t (by rw [hr.keys]; exact h2), ?_⟩
      simp
    · rw [h1, natCast_ne_neg_one]
      simp only [Bool.false_eq_true, if_false, Option.bind_some, Option.bind_eq_bind]
      subst h2
      obtain ⟨t1, tc, t2, S1, Sc, S2, es', hc, r1, rc, r2, rfl, rfl⟩ := hr.at_edge
      rw [has_present k bs t1 tc t2 (by rw [r1.keys]; exact h3)]
      have := ih (pre ++ [k]) (ps0 ++ [(n : Int)]) c es' tc Sc (by simp [hb]) (by simp [hl]) hc rc
      simp only [List.length_append, List.length_singleton] at this
      rcases this with ⟨g1, st, g2, g3⟩ | ⟨g1, ps, cur, g2, g3⟩
      · exact Or.inl ⟨g1, st, g2, g3⟩
      · refine Or.inr ⟨g1, n :: ps, cur, .cons hn h1 g2, ?_⟩
        rw [g3]
        simp

/-! ## The second loop -/

/-- erase the edges `(node, key)` in order (deepest first), stopping after the first node that
keeps other edges -/
def eraseUp : Heap → List (Nat × UInt8) → Heap
  | h, [] => h
  | h, (p, k) :: U =>
    if (mapErase (h[p]?.getD []) k).isEmpty then eraseUp (h.set p (mapErase (h[p]?.getD []) k)) U
    else h.set p (mapErase (h[p]?.getD []) k)

theorem del_loop2 (body2 : Int → Heap → Option (ForInStep Heap)) :
    ∀ (m : Nat) (ps : List Nat) (b : Bytes), ps.length = m → b.length = m →
      (∀ (a p : Nat) (k : UInt8) (h : Heap) es, ps[a]? = some p → b[a]? = some k → h[p]? = some es →
        body2 (Int.ofNat a) h =
          some (if (mapErase es k).isEmpty then .yield (h.set p (mapErase es k))
            else .done (h.set p (mapErase es k)))) →
      ∀ h : Heap, (∀ p ∈ ps, p < h.length) →
        forIn ((List.range m).reverse.map Int.ofNat) h body2 = some (eraseUp h (ps.zip b).reverse) := by
  intro m
  induction m with
  | zero =>
    intro ps b hp hb _ h _
    have : ps = [] := List.length_eq_zero_iff.1 hp
    subst this
    simp [eraseUp]
  | succ m ih =>
    intro ps b hp hb hbody h hv
    rcases List.eq_nil_or_concat ps with h0 | ⟨ps', p, h0⟩
    · subst h0; simp at hp
    rcases List.eq_nil_or_concat b with h1 | ⟨b', k, h1⟩
    · subst h1; simp at hb
    subst h0 h1
    simp only [List.concat_eq_append] at hbody hv ⊢
    simp only [List.concat_eq_append, List.length_append, List.length_singleton] at hp hb
    have hp' : ps'.length = m := by omega
    have hb' : b'.length = m := by omega
    have hplt : p < h.length := hv p (by simp)
    obtain ⟨es, hes⟩ : ∃ es, h[p]? = some es := ⟨h[p], List.getElem?_eq_getElem hplt⟩
    have e1 : (ps' ++ [p])[m]? = some p := by rw [← hp']; simp
    have e2 : (b' ++ [k])[m]? = some k := by rw [← hb']; simp
    have hz : ((ps' ++ [p]).zip (b' ++ [k])).reverse = (p, k) :: (ps'.zip b').reverse := by
      rw [List.zip_append (by omega)]; simp
    simp only [List.concat_eq_append, List.range_succ, List.reverse_append, List.reverse_cons,
      List.reverse_nil, List.nil_append, List.singleton_append, List.map_cons, List.forIn_cons]
    rw [hbody m p k h es e1 e2 hes, hz]
    simp only [eraseUp, hes, Option.getD_some]
    cases hemp : (mapErase es k).isEmpty
    · simp
    · simp only [if_true, Option.bind_some, Option.bind_eq_bind]
      refine ih ps' b' hp' hb' ?_ _ ?_
      · intro a q k' h' es' ha hk' hq
        have ha' : a < ps'.length := (List.getElem?_eq_some_iff.1 ha).1
        refine hbody a q k' h' es' ?_ ?_ hq
        · rw [List.getElem?_append_left ha']; exact ha
        · rw [List.getElem?_append_left (by omega)]; exact hk'
      · intro q hq
        simpa using hv q (by simp [hq])

/-! ## `eraseUp` along a path is `Trie.del` -/

/-- removing the edge `k` of node `n` -/
theorem remove_edge {heap1 : Heap} {n : Nat} {es1 es2 : List (UInt8 × Int)} {k : UInt8} {c : Int}
    {t1 t2 : T} {S1 S2 : List Nat}
    (hn : heap1[n]? = some (es1 ++ (k, c) :: es2))
    (r1 : RepE heap1 es1 t1 S1) (r2 : RepE heap1 es2 t2 S2)
    (hnd : (n :: (S1 ++ S2)).Nodup) (hk : KeysOK heap1 (n :: (S1 ++ S2))) :
    mapErase (es1 ++ (k, c) :: es2) k = es1 ++ es2 ∧
    Good (heap1.set n (es1 ++ es2)) n (tapp t1 t2) (S1 ++ S2) := by
  have hnlt : n < heap1.length := (List.getElem?_eq_some_iff.1 hn).1
  have hkeys := hk n (by simp) _ hn
  have hn' : n ∉ S1 ++ S2 := (List.nodup_cons.1 hnd).1
  have hfr : ∀ x ∈ S1 ++ S2, (heap1.set n (es1 ++ es2))[x]? = heap1[x]? := by
    intro x hx
    rw [List.getElem?_set_ne]
    intro h; exact hn' (h ▸ hx)
  refine ⟨mapErase_present es1 es2 k c hkeys, es1 ++ es2, by simp [hnlt], ?_, hnd, ?_⟩
  · exact RepE.append (r1.frame fun x hx => hfr x (by simp [hx]))
      (r2.frame fun x hx => hfr x (by simp [hx]))
  · intro x hx es0 hes0
    simp only [List.mem_cons] at hx
    rcases hx with rfl | hx
    · simp [hnlt] at hes0
      subst hes0
      have : ((es1 ++ es2).map Prod.fst).Sublist ((es1 ++ (k, c) :: es2).map Prod.fst) := by
        simp only [List.map_append, List.map_cons]
        exact List.Sublist.append (List.Sublist.refl _) (List.sublist_cons_self _ _)
      exact this.nodup hkeys
    · rw [hfr x hx] at hes0
      exact hk x (by simp [hx]) es0 hes0

theorem del_sem : ∀ (b : Bytes) (heap : Heap) (n : Nat) (t : T) (S : List Nat) (ps : List Nat),
    b ≠ [] → Good heap n t S → Path heap n b ps →
    ∃ t' heap' S', del b t = some t' ∧ heap'.length = heap.length ∧
      (∀ U, eraseUp heap ((ps.zip b).reverse ++ U) = if t'.isNil then eraseUp heap' U else heap') ∧
      Good heap' n t' S' ∧ (∀ x, x ≠ n → x ∉ S → heap'[x]? = heap[x]?) ∧ (∀ x ∈ S', x ∈ S) := by
  intro b
  induction b with
  | nil => intro heap n t S ps h; exact absurd rfl h
  | cons k bs ih =>
    intro heap n t S ps _ hg hpath
    obtain ⟨es, hn, hr, hnd, hk⟩ := hg
    have hnlt : n < heap.length := (List.getElem?_eq_some_iff.1 hn).1
    cases hpath with
    | @cons _ c _ _ ps' es0 hn0 hget hp' =>
      rw [hn] at hn0
      cases hn0
      rcases hr.lookup k with ⟨h1, h2⟩ | ⟨es1, es2, c', h1, h2, h3⟩
      · rw [h1] at hget; omega
      · rw [h1] at hget
        have hcc := Int.ofNat.inj hget
        subst hcc
        subst h2
        obtain ⟨t1, tc, t2, S1, Sc, S2, es', hc, r1, rc, r2, rfl, rfl⟩ := hr.at_edge
        obtain ⟨⟨n1, n2, n3, n4⟩, d1, ⟨c1, c2, c3⟩, dc, d2, x1, x2, x3⟩ := nodup_fp.1 hnd
        have hkt1 : k ∉ tkeys t1 := by rw [r1.keys]; exact h3
        have hnd12 : (n :: (S1 ++ S2)).Nodup := by
          simp only [List.nodup_cons, List.nodup_append, List.mem_append, not_or]
          exact ⟨⟨n1, n4⟩, d1, d2, fun a ha b hb hab => x2 a ha (hab ▸ hb)⟩
        have hsub12 : ∀ x ∈ n :: (S1 ++ S2), x ∈ n :: (S1 ++ c' :: (Sc ++ S2)) := by
          intro x hx
          simp only [List.mem_cons, List.mem_append] at hx ⊢
          rcases hx with h | h | h
          · exact Or.inl h
          · exact Or.inr (Or.inl h)
          · exact Or.inr (Or.inr (Or.inr (Or.inr h)))
        cases bs with
        | nil =>
          -- the last key: erase the edge
          cases hp'
          have hk12 : KeysOK heap (n :: (S1 ++ S2)) := fun x hx => hk x (hsub12 x hx)
          obtain ⟨he, hgood⟩ := remove_edge hn r1 r2 hnd12 hk12
          have hnil : (tapp t1 t2).isNil = (es1 ++ es2).isEmpty := by
            obtain ⟨es3, q1, q2, _, _⟩ := hgood
            simp [hnlt] at q1
            subst q1
            have := q2.isNil
            rw [Bool.eq_iff_iff]
            simpa using this
          refine ⟨tapp t1 t2, heap.set n (es1 ++ es2), S1 ++ S2, del_present_single k t1 tc t2 hkt1,
            by simp, ?_, hgood, ?_, ?_⟩
          · intro U
            simp only [List.zip_cons_cons, List.zip_nil_right, List.reverse_cons, List.reverse_nil,
              List.nil_append, List.singleton_append, eraseUp, hn, Option.getD_some, he, hnil]
          · intro x hxn _
            rw [List.getElem?_set_ne (Ne.symm hxn)]
          · intro x hx
            simp only [List.mem_append, List.mem_cons] at hx ⊢
            rcases hx with h | h
            · exact Or.inl h
            · exact Or.inr (Or.inr (Or.inr h))
        | cons b1 bs' =>
          have hgc : Good heap c' tc Sc := by
            refine ⟨es', hc, rc, List.nodup_cons.2 ⟨c2, dc⟩, ?_⟩
            intro x hx
            refine hk x ?_
            simp only [List.mem_cons, List.mem_append] at hx ⊢
            rcases hx with h | h
            · exact Or.inr (Or.inr (Or.inl h))
            · exact Or.inr (Or.inr (Or.inr (Or.inl h)))
          obtain ⟨tc', heap1, Sc', hdel, hlen1, herase, hg1, hfr1, hsub1⟩ :=
            ih heap c' tc Sc ps' (by simp) hgc hp'
          have l1 := r1.lt
          have l2 := r2.lt
          have hn1 : heap1[n]? = some (es1 ++ (k, (c' : Int)) :: es2) := by
            rw [hfr1 n n2 n3]; exact hn
          have f1 : RepE heap1 es1 t1 S1 :=
            r1.frame fun x hx => hfr1 x (fun h => c1 (h ▸ hx)) (x1 x hx)
          have f2 : RepE heap1 es2 t2 S2 :=
            r2.frame fun x hx => hfr1 x (fun h => c3 (h ▸ hx)) (fun h => x3 x h hx)
          have hkold : ∀ x, x = n ∨ x ∈ S1 ∨ x ∈ S2 → ∀ es0, heap1[x]? = some es0 →
              (es0.map Prod.fst).Nodup := by
            intro x hx es0 hes0
            rcases hx with h | h | h
            · subst h
              rw [hfr1 x n2 n3] at hes0
              exact hk x (by simp) es0 hes0
            · rw [hfr1 x (fun e => c1 (e ▸ h)) (x1 x h)] at hes0
              exact hk x (by simp [h]) es0 hes0
            · rw [hfr1 x (fun e => c3 (e ▸ h)) (fun e => x3 x e h)] at hes0
              exact hk x (by simp [h]) es0 hes0
          have hzip : ((n :: ps').zip (k :: b1 :: bs')).reverse = (ps'.zip (b1 :: bs')).reverse ++ [(n, k)] := by
            simp
          cases hcn : tc'.isNil
          · -- the node below keeps edges: stop
            refine ⟨tapp t1 (.cons k tc' t2), heap1, S1 ++ c' :: (Sc' ++ S2), ?_, hlen1, ?_, ?_, ?_, ?_⟩
            · rw [del_present k b1 bs' t1 tc t2 hkt1, hdel]; simp [hcn]
            · intro U
              rw [hzip, List.append_assoc, herase, hcn]
              have : (tapp t1 (.cons k tc' t2)).isNil = false := by
                cases t1 <;> simp [tapp, T.isNil]
              simp [this]
            · obtain ⟨es'', hc', rc', hnd', hk'⟩ := hg1
              have hndc : c' ∉ Sc' := (List.nodup_cons.1 hnd').1
              have hndS : Sc'.Nodup := (List.nodup_cons.1 hnd').2
              refine ⟨_, hn1, RepE.append f1 (RepE.cons rfl hc' rc' f2), ?_, ?_⟩
              · exact nodup_fp.2 ⟨⟨n1, n2, fun h => n3 (hsub1 n h), n4⟩, d1, ⟨c1, hndc, c3⟩, hndS, d2,
                  fun x hx h => x1 x hx (hsub1 x h), x2, fun x h hx => x3 x (hsub1 x h) hx⟩
              · intro x hx es0 hes0
                have hold : (x = n ∨ x ∈ S1 ∨ x ∈ S2) ∨ x ∈ c' :: Sc' := by
                  simp only [List.mem_cons, List.mem_append] at hx ⊢
                  rcases hx with h | h | h | h | h
                  · exact Or.inl (Or.inl h)
                  · exact Or.inl (Or.inr (Or.inl h))
                  · exact Or.inr (Or.inl h)
                  · exact Or.inr (Or.inr h)
                  · exact Or.inl (Or.inr (Or.inr h))
                rcases hold with h | h
                · exact hkold x h es0 hes0
                · exact hk' x h es0 hes0
            · intro x hxn hxS
              simp only [List.mem_cons, List.mem_append, not_or] at hxS
              exact hfr1 x hxS.2.1 hxS.2.2.1
            · intro x hx
              simp only [List.mem_cons, List.mem_append] at hx ⊢
              rcases hx with h | h | h | h
              · exact Or.inl h
              · exact Or.inr (Or.inl h)
              · exact Or.inr (Or.inr (Or.inl (hsub1 x h)))
              · exact Or.inr (Or.inr (Or.inr h))
          · -- the node below became empty: erase this edge too, and go on upwards
            have hk12 : KeysOK heap1 (n :: (S1 ++ S2)) := by
              intro x hx es0 hes0
              refine hkold x ?_ es0 hes0
              simpa [List.mem_cons, List.mem_append] using hx
            obtain ⟨he, hgood⟩ := remove_edge hn1 f1 f2 hnd12 hk12
            have hnlt1 : n < heap1.length := by omega
            have hnil : (tapp t1 t2).isNil = (es1 ++ es2).isEmpty := by
              obtain ⟨es3, q1, q2, _, _⟩ := hgood
              simp [hnlt1] at q1
              subst q1
              have := q2.isNil
              rw [Bool.eq_iff_iff]
              simpa using this
            refine ⟨tapp t1 t2, heap1.set n (es1 ++ es2), S1 ++ S2, ?_, by simp [hlen1], ?_, hgood, ?_, ?_⟩
            · rw [del_present k b1 bs' t1 tc t2 hkt1, hdel]; simp [hcn]
            · intro U
              rw [hzip, List.append_assoc, herase, hcn]
              simp only [if_true, List.singleton_append, eraseUp, hn1, Option.getD_some, he, hnil]
            · intro x hxn hxS
              simp only [List.mem_cons, List.mem_append, not_or] at hxS
              rw [List.getElem?_set_ne (Ne.symm hxn)]
              exact hfr1 x hxS.2.1 hxS.2.2.1
            · intro x hx
              simp only [List.mem_append, List.mem_cons] at hx ⊢
              rcases hx with h | h
              · exact Or.inl h
              · exact Or.inr (Or.inr (Or.inr h))

/-! ## The translated `Delete` -/

theorem Delete_eq (hF : GoSrc.Trie_Delete_Found = true) (heap : Heap) (n : Nat) (t : T)
    (S : List Nat) (b : Bytes) (hg : Good heap n t S) :
    (del b t = none → GoSrc.Trie_Delete heap (n : Int) b = some (false, heap)) ∧
    (∀ t', del b t = some t' → ∃ heap' S', GoSrc.Trie_Delete heap (n : Int) b = some (true, heap') ∧
      Good heap' n t' S' ∧ heap'.length = heap.length ∧
      (∀ x, x ≠ n → x ∉ S → heap'[x]? = heap[x]?) ∧ (∀ x ∈ S', x ∈ S)) := by
  first
  | exact absurd hF (by decide)
  | (obtain ⟨es, hn, hr, hnd, hk⟩ := hg
     have hloop1 := del_loop1 heap b
       (fun i __s =>
          (setIdx __s.snd.fst i __s.snd.snd).bind fun stack =>
            (idx heap __s.snd.snd).bind fun __do_lift =>
              (idx b i).bind fun __do_lift_1 =>
                if (mapGet __do_lift __do_lift_1 (-1) == -1) = true then
                  some (ForInStep.done (some (false, heap), stack, mapGet __do_lift __do_lift_1 (-1)))
                else some (ForInStep.yield (none, stack, mapGet __do_lift __do_lift_1 (-1))))
       (by
         intro i stack n es k hn hbi hi
         have e1 : idx b (Int.ofNat i) = some k := by
           rw [show Int.ofNat i = (i : Int) from rfl, idx_ofNat]; exact hbi
         have e2 : setIdx stack (Int.ofNat i) (n : Int) = some (stack.set i (n : Int)) := by
           rw [show Int.ofNat i = (i : Int) from rfl, setIdx_ofNat]; simp [hi]
         simp only [e1, e2, idx_ofNat, hn, Option.bind_some])
       b [] [] n es t S (by simp) rfl hn hr
     have hup : upTo (len b) = (List.range' 0 b.length).map Int.ofNat := by
       simp [upTo, len, List.range_eq_range']
     have hrep : List.replicate (len b).toNat (-1 : Int) = [] ++ List.replicate b.length (-1) := by
       simp [len]
     unfold GoSrc.Trie_Delete
     simp only [Option.pure_def, Option.bind_eq_bind]
     rw [hup, hrep]
     simp only [List.length_nil] at hloop1
     rcases hloop1 with ⟨g1, st, g2, g3⟩ | ⟨g1, ps, cur, g2, g3⟩
     · have hd : del b t = none := (del_eq_none_iff b t).2 g1
       refine ⟨fun _ => ?_, fun t' h => by rw [hd] at h; cases h⟩
       rw [g2]
       obtain ⟨r, s1, s2⟩ := st
       simp only at g3
       subst g3
       rfl
     · have hd : del b t ≠ none := fun h => by
         rw [(del_eq_none_iff b t).1 h] at g1; cases g1
       refine ⟨fun h => absurd h hd, fun t' ht' => ?_⟩
       rw [g3]
       simp only [Option.bind_some, List.nil_append]
       have hloop2 := del_loop2
         (fun i __s_1 =>
              (idx (List.map Int.ofNat ps) i).bind fun __do_lift =>
                (idx __s_1 __do_lift).bind fun __do_lift_1 =>
                  (idx b i).bind fun __do_lift_2 =>
                    (setIdx __s_1 __do_lift (mapErase __do_lift_1 __do_lift_2)).bind fun heap =>
                      (idx (List.map Int.ofNat ps) i).bind fun __do_lift =>
                        (idx heap __do_lift).bind fun __do_lift =>
                          if len __do_lift > 0 then some (ForInStep.done heap) else some (ForInStep.yield heap))
         b.length ps b g2.length rfl
         (by
           intro a p k h es0 ha hka hp
           have hplt : p < h.length := (List.getElem?_eq_some_iff.1 hp).1
           have e1 : idx (List.map Int.ofNat ps) (Int.ofNat a) = some (p : Int) := by
             rw [show Int.ofNat a = (a : Int) from rfl, idx_ofNat]; simp [ha]
           have e2 : idx b (Int.ofNat a) = some k := by
             rw [show Int.ofNat a = (a : Int) from rfl, idx_ofNat]; exact hka
           have e3 : idx (h.set p (mapErase es0 k)) (p : Int) = some (mapErase es0 k) := by
             rw [idx_ofNat]; simp [hplt]
           simp only [e1, e2, e3, idx_ofNat, hp, setIdx_ofNat, hplt, if_true, Option.bind_some, len]
           cases hm : mapErase es0 k <;> simp [hplt])
         heap g2.lt
       have hdown : downFrom (len (List.map Int.ofNat ps) - 1)
           = (List.range b.length).reverse.map Int.ofNat := by
         rw [downFrom_len]; simp [g2.length]
       rw [hdown, hloop2]
       simp only [Option.bind_some]
       by_cases hbn : b = []
       · subst hbn
         cases g2
         simp only [del_nil_left, Option.some.injEq] at ht'
         subst ht'
         exact ⟨heap, S, by simp [eraseUp], ⟨es, hn, hr, hnd, hk⟩, rfl, fun _ _ _ => rfl, fun _ h => h⟩
       · obtain ⟨t'', heap', S', q1, q2, q3, q4, q5, q6⟩ :=
           del_sem b heap n t S ps hbn ⟨es, hn, hr, hnd, hk⟩ g2
         rw [ht'] at q1
         cases q1
         have := q3 []
         simp only [List.append_nil, eraseUp, ite_self] at this
         exact ⟨heap', S', by rw [this], q4, q2, q5, q6⟩)

end TrieGo
end Bio.GoSrcLemmas
