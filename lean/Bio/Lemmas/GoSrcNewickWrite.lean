/-
  `(*Node).newick` and `(*Node).MarshalText` of formats/newick/newick.go, translated from the Go source
  text on every run into `Bio.Generated.GoSrc.Node_newick` / `Node_MarshalText` (a `*Node` is the hand
  model's `Newick.Tree`, `n.Children` is `kidsOf n`, the `*bytes.Buffer` is the list of bytes written so
  far and is handed back, `%v` of a float64 is the parameter `fmt_float`, the self-recursion consumes one
  unit of `fuel` per call; `none` = a Go panic or out of fuel).

  * `newick_char`: for ARBITRARY `fmt_float`, the translated writer is completely characterised:
    `Node_newick ff fuel t buf = if depth t + 1 ≤ fuel then some (buf ++ nodeText qs ff t) else none`
    (`depth` = the height of the tree, a leaf has depth 0; `nodeText` = the model's writer with
    `distText` replaced by `":" ++ ff d` on non-zero distances), so the fuel bound `depth t + 1` is sharp,
    the buffer is only appended to, there is no panic, and `ff none` is never looked at;
  * under `FFModel ff` (`ff (some t) = t`) `nodeText` is the model's `writeForest` of the single tree.

  Guarded by the translator's `<f>_Found` flags as in `Bio.Lemmas.GoSrc`.
-/
import Bio.Generated.GoSrc
import Bio.Lemmas.GoRt
import Bio.Lemmas.GoSrcNewick
import Bio.Lemmas.GoSrcTraverse
import Bio.Lemmas.Newick
import Bio.Props.C05Go
set_option linter.unusedVariables false
set_option linter.unusedSimpArgs false
namespace Bio.GoSrcLemmas
namespace NwkWr
open Bio Bio.GoRt Bio.Generated Bio.Newick

/-! ## Vocabulary -/

/-- the assumption on `%v` of a float64: the text of the canonical token `t` is `t` -/
def FFModel (ff : Dist → Bytes) : Prop := ∀ t : Bytes, ff (some t) = t

/-- height of a forest: 0 for the empty forest, else 1 + the height of its tallest tree -/
def depthF : Forest → Nat
  | .nil => 0
  | .cons _ _ k r => max (depthF k + 1) (depthF r)

/-- height of a tree: a leaf has depth 0 -/
def depth (t : Tree) : Nat := depthF t.kids

/-- the model's text of the subtree `t` (what `Newick.write` puts before the final `;`) -/
def subtree (qs : Bytes) (t : Tree) : Bytes := writeForest qs (.cons t.name t.dist t.kids .nil)

theorem write_eq_subtree (qs : Bytes) (t : Tree) : write qs t = subtree qs t ++ [59] := rfl

/-- what the code writes for a distance: nothing for 0, else `":"` and `%v` of it -/
def dText (ff : Dist → Bytes) : Dist → Bytes
  | none => []
  | some t => 58 :: ff (some t)

/-- `Newick.writeForest` with `%v` = `ff` -/
def textF (qs : Bytes) (ff : Dist → Bytes) : Forest → Bytes
  | .nil => []
  | .cons n d k r =>
    (match k with
      | .nil => []
      | _ => 40 :: textF qs ff k ++ [41])
    ++ nameToText qs n ++ dText ff d
    ++ (match r with
      | .nil => []
      | _ => 44 :: textF qs ff r)

def kidsT (qs : Bytes) (ff : Dist → Bytes) (k : Forest) : Bytes :=
  match k with
  | .nil => []
  | _ => 40 :: textF qs ff k ++ [41]

def sibT (qs : Bytes) (ff : Dist → Bytes) (r : Forest) : Bytes :=
  match r with
  | .nil => []
  | _ => 44 :: textF qs ff r

/-- the text of one node and its subtree, with `%v` = `ff` -/
def nodeText (qs : Bytes) (ff : Dist → Bytes) (t : Tree) : Bytes :=
  kidsT qs ff t.kids ++ (nameToText qs t.name ++ dText ff t.dist)

theorem textF_cons (qs ff n d k r) :
    textF qs ff (.cons n d k r) = nodeText qs ff ⟨n, d, k⟩ ++ sibT qs ff r := by
  cases k <;> cases r <;> simp [textF, nodeText, kidsT, sibT]

theorem sibT_cons (qs ff n d k r) :
    sibT qs ff (.cons n d k r) = 44 :: textF qs ff (.cons n d k r) := rfl

theorem kidsT_cons (qs ff n d k r) :
    kidsT qs ff (.cons n d k r) = 40 :: (textF qs ff (.cons n d k r) ++ [41]) := rfl

theorem dText_model {ff : Dist → Bytes} (h : FFModel ff) (d : Dist) : dText ff d = distText d := by
  cases d with
  | none => rfl
  | some t => simp [dText, distText, h t]

theorem textF_model {ff : Dist → Bytes} (h : FFModel ff) (qs : Bytes) (f : Forest) :
    textF qs ff f = writeForest qs f := by
  induction f with
  | nil => rfl
  | cons n d k r ihk ihr =>
    cases k <;> cases r <;> simp_all [textF, writeForest, dText_model h]

theorem nodeText_model {ff : Dist → Bytes} (h : FFModel ff) (qs : Bytes) (t : Tree) :
    nodeText qs ff t = subtree qs t := by
  obtain ⟨n, d, k⟩ := t
  have := textF_cons qs ff n d k .nil
  simp only [sibT, List.append_nil] at this
  rw [← this, textF_model h]; rfl

/-- only the values of `ff` on non-zero distances matter -/
theorem dText_congr {ff ff' : Dist → Bytes} (h : ∀ t : Bytes, ff (some t) = ff' (some t)) (d : Dist) :
    dText ff d = dText ff' d := by
  cases d with
  | none => rfl
  | some t => simp [dText, h t]

theorem textF_congr {ff ff' : Dist → Bytes} (h : ∀ t : Bytes, ff (some t) = ff' (some t)) (qs : Bytes)
    (f : Forest) : textF qs ff f = textF qs ff' f := by
  induction f with
  | nil => rfl
  | cons n d k r ihk ihr =>
    cases k <;> cases r <;> simp_all [textF, dText_congr h]

theorem nodeText_congr {ff ff' : Dist → Bytes} (h : ∀ t : Bytes, ff (some t) = ff' (some t)) (qs : Bytes)
    (t : Tree) : nodeText qs ff t = nodeText qs ff' t := by
  obtain ⟨n, d, k⟩ := t
  cases k <;> simp [nodeText, kidsT, textF_congr h, dText_congr h]

/-! ## The loop over `n.Children` -/

/-- the `for i, c := range n.Children` loop, for any callee `g` that is characterised on the children:
it succeeds iff every child does, and writes the comma-separated texts -/
theorem loop_spec (qs : Bytes) (ff : Dist → Bytes) (fuel : Nat) (g : Tree → Bytes → Option Bytes)
    (body : Int × Tree → Bytes → Option (ForInStep Bytes))
    (hbody : ∀ (i : Nat) (c : Tree) (b : Bytes),
      body ((i : Int), c) b = (g c (if i > 0 then b ++ [44] else b)).bind fun r => some (.yield r))
    (f : Forest)
    (hg : ∀ c ∈ forestList f, ∀ b,
      g c b = if depth c + 1 ≤ fuel then some (b ++ nodeText qs ff c) else none)
    (k : Nat) (buf : Bytes) :
    forIn (((forestList f).zipIdx k).map fun p => ((p.2 : Int), p.1)) buf body
      = if depthF f ≤ fuel then some (buf ++ (if k = 0 then textF qs ff f else sibT qs ff f)) else none := by
  induction f generalizing k buf with
  | nil => simp [forestList, depthF, textF, sibT]
  | cons n d kk r _ ih =>
    simp only [forestList, List.zipIdx_cons, List.map_cons, List.forIn_cons, hbody]
    rw [hg ⟨n, d, kk⟩ (by simp [forestList])]
    have hg' : ∀ c ∈ forestList r, ∀ b,
        g c b = if depth c + 1 ≤ fuel then some (b ++ nodeText qs ff c) else none :=
      fun c hc b => hg c (by simp [forestList, hc]) b
    simp only [depth, depthF]
    by_cases h1 : depthF kk + 1 ≤ fuel
    · simp only [h1, if_true, Option.bind_eq_bind, Option.bind_some]
      rw [ih hg' (k + 1)]
      by_cases h2 : depthF r ≤ fuel
      · have h3 : max (depthF kk + 1) (depthF r) ≤ fuel := by omega
        simp only [h2, h3, if_true, Nat.add_eq_zero_iff, Nat.succ_ne_self, and_false, if_false,
          textF_cons, sibT_cons]
        by_cases hk : k = 0
        · subst hk; simp
        · have : k > 0 := by omega
          simp [hk, this]
      · have h3 : ¬ max (depthF kk + 1) (depthF r) ≤ fuel := by omega
        simp [h2, h3]
    · have h3 : ¬ max (depthF kk + 1) (depthF r) ≤ fuel := by omega
      simp [h1, h3]

/-! ## The translated functions -/

theorem len_kidsOf_nil (n : Bytes) (d : Dist) : decide (len (kidsOf ⟨n, d, .nil⟩) > 0) = false := by
  simp [len, kidsOf, forestList]

theorem len_kidsOf_cons (n : Bytes) (d : Dist) (n' d' k' r') :
    decide (len (kidsOf ⟨n, d, .cons n' d' k' r'⟩) > 0) = true := by
  simp [len, kidsOf, forestList]

/-- complete characterisation of the translated `(*Node).newick`, for ARBITRARY `fmt_float` -/
theorem newick_char (hF : GoSrc.Node_newick_Found = true) (hN : GoSrc.nameToText_Found = true)
    (ff : Dist → Bytes) : ∀ (fuel : Nat) (t : Tree) (buf : Bytes),
    GoSrc.Node_newick ff fuel t buf
      = if depth t + 1 ≤ fuel then some (buf ++ nodeText Generated.newickQuoteBytes ff t) else none := by
  first
  | exact absurd hF (by decide)
  | (intro fuel
     induction fuel with
     | zero => intro t buf; rw [GoSrc.Node_newick]; simp
     | succ fuel ih =>
       intro t buf
       obtain ⟨n, d, k⟩ := t
       rw [GoSrc.Node_newick]
       simp only [Option.pure_def, Option.bind_eq_bind, Props.C05Go.go_nameToText hN, Option.bind_some]
       cases k with
       | nil =>
         simp only [gt_iff_lt, len_kidsOf_nil, decide_eq_true_eq]
         cases d <;> simp [depth, depthF, nodeText, kidsT, dText, len, kidsOf, forestList]
       | cons n' d' k' r' =>
         have hl : len (kidsOf ⟨n, d, .cons n' d' k' r'⟩) > 0 := by
           simpa using len_kidsOf_cons n d n' d' k' r'
         rw [if_pos hl]
         have hloop := loop_spec Generated.newickQuoteBytes ff fuel (GoSrc.Node_newick ff fuel)
           (fun x __s =>
             if x.fst > 0 then (GoSrc.Node_newick ff fuel x.snd (__s ++ [44])).bind fun buf => some (ForInStep.yield buf)
             else (GoSrc.Node_newick ff fuel x.snd __s).bind fun buf => some (ForInStep.yield buf))
           (by
             intro i c b
             by_cases hi : i > 0
             · have : (i : Int) > 0 := by omega
               simp [hi, this]
             · have : ¬ (i : Int) > 0 := by omega
               simp [hi, this])
           (.cons n' d' k' r') (fun c _ b => ih c b) 0 (buf ++ [40])
         have he : enum (kidsOf ⟨n, d, .cons n' d' k' r'⟩)
             = ((forestList (.cons n' d' k' r')).zipIdx 0).map fun p => ((p.2 : Int), p.1) := rfl
         rw [he, hloop]
         have hd : depth ⟨n, d, .cons n' d' k' r'⟩ = depthF (.cons n' d' k' r') := rfl
         rw [hd]
         by_cases h1 : depthF (.cons n' d' k' r') ≤ fuel
         · have h2 : depthF (.cons n' d' k' r') + 1 ≤ fuel + 1 := by omega
           rw [if_pos h1, if_pos h2]
           cases d <;> simp [nodeText, kidsT_cons, dText]
         · have h2 : ¬ depthF (.cons n' d' k' r') + 1 ≤ fuel + 1 := by omega
           rw [if_neg h1, if_neg h2]; rfl)

/-- the translated `MarshalText`, for ARBITRARY `fmt_float` -/
theorem marshal_char (hM : GoSrc.Node_MarshalText_Found = true) (hF : GoSrc.Node_newick_Found = true)
    (hN : GoSrc.nameToText_Found = true) (ff : Dist → Bytes) (fuel : Nat) (t : Tree) :
    GoSrc.Node_MarshalText ff fuel t
      = if depth t + 1 ≤ fuel then some (nodeText Generated.newickQuoteBytes ff t ++ [59], GoErr.nil)
        else none := by
  first
  | exact absurd hM (by decide)
  | (unfold GoSrc.Node_MarshalText
     simp only [Option.pure_def, Option.bind_eq_bind, newick_char hF hN]
     split <;> simp)

end NwkWr
end Bio.GoSrcLemmas
