/-
  `(*reader).read` of formats/newick/newick.go, translated from the Go source text on every run into
  `Bio.Generated.GoSrc.newick_read` (over an EXPLICIT HEAP of `Node` cells), against the hand-written
  parser `Newick.readLoop` of `Bio.Model.Newick`.  Part 1: vocabulary.

  * `NwkRd.RepF heap lo hi ptrs f` / `NwkRd.RepT heap p t`: the abstraction relation (a list of
    `*Node` pointers represents a forest; a pointer represents a tree).  Every subtree occupies its own
    interval of cell indices, children after their parent, siblings in increasing order — the shape
    the allocation order of `read()` produces; it rules out sharing and cycles.
  * `NwkRd.Anc`: the unfinished ancestors of the node being read (the Go stack below the top).
  * `NwkRd.absT heap fuel p`: total read-back of a tree from the heap.
  * `idx`/`setIdx` on `heap ++ [cell]` and on updated heaps.
-/
import Bio.Generated.GoSrc
import Bio.Model.Newick
import Bio.Lemmas.GoRt
set_option linter.unusedVariables false
set_option linter.unusedSimpArgs false
namespace Bio.GoSrcLemmas
open Bio Bio.GoRt Bio.Generated Bio.Newick

namespace NwkRd

/-- a `Node` cell: `Name`, `Distance`, `Children` (pointers) -/
abbrev Cell := Bytes × Newick.Dist × List Int
/-- all `Node`s allocated so far; a `*Node` is an index, `nil` is `-1` -/
abbrev Heap := List Cell

/-- `&Node{}` -/
def zero : Cell := ([], none, [])

/-- `heap[p] = v` as a total function (`setIdx` when `p` is in range) -/
def upd (heap : Heap) (p : Int) (v : Cell) : Heap := heap.set p.toNat v

/-! ## The abstraction relation -/

/-- The pointers `ptrs` represent the forest `f` in `heap`, all cells involved lying in `[lo, hi)`:
the first pointer `p` is in range, its cell holds the first tree's name, distance and the pointers of
its children, which (with everything below them) lie in `(p, mid)`; the remaining siblings lie in
`[mid, hi)`. -/
def RepF (heap : Heap) : Int → Int → List Int → Forest → Prop
  | _, _, [], .nil => True
  | lo, hi, p :: ps, .cons n d k r => ∃ ks mid, lo ≤ p ∧ p < mid ∧ mid ≤ hi ∧
      idx heap p = some (n, d, ks) ∧ RepF heap (p + 1) mid ks k ∧ RepF heap mid hi ps r
  | _, _, [], .cons _ _ _ _ => False
  | _, _, _ :: _, .nil => False

/-- The cell at `p` holds `t`'s name and distance, and its `Children` represent `t.kids` (in cells
after `p`). -/
def RepT (heap : Heap) (p : Int) (t : Tree) : Prop :=
  ∃ ks, idx heap p = some (t.name, t.dist, ks) ∧ RepF heap (p + 1) (len heap) ks t.kids

/-- The unfinished ancestors of the node `q` being read (Go: the stack below `q`, nearest first; model:
`readLoop`'s stack): the parent's cell holds its partial tree's name and distance, its `Children` are
the pointers of the children already closed — representing the partial tree's `kids`, in cells between
the parent and `q` — followed by `q` itself.  The outermost pointer is `root`. -/
def Anc (heap : Heap) (root : Int) : Int → List Int → List Tree → Prop
  | q, [], [] => q = root
  | q, p :: ps, t :: ts => ∃ ks, p < q ∧ idx heap p = some (t.name, t.dist, ks ++ [q]) ∧
      RepF heap (p + 1) q ks t.kids ∧ Anc heap root p ps ts
  | _, [], _ :: _ => False
  | _, _ :: _, [] => False

/-- `heap` is `h0` with cells appended (and cells at or after `len h0` possibly rewritten) -/
def Ext (h0 heap : Heap) : Prop := ∃ ext, heap = h0 ++ ext

/-! ## Reading a tree back -/

def forestOfList : List Tree → Forest
  | [] => .nil
  | t :: ts => .cons t.name t.dist t.kids (forestOfList ts)

/-- the tree at `p`, following at most `fuel` levels of pointers (total: an invalid pointer or no fuel
left reads as the empty node) -/
def absT (heap : Heap) : Nat → Int → Tree
  | 0 => fun _ => emptyNode
  | fuel + 1 => fun p =>
    match idx heap p with
    | none => emptyNode
    | some c => ⟨c.1, c.2.1, forestOfList (c.2.2.map (absT heap fuel))⟩

end NwkRd

open NwkRd

/-! ## `idx` / `setIdx` -/

theorem nwk_idx_some {α : Type} {l : List α} {i : Int} {v : α} (h : idx l i = some v) :
    0 ≤ i ∧ i < len l := by
  unfold idx at h
  unfold len
  split at h
  · cases h
  · have := (List.getElem?_eq_some_iff.mp h).1
    omega

theorem nwk_idx_isSome {α : Type} (l : List α) (i : Int) (h0 : 0 ≤ i) (h1 : i < len l) :
    ∃ v, idx l i = some v := by
  unfold idx
  unfold len at h1
  have : ¬ i < 0 := by omega
  simp only [this, if_false]
  exact ⟨l[i.toNat]'(by omega), List.getElem?_eq_getElem (by omega)⟩

theorem nwk_idx_append {α : Type} {l : List α} {i : Int} {v : α} (m : List α) (h : idx l i = some v) :
    idx (l ++ m) i = some v := by
  have hb := nwk_idx_some h
  unfold idx at h ⊢
  unfold len at hb
  have : ¬ i < 0 := by omega
  simp only [this, if_false] at h ⊢
  rw [List.getElem?_append_left (by omega)]
  exact h

theorem nwk_idx_append_lt {α : Type} (l m : List α) (i : Int) (h : i < len l) :
    idx (l ++ m) i = idx l i := by
  unfold idx
  unfold len at h
  split
  · rfl
  · rw [List.getElem?_append_left (by omega)]

theorem nwk_idx_append_len {α : Type} (l : List α) (c : α) : idx (l ++ [c]) (len l) = some c := by
  unfold len
  rw [idx_ofNat]
  simp

theorem nwk_len_append_one {α : Type} (l : List α) (c : α) : len (l ++ [c]) = len l + 1 := by
  simp [len]

theorem nwk_len_nonneg {α : Type} (l : List α) : 0 ≤ len l := by simp [len]

theorem nwk_setIdx {α : Type} (l : List α) (i : Int) (v : α) (h0 : 0 ≤ i) (h1 : i < len l) :
    setIdx l i v = some (l.set i.toNat v) := by
  unfold setIdx
  unfold len at h1
  have h2 : ¬ i < 0 := by omega
  have h3 : i.toNat < l.length := by omega
  simp [h2, h3]

theorem nwk_setIdx_upd (heap : Heap) (p : Int) (v : Cell) (h0 : 0 ≤ p) (h1 : p < len heap) :
    setIdx heap p v = some (upd heap p v) := nwk_setIdx heap p v h0 h1

theorem nwk_len_upd (heap : Heap) (p : Int) (v : Cell) : len (upd heap p v) = len heap := by
  simp [len, upd]

theorem nwk_idx_upd_eq (heap : Heap) (p : Int) (v : Cell) (h0 : 0 ≤ p) (h1 : p < len heap) :
    idx (upd heap p v) p = some v := by
  unfold idx upd
  unfold len at h1
  have h2 : ¬ p < 0 := by omega
  simp only [h2, if_false]
  rw [List.getElem?_set_self (by omega)]

theorem nwk_idx_upd_ne (heap : Heap) (p q : Int) (v : Cell) (h0 : 0 ≤ p) (hne : q ≠ p) :
    idx (upd heap p v) q = idx heap q := by
  unfold idx upd
  split
  · rfl
  · rw [List.getElem?_set_ne (by omega)]

/-! ## `Ext` -/

theorem Ext.refl (h0 : Heap) : Ext h0 h0 := ⟨[], by simp⟩

theorem Ext.append {h0 heap : Heap} (h : Ext h0 heap) (m : Heap) : Ext h0 (heap ++ m) := by
  obtain ⟨ext, rfl⟩ := h
  exact ⟨ext ++ m, by simp⟩

theorem Ext.len_le {h0 heap : Heap} (h : Ext h0 heap) : len h0 ≤ len heap := by
  obtain ⟨ext, rfl⟩ := h
  simp [len]; omega

theorem Ext.upd {h0 heap : Heap} (h : Ext h0 heap) (p : Int) (v : Cell) (hp : len h0 ≤ p) :
    Ext h0 (upd heap p v) := by
  obtain ⟨ext, rfl⟩ := h
  refine ⟨ext.set (p.toNat - h0.length) v, ?_⟩
  unfold NwkRd.upd
  unfold len at hp
  rw [List.set_append_right _ _ (by omega)]

theorem Ext.trans {a b c : Heap} (h1 : Ext a b) (h2 : Ext b c) : Ext a c := by
  obtain ⟨e1, rfl⟩ := h1
  obtain ⟨e2, rfl⟩ := h2
  exact ⟨e1 ++ e2, by simp⟩

/-- cells below `len h0` are those of `h0` -/
theorem Ext.idx {h0 heap : Heap} (h : Ext h0 heap) (i : Int) (hi : i < len h0) :
    idx heap i = idx h0 i := by
  obtain ⟨ext, rfl⟩ := h
  exact nwk_idx_append_lt h0 ext i hi

/-! ## `RepF` -/

theorem RepF.nil_iff (heap : Heap) (lo hi : Int) (ps : List Int) :
    RepF heap lo hi ps .nil ↔ ps = [] := by
  cases ps <;> simp [RepF]

/-- frame: `RepF … lo hi` only reads cells in `[lo, hi)` -/
theorem RepF.frame {heap heap' : Heap} : ∀ (f : Forest) {lo hi : Int} {ps : List Int},
    RepF heap lo hi ps f → (∀ i, lo ≤ i → i < hi → idx heap' i = idx heap i) →
    RepF heap' lo hi ps f := by
  intro f
  induction f with
  | nil => intro lo hi ps h _; cases ps <;> simp_all [RepF]
  | cons n d k r ihk ihr =>
    intro lo hi ps h hfr
    cases ps with
    | nil => simp [RepF] at h
    | cons p ps =>
      simp only [RepF] at h ⊢
      obtain ⟨ks, mid, h1, h2, h3, h4, h5, h6⟩ := h
      refine ⟨ks, mid, h1, h2, h3, ?_, ?_, ?_⟩
      · rw [hfr p h1 (by omega)]; exact h4
      · exact ihk h5 (fun i hi1 hi2 => hfr i (by omega) (by omega))
      · exact ihr h6 (fun i hi1 hi2 => hfr i (by omega) (by omega))

theorem RepF.mono {heap : Heap} : ∀ (f : Forest) {lo hi lo' hi' : Int} {ps : List Int},
    RepF heap lo hi ps f → lo' ≤ lo → hi ≤ hi' → RepF heap lo' hi' ps f := by
  intro f
  induction f with
  | nil => intro lo hi lo' hi' ps h _ _; cases ps <;> simp_all [RepF]
  | cons n d k r ihk ihr =>
    intro lo hi lo' hi' ps h hl hh
    cases ps with
    | nil => simp [RepF] at h
    | cons p ps =>
      simp only [RepF] at h ⊢
      obtain ⟨ks, mid, h1, h2, h3, h4, h5, h6⟩ := h
      exact ⟨ks, mid, by omega, h2, by omega, h4, h5, ihr h6 (Int.le_refl _) hh⟩

/-- closing a finished child `q` (its subtree in `[q, hi)`) into a parent whose closed children lie
below `q`: the model's `Forest.snoc` -/
theorem RepF.snoc {heap : Heap} : ∀ (f : Forest) {lo hi q : Int} {ps ks : List Int} (u : Tree),
    RepF heap lo q ps f → lo ≤ q → q < hi → idx heap q = some (u.name, u.dist, ks) →
    RepF heap (q + 1) hi ks u.kids → RepF heap lo hi (ps ++ [q]) (f.snoc u) := by
  intro f
  induction f with
  | nil =>
    intro lo hi q ps ks u h hlo hq hc hk
    cases ps with
    | cons p ps => simp [RepF] at h
    | nil =>
      simp only [List.nil_append, Forest.snoc, RepF]
      exact ⟨ks, hi, hlo, hq, Int.le_refl _, hc, hk, trivial⟩
  | cons n d k r ihk ihr =>
    intro lo hi q ps ks u h hlo hq hc hk
    cases ps with
    | nil => simp [RepF] at h
    | cons p ps =>
      simp only [RepF] at h
      obtain ⟨ks', mid, h1, h2, h3, h4, h5, h6⟩ := h
      simp only [List.cons_append, Forest.snoc, RepF]
      exact ⟨ks', mid, h1, h2, by omega, h4, h5, ihr u h6 h3 hq hc hk⟩

/-! ## `RepT` -/

theorem RepT.frame {heap heap' : Heap} {p : Int} {t : Tree} (h : RepT heap p t)
    (hl : len heap ≤ len heap') (hfr : ∀ i, p ≤ i → i < len heap → idx heap' i = idx heap i) :
    RepT heap' p t := by
  obtain ⟨ks, h1, h2⟩ := h
  have hb := nwk_idx_some h1
  refine ⟨ks, ?_, ?_⟩
  · rw [hfr p (Int.le_refl _) hb.2]; exact h1
  · exact RepF.mono _ (RepF.frame _ h2 (fun i hi1 hi2 => hfr i (by omega) hi2)) (Int.le_refl _) hl

/-- appending cells does not disturb a represented tree -/
theorem RepT.append {heap : Heap} {p : Int} {t : Tree} (h : RepT heap p t) (m : Heap) :
    RepT (heap ++ m) p t :=
  RepT.frame h (by simp [len]; omega) (fun i _ hi => nwk_idx_append_lt heap m i hi)

/-! ## `Anc` -/

theorem Anc.root_le {heap : Heap} {root : Int} : ∀ {ps : List Int} {q : Int} {ts : List Tree},
    Anc heap root q ps ts → root ≤ q := by
  intro ps
  induction ps with
  | nil => intro q ts h; cases ts <;> simp [Anc] at h; omega
  | cons p ps ih =>
    intro q ts h
    cases ts with
    | nil => simp [Anc] at h
    | cons t ts =>
      simp only [Anc] at h
      obtain ⟨ks, h1, _, _, h4⟩ := h
      have := ih h4
      omega

theorem Anc.nil_iff {heap : Heap} {root q : Int} {ps : List Int} {ts : List Tree}
    (h : Anc heap root q ps ts) : ps = [] ↔ ts = [] := by
  cases ps <;> cases ts <;> simp [Anc] at h ⊢

/-- frame: `Anc … q` only reads cells below `q` -/
theorem Anc.frame {heap heap' : Heap} {root : Int} : ∀ {ps : List Int} {q : Int} {ts : List Tree},
    Anc heap root q ps ts → (∀ i, i < q → idx heap' i = idx heap i) → Anc heap' root q ps ts := by
  intro ps
  induction ps with
  | nil => intro q ts h _; cases ts <;> simp_all [Anc]
  | cons p ps ih =>
    intro q ts h hfr
    cases ts with
    | nil => simp [Anc] at h
    | cons t ts =>
      simp only [Anc] at h ⊢
      obtain ⟨ks, h1, h2, h3, h4⟩ := h
      refine ⟨ks, h1, ?_, ?_, ?_⟩
      · rw [hfr p h1]; exact h2
      · exact RepF.frame _ h3 (fun i _ hi2 => hfr i hi2)
      · exact ih h4 (fun i hi => hfr i (by omega))

/-! ## The simulation steps on the heap -/

/-- `(` : a new child `len heap` of the current node `p` -/
theorem nwk_sim_open {heap : Heap} {root p : Int} {ps : List Int} {cur : Tree} {stack : List Tree}
    {ks : List Int} (hc : idx heap p = some (cur.name, cur.dist, ks))
    (hk : RepF heap (p + 1) (len heap) ks cur.kids) (ha : Anc heap root p ps stack) :
    RepT (upd (heap ++ [zero]) p (cur.name, cur.dist, ks ++ [len heap])) (len heap) emptyNode ∧
    Anc (upd (heap ++ [zero]) p (cur.name, cur.dist, ks ++ [len heap])) root (len heap) (p :: ps)
      (cur :: stack) := by
  have hb := nwk_idx_some hc
  have hne : len heap ≠ p := by omega
  have hfr : ∀ i, i ≠ p → i < len heap →
      idx (upd (heap ++ [zero]) p (cur.name, cur.dist, ks ++ [len heap])) i = idx heap i := by
    intro i hi1 hi2
    rw [nwk_idx_upd_ne _ _ _ _ hb.1 hi1, nwk_idx_append_lt _ _ _ hi2]
  constructor
  · refine ⟨[], ?_, ?_⟩
    · rw [nwk_idx_upd_ne _ _ _ _ hb.1 hne, nwk_idx_append_len]; rfl
    · simp [emptyNode, RepF]
  · simp only [Anc]
    refine ⟨ks, hb.2, ?_, ?_, ?_⟩
    · exact nwk_idx_upd_eq _ _ _ hb.1 (by rw [nwk_len_append_one]; omega)
    · exact RepF.frame _ hk (fun i hi1 hi2 => hfr i (by omega) hi2)
    · exact Anc.frame ha (fun i hi => hfr i (by omega) (by omega))

/-- `)` : the current node `p` is finished; its parent `p'` becomes the current node, representing
the model's `closeTop cur t` -/
theorem nwk_sim_close {heap : Heap} {root p p' : Int} {ps : List Int} {cur t : Tree}
    {stack : List Tree} (hr : RepT heap p cur) (ha : Anc heap root p (p' :: ps) (t :: stack)) :
    ∃ ks', idx heap p' = some ((closeTop cur t).name, (closeTop cur t).dist, ks') ∧
      RepF heap (p' + 1) (len heap) ks' (closeTop cur t).kids ∧ Anc heap root p' ps stack := by
  simp only [Anc] at ha
  obtain ⟨ks, h1, h2, h3, h4⟩ := ha
  obtain ⟨kc, hc1, hc2⟩ := hr
  have hb := nwk_idx_some hc1
  exact ⟨ks ++ [p], h2, RepF.snoc _ cur h3 (by omega) hb.2 hc1 hc2, h4⟩

/-- a write to the current node's own cell that keeps its `Children` -/
theorem nwk_sim_set {heap : Heap} {root p : Int} {ps : List Int} {cur : Tree} {stack : List Tree}
    {ks : List Int} (n : Bytes) (d : Dist) (hc : idx heap p = some (cur.name, cur.dist, ks))
    (hk : RepF heap (p + 1) (len heap) ks cur.kids) (ha : Anc heap root p ps stack) :
    idx (upd heap p (n, d, ks)) p = some (n, d, ks) ∧
    RepF (upd heap p (n, d, ks)) (p + 1) (len (upd heap p (n, d, ks))) ks cur.kids ∧
    Anc (upd heap p (n, d, ks)) root p ps stack := by
  have hb := nwk_idx_some hc
  refine ⟨nwk_idx_upd_eq _ _ _ hb.1 hb.2, ?_, ?_⟩
  · rw [nwk_len_upd]
    exact RepF.frame _ hk (fun i hi1 _ => nwk_idx_upd_ne _ _ _ _ hb.1 (by omega))
  · exact Anc.frame ha (fun i hi => nwk_idx_upd_ne _ _ _ _ hb.1 (by omega))

/-! ## Read-back -/

theorem forestOfList_absT {heap : Heap} : ∀ (f : Forest) {lo hi : Int} {ps : List Int} (fuel : Nat),
    RepF heap lo hi ps f → (hi - lo).toNat ≤ fuel →
    forestOfList (ps.map (absT heap fuel)) = f := by
  intro f
  induction f with
  | nil => intro lo hi ps fuel h _; cases ps <;> simp [RepF] at h; rfl
  | cons n d k r ihk ihr =>
    intro lo hi ps fuel h hf
    cases ps with
    | nil => simp [RepF] at h
    | cons p ps =>
      simp only [RepF] at h
      obtain ⟨ks, mid, h1, h2, h3, h4, h5, h6⟩ := h
      cases fuel with
      | zero => omega
      | succ fuel =>
        have e1 : absT heap (fuel + 1) p = ⟨n, d, k⟩ := by
          simp only [absT, h4]
          rw [ihk fuel h5 (by omega)]
        simp only [List.map_cons, forestOfList, e1]
        rw [ihr (fuel + 1) h6 (by omega)]

/-- reading back a represented tree gives that tree (any fuel ≥ the number of cells after `p`) -/
theorem absT_of_RepT {heap : Heap} {p : Int} {t : Tree} (h : RepT heap p t) (fuel : Nat)
    (hf : heap.length ≤ fuel + p.toNat) (hf1 : 1 ≤ fuel) : absT heap fuel p = t := by
  obtain ⟨ks, h1, h2⟩ := h
  have hb := nwk_idx_some h1
  unfold len at hb h2
  cases fuel with
  | zero => omega
  | succ fuel =>
    simp only [absT, h1]
    rw [forestOfList_absT _ fuel h2 (by omega)]

end Bio.GoSrcLemmas
