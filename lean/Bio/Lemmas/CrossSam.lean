/-
  Helper lemmas for C11, SAM part: what `parseLine` can output satisfies the
  well-formedness predicate of the round-trip theorem C03, given that its text
  fields are free of TAB/CR/LF and that the external float normaliser `pf` is
  idempotent.
-/
import Bio.Lemmas.Cross
namespace Bio.Sam
open Bio

/-! ## The tag map stays strictly sorted under every insertion -/

theorem mem_tagInsert {k : Bytes} {v : TagVal} {acc : Tags} {p : Bytes × TagVal}
    (h : p ∈ tagInsert k v acc) : p = (k, v) ∨ p ∈ acc := by
  induction acc with
  | nil => simp [tagInsert] at h; exact Or.inl h
  | cons q rest ih =>
    obtain ⟨k', v'⟩ := q
    rw [tagInsert] at h
    split at h
    · rcases List.mem_cons.mp h with h | h
      · exact Or.inl h
      · exact Or.inr (List.mem_cons_of_mem _ h)
    · split at h
      · rcases List.mem_cons.mp h with h | h
        · exact Or.inl h
        · exact Or.inr h
      · rcases List.mem_cons.mp h with h | h
        · exact Or.inr (by rw [h]; simp)
        · rcases ih h with h | h
          · exact Or.inl h
          · exact Or.inr (List.mem_cons_of_mem _ h)

/-- Unlike `tagInsert_sorted`, no freshness hypothesis on the key: an equal key is
overwritten in place. -/
theorem tagInsert_sorted' (k : Bytes) (v : TagVal) (acc : Tags) (hs : SortedTags acc) :
    SortedTags (tagInsert k v acc) := by
  induction acc with
  | nil => simp [tagInsert, SortedTags]
  | cons q rest ih =>
    obtain ⟨k', v'⟩ := q
    rw [tagInsert]
    unfold SortedTags at hs ih ⊢
    rw [List.pairwise_cons] at hs
    split
    · rename_i hk
      subst hk
      exact List.pairwise_cons.2 ⟨hs.1, hs.2⟩
    · rename_i hne
      split
      · rename_i hlt
        rw [List.pairwise_cons]
        refine ⟨?_, List.pairwise_cons.2 hs⟩
        intro z hz
        rcases List.mem_cons.1 hz with e | hm
        · subst e; exact hlt
        · exact bytesLt_trans hlt (hs.1 z hm)
      · rename_i hlt
        have hgt : bytesLt k' k = true := bytesLt_of_ne_of_not_lt hne (by simpa using hlt)
        rw [List.pairwise_cons]
        refine ⟨?_, ih hs.2⟩
        intro z hz
        rcases mem_tagInsert hz with e | hm
        · subst e; exact hgt
        · exact hs.1 z hm

/-! ## What the tag parser can output -/

/-- A tag value as the parser produces it: integers in range, float tokens in the image
of `pf`. -/
def ParsedVal (pf : Bytes → Option Bytes) : TagVal → Prop
  | .I n => int64Min ≤ n ∧ n ≤ int64Max
  | .F t => ∃ t0, pf t0 = some t
  | _ => True

theorem parseTagVal_parsed {pf : Bytes → Option Bytes} {ty val : Bytes} {v : TagVal}
    (h : parseTagVal pf ty val = some v) : ParsedVal pf v := by
  unfold parseTagVal at h
  split at h
  · split at h
    · cases h; trivial
    · cases h
  · obtain ⟨n, hn, rfl⟩ := Option.map_eq_some_iff.mp h
    exact atoi_range hn
  · obtain ⟨t, ht, rfl⟩ := Option.map_eq_some_iff.mp h
    exact ⟨val, ht⟩
  · cases h; trivial
  · obtain ⟨t, ht, rfl⟩ := Option.map_eq_some_iff.mp h
    trivial
  · cases h; trivial
  · cases h

theorem parseTag_some {pf : Bytes → Option Bytes} {f : Bytes} {p : Bytes × TagVal}
    (h : parseTag pf f = some p) : COLON ∉ p.1 ∧ ParsedVal pf p.2 := by
  unfold parseTag at h
  split at h
  · cases h
  · rename_i name ty val hs
    obtain ⟨v, hv, rfl⟩ := Option.map_eq_some_iff.mp h
    refine ⟨?_, parseTagVal_parsed hv⟩
    unfold splitTag at hs
    split at hs
    · cases hs
    · rename_i name' r h1
      split at hs
      · cases hs
      · cases hs
        exact (splitColon_some h1).2

/-- Invariant of the tag accumulator. -/
def TagsInv (pf : Bytes → Option Bytes) (l : Tags) : Prop :=
  SortedTags l ∧ ∀ p ∈ l, COLON ∉ p.1 ∧ ParsedVal pf p.2

theorem parseTags_inv (pf : Bytes → Option Bytes) (fs : List Bytes) :
    ∀ (acc out : Tags), TagsInv pf acc → parseTags pf fs acc = some out → TagsInv pf out := by
  induction fs with
  | nil => intro acc out hacc h; cases h; exact hacc
  | cons f rest ih =>
    intro acc out hacc h
    rw [parseTags_cons] at h
    split at h
    · cases h
    · rename_i p hp
      refine ih _ out ⟨tagInsert_sorted' _ _ _ hacc.1, ?_⟩ h
      intro q hq
      rcases mem_tagInsert hq with e | hm
      · have := parseTag_some hp
        rw [e]; exact this
      · exact hacc.2 q hm

/-- Everything the line parser guarantees about an accepted record. -/
theorem parseLine_some {pf : Bytes → Option Bytes} {fs : List Bytes} {s : Sam}
    (h : parseLine pf fs = some s) :
    s.qname = fs[0]?.getD [] ∧
    (int64Min ≤ s.flag ∧ s.flag ≤ int64Max) ∧ (int64Min ≤ s.pos ∧ s.pos ≤ int64Max) ∧
    (int64Min ≤ s.mapq ∧ s.mapq ≤ int64Max) ∧ (int64Min ≤ s.pnext ∧ s.pnext ≤ int64Max) ∧
    (int64Min ≤ s.tlen ∧ s.tlen ≤ int64Max) ∧ TagsInv pf s.tags := by
  unfold parseLine at h
  split at h
  · split at h
    · rename_i h1 h2 h3 h4 h5
      split at h
      · rename_i tags ht
        cases h
        exact ⟨rfl, atoi_range h1, atoi_range h2, atoi_range h3, atoi_range h4, atoi_range h5,
          parseTags_inv pf _ [] tags ⟨List.Pairwise.nil, by simp⟩ ht⟩
      · cases h
    · cases h
  · cases h

/-! ## Records delivered by the readers come from `parseLine` on a non-header line -/

theorem mem_dropHeaders {s : Sam} : ∀ {l : List (Item Entry)},
    Item.ok s ∈ dropHeaders l → Item.ok (Entry.sam s) ∈ l
  | [], h => by simp [dropHeaders] at h
  | .ok (.hdr _) :: rest, h => by
    simp only [dropHeaders] at h
    exact List.mem_cons_of_mem _ (mem_dropHeaders h)
  | .ok (.sam s') :: rest, h => by
    simp only [dropHeaders] at h
    rcases List.mem_cons.mp h with h | h
    · cases h; simp
    · exact List.mem_cons_of_mem _ (mem_dropHeaders h)
  | .err :: rest, h => by
    simp only [dropHeaders] at h
    rcases List.mem_cons.mp h with h | h
    · cases h
    · exact List.mem_cons_of_mem _ (mem_dropHeaders h)

theorem lineItem_sam {pf : Bytes → Option Bytes} {l : Bytes} {s : Sam}
    (h : lineItem pf l = Item.ok (Entry.sam s)) :
    l.head? ≠ some 64 ∧ parseLine pf (splitOn TAB l) = some s := by
  unfold lineItem at h
  split at h
  · cases h
  · rename_i hne
    split at h
    · rename_i s' hp
      cases h
      refine ⟨?_, hp⟩
      intro hh
      cases l with
      | nil => simp at hh
      | cons c r =>
        have : c = 64 := by simpa using hh
        subst this
        exact hne r rfl
    · cases h

theorem header_ok_mem (pf : Bytes → Option Bytes) (e : Ending) (x : Bytes) (s : Sam)
    (h : Item.ok (Entry.sam s) ∈ decodeHeaderSrc pf e x) :
    ∃ l : Bytes, l ≠ [] ∧ l.head? ≠ some 64 ∧ parseLine pf (splitOn TAB l) = some s := by
  unfold decodeHeaderSrc at h
  rcases List.mem_append.mp h with h | h
  · unfold itemsOfLines at h
    obtain ⟨l, hl, hi⟩ := List.mem_map.mp h
    have hne : l ≠ [] := by simpa using (List.mem_filter.mp hl).2
    obtain ⟨h1, h2⟩ := lineItem_sam hi
    exact ⟨l, hne, h1, h2⟩
  · cases e <;> simp [endItems] at h

/-! ## Clean records -/

/-- The text carried by a tag value is free of TAB/CR/LF. -/
def valClean : TagVal → Prop
  | .A c => c ≠ 9 ∧ c ≠ 10 ∧ c ≠ 13
  | .F t => textOK t
  | .Z s => textOK s
  | _ => True

/-- Every text field of the record (including tag names and tag texts) is free of
TAB/CR/LF. -/
def Clean (s : Sam) : Prop :=
  textOK s.qname ∧ textOK s.rname ∧ textOK s.cigar ∧ textOK s.rnext ∧ textOK s.seq ∧
  textOK s.qual ∧ ∀ p ∈ s.tags, textOK p.1 ∧ valClean p.2

instance : (v : TagVal) → Decidable (valClean v)
  | .A c => inferInstanceAs (Decidable (c ≠ 9 ∧ c ≠ 10 ∧ c ≠ 13))
  | .I _ => inferInstanceAs (Decidable True)
  | .F t => inferInstanceAs (Decidable (textOK t))
  | .Z s => inferInstanceAs (Decidable (textOK s))
  | .H _ => inferInstanceAs (Decidable True)
instance (s : Sam) : Decidable (Clean s) := inferInstanceAs (Decidable (_ ∧ _))

theorem wfVal_of_parsed {pf : Bytes → Option Bytes}
    (hpf : ∀ t t', pf t = some t' → pf t' = some t') {v : TagVal}
    (hp : ParsedVal pf v) (hc : valClean v) : WFVal pf v := by
  cases v with
  | A c => exact hc
  | I n => exact hp
  | F t => obtain ⟨t0, h0⟩ := hp; exact ⟨hpf t0 t h0, hc⟩
  | Z z => exact hc
  | H bs => trivial

/-- A record delivered by the reader, clean, is in the domain of the round-trip theorem. -/
theorem accepted_WF (pf : Bytes → Option Bytes)
    (hpf : ∀ t t', pf t = some t' → pf t' = some t')
    (e : Ending) (x : Bytes) (s : Sam) (hm : Item.ok s ∈ decodeSrc pf e x) (hc : Clean s) :
    WF pf s := by
  obtain ⟨l, hne, h64, hp⟩ := header_ok_mem pf e x s (mem_dropHeaders hm)
  obtain ⟨hq, hfl, hpo, hmq, hpn, htl, hsorted, htags⟩ := parseLine_some hp
  obtain ⟨c1, c2, c3, c4, c5, c6, c7⟩ := hc
  refine ⟨c1, c2, c3, c4, c5, c6, ?_, hfl, hpo, hmq, hpn, htl, ?_, hsorted⟩
  · rw [hq]
    cases l with
    | nil => exact absurd rfl hne
    | cons c r =>
      rw [splitOn_head_head]
      split
      · simp
      · intro hh
        apply h64
        have : c = 64 := by simpa using hh
        simp [this]
  · intro p hp'
    refine ⟨?_, wfVal_of_parsed hpf (htags p hp').2 (c7 p hp').2⟩
    intro b hb
    refine ⟨?_, (c7 p hp').1 b hb⟩
    intro h58
    subst h58
    exact (htags p hp').1 hb

/-- The written form of one well-formed record decodes to exactly that record. -/
theorem decode_encode (pf : Bytes → Option Bytes) (s : Sam) (h : WF pf s) :
    decodeHeader pf (encode s) = [Item.ok (Entry.sam s)] ∧ decode pf (encode s) = [Item.ok s] := by
  have := file_roundtrip pf [] [s] (by simp) (by simpa using h)
  simpa [encode, LF] using this

end Bio.Sam
