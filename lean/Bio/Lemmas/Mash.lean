/-
  Lemmas for property C17 (mash): the fold of `push` is the bottom-`n` of the
  distinct values, `kmers` facts, strand symmetry of canonical k-mers
  (`Bio.Sequtil.canonical_revComp`, also C12's last clause), and the merge
  walk `intersect`.  Core Lean only; everything is parametric in the hash and
  the complement table.
-/
import Bio.Model.Mash
/-! ## Order facts on `bytesLt`, `mapM`, reverse complement (kept in `Bio.Mash` so that they
cannot collide with other lemma files) -/
namespace Bio.Mash
open Sequtil

theorem bytesLt_asymm : ∀ {a b : Bytes}, bytesLt a b = true → bytesLt b a = false
  | [], [], h => by simp [bytesLt] at h
  | [], _ :: _, _ => by simp [bytesLt]
  | _ :: _, [], h => by simp [bytesLt] at h
  | x :: xs, y :: ys, h => by
    simp only [bytesLt] at h ⊢
    have ih := @bytesLt_asymm xs ys
    split at h
    · rename_i hxy
      have : ¬ y < x := by simp only [UInt8.lt_iff_toNat_lt] at hxy ⊢; omega
      simp [this, hxy]
    · rename_i hxy
      split at h
      · simp at h
      · simp [*]

theorem bytesLt_trichotomy : ∀ {a b : Bytes}, bytesLt a b = false → bytesLt b a = false → a = b
  | [], [], _, _ => rfl
  | [], _ :: _, h, _ => by simp [bytesLt] at h
  | _ :: _, [], _, h => by simp [bytesLt] at h
  | x :: xs, y :: ys, h1, h2 => by
    simp only [bytesLt] at h1 h2
    have ih := @bytesLt_trichotomy xs ys
    split at h1
    · simp at h1
    · rename_i hxy
      split at h1
      · rename_i hyx
        simp [hyx] at h2
      · rename_i hyx
        simp only [hyx, hxy, if_false] at h2
        have : x = y := by
          apply UInt8.toNat_inj.1
          simp only [UInt8.lt_iff_toNat_lt] at hxy hyx; omega
        rw [this, ih h1 h2]


theorem mapM_eq_some_iff {α β : Type} (f : α → Option β) : ∀ (l : List α) (r : List β),
    l.mapM f = some r ↔ l.map f = r.map some
  | [], r => by cases r <;> simp
  | a :: l, r => by
    have ih := mapM_eq_some_iff f l
    rw [List.mapM_cons]
    cases r with
    | nil => cases f a <;> cases l.mapM f <;> simp
    | cons c r =>
      have ih' := ih r
      cases hfa : f a with
      | none => simp [hfa]
      | some b =>
        cases hl : l.mapM f with
        | none => rw [hl] at ih'; simp [hfa] at ih' ⊢; intro _; exact ih'
        | some r' =>
          rw [hl] at ih'
          simp only [Option.some.injEq] at ih'
          simp [← ih', hfa]

theorem revComp_nil_eq_some_iff (tbl : List UInt8) (s r : Bytes) :
    revComp tbl [] s = some r ↔ s.reverse.map (comp tbl) = r.map some := by
  simp only [revComp, List.nil_append, Option.map_id']
  exact mapM_eq_some_iff _ _ _

theorem map_inv {α β : Type} {f : α → Option β} {g : β → Option α}
    (hfg : ∀ b c, f b = some c → g c = some b) : ∀ {l : List α} {r : List β},
    l.map f = r.map some → r.map g = l.map some
  | [], [], _ => rfl
  | [], _ :: _, h => by simp at h
  | _ :: _, [], h => by simp at h
  | a :: l, c :: r, h => by
    simp only [List.map_cons, List.cons.injEq] at h ⊢
    exact ⟨hfg a c h.1, map_inv hfg h.2⟩

/-- Under an involutive table, reverse complement is an involution. -/
theorem revComp_involutive {tbl : List UInt8}
    (hc : ∀ b c, comp tbl b = some c → comp tbl c = some b) {s r : Bytes}
    (h : revComp tbl [] s = some r) : revComp tbl [] r = some s := by
  rw [revComp_nil_eq_some_iff] at h ⊢
  have := map_inv hc h
  rw [← List.reverse_inj, ← List.map_reverse, ← List.map_reverse, List.reverse_reverse] at this
  exact this

theorem revComp_length {tbl : List UInt8} {s r : Bytes} (h : revComp tbl [] s = some r) :
    r.length = s.length := by
  rw [revComp_nil_eq_some_iff] at h
  have := congrArg List.length h
  simpa using this.symm

theorem canonLoop_true (seq rc : Bytes) (k : Nat) : ∀ (n i : Nat),
    canonLoop (fun _ => true) seq rc k i n = (List.range' i n).map (canonItem seq rc k)
  | 0, _ => rfl
  | n + 1, i => by
    simp only [canonLoop, if_true, List.range'_succ, List.map_cons, canonLoop_true seq rc k n (i + 1)]

theorem canonical_eq {tbl : List UInt8} {s r : Bytes} (k : Nat) (h : revComp tbl [] s = some r) :
    canonical tbl s k = some ((List.range (s.length + 1 - k)).map (canonItem s r k)) := by
  simp only [canonical, canonicalLog, h, canonLoop_true, List.range_eq_range']

/-- Swapping the strands mirrors the window index. -/
theorem canonItem_swap {s r : Bytes} {k i : Nat} (hl : r.length = s.length)
    (hi : i + k ≤ s.length) :
    canonItem r s k i = canonItem s r k (s.length - k - i) := by
  simp only [canonItem, hl]
  rw [show s.length - (s.length - k - i) - k = i by omega,
    show s.length - i - k = s.length - k - i by omega]
  generalize List.take k (List.drop i r) = V
  generalize List.take k (List.drop (s.length - k - i) s) = W
  cases h1 : bytesLt W V <;> cases h2 : bytesLt V W <;> simp
  · exact (bytesLt_trichotomy h2 h1)
  · have := bytesLt_asymm h1; simp [h2] at this

end Bio.Mash

namespace Bio.Sequtil
open Bio.Mash

/-- Strand symmetry of canonical k-mers: the reverse complement yields the same
items in the opposite order. -/
theorem canonical_revComp {tbl : List UInt8}
    (hc : ∀ b c, comp tbl b = some c → comp tbl c = some b) {s r : Bytes} (k : Nat)
    (h : revComp tbl [] s = some r) :
    canonical tbl r k = (canonical tbl s k).map List.reverse := by
  have hl := revComp_length h
  rw [canonical_eq k h, canonical_eq k (revComp_involutive hc h), hl, Option.map_some]
  congr 1
  apply List.ext_getElem
  · simp
  · intro i h1 h2
    simp only [List.length_map, List.length_range] at h1
    simp only [List.getElem_map, List.getElem_range, List.getElem_reverse, List.length_map,
      List.length_range]
    rw [canonItem_swap hl (by omega)]
    congr 1; omega

/-- The same without naming the reverse complement: a panic (`none`) of
`ReverseComplement` is a panic of `CanonicalSubsequences` on either strand. -/
theorem canonical_revComp_bind {tbl : List UInt8}
    (hc : ∀ b c, comp tbl b = some c → comp tbl c = some b) (s : Bytes) (k : Nat) :
    (revComp tbl [] s).bind (fun r => canonical tbl r k) =
      (canonical tbl s k).map List.reverse := by
  cases h : revComp tbl [] s with
  | none => simp [canonical, canonicalLog, h]
  | some r => simpa using canonical_revComp hc k h

end Bio.Sequtil

namespace Bio.Mash

def dedup : List Nat → List Nat
  | [] => []
  | x :: xs => if x ∈ xs then dedup xs else x :: dedup xs

def insAsc (x : Nat) : List Nat → List Nat
  | [] => [x]
  | y :: ys => if x ≤ y then x :: y :: ys else y :: insAsc x ys

def sortAsc (l : List Nat) : List Nat := l.foldr insAsc []

def bottomN (n : Nat) (l : List Nat) : List Nat := ((sortAsc (dedup l)).take n).reverse

abbrev SA (l : List Nat) : Prop := l.Pairwise (· < ·)
abbrev SD (l : List Nat) : Prop := l.Pairwise (· > ·)

theorem mem_dedup {x : Nat} : ∀ {l : List Nat}, x ∈ dedup l ↔ x ∈ l
  | [] => by simp [dedup]
  | y :: ys => by
    have ih := @mem_dedup x ys
    simp only [dedup]; split <;> grind

theorem nodup_dedup : ∀ (l : List Nat), (dedup l).Nodup
  | [] => by simp [dedup]
  | y :: ys => by
    have ih := nodup_dedup ys
    simp only [dedup]; split
    · exact ih
    · simp [mem_dedup, *]

theorem mem_insAsc {x z : Nat} : ∀ {l : List Nat}, z ∈ insAsc x l ↔ z = x ∨ z ∈ l
  | [] => by simp [insAsc]
  | y :: ys => by
    have ih := @mem_insAsc x z ys
    simp only [insAsc]; split <;> grind

theorem mem_sortAsc {z : Nat} : ∀ {l : List Nat}, z ∈ sortAsc l ↔ z ∈ l
  | [] => by simp [sortAsc]
  | y :: ys => by
    have ih := @mem_sortAsc z ys
    simp only [sortAsc, List.foldr_cons] at ih ⊢
    rw [mem_insAsc, ih]; simp

theorem SA_insAsc {x : Nat} : ∀ {l : List Nat}, SA l → x ∉ l → SA (insAsc x l)
  | [], _, _ => by simp [insAsc]
  | y :: ys, h, hx => by
    have ih := @SA_insAsc x ys
    simp only [SA, List.pairwise_cons] at h ⊢
    simp only [insAsc]; split
    · simp only [List.pairwise_cons]; grind
    · simp only [List.pairwise_cons, mem_insAsc]; grind

theorem SA_sortAsc : ∀ {l : List Nat}, l.Nodup → SA (sortAsc l)
  | [], _ => by simp [sortAsc]
  | y :: ys, h => by
    simp only [List.nodup_cons] at h
    exact SA_insAsc (SA_sortAsc h.2) (fun hm => h.1 (mem_sortAsc.1 hm))

theorem SA_ext : ∀ {a b : List Nat}, SA a → SA b → (∀ x, x ∈ a ↔ x ∈ b) → a = b
  | [], [], _, _, _ => rfl
  | [], y :: ys, _, _, h => absurd ((h y).2 (by simp)) (by simp)
  | x :: xs, [], _, _, h => absurd ((h x).1 (by simp)) (by simp)
  | x :: xs, y :: ys, ha, hb, h => by
    simp only [SA, List.pairwise_cons] at ha hb
    have hxy : x = y := by
      have h1 := (h x).1 (by simp); have h2 := (h y).2 (by simp)
      grind
    subst hxy
    congr 1
    apply SA_ext ha.2 hb.2
    intro z; have hz := h z
    grind

theorem SD_ext {a b : List Nat} (ha : SD a) (hb : SD b) (h : ∀ x, x ∈ a ↔ x ∈ b) : a = b := by
  have := @SA_ext a.reverse b.reverse (by simpa [SA, List.pairwise_reverse] using ha)
    (by simpa [SA, List.pairwise_reverse] using hb) (by simpa using h)
  simpa using this


/-! ## push as insert-then-keep-last-n -/

def insD (x : Nat) : List Nat → List Nat
  | [] => [x]
  | y :: ys => if x > y then x :: y :: ys else if x = y then y :: ys else y :: insD x ys

def lastN (n : Nat) (s : List Nat) : List Nat := s.drop (s.length - n)

theorem mem_insD {x z : Nat} : ∀ {l : List Nat}, z ∈ insD x l ↔ z = x ∨ z ∈ l
  | [] => by simp [insD]
  | y :: ys => by
    have ih := @mem_insD x z ys
    simp only [insD]; split
    · grind
    · split <;> grind

theorem SD_insD {x : Nat} : ∀ {l : List Nat}, SD l → SD (insD x l)
  | [], _ => by simp [insD]
  | y :: ys, h => by
    have ih := @SD_insD x ys
    simp only [SD, List.pairwise_cons] at h ⊢
    simp only [insD]; split
    · simp only [List.pairwise_cons]; grind
    · split
      · simp only [List.pairwise_cons]; grind
      · simp only [List.pairwise_cons, mem_insD]; grind

theorem length_insD {x : Nat} : ∀ {l : List Nat},
    l.length ≤ (insD x l).length ∧ (insD x l).length ≤ l.length + 1
  | [] => by simp [insD]
  | y :: ys => by
    have ih := @length_insD x ys
    simp only [insD]; split
    · simp
    · split <;> simp <;> omega

theorem insD_of_gt {x : Nat} : ∀ {l : List Nat}, (∀ y ∈ l, y < x) → insD x l = x :: l
  | [], _ => rfl
  | y :: ys, h => by
    have := h y (by simp)
    simp [insD, this]

theorem insD_of_mem {x : Nat} : ∀ {l : List Nat}, SD l → x ∈ l → insD x l = l
  | y :: ys, h, hx => by
    have ih := @insD_of_mem x ys
    simp only [SD, List.pairwise_cons] at h
    simp only [insD]
    split
    · grind
    · split
      · rfl
      · grind

theorem insD_eq_insertDesc {x : Nat} : ∀ {l : List Nat}, x ∉ l → insD x l = insertDesc x l
  | [], _ => rfl
  | y :: ys, h => by
    have ih := @insD_eq_insertDesc x ys
    simp only [insD, insertDesc]
    split
    · rfl
    · split
      · grind
      · grind

theorem length_insD_of_not_mem {x : Nat} : ∀ {l : List Nat}, x ∉ l →
    (insD x l).length = l.length + 1
  | [], _ => rfl
  | y :: ys, h => by
    have ih := @length_insD_of_not_mem x ys
    simp only [insD]
    split
    · rfl
    · split
      · grind
      · grind

theorem lastN_of_le {n : Nat} {s : List Nat} (h : s.length ≤ n) : lastN n s = s := by
  simp [lastN, Nat.sub_eq_zero_of_le h]

theorem lastN_cons_of_ge {n y : Nat} {s : List Nat} (h : n ≤ s.length) :
    lastN n (y :: s) = lastN n s := by
  simp only [lastN, List.length_cons]
  rw [show s.length + 1 - n = (s.length - n) + 1 by omega]; rfl

theorem SD_lastN {n : Nat} {s : List Nat} (h : SD s) : SD (lastN n s) :=
  List.Pairwise.sublist (List.drop_sublist _ _) h

theorem length_lastN {n : Nat} {s : List Nat} : (lastN n s).length = min n s.length := by
  simp [lastN]; omega

theorem push_eq {n x : Nat} {s : List Nat} (hs : SD s) (hl : s.length ≤ n) :
    push n s x = lastN n (insD x s) := by
  unfold push
  have hlen := @length_insD x s
  split
  · rename_i h
    simp only [Bool.and_eq_true, beq_iff_eq, decide_eq_true_eq] at h
    cases s with
    | nil =>
      simp at h
      subst h; simp [lastN, insD]
    | cons y ys =>
      simp only [List.headD_cons] at h
      simp only [SD, List.pairwise_cons] at hs
      rcases Nat.lt_or_eq_of_le h.2 with h2 | h2
      · rw [show insD x (y :: ys) = x :: y :: ys by simp [insD, h2]]
        rw [lastN_cons_of_ge (by omega), lastN_of_le (by omega)]
      · subst h2
        rw [show insD y (y :: ys) = y :: ys by simp [insD]]
        rw [lastN_of_le (by omega)]
  · rename_i h1
    split
    · rename_i h2
      simp only [List.contains_iff_mem] at h2
      rw [insD_of_mem hs h2, lastN_of_le hl]
    · rename_i h2
      simp only [List.contains_iff_mem] at h2
      split
      · rename_i h3
        simp only [beq_iff_eq] at h3
        simp only [h3, beq_self_eq_true, Bool.true_and, decide_eq_true_eq] at h1
        cases s with
        | nil =>
          simp at h1
        | cons y ys =>
          simp only [List.headD_cons] at h1
          simp only [List.mem_cons, not_or] at h2
          have : insD x (y :: ys) = y :: insD x ys := by
            simp only [insD]; rw [if_neg (by omega), if_neg h2.1]
          rw [this, lastN_cons_of_ge, lastN_of_le, List.drop_one, List.tail_cons,
            insD_eq_insertDesc h2.2]
          · have := length_insD_of_not_mem h2.2; simp at h3; omega
          · have := length_insD_of_not_mem h2.2; simp at h3; omega
      · rename_i h3
        simp only [beq_iff_eq] at h3
        rw [← insD_eq_insertDesc h2, lastN_of_le (by omega)]


theorem lastN_insD_lastN {n x : Nat} : ∀ {s : List Nat}, SD s →
    lastN n (insD x (lastN n s)) = lastN n (insD x s)
  | [], _ => by simp [lastN]
  | y :: ys, h => by
    have ih := @lastN_insD_lastN n x ys
    simp only [SD, List.pairwise_cons] at h
    by_cases hl : (y :: ys).length ≤ n
    · rw [lastN_of_le hl]
    · have hl' : n ≤ ys.length := by simp at hl; omega
      rw [lastN_cons_of_ge hl', ih h.2]
      simp only [insD]
      split
      · rename_i hxy
        rw [insD_of_gt (by intro z hz; have := h.1 z hz; omega)]
        rw [lastN_cons_of_ge hl', lastN_cons_of_ge (by simp; omega), lastN_cons_of_ge hl']
      · split
        · rename_i hxy; subst hxy
          rw [insD_of_gt (by intro z hz; exact h.1 z hz)]
        · rw [lastN_cons_of_ge (by have := @length_insD x ys; omega)]

theorem SD_foldl_insD : ∀ (l : List Nat) {s : List Nat}, SD s → SD (l.foldl (fun s x => insD x s) s)
  | [], _, h => h
  | _ :: l, _, h => SD_foldl_insD l (SD_insD h)

theorem mem_foldl_insD {z : Nat} : ∀ (l : List Nat) {s : List Nat},
    z ∈ l.foldl (fun s x => insD x s) s ↔ z ∈ s ∨ z ∈ l
  | [], _ => by simp
  | x :: l, s => by
    rw [List.foldl_cons, mem_foldl_insD l, mem_insD]; simp; grind

theorem lastN_foldl_lastN {n : Nat} : ∀ (l : List Nat) {s : List Nat}, SD s →
    lastN n (l.foldl (fun s x => insD x s) (lastN n s)) = lastN n (l.foldl (fun s x => insD x s) s)
  | [], s, _ => by simp [lastN]; omega
  | x :: l, s, h => by
    simp only [List.foldl_cons]
    rw [← lastN_foldl_lastN l (SD_insD (SD_lastN h)), lastN_insD_lastN h,
      lastN_foldl_lastN l (SD_insD h)]

theorem foldl_push {n : Nat} : ∀ (l : List Nat) {s : List Nat}, SD s → s.length ≤ n →
    l.foldl (push n) s = lastN n (l.foldl (fun s x => insD x s) s)
  | [], s, _, hl => by simp [lastN_of_le hl]
  | x :: l, s, h, hl => by
    simp only [List.foldl_cons]
    rw [push_eq h hl, foldl_push l (SD_lastN (SD_insD h)) (by rw [length_lastN]; omega),
      lastN_foldl_lastN l (SD_insD h)]

theorem SA_sortDedup (l : List Nat) : SA (sortAsc (dedup l)) := SA_sortAsc (nodup_dedup l)

theorem mem_sortDedup {z : Nat} {l : List Nat} : z ∈ sortAsc (dedup l) ↔ z ∈ l := by
  rw [mem_sortAsc, mem_dedup]

theorem lastN_reverse {n : Nat} {t : List Nat} : lastN n t.reverse = (t.take n).reverse := by
  simp only [lastN, List.length_reverse, List.drop_reverse]
  congr 1
  rw [show t.length - (t.length - n) = min n t.length by omega, ← List.take_eq_take_min]

theorem foldl_insD_eq (l : List Nat) :
    l.foldl (fun s x => insD x s) [] = (sortAsc (dedup l)).reverse := by
  apply SD_ext (SD_foldl_insD l (by simp [SD]))
  · simpa [SD, List.pairwise_reverse] using SA_sortDedup l
  · intro z; simp [mem_foldl_insD, mem_sortDedup]

/-- The fold of `push` over any list, from the empty sketch, is the bottom-`n`. -/
theorem foldl_push_nil (n : Nat) (l : List Nat) : l.foldl (push n) [] = bottomN n l := by
  rw [foldl_push l (by simp [SD]) (by simp), foldl_insD_eq, lastN_reverse, bottomN]


/-! ## What `bottomN` is -/

theorem SD_bottomN (n : Nat) (l : List Nat) : SD (bottomN n l) := by
  simp only [bottomN, SD, List.pairwise_reverse]
  exact List.Pairwise.sublist (List.take_sublist _ _) (SA_sortDedup l)

theorem perm_insAsc (x : Nat) : ∀ (l : List Nat), (insAsc x l).Perm (x :: l)
  | [] => by simp [insAsc]
  | y :: ys => by
    simp only [insAsc]; split
    · exact List.Perm.refl _
    · exact ((perm_insAsc x ys).cons y).trans (List.Perm.swap x y ys)

theorem perm_sortAsc : ∀ (l : List Nat), (sortAsc l).Perm l
  | [] => by simp [sortAsc]
  | y :: ys => (perm_insAsc y (sortAsc ys)).trans ((perm_sortAsc ys).cons y)

theorem length_bottomN (n : Nat) (l : List Nat) :
    (bottomN n l).length = min n (dedup l).length := by
  simp [bottomN, (perm_sortAsc (dedup l)).length_eq]

theorem mem_take_SA {x : Nat} : ∀ {t : List Nat} {n : Nat}, SA t →
    (x ∈ t.take n ↔ x ∈ t ∧ (t.filter (· < x)).length < n)
  | [], n, _ => by simp
  | y :: ys, 0, _ => by simp
  | y :: ys, m + 1, h => by
    simp only [SA, List.pairwise_cons] at h
    have ih := @mem_take_SA x ys m h.2
    have h0 : x = y → (ys.filter (· < x)).length = 0 := by
      intro e; subst e
      simp only [List.length_eq_zero_iff, List.filter_eq_nil_iff, decide_eq_true_eq]
      intro z hz; have := h.1 z hz; omega
    simp only [List.take_succ_cons, List.mem_cons, List.filter_cons, decide_eq_true_eq]
    split
    · rename_i hyx
      simp only [List.length_cons]
      constructor
      · rintro (e | hm)
        · omega
        · have := ih.1 hm; exact ⟨Or.inr this.1, by omega⟩
      · rintro ⟨e | hm, hc⟩
        · omega
        · exact Or.inr (ih.2 ⟨hm, by omega⟩)
    · rename_i hyx
      constructor
      · rintro (e | hm)
        · exact ⟨Or.inl e, by have := h0 e; omega⟩
        · have := ih.1 hm; have := h.1 x this.1; omega
      · rintro ⟨e | hm, hc⟩
        · exact Or.inl e
        · have := h.1 x hm; omega

/-- `x` is in the bottom-`n` iff it occurs and fewer than `n` distinct values are below it. -/
theorem mem_bottomN {n x : Nat} {l : List Nat} :
    x ∈ bottomN n l ↔ x ∈ l ∧ ((dedup l).filter (· < x)).length < n := by
  simp only [bottomN, List.mem_reverse, mem_take_SA (SA_sortDedup l), mem_sortDedup]
  rw [((perm_sortAsc (dedup l)).filter _).length_eq]

theorem bottomN_congr {n : Nat} {l l' : List Nat} (h : ∀ x, x ∈ l ↔ x ∈ l') :
    bottomN n l = bottomN n l' := by
  have : sortAsc (dedup l) = sortAsc (dedup l') :=
    SA_ext (SA_sortDedup l) (SA_sortDedup l') (by intro x; simp [mem_sortDedup, h])
  simp [bottomN, this]

/-- A smaller bottom sketch is the tail (last `n'` entries) of a larger one. -/
theorem bottomN_tail {n n' : Nat} (l : List Nat) (h : n' ≤ n) :
    bottomN n' l = lastN n' (bottomN n l) := by
  simp only [bottomN, lastN_reverse, List.take_take, Nat.min_eq_left h]


/-! ## `kmers` and `sketch` -/

theorem kmers_cons (tbl : List UInt8) (k : Nat) (s : Bytes) (rest : List Bytes) :
    kmers tbl k (s :: rest) =
      (Sequtil.canonical tbl (upper s) k).bind fun a => (kmers tbl k rest).map fun b => a ++ b := by
  rw [kmers]
  cases Sequtil.canonical tbl (upper s) k <;> cases kmers tbl k rest <;> rfl

theorem kmers_append (tbl : List UInt8) (k : Nat) : ∀ (xs ys : List Bytes),
    kmers tbl k (xs ++ ys) =
      (kmers tbl k xs).bind fun a => (kmers tbl k ys).map fun b => a ++ b
  | [], ys => by simp [kmers]
  | x :: xs, ys => by
    rw [List.cons_append, kmers_cons, kmers_cons, kmers_append tbl k xs ys]
    cases Sequtil.canonical tbl (upper x) k <;> cases kmers tbl k xs <;>
      cases kmers tbl k ys <;> simp

theorem kmers_eq_none_iff (tbl : List UInt8) (k : Nat) : ∀ (seqs : List Bytes),
    kmers tbl k seqs = none ↔ ∃ s ∈ seqs, Sequtil.canonical tbl (upper s) k = none
  | [] => by simp [kmers]
  | x :: xs => by
    rw [kmers_cons]
    have ih := kmers_eq_none_iff tbl k xs
    cases hx : Sequtil.canonical tbl (upper x) k <;> cases hk : kmers tbl k xs <;>
      simp [hx, hk] at ih ⊢ <;> grind

theorem mem_kmers (tbl : List UInt8) (k : Nat) {z : Bytes} : ∀ (seqs : List Bytes) {ks : List Bytes},
    kmers tbl k seqs = some ks →
    (z ∈ ks ↔ ∃ s ∈ seqs, ∃ a, Sequtil.canonical tbl (upper s) k = some a ∧ z ∈ a)
  | [], ks, h => by simp [kmers] at h; subst h; simp
  | x :: xs, ks, h => by
    rw [kmers_cons] at h
    cases hx : Sequtil.canonical tbl (upper x) k <;> cases hk : kmers tbl k xs <;>
      simp [hx, hk] at h
    subst h
    have ih := mem_kmers tbl k (z := z) xs hk
    simp only [List.mem_append, ih, List.mem_cons, exists_eq_or_imp, hx, Option.some.injEq,
      exists_eq_left']

/-- `sketch` unfolded: the bottom-`n` of the hashed k-mers. -/
theorem sketch_eq (tbl : List UInt8) (h : Bytes → Nat) (n k : Nat) (seqs : List Bytes) :
    sketch tbl h n k seqs = (kmers tbl k seqs).map fun ks => bottomN n (ks.map h) := by
  simp only [sketch, addTo, foldl_push_nil]

/-- The sketch only depends on the *set* of sequences. -/
theorem sketch_congr_mem (tbl : List UInt8) (h : Bytes → Nat) (n k : Nat) {xs ys : List Bytes}
    (hm : ∀ s, s ∈ xs ↔ s ∈ ys) : sketch tbl h n k xs = sketch tbl h n k ys := by
  rw [sketch_eq, sketch_eq]
  cases hx : kmers tbl k xs with
  | none =>
    have := (kmers_eq_none_iff tbl k xs).1 hx
    have : kmers tbl k ys = none := by
      rw [kmers_eq_none_iff]; obtain ⟨s, hs, e⟩ := this; exact ⟨s, (hm s).1 hs, e⟩
    rw [this]
  | some a =>
    cases hy : kmers tbl k ys with
    | none =>
      obtain ⟨s, hs, e⟩ := (kmers_eq_none_iff tbl k ys).1 hy
      have : kmers tbl k xs = none := (kmers_eq_none_iff tbl k xs).2 ⟨s, (hm s).2 hs, e⟩
      rw [this] at hx; cases hx
    | some b =>
      simp only [Option.map_some, Option.some.injEq]
      apply bottomN_congr
      intro v
      simp only [List.mem_map, mem_kmers tbl k xs hx, mem_kmers tbl k ys hy, hm]

theorem sketch_perm (tbl : List UInt8) (h : Bytes → Nat) (n k : Nat) {xs ys : List Bytes}
    (hp : xs.Perm ys) : sketch tbl h n k xs = sketch tbl h n k ys :=
  sketch_congr_mem tbl h n k fun _ => hp.mem_iff

theorem sketch_append (tbl : List UInt8) (h : Bytes → Nat) (n k : Nat) (xs ys : List Bytes) :
    (sketch tbl h n k xs).bind (fun s => addTo tbl h n k s ys) = sketch tbl h n k (xs ++ ys) := by
  simp only [sketch, addTo, kmers_append]
  cases kmers tbl k xs <;> cases kmers tbl k ys <;> simp [List.foldl_append]

/-! ### letter case -/

def upperByte (b : UInt8) : UInt8 := if 97 ≤ b && b ≤ 122 then b - 32 else b

theorem upper_eq_map (s : Bytes) : upper s = s.map upperByte := rfl

theorem upperByte_idem : ∀ b : UInt8, upperByte (upperByte b) = upperByte b := by
  intro b
  simp only [upperByte]
  split
  · rename_i hb
    simp only [Bool.and_eq_true, decide_eq_true_eq, UInt8.le_iff_toNat_le] at hb
    have h32 : (32 : UInt8).toNat = 32 := rfl
    have h97 : (97 : UInt8).toNat = 97 := rfl
    have h122 : (122 : UInt8).toNat = 122 := rfl
    have : (b - 32).toNat = b.toNat - 32 := by
      rw [UInt8.toNat_sub_of_le]; rfl; rw [UInt8.le_iff_toNat_le]; omega
    rw [if_neg]
    simp only [Bool.and_eq_true, decide_eq_true_eq, UInt8.le_iff_toNat_le, not_and]
    omega
  · rfl

theorem upper_idem (s : Bytes) : upper (upper s) = upper s := by
  simp [upper_eq_map, List.map_map, Function.comp_def, upperByte_idem]

theorem kmers_congr_upper (tbl : List UInt8) (k : Nat) : ∀ {xs ys : List Bytes},
    xs.map upper = ys.map upper → kmers tbl k xs = kmers tbl k ys
  | [], [], _ => rfl
  | [], _ :: _, h => by simp at h
  | _ :: _, [], h => by simp at h
  | x :: xs, y :: ys, h => by
    simp only [List.map_cons, List.cons.injEq] at h
    rw [kmers_cons, kmers_cons, h.1, kmers_congr_upper tbl k h.2]

theorem sketch_congr_upper (tbl : List UInt8) (h : Bytes → Nat) (n k : Nat) {xs ys : List Bytes}
    (e : xs.map upper = ys.map upper) : sketch tbl h n k xs = sketch tbl h n k ys := by
  simp only [sketch, addTo, kmers_congr_upper tbl k e]

theorem sketch_map_upper (tbl : List UInt8) (h : Bytes → Nat) (n k : Nat) (xs : List Bytes) :
    sketch tbl h n k (xs.map upper) = sketch tbl h n k xs :=
  sketch_congr_upper tbl h n k (by simp [List.map_map, Function.comp_def, upper_idem])


/-! ## `intersect` -/

/-- Number of values among the `n` smallest of `a ∪ b` that lie in both. -/
def specInter (n : Nat) (a b : List Nat) : Nat :=
  (((sortAsc (dedup (a ++ b))).take n).filter fun z => a.contains z && b.contains z).length

theorem sortDedup_cons {x : Nat} {l l' : List Nat} (hlt : ∀ z ∈ l', x < z)
    (hm : ∀ z, z ∈ l ↔ z = x ∨ z ∈ l') : sortAsc (dedup l) = x :: sortAsc (dedup l') := by
  apply SA_ext (SA_sortDedup l)
  · simp only [SA, List.pairwise_cons]
    exact ⟨fun z hz => hlt z (mem_sortDedup.1 hz), SA_sortDedup l'⟩
  · intro z; simp [mem_sortDedup, hm]

theorem specInter_nil_left (j : Nat) (ys : List Nat) : specInter j [] ys = 0 := by
  simp [specInter]

theorem specInter_nil_right (j : Nat) (xs : List Nat) : specInter j xs [] = 0 := by
  simp [specInter]

theorem specInter_zero (xs ys : List Nat) : specInter 0 xs ys = 0 := by
  simp [specInter]

theorem specInter_lt {j x y : Nat} {xs ys : List Nat} (hx : SA (x :: xs)) (hy : SA (y :: ys))
    (hxy : x < y) : specInter (j + 1) (x :: xs) (y :: ys) = specInter j xs (y :: ys) := by
  simp only [SA, List.pairwise_cons] at hx hy
  have hU : sortAsc (dedup ((x :: xs) ++ (y :: ys))) = x :: sortAsc (dedup (xs ++ (y :: ys))) := by
    apply sortDedup_cons
    · intro z hz; simp only [List.mem_append, List.mem_cons] at hz
      rcases hz with hz | hz | hz
      · exact hx.1 z hz
      · omega
      · have := hy.1 z hz; omega
    · intro z; simp only [List.cons_append, List.mem_cons]
  have hnot : (y :: ys).contains x = false := by
    simp only [List.contains_eq_mem, List.mem_cons, decide_eq_false_iff_not, not_or]
    exact ⟨by omega, fun hm => by have := hy.1 x hm; omega⟩
  simp only [specInter, hU, List.take_succ_cons, List.filter_cons, hnot, Bool.and_false]
  simp only [Bool.false_eq_true, if_false]
  congr 1
  apply List.filter_congr
  intro z hz
  have hz' := mem_sortDedup.1 (List.mem_of_mem_take hz)
  have hzx : z ≠ x := by
    simp only [List.mem_append, List.mem_cons] at hz'
    rcases hz' with h | h | h
    · have := hx.1 z h; omega
    · omega
    · have := hy.1 z h; omega
  simp [List.contains_eq_mem, hzx]

theorem specInter_comm (j : Nat) (xs ys : List Nat) : specInter j xs ys = specInter j ys xs := by
  have hU : sortAsc (dedup (xs ++ ys)) = sortAsc (dedup (ys ++ xs)) :=
    SA_ext (SA_sortDedup _) (SA_sortDedup _) (by intro z; simp [mem_sortDedup, or_comm])
  simp only [specInter, hU, Bool.and_comm]

theorem specInter_gt {j x y : Nat} {xs ys : List Nat} (hx : SA (x :: xs)) (hy : SA (y :: ys))
    (hxy : y < x) : specInter (j + 1) (x :: xs) (y :: ys) = specInter j (x :: xs) ys := by
  rw [specInter_comm, specInter_lt hy hx hxy, specInter_comm]

theorem specInter_eq {j x : Nat} {xs ys : List Nat} (hx : SA (x :: xs)) (hy : SA (x :: ys)) :
    specInter (j + 1) (x :: xs) (x :: ys) = specInter j xs ys + 1 := by
  simp only [SA, List.pairwise_cons] at hx hy
  have hU : sortAsc (dedup ((x :: xs) ++ (x :: ys))) = x :: sortAsc (dedup (xs ++ ys)) := by
    apply sortDedup_cons
    · intro z hz; simp only [List.mem_append] at hz
      rcases hz with hz | hz
      · exact hx.1 z hz
      · exact hy.1 z hz
    · intro z; simp only [List.cons_append, List.mem_cons, List.mem_append]; grind
  simp only [specInter, hU, List.take_succ_cons, List.filter_cons]
  simp only [List.contains_cons, beq_self_eq_true, Bool.true_or, Bool.and_self, if_true,
    List.length_cons, Nat.add_right_cancel_iff]
  congr 1
  apply List.filter_congr
  intro z hz
  have hz' := mem_sortDedup.1 (List.mem_of_mem_take hz)
  have hzx : z ≠ x := by
    simp only [List.mem_append] at hz'
    rcases hz' with h | h
    · have := hx.1 z h; omega
    · have := hy.1 z h; omega
  have : (z == x) = false := by simpa using hzx
  simp [this]

theorem interLoop_fst (k : Nat) : ∀ (fuel : Nat) (xs ys : List Nat) (inter m ca cb : Nat),
    SA xs → SA ys → (k - m ≤ fuel ∨ xs.length + ys.length < fuel) →
    (interLoop k fuel xs ys inter m ca cb).1 = inter + specInter (k - m) xs ys
  | 0, xs, ys, inter, m, ca, cb, _, _, hf => by
    have hf : k - m = 0 := by omega
    rw [hf, specInter_zero]; simp [interLoop]
  | fuel + 1, [], ys, inter, m, ca, cb, _, _, _ => by
    rw [specInter_nil_left]; simp [interLoop]
  | fuel + 1, x :: xs, [], inter, m, ca, cb, _, _, _ => by
    rw [specInter_nil_right]; simp [interLoop]
  | fuel + 1, x :: xs, y :: ys, inter, m, ca, cb, hx, hy, hf => by
    rw [interLoop]
    simp only [List.length_cons] at hf
    split
    · rename_i hm
      rw [Nat.sub_eq_zero_of_le hm, specInter_zero]; rfl
    · rename_i hm
      have hk : k - m = (k - (m + 1)) + 1 := by omega
      have hx' : SA xs := (List.pairwise_cons.1 hx).2
      have hy' : SA ys := (List.pairwise_cons.1 hy).2
      split
      · rename_i hxy
        rw [interLoop_fst k fuel _ _ _ _ _ _ hx hy' (by simp only [List.length_cons]; omega), hk,
          specInter_gt hx hy hxy]
      · split
        · rename_i hxy
          rw [interLoop_fst k fuel _ _ _ _ _ _ hx' hy (by simp only [List.length_cons]; omega), hk,
            specInter_lt hx hy hxy]
        · have : x = y := by omega
          subst this
          rw [interLoop_fst k fuel _ _ _ _ _ _ hx' hy' (by omega), hk, specInter_eq hx hy]
          omega

/-- When the loop stops, it has made `k` steps or used up one of the lists. -/
theorem interLoop_stop (k : Nat) : ∀ (fuel : Nat) (xs ys : List Nat) (inter m ca cb : Nat),
    (k - m ≤ fuel ∨ xs.length + ys.length < fuel) →
    k ≤ (interLoop k fuel xs ys inter m ca cb).2.1 ∨
    ca + xs.length ≤ (interLoop k fuel xs ys inter m ca cb).2.2.1 ∨
    cb + ys.length ≤ (interLoop k fuel xs ys inter m ca cb).2.2.2
  | 0, xs, ys, inter, m, ca, cb, hf => by
    simp only [interLoop]; omega
  | fuel + 1, [], ys, inter, m, ca, cb, _ => by
    simp [interLoop]
  | fuel + 1, x :: xs, [], inter, m, ca, cb, _ => by
    simp [interLoop]
  | fuel + 1, x :: xs, y :: ys, inter, m, ca, cb, hf => by
    rw [interLoop]
    simp only [List.length_cons] at hf ⊢
    split
    · exact Or.inl ‹_›
    · split
      · have := interLoop_stop k fuel (x :: xs) ys inter (m + 1) ca (cb + 1)
          (by simp only [List.length_cons]; omega)
        simp only [List.length_cons] at this; omega
      · split
        · have := interLoop_stop k fuel xs (y :: ys) inter (m + 1) (ca + 1) cb
            (by simp only [List.length_cons]; omega)
          simp only [List.length_cons] at this; omega
        · have := interLoop_stop k fuel xs ys (inter + 1) (m + 1) (ca + 1) (cb + 1) (by omega)
          omega

theorem specInter_le (n : Nat) (a b : List Nat) : specInter n a b ≤ n := by
  unfold specInter
  exact Nat.le_trans (List.length_filter_le _ _) (by simp; omega)

theorem specInter_reverse (n : Nat) (a b : List Nat) :
    specInter n a.reverse b.reverse = specInter n a b := by
  have hU : sortAsc (dedup (a.reverse ++ b.reverse)) = sortAsc (dedup (a ++ b)) :=
    SA_ext (SA_sortDedup _) (SA_sortDedup _) (by intro z; simp [mem_sortDedup])
  simp [specInter, hU]

/-- The intersection count of gostuff's merge walk is the bottom-`n`-of-the-union count. -/
theorem intersect_fst (n : Nat) {a b : List Nat} (ha : SD a) (hb : SD b) :
    (intersect n a b).1 = specInter n a b := by
  simp only [intersect]
  rw [interLoop_fst n _ _ _ _ _ _ _ (by simpa [SA, List.pairwise_reverse] using ha)
    (by simpa [SA, List.pairwise_reverse] using hb) (by simp), specInter_reverse]
  simp

theorem intersect_snd (n : Nat) {a b : List Nat} (ha : n ≤ a.length) (hb : n ≤ b.length) :
    (intersect n a b).2 = n := by
  simp only [intersect]
  have := interLoop_stop n (a.length + b.length + 1) a.reverse b.reverse 0 0 0 0 (by simp)
  simp only [List.length_reverse] at this
  omega

theorem sortDedup_self_SD {a : List Nat} (ha : SD a) : sortAsc (dedup (a ++ a)) = a.reverse :=
  SA_ext (SA_sortDedup _) (by simpa [SA, List.pairwise_reverse] using ha)
    (by intro z; simp [mem_sortDedup])

theorem specInter_self {n : Nat} {a : List Nat} (ha : SD a) : specInter n a a = min n a.length := by
  simp only [specInter, sortDedup_self_SD ha]
  rw [List.filter_eq_self.2]
  · simp
  · intro z hz
    have := List.mem_of_mem_take hz
    simp at this; simp [this]


/-! ### strand -/

theorem forall_uint8 {P : UInt8 → Prop} : (∀ b, P b) ↔ ∀ n, n < 256 → P (UInt8.ofNat n) := by
  constructor
  · intro h n _; exact h _
  · intro h b
    have := h b.toNat (UInt8.toNat_lt b)
    rwa [UInt8.ofNat_toNat] at this

/-- If complementing commutes with upper-casing, so does reverse complement. -/
theorem revComp_upper {tbl : List UInt8}
    (hu : ∀ b, Sequtil.comp tbl (upperByte b) = (Sequtil.comp tbl b).map upperByte)
    {s r : Bytes} (h : Sequtil.revComp tbl [] s = some r) :
    Sequtil.revComp tbl [] (upper s) = some (upper r) := by
  rw [revComp_nil_eq_some_iff] at h ⊢
  rw [upper_eq_map, upper_eq_map, ← List.map_reverse, List.map_map, List.map_map]
  have : Sequtil.comp tbl ∘ upperByte = Option.map upperByte ∘ Sequtil.comp tbl := by
    funext b; exact hu b
  rw [this, ← List.map_map, h, List.map_map]
  apply List.map_congr_left
  intro b _; rfl

theorem kmers_replace (tbl : List UInt8) (k : Nat) (pre post : List Bytes) (s : Bytes) :
    kmers tbl k (pre ++ s :: post) =
      (kmers tbl k pre).bind fun a => (Sequtil.canonical tbl (upper s) k).bind fun c =>
        (kmers tbl k post).map fun p => a ++ (c ++ p) := by
  rw [kmers_append, kmers_cons]
  cases kmers tbl k pre <;> cases Sequtil.canonical tbl (upper s) k <;>
    cases kmers tbl k post <;> rfl

/-- Replacing a sequence by its reverse complement does not change the sketch. -/
theorem sketch_revComp {tbl : List UInt8}
    (hc : ∀ b c, Sequtil.comp tbl b = some c → Sequtil.comp tbl c = some b)
    (hu : ∀ b, Sequtil.comp tbl (upperByte b) = (Sequtil.comp tbl b).map upperByte)
    (h : Bytes → Nat) (n k : Nat) (pre post : List Bytes) {s r : Bytes}
    (hr : Sequtil.revComp tbl [] s = some r) :
    sketch tbl h n k (pre ++ r :: post) = sketch tbl h n k (pre ++ s :: post) := by
  rw [sketch_eq, sketch_eq, kmers_replace, kmers_replace,
    Sequtil.canonical_revComp hc k (revComp_upper hu hr)]
  cases kmers tbl k pre <;> cases Sequtil.canonical tbl (upper s) k <;>
    cases kmers tbl k post <;> simp
  apply bottomN_congr
  intro v; simp

end Bio.Mash
