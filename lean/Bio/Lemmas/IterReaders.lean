/-
  Helper lemmas for C18 (readers): the Go iterator closures of the five
  format readers (`Bio/Model/IterReaders.lean`), run with a consumer `f`, log
  exactly `takeThrough (!f ·)` of the item list of the existing decoders.
-/
import Bio.Model.IterReaders
import Bio.Lemmas.Traverse
import Bio.Lemmas.Fasta
import Bio.Lemmas.Fastq
import Bio.Lemmas.Bed
import Bio.Lemmas.Newick
import Bio.Lemmas.Sam

namespace Bio.Iter

/-! ## The take-through law -/

/-- `it` hands its consumer the items of `L`, in order, up to and including the
first one the consumer declines — and nothing after it. -/
def TakeThroughLaw {α : Type} (it : Seq α) (L : List α) : Prop :=
  ∀ f, it f = takeThrough (fun x => !f x) L

theorem takeThrough_stop_idx {α : Type} (p : α → Bool) (l : List α) (i : Nat) (x : α)
    (hx : (takeThrough p l)[i]? = some x) (hp : p x = true) :
    i + 1 = (takeThrough p l).length := by
  induction l generalizing i with
  | nil => simp [takeThrough] at hx
  | cons y ys ih =>
    rw [takeThrough_cons] at hx ⊢
    cases hy : p y with
    | true =>
      simp only [hy, ↓reduceIte] at hx ⊢
      cases i with
      | zero => rfl
      | succ j => simp at hx
    | false =>
      simp only [hy, Bool.false_eq_true, ↓reduceIte] at hx ⊢
      cases i with
      | zero =>
        simp only [List.getElem?_cons_zero, Option.some.injEq] at hx
        subst hx; rw [hy] at hp; cases hp
      | succ j =>
        simp only [List.getElem?_cons_succ] at hx
        have := ih j hx
        simp only [List.length_cons]; omega

theorem takeThrough_true_consumer {α : Type} (l : List α) :
    takeThrough (fun x => !(fun _ : α => true) x) l = l := by
  simpa using takeThrough_false l

/-! ## The base loops -/

section loops
variable {ρ σ : Type} (S : Source ρ σ) (f : Item ρ → Bool) (s : σ)

theorem iterLoop_err (h : S.next s = .err) : iterLoop S f s = [.err] := by
  rw [iterLoop]; split <;> simp_all
theorem iterLoop_done (h : S.next s = .done) : iterLoop S f s = [] := by
  rw [iterLoop]; split <;> simp_all
theorem iterLoop_item (a : ρ) (s' : σ) (h : S.next s = .item a s') :
    iterLoop S f s = .ok a :: (if f (.ok a) then iterLoop S f s' else []) := by
  rw [iterLoop]; split <;> simp_all

theorem readerLoop_err (h : S.next s = .err) : readerLoop S f s = [.err] := by
  rw [readerLoop]; split <;> simp_all
theorem readerLoop_done (h : S.next s = .done) : readerLoop S f s = [] := by
  rw [readerLoop]; split <;> simp_all
theorem readerLoop_item (a : ρ) (s' : σ) (h : S.next s = .item a s') :
    readerLoop S f s = .ok a :: (if f (.ok a) then readerLoop S f s' else []) := by
  rw [readerLoop]; split <;> simp_all

/-- The two loop shapes (`break` on any error / `return` per case) are the same loop. -/
theorem iterLoop_eq_readerLoop : iterLoop S f s = readerLoop S f s := by
  fun_induction iterLoop S f s with
  | case1 s h => rw [readerLoop_err S f s h]
  | case2 s h => rw [readerLoop_done S f s h]
  | case3 s a s' h ih => rw [readerLoop_item S f s a s' h, ih]

/-- The log with consumer `f` is the uninterrupted log cut right after the
first item `f` declines. -/
theorem iterLoop_log :
    iterLoop S f s = takeThrough (fun it => !f it) (iterLoop S (fun _ => true) s) := by
  fun_induction iterLoop S f s with
  | case1 s h => simp [iterLoop_err S _ s h, takeThrough]
  | case2 s h => simp [iterLoop_done S _ s h, takeThrough]
  | case3 s a s' h ih =>
    rw [iterLoop_item S _ s a s' h, takeThrough_cons, ih]
    cases f (.ok a) <;> simp

theorem readerLoop_log :
    readerLoop S f s = takeThrough (fun it => !f it) (readerLoop S (fun _ => true) s) := by
  rw [← iterLoop_eq_readerLoop, ← iterLoop_eq_readerLoop]; exact iterLoop_log S f s

/-- The loop only looks at the state through `next`. -/
theorem readerLoop_congr (t : σ) (h : S.next s = S.next t) :
    readerLoop S f s = readerLoop S f t := by
  cases ht : S.next t with
  | err => rw [readerLoop_err S f s (h.trans ht), readerLoop_err S f t ht]
  | done => rw [readerLoop_done S f s (h.trans ht), readerLoop_done S f t ht]
  | item a s' => rw [readerLoop_item S f s a s' (h.trans ht), readerLoop_item S f t a s' ht]

end loops

/-! ## The SAM `ReaderHeader` loop -/

section sam
variable {σ : Type} (pf : Bytes → Option Bytes) (S : Source Bytes σ)
  (f : Item Sam.Entry → Bool) (s : σ)

theorem samHeaderLoop_err (h : S.next s = .err) : samHeaderLoop pf S f s = [.err] := by
  rw [samHeaderLoop]; split <;> simp_all
theorem samHeaderLoop_done (h : S.next s = .done) : samHeaderLoop pf S f s = [] := by
  rw [samHeaderLoop]; split <;> simp_all

/-- One turn of the loop on a text line: an empty line is skipped without a
callback; any other line gives the one item `Sam.lineItem` and the loop goes on
iff the consumer accepts it — also when that item is a parse error. -/
theorem samHeaderLoop_item (text : Bytes) (s' : σ) (h : S.next s = .item text s') :
    samHeaderLoop pf S f s =
      if text = [] then samHeaderLoop pf S f s'
      else Sam.lineItem pf text ::
        (if f (Sam.lineItem pf text) then samHeaderLoop pf S f s' else []) := by
  rw [samHeaderLoop]
  split
  · simp_all
  · simp_all
  · rename_i t t' ht
    rw [h] at ht
    simp only [Pull.item.injEq] at ht
    obtain ⟨rfl, rfl⟩ := ht
    by_cases h0 : text = []
    · simp [h0]
    · simp only [ne_eq, h0, not_false_eq_true, ↓reduceIte]
      split
      · rfl
      · rename_i hne
        have hl : Sam.lineItem pf text
            = match Sam.parseLine pf (splitOn TAB text) with
              | some r => .ok (.sam r)
              | none => .err := by
          unfold Sam.lineItem
          split
          · exact absurd HEq.rfl (hne _ h rfl)
          · rfl
        rw [hl]
        cases Sam.parseLine pf (splitOn TAB text) <;> rfl

theorem samHeaderLoop_log :
    samHeaderLoop pf S f s
      = takeThrough (fun it => !f it) (samHeaderLoop pf S (fun _ => true) s) := by
  induction hn : S.size s using Nat.strongRecOn generalizing s with
  | _ n ih =>
    cases hs : S.next s with
    | err => simp [samHeaderLoop_err pf S _ s hs, takeThrough]
    | done => simp [samHeaderLoop_done pf S _ s hs, takeThrough]
    | item text s' =>
      have hdec := S.dec s text s' hs
      have ih' := ih (S.size s') (hn ▸ hdec) s' rfl
      rw [samHeaderLoop_item pf S _ s text s' hs, samHeaderLoop_item pf S _ s text s' hs]
      by_cases h0 : text = []
      · simp only [h0, ↓reduceIte]; exact ih'
      · simp only [h0, ↓reduceIte, takeThrough_cons, ih']
        cases f (Sam.lineItem pf text) <;> simp

end sam

/-! ## Ranging over an inner iterator -/

theorem wrap_apply {α : Type} (inner : Seq α) (f : α → Bool) : wrap inner f = inner f := by
  simp [wrap, rangeOver]

theorem wrap_eq {α : Type} (inner : Seq α) : wrap inner = inner :=
  funext (wrap_apply inner)

/-- Running the filter-and-map body over a take-through of `L` gives the
take-through of `L.filterMap g`: items skipped by `continue` give no callback
and do not stop the loop. -/
theorem flatMap_filterMapBody {α β : Type} (g : α → Option β) (f : β → Bool) (L : List α) :
    (takeThrough (fun x => !(filterMapBody g f x).2) L).flatMap (fun x => (filterMapBody g f x).1)
      = takeThrough (fun y => !f y) (L.filterMap g) := by
  induction L with
  | nil => simp [takeThrough]
  | cons x xs ih =>
    rw [takeThrough_cons]
    cases hg : g x with
    | none => simp [filterMapBody, hg, ← ih]
    | some y =>
      have h1 : (filterMapBody g f x).1 = [y] := by simp [filterMapBody, hg]
      have h2 : (filterMapBody g f x).2 = f y := by simp [filterMapBody, hg]
      rw [List.filterMap_cons_some hg, takeThrough_cons, List.flatMap_cons, h1, h2]
      cases f y
      · simp
      · simpa using ih

/-- A filtering-and-mapping wrapper over an inner iterator that satisfies the
take-through law satisfies it too, for the filtered-and-mapped list. -/
theorem wrapFilterMap_law {α β : Type} (g : α → Option β) (inner : Seq α) (L : List α)
    (h : TakeThroughLaw inner L) : TakeThroughLaw (wrapFilterMap g inner) (L.filterMap g) := by
  intro f
  rw [wrapFilterMap, rangeOver, h]
  exact flatMap_filterMapBody g f L

/-- What the body of sam `Reader` does with one `ReaderHeader` item. -/
def samPick : Item Sam.Entry → Option (Item Sam.Sam)
  | .err => some .err
  | .ok (.hdr _) => none
  | .ok (.sam r) => some (.ok r)

theorem samBody_eq (f : Item Sam.Sam → Bool) : samBody f = filterMapBody samPick f := by
  funext it
  rcases it with (_ | _) | _ <;> rfl

theorem samWrap_eq : samWrap = wrapFilterMap samPick := by
  funext inner f
  rw [samWrap, wrapFilterMap, samBody_eq]

theorem dropHeaders_eq (l : List (Item Sam.Entry)) : Sam.dropHeaders l = l.filterMap samPick := by
  induction l with
  | nil => rfl
  | cons it rest ih =>
    rcases it with (_ | _) | _
    · rw [Sam.dropHeaders, ih, List.filterMap_cons_none (by rfl)]
    · rw [Sam.dropHeaders, ih, List.filterMap_cons_some (by rfl)]
    · rw [Sam.dropHeaders, ih, List.filterMap_cons_some (by rfl)]

theorem samWrap_law (inner : Seq (Item Sam.Entry)) (L : List (Item Sam.Entry))
    (h : TakeThroughLaw inner L) : TakeThroughLaw (samWrap inner) (Sam.dropHeaders L) := by
  rw [samWrap_eq, dropHeaders_eq]; exact wrapFilterMap_law samPick inner L h

/-! ## The uninterrupted logs are the existing item lists -/

theorem fasta_full (e : Ending) (x : Bytes) :
    iterLoop (fastaSrc e) (fun _ => true) x = Fasta.decodeSrc e x := by
  fun_induction Fasta.decodeSrc e x with
  | case1 => rename_i he; subst he; exact iterLoop_done _ _ _ rfl
  | case2 => rename_i he; subst he; exact iterLoop_err _ _ _ rfl
  | case3 b rest p hp =>
    rename_i he; subst he
    have hn : (fastaSrc .eof).next (b :: rest) = .item p.1 p.2 := by
      simp only [fastaSrc, fastaNext]; rw [if_pos hp]
    rw [iterLoop_item _ _ _ _ _ hn, hp]
    simp only [↓reduceIte]
    rw [iterLoop_done _ _ _ rfl]
  | case4 b rest p hp =>
    rename_i he; subst he
    have hn : (fastaSrc .fail).next (b :: rest) = .err := by
      simp only [fastaSrc, fastaNext]; rw [if_pos hp]
    exact iterLoop_err _ _ _ hn
  | case5 b rest p hp ih =>
    have hn : (fastaSrc e).next (b :: rest) = .item p.1 p.2 := by
      simp only [fastaSrc, fastaNext]; rw [if_neg hp]
    rw [iterLoop_item _ _ _ _ _ hn, ih]
    simp

theorem fastq_full (e : Ending) (ls : List Bytes) :
    iterLoop (fastqSrc e) (fun _ => true) ls = Fastq.fromLines e ls := by
  fun_induction Fastq.fromLines e ls with
  | case1 => rename_i he; subst he; exact iterLoop_done _ _ _ rfl
  | case2 => rename_i he; subst he; exact iterLoop_err _ _ _ rfl
  | case3 name sq ql rest tail hlen ih =>
    have hn : (fastqSrc e).next ((64 :: name) :: sq :: (43 :: tail) :: ql :: rest)
        = .item ⟨name, sq, ql⟩ rest := by
      simp only [fastqSrc, fastqNext]; rw [if_pos hlen]
    rw [iterLoop_item _ _ _ _ _ hn, ih]; simp
  | case4 name sq ql rest tail hlen =>
    refine iterLoop_err _ _ _ ?_
    simp only [fastqSrc, fastqNext]; rw [if_neg hlen]
  | case5 name sq pl ql rest hpl =>
    refine iterLoop_err _ _ _ ?_
    simp only [fastqSrc, fastqNext]
  | case6 name hd pl =>
    refine iterLoop_err _ _ _ ?_
    simp [fastqSrc, fastqNext]
  | case7 rest1 name h1 h2 =>
    refine iterLoop_err _ _ _ ?_
    simp only [fastqSrc, fastqNext]
  | case8 l1 rest1 h1 =>
    refine iterLoop_err _ _ _ ?_
    simp only [fastqSrc, fastqNext]

theorem bed_full (e : Ending) (nf : Option Nat) (ls : List Bytes) :
    readerLoop (bedSrc e) (fun _ => true) (nf, ls) = Bed.fromLines e nf ls := by
  induction ls generalizing nf with
  | nil =>
    cases e
    · exact readerLoop_done _ _ _ rfl
    · exact readerLoop_err _ _ _ rfl
  | cons l rest ih =>
    rw [Bed.fromLines]
    by_cases hsk : Bed.isSkipped l = true
    · rw [if_pos hsk, ← ih nf]
      apply readerLoop_congr
      simp only [bedSrc, bedNext, bedRead]; rw [if_pos hsk]
    · rw [if_neg hsk]
      by_cases hnf : (nf.isSome && nf != some (splitOn TAB l).length) = true
      · simp only [hnf]
        refine readerLoop_err _ _ _ ?_
        simp only [bedSrc, bedNext, bedRead]; rw [if_neg hsk, if_pos hnf]
      · simp only [hnf]
        cases hp : Bed.parseLine (splitOn TAB l) with
        | none =>
          refine readerLoop_err _ _ _ ?_
          simp only [bedSrc, bedNext, bedRead]; rw [if_neg hsk, if_neg hnf, hp]
        | some b =>
          have hn : (bedSrc e).next (nf, l :: rest)
              = .item b (some (splitOn TAB l).length, rest) := by
            simp only [bedSrc, bedNext, bedRead]; rw [if_neg hsk, if_neg hnf, hp]
          rw [readerLoop_item _ _ _ _ _ hn, ih]; simp

theorem newick_full (pd : Bytes → Option Newick.Dist) (e : Ending) (x : Bytes) :
    readerLoop (newickSrc pd e) (fun _ => true) x = Newick.decodeSrc pd e x := by
  fun_induction Newick.decodeSrc pd e x with
  | case1 x h =>
    refine readerLoop_done _ _ _ ?_
    simp only [newickSrc, newickNext, h]
  | case2 x h =>
    refine readerLoop_err _ _ _ ?_
    simp only [newickSrc, newickNext, h]
  | case3 x t rest h hlt ih =>
    have hn : (newickSrc pd e).next x = .item t rest := by
      simp only [newickSrc, newickNext, h]; rw [if_pos hlt]
    rw [readerLoop_item _ _ _ _ _ hn, ih]; simp
  | case4 x t rest h hlt =>
    refine readerLoop_err _ _ _ ?_
    simp only [newickSrc, newickNext, h]; rw [if_neg hlt]

theorem sam_full (pf : Bytes → Option Bytes) (e : Ending) (ls : List Bytes) :
    samHeaderLoop pf (linesSrc e) (fun _ => true) ls
      = Sam.itemsOfLines pf ls ++ Sam.endItems e := by
  induction ls with
  | nil =>
    cases e
    · exact samHeaderLoop_done _ _ _ _ rfl
    · exact samHeaderLoop_err _ _ _ _ rfl
  | cons l rest ih =>
    rw [samHeaderLoop_item pf (linesSrc e) _ (l :: rest) l rest rfl, ih]
    by_cases h0 : l = []
    · simp [h0, Sam.itemsOfLines]
    · simp [h0, Sam.itemsOfLines]

/-! ## The readers satisfy the take-through law -/

theorem fastaIter_law (e : Ending) (x : Bytes) :
    TakeThroughLaw (fastaIter e x) (Fasta.decodeSrc e x) := by
  intro f; rw [fastaIter, iterLoop_log, fasta_full]

theorem fastqIter_law (e : Ending) (x : Bytes) :
    TakeThroughLaw (fastqIter e x) (Fastq.decodeSrc e x) := by
  intro f; rw [fastqIter, iterLoop_log, fastq_full]; rfl

theorem bedReader_law (e : Ending) (x : Bytes) :
    TakeThroughLaw (bedReader e x) (Bed.decodeSrc e x) := by
  intro f; rw [bedReader, readerLoop_log, bed_full]; rfl

theorem newickReader_law (pd : Bytes → Option Newick.Dist) (e : Ending) (x : Bytes) :
    TakeThroughLaw (newickReader pd e x) (Newick.decodeSrc pd e x) := by
  intro f; rw [newickReader, readerLoop_log, newick_full]

theorem samReaderHeader_law (pf : Bytes → Option Bytes) (e : Ending) (x : Bytes) :
    TakeThroughLaw (samReaderHeader pf e x) (Sam.decodeHeaderSrc pf e x) := by
  intro f; rw [samReaderHeader, samHeaderLoop_log, sam_full]; rfl

theorem samReader_law (pf : Bytes → Option Bytes) (e : Ending) (x : Bytes) :
    TakeThroughLaw (samReader pf e x) (Sam.decodeSrc pf e x) :=
  samWrap_law _ _ (samReaderHeader_law pf e x)

/-! ## `File` -/

theorem file_none {ρ : Type} (f : Item ρ → Bool) : file (none : Option (Seq (Item ρ))) f = [.err] :=
  rfl

theorem file_some {ρ : Type} (inner : Seq (Item ρ)) : file (some inner) = inner :=
  funext fun f => wrap_apply inner f

/-- `File` as a whole: one error item for an unopenable path, else the law of
the wrapped reader. -/
theorem file_law {ρ ι : Type} (rd : ι → Seq (Item ρ)) (items : ι → List (Item ρ))
    (h : ∀ i, TakeThroughLaw (rd i) (items i)) (o : Option ι) :
    TakeThroughLaw (file (o.map rd))
      (match o with | none => [.err] | some i => items i) := by
  intro f
  cases o with
  | none => simp [file_none, takeThrough]
  | some i => simp only [Option.map_some, file_some]; exact h i f

end Bio.Iter
