/-
  The Go functions of sequtil/sequtil.go and sequtil/amino.go, translated from
  the SOURCE TEXT of /repo on every run into `Bio.Generated.GoSrc` (Lean `do`
  blocks over the `Bio.GoRt` vocabulary), ARE the hand-written models of
  `Bio.Model.Sequtil`: one equivalence theorem per function, for all arguments.
  Every theorem is guarded by the translator's `<f>_Found` flag: when the source
  is no longer in a shape the translator understands the flag is `false`, the
  generated definition is a placeholder and the theorem says nothing.
-/
import Bio.Model.Sequtil
import Bio.Generated.GoSrc
import Bio.Lemmas.GoRt
import Bio.Lemmas.Mash
set_option linter.unusedVariables false
namespace Bio.GoSrcLemmas
open Bio Bio.GoRt Bio.Generated

theorem complementByte_eq (hF : GoSrc.complementByte_Found = true) (tbl : List UInt8) (b : UInt8) :
    GoSrc.complementByte tbl b = Sequtil.comp tbl b := by
  first
  | exact absurd hF (by decide)
  | (unfold GoSrc.complementByte Sequtil.comp
     rw [idx_ofNat]
     cases h : tbl[b.toNat]? with
     | none => simp
     | some c => by_cases hc : c = 0 <;> simp [hc])

theorem appendLoop_eq {α : Type} (g : α → Option UInt8) (L : List α) (dst : Bytes) :
    forIn L dst (fun x s => (g x).bind fun y => some (ForInStep.yield (s ++ [y])))
      = (L.mapM g).map (dst ++ ·) := by
  induction L generalizing dst with
  | nil => simp
  | cons a L ih =>
    simp only [List.forIn_cons, List.mapM_cons]
    cases h : g a with
    | none => simp
    | some y =>
      simp [ih]
      cases L.mapM g <;> simp

theorem ReverseComplement_eq (hF : GoSrc.ReverseComplement_Found = true) (hC : GoSrc.complementByte_Found = true)
    (tbl : List UInt8) (dst src : Bytes) :
    GoSrc.ReverseComplement tbl dst src = Sequtil.revComp tbl dst src := by
  first
  | exact absurd hF (by decide)
  | (unfold GoSrc.ReverseComplement Sequtil.revComp
     simp only [Option.pure_def, Option.bind_eq_bind]
     have := forIn_downFrom_idx src dst (fun x s => (GoSrc.complementByte tbl x).bind fun y => some (ForInStep.yield (s ++ [y])))
     simp at this ⊢
     rw [this]
     simp only [complementByte_eq hC]
     exact appendLoop_eq _ _ _)

/-- one iteration of the model's `to2bitAux` -/
def to2bitStep (tbl : List Int) (dn i : Nat) (dst : Bytes) (b : UInt8) : Option Bytes :=
  let di := dn + i / 4
  let shift := 6 - i % 4 * 2
  let dst := if shift == 6 then dst ++ [0] else dst
  let v := Sequtil.ntoi tbl b
  if v < 0 then none
  else some (dst.set di ((dst[di]?).getD 0 ||| ((UInt8.ofNat v.toNat) <<< (UInt8.ofNat shift))))

theorem to2bitAux_cons (tbl : List Int) (dn i : Nat) (dst : Bytes) (b : UInt8) (rest : Bytes) :
    Sequtil.to2bitAux tbl dn i dst (b :: rest) =
      (to2bitStep tbl dn i dst b).bind fun d => Sequtil.to2bitAux tbl dn (i + 1) d rest := by
  simp only [Sequtil.to2bitAux, to2bitStep]
  split <;> simp

theorem Ntoi_eq (hF : GoSrc.Ntoi_Found = true) (tbl : List Int) (h256 : tbl.length = 256) (b : UInt8) :
    GoSrc.Ntoi tbl b = some (Sequtil.ntoi tbl b) := by
  first
  | exact absurd hF (by decide)
  | (unfold GoSrc.Ntoi Sequtil.ntoi
     simp only [idx_ofNat]
     have : b.toNat < tbl.length := by rw [h256]; exact UInt8.toNat_lt b
     simp [List.getElem?_eq_getElem this])

theorem DNATo2Bit_eq (hF : GoSrc.DNATo2Bit_Found = true) (hN : GoSrc.Ntoi_Found = true) (tbl : List Int) (h256 : tbl.length = 256)
    (hrange : ∀ v ∈ tbl, -1 ≤ v ∧ v ≤ 255) (dst src : Bytes) :
    GoSrc.DNATo2Bit tbl dst src = Sequtil.to2bit tbl dst src := by
  first
  | exact absurd hF (by decide)
  | (unfold GoSrc.DNATo2Bit Sequtil.to2bit
     simp only [Option.pure_def, Option.bind_eq_bind]
     have key := forIn_enum_step src (fun i (s : Bytes) => s.length = dst.length + (i + 3) / 4)
       (to2bitStep tbl dst.length) (Sequtil.to2bitAux tbl dst.length)
       (by intro i s; simp [Sequtil.to2bitAux]) (to2bitAux_cons tbl dst.length)
       (by
         intro i s a d hi hs
         unfold to2bitStep at hs
         simp only at hs
         split at hs
         · exact absurd hs (by simp)
         · simp only [Option.some.injEq] at hs
           subst hs
           simp only [List.length_set]
           split
           · rename_i h6; simp only [List.length_append, List.length_singleton]
             have : i % 4 = 0 := by
               have := (beq_iff_eq).mp h6; omega
             omega
           · rename_i h6
             have : i % 4 ≠ 0 := by
               intro h0; apply h6; simp [h0]
             omega)
     unfold enum
     rw [key]
     · cases Sequtil.to2bitAux tbl dst.length 0 dst src <;> rfl
     · intro i s a hi
       have htm : (i : Int).tmod 4 = ((i % 4 : Nat) : Int) := by
         rw [Int.tmod_eq_emod_of_nonneg (by omega)]; omega
       have htd : (i : Int).tdiv 4 = ((i / 4 : Nat) : Int) := by
         rw [Int.natCast_tdiv_eq_ediv]; omega
       have hv := Ntoi_eq hN tbl h256 a
       have hvr : -1 ≤ Sequtil.ntoi tbl a ∧ Sequtil.ntoi tbl a ≤ 255 := by
         unfold Sequtil.ntoi
         cases hg : tbl[a.toNat]? with
         | none => simp
         | some v => simpa using hrange v (List.mem_of_getElem? hg)
       simp only [htm, htd, hv, Option.bind_some, Option.bind_none, to2bitStep]
       generalize Sequtil.ntoi tbl a = v at hvr
       by_cases hneg : v < 0
       · have : v = -1 := by omega
         subst this; simp
       · have hne : (v == -1) = false := by simp; omega
         simp only [hne, hneg, if_false, Bool.false_eq_true]
         have hsh : (6 : Int) - ((i % 4 : Nat) : Int) * 2 = ((6 - i % 4 * 2 : Nat) : Int) := by omega
         have hdi : len dst + ((i / 4 : Nat) : Int) = ((dst.length + i / 4 : Nat) : Int) := by
           unfold len; omega
         have hu : u8 v = UInt8.ofNat v.toNat := by
           unfold u8; rw [Int.emod_eq_of_lt (by omega) (by omega)]
         rw [hsh, hdi, hu, shl8_ofNat _ _ (by omega)]
         have h6 : ((((6 - i % 4 * 2 : Nat) : Int)) == 6) = (6 - i % 4 * 2 == 6) := by
           rw [Bool.eq_iff_iff]; simp only [beq_iff_eq]; omega
         rw [h6]
         by_cases hz : (6 - i % 4 * 2 == 6) = true
         · have hlt : dst.length + i / 4 < (s ++ [0]).length := by
             have := (beq_iff_eq).mp hz
             simp only [List.length_append, List.length_singleton]; omega
           simp only [hz, if_true, Option.bind_some, idx_ofNat, setIdx_ofNat, hlt,
             List.getElem?_eq_getElem hlt, Option.getD_some, Option.map_some, if_true]
         · have hlt : dst.length + i / 4 < s.length := by
             have : i % 4 ≠ 0 := by
               intro h0; apply hz; simp [h0]
             omega
           simp only [hz, if_false, Option.bind_some, idx_ofNat, setIdx_ofNat, hlt,
             List.getElem?_eq_getElem hlt, Option.getD_some, Option.map_some, Bool.false_eq_true, if_true]
     · simp)

theorem Iton_eq (hF : GoSrc.Iton_Found = true) (n : Int) : GoSrc.Iton n = some (Sequtil.iton n) := by
  first
  | exact absurd hF (by decide)
  | (unfold GoSrc.Iton Sequtil.iton
     simp only [Option.pure_def, beq_iff_eq]
     repeat' split
     all_goals rfl)

theorem from2bitLoop (tbl : List (List UInt8)) (h256 : tbl.length = 256) (src : Bytes) : ∀ dst : Bytes,
    forIn src dst (fun x s => (idx tbl (x.toNat : Int)).bind fun y => some (ForInStep.yield (s ++ y)))
      = some (dst ++ src.flatMap fun b => (tbl[b.toNat]?).getD []) := by
  induction src with
  | nil => intro dst; simp
  | cons a L ih =>
    intro dst
    have hlt : a.toNat < tbl.length := by rw [h256]; exact UInt8.toNat_lt a
    have h1 : idx tbl (a.toNat : Int) = some tbl[a.toNat] := by
      rw [idx_ofNat, List.getElem?_eq_getElem hlt]
    simp only [List.forIn_cons, h1, Option.bind_eq_bind, Option.bind_some, ih,
      List.flatMap_cons, List.getElem?_eq_getElem hlt, Option.getD_some, List.append_assoc]

theorem DNAFrom2Bit_eq (hF : GoSrc.DNAFrom2Bit_Found = true) (tbl : List (List UInt8)) (h256 : tbl.length = 256)
    (dst src : Bytes) : GoSrc.DNAFrom2Bit tbl dst src = some (Sequtil.from2bit tbl dst src) := by
  first
  | exact absurd hF (by decide)
  | (unfold GoSrc.DNAFrom2Bit Sequtil.from2bit
     simp only [Option.pure_def, Option.bind_eq_bind]
     have := forIn_upTo_idx src dst (fun x s => (idx tbl (x.toNat : Int)).bind fun y => some (ForInStep.yield (s ++ y)))
     simp at this ⊢
     rw [this]
     exact from2bitLoop tbl h256 src dst)
end Bio.GoSrcLemmas
