/-
  The Go functions of sequtil/sequtil.go and sequtil/amino.go, translated from
  the SOURCE TEXT of /repo on every run into `Bio.Generated.GoSrc` (Lean `do`
  blocks over the `Bio.GoRt` vocabulary), ARE the hand-written models of
  `Bio.Model.Sequtil`: one equivalence theorem per function, for all arguments.
  Every theorem is guarded by the translator's `<f>_Found` flag: when the source
  is no longer in a shape the translator understands the flag is `false`, the
  generated definition is a placeholder and the theorem says nothing.
-/
import Bio.Model.Sequtil
import Bio.Generated.GoSrc
import Bio.Lemmas.GoRt
import Bio.Lemmas.Mash
import Bio.Lemmas.Sequtil
set_option linter.unusedVariables false
namespace Bio.GoSrcLemmas
open Bio Bio.GoRt Bio.Generated

theorem complementByte_eq (hF : GoSrc.complementByte_Found = true) (tbl : List UInt8) (b : UInt8) :
    GoSrc.complementByte tbl b = Sequtil.comp tbl b := by
  first
  | exact absurd hF (by decide)
  | (unfold GoSrc.complementByte Sequtil.comp
     rw [idx_ofNat]
     cases h : tbl[b.toNat]? with
     | none => simp
     | some c => by_cases hc : c = 0 <;> simp [hc])

theorem appendLoop_eq {α : Type} (g : α → Option UInt8) (L : List α) (dst : Bytes) :
    forIn L dst (fun x s => (g x).bind fun y => some (ForInStep.yield (s ++ [y])))
      = (L.mapM g).map (dst ++ ·) := by
  induction L generalizing dst with
  | nil => simp
  | cons a L ih =>
    simp only [List.forIn_cons, List.mapM_cons]
    cases h : g a with
    | none => simp
    | some y =>
      simp [ih]
      cases L.mapM g <;> simp

theorem ReverseComplement_eq (hF : GoSrc.ReverseComplement_Found = true) (hC : GoSrc.complementByte_Found = true)
    (tbl : List UInt8) (dst src : Bytes) :
    GoSrc.ReverseComplement tbl dst src = Sequtil.revComp tbl dst src := by
  first
  | exact absurd hF (by decide)
  | (unfold GoSrc.ReverseComplement Sequtil.revComp
     simp only [Option.pure_def, Option.bind_eq_bind]
     have := forIn_downFrom_idx src dst (fun x s => (GoSrc.complementByte tbl x).bind fun y => some (ForInStep.yield (s ++ [y])))
     simp at this ⊢
     rw [this]
     simp only [complementByte_eq hC]
     exact appendLoop_eq _ _ _)

/-- one iteration of the model's `to2bitAux` -/
def to2bitStep (tbl : List Int) (dn i : Nat) (dst : Bytes) (b : UInt8) : Option Bytes :=
  let di := dn + i / 4
  let shift := 6 - i % 4 * 2
  let dst := if shift == 6 then dst ++ [0] else dst
  let v := Sequtil.ntoi tbl b
  if v < 0 then none
  else some (dst.set di ((dst[di]?).getD 0 ||| ((UInt8.ofNat v.toNat) <<< (UInt8.ofNat shift))))

theorem to2bitAux_cons (tbl : List Int) (dn i : Nat) (dst : Bytes) (b : UInt8) (rest : Bytes) :
    Sequtil.to2bitAux tbl dn i dst (b :: rest) =
      (to2bitStep tbl dn i dst b).bind fun d => Sequtil.to2bitAux tbl dn (i + 1) d rest := by
  simp only [Sequtil.to2bitAux, to2bitStep]
  split <;> simp

theorem Ntoi_eq (hF : GoSrc.Ntoi_Found = true) (tbl : List Int) (h256 : tbl.length = 256) (b : UInt8) :
    GoSrc.Ntoi tbl b = some (Sequtil.ntoi tbl b) := by
  first
  | exact absurd hF (by decide)
  | (unfold GoSrc.Ntoi Sequtil.ntoi
     simp only [idx_ofNat]
     have : b.toNat < tbl.length := by rw [h256]; exact UInt8.toNat_lt b
     simp [List.getElem?_eq_getElem this])

theorem DNATo2Bit_eq (hF : GoSrc.DNATo2Bit_Found = true) (hN : GoSrc.Ntoi_Found = true) (tbl : List Int) (h256 : tbl.length = 256)
    (hrange : ∀ v ∈ tbl, -1 ≤ v ∧ v ≤ 255) (dst src : Bytes) :
    GoSrc.DNATo2Bit tbl dst src = Sequtil.to2bit tbl dst src := by
  first
  | exact absurd hF (by decide)
  | (unfold GoSrc.DNATo2Bit Sequtil.to2bit
     simp only [Option.pure_def, Option.bind_eq_bind]
     have key := forIn_enum_step src (fun i (s : Bytes) => s.length = dst.length + (i + 3) / 4)
       (to2bitStep tbl dst.length) (Sequtil.to2bitAux tbl dst.length)
       (by intro i s; simp [Sequtil.to2bitAux]) (to2bitAux_cons tbl dst.length)
       (by
         intro i s a d hi hs
         unfold to2bitStep at hs
         simp only at hs
         split at hs
         · exact absurd hs (by simp)
         · simp only [Option.some.injEq] at hs
           subst hs
           simp only [List.length_set]
           split
           · rename_i h6; simp only [List.length_append, List.length_singleton]
             have : i % 4 = 0 := by
               have := (beq_iff_eq).mp h6; omega
             omega
           · rename_i h6
             have : i % 4 ≠ 0 := by
               intro h0; apply h6; simp [h0]
             omega)
     unfold enum
     rw [key]
     · cases Sequtil.to2bitAux tbl dst.length 0 dst src <;> rfl
     · intro i s a hi
       have htm : (i : Int).tmod 4 = ((i % 4 : Nat) : Int) := by
         rw [Int.tmod_eq_emod_of_nonneg (by omega)]; omega
       have htd : (i : Int).tdiv 4 = ((i / 4 : Nat) : Int) := by
         rw [Int.natCast_tdiv_eq_ediv]; omega
       have hv := Ntoi_eq hN tbl h256 a
       have hvr : -1 ≤ Sequtil.ntoi tbl a ∧ Sequtil.ntoi tbl a ≤ 255 := by
         unfold Sequtil.ntoi
         cases hg : tbl[a.toNat]? with
         | none => simp
         | some v => simpa using hrange v (List.mem_of_getElem? hg)
       simp only [htm, htd, hv, Option.bind_some, Option.bind_none, to2bitStep]
       generalize Sequtil.ntoi tbl a = v at hvr
       by_cases hneg : v < 0
       · have : v = -1 := by omega
         subst this; simp
       · have hne : (v == -1) = false := by simp; omega
         simp only [hne, hneg, if_false, Bool.false_eq_true]
         have hsh : (6 : Int) - ((i % 4 : Nat) : Int) * 2 = ((6 - i % 4 * 2 : Nat) : Int) := by omega
         have hdi : len dst + ((i / 4 : Nat) : Int) = ((dst.length + i / 4 : Nat) : Int) := by
           unfold len; omega
         have hu : u8 v = UInt8.ofNat v.toNat := by
           unfold u8; rw [Int.emod_eq_of_lt (by omega) (by omega)]
         rw [hsh, hdi, hu, shl8_ofNat _ _ (by omega)]
         have h6 : ((((6 - i % 4 * 2 : Nat) : Int)) == 6) = (6 - i % 4 * 2 == 6) := by
           rw [Bool.eq_iff_iff]; simp only [beq_iff_eq]; omega
         rw [h6]
         by_cases hz : (6 - i % 4 * 2 == 6) = true
         · have hlt : dst.length + i / 4 < (s ++ [0]).length := by
             have := (beq_iff_eq).mp hz
             simp only [List.length_append, List.length_singleton]; omega
           simp only [hz, if_true, Option.bind_some, idx_ofNat, setIdx_ofNat, hlt,
             List.getElem?_eq_getElem hlt, Option.getD_some, Option.map_some, if_true]
         · have hlt : dst.length + i / 4 < s.length := by
             have : i % 4 ≠ 0 := by
               intro h0; apply hz; simp [h0]
             omega
           simp only [hz, if_false, Option.bind_some, idx_ofNat, setIdx_ofNat, hlt,
             List.getElem?_eq_getElem hlt, Option.getD_some, Option.map_some, Bool.false_eq_true, if_true]
     · simp)

theorem Iton_eq (hF : GoSrc.Iton_Found = true) (n : Int) : GoSrc.Iton n = some (Sequtil.iton n) := by
  first
  | exact absurd hF (by decide)
  | (unfold GoSrc.Iton Sequtil.iton
     simp only [Option.pure_def, beq_iff_eq]
     repeat' split
     all_goals rfl)

theorem from2bitLoop (tbl : List (List UInt8)) (h256 : tbl.length = 256) (src : Bytes) : ∀ dst : Bytes,
    forIn src dst (fun x s => (idx tbl (x.toNat : Int)).bind fun y => some (ForInStep.yield (s ++ y)))
      = some (dst ++ src.flatMap fun b => (tbl[b.toNat]?).getD []) := by
  induction src with
  | nil => intro dst; simp
  | cons a L ih =>
    intro dst
    have hlt : a.toNat < tbl.length := by rw [h256]; exact UInt8.toNat_lt a
    have h1 : idx tbl (a.toNat : Int) = some tbl[a.toNat] := by
      rw [idx_ofNat, List.getElem?_eq_getElem hlt]
    simp only [List.forIn_cons, h1, Option.bind_eq_bind, Option.bind_some, ih,
      List.flatMap_cons, List.getElem?_eq_getElem hlt, Option.getD_some, List.append_assoc]

theorem DNAFrom2Bit_eq (hF : GoSrc.DNAFrom2Bit_Found = true) (tbl : List (List UInt8)) (h256 : tbl.length = 256)
    (dst src : Bytes) : GoSrc.DNAFrom2Bit tbl dst src = some (Sequtil.from2bit tbl dst src) := by
  first
  | exact absurd hF (by decide)
  | (unfold GoSrc.DNAFrom2Bit Sequtil.from2bit
     simp only [Option.pure_def, Option.bind_eq_bind]
     have := forIn_upTo_idx src dst (fun x s => (idx tbl (x.toNat : Int)).bind fun y => some (ForInStep.yield (s ++ y)))
     simp at this ⊢
     rw [this]
     exact from2bitLoop tbl h256 src dst)
theorem cmp_eq_one (a b : Bytes) : (cmp a b == 1) = bytesLt b a := by
  unfold cmp
  cases h1 : bytesLt a b <;> cases h2 : bytesLt b a <;> simp
  have := Mash.bytesLt_asymm h1
  rw [h2] at this; cases this

theorem canonBody_loop (h : List Bytes → Bool) (seq rc : Bytes) (k : Nat) (hl : rc.length = seq.length)
    (post : Option (List Bytes) × List Bytes → Option (List Bytes))
    (hp1 : ∀ r l, post (some r, l) = some r) (hp2 : ∀ l, post (none, l) = some l) :
    ∀ (n i : Nat) (log : List Bytes), (n = 0 ∨ i + n + k ≤ seq.length + 1) →
    (forIn ((List.range' i n).map Int.ofNat) ((none : Option (List (List UInt8))), log) fun i __s =>
            (slice seq i (i + ↑k)).bind fun kmer =>
              (slice rc (len rc - i - ↑k) (len rc - i)).bind fun kmerRC =>
                if bytesLt kmerRC kmer = true then
                  if (!h (__s.snd ++ [kmerRC])) = true then
                    some (ForInStep.done (some (__s.snd ++ [kmerRC]), __s.snd ++ [kmerRC]))
                  else some (ForInStep.yield (none, __s.snd ++ [kmerRC]))
                else
                  if (!h (__s.snd ++ [kmer])) = true then
                    some (ForInStep.done (some (__s.snd ++ [kmer]), __s.snd ++ [kmer]))
                  else some (ForInStep.yield (none, __s.snd ++ [kmer]))).bind
        post
      = some (takeThroughH h log ((List.range' i n).map (Sequtil.canonItem seq rc k))) := by
  intro n
  induction n with
  | zero => intro i log _; simp [takeThroughH, hp2]
  | succ n ih =>
    intro i log hb
    have hb' : i + k + n ≤ seq.length := by omega
    simp only [List.range'_succ, List.map_cons, List.forIn_cons, takeThroughH]
    have e1 : Int.ofNat i + (k : Int) = ((i + k : Nat) : Int) := by simp
    have e2 : len rc - Int.ofNat i - (k : Int) = ((rc.length - i - k : Nat) : Int) := by
      unfold len; simp only [Int.ofNat_eq_natCast]; omega
    have e3 : len rc - Int.ofNat i = ((rc.length - i : Nat) : Int) := by
      unfold len; simp only [Int.ofNat_eq_natCast]; omega
    rw [e1, e2, e3, show Int.ofNat i = (i : Int) from rfl,
      slice_ofNat seq i (i + k) (by omega) (by omega),
      slice_ofNat rc (rc.length - i - k) (rc.length - i) (by omega) (by omega)]
    simp only [Option.bind_some]
    have e4 : i + k - i = k := by omega
    have e5 : rc.length - i - (rc.length - i - k) = k := by omega
    rw [e4, e5]
    unfold Sequtil.canonItem
    simp only []
    have ih' := fun log => ih (i + 1) log (by omega)
    unfold Sequtil.canonItem at ih'
    simp only [] at ih'
    split
    · cases hf : h (log ++ [List.take k (List.drop (rc.length - i - k) rc)])
      · simp only [Bool.not_false, if_true, Option.bind_eq_bind, Option.bind_some, Option.pure_def, hp1,
          Bool.false_eq_true, if_false]
      · simp only [Bool.not_true, Bool.false_eq_true, if_false, if_true, Option.bind_eq_bind, Option.bind_some, ih']
    · cases hf : h (log ++ [List.take k (List.drop i seq)])
      · simp only [Bool.not_false, if_true, Option.bind_eq_bind, Option.bind_some, Option.pure_def, hp1,
          Bool.false_eq_true, if_false]
      · simp only [Bool.not_true, Bool.false_eq_true, if_false, if_true, Option.bind_eq_bind, Option.bind_some, ih']

/-- The generated `CanonicalSubsequences` with ANY deterministic consumer `h` (stateful ones included:
`h` sees the whole log of items handed over so far): the log is the model's item list cut after the
first item at which `h` says stop. -/
theorem CanonicalSubsequences_hist (hF : GoSrc.CanonicalSubsequences_Found = true)
    (hR : GoSrc.ReverseComplement_Found = true) (hC : GoSrc.complementByte_Found = true)
    (tbl : List UInt8) (h : List Bytes → Bool) (seq : Bytes) (k : Nat) :
    GoSrc.CanonicalSubsequences tbl seq (k : Int) h
      = (Sequtil.canonical tbl seq k).map (takeThroughH h []) := by
  first
  | exact absurd hF (by decide)
  | (unfold GoSrc.CanonicalSubsequences
     simp only [Option.pure_def, Option.bind_eq_bind, ReverseComplement_eq hR hC]
     cases hrc : Sequtil.revComp tbl [] seq with
     | none => simp [Sequtil.canonical, Sequtil.canonicalLog, hrc]
     | some rc =>
       have hl := Mash.revComp_length hrc
       rw [Mash.canonical_eq k hrc, List.range_eq_range']
       simp only [Option.bind_some, Option.map_some]
       have hn : upTo (len seq - (k : Int) + 1) = (List.range' 0 (seq.length + 1 - k)).map Int.ofNat := by
         unfold upTo len
         rw [List.range_eq_range']
         congr 2
         omega
       rw [hn]
       have key := fun post hp1 hp2 =>
         canonBody_loop h seq rc k hl post hp1 hp2 (seq.length + 1 - k) 0 [] (by omega)
       simp only [cmp_eq_one]
       rw [key]
       · intro r l; rfl
       · intro l; rfl)

/-- a pure consumer `f`, as a history consumer: it is asked about the last item -/
def canon_lastH (f : Bytes → Bool) : List Bytes → Bool :=
  fun l => match l.getLast? with | some x => f x | none => true

theorem canon_lastH_concat (f : Bytes → Bool) (l : List Bytes) (x : Bytes) :
    canon_lastH f (l ++ [x]) = f x := by
  simp [canon_lastH]

theorem canon_takeThroughH_lastH (f : Bytes → Bool) (seq rc : Bytes) (k : Nat) :
    ∀ (n i : Nat) (log : List Bytes),
      takeThroughH (canon_lastH f) log ((List.range' i n).map (Sequtil.canonItem seq rc k))
        = log ++ Sequtil.canonLoop f seq rc k i n := by
  intro n
  induction n with
  | zero => intro i log; simp [takeThroughH, Sequtil.canonLoop]
  | succ n ih =>
    intro i log
    simp only [List.range'_succ, List.map_cons, takeThroughH, canon_lastH_concat, Sequtil.canonLoop, ih]
    cases f (Sequtil.canonItem seq rc k i) <;> simp

/-- Pure consumers `f : Bytes → Bool` (asked about the current item only): the model's `canonicalLog`. -/
theorem CanonicalSubsequences_eq (hF : GoSrc.CanonicalSubsequences_Found = true)
    (hR : GoSrc.ReverseComplement_Found = true) (hC : GoSrc.complementByte_Found = true)
    (tbl : List UInt8) (f : Bytes → Bool) (seq : Bytes) (k : Nat) :
    GoSrc.CanonicalSubsequences tbl seq (k : Int)
        (fun l => match l.getLast? with | some x => f x | none => true)
      = Sequtil.canonicalLog tbl f seq k := by
  show GoSrc.CanonicalSubsequences tbl seq (k : Int) (canon_lastH f) = _
  rw [CanonicalSubsequences_hist hF hR hC tbl (canon_lastH f) seq k]
  unfold Sequtil.canonicalLog
  cases hrc : Sequtil.revComp tbl [] seq with
  | none => simp [Sequtil.canonical, Sequtil.canonicalLog, hrc]
  | some rc =>
    rw [Mash.canonical_eq k hrc, List.range_eq_range']
    simp only [Option.map_some, canon_takeThroughH_lastH, List.nil_append]

/-- Go's `if b >= 'a' { b -= 'a' - 'A' }` -/
def up (b : UInt8) : UInt8 := if b ≥ 97 then b - 32 else b

/-- the body of the `for i := 0; i < len(src); i += 3` loop of the generated `Translate` -/
def trBody (src : List (List UInt8 × UInt8)) (s : Bytes) :
    Int → Bytes × Bytes → Option (ForInStep (Bytes × Bytes)) :=
  fun i __s =>
    (slice s i (i + 3)).bind fun __do_lift =>
      (forIn (upTo (len (copyInto __s.snd __do_lift))) (copyInto __s.snd __do_lift) fun j __s =>
            (idx __s j).bind fun __do_lift =>
              if __do_lift ≥ 97 then
                (idx __s j).bind fun __do_lift =>
                  (setIdx __s j (__do_lift - 32)).bind fun buf => some (ForInStep.yield buf)
              else some (ForInStep.yield __s)).bind
        fun __s_1 =>
        if (mapGet src __s_1 0 == 0) = true then
          (none : Option Unit).bind fun __r => some (ForInStep.yield (__s.fst ++ [mapGet src __s_1 0], __s_1))
        else some (ForInStep.yield (__s.fst ++ [mapGet src __s_1 0], __s_1))

theorem upcase3 (a b c : UInt8) :
    (forIn (upTo (len [a, b, c])) [a, b, c] fun j (__s : Bytes) =>
            (idx __s j).bind fun __do_lift =>
              if __do_lift ≥ 97 then
                (idx __s j).bind fun __do_lift =>
                  (setIdx __s j (__do_lift - 32)).bind fun buf => some (ForInStep.yield buf)
              else some (ForInStep.yield __s)) = some [up a, up b, up c] := by
  have h : upTo (len [a, b, c]) = [0, 1, 2] := rfl
  rw [h]
  unfold up
  by_cases ha : a ≥ 97 <;> by_cases hb : b ≥ 97 <;> by_cases hc : c ≥ 97 <;>
    simp [idx, setIdx, ha, hb, hc]

theorem slice_cons3 (a b c : UInt8) (rest : Bytes) (k : Nat) :
    slice (a :: b :: c :: rest) (((k + 1 : Nat) : Int) * 3) (((k + 1 : Nat) : Int) * 3 + 3)
      = slice rest ((k : Int) * 3) ((k : Int) * 3 + 3) := by
  unfold slice
  have e1 : (((k + 1 : Nat) : Int) * 3).toNat = k * 3 + 3 := by omega
  have e2 : ((k : Int) * 3).toNat = k * 3 := by omega
  have e3 : (((k + 1 : Nat) : Int) * 3 + 3 - ((k + 1 : Nat) : Int) * 3).toNat = 3 := by omega
  have e4 : ((k : Int) * 3 + 3 - (k : Int) * 3).toNat = 3 := by omega
  rw [e1, e2, e3, e4]
  simp only [List.length_cons]
  by_cases h : k * 3 + 3 ≤ rest.length
  · rw [if_pos (by omega), if_pos (by omega)]
    rfl
  · rw [if_neg (by omega), if_neg (by omega)]

theorem trBody_shift (src : List (List UInt8 × UInt8)) (a b c : UInt8) (rest : Bytes) (k : Nat) :
    trBody src (a :: b :: c :: rest) (((k + 1 : Nat) : Int) * 3) = trBody src rest ((k : Int) * 3) := by
  unfold trBody
  rw [slice_cons3]

theorem trBody_zero (src : List (List UInt8 × UInt8)) (obs : Sequtil.CodonTable)
    (hT : ∀ a b c : UInt8, mapGet src [up a, up b, up c] 0 = ((Sequtil.codon obs a b c).getD 0))
    (hnz : ∀ a b c v, Sequtil.codon obs a b c = some v → v ≠ 0)
    (a b c : UInt8) (rest dst buf : Bytes) (hb : buf.length = 3) :
    trBody src (a :: b :: c :: rest) 0 (dst, buf) =
      (Sequtil.codon obs a b c).map fun v => ForInStep.yield (dst ++ [v], [up a, up b, up c]) := by
  unfold trBody
  have hs : slice (a :: b :: c :: rest) 0 (0 + 3) = some [a, b, c] := by
    unfold slice; simp; omega
  have hc : copyInto buf [a, b, c] = [a, b, c] := by
    unfold copyInto; simp [hb]
  simp only [hs, Option.bind_some, hc, upcase3, hT]
  cases h : Sequtil.codon obs a b c with
  | none => simp
  | some v =>
    have := hnz a b c v h
    simp [this]

theorem translate_bad_len (tbl : Sequtil.CodonTable) : ∀ (s dst : Bytes), s.length % 3 ≠ 0 →
    Sequtil.translate tbl dst s = none
  | [], _, h => by simp at h
  | [_], _, _ => by simp [Sequtil.translate]
  | [_, _], _, _ => by simp [Sequtil.translate]
  | a :: b :: c :: rest, dst, h => by
    simp only [Sequtil.translate]
    cases Sequtil.codon tbl a b c with
    | none => rfl
    | some v =>
      exact translate_bad_len tbl rest _ (by simp only [List.length_cons] at h; omega)

theorem trLoop (src : List (List UInt8 × UInt8)) (obs : Sequtil.CodonTable)
    (hT : ∀ a b c : UInt8, mapGet src [up a, up b, up c] 0 = ((Sequtil.codon obs a b c).getD 0))
    (hnz : ∀ a b c v, Sequtil.codon obs a b c = some v → v ≠ 0) :
    ∀ (n : Nat) (s dst buf : Bytes), s.length = 3 * n → buf.length = 3 →
      (forIn ((List.range n).map fun (k : Nat) => (k : Int) * 3) (dst, buf) (trBody src s)).bind
          (fun __s => some __s.fst) = Sequtil.translate obs dst s := by
  intro n
  induction n with
  | zero =>
    intro s dst buf hs hb
    have : s = [] := List.length_eq_zero_iff.mp (by omega)
    subst this
    simp [Sequtil.translate]
  | succ n ih =>
    intro s dst buf hs hb
    match s, hs with
    | a :: b :: c :: rest, hs =>
      have hr : rest.length = 3 * n := by simp only [List.length_cons] at hs; omega
      rw [List.range_succ_eq_map, List.map_cons, List.map_map, List.forIn_cons]
      have h0 : ((0 : Nat) : Int) * 3 = 0 := by omega
      rw [h0, trBody_zero src obs hT hnz a b c rest dst buf hb]
      simp only [Sequtil.translate]
      cases h : Sequtil.codon obs a b c with
      | none => rfl
      | some v =>
        simp only [Option.map_some, Option.bind_eq_bind, Option.bind_some]
        rw [← ih rest (dst ++ [v]) [up a, up b, up c] hr rfl]
        congr 1
        rw [List.forIn_map, List.forIn_map]
        apply forIn_congr_mem
        intro k _ st
        exact congrFun (trBody_shift src a b c rest k) st


theorem Translate_eq (hF : GoSrc.Translate_Found = true)
    (src : List (List UInt8 × UInt8)) (obs : Sequtil.CodonTable)
    (hT : ∀ a b c : UInt8, mapGet src [up a, up b, up c] 0 = ((Sequtil.codon obs a b c).getD 0))
    (hnz : ∀ a b c v, Sequtil.codon obs a b c = some v → v ≠ 0) (dst s : Bytes) :
    GoSrc.Translate src dst s = Sequtil.translate obs dst s := by
  first
  | exact absurd hF (by decide)
  | (unfold GoSrc.Translate
     simp only [Option.pure_def, Option.bind_eq_bind]
     have hm : (len s).tmod 3 = ((s.length % 3 : Nat) : Int) := by
       unfold len; rw [Int.tmod_eq_emod_of_nonneg (by omega)]; omega
     by_cases h3 : s.length % 3 = 0
     · have hne : ((len s).tmod 3 != 0) = false := by rw [hm, h3]; rfl
       rw [hne]
       simp only [Bool.false_eq_true, if_false]
       have hu : upToStep (len s) 3 = (List.range (s.length / 3)).map fun (k : Nat) => (k : Int) * 3 := by
         unfold upToStep len
         have : ((s.length : Int).toNat + (3 : Int).toNat - 1) / (3 : Int).toNat = s.length / 3 := by
           simp only [Int.toNat_natCast, show (3 : Int).toNat = 3 from rfl]; omega
         rw [this]
       rw [hu]
       exact trLoop src obs hT hnz (s.length / 3) s dst (List.replicate 3 0) (by omega) rfl
     · have hne : ((len s).tmod 3 != 0) = true := by
         rw [hm]; simp only [bne_iff_ne, ne_eq]; omega
       rw [hne, translate_bad_len obs s dst h3]
       rfl)

theorem TranslateReadingFrames_eq (hF : GoSrc.TranslateReadingFrames_Found = true)
    (hTr : GoSrc.Translate_Found = true)
    (src : List (List UInt8 × UInt8)) (obs : Sequtil.CodonTable)
    (hT : ∀ a b c : UInt8, mapGet src [up a, up b, up c] 0 = ((Sequtil.codon obs a b c).getD 0))
    (hnz : ∀ a b c v, Sequtil.codon obs a b c = some v → v ≠ 0) (seq : Bytes) :
    GoSrc.TranslateReadingFrames src seq = Sequtil.frames obs seq := by
  first
  | exact absurd hF (by decide)
  | (unfold GoSrc.TranslateReadingFrames Sequtil.frames
     simp only [Option.pure_def, Option.bind_eq_bind]
     have h : upTo 3 = [((0 : Nat) : Int), ((1 : Nat) : Int), ((2 : Nat) : Int)] := rfl
     rw [h]
     simp only [List.forIn_cons, List.forIn_nil, slice_from, slice_upto3, Option.bind_some,
       Translate_eq hTr src obs hT hnz, List.drop_zero, List.mapM_cons, List.mapM_nil]
     have hf : ∀ x : Bytes, Sequtil.translate obs [] (x.take (x.length / 3 * 3)) = Sequtil.frame obs x :=
       fun _ => rfl
     simp only [hf]
     cases Sequtil.frame obs seq with
     | none => rfl
     | some r0 =>
       cases Sequtil.frame obs (seq.drop 1) with
       | none => rfl
       | some r1 =>
         cases Sequtil.frame obs (seq.drop 2) with
         | none => rfl
         | some r2 => rfl)

/-! ## Compatibility of the 64-entry source map `codonToAmino` with an observed table of all accepted
raw triples, by a finite check: the keys of the observed table are exactly the 8³ triples over
`ACGTacgt`, each entry agrees with the source map after upper-casing, and every key byte of the
source map is one of `ACGT`. -/

def dna8 : Bytes := [65, 67, 71, 84, 97, 99, 103, 116]
def isUp4 (b : UInt8) : Bool := b == 65 || b == 67 || b == 71 || b == 84
def cube : List (UInt8 × UInt8 × UInt8) :=
  dna8.flatMap fun a => dna8.flatMap fun b => dna8.map fun c => (a, b, c)

/-- every key byte of the source map is one of `ACGT` -/
def srcKeysOK (src : List (List UInt8 × UInt8)) : Bool := src.all fun e => e.1.all isUp4
/-- the keys of the observed table are the 512 triples over `ACGTacgt` (in enumeration order) -/
def obsKeysOK (obs : Sequtil.CodonTable) : Bool := obs.map (·.1) == cube
/-- every observed entry is what the source map gives for the upper-cased triple, and is not 0 -/
def obsEntriesOK (src : List (List UInt8 × UInt8)) (obs : Sequtil.CodonTable) : Bool :=
  obs.all fun e => mapGet src [up e.1.1, up e.1.2.1, up e.1.2.2] 0 == e.2 && e.2 != 0

theorem up_isUp4 : ∀ b : UInt8, isUp4 (up b) = true → b ∈ dna8 := by
  apply Sequtil.forall_uint8; decide +kernel

theorem mem_cube_iff (a b c : UInt8) : (a, b, c) ∈ cube ↔ a ∈ dna8 ∧ b ∈ dna8 ∧ c ∈ dna8 := by
  unfold cube
  simp only [List.mem_flatMap, List.mem_map, Prod.mk.injEq]
  constructor
  · rintro ⟨a', ha, b', hb, c', hc, h1, h2, h3⟩
    subst h1 h2 h3; exact ⟨ha, hb, hc⟩
  · rintro ⟨ha, hb, hc⟩
    exact ⟨a, ha, b, hb, c, hc, rfl, rfl, rfl⟩

theorem codon_some_mem {obs : Sequtil.CodonTable} {a b c v : UInt8}
    (h : Sequtil.codon obs a b c = some v) : ((a, b, c), v) ∈ obs := by
  unfold Sequtil.codon at h
  cases hf : obs.find? (fun e => e.1 == (a, b, c)) with
  | none => rw [hf] at h; cases h
  | some e =>
    rw [hf] at h
    have hm := List.mem_of_find?_eq_some hf
    have hk := List.find?_some hf
    have he : e.1 = (a, b, c) := by simpa using hk
    have hv : e.2 = v := by simpa using h
    rw [← he, ← hv]; exact hm

theorem codon_ne_zero (src : List (List UInt8 × UInt8)) (obs : Sequtil.CodonTable)
    (hent : obsEntriesOK src obs = true) (a b c v : UInt8)
    (h : Sequtil.codon obs a b c = some v) : v ≠ 0 := by
  unfold obsEntriesOK at hent
  rw [List.all_eq_true] at hent
  have := hent _ (codon_some_mem h)
  simp only [Bool.and_eq_true, bne_iff_ne, ne_eq] at this
  exact this.2

theorem mapGet_zero_of_not_dna (src : List (List UInt8 × UInt8)) (hsrc : srcKeysOK src = true) (a b c : UInt8)
    (h : ¬ (a ∈ dna8 ∧ b ∈ dna8 ∧ c ∈ dna8)) :
    mapGet src [up a, up b, up c] 0 = 0 := by
  unfold mapGet
  cases hf : src.find? (fun e => e.1 == [up a, up b, up c]) with
  | none => rfl
  | some e =>
    exfalso
    have hm := List.mem_of_find?_eq_some hf
    have hk := List.find?_some hf
    have he : e.1 = [up a, up b, up c] := by simpa using hk
    unfold srcKeysOK at hsrc
    rw [List.all_eq_true] at hsrc
    have := hsrc e hm
    rw [he] at this
    simp only [List.all_cons, List.all_nil, Bool.and_true, Bool.and_eq_true] at this
    exact h ⟨up_isUp4 a this.1, up_isUp4 b this.2.1, up_isUp4 c this.2.2⟩

theorem codon_tables_compat (src : List (List UInt8 × UInt8)) (obs : Sequtil.CodonTable)
    (hsrc : srcKeysOK src = true) (hkeys : obsKeysOK obs = true) (hent : obsEntriesOK src obs = true)
    (a b c : UInt8) : mapGet src [up a, up b, up c] 0 = (Sequtil.codon obs a b c).getD 0 := by
  have hk : obs.map (·.1) = cube := by simpa [obsKeysOK] using hkeys
  cases hc : Sequtil.codon obs a b c with
  | some v =>
    unfold obsEntriesOK at hent
    rw [List.all_eq_true] at hent
    have := hent _ (codon_some_mem hc)
    simp only [Bool.and_eq_true, beq_iff_eq] at this
    exact this.1
  | none =>
    have hnot : ¬ (a ∈ dna8 ∧ b ∈ dna8 ∧ c ∈ dna8) := by
      intro hd
      have hm : (a, b, c) ∈ obs.map (·.1) := by rw [hk]; exact (mem_cube_iff a b c).mpr hd
      rw [List.mem_map] at hm
      obtain ⟨e, he, hek⟩ := hm
      unfold Sequtil.codon at hc
      have : obs.find? (fun e => e.1 == (a, b, c)) = none := by
        cases hf : obs.find? (fun e => e.1 == (a, b, c)) with
        | none => rfl
        | some x => rw [hf] at hc; cases hc
      rw [List.find?_eq_none] at this
      exact this e he (by simp [hek])
    rw [mapGet_zero_of_not_dna src hsrc a b c hnot]
    rfl

end Bio.GoSrcLemmas
