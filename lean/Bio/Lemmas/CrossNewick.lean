/-
  Helper lemmas for C07 / C11, Newick part: the parser loop as "next token, then one
  non-recursive step"; under a failing source the reader never reports a clean end; a tree
  read from a failing source is read identically from any extension of the data (prefix
  monotonicity); the distance invariant of the parser.
-/
import Bio.Lemmas.Cross
namespace Bio.Newick

/-! ## The parser loop as token + step -/

/-- Outcome of processing one token (no recursion). -/
inductive Step where
  | err
  | done (t : Tree)
  | cont (cur : Tree) (stack : List Tree) (st : PState)

/-- What `readLoop` does with the token `t` in the given parser configuration. -/
def step (pd : Bytes → Option Dist) (t : Bytes) (cur : Tree) (stack : List Tree)
    (st : PState) : Step :=
  match t with
  | [40] => if st != .beforeNode then .err else .cont emptyNode (cur :: stack) st
  | [41] =>
    if st == .afterColon then .err
    else match stack with
      | [] => .err
      | parent :: stack' => .cont (closeTop cur parent) stack' .afterChildren
  | [44] =>
    if st == .afterColon then .err
    else match stack with
      | [] => .err
      | parent :: stack' => .cont emptyNode (closeTop cur parent :: stack') .beforeNode
  | [58] =>
    if st == .afterColon || st == .afterDist then .err else .cont cur stack .afterColon
  | [59] =>
    if !stack.isEmpty then .err else if st == .afterColon then .err else .done cur
  | _ =>
    if st == .afterName || st == .afterDist then .err
    else if st == .beforeNode || st == .afterChildren then
      .cont { cur with name := nameFromText t } stack .afterName
    else match pd t with
      | none => .err
      | some d => .cont { cur with dist := d } stack .afterDist

/-- Continue after a step, with `rest` the unread input. -/
def afterStep (pd : Bytes → Option Dist) (e : Ending) (rest : Bytes) : Step → ReadRes
  | .err => .err
  | .done t => .tree t rest
  | .cont c s st => readLoop pd e rest c s st true

theorem tokStep_eq_step (pd e t rest cur stack st) :
    tokStep pd e t rest cur stack st = afterStep pd e rest (step pd t cur stack st) := by
  unfold tokStep step
  split <;> (repeat' split) <;> first | rfl | simp_all [afterStep]

theorem readLoop_cases (pd e x cur stack st ra) :
    readLoop pd e x cur stack st ra =
      match nextToken e x with
      | .eof => if ra then .err else .eof
      | .err => .err
      | .tok t rest => afterStep pd e rest (step pd t cur stack st) := by
  cases h : nextToken e x with
  | eof => exact readLoop_eof _ _ _ _ _ _ _ h
  | err => exact readLoop_err _ _ _ _ _ _ _ h
  | tok t rest => rw [readLoop_tokStep _ _ _ _ _ _ _ _ _ h, tokStep_eq_step]

/-! ## Under a failing source the reader never reports a clean end -/

theorem nextToken_fail_ne_eof (x : Bytes) : nextToken .fail x ≠ .eof := by
  induction x with
  | nil => simp [nextToken]
  | cons b r ih =>
    simp only [nextToken]
    split
    · split <;> simp
    · split
      · simp
      · split
        · exact ih
        · split <;> simp

theorem readLoop_fail_ne_eof (pd : Bytes → Option Dist) (x : Bytes) :
    ∀ cur stack st ra, readLoop pd .fail x cur stack st ra ≠ .eof := by
  induction hl : x.length using Nat.strongRecOn generalizing x with
  | _ n ih =>
    intro cur stack st ra
    rw [readLoop_cases]
    cases hn : nextToken .fail x with
    | eof => exact absurd hn (nextToken_fail_ne_eof x)
    | err => simp
    | tok t rest =>
      have hlt := nextToken_lt _ _ _ _ hn
      simp only
      cases step pd t cur stack st with
      | err => simp [afterStep]
      | done t => simp [afterStep]
      | cont c s st' => exact ih rest.length (by omega) rest rfl c s st' true

theorem readTree_fail_ne_eof (pd : Bytes → Option Dist) (x : Bytes) :
    readTree pd .fail x ≠ .eof := readLoop_fail_ne_eof pd x _ _ _ _

theorem readTree_fail_nil (pd : Bytes → Option Dist) : readTree pd .fail [] = .err :=
  readLoop_err _ _ _ _ _ _ _ rfl

/-- Whatever the bytes: under a failing source the last item is an error. -/
theorem fail_getLast (pd : Bytes → Option Dist) (x : Bytes) :
    (decodeSrc pd .fail x).getLast? = some Item.err := by
  induction hl : x.length using Nat.strongRecOn generalizing x with
  | _ n ih =>
    cases hr : readTree pd .fail x with
    | eof => exact absurd hr (readTree_fail_ne_eof pd x)
    | err => rw [decodeSrc_err _ _ _ hr]; rfl
    | tree t rest =>
      have hlt := readTree_rest_lt _ _ _ _ _ hr
      rw [decodeSrc_tree _ _ _ _ _ hr]
      exact getLast?_cons_of_some (ih rest.length (by omega) rest rfl)

/-! ## Prefix monotonicity: what was read from a failing source is read from any extension -/

theorem quotedTail_fail_append (e : Ending) (z : Bytes) (y : Bytes) :
    ∀ (aq : Bool) (p : Bytes × Bytes), quotedTail .fail aq y = some p →
      quotedTail e aq (y ++ z) = some (p.1, p.2 ++ z) := by
  induction y with
  | nil => intro aq p h; simp [quotedTail] at h
  | cons b r ih =>
    intro aq p h
    simp only [quotedTail, List.cons_append] at h ⊢
    split at h
    · rename_i hb
      obtain ⟨q, hq, rfl⟩ := Option.map_eq_some_iff.mp h
      simp [hb, ih _ _ hq]
    · rename_i hb
      split at h
      · rename_i haq
        cases h
        simp [hb, haq]
      · rename_i haq
        obtain ⟨q, hq, rfl⟩ := Option.map_eq_some_iff.mp h
        simp [hb, haq, ih _ _ hq]

theorem bareTail_fail_append (e : Ending) (z : Bytes) (y : Bytes) :
    ∀ (p : Bytes × Bytes), bareTail .fail y = some (some p) →
      bareTail e (y ++ z) = some (some (p.1, p.2 ++ z)) := by
  induction y with
  | nil => intro p h; simp [bareTail] at h
  | cons b r ih =>
    intro p h
    simp only [bareTail, List.cons_append] at h ⊢
    split at h
    · cases h
    · rename_i hq
      split at h
      · rename_i hs
        cases h
        simp [hq, hs]
      · rename_i hs
        split at h
        · rename_i hw
          cases h
          simp [hq, hs, hw]
        · rename_i hw
          split at h
          · rename_i q hbt
            cases h
            simp [hq, hs, hw, ih _ hbt]
          · rename_i r' hne
            cases hr : bareTail .fail r with
            | none => rw [hr] at h; cases h
            | some o =>
              cases o with
              | none => rw [hr] at h; cases h
              | some q => exact absurd hr (hne q)

theorem nextToken_fail_append (e : Ending) (z : Bytes) (y : Bytes) :
    ∀ (t rest : Bytes), nextToken .fail y = .tok t rest →
      nextToken e (y ++ z) = .tok t (rest ++ z) := by
  induction y with
  | nil => intro t rest h; simp [nextToken] at h
  | cons b r ih =>
    intro t rest h
    simp only [nextToken, List.cons_append] at h ⊢
    split at h
    · rename_i hq
      split at h
      · rename_i p hp
        cases h
        simp [hq, quotedTail_fail_append e z r _ _ hp]
      · cases h
    · rename_i hq
      split at h
      · rename_i hs
        cases h
        simp [hq, hs]
      · rename_i hs
        split at h
        · rename_i hw
          simp [hq, hs, hw, ih _ _ h]
        · rename_i hw
          split at h
          · rename_i p hp
            cases h
            simp [hq, hs, hw, bareTail_fail_append e z r _ hp]
          · cases h

theorem readLoop_fail_append (pd : Bytes → Option Dist) (e : Ending) (z : Bytes) (y : Bytes) :
    ∀ cur stack st ra t rest, readLoop pd .fail y cur stack st ra = .tree t rest →
      readLoop pd e (y ++ z) cur stack st ra = .tree t (rest ++ z) := by
  induction hl : y.length using Nat.strongRecOn generalizing y with
  | _ n ih =>
    intro cur stack st ra t rest h
    rw [readLoop_cases] at h
    cases hn : nextToken .fail y with
    | eof => rw [hn] at h; simp only at h; split at h <;> cases h
    | err => rw [hn] at h; cases h
    | tok t' rest' =>
      have hlt := nextToken_lt _ _ _ _ hn
      rw [hn] at h
      simp only at h
      rw [readLoop_cases, nextToken_fail_append e z y t' rest' hn]
      simp only
      cases hs : step pd t' cur stack st with
      | err => rw [hs] at h; cases h
      | done tr =>
        rw [hs] at h
        simp only [afterStep] at h ⊢
        cases h; rfl
      | cont c s st' =>
        rw [hs] at h
        simp only [afterStep] at h ⊢
        exact ih rest'.length (by omega) rest' rfl c s st' true t rest h

theorem readTree_fail_append (pd : Bytes → Option Dist) (e : Ending) (y z : Bytes) (t : Tree)
    (rest : Bytes) (h : readTree pd .fail y = .tree t rest) :
    readTree pd e (y ++ z) = .tree t (rest ++ z) :=
  readLoop_fail_append pd e z y _ _ _ _ t rest h

/-! ## A source failing inside a written tree -/

/-- A strict prefix of one written tree, read from a failing source, is an error: never a
tree made from the cut text. -/
theorem readTree_strict_prefix (qs : Bytes) (pd : Bytes → Option Dist) (hq : QS_OK qs) (t : Tree)
    (hd : t.AllDist (DistOK pd)) (k : Nat) (hk : k < (write qs t).length) :
    readTree pd .fail ((write qs t).take k) = .err := by
  cases hr : readTree pd .fail ((write qs t).take k) with
  | eof => exact absurd hr (readTree_fail_ne_eof pd _)
  | err => rfl
  | tree t' rest =>
    exfalso
    have h1 := readTree_fail_append pd .eof _ ((write qs t).drop k) t' rest hr
    rw [List.take_append_drop] at h1
    have h2 := readTree_write qs pd .eof hq t hd []
    rw [List.append_nil] at h2
    rw [h2] at h1
    injection h1 with _ h3
    have := congrArg List.length h3
    simp only [List.length_nil, List.length_append, List.length_drop] at this
    omega

theorem decodeSrc_fail_nil (pd : Bytes → Option Dist) : decodeSrc pd .fail [] = [Item.err] :=
  decodeSrc_err _ _ _ (readTree_fail_nil pd)

/-- Source failing after `k` bytes of trees written back to back: leading trees, then exactly
one error. -/
theorem fault_prefix (qs : Bytes) (pd : Bytes → Option Dist) (hq : QS_OK qs) (ts : List Tree)
    (hd : ∀ t ∈ ts, t.AllDist (DistOK pd)) :
    ∀ k, ∃ n, decodeSrc pd .fail (((ts.map (write qs)).flatten).take k) =
      (ts.take n).map Item.ok ++ [Item.err] := by
  induction ts with
  | nil => intro k; exact ⟨0, by simpa using decodeSrc_fail_nil pd⟩
  | cons t ts ih =>
    intro k
    simp only [List.map_cons, List.flatten_cons]
    by_cases hk : k < (write qs t).length
    · refine ⟨0, ?_⟩
      rw [List.take_append_of_le_length (Nat.le_of_lt hk),
        decodeSrc_err _ _ _ (readTree_strict_prefix qs pd hq t (hd t (by simp)) k hk)]
      rfl
    · obtain ⟨n, hn⟩ := ih (fun u hu => hd u (List.mem_cons_of_mem _ hu)) (k - (write qs t).length)
      refine ⟨n + 1, ?_⟩
      rw [List.take_append, List.take_of_length_le (by omega),
        decodeSrc_tree _ _ _ _ _ (readTree_write qs pd .fail hq t (hd t (by simp)) _), hn]
      rfl

/-! ## The distance invariant of the parser -/

theorem Forest.AllDist.snoc {P : Dist → Prop} : ∀ (f : Forest) (t : Tree),
    f.AllDist P → t.AllDist P → (f.snoc t).AllDist P
  | .nil, _, _, ht => ⟨ht.1, ht.2, trivial⟩
  | .cons _ _ _ r, t, hf, ht => ⟨hf.1, hf.2.1, Forest.AllDist.snoc r t hf.2.2 ht⟩

section Inv
variable (pd : Bytes → Option Dist) (P : Dist → Prop)

/-- Invariant: every distance in the current node and in the open ancestors satisfies `P`. -/
def PInv (cur : Tree) (stack : List Tree) : Prop :=
  cur.AllDist P ∧ ∀ s ∈ stack, s.AllDist P

/-- What the invariant says about the outcome of one step. -/
def StepOK : Step → Prop
  | .err => True
  | .done tr => tr.AllDist P
  | .cont c s _ => PInv P c s

theorem closeTop_allDist {cur parent : Tree} (hc : cur.AllDist P) (hp : parent.AllDist P) :
    (closeTop cur parent).AllDist P :=
  ⟨hp.1, Forest.AllDist.snoc _ _ hp.2 hc⟩

theorem step_inv (hP0 : P none) (hpd : ∀ t d, pd t = some d → P d)
    (t : Bytes) (cur : Tree) (stack : List Tree) (st : PState) (h : PInv P cur stack) :
    StepOK P (step pd t cur stack st) := by
  have hempty : emptyNode.AllDist P := ⟨hP0, trivial⟩
  unfold step
  split
  · split
    · trivial
    · exact ⟨hempty, fun s hs => by
        rcases List.mem_cons.mp hs with rfl | hs
        · exact h.1
        · exact h.2 s hs⟩
  · split
    · trivial
    · split
      · trivial
      · rename_i parent stack'
        exact ⟨closeTop_allDist P h.1 (h.2 parent (by simp)),
          fun s hs => h.2 s (List.mem_cons_of_mem _ hs)⟩
  · split
    · trivial
    · split
      · trivial
      · rename_i parent stack'
        exact ⟨hempty, fun s hs => by
          rcases List.mem_cons.mp hs with rfl | hs
          · exact closeTop_allDist P h.1 (h.2 parent (by simp))
          · exact h.2 s (List.mem_cons_of_mem _ hs)⟩
  · split
    · trivial
    · exact h
  · split
    · trivial
    · split
      · trivial
      · exact h.1
  · split
    · trivial
    · split
      · exact ⟨⟨h.1.1, h.1.2⟩, h.2⟩
      · split
        · trivial
        · rename_i d hd
          exact ⟨⟨hpd _ _ hd, h.1.2⟩, h.2⟩

theorem readLoop_allDist (hP0 : P none) (hpd : ∀ t d, pd t = some d → P d) (e : Ending)
    (x : Bytes) : ∀ cur stack st ra t rest, PInv P cur stack →
      readLoop pd e x cur stack st ra = .tree t rest → t.AllDist P := by
  induction hl : x.length using Nat.strongRecOn generalizing x with
  | _ n ih =>
    intro cur stack st ra t rest hinv h
    rw [readLoop_cases] at h
    cases hn : nextToken e x with
    | eof => rw [hn] at h; simp only at h; split at h <;> cases h
    | err => rw [hn] at h; cases h
    | tok t' rest' =>
      have hlt := nextToken_lt _ _ _ _ hn
      rw [hn] at h
      simp only at h
      have hs := step_inv pd P hP0 hpd t' cur stack st hinv
      cases hstep : step pd t' cur stack st with
      | err => rw [hstep] at h; cases h
      | done tr =>
        rw [hstep] at h hs
        simp only [afterStep] at h
        cases h; exact hs
      | cont c s st' =>
        rw [hstep] at h hs
        simp only [afterStep] at h
        exact ih rest'.length (by omega) rest' rfl c s st' true t rest hs h

theorem decodeSrc_allDist (hP0 : P none) (hpd : ∀ t d, pd t = some d → P d) (e : Ending)
    (x : Bytes) : ∀ t, Item.ok t ∈ decodeSrc pd e x → t.AllDist P := by
  induction hl : x.length using Nat.strongRecOn generalizing x with
  | _ n ih =>
    intro t hm
    cases hr : readTree pd e x with
    | eof => rw [decodeSrc_eof _ _ _ hr] at hm; simp at hm
    | err => rw [decodeSrc_err _ _ _ hr] at hm; simp at hm
    | tree t' rest =>
      have hlt := readTree_rest_lt _ _ _ _ _ hr
      rw [decodeSrc_tree _ _ _ _ _ hr] at hm
      rcases List.mem_cons.mp hm with h | h
      · cases h
        exact readLoop_allDist pd P hP0 hpd e x _ _ _ _ t rest
          ⟨(show emptyNode.AllDist P from ⟨hP0, trivial⟩), by simp⟩ hr
      · exact ih rest.length (by omega) rest rfl t h

end Inv

/-- A tree delivered by the reader is in the domain of the round-trip theorem, provided the
external distance parser returns canonical tokens. -/
theorem accepted_allDist (pd : Bytes → Option Dist)
    (hpd : ∀ t d, pd t = some (some d) → DistOK pd (some d))
    (e : Ending) (x : Bytes) (t : Tree) (hm : Item.ok t ∈ decodeSrc pd e x) :
    t.AllDist (DistOK pd) := by
  apply decodeSrc_allDist pd (DistOK pd) trivial _ e x t hm
  intro tok d hd
  cases d with
  | none => trivial
  | some d' => exact hpd tok d' hd

/-- The written form of one tree decodes to exactly that tree. -/
theorem decode_write (qs : Bytes) (pd : Bytes → Option Dist) (hq : QS_OK qs) (t : Tree)
    (hd : t.AllDist (DistOK pd)) : decode pd (write qs t) = [Item.ok t] := by
  have := forest_roundtrip qs pd hq [t] (by simpa using hd)
  simpa using this

/-! ## Written trees without LF (for the `crlf` form of C06) -/

/-- `P` holds of every name in the forest. -/
def Forest.AllNames (P : Bytes → Prop) : Forest → Prop
  | .nil => True
  | .cons n _ k r => P n ∧ k.AllNames P ∧ r.AllNames P

/-- `P` holds of every name in the tree. -/
def Tree.AllNames (P : Bytes → Prop) (t : Tree) : Prop := P t.name ∧ t.kids.AllNames P

def Forest.decAllNames (P : Bytes → Prop) [DecidablePred P] :
    (f : Forest) → Decidable (f.AllNames P)
  | .nil => isTrue trivial
  | .cons n _ k r =>
    have := Forest.decAllNames P k
    have := Forest.decAllNames P r
    inferInstanceAs (Decidable (P n ∧ k.AllNames P ∧ r.AllNames P))

instance (P : Bytes → Prop) [DecidablePred P] (f : Forest) : Decidable (f.AllNames P) :=
  Forest.decAllNames P f

instance (P : Bytes → Prop) [DecidablePred P] (t : Tree) : Decidable (t.AllNames P) :=
  inferInstanceAs (Decidable (P t.name ∧ t.kids.AllNames P))

theorem mem_doubleQuotes {b : UInt8} {s : Bytes} (h : b ∈ doubleQuotes s) : b = QUOTE ∨ b ∈ s := by
  induction s with
  | nil => simp [doubleQuotes] at h
  | cons c s ih =>
    simp only [doubleQuotes] at h
    split at h
    · simp only [List.mem_cons] at h
      rcases h with h | h | h
      · exact Or.inl h
      · exact Or.inl h
      · rcases ih h with h | h
        · exact Or.inl h
        · exact Or.inr (List.mem_cons_of_mem _ h)
    · rcases List.mem_cons.mp h with h | h
      · exact Or.inr (by simp [h])
      · rcases ih h with h | h
        · exact Or.inl h
        · exact Or.inr (List.mem_cons_of_mem _ h)

theorem not_lf_nameToText (qs : Bytes) (n : Bytes) (h : (10 : UInt8) ∉ n) :
    (10 : UInt8) ∉ nameToText qs n := by
  unfold nameToText
  split
  · intro hm
    rcases List.mem_append.mp hm with hm | hm
    · rcases List.mem_cons.mp hm with hm | hm
      · revert hm; decide
      · rcases mem_doubleQuotes hm with hm | hm
        · revert hm; decide
        · exact h hm
    · revert hm; decide
  · intro hm
    obtain ⟨a, ha, he⟩ := List.mem_map.mp hm
    split at he
    · revert he; decide
    · subst he; exact h ha

theorem not_lf_distText (d : Dist) (h : DistClean d) : (10 : UInt8) ∉ distText d := by
  cases d with
  | none => simp [distText]
  | some t =>
    intro hm
    simp only [distText, List.mem_cons] at hm
    rcases hm with hm | hm
    · revert hm; decide
    · have := (h 10 hm).1
      revert this; decide

theorem not_lf_writeForest (qs : Bytes) (f : Forest) (hn : f.AllNames (fun n => (10 : UInt8) ∉ n))
    (hd : f.AllDist DistClean) : (10 : UInt8) ∉ writeForest qs f := by
  induction f with
  | nil => simp [writeForest]
  | cons n d k r ihk ihr =>
    obtain ⟨hn1, hnk, hnr⟩ := hn
    obtain ⟨hd1, hdk, hdr⟩ := hd
    rw [writeForest_cons]
    have hk : (10 : UInt8) ∉ kidsText qs k := by
      cases k with
      | nil => simp [kidsText]
      | cons n1 d1 k1 r1 =>
        rw [kidsText_cons]
        intro hm
        rcases List.mem_cons.mp hm with hm | hm
        · revert hm; decide
        · rcases List.mem_append.mp hm with hm | hm
          · exact ihk hnk hdk hm
          · revert hm; decide
    have hr : (10 : UInt8) ∉ sibText qs r := by
      cases r with
      | nil => simp [sibText]
      | cons n1 d1 k1 r1 =>
        rw [sibText_cons]
        intro hm
        rcases List.mem_cons.mp hm with hm | hm
        · revert hm; decide
        · exact ihr hnr hdr hm
    intro hm
    simp only [List.mem_append] at hm
    rcases hm with hm | hm | hm | hm
    · exact hk hm
    · exact not_lf_nameToText qs n hn1 hm
    · exact not_lf_distText d hd1 hm
    · exact hr hm

/-- A tree whose names are LF-free is written without any LF byte. -/
theorem not_lf_write (qs : Bytes) (t : Tree) (hn : t.AllNames (fun n => (10 : UInt8) ∉ n))
    (hd : t.AllDist DistClean) : (10 : UInt8) ∉ write qs t := by
  unfold write
  intro hm
  rcases List.mem_append.mp hm with hm | hm
  · exact not_lf_writeForest qs (.cons t.name t.dist t.kids .nil) ⟨hn.1, hn.2, trivial⟩
      ⟨hd.1, hd.2, trivial⟩ hm
  · revert hm; decide

end Bio.Newick
