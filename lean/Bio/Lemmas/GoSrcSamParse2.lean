/-
  The SAM line parser of formats/sam translated from the Go source, part 2: under the stated
  hypotheses about `strconv.Atoi`, `strconv.ParseFloat(·, 64)`, `hex.DecodeString` (`AtoiModel`,
  `PFModel`, `HexModel`) the parametrised specifications of part 1 agree with the hand-written model
  `Bio.Sam` (`parseTags`, `parseLine`): same verdict, same integers, and the Go tag map (an association
  list in INSERTION order, `mapSet`) is the same finite map as the model's list sorted by name
  (`tagInsert`): `SameMap`.
-/
import Bio.Lemmas.GoSrcSamParse1
set_option linter.unusedVariables false
namespace Bio.GoSrcLemmas
open Bio Bio.GoRt Bio.Generated
namespace SamP
open BedRd (reqA AtoiModel)

/-! ## The assumed behaviour of the three library functions -/

/-- `strconv.ParseFloat(s, 64)` followed by `FormatFloat(·, 'e', -1, 64)` behaves as the model's float
normaliser `pf` (floats are their canonical texts): the canonical text and no error where `pf`
accepts, an error (any error, any value) where it rejects. -/
structure PFModel (g : Bytes → Int → Bytes × GoErr) (pf : Bytes → Option Bytes) : Prop where
  ok : ∀ s t, pf s = some t → g s 64 = (t, GoErr.nil)
  bad : ∀ s, pf s = none → (g s 64).2 ≠ GoErr.nil

/-- `hex.DecodeString` behaves as the model's `hexDec`. -/
structure HexModel (h : Bytes → Bytes × GoErr) : Prop where
  ok : ∀ s v, hexDec s = some v → h s = (v, GoErr.nil)
  bad : ∀ s, hexDec s = none → (h s).2 ≠ GoErr.nil

/-- a float normaliser as a Go function -/
def pfP (pf : Bytes → Option Bytes) (s : Bytes) (_bits : Int) : Bytes × GoErr :=
  match pf s with
  | some t => (t, GoErr.nil)
  | none => ([], GoErr.other)

/-- the model's `hexDec` as a Go function -/
def hexP (s : Bytes) : Bytes × GoErr :=
  match hexDec s with
  | some v => (v, GoErr.nil)
  | none => ([], GoErr.other)

theorem pfP_model (pf : Bytes → Option Bytes) : PFModel (pfP pf) pf :=
  ⟨fun s t h => by simp [pfP, h], fun s h => by simp [pfP, h]⟩

theorem hexP_model : HexModel hexP :=
  ⟨fun s v h => by simp [hexP, h], fun s h => by simp [hexP, h]⟩

theorem reqP_of_model {g pf} (h : PFModel g pf) : reqP g = pf := by
  funext s
  unfold reqP
  cases ha : pf s with
  | none => simp [h.bad s ha]
  | some v => simp [h.ok s v ha]

theorem reqH_of_model {h} (hh : HexModel h) : reqH h = hexDec := by
  funext s
  unfold reqH
  cases ha : hexDec s with
  | none => simp [hh.bad s ha]
  | some v => simp [hh.ok s v ha]

/-! ## `parseInts` -/

theorem intsSpec_ok {f} (hf : AtoiModel f) (strs : List Bytes) (p vs : List Int) (hl : strs.length = p.length)
    (h : strs.mapM atoi = some vs) : intsSpec f strs p = (GoErr.nil, vs) := by
  induction strs generalizing p vs with
  | nil =>
    cases p with
    | nil => simp at h; subst h; rfl
    | cons x p => simp at hl
  | cons s strs ih =>
    cases p with
    | nil => simp at hl
    | cons x p =>
      simp only [List.mapM_cons, Option.bind_eq_bind, Option.pure_def] at h
      cases ha : atoi s with
      | none => simp [ha] at h
      | some v =>
        cases hm : strs.mapM atoi with
        | none => simp [ha, hm] at h
        | some vs' =>
          simp [ha, hm] at h
          subst h
          simp [intsSpec, hf.ok s v ha, ih p vs' (by simpa using hl) hm]

theorem intsSpec_bad {f} (hf : AtoiModel f) (strs : List Bytes) (p vs : List Int) (i : Nat) (s : Bytes)
    (hl : strs.length = p.length) (hpre : (strs.take i).mapM atoi = some vs) (hs : strs[i]? = some s)
    (hbad : atoi s = none) :
    intsSpec f strs p = ((f s).2, vs ++ p.drop i) ∧ (f s).2 ≠ GoErr.nil := by
  refine ⟨?_, hf.bad s hbad⟩
  induction strs generalizing p vs i with
  | nil => simp at hs
  | cons s0 strs ih =>
    cases p with
    | nil => simp at hl
    | cons x p =>
      cases i with
      | zero =>
        simp at hs hpre
        subst hs; subst hpre
        simp [intsSpec, hf.bad s0 hbad]
      | succ i =>
        simp only [List.take_succ_cons, List.mapM_cons, Option.bind_eq_bind, Option.pure_def] at hpre
        simp only [List.getElem?_cons_succ] at hs
        cases ha : atoi s0 with
        | none => simp [ha] at hpre
        | some v =>
          cases hm : (strs.take i).mapM atoi with
          | none => simp [ha, hm] at hpre
          | some vs' =>
            simp [ha, hm] at hpre
            subst hpre
            simp [intsSpec, hf.ok s0 v ha, ih p vs' i (by simpa using hl) hm hs]

/-! ## The Go map (insertion order) and the model's sorted list -/

/-- `r` (the Go map: an association list in insertion order) and `m` (the model's list) are the same
finite map: same lookups, the keys of `r` are distinct, and `r` is a permutation of `m`. -/
def SameMap (r m : Sam.Tags) : Prop :=
  (∀ name, (r.find? (·.1 == name)).map (·.2) = (m.find? (·.1 == name)).map (·.2))
  ∧ r.Pairwise (fun a b => a.1 ≠ b.1)
  ∧ r.Perm m

theorem find_of_mem_distinct {l : Sam.Tags} (hd : Sam.DistinctTags l) {x : Bytes × Sam.TagVal} (hx : x ∈ l) :
    l.find? (·.1 == x.1) = some x := by
  induction l with
  | nil => simp at hx
  | cons e rest ih =>
    unfold Sam.DistinctTags at hd
    rw [List.pairwise_cons] at hd
    rcases List.mem_cons.1 hx with rfl | hm
    · simp
    · have hne : e.1 ≠ x.1 := hd.1 x hm
      rw [List.find?_cons_of_neg (by simpa using hne)]
      exact ih hd.2 hm

theorem find_perm_distinct {l l' : Sam.Tags} (hd : Sam.DistinctTags l) (hp : l.Perm l') (name : Bytes) :
    l.find? (·.1 == name) = l'.find? (·.1 == name) := by
  have hd' := hd.perm hp
  cases h : l.find? (·.1 == name) with
  | none =>
    rw [List.find?_eq_none] at h
    symm
    rw [List.find?_eq_none]
    intro x hx
    exact h x (hp.mem_iff.2 hx)
  | some x =>
    have hx := List.mem_of_find?_eq_some h
    have hn : x.1 = name := by simpa using List.find?_some h
    subst hn
    exact (find_of_mem_distinct hd' (hp.mem_iff.1 hx)).symm

theorem sameMap_of_perm_sorted {r m : Sam.Tags} (hp : r.Perm m) (hs : Sam.SortedTags m) : SameMap r m := by
  have hd : Sam.DistinctTags r := hs.distinct.perm hp.symm
  exact ⟨fun name => by rw [find_perm_distinct hd hp name], hd, hp⟩

/-- general insertion into the sorted list: the entry with the key, if any, is replaced -/
theorem tagInsert_general (k : Bytes) (v : Sam.TagVal) (m : Sam.Tags) (hs : Sam.SortedTags m) :
    Sam.SortedTags (Sam.tagInsert k v m)
      ∧ (Sam.tagInsert k v m).Perm ((k, v) :: m.filter (fun e => e.1 != k)) := by
  induction m with
  | nil => exact ⟨by simp [Sam.tagInsert, Sam.SortedTags], List.Perm.refl _⟩
  | cons q rest ih =>
    obtain ⟨k', v'⟩ := q
    unfold Sam.SortedTags at hs ih ⊢
    rw [List.pairwise_cons] at hs
    have hrest_ne : ∀ z ∈ rest, k' ≠ z.1 := fun z hz => bytesLt_ne (hs.1 z hz)
    rw [Sam.tagInsert]
    by_cases hk : k = k'
    · subst hk
      rw [if_pos rfl]
      refine ⟨List.pairwise_cons.2 ⟨hs.1, hs.2⟩, ?_⟩
      have hf : rest.filter (fun e => e.1 != k) = rest :=
        List.filter_eq_self.2 (fun z hz => by simpa using Ne.symm (hrest_ne z hz))
      simp [hf]
    · rw [if_neg hk]
      by_cases hlt : bytesLt k k' = true
      · rw [if_pos hlt]
        refine ⟨?_, ?_⟩
        · rw [List.pairwise_cons]
          refine ⟨?_, List.pairwise_cons.2 hs⟩
          intro z hz
          rcases List.mem_cons.1 hz with e | hm
          · subst e; exact hlt
          · exact bytesLt_trans hlt (hs.1 z hm)
        · have hf : ((k', v') :: rest).filter (fun e => e.1 != k) = (k', v') :: rest := by
            apply List.filter_eq_self.2
            intro z hz
            rcases List.mem_cons.1 hz with e | hm
            · subst e; simpa using Ne.symm hk
            · simpa using Ne.symm (bytesLt_ne (bytesLt_trans hlt (hs.1 z hm)))
          rw [hf]
      · rw [if_neg hlt]
        have hgt : bytesLt k' k = true := bytesLt_of_ne_of_not_lt hk (by simpa using hlt)
        obtain ⟨ih1, ih2⟩ := ih hs.2
        have hk' : ((k', v').1 != k) = true := by simpa using Ne.symm hk
        refine ⟨?_, ?_⟩
        · rw [List.pairwise_cons]
          refine ⟨?_, ih1⟩
          intro z hz
          rcases List.mem_cons.1 (ih2.mem_iff.1 hz) with e | hm
          · subst e; exact hgt
          · exact hs.1 z (List.mem_filter.1 hm).1
        · have hf : ((k', v') :: rest).filter (fun e => e.1 != k) = (k', v') :: rest.filter (fun e => e.1 != k) :=
            List.filter_cons_of_pos hk'
          rw [hf]
          exact (List.Perm.cons _ ih2).trans (List.Perm.swap _ _ _)

theorem mapRepl_perm (k : Bytes) (v : Sam.TagVal) (r : Sam.Tags) (hd : Sam.DistinctTags r)
    (ha : r.any (fun e => e.1 == k) = true) :
    (r.map fun e => if e.1 == k then (k, v) else e).Perm ((k, v) :: r.filter (fun e => e.1 != k)) := by
  induction r with
  | nil => simp at ha
  | cons e rest ih =>
    unfold Sam.DistinctTags at hd ih
    rw [List.pairwise_cons] at hd
    by_cases he : e.1 = k
    · have hb : (e.1 == k) = true := by simpa using he
      have hf : rest.filter (fun z => z.1 != k) = rest :=
        List.filter_eq_self.2 (fun z hz => by have := hd.1 z hz; rw [he] at this; simpa using Ne.symm this)
      have hm : (rest.map fun z => if z.1 == k then (k, v) else z) = rest := by
        conv => rhs; rw [← List.map_id rest]
        apply List.map_congr_left
        intro z hz
        have := hd.1 z hz; rw [he] at this
        have : (z.1 == k) = false := by simpa using Ne.symm this
        simp [this]
      simp only [List.map_cons, hb, if_true, hm]
      have hf2 : (e :: rest).filter (fun e => e.1 != k) = rest.filter (fun e => e.1 != k) :=
        List.filter_cons_of_neg (by simp [he])
      rw [hf2, hf]
    · have hb : (e.1 == k) = false := by simpa using he
      have ha' : rest.any (fun e => e.1 == k) = true := by simpa [hb] using ha
      have := ih hd.2 ha'
      simp only [List.map_cons, hb, Bool.false_eq_true, if_false]
      have hf : (e :: rest).filter (fun e => e.1 != k) = e :: rest.filter (fun e => e.1 != k) :=
        List.filter_cons_of_pos (by simpa using he)
      rw [hf]
      exact (List.Perm.cons _ this).trans (List.Perm.swap _ _ _)

/-- `m[k] = v` on the association list: the entry with the key, if any, is replaced -/
theorem mapSet_general (k : Bytes) (v : Sam.TagVal) (r : Sam.Tags) (hd : Sam.DistinctTags r) :
    (mapSet r k v).Perm ((k, v) :: r.filter (fun e => e.1 != k)) := by
  unfold mapSet
  by_cases ha : r.any (fun e => e.1 == k) = true
  · rw [if_pos ha]; exact mapRepl_perm k v r hd ha
  · rw [if_neg ha]
    have hf : r.filter (fun e => e.1 != k) = r := by
      apply List.filter_eq_self.2
      intro z hz
      simp only [List.any_eq_true, not_exists, not_and] at ha
      simpa using ha z hz
    rw [hf]
    exact List.perm_append_comm

/-- one insertion on both sides keeps "permutation of the sorted list" -/
theorem mapSet_tagInsert (k : Bytes) (v : Sam.TagVal) {r m : Sam.Tags} (hp : r.Perm m) (hs : Sam.SortedTags m) :
    (mapSet r k v).Perm (Sam.tagInsert k v m) ∧ Sam.SortedTags (Sam.tagInsert k v m) := by
  obtain ⟨h1, h2⟩ := tagInsert_general k v m hs
  have hd : Sam.DistinctTags r := hs.distinct.perm hp.symm
  exact ⟨(mapSet_general k v r hd).trans ((List.Perm.cons _ (hp.filter _)).trans h2.symm), h1⟩

/-- the insertion-order parser and the model's parser: same verdict, and the results are the same map -/
theorem tagsSpec_model (pf : Bytes → Option Bytes) (vs : List Bytes) (r m : Sam.Tags)
    (hp : r.Perm m) (hs : Sam.SortedTags m) :
    match Sam.parseTags pf vs m with
    | none => tagsSpec atoi pf hexDec vs r = none
    | some m' => ∃ r', tagsSpec atoi pf hexDec vs r = some r' ∧ r'.Perm m' ∧ Sam.SortedTags m' := by
  induction vs generalizing r m with
  | nil => exact ⟨r, rfl, hp, hs⟩
  | cons fld rest ih =>
    rw [Sam.parseTags, tagsSpec, tagStep, tagValSpec_model]
    cases Sam.splitTag fld with
    | none => rfl
    | some t =>
      obtain ⟨n, ty, v⟩ := t
      dsimp only
      cases Sam.parseTagVal pf ty v with
      | none => rfl
      | some tv =>
        obtain ⟨h1, h2⟩ := mapSet_tagInsert n tv hp hs
        exact ih _ _ h1 h2

theorem tagsSpec_of_models {h f g pf} (hf : AtoiModel f) (hg : PFModel g pf) (hh : HexModel h) :
    tagsSpec (reqA f) (reqP g) (reqH h) = tagsSpec atoi pf hexDec := by
  rw [BedRd.reqA_of_model hf, reqP_of_model hg, reqH_of_model hh]

/-- `parseTags` under the three hypotheses, against the model started from the empty map -/
theorem tagsSpec_model_nil (pf : Bytes → Option Bytes) (vs : List Bytes) :
    match Sam.parseTags pf vs [] with
    | none => tagsSpec atoi pf hexDec vs [] = none
    | some m => ∃ r, tagsSpec atoi pf hexDec vs [] = some r ∧ r.Perm m ∧ Sam.SortedTags m :=
  tagsSpec_model pf vs [] [] (List.Perm.refl _) List.Pairwise.nil

/-! ## The tag texts depend on the finite map only -/

theorem sortBytes_eq_of_perm {l l' : List Bytes} (h : l.Perm l') : sortBytes l = sortBytes l' := by
  apply List.Perm.eq_of_pairwise (le := fun a b => bytesLe a b = true)
  · intro a b _ _ hab hba; exact bytesLe_antisymm hab hba
  · exact sortBytes_sorted l
  · exact sortBytes_sorted l'
  · exact (sortBytes_perm l).trans (h.trans (sortBytes_perm l').symm)

theorem tagsToText_perm {r m : Sam.Tags} (h : r.Perm m) : Sam.tagsToText r = Sam.tagsToText m :=
  sortBytes_eq_of_perm (h.map _)

/-! ## `parseLine` -/

theorem lineSpec_model {h f g pf} (hf : AtoiModel f) (hg : PFModel g pf) (hh : HexModel h) (line : List Bytes) :
    match Sam.parseLine pf line with
    | some s => ∃ r, lineSpec h f g line = (some (tupleOf s r), GoErr.nil) ∧ r.Perm s.tags ∧ Sam.SortedTags s.tags
    | none => ∃ e, e ≠ GoErr.nil ∧ lineSpec h f g line = (none, e) := by
  by_cases hn : line.length < 11
  · rw [Sam.parseLine_too_few pf line hn]
    refine ⟨GoErr.other, by decide, ?_⟩
    unfold lineSpec
    split
    · simp at hn; omega
    · rfl
  · rcases line with _ | ⟨qn, _ | ⟨fl, _ | ⟨rn, _ | ⟨po, _ | ⟨mq, _ | ⟨cg, _ | ⟨rx, _ | ⟨pn, _ | ⟨tl, _ | ⟨sq, _ | ⟨ql, tagFields⟩⟩⟩⟩⟩⟩⟩⟩⟩⟩⟩ <;>
      try (simp at hn; done)
    unfold Sam.parseLine lineSpec
    simp only
    rw [tagsSpec_of_models hf hg hh]
    cases h1 : atoi fl with
    | none => exact ⟨(f fl).2, hf.bad fl h1, by simp [intsSpec, hf.bad fl h1]⟩
    | some v1 =>
    cases h2 : atoi po with
    | none => exact ⟨(f po).2, hf.bad po h2, by simp [intsSpec, hf.ok fl v1 h1, hf.bad po h2]⟩
    | some v2 =>
    cases h3 : atoi mq with
    | none => exact ⟨(f mq).2, hf.bad mq h3, by simp [intsSpec, hf.ok fl v1 h1, hf.ok po v2 h2, hf.bad mq h3]⟩
    | some v3 =>
    cases h4 : atoi pn with
    | none =>
      exact ⟨(f pn).2, hf.bad pn h4, by
        simp [intsSpec, hf.ok fl v1 h1, hf.ok po v2 h2, hf.ok mq v3 h3, hf.bad pn h4]⟩
    | some v4 =>
    cases h5 : atoi tl with
    | none =>
      exact ⟨(f tl).2, hf.bad tl h5, by
        simp [intsSpec, hf.ok fl v1 h1, hf.ok po v2 h2, hf.ok mq v3 h3, hf.ok pn v4 h4, hf.bad tl h5]⟩
    | some v5 =>
      have hi : intsSpec f [fl, po, mq, pn, tl] [0, 0, 0, 0, 0] = (GoErr.nil, [v1, v2, v3, v4, v5]) := by
        simp [intsSpec, hf.ok fl v1 h1, hf.ok po v2 h2, hf.ok mq v3 h3, hf.ok pn v4 h4, hf.ok tl v5 h5]
      simp only [hi, ne_eq, not_true_eq_false, if_false]
      have ht := tagsSpec_model_nil pf tagFields
      cases hm : Sam.parseTags pf tagFields [] with
      | none =>
        rw [hm] at ht
        simp only at ht
        rw [ht]
        exact ⟨GoErr.other, by decide, rfl⟩
      | some m =>
        rw [hm] at ht
        obtain ⟨r, hr, hp, hs⟩ := ht
        rw [hr]
        exact ⟨r, rfl, hp, hs⟩

end SamP
end Bio.GoSrcLemmas
