/-
  `Add` of mash/mash.go, translated from the SOURCE TEXT of /repo on every run into
  `Bio.Generated.GoSrc.mash_Add` (the external sketch object is an abstract state `σ` whose
  methods `Push`/`Sort`, the murmur3 hasher and `bytes.ToUpper` are PARAMETERS), is — for
  arbitrary parameters — "push the hashes of the canonical k-mers of the upper-cased sequences,
  in order, then sort"; with the parameters of the hand-written model it is `Mash.addTo`.
  Guarded by the translator's `<f>_Found` flags (see `Bio.Lemmas.GoSrc`).
-/
import Bio.Lemmas.GoSrc
import Bio.Model.Mash
set_option linter.unusedVariables false
namespace Bio.GoSrcLemmas
open Bio Bio.GoRt Bio.Generated

/-- All canonical k-mers of all sequences after `up` (= `bytes.ToUpper`, a parameter), in push
order; `none` = panic (some sequence has a base the complement table rejects). -/
def kmersWith (tbl : List UInt8) (up : Bytes → Bytes) (k : Nat) : List Bytes → Option (List Bytes)
  | [] => some []
  | s :: rest =>
    match Sequtil.canonical tbl (up s) k, kmersWith tbl up k rest with
    | some a, some b => some (a ++ b)
    | _, _ => none

theorem kmersWith_cons (tbl : List UInt8) (up : Bytes → Bytes) (k : Nat) (s : Bytes) (rest : List Bytes) :
    kmersWith tbl up k (s :: rest) =
      (Sequtil.canonical tbl (up s) k).bind fun a => (kmersWith tbl up k rest).map fun b => a ++ b := by
  rw [kmersWith]
  cases Sequtil.canonical tbl (up s) k <;> cases kmersWith tbl up k rest <;> rfl

/-- With the model's `ToUpper` it is the model's `kmers`. -/
theorem kmersWith_upper (tbl : List UInt8) (k : Nat) : ∀ seqs : List Bytes,
    kmersWith tbl Mash.upper k seqs = Mash.kmers tbl k seqs
  | [] => rfl
  | s :: rest => by rw [kmersWith_cons, Mash.kmers_cons, kmersWith_upper tbl k rest]

theorem kmersWith_append (tbl : List UInt8) (up : Bytes → Bytes) (k : Nat) : ∀ (xs ys : List Bytes),
    kmersWith tbl up k (xs ++ ys) =
      (kmersWith tbl up k xs).bind fun a => (kmersWith tbl up k ys).map fun b => a ++ b
  | [], ys => by simp [kmersWith]
  | x :: xs, ys => by
    rw [List.cons_append, kmersWith_cons, kmersWith_cons, kmersWith_append tbl up k xs ys]
    cases Sequtil.canonical tbl (up x) k <;> cases kmersWith tbl up k xs <;>
      cases kmersWith tbl up k ys <;> simp

theorem kmersWith_eq_none_iff (tbl : List UInt8) (up : Bytes → Bytes) (k : Nat) : ∀ (seqs : List Bytes),
    kmersWith tbl up k seqs = none ↔ ∃ s ∈ seqs, Sequtil.canonical tbl (up s) k = none
  | [] => by simp [kmersWith]
  | x :: xs => by
    rw [kmersWith_cons]
    have ih := kmersWith_eq_none_iff tbl up k xs
    cases hx : Sequtil.canonical tbl (up x) k <;> cases hk : kmersWith tbl up k xs <;>
      simp [hx, hk] at ih ⊢ <;> grind

/-- Only the upper-cased sequences matter. -/
theorem kmersWith_congr_up (tbl : List UInt8) (up : Bytes → Bytes) (k : Nat) : ∀ {xs ys : List Bytes},
    xs.map up = ys.map up → kmersWith tbl up k xs = kmersWith tbl up k ys
  | [], [], _ => rfl
  | [], _ :: _, h => by simp at h
  | _ :: _, [], h => by simp at h
  | x :: xs, y :: ys, h => by
    simp only [List.map_cons, List.cons.injEq] at h
    rw [kmersWith_cons, kmersWith_cons, h.1, kmersWith_congr_up tbl up k h.2]

theorem mapM_eq_none_iff {α β : Type} (f : α → Option β) : ∀ (l : List α),
    l.mapM f = none ↔ ∃ a ∈ l, f a = none
  | [] => by simp
  | a :: l => by
    have ih := mapM_eq_none_iff f l
    rw [List.mapM_cons]
    cases hfa : f a with
    | none => simp [hfa]
    | some b =>
      cases hl : l.mapM f with
      | none => rw [hl] at ih; simpa [hfa] using ih
      | some r => rw [hl] at ih; simpa [hfa] using ih

/-- The iterator panics exactly on a base the complement table rejects — whatever `k : Nat` is
(`k = 0` and `k > len(seq) + 1` included: then there are `len+1`, resp. no, items). -/
theorem canonical_eq_none_iff (tbl : List UInt8) (s : Bytes) (k : Nat) :
    Sequtil.canonical tbl s k = none ↔ ∃ b ∈ s, Sequtil.comp tbl b = none := by
  unfold Sequtil.canonical Sequtil.canonicalLog
  have h : Sequtil.revComp tbl [] s = none ↔ ∃ b ∈ s, Sequtil.comp tbl b = none := by
    unfold Sequtil.revComp
    rw [Option.map_eq_none_iff, mapM_eq_none_iff]
    simp only [List.mem_reverse]
  cases hr : Sequtil.revComp tbl [] s with
  | none => rw [hr] at h; simpa using h
  | some r => rw [hr] at h; simpa using h

private theorem takeThroughH_true' {α : Type} (L : List α) :
    ∀ acc, takeThroughH (fun _ : List α => true) acc L = acc ++ L := by
  induction L with
  | nil => intro acc; simp [takeThroughH]
  | cons x xs ih => intro acc; simp [takeThroughH, ih]

private theorem takeThroughH_true_fun {α : Type} :
    takeThroughH (fun _ : List α => true) [] = fun L => L := by
  funext L; simpa using takeThroughH_true' L []

/-- the loop `for b := range …{ h.Reset(); h.Write(b); mh.Push(h.Sum64()) }` -/
theorem mash_inner {σ : Type} (g : Bytes → UInt64) (push : σ → UInt64 → σ) : ∀ (L : List Bytes) (mh : σ) (h : Bytes),
    (forIn L (mh, h) fun b (s : σ × Bytes) =>
        some (ForInStep.yield (push s.fst (g ([] ++ b)), [] ++ b))).map Prod.fst
      = some ((L.map g).foldl push mh) := by
  intro L
  induction L with
  | nil => intro mh h; rfl
  | cons b L ih =>
    intro mh h
    simp only [List.forIn_cons, Option.bind_eq_bind, Option.bind_some, List.map_cons, List.foldl_cons,
      List.nil_append]
    simpa using ih (push mh (g b)) b

/-- the loop over the sequences, for any body that is the `CanonicalSubsequences` of the model
followed by the push loop -/
theorem mash_outer {σ : Type} (tbl : List UInt8) (up : Bytes → Bytes) (g : Bytes → UInt64)
    (push : σ → UInt64 → σ) (k : Nat) : ∀ (seqs : List Bytes) (mh : σ) (h : Bytes),
    (forIn seqs (mh, h) fun seq (s : σ × Bytes) =>
        (Sequtil.canonical tbl (up seq) k).bind fun tmp_1 =>
          (forIn tmp_1 (s.fst, s.snd) fun b (s : σ × Bytes) =>
              some (ForInStep.yield (push s.fst (g ([] ++ b)), [] ++ b))).bind
            fun s => some (ForInStep.yield (s.fst, s.snd))).map Prod.fst
      = (kmersWith tbl up k seqs).map fun ks => (ks.map g).foldl push mh := by
  intro seqs
  induction seqs with
  | nil => intro mh h; rfl
  | cons x xs ih =>
    intro mh h
    rw [kmersWith_cons]
    simp only [List.forIn_cons, Option.bind_eq_bind]
    cases hx : Sequtil.canonical tbl (up x) k with
    | none => rfl
    | some a =>
      simp only [Option.bind_some]
      have hin := mash_inner g push a mh h
      cases hf : (forIn a (mh, h) fun b (s : σ × Bytes) =>
          some (ForInStep.yield (push s.fst (g ([] ++ b)), [] ++ b))) with
      | none => rw [hf] at hin; cases hin
      | some st =>
        rw [hf] at hin
        simp only [Option.map_some, Option.some.injEq] at hin
        simp only [Option.bind_some]
        have := ih st.fst st.snd
        rw [this, hin]
        cases kmersWith tbl up k xs <;> simp [List.foldl_append]

/-- The translated `Add`, for ARBITRARY parameters: the hashes (under the package seed) of the
canonical k-mers of the `ToUpper`ed sequences are pushed in order, then `Sort`; `none` = panic. -/
theorem mash_Add_eq (hF : GoSrc.mash_Add_Found = true) (hI : GoSrc.CanonicalSubsequences_Found = true)
    (hR : GoSrc.ReverseComplement_Found = true) (hC : GoSrc.complementByte_Found = true)
    {σ : Type} (seed : UInt32) (tbl : List UInt8) (up : Bytes → Bytes) (hash : UInt32 → Bytes → UInt64)
    (push : σ → UInt64 → σ) (sort : σ → σ) (mh : σ) (k : Nat) (seqs : List Bytes) :
    GoSrc.mash_Add seed tbl up hash push sort mh (k : Int) seqs
      = (kmersWith tbl up k seqs).map fun ks => sort ((ks.map (hash seed)).foldl push mh) := by
  first
  | exact absurd hF (by decide)
  | (unfold GoSrc.mash_Add
     simp only [Option.pure_def, Option.bind_eq_bind, CanonicalSubsequences_hist hI hR hC,
       takeThroughH_true_fun, List.nil_append, Option.map_id']
     have key := mash_outer tbl up (hash seed) push k seqs mh []
     simp only [List.nil_append] at key
     generalize (forIn seqs (mh, ([] : Bytes)) _ : Option (σ × Bytes)) = X at key ⊢
     have e : (kmersWith tbl up k seqs).map (fun ks => sort ((ks.map (hash seed)).foldl push mh))
         = ((kmersWith tbl up k seqs).map fun ks => (ks.map (hash seed)).foldl push mh).map sort := by
       rw [Option.map_map]; rfl
     rw [e, ← key]
     cases X <;> rfl)

/-- The fold of the model's `push` over `UInt64` hashes is the fold over their `Nat` values. -/
theorem foldl_push_ofNat (h : Bytes → Nat) (hb : ∀ b, h b < 2 ^ 64) (n : Nat) : ∀ (ks : List Bytes) (s : List Nat),
    (ks.map fun b => UInt64.ofNat (h b)).foldl (fun s x => Mash.push n s x.toNat) s
      = (ks.map h).foldl (Mash.push n) s
  | [], _ => rfl
  | b :: ks, s => by
    simp only [List.map_cons, List.foldl_cons]
    rw [UInt64.toNat_ofNat_of_lt' (hb b)]
    exact foldl_push_ofNat h hb n ks _

/-- Sorting in between does not matter when `Sort` is idempotent and `Push` cannot tell (after the
next `Sort`) whether the object was sorted. -/
theorem sort_foldl_sort {σ : Type} (push : σ → UInt64 → σ) (sort : σ → σ)
    (h1 : ∀ s, sort (sort s) = sort s) (h2 : ∀ s x, sort (push (sort s) x) = sort (push s x)) :
    ∀ (L : List UInt64) (a : σ), sort (L.foldl push (sort a)) = sort (L.foldl push a) := by
  have step : ∀ (u v : σ) (x : UInt64), sort u = sort v → sort (push u x) = sort (push v x) := by
    intro u v x e
    rw [← h2 u, e, h2 v]
  have gen : ∀ (L : List UInt64) (u v : σ), sort u = sort v → sort (L.foldl push u) = sort (L.foldl push v) := by
    intro L
    induction L with
    | nil => intro u v e; exact e
    | cons x L ih => intro u v e; exact ih _ _ (step u v x e)
  intro L a
  exact gen L _ _ (h1 a)

end Bio.GoSrcLemmas
