/-
  Generic lemmas for the shipped substitution matrices (`Bio/Generated/Tables.lean`,
  regenerated from the running Go code): an association list whose key column is
  "all pairs over an alphabet `s`, row-major" is a square matrix given by rows; a
  linear-time executable check (`tableCheck`) of key column, layout, symmetry and the
  gap-open entry, with its soundness theorem.  Nothing here mentions a concrete table;
  `Bio/Props/C09Tables.lean` runs the check on each generated table by `decide +kernel`.

  Why not check `∀ x y ∈ alphabet, lookup T x y = lookup T y x` directly by `decide`:
  that is 576 look-ups of average length 288 per table, ≈ 35 s per table in the kernel
  (measured); the structured check below is a few seconds for all six.
-/
import Bio.Lemmas.Align
namespace Bio.Tables
open Bio.Align

abbrev Table := List ((UInt8 × UInt8) × Int)

/-! ## Association-list facts -/

theorem lookup_cons_eq (a k : UInt8) (b : β) (as : List (UInt8 × β)) :
    ((k, b) :: as).lookup a = if a = k then some b else as.lookup a := by
  rw [List.lookup_cons]
  by_cases h : a = k
  · simp [h]
  · have : (a == k) = false := by simpa using h
    rw [this]; simp [h]

theorem lookup_zip_map (f : α → β) (s : List UInt8) (R : List α) (x : UInt8) :
    (s.zip (R.map f)).lookup x = ((s.zip R).lookup x).map f := by
  induction s generalizing R with
  | nil => simp
  | cons a s ih =>
    cases R with
    | nil => simp
    | cons r R =>
      simp only [List.map_cons, List.zip_cons_cons, lookup_cons_eq]
      by_cases h : x = a <;> simp [h, ih]

/-- Row/column matrix view: alphabet `s`, rows `R`. -/
def mlookup (s : List UInt8) (R : List (List Int)) (x y : UInt8) : Option Int :=
  ((s.zip R).lookup x).bind fun r => (s.zip r).lookup y

/-- Linear-time symmetry check of a square matrix given by rows: the rest of the first
row equals the rest of the first column, and the remaining minor is symmetric. -/
def symRec : Nat → List (List Int) → Bool
  | 0, R => R.isEmpty
  | _ + 1, [] => true
  | _ + 1, [] :: _ => false
  | n + 1, (_ :: r) :: R' => (r.map some == R'.map List.head?) && symRec n (R'.map List.tail)

theorem mlookup_cons (a : UInt8) (s : List UInt8) (d : Int) (r : List Int) (R : List (List Int))
    (x y : UInt8) :
    mlookup (a :: s) ((d :: r) :: R) x y =
      if x = a then (if y = a then some d else (s.zip r).lookup y)
      else if y = a then ((s.zip R).lookup x).bind List.head?
      else mlookup s (R.map List.tail) x y := by
  unfold mlookup
  simp only [List.zip_cons_cons, lookup_cons_eq]
  by_cases hx : x = a
  · simp [hx, lookup_cons_eq]
  · simp only [hx, if_false]
    rw [lookup_zip_map]
    cases (s.zip R).lookup x with
    | none => simp
    | some row =>
      cases row with
      | nil => simp
      | cons h t => by_cases hy : y = a <;> simp [hy, lookup_cons_eq]

theorem symRec_sound (n : Nat) (R : List (List Int)) (h : symRec n R = true) (s : List UInt8)
    (x y : UInt8) : mlookup s R x y = mlookup s R y x := by
  induction n generalizing R s with
  | zero =>
    simp only [symRec, List.isEmpty_iff] at h
    subst h; simp [mlookup]
  | succ n ih =>
    match R, h with
    | [], _ => simp [mlookup]
    | (d :: r) :: R', h =>
      simp only [symRec, Bool.and_eq_true, beq_iff_eq] at h
      obtain ⟨hcol, hrec⟩ := h
      cases s with
      | nil => simp [mlookup]
      | cons a s =>
        have hB : ∀ z, (s.zip r).lookup z = ((s.zip R').lookup z).bind List.head? := by
          intro z
          have h1 := lookup_zip_map some s r z
          have h2 := lookup_zip_map List.head? s R' z
          rw [hcol, h2] at h1
          cases hr : (s.zip r).lookup z <;> cases hR : (s.zip R').lookup z <;>
            simp_all
        rw [mlookup_cons, mlookup_cons]
        by_cases hx : x = a <;> by_cases hy : y = a
        · simp [hx, hy]
        · simp [hx, hy, hB]
        · simp [hx, hy, hB]
        · simp only [hx, hy, if_false]
          exact ih _ hrec s


/-! ## A table laid out row by row -/

/-- Entries of the row of `x`. -/
def rowEntries (s : List UInt8) (x : UInt8) (r : List Int) : Table :=
  (s.zip r).map fun p => ((x, p.1), p.2)

/-- The association list of the matrix with rows `P` (row label, row values), columns `s`. -/
def build (s : List UInt8) (P : List (UInt8 × List Int)) : Table :=
  P.flatMap fun p => rowEntries s p.1 p.2

theorem lookup_append (A B : Table) (x y : UInt8) :
    lookup (A ++ B) x y = (lookup A x y).or (lookup B x y) := by
  unfold lookup
  rw [List.find?_append]
  cases List.find? (fun e => e.1 == (x, y)) A <;> simp

theorem lookup_rowEntries_aux (q : List (UInt8 × Int)) (x0 x y : UInt8) :
    lookup (q.map fun p => ((x0, p.1), p.2)) x y = if x = x0 then q.lookup y else none := by
  induction q with
  | nil => simp [lookup]
  | cons p q ih =>
    obtain ⟨k, v⟩ := p
    unfold lookup at ih ⊢
    rw [List.map_cons, List.find?_cons, lookup_cons_eq]
    by_cases hx : x = x0
    · subst hx
      by_cases hy : y = k
      · subst hy; simp
      · have : (((x, k), v).1 == (x, y)) = false := by
          simp only [beq_eq_false_iff_ne, ne_eq, Prod.mk.injEq, true_and]
          exact fun e => hy e.symm
        rw [this]; simp only [hy, if_false]
        simpa using ih
    · have : (((x0, k), v).1 == (x, y)) = false := by
        simp only [beq_eq_false_iff_ne, ne_eq, Prod.mk.injEq, not_and]
        exact fun e => absurd e.symm hx
      rw [this]
      simpa [hx] using ih

theorem lookup_rowEntries (s : List UInt8) (r : List Int) (x0 x y : UInt8) :
    lookup (rowEntries s x0 r) x y = if x = x0 then (s.zip r).lookup y else none :=
  lookup_rowEntries_aux _ x0 x y

theorem lookup_build (s : List UInt8) (P : List (UInt8 × List Int)) (hP : (P.map Prod.fst).Nodup)
    (x y : UInt8) :
    lookup (build s P) x y = (P.lookup x).bind fun r => (s.zip r).lookup y := by
  induction P with
  | nil => simp [build, lookup]
  | cons p P ih =>
    obtain ⟨x0, r0⟩ := p
    rw [List.map_cons, List.nodup_cons] at hP
    have ih := ih hP.2
    have hb : build s ((x0, r0) :: P) = rowEntries s x0 r0 ++ build s P := by
      simp [build]
    rw [hb, lookup_append, lookup_rowEntries, lookup_cons_eq, ih]
    by_cases hx : x = x0
    · subst hx
      have : P.lookup x = none := by
        rw [List.lookup_eq_none_iff]
        intro p hp
        simp only [bne_iff_ne, ne_eq]
        intro e
        exact hP.1 (List.mem_map.2 ⟨p, hp, e.symm⟩)
      simp [this]
    · simp [hx]

theorem map_fst_zip_sublist (s : List α) (R : List β) : ((s.zip R).map Prod.fst).Sublist s := by
  induction s generalizing R with
  | nil => simp
  | cons a s ih =>
    cases R with
    | nil => simp
    | cons r R => simpa using ih R

theorem lookup_build_zip (s : List UInt8) (hs : s.Nodup) (R : List (List Int)) (x y : UInt8) :
    lookup (build s (s.zip R)) x y = mlookup s R x y :=
  lookup_build s _ ((map_fst_zip_sublist s R).nodup hs) x y

/-! ## The expected key list -/

/-- All pairs over `s`, row-major. -/
def expectedKeys (s : List UInt8) : List (UInt8 × UInt8) :=
  s.flatMap fun x => s.map fun y => (x, y)

theorem mem_expectedKeys (s : List UInt8) (x y : UInt8) :
    (x, y) ∈ expectedKeys s ↔ x ∈ s ∧ y ∈ s := by
  simp [expectedKeys]

theorem length_expectedKeys (s : List UInt8) : (expectedKeys s).length = s.length * s.length := by
  simp [expectedKeys, List.length_flatMap, List.map_const', List.sum_replicate_nat]

theorem nodup_expectedKeys (s : List UInt8) (hs : s.Nodup) : (expectedKeys s).Nodup := by
  unfold expectedKeys
  rw [List.nodup_iff_pairwise_ne, List.pairwise_flatMap]
  constructor
  · intro a _
    rw [List.pairwise_map]
    exact hs.imp fun h e => h (by simpa using e)
  · exact hs.imp fun h p hp q hq e => by
      simp only [List.mem_map] at hp hq
      obtain ⟨_, _, rfl⟩ := hp
      obtain ⟨_, _, rfl⟩ := hq
      exact h (Prod.mk.inj e).1

theorem lookup_isSome_of_key_mem (T : Table) (x y : UInt8) (h : (x, y) ∈ T.map (·.1)) :
    (lookup T x y).isSome := by
  obtain ⟨e, he, hk⟩ := List.mem_map.1 h
  unfold lookup
  rw [Option.isSome_map, List.find?_isSome]
  exact ⟨e, he, by simp [hk]⟩

theorem lookup_isSome_iff (T : Table) (x y : UInt8) :
    (lookup T x y).isSome ↔ (x, y) ∈ T.map (·.1) := by
  refine ⟨fun h => ?_, lookup_isSome_of_key_mem T x y⟩
  unfold lookup at h
  rw [Option.isSome_map, List.find?_isSome] at h
  obtain ⟨e, he, hk⟩ := h
  exact List.mem_map.2 ⟨e, he, by simpa using hk⟩


/-! ## The executable check of one shipped table -/

/-- Cut `l` into consecutive pieces of length `n` (fuel-bounded, structurally recursive so the
kernel evaluates it; no property of this function is needed for soundness). -/
def chunkAux (n : Nat) : Nat → List Int → List (List Int)
  | 0, _ => []
  | fuel + 1, l =>
    match l with
    | [] => []
    | _ :: _ => l.take n :: chunkAux n fuel (l.drop n)

/-- The value column of `T`, cut into rows of `|s|` entries. -/
def rowsOf (s : List UInt8) (T : Table) : List (List Int) :=
  chunkAux s.length T.length (T.map (·.2))

/-- One pass over the table (linear in its size, plus one look-up):
* its key column is exactly all pairs over `s`, row-major;
* it IS the row-by-row layout of its own value column;
* that square of values is symmetric;
* the `(GAP, GAP)` entry is `0`. -/
def tableCheck (s : List UInt8) (T : Table) : Bool :=
  decide (T.map (·.1) = expectedKeys s) &&
  decide (T = build s (s.zip (rowsOf s T))) &&
  symRec s.length (rowsOf s T) &&
  decide (lookup T GAP GAP = some 0)

theorem tableCheck_sound (s : List UInt8) (hs : s.Nodup) (T : Table)
    (h : tableCheck s T = true) :
    T.map (·.1) = expectedKeys s ∧ (∀ x y, lookup T x y = lookup T y x) ∧
      lookup T GAP GAP = some 0 := by
  simp only [tableCheck, Bool.and_eq_true, decide_eq_true_eq] at h
  obtain ⟨⟨⟨hk, hT⟩, hsym⟩, hg⟩ := h
  refine ⟨hk, ?_, hg⟩
  intro x y
  have h1 := lookup_build_zip s hs (rowsOf s T) x y
  have h2 := lookup_build_zip s hs (rowsOf s T) y x
  rw [← hT] at h1 h2
  rw [h1, h2]
  exact symRec_sound _ _ hsym s x y

/-! ## Consequences of the key column being `expectedKeys s` -/

theorem total_of_keys (s : List UInt8) (T : Table) (hk : T.map (·.1) = expectedKeys s) :
    ∀ x ∈ s, ∀ y ∈ s, (lookup T x y).isSome := by
  intro x hx y hy
  apply lookup_isSome_of_key_mem
  rw [hk, mem_expectedKeys]
  exact ⟨hx, hy⟩

/-- Outside `s × s` the table has no entry. -/
theorem none_of_keys (s : List UInt8) (T : Table) (hk : T.map (·.1) = expectedKeys s)
    (x y : UInt8) (h : ¬ (x ∈ s ∧ y ∈ s)) : lookup T x y = none := by
  cases hl : lookup T x y with
  | none => rfl
  | some v =>
    have : (lookup T x y).isSome := by rw [hl]; rfl
    rw [lookup_isSome_iff, hk, mem_expectedKeys] at this
    exact absurd this h

theorem length_of_keys (s : List UInt8) (T : Table) (hk : T.map (·.1) = expectedKeys s) :
    T.length = s.length * s.length := by
  rw [← length_expectedKeys, ← hk, List.length_map]

theorem nodup_of_keys (s : List UInt8) (hs : s.Nodup) (T : Table)
    (hk : T.map (·.1) = expectedKeys s) : (T.map (·.1)).Nodup := by
  rw [hk]; exact nodup_expectedKeys s hs

/-! ## From the table to the aligner -/

theorem total_symm (pm : PMat) (h : ∀ x y, pm x y = pm y x) (x y : UInt8) :
    total pm x y = total pm y x := by
  simp [total, h x y]

theorem needed_isSome (pm : PMat) (s : List UInt8) (hg : GAP ∈ s)
    (htot : ∀ x ∈ s, ∀ y ∈ s, (pm x y).isSome) (a b : Bytes)
    (ha : ∀ x ∈ a, x ∈ s) (hb : ∀ y ∈ b, y ∈ s) :
    ∀ p ∈ needed a b, (pm p.1 p.2).isSome := by
  intro p hp
  rw [mem_needed] at hp
  rcases hp with ⟨rfl, _⟩ | ⟨x, hx, rfl⟩ | ⟨y, hy, rfl⟩ | ⟨x, hx, y, hy, rfl⟩
  · exact htot _ hg _ hg
  · exact htot _ (ha x hx) _ hg
  · exact htot _ hg _ (hb y hy)
  · exact htot _ (ha x hx) _ (hb y hy)

end Bio.Tables
