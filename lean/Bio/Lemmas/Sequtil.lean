/-
  Helper lemmas for C12, C13, C14 (sequtil/sequtil.go, sequtil/amino.go).

  The finite tables of the Go package are parameters of the model.  Each table
  comes with a Bool-valued predicate (`compTableOK`, `ntoiTableOK`,
  `from2bitTableOK`, `codonTableOK`, `aminoTableOK`) that compares it with a
  specification written out by hand below; on a closed table the predicate is
  discharged by `decide` / `decide +kernel` in `Bio/Generated/Tables.lean`.
-/
import Bio.Model.Sequtil
namespace Bio.Sequtil

/-! ## Lifting finite checks to all bytes -/

theorem forall_uint8 {P : UInt8 → Prop} (h : ∀ n < 256, P (UInt8.ofNat n)) : ∀ b : UInt8, P b := by
  intro b
  have := h b.toNat (UInt8.toNat_lt b)
  rwa [UInt8.ofNat_toNat] at this

theorem forall_uint8_of_all {p : UInt8 → Bool}
    (h : (List.range 256).all (fun n => p (UInt8.ofNat n)) = true) : ∀ b : UInt8, p b = true := by
  apply forall_uint8
  intro n hn
  rw [List.all_eq_true] at h
  exact h n (List.mem_range.mpr hn)

/-- Entry `b` of a table that is the tabulation of `f` over all bytes. -/
theorem tabulated_get {α : Type} (f : Nat → α) (b : UInt8) :
    ((List.range 256).map f)[b.toNat]? = some (f b.toNat) := by
  simp [List.getElem?_map, List.getElem?_range (UInt8.toNat_lt b)]

/-! ## Specification vocabulary -/

def isDNA (b : UInt8) : Bool :=
  b == 65 || b == 67 || b == 71 || b == 84 || b == 97 || b == 99 || b == 103 || b == 116

def isDNAN (b : UInt8) : Bool := isDNA b || b == 78 || b == 110

def isUpper (b : UInt8) : Bool := 65 ≤ b && b ≤ 90

/-- The standard complement; `0` for bytes outside `aAcCgGtTnN`. -/
def stdComp (b : UInt8) : UInt8 :=
  if b = 65 then 84 else if b = 84 then 65
  else if b = 67 then 71 else if b = 71 then 67
  else if b = 78 then 78
  else if b = 97 then 116 else if b = 116 then 97
  else if b = 99 then 103 else if b = 103 then 99
  else if b = 110 then 110
  else 0

def compTableOK (tbl : List UInt8) : Bool :=
  tbl == (List.range 256).map fun n => stdComp (UInt8.ofNat n)

theorem stdComp_eq_zero : ∀ b : UInt8, (stdComp b == 0) = !isDNAN b := by
  apply forall_uint8; decide +kernel

theorem stdComp_stdComp : ∀ b : UInt8, isDNAN b = true → stdComp (stdComp b) = b := by
  apply forall_uint8; decide +kernel

theorem isDNAN_stdComp : ∀ b : UInt8, isDNAN b = true → isDNAN (stdComp b) = true := by
  apply forall_uint8; decide +kernel

theorem isUpper_stdComp : ∀ b : UInt8, isDNAN b = true → isUpper (stdComp b) = isUpper b := by
  apply forall_uint8; decide +kernel

theorem comp_eq {tbl : List UInt8} (h : compTableOK tbl = true) (b : UInt8) :
    comp tbl b = if isDNAN b then some (stdComp b) else none := by
  have ht : tbl = (List.range 256).map fun n => stdComp (UInt8.ofNat n) := by
    simpa [compTableOK] using h
  unfold comp
  rw [ht, tabulated_get, UInt8.ofNat_toNat]
  have := stdComp_eq_zero b
  cases hd : isDNAN b <;> simp_all

/-! ## Option.mapM helpers -/

theorem mapM_some_of_forall {α β : Type} {f : α → Option β} {g : α → β} :
    ∀ {l : List α}, (∀ x ∈ l, f x = some (g x)) → l.mapM f = some (l.map g)
  | [], _ => by simp
  | a :: l, h => by
    have h1 := h a (by simp)
    have h2 := mapM_some_of_forall (l := l) (fun x hx => h x (by simp [hx]))
    simp [List.mapM_cons, h1, h2]

theorem mapM_none_of_exists {α β : Type} {f : α → Option β} :
    ∀ {l : List α}, (∃ x ∈ l, f x = none) → l.mapM f = none
  | [], h => by simp at h
  | a :: l, h => by
    rw [List.mapM_cons]
    cases ha : f a with
    | none => simp
    | some y =>
      have : ∃ x ∈ l, f x = none := by
        obtain ⟨x, hx, hfx⟩ := h
        rcases List.mem_cons.mp hx with rfl | hx
        · simp [ha] at hfx
        · exact ⟨x, hx, hfx⟩
      simp [mapM_none_of_exists this]


/-! ## canonical -/

def lexMin (x y : Bytes) : Bytes := if bytesLt y x then y else x

def window (seq : Bytes) (k i : Nat) : Bytes := (seq.drop i).take k

theorem canonItem_eq (seq rc : Bytes) (k i : Nat) :
    canonItem seq rc k i = lexMin (window seq k i) ((rc.drop (rc.length - i - k)).take k) := rfl

theorem canonLoop_true (seq rc : Bytes) (k : Nat) : ∀ (n i : Nat),
    canonLoop (fun _ => true) seq rc k i n = (List.range n).map fun j => canonItem seq rc k (i + j)
  | 0, i => by simp [canonLoop]
  | n + 1, i => by
    simp only [canonLoop, if_true, canonLoop_true seq rc k n (i + 1), List.range_succ_eq_map,
      List.map_cons, List.map_map]
    congr 1
    apply List.map_congr_left
    intro j _
    simp [Nat.add_assoc, Nat.add_comm 1 j]

/-- The window of the reversed (complemented) sequence that the Go code pairs
with window `i` is the reverse of window `i`. -/
theorem rc_window {α : Type} (l : List α) (k i : Nat) (h : i + k ≤ l.length) :
    (l.reverse.drop (l.reverse.length - i - k)).take k = ((l.drop i).take k).reverse := by
  rw [List.length_reverse, List.drop_reverse, List.take_reverse]
  have h1 : l.length - (l.length - i - k) = i + k := by omega
  rw [h1, List.length_take, Nat.min_eq_left h]
  have h2 : i + k - k = i := by omega
  rw [h2, List.drop_take]
  simp

theorem bytesLt_iff_lt : ∀ (x y : Bytes), bytesLt x y = true ↔ x < y
  | [], [] => by simp [bytesLt]
  | [], _ :: _ => by simp [bytesLt]
  | _ :: _, [] => by simp [bytesLt]
  | a :: as, b :: bs => by
    rw [bytesLt, List.cons_lt_cons_iff]
    have ih := bytesLt_iff_lt as bs
    by_cases h1 : a < b
    · simp [h1]
    · by_cases h2 : b < a
      · have : a ≠ b := by intro e; subst e; exact h1 h2
        simp [h1, h2, this]
      · have : a = b := by
          have := UInt8.le_antisymm (UInt8.not_lt.mp h2) (UInt8.not_lt.mp h1)
          exact this
        simp [this, ih]

/-! ## 2-bit packing -/

/-- `Ntoi` as specified: Aa:0 Cc:1 Gg:2 Tt:3, everything else -1. -/
def stdNtoi (b : UInt8) : Int :=
  if b = 65 ∨ b = 97 then 0 else if b = 67 ∨ b = 99 then 1
  else if b = 71 ∨ b = 103 then 2 else if b = 84 ∨ b = 116 then 3 else -1

/-- The 2-bit code of a base as a byte (0 for non-bases). -/
def code (b : UInt8) : UInt8 :=
  if b = 65 ∨ b = 97 then 0 else if b = 67 ∨ b = 99 then 1
  else if b = 71 ∨ b = 103 then 2 else if b = 84 ∨ b = 116 then 3 else 0

/-- Upper-case form of a base letter. -/
def upperBase (b : UInt8) : UInt8 := if 97 ≤ b ∧ b ≤ 122 then b - 32 else b

def ntoiTableOK (tbl : List Int) : Bool :=
  tbl == (List.range 256).map fun n => stdNtoi (UInt8.ofNat n)

/-- Entry `n` of the expansion table: four bases, most significant pair first. -/
def expand (n : Nat) : Bytes :=
  [iton ((n / 64 % 4 : Nat) : Int), iton ((n / 16 % 4 : Nat) : Int),
   iton ((n / 4 % 4 : Nat) : Int), iton ((n % 4 : Nat) : Int)]

def from2bitTableOK (tbl : List Bytes) : Bool :=
  tbl == (List.range 256).map expand

/-- Big-endian base-4 packing, four bases per byte, zero padded. -/
def pack : Bytes → Bytes
  | [] => []
  | [a] => [code a * 64]
  | [a, b] => [code a * 64 + code b * 16]
  | [a, b, c] => [code a * 64 + code b * 16 + code c * 4]
  | a :: b :: c :: d :: rest => (code a * 64 + code b * 16 + code c * 4 + code d) :: pack rest

theorem ntoi_eq {tbl : List Int} (h : ntoiTableOK tbl = true) (b : UInt8) :
    ntoi tbl b = stdNtoi b := by
  have ht : tbl = (List.range 256).map fun n => stdNtoi (UInt8.ofNat n) := by
    simpa [ntoiTableOK] using h
  unfold ntoi
  rw [ht, tabulated_get, UInt8.ofNat_toNat]; rfl

theorem stdNtoi_neg : ∀ b : UInt8, decide (stdNtoi b < 0) = !isDNA b := by
  apply forall_uint8; decide +kernel

theorem stdNtoi_code : ∀ b : UInt8, isDNA b = true → UInt8.ofNat (stdNtoi b).toNat = code b := by
  apply forall_uint8; decide +kernel

theorem stdNtoi_dna : ∀ b : UInt8, isDNA b = true → stdNtoi b = ((code b).toNat : Int) := by
  apply forall_uint8; decide +kernel

theorem code_lt : ∀ b : UInt8, code b < 4 := by
  apply forall_uint8; decide +kernel

theorem iton_stdNtoi : ∀ b : UInt8, isDNA b = true → iton (stdNtoi b) = upperBase b := by
  apply forall_uint8; decide +kernel

theorem iton_code : ∀ b : UInt8, isDNA b = true → iton ((code b).toNat : Int) = upperBase b := by
  apply forall_uint8; decide +kernel

theorem stdNtoi_iton (i : Int) (h0 : 0 ≤ i) (h4 : i < 4) : stdNtoi (iton i) = i := by
  have : i = 0 ∨ i = 1 ∨ i = 2 ∨ i = 3 := by omega
  rcases this with rfl | rfl | rfl | rfl <;> decide

theorem from2bit_get {tbl : List Bytes} (h : from2bitTableOK tbl = true) (b : UInt8) :
    (tbl[b.toNat]?).getD [] = expand b.toNat := by
  have ht : tbl = (List.range 256).map expand := by simpa [from2bitTableOK] using h
  rw [ht, tabulated_get]; rfl

theorem lt4_cases : ∀ a : UInt8, a < 4 → a = 0 ∨ a = 1 ∨ a = 2 ∨ a = 3 := by
  apply forall_uint8; decide +kernel

/-- Bit form used by the Go loop = arithmetic form used by `pack`. -/
theorem bits4 (a b c d : UInt8) (ha : a < 4) (hb : b < 4) (hc : c < 4) (hd : d < 4) :
    ((((0 : UInt8) ||| a <<< 6) ||| b <<< 4) ||| c <<< 2) ||| d <<< 0
      = a * 64 + b * 16 + c * 4 + d := by
  rcases lt4_cases a ha with rfl | rfl | rfl | rfl <;>
  rcases lt4_cases b hb with rfl | rfl | rfl | rfl <;>
  rcases lt4_cases c hc with rfl | rfl | rfl | rfl <;>
  rcases lt4_cases d hd with rfl | rfl | rfl | rfl <;> rfl



theorem set_last {α : Type} (pre : List α) (x y : α) (n : Nat) (h : n = pre.length) :
    (pre ++ [x]).set n y = pre ++ [y] := by
  subst h; simp

theorem get_last {α : Type} (pre : List α) (x : α) (n : Nat) (h : n = pre.length) :
    (pre ++ [x])[n]? = some x := by
  subst h; simp

theorem to2bitAux_step0 {tbl : List Int} (h : ntoiTableOK tbl = true) (dn i : Nat) (pre : Bytes)
    (b : UInt8) (rest : Bytes) (hr : i % 4 = 0) (hpre : pre.length = dn + i / 4)
    (hb : isDNA b = true) :
    to2bitAux tbl dn i pre (b :: rest)
      = to2bitAux tbl dn (i + 1) (pre ++ [(0 : UInt8) ||| code b <<< 6]) rest := by
  have hneg : ¬ stdNtoi b < 0 := by
    have := stdNtoi_neg b; simp [hb] at this; omega
  rw [to2bitAux]
  simp only [ntoi_eq h, hr, hneg, if_false, stdNtoi_code b hb]
  simp [set_last pre _ _ _ hpre.symm, get_last pre _ _ hpre.symm]

theorem to2bitAux_stepr {tbl : List Int} (h : ntoiTableOK tbl = true) (dn i : Nat) (pre : Bytes)
    (x b : UInt8) (rest : Bytes) (r : Nat) (hr : i % 4 = r) (hr0 : 0 < r)
    (hpre : pre.length = dn + i / 4) (hb : isDNA b = true) :
    to2bitAux tbl dn i (pre ++ [x]) (b :: rest)
      = to2bitAux tbl dn (i + 1) (pre ++ [x ||| code b <<< UInt8.ofNat (6 - r * 2)]) rest := by
  have hneg : ¬ stdNtoi b < 0 := by
    have := stdNtoi_neg b; simp [hb] at this; omega
  have hr3 : r < 4 := by omega
  have hs : ¬ (6 - r * 2 = 6) := by omega
  rw [to2bitAux]
  simp only [ntoi_eq h, hr, hneg, if_false, stdNtoi_code b hb]
  simp [hs, set_last pre _ _ _ hpre.symm, get_last pre _ _ hpre.symm]



theorem bits1 (a : UInt8) (ha : a < 4) : (0 : UInt8) ||| a <<< 6 = a * 64 := by
  rcases lt4_cases a ha with rfl | rfl | rfl | rfl <;> rfl

theorem bits2 (a b : UInt8) (ha : a < 4) (hb : b < 4) :
    ((0 : UInt8) ||| a <<< 6) ||| b <<< 4 = a * 64 + b * 16 := by
  rcases lt4_cases a ha with rfl | rfl | rfl | rfl <;>
  rcases lt4_cases b hb with rfl | rfl | rfl | rfl <;> rfl

theorem bits3 (a b c : UInt8) (ha : a < 4) (hb : b < 4) (hc : c < 4) :
    (((0 : UInt8) ||| a <<< 6) ||| b <<< 4) ||| c <<< 2 = a * 64 + b * 16 + c * 4 := by
  rcases lt4_cases a ha with rfl | rfl | rfl | rfl <;>
  rcases lt4_cases b hb with rfl | rfl | rfl | rfl <;>
  rcases lt4_cases c hc with rfl | rfl | rfl | rfl <;> rfl

/-- Loop invariant at chunk boundaries: with `i` a multiple of four and `pre`
the finished output so far, the rest of the loop appends `pack s`. -/
theorem to2bitAux_aligned {tbl : List Int} (h : ntoiTableOK tbl = true) (dn : Nat) :
    ∀ (s : Bytes) (i : Nat) (pre : Bytes), i % 4 = 0 → pre.length = dn + i / 4 →
      (∀ b ∈ s, isDNA b = true) → to2bitAux tbl dn i pre s = some (pre ++ pack s)
  | [], i, pre, _, _, _ => by simp [to2bitAux, pack]
  | [a], i, pre, hr, hpre, hs => by
    have ha := hs a (by simp)
    rw [to2bitAux_step0 h dn i pre a [] hr hpre ha, to2bitAux, pack, bits1 _ (code_lt a)]
  | [a, b], i, pre, hr, hpre, hs => by
    have ha := hs a (by simp)
    have hb := hs b (by simp)
    rw [to2bitAux_step0 h dn i pre a _ hr hpre ha,
      to2bitAux_stepr h dn (i + 1) pre _ b _ 1 (by omega) (by omega) (by omega) hb,
      to2bitAux, pack]
    have := bits2 _ _ (code_lt a) (code_lt b)
    simp only [Nat.one_mul] at *
    rw [← this]; rfl
  | [a, b, c], i, pre, hr, hpre, hs => by
    have ha := hs a (by simp)
    have hb := hs b (by simp)
    have hc := hs c (by simp)
    rw [to2bitAux_step0 h dn i pre a _ hr hpre ha,
      to2bitAux_stepr h dn (i + 1) pre _ b _ 1 (by omega) (by omega) (by omega) hb,
      to2bitAux_stepr h dn (i + 1 + 1) pre _ c _ 2 (by omega) (by omega) (by omega) hc,
      to2bitAux, pack]
    rw [← bits3 _ _ _ (code_lt a) (code_lt b) (code_lt c)]; rfl
  | a :: b :: c :: d :: rest, i, pre, hr, hpre, hs => by
    have ha := hs a (by simp)
    have hb := hs b (by simp)
    have hc := hs c (by simp)
    have hd := hs d (by simp)
    have hrest : ∀ x ∈ rest, isDNA x = true := fun x hx => hs x (by simp [hx])
    rw [to2bitAux_step0 h dn i pre a _ hr hpre ha,
      to2bitAux_stepr h dn (i + 1) pre _ b _ 1 (by omega) (by omega) (by omega) hb,
      to2bitAux_stepr h dn (i + 1 + 1) pre _ c _ 2 (by omega) (by omega) (by omega) hc,
      to2bitAux_stepr h dn (i + 1 + 1 + 1) pre _ d _ 3 (by omega) (by omega) (by omega) hd,
      to2bitAux_aligned h dn rest (i + 1 + 1 + 1 + 1) _ (by omega)
        (by simp only [List.length_append, List.length_singleton]; omega) hrest,
      pack, ← bits4 _ _ _ _ (code_lt a) (code_lt b) (code_lt c) (code_lt d)]
    simp only [List.append_assoc, List.singleton_append]
    rfl

theorem pack_length_aux : ∀ s : Bytes, (pack s).length = (s.length + 3) / 4
  | [] => by simp [pack]
  | [_] => by simp [pack]
  | [_, _] => by simp [pack]
  | [_, _, _] => by simp [pack]
  | _ :: _ :: _ :: _ :: rest => by
    simp only [pack, List.length_cons, pack_length_aux rest]; omega



theorem to2bitAux_none {tbl : List Int} (h : ntoiTableOK tbl = true) (dn : Nat) :
    ∀ (s : Bytes) (i : Nat) (dst : Bytes), (∃ b ∈ s, isDNA b = false) →
      to2bitAux tbl dn i dst s = none
  | [], _, _, hb => by simp at hb
  | a :: rest, i, dst, hb => by
    rw [to2bitAux]
    simp only [ntoi_eq h]
    by_cases ha : isDNA a = true
    · have hrest : ∃ b ∈ rest, isDNA b = false := by
        obtain ⟨b, hm, hb⟩ := hb
        rcases List.mem_cons.mp hm with rfl | hm
        · simp [ha] at hb
        · exact ⟨b, hm, hb⟩
      split
      · rfl
      · exact to2bitAux_none h dn rest _ _ hrest
    · have := stdNtoi_neg a
      simp [ha] at this
      simp [this]

/-! ### from2bit -/

theorem from2bit_dst (tbl : List Bytes) (dst src : Bytes) :
    from2bit tbl dst src = dst ++ from2bit tbl [] src := by
  simp [from2bit]

theorem from2bit_nil (tbl : List Bytes) : from2bit tbl [] [] = [] := by simp [from2bit]

theorem from2bit_cons {tbl : List Bytes} (h : from2bitTableOK tbl = true) (b : UInt8) (rest : Bytes) :
    from2bit tbl [] (b :: rest) = expand b.toNat ++ from2bit tbl [] rest := by
  simp [from2bit, from2bit_get h]

theorem expand_quad (x y z w : UInt8) (hx : x < 4) (hy : y < 4) (hz : z < 4) (hw : w < 4) :
    expand (x * 64 + y * 16 + z * 4 + w).toNat
      = [iton (x.toNat : Int), iton (y.toNat : Int), iton (z.toNat : Int), iton (w.toNat : Int)] := by
  rcases lt4_cases x hx with rfl | rfl | rfl | rfl <;>
  rcases lt4_cases y hy with rfl | rfl | rfl | rfl <;>
  rcases lt4_cases z hz with rfl | rfl | rfl | rfl <;>
  rcases lt4_cases w hw with rfl | rfl | rfl | rfl <;> rfl

theorem expand_pack4 (a b c d : UInt8) (ha : isDNA a = true) (hb : isDNA b = true)
    (hc : isDNA c = true) (hd : isDNA d = true) :
    expand (code a * 64 + code b * 16 + code c * 4 + code d).toNat
      = [upperBase a, upperBase b, upperBase c, upperBase d] := by
  rw [expand_quad _ _ _ _ (code_lt a) (code_lt b) (code_lt c) (code_lt d),
    iton_code a ha, iton_code b hb, iton_code c hc, iton_code d hd]

theorem code_A : code 65 = 0 := by decide
theorem isDNA_A : isDNA 65 = true := by decide
theorem upperBase_A : upperBase 65 = 65 := by decide

theorem from2bit_pack_aux {tbl : List Bytes} (h : from2bitTableOK tbl = true) :
    ∀ s : Bytes, (∀ b ∈ s, isDNA b = true) →
      from2bit tbl [] (pack s) = s.map upperBase ++ List.replicate ((4 - s.length % 4) % 4) 65
  | [], _ => by simp [pack, from2bit]
  | [a], hs => by
    have ha := hs a (by simp)
    have := expand_pack4 a 65 65 65 ha isDNA_A isDNA_A isDNA_A
    simp only [code_A, upperBase_A] at this
    simp only [UInt8.zero_mul, UInt8.add_zero] at this
    rw [pack, from2bit_cons h, this, from2bit_nil]; simp [List.replicate]
  | [a, b], hs => by
    have ha := hs a (by simp)
    have hb := hs b (by simp)
    have := expand_pack4 a b 65 65 ha hb isDNA_A isDNA_A
    simp only [code_A, upperBase_A] at this
    simp only [UInt8.zero_mul, UInt8.add_zero] at this
    rw [pack, from2bit_cons h, this, from2bit_nil]; simp [List.replicate]
  | [a, b, c], hs => by
    have ha := hs a (by simp)
    have hb := hs b (by simp)
    have hc := hs c (by simp)
    have := expand_pack4 a b c 65 ha hb hc isDNA_A
    simp only [code_A, upperBase_A] at this
    simp only [UInt8.add_zero] at this
    rw [pack, from2bit_cons h, this, from2bit_nil]; simp
  | a :: b :: c :: d :: rest, hs => by
    have ha := hs a (by simp)
    have hb := hs b (by simp)
    have hc := hs c (by simp)
    have hd := hs d (by simp)
    have hrest : ∀ x ∈ rest, isDNA x = true := fun x hx => hs x (by simp [hx])
    have ih := from2bit_pack_aux h rest hrest
    have hl : (rest.length + 1 + 1 + 1 + 1) % 4 = rest.length % 4 := by omega
    rw [pack, from2bit_cons h, expand_pack4 a b c d ha hb hc hd, ih]; simp [hl]

theorem pack_expand : ∀ (b : UInt8) (l : Bytes), pack (expand b.toNat ++ l) = b :: pack l := by
  have key : ∀ b : UInt8,
      code (iton ((b.toNat / 64 % 4 : Nat) : Int)) * 64 + code (iton ((b.toNat / 16 % 4 : Nat) : Int)) * 16
        + code (iton ((b.toNat / 4 % 4 : Nat) : Int)) * 4 + code (iton ((b.toNat % 4 : Nat) : Int)) = b := by
    apply forall_uint8; decide +kernel
  intro b l
  simp only [expand, List.cons_append, List.nil_append, pack, key]

theorem expand_dna : ∀ b : UInt8, (expand b.toNat).all isDNA = true := by
  apply forall_uint8; decide +kernel

theorem pack_flatMap_expand : ∀ p : Bytes, pack (p.flatMap fun b => expand b.toNat) = p
  | [] => by simp [pack]
  | b :: rest => by
    rw [List.flatMap_cons, pack_expand, pack_flatMap_expand rest]

theorem from2bit_eq_flatMap {tbl : List Bytes} (h : from2bitTableOK tbl = true) (p : Bytes) :
    from2bit tbl [] p = p.flatMap fun b => expand b.toNat := by
  simp [from2bit, from2bit_get h]

theorem from2bit_dna {tbl : List Bytes} (h : from2bitTableOK tbl = true) (p : Bytes) :
    ∀ x ∈ from2bit tbl [] p, isDNA x = true := by
  intro x hx
  rw [from2bit_eq_flatMap h, List.mem_flatMap] at hx
  obtain ⟨b, _, hxb⟩ := hx
  have := expand_dna b
  rw [List.all_eq_true] at this
  exact this x hxb


/-! ## Codons (NCBI translation table 1) -/

/-- Index of a base in the order T, C, A, G (either case). -/
def baseIdx (b : UInt8) : Option Nat :=
  if b = 84 ∨ b = 116 then some 0 else if b = 67 ∨ b = 99 then some 1
  else if b = 65 ∨ b = 97 then some 2 else if b = 71 ∨ b = 103 then some 3 else none

/-- "FFLLSSSSYY**CC*WLLLLPPPPHHQQRRRRIIIMTTTTNNKKSSRRVVVVAAAADDEEGGGG" -/
def aaLetters : Bytes :=
  [70, 70, 76, 76, 83, 83, 83, 83, 89, 89, 42, 42, 67, 67, 42, 87,
   76, 76, 76, 76, 80, 80, 80, 80, 72, 72, 81, 81, 82, 82, 82, 82,
   73, 73, 73, 77, 84, 84, 84, 84, 78, 78, 75, 75, 83, 83, 82, 82,
   86, 86, 86, 86, 65, 65, 65, 65, 68, 68, 69, 69, 71, 71, 71, 71]

example : aaLetters =
    "FFLLSSSSYY**CC*WLLLLPPPPHHQQRRRRIIIMTTTTNNKKSSRRVVVVAAAADDEEGGGG".toUTF8.toList := by
  decide +kernel

/-- The standard genetic code on raw bytes: `none` unless all three are in `aAcCgGtT`. -/
def stdCodon (a b c : UInt8) : Option UInt8 :=
  match baseIdx a, baseIdx b, baseIdx c with
  | some i, some j, some k => aaLetters[16 * i + 4 * j + k]?
  | _, _, _ => none

def allBases : Bytes := [65, 67, 71, 84, 97, 99, 103, 116]

theorem baseIdx_isSome : ∀ b : UInt8, (baseIdx b).isSome = isDNA b := by
  apply forall_uint8; decide +kernel

theorem baseIdx_lt : ∀ b : UInt8, ∀ i, baseIdx b = some i → i < 4 := by
  intro b i h
  unfold baseIdx at h
  split at h
  · cases h; omega
  split at h
  · cases h; omega
  split at h
  · cases h; omega
  split at h
  · cases h; omega
  · cases h

theorem stdCodon_isSome (a b c : UInt8) :
    (stdCodon a b c).isSome = (isDNA a && isDNA b && isDNA c) := by
  rw [← baseIdx_isSome, ← baseIdx_isSome, ← baseIdx_isSome]
  unfold stdCodon
  cases ha : baseIdx a <;> cases hb : baseIdx b <;> cases hc : baseIdx c <;> simp
  rename_i i j k
  have := baseIdx_lt a i ha
  have := baseIdx_lt b j hb
  have := baseIdx_lt c k hc
  have hl : aaLetters.length = 64 := rfl
  omega


/-- Position of a base among the eight accepted bytes `ACGTacgt`. -/
def i8 (b : UInt8) : Nat :=
  if b = 65 then 0 else if b = 67 then 1 else if b = 71 then 2 else if b = 84 then 3
  else if b = 97 then 4 else if b = 99 then 5 else if b = 103 then 6 else if b = 116 then 7 else 0

def un8 (n : Nat) : UInt8 := allBases.getD n 0

/-- Number of an accepted triple, 0 … 511. -/
def idx (t : UInt8 × UInt8 × UInt8) : Nat := 64 * i8 t.1 + 8 * i8 t.2.1 + i8 t.2.2

/-- Bit set of the triple numbers occurring as keys. -/
def keyMask (tbl : CodonTable) : Nat := tbl.foldl (fun m e => m ||| 1 <<< idx e.1) 0

/-- Every entry is a triple over `aAcCgGtT` with its standard letter, and all 512
such triples occur as keys (checked through a 512-bit set, so that the check
is linear in the table size). -/
def codonTableOK (tbl : CodonTable) : Bool :=
  tbl.all (fun e => stdCodon e.1.1 e.1.2.1 e.1.2.2 == some e.2) && keyMask tbl == 2 ^ 512 - 1

theorem i8_lt : ∀ b : UInt8, i8 b < 8 := by
  apply forall_uint8; decide +kernel

theorem un8_i8 : ∀ b : UInt8, isDNA b = true → un8 (i8 b) = b := by
  apply forall_uint8; decide +kernel

theorem idx_lt (t : UInt8 × UInt8 × UInt8) : idx t < 512 := by
  have := i8_lt t.1; have := i8_lt t.2.1; have := i8_lt t.2.2
  unfold idx; omega

theorem idx_inj (s t : UInt8 × UInt8 × UInt8)
    (hs : isDNA s.1 = true ∧ isDNA s.2.1 = true ∧ isDNA s.2.2 = true)
    (ht : isDNA t.1 = true ∧ isDNA t.2.1 = true ∧ isDNA t.2.2 = true)
    (h : idx s = idx t) : s = t := by
  have := i8_lt s.1; have := i8_lt s.2.1; have := i8_lt s.2.2
  have := i8_lt t.1; have := i8_lt t.2.1; have := i8_lt t.2.2
  unfold idx at h
  have h1 : i8 s.1 = i8 t.1 := by omega
  have h2 : i8 s.2.1 = i8 t.2.1 := by omega
  have h3 : i8 s.2.2 = i8 t.2.2 := by omega
  have e1 : s.1 = t.1 := by rw [← un8_i8 s.1 hs.1, h1, un8_i8 t.1 ht.1]
  have e2 : s.2.1 = t.2.1 := by rw [← un8_i8 s.2.1 hs.2.1, h2, un8_i8 t.2.1 ht.2.1]
  have e3 : s.2.2 = t.2.2 := by rw [← un8_i8 s.2.2 hs.2.2, h3, un8_i8 t.2.2 ht.2.2]
  obtain ⟨s1, s2, s3⟩ := s
  obtain ⟨t1, t2, t3⟩ := t
  simp_all

theorem testBit_foldl_mask (i : Nat) : ∀ (tbl : CodonTable) (m : Nat),
    (tbl.foldl (fun m e => m ||| 1 <<< idx e.1) m).testBit i
      = (m.testBit i || tbl.any fun e => idx e.1 == i)
  | [], m => by simp
  | e :: rest, m => by
    rw [List.foldl_cons, testBit_foldl_mask i rest, Nat.testBit_or, Nat.one_shiftLeft,
      Nat.testBit_two_pow, List.any_cons, Bool.or_assoc]
    congr 2

set_option exponentiation.threshold 600 in
theorem mem_of_keyMask {tbl : CodonTable} (h : keyMask tbl = 2 ^ 512 - 1) (i : Nat) (hi : i < 512) :
    ∃ e ∈ tbl, idx e.1 = i := by
  have := testBit_foldl_mask i tbl 0
  rw [show tbl.foldl (fun m e => m ||| 1 <<< idx e.1) 0 = keyMask tbl from rfl, h,
    Nat.testBit_two_pow_sub_one] at this
  simp only [hi, decide_true, Nat.zero_testBit, Bool.false_or] at this
  obtain ⟨e, he, hie⟩ := List.any_eq_true.mp this.symm
  exact ⟨e, he, by simpa using hie⟩

theorem codon_eq_std {tbl : CodonTable} (h : codonTableOK tbl = true) (a b c : UInt8) :
    codon tbl a b c = stdCodon a b c := by
  simp only [codonTableOK, Bool.and_eq_true, List.all_eq_true, beq_iff_eq] at h
  obtain ⟨h2, h1⟩ := h
  have hdna : ∀ e ∈ tbl, isDNA e.1.1 = true ∧ isDNA e.1.2.1 = true ∧ isDNA e.1.2.2 = true := by
    intro e he
    have := stdCodon_isSome e.1.1 e.1.2.1 e.1.2.2
    rw [h2 e he] at this
    simpa [Bool.and_eq_true, and_assoc] using this.symm
  unfold codon
  cases hf : tbl.find? (fun e => e.1 == (a, b, c)) with
  | some e =>
    have hm := List.mem_of_find?_eq_some hf
    have hk := List.find?_some hf
    simp only [beq_iff_eq] at hk
    have := h2 e hm
    rw [hk] at this
    simp [this]
  | none =>
    simp only [Option.map_none]
    cases hd : (isDNA a && isDNA b && isDNA c) with
    | false =>
      have := stdCodon_isSome a b c
      rw [hd] at this
      cases hc : stdCodon a b c with
      | none => rfl
      | some x => simp [hc] at this
    | true =>
      exfalso
      simp only [Bool.and_eq_true] at hd
      obtain ⟨e, he, hie⟩ := mem_of_keyMask h1 (idx (a, b, c)) (idx_lt _)
      have heq : e.1 = (a, b, c) := idx_inj e.1 (a, b, c) (hdna e he) ⟨hd.1.1, hd.1.2, hd.2⟩ hie
      rw [List.find?_eq_none] at hf
      exact hf e he (by simp [heq])


/-! ## translate -/

/-- Consecutive triples of a sequence (a trailing 1 or 2 bytes are ignored). -/
def codons : Bytes → List (UInt8 × UInt8 × UInt8)
  | a :: b :: c :: rest => (a, b, c) :: codons rest
  | _ => []

theorem codons_length : ∀ s : Bytes, (codons s).length = s.length / 3
  | [] => by simp [codons]
  | [_] => by simp [codons]
  | [_, _] => by simp [codons]
  | _ :: _ :: _ :: rest => by
    simp only [codons, List.length_cons, codons_length rest]; omega

/-- `translate` for an arbitrary table, in closed form. -/
theorem translate_eq (tbl : CodonTable) : ∀ (src dst : Bytes),
    translate tbl dst src =
      if src.length % 3 = 0 then
        ((codons src).mapM fun t => codon tbl t.1 t.2.1 t.2.2).map (dst ++ ·)
      else none
  | [], dst => by simp [translate, codons]
  | [_], dst => by simp [translate]
  | [_, _], dst => by simp [translate]
  | a :: b :: c :: rest, dst => by
    have hl : (rest.length + 1 + 1 + 1) % 3 = rest.length % 3 := by omega
    rw [translate]
    simp only [List.length_cons, hl, codons, List.mapM_cons]
    cases hc : codon tbl a b c with
    | none => simp
    | some aa =>
      simp only [translate_eq tbl rest (dst ++ [aa])]
      split
      · cases (codons rest).mapM fun t => codon tbl t.1 t.2.1 t.2.2 <;> simp
      · rfl

theorem translate_append_aux (tbl : CodonTable) : ∀ (x y dst : Bytes), x.length % 3 = 0 →
    translate tbl dst (x ++ y) = (translate tbl dst x).bind fun d => translate tbl d y
  | [], y, dst, _ => by simp [translate]
  | [_], _, _, h => by simp at h
  | [_, _], _, _, h => by simp at h
  | a :: b :: c :: rest, y, dst, h => by
    have hl : rest.length % 3 = 0 := by simp only [List.length_cons] at h; omega
    simp only [List.cons_append, translate]
    cases codon tbl a b c with
    | none => simp
    | some aa => exact translate_append_aux tbl rest y _ hl

theorem translate_length_aux (tbl : CodonTable) : ∀ (src dst r : Bytes),
    translate tbl dst src = some r → r.length = dst.length + src.length / 3
  | [], dst, r, h => by simp [translate] at h; subst h; simp
  | [_], _, _, h => by simp [translate] at h
  | [_, _], _, _, h => by simp [translate] at h
  | a :: b :: c :: rest, dst, r, h => by
    rw [translate] at h
    cases hc : codon tbl a b c with
    | none => simp [hc] at h
    | some aa =>
      simp only [hc] at h
      have := translate_length_aux tbl rest _ r h
      simp only [List.length_append, List.length_cons, List.length_nil] at this ⊢
      omega

theorem mapM_eq_none_iff {α β : Type} {f : α → Option β} :
    ∀ {l : List α}, l.mapM f = none ↔ ∃ x ∈ l, f x = none
  | [] => by simp
  | a :: l => by
    rw [List.mapM_cons]
    cases ha : f a with
    | none => simp [ha]
    | some y =>
      have ih := mapM_eq_none_iff (f := f) (l := l)
      cases hm : l.mapM f with
      | none => simpa [ha] using ih.mp hm
      | some ys =>
        have : ¬ ∃ x ∈ l, f x = none := fun hx => by simp [ih.mpr hx] at hm
        simp only [List.mem_cons, exists_eq_or_imp, ha]
        simpa using this

theorem mem_codons_dna : ∀ (s : Bytes), (∀ b ∈ s, isDNA b = true) →
    ∀ t ∈ codons s, isDNA t.1 = true ∧ isDNA t.2.1 = true ∧ isDNA t.2.2 = true
  | [], _, t, ht => by simp [codons] at ht
  | [_], _, t, ht => by simp [codons] at ht
  | [_, _], _, t, ht => by simp [codons] at ht
  | a :: b :: c :: rest, hs, t, ht => by
    simp only [codons, List.mem_cons] at ht
    rcases ht with rfl | ht
    · exact ⟨hs _ (by simp), hs _ (by simp), hs _ (by simp)⟩
    · exact mem_codons_dna rest (fun x hx => hs x (by simp [hx])) t ht


theorem mem_codons_of_mem : ∀ (s : Bytes), s.length % 3 = 0 → ∀ b ∈ s,
    ∃ t ∈ codons s, b = t.1 ∨ b = t.2.1 ∨ b = t.2.2
  | [], _, b, hb => by simp at hb
  | [_], h, _, _ => by simp at h
  | [_, _], h, _, _ => by simp at h
  | x :: y :: z :: rest, h, b, hb => by
    have hl : rest.length % 3 = 0 := by simp only [List.length_cons] at h; omega
    simp only [List.mem_cons] at hb
    simp only [codons, List.mem_cons, exists_eq_or_imp]
    rcases hb with rfl | rfl | rfl | hb
    · exact Or.inl (Or.inl rfl)
    · exact Or.inl (Or.inr (Or.inl rfl))
    · exact Or.inl (Or.inr (Or.inr rfl))
    · exact Or.inr (mem_codons_of_mem rest hl b hb)

theorem codons_take : ∀ s : Bytes, codons (s.take (s.length / 3 * 3)) = codons s
  | [] => by simp [codons]
  | [_] => by simp [codons]
  | [_, _] => by simp [codons]
  | x :: y :: z :: rest => by
    have : (rest.length + 1 + 1 + 1) / 3 * 3 = rest.length / 3 * 3 + 1 + 1 + 1 := by omega
    simp only [List.length_cons, this, List.take_succ_cons, codons, codons_take rest]

theorem take_length_mod3 (s : Bytes) : (s.take (s.length / 3 * 3)).length % 3 = 0 := by
  rw [List.length_take, Nat.min_eq_left (by omega)]
  omega

/-- The amino-acid letter of a triple under the standard code (0 if rejected). -/
def stdAA (t : UInt8 × UInt8 × UInt8) : UInt8 := (stdCodon t.1 t.2.1 t.2.2).getD 0

theorem stdCodon_of_dna (t : UInt8 × UInt8 × UInt8)
    (h : isDNA t.1 = true ∧ isDNA t.2.1 = true ∧ isDNA t.2.2 = true) :
    stdCodon t.1 t.2.1 t.2.2 = some (stdAA t) := by
  have := stdCodon_isSome t.1 t.2.1 t.2.2
  rw [h.1, h.2.1, h.2.2] at this
  unfold stdAA
  cases hc : stdCodon t.1 t.2.1 t.2.2 with
  | none => simp [hc] at this
  | some x => rfl


/-! ## Amino-acid names -/

/-- Upper-case form of an ASCII letter (what `AminoName` applies before its look-up). -/
def upperAZ (b : UInt8) : UInt8 := if 97 ≤ b ∧ b ≤ 122 then b - 32 else b

/-- The name table lists every accepted raw byte.  Accepted bytes are exactly
those whose upper-case form is one of the `aminoAcids` symbols (themselves
upper-case letters or `*`), a byte and its upper-case form get the same
answer, and all codes and names are non-empty. -/
def aminoTableOK (tbl : List (UInt8 × Bytes × Bytes)) (aminoAcids : Bytes) : Bool :=
  ((List.range 256).all fun n =>
      ((aminoName tbl (UInt8.ofNat n)).isSome == aminoAcids.contains (upperAZ (UInt8.ofNat n)))
      && (aminoName tbl (UInt8.ofNat n) == aminoName tbl (upperAZ (UInt8.ofNat n))))
  && (tbl.all fun e => !e.2.1.isEmpty && !e.2.2.isEmpty)
  && (aminoAcids.all fun c => isUpper c || c == 42)

theorem upperAZ_of_upper_or_star : ∀ c : UInt8, (isUpper c || c == 42) = true → upperAZ c = c := by
  apply forall_uint8; decide +kernel

theorem upperAZ_lower : ∀ c : UInt8, isUpper c = true → upperAZ (c + 32) = c := by
  apply forall_uint8; decide +kernel

theorem upperAZ_cases (b : UInt8) : upperAZ b = b ∨ (97 ≤ b ∧ b ≤ 122 ∧ upperAZ b = b - 32) := by
  unfold upperAZ
  split
  · rename_i h; exact Or.inr ⟨h.1, h.2, rfl⟩
  · exact Or.inl rfl

end Bio.Sequtil
