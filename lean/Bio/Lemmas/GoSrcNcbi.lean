/-
  `ReadNCBI` and `extractSingleChar` of formats/smtext/smtext.go, translated from the Go SOURCE
  TEXT on every run into `Bio.Generated.GoSrc.smtext_ReadNCBI` / `extractSingleChar`.

  * `extractSingleChar_eq`: the translated function is total and is `Matrix.singleChar`;
  * `nonSpaceFields_eq`: GoRt's accumulator version of `\S+` matching is the model's `fields`;
  * `hdrGo` / `valGo` / `stepGo` / `loopT`: the three loops of `ReadNCBI` as total functions; the
    body of the scan loop never panics (`body_eq`), hence `ReadNCBI_eq`: the translated function is
    `some (finish …)` on EVERY input (every `idx` / `slice` is guarded by the length checks);
  * `readRowsP`: `Matrix.readRows` with the score parser as a parameter;
  * `loop_refines`: the scan loop against `readRowsP` (the Go map is lookup-equivalent to the
    model's association list; `chars == nil` is `len chars == 0` is the model's `none`).

  Guarded by the translator's `<f>_Found` flags as in `Bio.Lemmas.GoSrc`.
-/
import Bio.Model.Matrix
import Bio.Generated.GoSrc
import Bio.Lemmas.GoRt
import Bio.Lemmas.Matrix
import Bio.Lemmas.GoSrcMatrix
set_option linter.unusedVariables false
namespace Bio.GoSrcLemmas
namespace NcbiGo
open Bio Bio.GoRt Bio.Generated Bio.GoSrcLemmas.MxGo

/-! ## `extractSingleChar` -/

/-- what `extractSingleChar` returns: the byte (`*` is the gap, 255) and `nil`, or `0` and an error -/
def esc (s : Bytes) : UInt8 × GoErr :=
  match Matrix.singleChar s with
  | some c => (c, GoErr.nil)
  | none => (0, GoErr.other)

theorem extractSingleChar_eq (hF : GoSrc.extractSingleChar_Found = true) (s : Bytes) :
    GoSrc.extractSingleChar s = some (esc s) := by
  first
  | exact absurd hF (by decide)
  | (unfold GoSrc.extractSingleChar esc Matrix.singleChar len
     match s with
     | [] => simp
     | [c] =>
       by_cases h : c = 42
       · subst h; simp
       · have h0 : idx [c] 0 = some c := rfl
         simp [h, h0]
     | a :: b :: r =>
       simp
       intro h
       omega)

theorem esc_nil_iff (s : Bytes) : (esc s).2 = GoErr.nil ↔ (Matrix.singleChar s).isSome := by
  unfold esc; cases Matrix.singleChar s <;> simp

theorem esc_some {s : Bytes} {c : UInt8} (h : Matrix.singleChar s = some c) : esc s = (c, GoErr.nil) := by
  unfold esc; rw [h]

theorem esc_none {s : Bytes} (h : Matrix.singleChar s = none) : esc s = (0, GoErr.other) := by
  unfold esc; rw [h]

/-! ## `nonSpaceFields` -/

theorem isSpaceRe_eq (b : UInt8) : isSpaceRe b = Matrix.isSpace b := rfl

theorem nonSpaceFieldsAux_eq (s cur : Bytes) (hc : ∀ b ∈ cur, Matrix.isSpace b = false) :
    nonSpaceFieldsAux s cur = Matrix.fields (cur ++ s) := by
  induction s generalizing cur with
  | nil =>
    rw [nonSpaceFieldsAux, List.append_nil]
    cases cur with
    | nil => rfl
    | cons a r => rw [Matrix.fields_tok (by simp) hc]; rfl
  | cons b rest ih =>
    rw [nonSpaceFieldsAux, isSpaceRe_eq]
    by_cases hb : Matrix.isSpace b = true
    · rw [if_pos hb]
      cases cur with
      | nil =>
        rw [ih [] (by simp)]
        simp [Matrix.fields_cons_space hb]
      | cons a r =>
        rw [ih [] (by simp), Matrix.fields_tok_space (by simp) hc hb]
        simp
    · rw [if_neg hb, ih (cur ++ [b])]
      · simp
      · intro x hx
        rcases List.mem_append.1 hx with hx | hx
        · exact hc x hx
        · simp at hx; subst hx; simpa using hb

theorem nonSpaceFields_eq (s : Bytes) : nonSpaceFields s = Matrix.fields s := by
  unfold nonSpaceFields
  rw [nonSpaceFieldsAux_eq s [] (by simp)]
  rfl

/-! ## The loops of `ReadNCBI` as total functions -/

/-- the value `ReadNCBI` returns -/
abbrev Res := GM × GoErr
/-- the state of the scan loop: pending early return, `m`, `chars` -/
abbrev St := Option Res × GM × List UInt8

/-- a loop whose body cannot panic -/
def loopT {α σ : Type} (f : α → σ → ForInStep σ) : List α → σ → σ
  | [], s => s
  | a :: l, s =>
    match f a s with
    | .done s' => s'
    | .yield s' => loopT f l s'

theorem forIn_total {α σ : Type} (f : α → σ → ForInStep σ) (body : α → σ → Option (ForInStep σ))
    (hb : ∀ a s, body a s = some (f a s)) (l : List α) (s : σ) :
    forIn l s body = some (loopT f l s) := by
  induction l generalizing s with
  | nil => rfl
  | cons a l ih =>
    rw [List.forIn_cons, hb a s, loopT]
    cases f a s with
    | done s' => rfl
    | yield s' => exact ih s'

/-- one iteration of the header loop `for _, char := range charStrs` -/
def hdrStep (char : Bytes) (s : Option Res × List UInt8) : ForInStep (Option Res × List UInt8) :=
  if (esc char).2 != GoErr.nil then .done (some ([], (esc char).2), s.2)
  else .yield (none, s.2 ++ [(esc char).1])

/-- the loop `for i, val := range valStrs[1:]` over the remaining `chars` and values -/
def valGo (pf : Bytes → Int → Int × GoErr) (c : UInt8) : List UInt8 → List Bytes → GM → Option Res × GM
  | _, [], m => (none, m)
  | [], _ :: _, m => (none, m)
  | ch :: chs, v :: vs, m =>
    if (pf v 64).2 != GoErr.nil then (some ([], GoErr.other), m)
    else valGo pf c chs vs (mapSet m [c, ch] (pf v 64).1)

theorem val_loop (pf : Bytes → Int → Int × GoErr) (c : UInt8) (chars : List UInt8)
    (body : Int × Bytes → Option Res × GM → Option (ForInStep (Option Res × GM)))
    (hbody : ∀ i val s, body (i, val) s =
      if ((pf val 64).2 != GoErr.nil) = true then some (ForInStep.done (some ([], GoErr.other), s.2))
      else (idx chars i).bind fun ch => some (ForInStep.yield (none, mapSet s.2 [c, ch] (pf val 64).1)))
    (vs : List Bytes) (k : Nat) (chs : List UInt8) (hk : chars.drop k = chs) (hlen : vs.length ≤ chs.length)
    (m : GM) :
    forIn ((vs.zipIdx k).map fun p => ((p.2 : Int), p.1)) (none, m) body = some (valGo pf c chs vs m) := by
  induction vs generalizing k chs m with
  | nil => simp [valGo]
  | cons v vs ih =>
    cases chs with
    | nil => simp at hlen
    | cons ch chs =>
      have hch : idx chars (k : Int) = some ch := by
        rw [idx_ofNat]
        have := congrArg (fun l => l[0]?) hk
        simpa using this
      have hk' : chars.drop (k + 1) = chs := by
        have := congrArg (fun l => l.drop 1) hk
        simpa using this
      simp only [List.zipIdx_cons, List.map_cons, List.forIn_cons, hbody, valGo]
      by_cases he : ((pf v 64).2 != GoErr.nil) = true
      · simp only [he, if_true]; rfl
      · simp only [he, hch, Option.bind_some]
        exact ih (k + 1) chs hk' (by simpa using hlen) _

/-- one iteration of the scan loop on the line `row`, with the current `m` and `chars` -/
def stepGo (pf : Bytes → Int → Int × GoErr) (row : Bytes) (m : GM) (chars : List UInt8) : ForInStep St :=
  if row = [] ∨ row.head? = some 35 then .yield (none, m, chars)
  else if chars = [] then
    match loopT hdrStep (Matrix.fields row) (none, chars) with
    | (some r, cs) => .done (some r, m, cs)
    | (none, cs) => .yield (none, m, cs)
  else
    match Matrix.fields row with
    | [] => .done (some ([], GoErr.other), m, chars)
    | lab :: vals =>
      if vals.length ≠ chars.length then .done (some ([], GoErr.other), m, chars)
      else if (esc lab).2 != GoErr.nil then .done (some ([], (esc lab).2), m, chars)
      else
        match valGo pf (esc lab).1 chars vals m with
        | (some r, m') => .done (some r, m', chars)
        | (none, m') => .yield (none, m', chars)

def stepF (pf : Bytes → Int → Int × GoErr) (row : Bytes) (s : St) : ForInStep St := stepGo pf row s.2.1 s.2.2

/-- after the loop: a pending early return, else `sc.Err()`, else the matrix -/
def finish (e : Ending) (s : St) : Res :=
  match s.1 with
  | some r => r
  | none => if scanErr e != GoErr.nil then ([], scanErr e) else (s.2.1, GoErr.nil)

theorem len_eq_zero {α : Type} (l : List α) : (len l == 0) = decide (l = []) := by
  cases l <;> simp [len] <;> omega

/-- The translated `ReadNCBI` never panics: it is `some` of total functions, on every input. -/
theorem ReadNCBI_eq (hF : GoSrc.smtext_ReadNCBI_Found = true) (hE : GoSrc.extractSingleChar_Found = true)
    (pf : Bytes → Int → Int × GoErr) (r : ScanRd) :
    GoSrc.smtext_ReadNCBI pf r = some (finish r.ending (loopT (stepF pf) r.lines (none, [], []))) := by
  first
  | exact absurd hF (by decide)
  | (unfold GoSrc.smtext_ReadNCBI
     simp only [Option.pure_def, Option.bind_eq_bind]
     rw [forIn_total (stepF pf) _ _ r.lines]
     · simp only [Option.bind_some, finish]
       generalize loopT (stepF pf) r.lines (none, [], []) = st
       obtain ⟨r0, m, cs⟩ := st
       cases r0 with
       | some r1 => rfl
       | none => simp only []; split <;> rfl
     · intro row s
       obtain ⟨r0, m, chars⟩ := s
       simp only [stepF, stepGo, nonSpaceFields_eq, extractSingleChar_eq hE, Option.bind_some, len_eq_zero]
       have hhdr : ∀ cs : List UInt8,
           (forIn (Matrix.fields row) ((none : Option Res), cs) fun char __s =>
             if ((esc char).snd != GoErr.nil) = true then
               some (ForInStep.done (some (([] : GM), (esc char).snd), __s.snd))
             else some (ForInStep.yield (none, __s.snd ++ [(esc char).fst])))
           = some (loopT hdrStep (Matrix.fields row) (none, cs)) := by
         intro cs
         apply forIn_total
         intro a s
         unfold hdrStep
         split <;> rfl
       cases row with
       | nil => simp
       | cons b rest =>
         have h0 : idx (b :: rest) 0 = some b := rfl
         have hne : ((b :: rest) == []) = false := rfl
         simp only [hne, h0, Option.bind_some, Bool.false_eq_true, if_false]
         by_cases hb : b = 35
         · subst hb; simp
         · have hb' : ((b == 35) = true) = False := by simpa using hb
           have hb2 : (b :: rest = [] ∨ (b :: rest).head? = some 35) = False := by simpa using hb
           simp only [hb', hb2, if_false]
           by_cases hc : chars = []
           · simp only [hc, decide_true, if_true, hhdr, Option.bind_some]
             generalize loopT hdrStep (Matrix.fields (b :: rest)) (none, []) = st
             obtain ⟨r1, cs⟩ := st
             cases r1 <;> rfl
           · simp only [hc, decide_false, Bool.false_eq_true, if_false]
             cases hf : Matrix.fields (b :: rest) with
             | nil =>
               have : (len ([] : List Bytes) != len chars + 1) = true := by
                 simp only [len, List.length_nil, bne_iff_ne, ne_eq]; omega
               simp only [this, if_true]
             | cons lab vals =>
               have h0 : idx (lab :: vals) 0 = some lab := rfl
               have hs : slice (lab :: vals) 1 (len (lab :: vals)) = some vals := by
                 have := slice_ofNat (lab :: vals) 1 (vals.length + 1) (by omega) (by simp)
                 simpa [len] using this
               have hl : (len (lab :: vals) != len chars + 1) = decide (vals.length ≠ chars.length) := by
                 simp only [len, List.length_cons]
                 by_cases h : vals.length = chars.length
                 · simp [h]
                 · simp [h]
                   omega
               simp only [hl, h0, hs, Option.bind_some, decide_eq_true_eq]
               by_cases hlen : vals.length ≠ chars.length
               · simp only [hlen, if_true, ne_eq, not_false_eq_true]
               · simp only [hlen, if_false]
                 by_cases he : ((esc lab).snd != GoErr.nil) = true
                 · simp only [he, if_true]
                 · simp only [he]
                   rw [enum, val_loop pf (esc lab).fst chars _ (fun i val s => rfl) vals 0 chars rfl
                     (by omega) m]
                   simp only [Option.bind_some]
                   generalize valGo pf (esc lab).fst chars vals m = st
                   obtain ⟨r1, m'⟩ := st
                   cases r1 <;> rfl)

/-! ## The hand model with the score parser as a parameter -/

/-- `Matrix.readRows` with the score parser as a parameter (`readRowsP_parseQuarter`) -/
def readRowsP (pf : Bytes → Option Int) : Option (List UInt8) → List Bytes → Matrix.M → Option Matrix.M
  | _, [], m => some m
  | chars, row :: rows, m =>
    match row with
    | [] => readRowsP pf chars rows m
    | 35 :: _ => readRowsP pf chars rows m
    | _ =>
      match chars with
      | none =>
        match (Matrix.fields row).mapM Matrix.singleChar with
        | none => none
        | some cs => readRowsP pf (if cs.isEmpty then none else some cs) rows m
      | some cs =>
        match Matrix.fields row with
        | [] => none
        | lab :: vals =>
          if vals.length != cs.length then none
          else match Matrix.singleChar lab, vals.mapM pf with
            | some c, some vs => readRowsP pf (some cs) rows (Matrix.rowInsert c cs vs m)
            | _, _ => none

theorem readRowsP_parseQuarter (chars : Option (List UInt8)) (ls : List Bytes) (m : Matrix.M) :
    readRowsP Matrix.parseQuarter chars ls m = Matrix.readRows chars ls m := by
  induction ls generalizing chars m with
  | nil => rw [readRowsP.eq_def, Matrix.readRows.eq_def]
  | cons row rows ih =>
    rw [readRowsP.eq_def, Matrix.readRows.eq_def]
    simp only [ih]
    split
    · rfl
    · rfl
    · rename_i h1 h2
      symm
      split
      · exact absurd rfl h1
      · exact absurd rfl (h2 _)
      · symm
        cases chars with
        | none =>
          simp only []
          cases List.mapM Matrix.singleChar (Matrix.fields row) <;> rfl
        | some cs =>
          simp only []
          cases Matrix.fields row with
          | nil => rfl
          | cons lab vals =>
            simp only []
            split
            · rfl
            · cases Matrix.singleChar lab <;> cases List.mapM Matrix.parseQuarter vals <;> rfl

/-- a line the scan loop skips -/
abbrev Skip (row : Bytes) : Prop := row = [] ∨ row.head? = some 35

theorem readRowsP_nil (pf : Bytes → Option Int) (chars : Option (List UInt8)) (m : Matrix.M) :
    readRowsP pf chars [] m = some m := by rw [readRowsP.eq_def]

theorem skip_nil : Skip [] := Or.inl rfl
theorem skip_hash (r : Bytes) : Skip (35 :: r) := Or.inr rfl

theorem readRowsP_skip (pf : Bytes → Option Int) (chars : Option (List UInt8)) {row : Bytes} (h : Skip row)
    (rows : List Bytes) (m : Matrix.M) :
    readRowsP pf chars (row :: rows) m = readRowsP pf chars rows m := by
  rw [readRowsP.eq_def]
  simp only
  split
  · rfl
  · rfl
  · rename_i h1 h2
    rcases h with h | h
    · exact absurd h h1
    · cases row with
      | nil => simp at h
      | cons b r => simp at h; subst h; exact absurd rfl (h2 r)

theorem readRowsP_hdr (pf : Bytes → Option Int) {row : Bytes} (h : ¬ Skip row)
    (rows : List Bytes) (m : Matrix.M) :
    readRowsP pf none (row :: rows) m =
      ((Matrix.fields row).mapM Matrix.singleChar).bind fun cs =>
        readRowsP pf (if cs.isEmpty then none else some cs) rows m := by
  rw [readRowsP.eq_def]
  simp only
  split
  · exact absurd skip_nil h
  · exact absurd (skip_hash _) h
  · cases List.mapM Matrix.singleChar (Matrix.fields row) <;> rfl

theorem readRowsP_row (pf : Bytes → Option Int) (cs : List UInt8) {row : Bytes} (h : ¬ Skip row)
    (rows : List Bytes) (m : Matrix.M) {lab : Bytes} {vals : List Bytes} (hf : Matrix.fields row = lab :: vals) :
    readRowsP pf (some cs) (row :: rows) m =
      if vals.length ≠ cs.length then none
      else (Matrix.singleChar lab).bind fun c => (vals.mapM pf).bind fun vs =>
        readRowsP pf (some cs) rows (Matrix.rowInsert c cs vs m) := by
  rw [readRowsP.eq_def]
  simp only
  split
  · exact absurd skip_nil h
  · exact absurd (skip_hash _) h
  · simp only [hf]
    by_cases hl : vals.length = cs.length
    · simp only [hl, bne_self_eq_false, Bool.false_eq_true, if_false, ne_eq, not_true_eq_false]
      cases Matrix.singleChar lab <;> cases List.mapM pf vals <;> rfl
    · simp [hl]

theorem readRowsP_row_nil (pf : Bytes → Option Int) (cs : List UInt8) {row : Bytes} (h : ¬ Skip row)
    (rows : List Bytes) (m : Matrix.M) (hf : Matrix.fields row = []) :
    readRowsP pf (some cs) (row :: rows) m = none := by
  rw [readRowsP.eq_def]
  simp only
  split
  · exact absurd skip_nil h
  · exact absurd (skip_hash _) h
  · simp only [hf]

/-! ## The Go map against the model's association list -/

/-- same map: well-formed on the Go side and equal at every key -/
def Rel (gm : GM) (m : Matrix.M) : Prop := WF gm ∧ ∀ k, look gm (keyOf k) = Matrix.get m k

theorem Rel_nil : Rel [] [] := ⟨WF_nil, fun k => rfl⟩

theorem Rel_set {gm : GM} {m : Matrix.M} (h : Rel gm m) (a b : UInt8) (v : Int) :
    Rel (mapSet gm [a, b] v) (Matrix.insert (a, b) v m) := by
  refine ⟨WF_mapSet h.1 rfl v, ?_⟩
  intro k
  rw [look_mapSet, Matrix.get_insert, h.2 k]
  have : (keyOf k = [a, b]) ↔ k = (a, b) := @keyOf_inj k (a, b)
  by_cases hk : k = (a, b)
  · simp [hk, keyOf]
  · simp [hk, this]

/-- the score parser as the model sees it -/
def pfO (pf : Bytes → Int → Int × GoErr) (s : Bytes) : Option Int :=
  if (pf s 64).2 = GoErr.nil then some (pf s 64).1 else none

theorem valGo_some (pf : Bytes → Int → Int × GoErr) (c : UInt8) :
    ∀ (cs : List UInt8) (vals : List Bytes) (gm : GM) (m : Matrix.M) (vs : List Int), Rel gm m →
      vals.length = cs.length → vals.mapM (pfO pf) = some vs →
      ∃ gm', valGo pf c cs vals gm = (none, gm') ∧ Rel gm' (Matrix.rowInsert c cs vs m) := by
  intro cs
  induction cs with
  | nil =>
    intro vals gm m vs hr hl hm
    have : vals = [] := List.length_eq_zero_iff.mp hl
    subst this
    simp at hm; subst hm
    exact ⟨gm, by simp [valGo], by simpa [Matrix.rowInsert] using hr⟩
  | cons ch chs ih =>
    intro vals gm m vs hr hl hm
    cases vals with
    | nil => simp at hl
    | cons v vals =>
      rw [List.mapM_cons] at hm
      by_cases hp : (pf v 64).2 = GoErr.nil
      · have hpo : pfO pf v = some (pf v 64).1 := by simp [pfO, hp]
        cases hm' : List.mapM (pfO pf) vals with
        | none => simp [hpo, hm'] at hm
        | some vs' =>
          simp [hpo, hm'] at hm
          subst hm
          have := ih vals (mapSet gm [c, ch] (pf v 64).1) (Matrix.insert (c, ch) (pf v 64).1 m) vs'
            (Rel_set hr c ch _) (by simpa using hl) hm'
          simpa [valGo, hp, Matrix.rowInsert] using this
      · have hpo : pfO pf v = none := by simp [pfO, hp]
        simp [hpo] at hm

theorem valGo_none (pf : Bytes → Int → Int × GoErr) (c : UInt8) :
    ∀ (cs : List UInt8) (vals : List Bytes) (gm : GM),
      vals.length = cs.length → vals.mapM (pfO pf) = none →
      ∃ gm', valGo pf c cs vals gm = (some ([], GoErr.other), gm') := by
  intro cs
  induction cs with
  | nil =>
    intro vals gm hl hm
    have : vals = [] := List.length_eq_zero_iff.mp hl
    subst this
    simp at hm
  | cons ch chs ih =>
    intro vals gm hl hm
    cases vals with
    | nil => simp at hl
    | cons v vals =>
      rw [List.mapM_cons] at hm
      by_cases hp : (pf v 64).2 = GoErr.nil
      · have hpo : pfO pf v = some (pf v 64).1 := by simp [pfO, hp]
        cases hm' : List.mapM (pfO pf) vals with
        | none =>
          have := ih vals (mapSet gm [c, ch] (pf v 64).1) (by simpa using hl) hm'
          simpa [valGo, hp] using this
        | some vs' => simp [hpo, hm'] at hm
      · exact ⟨gm, by simp [valGo, hp]⟩

theorem hdr_some : ∀ (ts : List Bytes) (cs cs' : List UInt8), ts.mapM Matrix.singleChar = some cs' →
    loopT hdrStep ts (none, cs) = (none, cs ++ cs') := by
  intro ts
  induction ts with
  | nil => intro cs cs' h; simp at h; subst h; simp [loopT]
  | cons t ts ih =>
    intro cs cs' h
    rw [List.mapM_cons] at h
    cases hs : Matrix.singleChar t with
    | none => simp [hs] at h
    | some c =>
      cases hm : List.mapM Matrix.singleChar ts with
      | none => simp [hs, hm] at h
      | some cs'' =>
        simp [hs, hm] at h
        subst h
        have := ih (cs ++ [c]) cs'' hm
        simpa [loopT, hdrStep, esc_some hs] using this

theorem hdr_none : ∀ (ts : List Bytes) (cs : List UInt8), ts.mapM Matrix.singleChar = none →
    ∃ cs'', loopT hdrStep ts (none, cs) = (some ([], GoErr.other), cs'') := by
  intro ts
  induction ts with
  | nil => intro cs h; simp at h
  | cons t ts ih =>
    intro cs h
    rw [List.mapM_cons] at h
    cases hs : Matrix.singleChar t with
    | none => exact ⟨cs, by simp [loopT, hdrStep, esc_none hs]⟩
    | some c =>
      cases hm : List.mapM Matrix.singleChar ts with
      | none =>
        have := ih (cs ++ [c]) hm
        simpa [loopT, hdrStep, esc_some hs] using this
      | some cs'' => simp [hs, hm] at h

/-- Go's `chars == nil` / `len chars == 0` against the model's `Option` -/
def co (chars : List UInt8) : Option (List UInt8) := if chars.isEmpty then none else some chars

theorem co_nil : co [] = none := rfl
theorem co_ne {chars : List UInt8} (h : chars ≠ []) : co chars = some chars := by
  cases chars with
  | nil => exact absurd rfl h
  | cons a r => rfl

/-- The scan loop against the parameterised hand model, from any state. -/
theorem loop_refines (pf : Bytes → Int → Int × GoErr) :
    ∀ (ls : List Bytes) (chars : List UInt8) (gm : GM) (m : Matrix.M), Rel gm m →
      (readRowsP (pfO pf) (co chars) ls m = none →
        ∃ gm' cs', loopT (stepF pf) ls (none, gm, chars) = (some ([], GoErr.other), gm', cs')) ∧
      (∀ m', readRowsP (pfO pf) (co chars) ls m = some m' →
        ∃ gm' cs', loopT (stepF pf) ls (none, gm, chars) = (none, gm', cs') ∧ Rel gm' m') := by
  intro ls
  induction ls with
  | nil =>
    intro chars gm m hr
    rw [readRowsP_nil]
    refine ⟨by simp, ?_⟩
    intro m' h
    simp at h; subst h
    exact ⟨gm, chars, rfl, hr⟩
  | cons row rows ih =>
    intro chars gm m hr
    rw [loopT]
    have hsf : stepF pf row (none, gm, chars) = stepGo pf row gm chars := rfl
    rw [hsf]
    by_cases hskip : Skip row
    · have hs : stepGo pf row gm chars = .yield (none, gm, chars) := if_pos hskip
      rw [hs, readRowsP_skip _ _ hskip]
      exact ih chars gm m hr
    · by_cases hc : chars = []
      · subst hc
        have hs : stepGo pf row gm [] =
            (match loopT hdrStep (Matrix.fields row) (none, []) with
              | (some r, cs) => ForInStep.done (some r, gm, cs)
              | (none, cs) => ForInStep.yield (none, gm, cs)) := by
          unfold stepGo
          rw [if_neg (show ¬(row = [] ∨ row.head? = some 35) from hskip), if_pos rfl]
        rw [hs, co_nil, readRowsP_hdr _ hskip]
        cases hm : List.mapM Matrix.singleChar (Matrix.fields row) with
        | none =>
          obtain ⟨cs'', h''⟩ := hdr_none _ [] hm
          rw [h'']
          exact ⟨fun _ => ⟨gm, cs'', rfl⟩, by simp⟩
        | some cs' =>
          rw [hdr_some _ [] cs' hm]
          simp only [Option.bind_some, List.nil_append]
          exact ih cs' gm m hr
      · have hs : stepGo pf row gm chars =
            (match Matrix.fields row with
              | [] => ForInStep.done (some ([], GoErr.other), gm, chars)
              | lab :: vals =>
                if vals.length ≠ chars.length then ForInStep.done (some ([], GoErr.other), gm, chars)
                else if (esc lab).2 != GoErr.nil then ForInStep.done (some ([], (esc lab).2), gm, chars)
                else
                  match valGo pf (esc lab).1 chars vals gm with
                  | (some r, m') => ForInStep.done (some r, m', chars)
                  | (none, m') => ForInStep.yield (none, m', chars)) := by
          unfold stepGo
          rw [if_neg (show ¬(row = [] ∨ row.head? = some 35) from hskip), if_neg hc]
        rw [hs, co_ne hc]
        cases hf : Matrix.fields row with
        | nil =>
          rw [readRowsP_row_nil _ _ hskip _ _ hf]
          exact ⟨fun _ => ⟨gm, chars, rfl⟩, by simp⟩
        | cons lab vals =>
          rw [readRowsP_row _ _ hskip _ _ hf]
          by_cases hlen : vals.length ≠ chars.length
          · simp only [if_pos hlen]
            exact ⟨fun _ => ⟨gm, chars, rfl⟩, by simp⟩
          · simp only [if_neg hlen]
            have hlen' : vals.length = chars.length := by simpa using hlen
            cases hl : Matrix.singleChar lab with
            | none =>
              simp only [esc_none hl, Option.bind_none]
              exact ⟨fun _ => ⟨gm, chars, rfl⟩, by simp⟩
            | some c =>
              simp only [esc_some hl, Option.bind_some]
              have hnn : ((GoErr.nil != GoErr.nil) = true) = False := by simp
              simp only [hnn, if_false]
              cases hv : List.mapM (pfO pf) vals with
              | none =>
                obtain ⟨gm', hg⟩ := valGo_none pf c chars vals gm hlen' hv
                rw [hg]
                exact ⟨fun _ => ⟨gm', chars, rfl⟩, by simp⟩
              | some vs =>
                obtain ⟨gm', hg, hr'⟩ := valGo_some pf c chars vals gm m vs hr hlen' hv
                rw [hg]
                simp only [Option.bind_some]
                have := ih chars gm' _ hr'
                rw [co_ne hc] at this
                exact this

/-! ## The whole function -/

/-- a model-level failure is an error return, whatever the stream's ending -/
theorem ReadNCBI_of_none (hF : GoSrc.smtext_ReadNCBI_Found = true) (hE : GoSrc.extractSingleChar_Found = true)
    (pf : Bytes → Int → Int × GoErr) (ls : List Bytes) (e : Ending)
    (h : readRowsP (pfO pf) none ls [] = none) :
    GoSrc.smtext_ReadNCBI pf ⟨ls, e⟩ = some ([], GoErr.other) := by
  rw [ReadNCBI_eq hF hE]
  obtain ⟨gm', cs', hl⟩ := (loop_refines pf ls [] [] [] Rel_nil).1 h
  simp only [hl, finish]

/-- a model-level success: the matrix at a clean end of input, the stream's error otherwise -/
theorem ReadNCBI_of_some (hF : GoSrc.smtext_ReadNCBI_Found = true) (hE : GoSrc.extractSingleChar_Found = true)
    (pf : Bytes → Int → Int × GoErr) (ls : List Bytes) (m : Matrix.M)
    (h : readRowsP (pfO pf) none ls [] = some m) :
    GoSrc.smtext_ReadNCBI pf ⟨ls, .fail⟩ = some ([], GoErr.other) ∧
    ∃ gm, GoSrc.smtext_ReadNCBI pf ⟨ls, .eof⟩ = some (gm, GoErr.nil) ∧ Rel gm m := by
  rw [ReadNCBI_eq hF hE, ReadNCBI_eq hF hE]
  obtain ⟨gm', cs', hl, hr⟩ := (loop_refines pf ls [] [] [] Rel_nil).2 m h
  simp only [hl, finish]
  exact ⟨rfl, gm', rfl, hr⟩

/-- the quarter-decimal parser as a `strconv.ParseFloat` stand-in -/
def pfQ (s : Bytes) (_ : Int) : Int × GoErr :=
  match Matrix.parseQuarter s with
  | some q => (q, GoErr.nil)
  | none => (0, GoErr.other)

theorem pfO_pfQ : pfO pfQ = Matrix.parseQuarter := by
  funext s
  unfold pfO pfQ
  cases Matrix.parseQuarter s <;> simp

theorem readRowsP_pfQ (x : Bytes) : readRowsP (pfO pfQ) none (scanLines x) [] = Matrix.readNCBI x := by
  rw [pfO_pfQ, readRowsP_parseQuarter]
  rfl

end NcbiGo
end Bio.GoSrcLemmas
