/-
  Helper lemmas for C19 / C18: the explicit-stack machine `trav` of
  formats/newick/traverse.go equals the recursive pre/post-order, cut by
  `takeThrough` at the consumer's first `false`.
-/
import Bio.Model.Traverse
namespace Bio

/-! ## `takeThrough` -/

theorem takeThrough_false {α : Type} (l : List α) : takeThrough (fun _ => false) l = l := by
  induction l with
  | nil => rfl
  | cons x xs ih => simp [takeThrough, ih]

theorem takeThrough_cons {α : Type} (p : α → Bool) (x : α) (xs : List α) :
    takeThrough p (x :: xs) = x :: (if p x then [] else takeThrough p xs) := by
  simp only [takeThrough]; split <;> rfl

end Bio

namespace Bio.Newick

/-! ## Dropping siblings -/

/-- The sibling list without its first `i` trees. -/
def Forest.drop : Nat → Forest → Forest
  | 0, k => k
  | _ + 1, .nil => .nil
  | i + 1, .cons _ _ _ r => Forest.drop i r

@[simp] theorem Forest.drop_zero (k : Forest) : Forest.drop 0 k = k := by
  cases k <;> rfl

theorem Forest.drop_eq_nil_iff (k : Forest) (i : Nat) (h : i ≤ k.length) :
    Forest.drop i k = .nil ↔ i = k.length := by
  induction k generalizing i with
  | nil => cases i <;> simp_all [Forest.drop, Forest.length]
  | cons n d kk r _ ih =>
    cases i with
    | zero => simp [Forest.drop, Forest.length]; omega
    | succ i =>
      simp only [Forest.drop, Forest.length] at h ⊢
      rw [ih i (by omega)]; omega

theorem Forest.drop_eq_cons (k : Forest) (i : Nat) {a d kk r}
    (h : Forest.drop i k = .cons a d kk r) :
    k.get? i = some ⟨a, d, kk⟩ ∧ Forest.drop (i + 1) k = r ∧ i < k.length := by
  induction k generalizing i with
  | nil => cases i <;> simp [Forest.drop] at h
  | cons n d' kk' r' _ ih =>
    cases i with
    | zero =>
      simp only [Forest.drop_zero] at h
      cases h
      simp [Forest.get?, Forest.drop, Forest.length]; omega
    | succ i =>
      simp only [Forest.drop] at h
      obtain ⟨h1, h2, h3⟩ := ih i h
      refine ⟨by simpa [Forest.get?] using h1, by simpa [Forest.drop] using h2, ?_⟩
      simp only [Forest.length]; omega

/-! ## Specification of a machine state -/

/-- Recursive order over a sibling list, selected by `pre`. -/
def recF (pre : Bool) (k : Forest) : List Tree := if pre then preRecF k else postRecF k

/-- The uninterrupted output still to come from a stack (top frame first):
for the frame `(n, i)`: `n` itself when in pre-order and not yet started, the
subtrees of `n` from child `i` on, `n` itself when in post-order; then the rest
of the stack. -/
def pending (pre : Bool) : List (Tree × Nat) → List Tree
  | [] => []
  | (n, i) :: s =>
    (if pre && i == 0 then [n] else []) ++ recF pre (Forest.drop i n.kids)
      ++ (if pre then [] else [n]) ++ pending pre s

/-- Number of machine steps still needed by a stack. -/
def work : List (Tree × Nat) → Nat
  | [] => 0
  | (n, i) :: s => 2 * (Forest.drop i n.kids).size + 1 + work s

/-- Every frame's child index is within range. -/
def WF (s : List (Tree × Nat)) : Prop := ∀ x ∈ s, x.2 ≤ x.1.kids.length

theorem trav_eq_pending (pre : Bool) (f : Tree → Bool) (fuel : Nat) (s : List (Tree × Nat))
    (hwf : WF s) (hfuel : work s ≤ fuel) :
    trav pre f fuel s = takeThrough (fun x => !f x) (pending pre s) := by
  induction fuel generalizing s with
  | zero =>
    cases s with
    | nil => simp [trav, pending, takeThrough]
    | cons x s => obtain ⟨n, i⟩ := x; simp [work] at hfuel
  | succ fuel ih =>
    cases s with
    | nil => simp [trav, pending, takeThrough]
    | cons x s =>
      obtain ⟨n, i⟩ := x
      have hi : i ≤ n.kids.length := hwf (n, i) (by simp)
      have hwfs : WF s := fun y hy => hwf y (by simp [hy])
      have hp : pending pre ((n, i) :: s) =
          (if pre && i == 0 then [n] else []) ++ recF pre (Forest.drop i n.kids)
            ++ (if pre then [] else [n]) ++ pending pre s := rfl
      rw [hp]
      cases hd : Forest.drop i n.kids with
      | nil =>
        have hil : (i == n.kids.length) = true := by
          simpa using (Forest.drop_eq_nil_iff _ _ hi).1 hd
        have hw : work s ≤ fuel := by simp [work, hd, Forest.size] at hfuel; omega
        have ih' := ih s hwfs hw
        cases pre <;> cases h0 : (i == 0) <;> cases hfn : f n <;>
          simp [trav, recF, preRecF, postRecF, takeThrough_cons, hil, h0, hfn, ih']
      | cons a d kk r =>
        obtain ⟨hget, hdrop, hlt⟩ := Forest.drop_eq_cons _ _ hd
        have hne : (i == n.kids.length) = false := by simp; omega
        have hwf' : WF ((⟨a, d, kk⟩, 0) :: (n, i + 1) :: s) := by
          intro y hy
          simp only [List.mem_cons] at hy
          rcases hy with rfl | rfl | hy
          · simp
          · exact hlt
          · exact hwfs y hy
        have hw : work ((⟨a, d, kk⟩, 0) :: (n, i + 1) :: s) ≤ fuel := by
          simp only [work, hd, Forest.size, Forest.drop_zero, hdrop] at hfuel ⊢; omega
        have ih' := ih _ hwf' hw
        have hp' : pending pre ((⟨a, d, kk⟩, 0) :: (n, i + 1) :: s) =
            (if pre then [⟨a, d, kk⟩] else []) ++ recF pre kk
              ++ (if pre then [] else [⟨a, d, kk⟩]) ++ (recF pre r
              ++ (if pre then [] else [n]) ++ pending pre s) := by
          simp [pending, hdrop]
        rw [hp'] at ih'
        cases pre <;> cases h0 : (i == 0) <;> cases hfn : f n <;>
          simp [trav, recF, preRecF, postRecF, takeThrough_cons, hne, h0, hfn, hget, ih']

/-! ## Sizes -/

theorem preRecF_length (k : Forest) : (preRecF k).length = k.size := by
  induction k with
  | nil => rfl
  | cons n d kk r ih1 ih2 => simp [preRecF, Forest.size, ih1, ih2]; omega

theorem postRecF_length (k : Forest) : (postRecF k).length = k.size := by
  induction k with
  | nil => rfl
  | cons n d kk r ih1 ih2 => simp [postRecF, Forest.size, ih1, ih2]; omega

/-- The machine started on a single tree. -/
theorem trav_start (pre : Bool) (f : Tree → Bool) (t : Tree) (fuel : Nat)
    (h : 2 * t.size ≤ fuel + 1) :
    trav pre f fuel [(t, 0)]
      = takeThrough (fun x => !f x) (if pre then preRec t else postRec t) := by
  rw [trav_eq_pending pre f fuel [(t, 0)]]
  · cases pre <;> simp [pending, recF, preRec, postRec]
  · intro x hx; simp at hx; subst hx; simp
  · simp only [work, Forest.drop_zero, Tree.size] at h ⊢; omega

end Bio.Newick
