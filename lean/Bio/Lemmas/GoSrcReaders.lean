/-
  The two reader methods `(*reader).read` of formats/fasta/fasta.go and formats/fastq/fastq.go,
  translated from the Go source text on every run into `Bio.Generated.GoSrc`
  (`fasta_read` over the remaining input bytes, `fastq_read` over the remaining `bufio.Scanner`
  tokens), ARE one step of the hand-written models `Bio.Model.Fasta` (`readOne`, `decodeSrc`)
  and `Bio.Model.Fastq` (`fromLines`).  Guarded by the translator's `<f>_Found` flags as in
  `Bio.Lemmas.GoSrc`.
-/
import Bio.Model.Fasta
import Bio.Model.Fastq
import Bio.Generated.GoSrc
import Bio.Lemmas.GoRt
import Bio.Lemmas.Fasta
import Bio.Lemmas.Fastq
set_option linter.unusedVariables false
set_option linter.unusedSimpArgs false
namespace Bio.GoSrcLemmas
open Bio Bio.GoRt Bio.Generated

/-! ## FASTA: `(*reader).read` is `Fasta.readOne` -/

/-- the mutable variables of the translated `read` loop: name, sequence, state, readAnything, pos, broke -/
abbrev FastaRS := Bytes × Bytes × Int × Bool × Nat × Bool

/-- the Go constants `stateNewLine`, `stateName`, `stateSequence` -/
def fastaStCode : Fasta.St → Int
  | .newline => 1
  | .name => 2
  | .seq => 3

/-- one iteration of the Go loop in a state other than `stateStart`, on the model's state -/
def fastaStep (st : Fasta.St) (b : UInt8) (n s : Bytes) (p : Nat) : ForInStep FastaRS :=
  if isNL b then .yield ⟨n, s, 1, true, p + 1, false⟩
  else match st with
    | .seq => .yield ⟨n, s ++ [b], 3, true, p + 1, false⟩
    | .name => .yield ⟨n ++ [b], s, 2, true, p + 1, false⟩
    | .newline => if b == 62 then .done ⟨n, s, 1, true, p, true⟩ else .yield ⟨n, s ++ [b], 3, true, p + 1, false⟩

theorem fasta_loop_suffix (st : Fasta.St) (x : Bytes) : (Fasta.loop st x).2.2 <:+ x := by
  induction x generalizing st with
  | nil => simp [Fasta.loop]
  | cons b rest ih =>
    cases st <;> simp only [Fasta.loop] <;> repeat' split
    all_goals first
      | exact List.suffix_refl _
      | exact List.IsSuffix.trans (ih _) (List.suffix_cons _ _)

theorem fasta_drop_of_suffix {α : Type} {r x : List α} (h : r <:+ x) : x.drop (x.length - r.length) = r := by
  obtain ⟨t, rfl⟩ := h
  simp

theorem fasta_loop_cons_nl (st : Fasta.St) (b : UInt8) (rest : Bytes) (h : isNL b = true) :
    Fasta.loop st (b :: rest) = Fasta.loop .newline rest := by
  cases st <;> simp [Fasta.loop, h]

theorem fasta_loop_cons_seq (b : UInt8) (rest : Bytes) (h : isNL b = false) :
    Fasta.loop .seq (b :: rest)
      = ((Fasta.loop .seq rest).1, b :: (Fasta.loop .seq rest).2.1, (Fasta.loop .seq rest).2.2) := by
  simp [Fasta.loop, h]

theorem fasta_loop_cons_name (b : UInt8) (rest : Bytes) (h : isNL b = false) :
    Fasta.loop .name (b :: rest)
      = (b :: (Fasta.loop .name rest).1, (Fasta.loop .name rest).2.1, (Fasta.loop .name rest).2.2) := by
  simp [Fasta.loop, h]

theorem fasta_loop_cons_newline_gt (b : UInt8) (rest : Bytes) (h : isNL b = false) (hb : (b == 62) = true) :
    Fasta.loop .newline (b :: rest) = ([], [], b :: rest) := by
  simp [Fasta.loop, h, hb]

theorem fasta_loop_cons_newline_other (b : UInt8) (rest : Bytes) (h : isNL b = false) (hb : ¬ (b == 62) = true) :
    Fasta.loop .newline (b :: rest)
      = ((Fasta.loop .seq rest).1, b :: (Fasta.loop .seq rest).2.1, (Fasta.loop .seq rest).2.2) := by
  simp [Fasta.loop, h, hb]

theorem fasta_loop_forIn (f : UInt8 → FastaRS → Option (ForInStep FastaRS))
    (hstep : ∀ st b n s ra p, f b ⟨n, s, fastaStCode st, ra, p, false⟩ = some (fastaStep st b n s p))
    (x : Bytes) : ∀ (st : Fasta.St) (n s : Bytes) (p : Nat),
    ∃ c, forIn x (⟨n, s, fastaStCode st, true, p, false⟩ : FastaRS) f
      = some ⟨n ++ (Fasta.loop st x).1, s ++ (Fasta.loop st x).2.1, c, true,
          p + (x.length - (Fasta.loop st x).2.2.length), !(Fasta.loop st x).2.2.isEmpty⟩ := by
  induction x with
  | nil => intro st n s p; exact ⟨fastaStCode st, by simp⟩
  | cons b rest ih =>
    intro st n s p
    simp only [List.forIn_cons, hstep, Option.bind_eq_bind, Option.pure_def, Option.bind_some]
    have hle := fun st => Fasta.loop_rest_le st rest
    by_cases hnl : isNL b = true
    · obtain ⟨c, hc⟩ := ih .newline n s (p + 1)
      simp only [fastaStCode] at hc
      refine ⟨c, ?_⟩
      rw [fasta_loop_cons_nl st b rest hnl]
      simp only [fastaStep, hnl, if_true, Option.bind_some]
      have := hle .newline
      simp only [List.length_cons]
      rw [hc]
      congr 6; omega
    · have hnl' : isNL b = false := by simpa using hnl
      cases st with
      | seq =>
        obtain ⟨c, hc⟩ := ih .seq n (s ++ [b]) (p + 1)
        simp only [fastaStCode] at hc
        refine ⟨c, ?_⟩
        rw [fasta_loop_cons_seq b rest hnl']
        simp only [fastaStep, hnl', Option.bind_some]
        have := hle .seq
        simp only [List.length_cons, List.append_assoc, List.singleton_append, Bool.false_eq_true, if_false]
        rw [hc]; simp only [List.append_assoc, List.singleton_append]
        congr 6; omega
      | name =>
        obtain ⟨c, hc⟩ := ih .name (n ++ [b]) s (p + 1)
        simp only [fastaStCode] at hc
        refine ⟨c, ?_⟩
        rw [fasta_loop_cons_name b rest hnl']
        simp only [fastaStep, hnl', Option.bind_some]
        have := hle .name
        simp only [List.length_cons, List.append_assoc, List.singleton_append, Bool.false_eq_true, if_false]
        rw [hc]; simp only [List.append_assoc, List.singleton_append]
        congr 6; omega
      | newline =>
        by_cases hgt : (b == 62) = true
        · refine ⟨1, ?_⟩
          rw [fasta_loop_cons_newline_gt b rest hnl' hgt]
          simp [fastaStep, hnl', hgt]
        · obtain ⟨c, hc⟩ := ih .seq n (s ++ [b]) (p + 1)
          simp only [fastaStCode] at hc
          refine ⟨c, ?_⟩
          rw [fasta_loop_cons_newline_other b rest hnl' hgt]
          simp only [fastaStep, hnl', hgt, Option.bind_some]
          have := hle .seq
          simp only [List.length_cons, List.append_assoc, List.singleton_append, Bool.false_eq_true, if_false]
          rw [hc]; simp only [List.append_assoc, List.singleton_append]
          congr 6; omega

/-- the whole loop on a non-empty input, for any body `f` that behaves like the Go `switch` and any
continuation `k` (the code after the loop) -/
theorem fasta_core {β : Type} (f : UInt8 → FastaRS → Option (ForInStep FastaRS)) (k : FastaRS → Option β)
    (b : UInt8) (rest : Bytes) (R : β)
    (h0 : ∀ b n s ra p br, f b ⟨n, s, 0, ra, p, br⟩
        = some (.yield ⟨n, s ++ Fasta.startSeq b, fastaStCode (Fasta.startState b), true, p + 1, br⟩))
    (hstep : ∀ st b n s ra p, f b ⟨n, s, fastaStCode st, ra, p, false⟩ = some (fastaStep st b n s p))
    (hk : ∀ c q, (b :: rest).drop q = (Fasta.readOne b rest).2 →
      k ⟨(Fasta.readOne b rest).1.name, (Fasta.readOne b rest).1.seq, c, true, q,
          !(Fasta.readOne b rest).2.isEmpty⟩ = some R) :
    (forIn (b :: rest) (⟨[], [], 0, false, 0, false⟩ : FastaRS) f).bind k = some R := by
  simp only [List.forIn_cons, h0, Option.bind_eq_bind, Option.bind_some, List.nil_append]
  obtain ⟨c, hc⟩ := fasta_loop_forIn f hstep rest (Fasta.startState b) [] (Fasta.startSeq b) (0 + 1)
  rw [hc, Option.bind_some]
  have := hk c (0 + 1 + (rest.length - (Fasta.loop (Fasta.startState b) rest).2.2.length)) (by
    have := fasta_drop_of_suffix (fasta_loop_suffix (Fasta.startState b) rest)
    simp only [Fasta.readOne]
    rw [show 0 + 1 + (rest.length - (Fasta.loop (Fasta.startState b) rest).2.2.length)
      = (rest.length - (Fasta.loop (Fasta.startState b) rest).2.2.length) + 1 by omega, List.drop_succ_cons]
    exact this)
  simpa [Fasta.readOne] using this

theorem fasta_read_nil (hF : GoSrc.fasta_read_Found = true) (e : Ending) :
    GoSrc.fasta_read [] e = some ((none, endErr e), []) := by
  first
  | exact absurd hF (by decide)
  | (unfold GoSrc.fasta_read
     simp)

theorem fasta_read_cons (hF : GoSrc.fasta_read_Found = true) (b : UInt8) (rest : Bytes) (e : Ending) :
    GoSrc.fasta_read (b :: rest) e = some (
      if (Fasta.readOne b rest).2 = [] ∧ e = Ending.fail then ((none, GoErr.other), [])
      else ((some ((Fasta.readOne b rest).1.name, (Fasta.readOne b rest).1.seq), GoErr.nil),
            (Fasta.readOne b rest).2)) := by
  first
  | exact absurd hF (by decide)
  | (unfold GoSrc.fasta_read
     simp only [Option.pure_def, Option.bind_eq_bind]
     apply fasta_core
     · intro b n s ra p br
       unfold Fasta.startSeq Fasta.startState
       by_cases h1 : b = 62
       · subst h1; simp [fastaStCode]
       · by_cases h2 : isNL b = true
         · have h2' := h2; simp only [isNL] at h2'; simp [fastaStCode, h1, h2, h2']
         · have h2' := h2; simp only [isNL] at h2'; simp [fastaStCode, h1, h2, h2']
     · intro st b n s ra p
       unfold fastaStep
       by_cases h2 : isNL b = true
       · have h2' := h2; simp only [isNL] at h2'; cases st <;> simp [fastaStCode, h2, h2']
       · have h2' := h2; simp only [isNL] at h2'
         cases st <;> simp [fastaStCode, h2, h2']
         by_cases h1 : b = 62 <;> simp [h1]
     · intro c q hq
       simp only [hq]
       cases e <;> cases h : (Fasta.readOne b rest).2 <;> simp [endErr])
/-- no call panics -/
theorem fasta_read_isSome (hF : GoSrc.fasta_read_Found = true) (x : Bytes) (e : Ending) :
    (GoSrc.fasta_read x e).isSome = true := by
  cases x with
  | nil => rw [fasta_read_nil hF]; rfl
  | cons b rest => rw [fasta_read_cons hF]; rfl

/-- the unread rest after a record is shorter than the input -/
theorem fasta_readOne_rest_lt (b : UInt8) (rest : Bytes) : (Fasta.readOne b rest).2.length < (b :: rest).length := by
  have := Fasta.loop_rest_le (Fasta.startState b) rest
  simp only [Fasta.readOne, List.length_cons]
  omega

/-! ## FASTQ: `(*reader).read` is one step of `Fastq.fromLines` -/

/-- one call of `(*reader).read` of formats/fastq on the remaining `Scanner` tokens: the returned
`(*Fastq, error)` and the tokens left unread -/
def fastqStep (e : Ending) : List Bytes → (Option (Bytes × Bytes × Bytes) × GoErr) × List Bytes
  | [] => ((none, if e = .eof then GoErr.eof else GoErr.other), [])
  | l1 :: rest1 =>
    if l1.head? ≠ some 64 then ((none, GoErr.other), rest1) else
    match rest1 with
    | [] => ((none, GoErr.other), [])
    | [_] => ((none, GoErr.other), [])
    | sq :: pl :: rest2 =>
      if pl.head? ≠ some 43 then ((none, GoErr.other), rest2) else
      match rest2 with
      | [] => ((none, GoErr.other), [])
      | ql :: rest =>
        if ql.length = sq.length then ((some (l1.tail, sq, ql), GoErr.nil), rest)
        else ((none, GoErr.other), rest)

theorem fastq_slice_tail (c : UInt8) (name : Bytes) : slice (c :: name) 1 (len (c :: name)) = some name := by
  have := slice_ofNat (c :: name) 1 (name.length + 1) (by omega) (by simp)
  simpa [len] using this

theorem fastq_read_spec (hF : GoSrc.fastq_read_Found = true) (e : Ending) (ls : List Bytes) :
    GoSrc.fastq_read ls e = some (fastqStep e ls) := by
  first
  | exact absurd hF (by decide)
  | (unfold GoSrc.fastq_read
     simp only [Option.pure_def, Option.bind_eq_bind]
     rcases ls with _ | ⟨l1, rest1⟩
     · cases e <;> simp [scan, scanErr, fastqStep]
     · rcases l1 with _ | ⟨c, name⟩
       · simp [scan, fastqStep, len]
       · have hlen : (len (c :: name) == 0) = false := by simp [len]; omega
         have hidx : idx (c :: name) 0 = some c := by simp [idx]
         by_cases hc : c = 64
         · subst hc
           simp only [scan, hlen, hidx, fastq_slice_tail]
           rcases rest1 with _ | ⟨sq, _ | ⟨pl, rest2⟩⟩
           · cases e <;> simp [scan, scanErr, fastqStep]
           · cases e <;> simp [scan, scanErr, fastqStep]
           · rcases pl with _ | ⟨d, pl'⟩
             · simp [scan, fastqStep, List.isPrefixOf]
             · by_cases hd : d = 43
               · subst hd
                 rcases rest2 with _ | ⟨ql, rest⟩
                 · cases e <;> simp [scan, scanErr, fastqStep, List.isPrefixOf]
                 · by_cases hl : ql.length = sq.length
                   · simp [scan, fastqStep, List.isPrefixOf, len, hl]
                   · have hl' : ¬ ((ql.length : Int) = (sq.length : Int)) := by omega
                     simp [scan, fastqStep, List.isPrefixOf, len, hl, hl']
               · have hd' : ¬ (43 : UInt8) = d := fun h => hd h.symm
                 simp [scan, fastqStep, List.isPrefixOf, hd, hd']
         · simp [scan, fastqStep, hlen, hidx, hc])

theorem fastqStep_nil (e : Ending) :
    fastqStep e [] = ((none, if e = .eof then GoErr.eof else GoErr.other), []) := rfl

theorem fastqStep_ok (e : Ending) (name sq pl ql : Bytes) (rest : List Bytes) (h : ql.length = sq.length) :
    fastqStep e ((64 :: name) :: sq :: (43 :: pl) :: ql :: rest) = ((some (name, sq, ql), GoErr.nil), rest) := by
  simp [fastqStep, h]

/-- what one call returns, what the model does with the same lines, and that a delivered record
consumes lines -/
theorem fastqStep_cases (e : Ending) (ls : List Bytes) :
    (ls = [] ∧ fastqStep e ls = ((none, endErr e), []) ∧ Fastq.fromLines e ls = (match e with | .eof => [] | .fail => [.err]))
    ∨ (∃ name sq pl ql rest, ls = (64 :: name) :: sq :: (43 :: pl) :: ql :: rest ∧ ql.length = sq.length
        ∧ fastqStep e ls = ((some (name, sq, ql), GoErr.nil), rest)
        ∧ Fastq.fromLines e ls = .ok ⟨name, sq, ql⟩ :: Fastq.fromLines e rest)
    ∨ (ls ≠ [] ∧ (¬ ∃ name sq pl ql rest, ls = (64 :: name) :: sq :: (43 :: pl) :: ql :: rest ∧ ql.length = sq.length)
        ∧ (fastqStep e ls).1 = (none, GoErr.other) ∧ Fastq.fromLines e ls = [.err]) := by
  rcases ls with _ | ⟨l1, rest1⟩
  · left; cases e <;> simp [fastqStep, endErr, Fastq.fromLines]
  · right
    by_cases h1 : l1.head? = some 64
    · obtain ⟨name, rfl⟩ : ∃ name, l1 = 64 :: name := by
        cases l1 with
        | nil => simp at h1
        | cons c name => simp at h1; exact ⟨name, by rw [h1]⟩
      rcases rest1 with _ | ⟨sq, _ | ⟨pl, rest2⟩⟩
      · right; simp [fastqStep, Fastq.fromLines]
      · right; simp [fastqStep, Fastq.fromLines]
      · by_cases h3 : pl.head? = some 43
        · obtain ⟨pl', rfl⟩ : ∃ pl', pl = 43 :: pl' := by
            cases pl with
            | nil => simp at h3
            | cons c t => simp at h3; exact ⟨t, by rw [h3]⟩
          rcases rest2 with _ | ⟨ql, rest⟩
          · right; simp [fastqStep, Fastq.fromLines]
          · by_cases hl : ql.length = sq.length
            · left; exact ⟨name, sq, pl', ql, rest, rfl, hl, by simp [fastqStep, hl], by simp [Fastq.fromLines, hl]⟩
            · right
              refine ⟨by simp, ?_, by simp [fastqStep, hl], by simp [Fastq.fromLines, hl]⟩
              rintro ⟨n', s', p', q', r', heq, hq⟩
              simp only [List.cons.injEq] at heq
              obtain ⟨_, rfl, _, rfl, _⟩ := heq
              exact hl hq
        · right
          refine ⟨by simp, ?_, by simp [fastqStep, h3], ?_⟩
          · rintro ⟨n', s', p', q', r', heq, hq⟩
            simp only [List.cons.injEq] at heq
            obtain ⟨_, _, rfl, _⟩ := heq
            simp at h3
          · rcases rest2 with _ | ⟨ql, rest⟩
            · simp [Fastq.fromLines]
            · exact Fastq.fromLines_no_plus e name sq pl ql rest h3
    · right
      refine ⟨by simp, ?_, by simp [fastqStep, h1], Fastq.fromLines_no_at e l1 rest1 h1⟩
      rintro ⟨n', s', p', q', r', heq, hq⟩
      simp only [List.cons.injEq] at heq
      obtain ⟨rfl, _⟩ := heq
      simp at h1

/-- `fastq_read` on no tokens: `io.EOF` at a clean end of input, the scanner's error otherwise -/
theorem fastq_read_nil (hF : GoSrc.fastq_read_Found = true) (e : Ending) :
    GoSrc.fastq_read [] e = some ((none, if e = .eof then GoErr.eof else GoErr.other), []) := by
  rw [fastq_read_spec hF]; rfl

/-- `fastq_read` on four well-formed lines -/
theorem fastq_read_ok (hF : GoSrc.fastq_read_Found = true) (e : Ending) (name sq pl ql : Bytes)
    (rest : List Bytes) (h : ql.length = sq.length) :
    GoSrc.fastq_read ((64 :: name) :: sq :: (43 :: pl) :: ql :: rest) e
      = some ((some (name, sq, ql), GoErr.nil), rest) := by
  rw [fastq_read_spec hF, fastqStep_ok e name sq pl ql rest h]

/-- `fastq_read` on anything else: an error other than `io.EOF` and no record (the tokens left
unread are `(fastqStep e ls).2`) -/
theorem fastq_read_err (hF : GoSrc.fastq_read_Found = true) (e : Ending) (ls : List Bytes) (hne : ls ≠ [])
    (hbad : ¬ ∃ name sq pl ql rest, ls = (64 :: name) :: sq :: (43 :: pl) :: ql :: rest ∧ ql.length = sq.length) :
    GoSrc.fastq_read ls e = some ((none, GoErr.other), (fastqStep e ls).2) := by
  rw [fastq_read_spec hF]
  rcases fastqStep_cases e ls with ⟨h, _⟩ | ⟨name, sq, pl, ql, rest, h, hl, _⟩ | ⟨_, _, h, _⟩
  · exact absurd h hne
  · exact absurd ⟨name, sq, pl, ql, rest, h, hl⟩ hbad
  · rw [← h]

end Bio.GoSrcLemmas
