/-
  Helper lemmas for the cross-format properties C06 (LF / CRLF), C07 (failing
  sources and failing writers) and C11 (accepted records are fixed points):
  the general part, FASTA, FASTQ and BED.  SAM is in `CrossSam.lean`, Newick in
  `CrossNewick.lean`.

  The well-formedness predicates of the round-trip theorems live in the
  property files C01–C05, so those are imported here.
-/
import Bio.Props.C01
import Bio.Props.C02
import Bio.Props.C03
import Bio.Props.C04
import Bio.Props.C05
namespace Bio

/-! ## `crlf`: every LF becomes CR LF -/

/-- Replace every LF (10) by CR LF (13, 10). -/
def crlf : Bytes → Bytes
  | [] => []
  | b :: r => if b = 10 then 13 :: 10 :: crlf r else b :: crlf r

theorem crlf_nil : crlf [] = [] := rfl

theorem crlf_cons_lf (r : Bytes) : crlf (10 :: r) = 13 :: 10 :: crlf r := by simp [crlf]

theorem crlf_cons_ne {b : UInt8} (h : b ≠ 10) (r : Bytes) : crlf (b :: r) = b :: crlf r := by
  simp [crlf, h]

theorem crlf_append (a b : Bytes) : crlf (a ++ b) = crlf a ++ crlf b := by
  induction a with
  | nil => rfl
  | cons c a ih =>
    by_cases hc : c = 10
    · subst hc; simp [crlf, ih]
    · simp [crlf, hc, ih]

theorem crlf_of_not_mem {l : Bytes} (h : (10 : UInt8) ∉ l) : crlf l = l := by
  induction l with
  | nil => rfl
  | cons c l ih =>
    simp only [List.mem_cons, not_or] at h
    rw [crlf_cons_ne (Ne.symm h.1), ih h.2]

/-- The CRLF form of an LF-terminated file of LF-free lines is the CRLF-terminated file. -/
theorem crlf_lfFile (ls : List Bytes) (h : ∀ l ∈ ls, (10 : UInt8) ∉ l) :
    crlf (lfFile ls) = crlfFile ls := by
  induction ls with
  | nil => rfl
  | cons l ls ih =>
    rw [lfFile_cons, crlfFile_cons, crlf_append, crlf_of_not_mem (h l (by simp)), crlf_cons_lf,
      ih (fun m hm => h m (List.mem_cons_of_mem _ hm))]

/-- Line scanning does not see the difference between LF and CRLF terminators, for lines
free of CR and LF. -/
theorem scanLines_crlf_lfFile (ls : List Bytes) (h : ∀ l ∈ ls, ∀ b ∈ l, b ≠ 10 ∧ b ≠ 13) :
    scanLines (crlf (lfFile ls)) = scanLines (lfFile ls) := by
  have hlf : ∀ l ∈ ls, (10 : UInt8) ∉ l := fun l hl hm => (h l hl 10 hm).1 rfl
  rw [crlf_lfFile ls hlf, scanLines_crlfFile ls hlf, scanLines_lfFile ls]
  intro l hl
  exact ⟨hlf l hl, fun hg => (h l hl 13 (List.mem_of_getLast? hg)).2 rfl⟩

/-! ## `runWriter`: a writer that accepts `k` bytes in total, then fails -/

/-- Process the `Write` calls in order against a byte budget `k`.  A call that fits is
accepted whole; the first call that does not fit is accepted partially (the remaining
budget) and returns an error, after which no further call is made.  Result: the bytes
accepted and `true` iff every call returned `nil`. -/
def runWriter : Nat → List Bytes → Bytes × Bool
  | _, [] => ([], true)
  | k, c :: cs =>
    if c.length ≤ k then ((c ++ (runWriter (k - c.length) cs).1), (runWriter (k - c.length) cs).2)
    else (c.take k, false)

theorem runWriter_ok_iff (k : Nat) (calls : List Bytes) :
    (runWriter k calls).2 = true ↔ calls.flatten.length ≤ k := by
  induction calls generalizing k with
  | nil => simp [runWriter]
  | cons c cs ih =>
    rw [runWriter]
    split
    · rename_i h
      simp only [List.flatten_cons, List.length_append]
      rw [ih]; omega
    · rename_i h
      simp only [List.flatten_cons, List.length_append]
      constructor
      · intro h'; cases h'
      · intro h'; omega

theorem runWriter_bytes (k : Nat) (calls : List Bytes) :
    (runWriter k calls).1 = calls.flatten.take k := by
  induction calls generalizing k with
  | nil => simp [runWriter]
  | cons c cs ih =>
    rw [runWriter]
    split
    · rename_i h
      simp only [List.flatten_cons]
      rw [ih, List.take_append, List.take_of_length_le h]
    · rename_i h
      simp only [List.flatten_cons]
      rw [List.take_append_of_le_length (by omega)]

/-! ## General list facts -/

theorem getLast?_cons_of_some {α : Type} {a b : α} {l : List α} (h : l.getLast? = some b) :
    (a :: l).getLast? = some b := by
  cases l with
  | nil => simp at h
  | cons c l => rw [List.getLast?_cons_cons]; exact h

theorem getLast?_append_singleton {α : Type} (l : List α) (a : α) :
    (l ++ [a]).getLast? = some a := by simp

/-- First piece of a split: starts with the first byte of the input unless that is the
separator. -/
theorem splitOn_head_head (sep c : UInt8) (r : Bytes) :
    ((splitOn sep (c :: r))[0]?.getD []).head? = if c = sep then none else some c := by
  by_cases h : c = sep
  · subst h; simp [splitOn]
  · obtain ⟨p, ps, _, hb⟩ := splitOn_cons_ne h r
    rw [hb]; simp [h]

theorem atoi_range {s : Bytes} {v : Int} (h : atoi s = some v) :
    int64Min ≤ v ∧ v ≤ int64Max := by
  unfold atoi at h
  split at h
  rename_i x neg body heq
  cases hp : parseNat body with
  | none => simp [hp] at h
  | some n =>
    simp only [hp] at h
    by_cases hr : int64Min ≤ (if neg = true then -(n : Int) else (n : Int)) ∧
        (if neg = true then -(n : Int) else (n : Int)) ≤ int64Max
    · rw [if_pos hr] at h; cases h; exact hr
    · rw [if_neg hr] at h; cases h

/-! ## FASTA -/

namespace Fasta

/-- The layout with a fixed separator `s` after the name and after every sequence line. -/
def sepLayout (s : Bytes) (w : Nat) (r : Fa) : RecLayout :=
  ⟨r.name, s, (wrap w r.seq).map (fun c => (c, s))⟩

theorem sepLayout_allSeps (s : Bytes) (w : Nat) (rs : List Fa) :
    ∀ t ∈ allSeps (rs.map (sepLayout s w)), t = s := by
  intro t ht
  simp only [allSeps, RecLayout.seps, sepLayout, List.map_map, List.mem_flatten,
    List.mem_map, Function.comp_def] at ht
  obtain ⟨_, ⟨r, _, rfl⟩, ht⟩ := ht
  simp at ht
  rcases ht with ht | ⟨_, ht⟩
  · exact ht
  · exact ht.symm

theorem sepLayout_valid (s : Bytes) (hs : Sep s) (w : Nat) (hw : 0 < w) (rs : List Fa) :
    Valid (rs.map (sepLayout s w)) ∧ (rs.map (sepLayout s w)).map RecLayout.toFa = rs := by
  refine ⟨⟨?_, ?_, ?_⟩, ?_⟩
  · intro l hl c hc
    obtain ⟨r, _, rfl⟩ := List.mem_map.mp hl
    simp only [sepLayout, List.mem_map] at hc
    obtain ⟨d, hd, rfl⟩ := hc
    exact List.length_pos_iff.mp (wrap_mem_length w hw r.seq d hd).1
  · intro t ht
    rw [sepLayout_allSeps s w rs t ht]; exact hs.2
  · intro t ht
    rw [sepLayout_allSeps s w rs t (List.dropLast_subset _ ht)]; exact hs
  · rw [List.map_map]
    conv => rhs; rw [← List.map_id rs]
    apply List.map_congr_left
    intro r _
    simp [RecLayout.toFa, sepLayout, List.map_map, Function.comp_def, wrap_flatten w hw]

/-- The CRLF form of a written record is the record laid out with CR LF separators. -/
theorem crlf_encode (w : Nat) (hw : 0 < w) (r : Fa) (h : WF r) :
    crlf (encode w r) = renderRec (sepLayout [13, 10] w r) := by
  have hn : (10 : UInt8) ∉ r.name := fun hm => (h.1 10 hm).1 rfl
  have hc : ∀ l ∈ wrap w r.seq, (10 : UInt8) ∉ l :=
    fun l hl hm => (h.2 10 (wrap_mem_subset w hw r.seq l hl 10 hm)).1 rfl
  have e : encode w r = 62 :: (r.name ++ 10 :: lfFile (wrap w r.seq)) := by
    simp [encode_eq, lfFile]
  rw [e, crlf_cons_ne (by decide), crlf_append, crlf_of_not_mem hn, crlf_cons_lf,
    crlf_lfFile _ hc]
  simp [renderRec, sepLayout, crlfFile, List.map_map, Function.comp_def]

theorem crlf_encodeAll (w : Nat) (hw : 0 < w) (rs : List Fa) (h : ∀ r ∈ rs, WF r) :
    crlf (encodeAll w rs) = render (rs.map (sepLayout [13, 10] w)) := by
  induction rs with
  | nil => rfl
  | cons r rs ih =>
    have ih := ih (fun q hq => h q (List.mem_cons_of_mem _ hq))
    simp only [encodeAll, render, List.map_cons, List.flatten_cons] at ih ⊢
    rw [crlf_append, ih, crlf_encode w hw r (h r (by simp))]

/-- The decoder returns the written records from the CRLF form of the writer's output. -/
theorem decode_crlf (w : Nat) (hw : 0 < w) (rs : List Fa) (h : ∀ r ∈ rs, WF r) :
    decode (crlf (encodeAll w rs)) = rs.map Item.ok := by
  rw [crlf_encodeAll w hw rs h]
  obtain ⟨hv, ht⟩ := sepLayout_valid [13, 10] (by decide) w hw rs
  exact layout_decode rs h _ hv ht

/-- Under a failing source the last item is an error, whatever the bytes. -/
theorem fail_getLast (x : Bytes) : (decodeSrc .fail x).getLast? = some Item.err := by
  rw [fail_eq_dropLast]; simp

end Fasta

/-! ## FASTQ -/

namespace Fastq

theorem fromLines_ok_len (e : Ending) (ls : List Bytes) (r : Fq)
    (h : Item.ok r ∈ fromLines e ls) : r.seq.length = r.quals.length := by
  fun_induction fromLines e ls <;> simp_all
  rcases h with h | h
  · subst h; simp_all
  · simp_all

theorem decodeSrc_crlf (e : Ending) (rs : List Fq) (h : ∀ r ∈ rs, WF r) :
    decodeSrc e (crlf (encodeAll rs)) = decodeSrc e (encodeAll rs) := by
  have hc := allLines_clean rs h
  unfold decodeSrc
  rw [encodeAll_eq_lines]
  exact congrArg _ (scanLines_crlf_lfFile _ hc)

theorem fromLines_fail_getLast (ls : List Bytes) :
    (fromLines .fail ls).getLast? = some Item.err := by
  generalize he : Ending.fail = e
  fun_induction fromLines e ls
  all_goals try (subst_vars; simp_all; done)
  all_goals try cases he
  all_goals exact getLast?_cons_of_some (by assumption)

end Fastq

/-! ## BED -/

namespace Bed


theorem optInt_range {s : Bytes} {v : Int} (h : optInt s = some v) : inRange v := by
  unfold optInt at h
  split at h
  · cases h; decide
  · exact atoi_range h

theorem mapM_atoi_range : ∀ (fs : List Bytes) (l : List Int), fs.mapM atoi = some l →
    ∀ i ∈ l, inRange i
  | [], l, h => by simp at h; subst h; simp
  | f :: fs, l, h => by
    rw [List.mapM_cons] at h
    cases ha : atoi f with
    | none => simp [ha] at h
    | some a =>
      cases hr : fs.mapM atoi with
      | none => simp [ha, hr] at h
      | some r =>
        simp [ha, hr] at h
        subst h
        intro i hi
        rcases List.mem_cons.mp hi with rfl | hi
        · exact atoi_range ha
        · exact mapM_atoi_range fs r hr i hi

theorem parseIntList_range {s : Bytes} {l : List Int} (h : parseIntList s = some l) :
    ∀ i ∈ l, inRange i := by
  unfold parseIntList at h
  split at h
  · cases h; simp
  · exact mapM_atoi_range _ _ h

/-- Everything the parser guarantees about an accepted record. -/
theorem parseLine_some {fs : List Bytes} {b : Bed} (h : parseLine fs = some b) :
    3 ≤ fs.length ∧ fs.length ≤ 12 ∧ b.n = fs.length ∧ b.chrom = fs[0]?.getD [] ∧
    validStrand b.strand = true ∧
    inRange b.chromStart ∧ inRange b.chromEnd ∧ inRange b.score ∧
    inRange b.thickStart ∧ inRange b.thickEnd ∧ inRange b.blockCount ∧
    (∀ i ∈ b.blockSizes, inRange i) ∧ (∀ i ∈ b.blockStarts, inRange i) ∧
    (fs.length > 10 → (b.blockSizes.length : Int) = b.blockCount) ∧
    (fs.length > 11 → (b.blockStarts.length : Int) = b.blockCount) ∧
    truncate fs.length b = b := by
  unfold parseLine at h
  simp only at h
  split at h
  · cases h
  · rename_i hlen
    split at h
    · rename_i cs ce sc ts te rgb bc bs bst h1 h2 h4 h6 h7 h8 h9 h10 h11
      split at h
      · cases h
      · rename_i hstrand
        split at h
        · cases h
        · rename_i hbs
          split at h
          · cases h
          · rename_i hbst
            cases h
            have hf : ∀ i, fs.length ≤ i → fs[i]?.getD [] = [] := by
              intro i hi; rw [List.getElem?_eq_none hi]; rfl
            have hstrand' : validStrand (fs[5]?.getD []) = true := by simpa using hstrand
            have hbs' : fs.length > 10 → (bs.length : Int) = bc := by
              intro hgt; exact Classical.not_not.mp (fun hne => hbs ⟨hgt, hne⟩)
            have hbst' : fs.length > 11 → (bst.length : Int) = bc := by
              intro hgt; exact Classical.not_not.mp (fun hne => hbst ⟨hgt, hne⟩)
            refine ⟨by omega, by omega, rfl, rfl, hstrand', atoi_range h1, atoi_range h2,
              optInt_range h4, optInt_range h6, optInt_range h7, optInt_range h9,
              parseIntList_range h10, parseIntList_range h11, hbs', hbst', ?_⟩
            simp only [truncate]
            have e3 : (if fs.length > 3 then fs[3]?.getD [] else []) = fs[3]?.getD [] := by
              split
              · rfl
              · exact (hf 3 (by omega)).symm
            have e4 : (if fs.length > 4 then sc else 0) = sc := by
              split
              · rfl
              · rw [hf 4 (by omega)] at h4; cases h4; rfl
            have e5 : (if fs.length > 5 then fs[5]?.getD [] else []) = fs[5]?.getD [] := by
              split
              · rfl
              · exact (hf 5 (by omega)).symm
            have e6 : (if fs.length > 6 then ts else 0) = ts := by
              split
              · rfl
              · rw [hf 6 (by omega)] at h6; cases h6; rfl
            have e7 : (if fs.length > 7 then te else 0) = te := by
              split
              · rfl
              · rw [hf 7 (by omega)] at h7; cases h7; rfl
            have e8 : (if fs.length > 8 then rgb else (0, 0, 0)) = rgb := by
              split
              · rfl
              · rw [hf 8 (by omega)] at h8; cases h8; rfl
            have e9 : (if fs.length > 9 then bc else 0) = bc := by
              split
              · rfl
              · rw [hf 9 (by omega)] at h9; cases h9; rfl
            have e10 : (if fs.length > 10 then bs else []) = bs := by
              split
              · rfl
              · rw [hf 10 (by omega)] at h10; cases h10; rfl
            have e11 : (if fs.length > 11 then bst else []) = bst := by
              split
              · rfl
              · rw [hf 11 (by omega)] at h11; cases h11; rfl
            rw [e3, e4, e5, e6, e7, e8, e9, e10, e11]
    · cases h

theorem fromLines_ok_mem (e : Ending) (ls : List Bytes) : ∀ (nf : Option Nat) (b : Bed),
    Item.ok b ∈ fromLines e nf ls →
    ∃ l ∈ ls, isSkipped l = false ∧ parseLine (splitOn TAB l) = some b := by
  induction ls with
  | nil => intro nf b h; cases e <;> simp [fromLines, endItems] at h
  | cons l rest ih =>
    intro nf b h
    simp only [fromLines] at h
    split at h
    · obtain ⟨m, hm, h2⟩ := ih nf b h
      exact ⟨m, List.mem_cons_of_mem _ hm, h2⟩
    · rename_i hsk
      split at h
      · simp at h
      · split at h
        · simp at h
        · rename_i b' hp
          rcases List.mem_cons.mp h with h | h
          · cases h
            exact ⟨l, by simp, by simpa using hsk, hp⟩
          · obtain ⟨m, hm, h2⟩ := ih _ b h
            exact ⟨m, List.mem_cons_of_mem _ hm, h2⟩

/-- A record accepted by the reader, whose two free-text fields are free of TAB/CR/LF,
is in the domain of the round-trip theorem, with `N` = its own field count, and has no
junk beyond its `N` fields. -/
theorem accepted_WF (e : Ending) (x : Bytes) (b : Bed) (hm : Item.ok b ∈ decodeSrc e x)
    (hc : textOK b.chrom) (hn : textOK b.name) :
    ∃ N : Nat, WF N b ∧ truncate N b = b := by
  obtain ⟨l, _, hsk, hp⟩ := fromLines_ok_mem e _ none b hm
  obtain ⟨h3, h12, hN, hchrom, hstrand, hcs, hce, hsc, hts, hte, hbc, hsz, hst, hbs, hbst, htr⟩ :=
    parseLine_some hp
  refine ⟨(splitOn TAB l).length, ⟨h3, h12, hN, hc, ?_, hn, hstrand, hcs, hce, hsc, hts, hte, hbc,
    hsz, hst, ?_, ?_⟩, htr⟩
  · rw [hchrom]
    cases l with
    | nil => simp [isSkipped] at hsk
    | cons c r =>
      rw [splitOn_head_head]
      split
      · simp
      · intro h35
        have : c = 35 := by simpa using h35
        subst this
        simp [isSkipped] at hsk
  · exact hbs
  · exact hbst

theorem fromLines_fail_getLast (ls : List Bytes) : ∀ nf,
    (fromLines .fail nf ls).getLast? = some Item.err := by
  induction ls with
  | nil => intro nf; rfl
  | cons l rest ih =>
    intro nf
    simp only [fromLines]
    split
    · exact ih nf
    · split
      · rfl
      · split
        · rfl
        · exact getLast?_cons_of_some (ih _)

/-- The file the writer produces for well-formed records is the LF file of their lines. -/
theorem encode_file_eq (N : Nat) (bs : List Bed) (h : ∀ b ∈ bs, WF N b) :
    (bs.map fun b => (encode b).getD []).flatten =
      lfFile (bs.map fun b => (encodeLine b).getD []) := by
  unfold lfFile
  rw [List.map_map]
  congr 1
  apply List.map_congr_left
  intro b hb
  obtain ⟨line, h1, h2, _⟩ := encode_one_line N b (h b hb)
  simp [h1, h2, LF]

theorem decode_crlf (N : Nat) (bs : List Bed) (h : ∀ b ∈ bs, WF N b) :
    decode (crlf (bs.map fun b => (encode b).getD []).flatten) =
      bs.map (fun b => Item.ok (truncate N b)) := by
  rw [encode_file_eq N bs h, crlf_lfFile]
  · have := file_roundtrip_crlf N bs h
    simpa [crlfFile, List.map_map, Function.comp_def] using this
  · intro l hl
    obtain ⟨b, hb, rfl⟩ := List.mem_map.mp hl
    obtain ⟨line, _, h2, h3, _⟩ := encode_one_line N b (h b hb)
    rw [h2]
    intro hm
    exact (h3 10 hm).1 rfl

/-! ### The `Write` calls of `BED.Write` -/


/-- The `Fprintf` calls for a block list: the first element bare, every further one
preceded by a comma (each its own call). -/
def listCalls : List Int → List Bytes
  | [] => []
  | x :: xs => itoa x :: xs.map (fun y => COMMA :: itoa y)

/-- The sequence of `Write` calls `BED.Write` makes when `3 ≤ N ≤ 12` (one per `Fprintf`,
/repo/formats/bed/bed.go). -/
def writeCalls (b : Bed) : List Bytes :=
  [b.chrom ++ TAB :: itoa b.chromStart ++ TAB :: itoa b.chromEnd] ++
  (if b.n > 3 then [TAB :: b.name] else []) ++
  (if b.n > 4 then [TAB :: itoa b.score] else []) ++
  (if b.n > 5 then [TAB :: b.strand] else []) ++
  (if b.n > 6 then [TAB :: itoa b.thickStart] else []) ++
  (if b.n > 7 then [TAB :: itoa b.thickEnd] else []) ++
  (if b.n > 8 then [TAB :: (natDigits b.rgb.1.toNat ++ COMMA :: natDigits b.rgb.2.1.toNat ++
      COMMA :: natDigits b.rgb.2.2.toNat)] else []) ++
  (if b.n > 9 then [TAB :: itoa b.blockCount] else []) ++
  (if b.n > 10 then [TAB] :: listCalls b.blockSizes else []) ++
  (if b.n > 11 then [TAB] :: listCalls b.blockStarts else []) ++
  [[LF]]

theorem listCalls_flatten (l : List Int) : (listCalls l).flatten = intList l := by
  cases l with
  | nil => rfl
  | cons x xs =>
    simp only [listCalls, intList, List.map_cons, joinWith_cons, List.flatten_cons, List.map_map]
    rfl

theorem writeCalls_flatten (b : Bed) (t : Bytes) (h : encode b = some t) :
    (writeCalls b).flatten = t := by
  unfold encode encodeLine at h
  split at h
  · simp at h
  · rename_i hr
    simp at h
    subst h
    have hn : b.n = 3 ∨ b.n = 4 ∨ b.n = 5 ∨ b.n = 6 ∨ b.n = 7 ∨ b.n = 8 ∨ b.n = 9 ∨ b.n = 10 ∨
        b.n = 11 ∨ b.n = 12 := by omega
    rcases hn with hn | hn | hn | hn | hn | hn | hn | hn | hn | hn <;>
      simp [writeCalls, hn, allFields, joinWith, listCalls_flatten]

end Bed

/-! ## SAM (C06 and the failing source; the fixed point is in `CrossSam.lean`) -/

namespace Sam

theorem decode_crlf (pf : Bytes → Option Bytes) (hs : List Bytes) (rs : List Sam)
    (hh : ∀ h ∈ hs, hdrOK h) (hr : ∀ s ∈ rs, WF pf s) :
    decodeHeader pf (crlf ((hs ++ rs.map encodeLine).map (· ++ [10])).flatten) =
      decodeHeader pf ((hs ++ rs.map encodeLine).map (· ++ [10])).flatten ∧
    decode pf (crlf ((hs ++ rs.map encodeLine).map (· ++ [10])).flatten) =
      decode pf ((hs ++ rs.map encodeLine).map (· ++ [10])).flatten := by
  have hlf : ∀ l ∈ hs ++ rs.map encodeLine, (10 : UInt8) ∉ l :=
    fun l hl => (samLines_plain pf hs rs hh hr l hl).1
  have e : crlf ((hs ++ rs.map encodeLine).map (· ++ [10])).flatten =
      ((hs ++ rs.map encodeLine).map (· ++ [13, 10])).flatten := crlf_lfFile _ hlf
  rw [e]
  obtain ⟨a1, a2⟩ := file_roundtrip pf hs rs hh hr
  obtain ⟨b1, b2⟩ := file_roundtrip_crlf pf hs rs hh hr
  exact ⟨b1.trans a1.symm, b2.trans a2.symm⟩

theorem header_fail_getLast (pf : Bytes → Option Bytes) (x : Bytes) :
    (decodeHeaderSrc pf .fail x).getLast? = some Item.err := by
  simp [decodeHeaderSrc, endItems]

theorem fail_getLast (pf : Bytes → Option Bytes) (x : Bytes) :
    (decodeSrc pf .fail x).getLast? = some Item.err := by
  simp [decodeSrc, decodeHeaderSrc, endItems, dropHeaders_append, dropHeaders]

end Sam

/-! ## Newick (C06; the failing source and the fixed point are in `CrossNewick.lean`) -/

namespace Newick

/-- Trees each followed by the fixed whitespace string `w` are read back. -/
theorem decode_sep (qs : Bytes) (pd : Bytes → Option Dist) (h : QS_OK qs) (w : Bytes)
    (hw : ∀ b ∈ w, isWS b = true) (ts : List Tree) (hd : ∀ t ∈ ts, t.AllDist (DistOK pd)) :
    decode pd (ts.flatMap fun t => write qs t ++ w) = ts.map Item.ok := by
  have := trees_roundtrip qs pd h [] (ts.map fun t => (t, w)) (by simp)
    (by simpa using hd) (by
      intro p hp
      obtain ⟨t, _, rfl⟩ := List.mem_map.mp hp
      exact hw)
  simpa [List.flatMap_map, List.map_map, Function.comp_def] using this

/-- The CRLF form of the LF-separated trees, when no tree text contains an LF. -/
theorem crlf_trees (qs : Bytes) (ts : List Tree) (h : ∀ t ∈ ts, (10 : UInt8) ∉ write qs t) :
    crlf (ts.flatMap fun t => write qs t ++ [10]) = ts.flatMap fun t => write qs t ++ [13, 10] := by
  have := crlf_lfFile (ts.map (write qs)) (by
    intro l hl
    obtain ⟨t, ht, rfl⟩ := List.mem_map.mp hl
    exact h t ht)
  simpa [lfFile, crlfFile, List.flatMap_def, List.map_map, Function.comp_def] using this

end Newick

end Bio
