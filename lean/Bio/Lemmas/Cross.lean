/-
  Helper lemmas for the cross-format properties C06 (LF / CRLF), C07 (failing
  sources and failing writers) and C11 (accepted records are fixed points):
  the general part, FASTA, FASTQ and BED.  SAM is in `CrossSam.lean`, Newick in
  `CrossNewick.lean`.

  The well-formedness predicates of the round-trip theorems live in the
  property files C01–C05, so those are imported here.
-/
import Bio.Props.C01
import Bio.Props.C02
import Bio.Props.C03
import Bio.Props.C04
import Bio.Props.C05
namespace Bio

/-! ## `crlf`: every LF becomes CR LF -/

/-- Replace every LF (10) by CR LF (13, 10). -/
def crlf : Bytes → Bytes
  | [] => []
  | b :: r => if b = 10 then 13 :: 10 :: crlf r else b :: crlf r

theorem crlf_nil : crlf [] = [] := rfl

theorem crlf_cons_lf (r : Bytes) : crlf (10 :: r) = 13 :: 10 :: crlf r := by simp [crlf]

theorem crlf_cons_ne {b : UInt8} (h : b ≠ 10) (r : Bytes) : crlf (b :: r) = b :: crlf r := by
  simp [crlf, h]

theorem crlf_append (a b : Bytes) : crlf (a ++ b) = crlf a ++ crlf b := by
  induction a with
  | nil => rfl
  | cons c a ih =>
    by_cases hc : c = 10
    · subst hc; simp [crlf, ih]
    · simp [crlf, hc, ih]

theorem crlf_of_not_mem {l : Bytes} (h : (10 : UInt8) ∉ l) : crlf l = l := by
  induction l with
  | nil => rfl
  | cons c l ih =>
    simp only [List.mem_cons, not_or] at h
    rw [crlf_cons_ne (Ne.symm h.1), ih h.2]

/-- The CRLF form of an LF-terminated file of LF-free lines is the CRLF-terminated file. -/
theorem crlf_lfFile (ls : List Bytes) (h : ∀ l ∈ ls, (10 : UInt8) ∉ l) :
    crlf (lfFile ls) = crlfFile ls := by
  induction ls with
  | nil => rfl
  | cons l ls ih =>
    rw [lfFile_cons, crlfFile_cons, crlf_append, crlf_of_not_mem (h l (by simp)), crlf_cons_lf,
      ih (fun m hm => h m (List.mem_cons_of_mem _ hm))]

/-- Line scanning does not see the difference between LF and CRLF terminators, for lines
free of CR and LF. -/
theorem scanLines_crlf_lfFile (ls : List Bytes) (h : ∀ l ∈ ls, ∀ b ∈ l, b ≠ 10 ∧ b ≠ 13) :
    scanLines (crlf (lfFile ls)) = scanLines (lfFile ls) := by
  have hlf : ∀ l ∈ ls, (10 : UInt8) ∉ l := fun l hl hm => (h l hl 10 hm).1 rfl
  rw [crlf_lfFile ls hlf, scanLines_crlfFile ls hlf, scanLines_lfFile ls]
  intro l hl
  exact ⟨hlf l hl, fun hg => (h l hl 13 (List.mem_of_getLast? hg)).2 rfl⟩

/-! ## `runWriter`: a writer that accepts `k` bytes in total, then fails -/

/-- Process the `Write` calls in order against a byte budget `k`.  A call that fits is
accepted whole; the first call that does not fit is accepted partially (the remaining
budget) and returns an error, after which no further call is made.  Result: the bytes
accepted and `true` iff every call returned `nil`. -/
def runWriter : Nat → List Bytes → Bytes × Bool
  | _, [] => ([], true)
  | k, c :: cs =>
    if c.length ≤ k then ((c ++ (runWriter (k - c.length) cs).1), (runWriter (k - c.length) cs).2)
    else (c.take k, false)

theorem runWriter_ok_iff (k : Nat) (calls : List Bytes) :
    (runWriter k calls).2 = true ↔ calls.flatten.length ≤ k := by
  induction calls generalizing k with
  | nil => simp [runWriter]
  | cons c cs ih =>
    rw [runWriter]
    split
    · rename_i h
      simp only [List.flatten_cons, List.length_append]
      rw [ih]; omega
    · rename_i h
      simp only [List.flatten_cons, List.length_append]
      constructor
      · intro h'; cases h'
      · intro h'; omega

theorem runWriter_bytes (k : Nat) (calls : List Bytes) :
    (runWriter k calls).1 = calls.flatten.take k := by
  induction calls generalizing k with
  | nil => simp [runWriter]
  | cons c cs ih =>
    rw [runWriter]
    split
    · rename_i h
      simp only [List.flatten_cons]
      rw [ih, List.take_append, List.take_of_length_le h]
    · rename_i h
      simp only [List.flatten_cons]
      rw [List.take_append_of_le_length (by omega)]

/-! ## General list facts -/

theorem getLast?_cons_of_some {α : Type} {a b : α} {l : List α} (h : l.getLast? = some b) :
    (a :: l).getLast? = some b := by
  cases l with
  | nil => simp at h
  | cons c l => rw [List.getLast?_cons_cons]; exact h

theorem getLast?_append_singleton {α : Type} (l : List α) (a : α) :
    (l ++ [a]).getLast? = some a := by simp

/-- First piece of a split: starts with the first byte of the input unless that is the
separator. -/
theorem splitOn_head_head (sep c : UInt8) (r : Bytes) :
    ((splitOn sep (c :: r))[0]?.getD []).head? = if c = sep then none else some c := by
  by_cases h : c = sep
  · subst h; simp [splitOn]
  · obtain ⟨p, ps, _, hb⟩ := splitOn_cons_ne h r
    rw [hb]; simp [h]

theorem atoi_range {s : Bytes} {v : Int} (h : atoi s = some v) :
    int64Min ≤ v ∧ v ≤ int64Max := by
  unfold atoi at h
  split at h
  rename_i x neg body heq
  cases hp : parseNat body with
  | none => simp [hp] at h
  | some n =>
    simp only [hp] at h
    by_cases hr : int64Min ≤ (if neg = true then -(n : Int) else (n : Int)) ∧
        (if neg = true then -(n : Int) else (n : Int)) ≤ int64Max
    · rw [if_pos hr] at h; cases h; exact hr
    · rw [if_neg hr] at h; cases h

/-! ## FASTA -/

namespace Fasta

/-- The layout with a fixed separator `s` after the name and after every sequence line. -/
def sepLayout (s : Bytes) (w : Nat) (r : Fa) : RecLayout :=
  ⟨r.name, s, (wrap w r.seq).map (fun c => (c, s))⟩

theorem sepLayout_allSeps (s : Bytes) (w : Nat) (rs : List Fa) :
    ∀ t ∈ allSeps (rs.map (sepLayout s w)), t = s := by
  intro t ht
  simp only [allSeps, RecLayout.seps, sepLayout, List.map_map, List.mem_flatten,
    List.mem_map, Function.comp_def] at ht
  obtain ⟨_, ⟨r, _, rfl⟩, ht⟩ := ht
  simp at ht
  rcases ht with ht | ⟨_, ht⟩
  · exact ht
  · exact ht.symm

theorem sepLayout_valid (s : Bytes) (hs : Sep s) (w : Nat) (hw : 0 < w) (rs : List Fa) :
    Valid (rs.map (sepLayout s w)) ∧ (rs.map (sepLayout s w)).map RecLayout.toFa = rs := by
  refine ⟨⟨?_, ?_, ?_⟩, ?_⟩
  · intro l hl c hc
    obtain ⟨r, _, rfl⟩ := List.mem_map.mp hl
    simp only [sepLayout, List.mem_map] at hc
    obtain ⟨d, hd, rfl⟩ := hc
    exact List.length_pos_iff.mp (wrap_mem_length w hw r.seq d hd).1
  · intro t ht
    rw [sepLayout_allSeps s w rs t ht]; exact hs.2
  · intro t ht
    rw [sepLayout_allSeps s w rs t (List.dropLast_subset _ ht)]; exact hs
  · rw [List.map_map]
    conv => rhs; rw [← List.map_id rs]
    apply List.map_congr_left
    intro r _
    simp [RecLayout.toFa, sepLayout, List.map_map, Function.comp_def, wrap_flatten w hw]

/-- The CRLF form of a written record is the record laid out with CR LF separators. -/
theorem crlf_encode (w : Nat) (hw : 0 < w) (r : Fa) (h : WF r) :
    crlf (encode w r) = renderRec (sepLayout [13, 10] w r) := by
  have hn : (10 : UInt8) ∉ r.name := fun hm => (h.1 10 hm).1 rfl
  have hc : ∀ l ∈ wrap w r.seq, (10 : UInt8) ∉ l :=
    fun l hl hm => (h.2 10 (wrap_mem_subset w hw r.seq l hl 10 hm)).1 rfl
  have e : encode w r = 62 :: (r.name ++ 10 :: lfFile (wrap w r.seq)) := by
    simp [encode_eq, lfFile]
  rw [e, crlf_cons_ne (by decide), crlf_append, crlf_of_not_mem hn, crlf_cons_lf,
    crlf_lfFile _ hc]
  simp [renderRec, sepLayout, crlfFile, List.map_map, Function.comp_def]

theorem crlf_encodeAll (w : Nat) (hw : 0 < w) (rs : List Fa) (h : ∀ r ∈ rs, WF r) :
    crlf (encodeAll w rs) = render (rs.map (sepLayout [13, 10] w)) := by
  induction rs with
  | nil => rfl
  | cons r rs ih =>
    have ih := ih (fun q hq => h q (List.mem_cons_of_mem _ hq))
    simp only [encodeAll, render, List.map_cons, List.flatten_cons] at ih ⊢
    rw [crlf_append, ih, crlf_encode w hw r (h r (by simp))]

/-- The decoder returns the written records from the CRLF form of the writer's output. -/
theorem decode_crlf (w : Nat) (hw : 0 < w) (rs : List Fa) (h : ∀ r ∈ rs, WF r) :
    decode (crlf (encodeAll w rs)) = rs.map Item.ok := by
  rw [crlf_encodeAll w hw rs h]
  obtain ⟨hv, ht⟩ := sepLayout_valid [13, 10] (by decide) w hw rs
  exact layout_decode rs h _ hv ht

/-- Under a failing source the last item is an error, whatever the bytes. -/
theorem fail_getLast (x : Bytes) : (decodeSrc .fail x).getLast? = some Item.err := by
  rw [fail_eq_dropLast]; simp

end Fasta

/-! ## FASTQ -/

namespace Fastq

theorem fromLines_ok_len (e : Ending) (ls : List Bytes) (r : Fq)
    (h : Item.ok r ∈ fromLines e ls) : r.seq.length = r.quals.length := by
  fun_induction fromLines e ls <;> simp_all
  rcases h with h | h
  · subst h; simp_all
  · simp_all

theorem decodeSrc_crlf (e : Ending) (rs : List Fq) (h : ∀ r ∈ rs, WF r) :
    decodeSrc e (crlf (encodeAll rs)) = decodeSrc e (encodeAll rs) := by
  have hc := allLines_clean rs h
  unfold decodeSrc
  rw [encodeAll_eq_lines]
  exact congrArg _ (scanLines_crlf_lfFile _ hc)

theorem fromLines_fail_getLast (ls : List Bytes) :
    (fromLines .fail ls).getLast? = some Item.err := by
  generalize he : Ending.fail = e
  fun_induction fromLines e ls
  all_goals try (subst_vars; simp_all; done)
  all_goals try cases he
  all_goals exact getLast?_cons_of_some (by assumption)

end Fastq

end Bio
