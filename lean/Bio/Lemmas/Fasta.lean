/-
  Helper lemmas about the FASTA model (`Bio/Model/Fasta.lean`): the writer's
  line wrapping, the reader's byte machine `loop`, and `decodeSrc`.
-/
import Bio.Model.Fasta
namespace Bio.Fasta

/-! ## `wrap` -/

theorem wrap_nil (w : Nat) : wrap w [] = [] := by
  rw [wrap]; simp

theorem wrap_cons_eq (w : Nat) (hw : 0 < w) (s : Bytes) (hs : s ≠ []) :
    wrap w s = s.take w :: wrap w (s.drop w) := by
  rw [wrap]
  have : ¬ (s = [] ∨ w = 0) := by
    intro h; cases h with
    | inl h => exact hs h
    | inr h => omega
  simp [this]

/-- Induction along the recursion of `wrap` for a positive width. -/
theorem wrap_ind (w : Nat) (hw : 0 < w) {P : Bytes → Prop} (h0 : P [])
    (hstep : ∀ s : Bytes, s ≠ [] → P (s.drop w) → P s) : ∀ s, P s := by
  intro s
  induction s using wrap.induct w with
  | case1 s h =>
    rcases h with rfl | h
    · exact h0
    · omega
  | case2 s h ih => exact hstep s (fun e => h (Or.inl e)) ih

theorem wrap_flatten (w : Nat) (hw : 0 < w) (s : Bytes) : (wrap w s).flatten = s := by
  induction s using wrap_ind w hw with
  | h0 => simp [wrap_nil]
  | hstep s hs this =>
    · rw [wrap_cons_eq w hw s hs]
      have hpos : 0 < s.length := List.length_pos_iff.mpr hs
      simp [this]

theorem wrap_mem_length (w : Nat) (hw : 0 < w) (s : Bytes) :
    ∀ l ∈ wrap w s, 0 < l.length ∧ l.length ≤ w := by
  induction s using wrap_ind w hw with
  | h0 => simp [wrap_nil]
  | hstep s hs this =>
    · rw [wrap_cons_eq w hw s hs]
      have hpos : 0 < s.length := List.length_pos_iff.mpr hs
      intro l hl
      rcases List.mem_cons.mp hl with rfl | hl
      · simp [List.length_take]; omega
      · exact this l hl

theorem wrap_dropLast_length (w : Nat) (hw : 0 < w) (s : Bytes) :
    ∀ l ∈ (wrap w s).dropLast, l.length = w := by
  induction s using wrap_ind w hw with
  | h0 => simp [wrap_nil]
  | hstep s hs this =>
    · rw [wrap_cons_eq w hw s hs]
      have hpos : 0 < s.length := List.length_pos_iff.mpr hs
      by_cases hd : s.drop w = []
      · rw [hd, wrap_nil]; simp
      · intro l hl
        have hne : wrap w (s.drop w) ≠ [] := by
          rw [wrap_cons_eq w hw _ hd]; simp
        rw [List.dropLast_cons_of_ne_nil hne] at hl
        rcases List.mem_cons.mp hl with rfl | hl
        · have : w < s.length := by
            have := List.length_pos_iff.mpr hd
            simp [List.length_drop] at this; omega
          simp [List.length_take]; omega
        · exact this l hl

theorem wrap_mem_subset (w : Nat) (hw : 0 < w) (s : Bytes) :
    ∀ l ∈ wrap w s, ∀ b ∈ l, b ∈ s := by
  intro l hl b hb
  have h := wrap_flatten w hw s
  rw [← h]
  exact List.mem_flatten.mpr ⟨l, hl, hb⟩

theorem wrap_length (w : Nat) (hw : 0 < w) (s : Bytes) :
    (wrap w s).length = (s.length + w - 1) / w := by
  induction s using wrap_ind w hw with
  | h0 =>
    have : (w - 1) / w = 0 := Nat.div_eq_of_lt (by omega)
    simp [wrap_nil, this]
  | hstep s hs this =>
    rw [wrap_cons_eq w hw s hs]
    have hpos : 0 < s.length := List.length_pos_iff.mpr hs
    simp only [List.length_cons, this, List.length_drop]
    by_cases hle : s.length ≤ w
    · have h1 : (s.length - w + w - 1) / w = 0 := Nat.div_eq_of_lt (by omega)
      have h2 : (s.length + w - 1) / w = 1 := by
        have : s.length + w - 1 = (s.length - 1) + w := by omega
        rw [this, Nat.add_div_right _ hw, Nat.div_eq_of_lt (by omega)]
      omega
    · have : s.length + w - 1 = (s.length - w + w - 1) + w := by omega
      rw [this, Nat.add_div_right _ hw]

theorem flatten_map_append_length (ls : List Bytes) :
    ((ls.map (· ++ [(10 : UInt8)])).flatten).length = ls.flatten.length + ls.length := by
  induction ls with
  | nil => simp
  | cons l ls ih => simp [ih]; omega

/-! ## The byte machine `loop` -/

theorem isNL_iff (b : UInt8) : isNL b = true ↔ (b = 10 ∨ b = 13) := by
  simp [isNL]

theorem isNL_false_iff (b : UInt8) : isNL b = false ↔ (b ≠ 10 ∧ b ≠ 13) := by
  simp [isNL]

@[simp] theorem loop_nil (st : St) : loop st [] = ([], [], []) := by
  cases st <;> simp [loop]

/-- A (possibly empty, if nothing follows) run of line breaks brings the machine to
the `newline` state from any state. -/
theorem loop_sep (st : St) (sep rest : Bytes) (hsep : ∀ b ∈ sep, b = 10 ∨ b = 13)
    (hne : sep ≠ [] ∨ rest = []) : loop st (sep ++ rest) = loop .newline rest := by
  induction sep generalizing st with
  | nil =>
    rcases hne with h | h
    · exact absurd rfl h
    · subst h; simp
  | cons b sep ih =>
    have hb : isNL b = true := (isNL_iff b).mpr (hsep b (by simp))
    have hsep' : ∀ b ∈ sep, b = 10 ∨ b = 13 := fun c hc => hsep c (by simp [hc])
    have step : loop st (b :: (sep ++ rest)) = loop .newline (sep ++ rest) := by
      cases st <;> simp [loop, hb]
    rw [List.cons_append, step]
    by_cases hs : sep = []
    · subst hs; simp
    · exact ih .newline hsep' (Or.inl hs)

/-- Name bytes are collected verbatim. -/
theorem loop_name (n rest : Bytes) (hn : ∀ b ∈ n, b ≠ 10 ∧ b ≠ 13) :
    loop .name (n ++ rest) =
      (n ++ (loop .name rest).1, (loop .name rest).2.1, (loop .name rest).2.2) := by
  induction n with
  | nil => simp
  | cons b n ih =>
    have hb : isNL b = false := (isNL_false_iff b).mpr (hn b (by simp))
    have := ih (fun c hc => hn c (by simp [hc]))
    simp [loop, hb, this]

/-- Sequence bytes are collected verbatim while in the `seq` state. -/
theorem loop_seq (s rest : Bytes) (hs : ∀ b ∈ s, b ≠ 10 ∧ b ≠ 13) :
    loop .seq (s ++ rest) =
      ((loop .seq rest).1, s ++ (loop .seq rest).2.1, (loop .seq rest).2.2) := by
  induction s with
  | nil => simp
  | cons b s ih =>
    have hb : isNL b = false := (isNL_false_iff b).mpr (hs b (by simp))
    have := ih (fun c hc => hs c (by simp [hc]))
    simp [loop, hb, this]

/-- A non-empty chunk free of line breaks and not starting with `'>'`, read at the
beginning of a line. -/
theorem loop_newline_chunk (c rest : Bytes) (hc : c ≠ [])
    (hs : ∀ b ∈ c, b ≠ 10 ∧ b ≠ 13 ∧ b ≠ 62) :
    loop .newline (c ++ rest) =
      ((loop .seq rest).1, c ++ (loop .seq rest).2.1, (loop .seq rest).2.2) := by
  cases c with
  | nil => exact absurd rfl hc
  | cons b c =>
    have hb := hs b (by simp)
    have hb1 : isNL b = false := (isNL_false_iff b).mpr ⟨hb.1, hb.2.1⟩
    have h2 := loop_seq c rest (fun x hx => ⟨(hs x (by simp [hx])).1, (hs x (by simp [hx])).2.1⟩)
    simp [loop, hb1, hb.2.2, h2]

theorem loop_newline_gt (rest : Bytes) : loop .newline (62 :: rest) = ([], [], 62 :: rest) := by
  simp [loop, isNL]

/-- At the beginning of a line, end of data or a `'>'` closes the record. -/
theorem loop_newline_close (rest : Bytes) (h : rest = [] ∨ ∃ r, rest = 62 :: r) :
    loop .newline rest = ([], [], rest) := by
  rcases h with rfl | ⟨r, rfl⟩
  · simp
  · exact loop_newline_gt r

/-- Once `loop` has stopped before the end of its input (at a `'>'`), what follows
the input is irrelevant. -/
theorem loop_append (st : St) (y z : Bytes) (h : (loop st y).2.2 ≠ []) :
    loop st (y ++ z) = ((loop st y).1, (loop st y).2.1, (loop st y).2.2 ++ z) := by
  induction y generalizing st with
  | nil => simp at h
  | cons b y ih =>
    cases st <;> simp only [loop, List.cons_append] at h ⊢ <;> repeat' split
    all_goals first
      | (simp_all; done)
      | (simp_all [ih]; done)

/-! ## Separators of a layout -/

/-- The separators `seps` (in file order) are acceptable in front of `rest`: they
consist of line-break bytes, all but the last are non-empty, and the last one may
be empty only if nothing follows. -/
def SepsOK (seps : List Bytes) (rest : Bytes) : Prop :=
  (∀ s ∈ seps, ∀ b ∈ s, b = 10 ∨ b = 13) ∧ (∀ s ∈ seps.dropLast, s ≠ []) ∧
    (rest = [] ∨ ∀ s ∈ seps, s ≠ [])

theorem SepsOK.tail {s : Bytes} {ss : List Bytes} {rest : Bytes} (h : SepsOK (s :: ss) rest) :
    SepsOK ss rest := by
  obtain ⟨h1, h2, h3⟩ := h
  refine ⟨fun t ht => h1 t (by simp [ht]), ?_, ?_⟩
  · intro t ht
    cases ss with
    | nil => simp at ht
    | cons u us =>
      apply h2 t
      rw [List.dropLast_cons_of_ne_nil (by simp)]
      simp [ht]
  · rcases h3 with h3 | h3
    · exact Or.inl h3
    · exact Or.inr (fun t ht => h3 t (by simp [ht]))

theorem SepsOK.head_ne {s : Bytes} {ss : List Bytes} {rest : Bytes} (h : SepsOK (s :: ss) rest) :
    s ≠ [] ∨ (ss = [] ∧ rest = []) := by
  obtain ⟨_, h2, h3⟩ := h
  cases ss with
  | nil =>
    rcases h3 with h3 | h3
    · exact Or.inr ⟨rfl, h3⟩
    · exact Or.inl (h3 s (by simp))
  | cons u us =>
    left
    apply h2 s
    rw [List.dropLast_cons_of_ne_nil (by simp)]
    simp

theorem SepsOK.head_nl {s : Bytes} {ss : List Bytes} {rest : Bytes} (h : SepsOK (s :: ss) rest) :
    ∀ b ∈ s, b = 10 ∨ b = 13 := h.1 s (by simp)

/-- Splitting the separators of a file into those of the first record (`a`) and the
rest (`b`, non-empty): all of `a` are non-empty, so they are fine before anything. -/
theorem SepsOK.of_append_left {a b : List Bytes} (hb : b ≠ [])
    (h1 : ∀ s ∈ a ++ b, ∀ c ∈ s, c = 10 ∨ c = 13) (h2 : ∀ s ∈ (a ++ b).dropLast, s ≠ [])
    (rest : Bytes) : SepsOK a rest := by
  rw [List.dropLast_append_of_ne_nil hb] at h2
  refine ⟨fun s hs => h1 s (by simp [hs]), ?_, Or.inr (fun s hs => h2 s (by simp [hs]))⟩
  intro s hs
  exact h2 s (List.mem_append_left _ (List.dropLast_subset a hs))

theorem dropLast_append_right {a b : List Bytes} (hb : b ≠ [])
    (h2 : ∀ s ∈ (a ++ b).dropLast, s ≠ []) : ∀ s ∈ b.dropLast, s ≠ [] := by
  rw [List.dropLast_append_of_ne_nil hb] at h2
  exact fun s hs => h2 s (by simp [hs])

/-- The separators of the last record of a file. -/
theorem SepsOK.of_last {a : List Bytes}
    (h1 : ∀ s ∈ a, ∀ c ∈ s, c = 10 ∨ c = 13) (h2 : ∀ s ∈ a.dropLast, s ≠ []) :
    SepsOK a [] := ⟨h1, h2, Or.inl rfl⟩

/-! ## Reading one laid-out record -/

/-- The body of a record: chunks (non-empty, free of line breaks and `'>'`), each
followed by its separator; then `rest`, which is empty or starts the next record. -/
theorem loop_chunks (cs : List (Bytes × Bytes)) (rest : Bytes)
    (hc : ∀ c ∈ cs, c.1 ≠ [] ∧ ∀ b ∈ c.1, b ≠ 10 ∧ b ≠ 13 ∧ b ≠ 62)
    (hs : SepsOK (cs.map (·.2)) rest) (hrest : rest = [] ∨ ∃ r, rest = 62 :: r) :
    loop .newline ((cs.map (fun c => c.1 ++ c.2)).flatten ++ rest) =
      ([], (cs.map (·.1)).flatten, rest) := by
  induction cs with
  | nil => simpa using loop_newline_close rest hrest
  | cons c cs ih =>
    have hc0 := hc c (by simp)
    have ih' := ih (fun d hd => hc d (by simp [hd])) hs.tail
    have hne : c.2 ≠ [] ∨ (cs.map (fun c => c.1 ++ c.2)).flatten ++ rest = [] := by
      rcases hs.head_ne with h | ⟨h1, h2⟩
      · exact Or.inl h
      · right
        have : cs = [] := by simpa using h1
        subst this; simp [h2]
    have e : ((c :: cs).map (fun c => c.1 ++ c.2)).flatten ++ rest =
        c.1 ++ (c.2 ++ ((cs.map (fun c => c.1 ++ c.2)).flatten ++ rest)) := by simp
    rw [e, loop_newline_chunk _ _ hc0.1 hc0.2, loop_sep _ _ _ hs.head_nl hne, ih']
    simp

/-- One `read` call on a laid-out record. -/
theorem readOne_record (name nsep : Bytes) (cs : List (Bytes × Bytes)) (rest : Bytes)
    (hn : ∀ b ∈ name, b ≠ 10 ∧ b ≠ 13)
    (hc : ∀ c ∈ cs, c.1 ≠ [] ∧ ∀ b ∈ c.1, b ≠ 10 ∧ b ≠ 13 ∧ b ≠ 62)
    (hs : SepsOK (nsep :: cs.map (·.2)) rest) (hrest : rest = [] ∨ ∃ r, rest = 62 :: r) :
    readOne 62 (name ++ nsep ++ (cs.map (fun c => c.1 ++ c.2)).flatten ++ rest) =
      (⟨name, (cs.map (·.1)).flatten⟩, rest) := by
  have hne : nsep ≠ [] ∨ (cs.map (fun c => c.1 ++ c.2)).flatten ++ rest = [] := by
    rcases hs.head_ne with h | ⟨h1, h2⟩
    · exact Or.inl h
    · right
      have : cs = [] := by simpa using h1
      subst this; simp [h2]
  have e : name ++ nsep ++ (cs.map (fun c => c.1 ++ c.2)).flatten ++ rest =
      name ++ (nsep ++ ((cs.map (fun c => c.1 ++ c.2)).flatten ++ rest)) := by simp
  have h1 : startState 62 = .name := by simp [startState]
  have h2 : startSeq 62 = [] := by simp [startSeq]
  simp only [readOne, h1, h2]
  rw [e, loop_name _ _ hn, loop_sep _ _ _ hs.head_nl hne, loop_chunks cs rest hc hs.tail hrest]
  simp

/-! ## `decodeSrc` -/

theorem decodeSrc_nil (e : Ending) :
    decodeSrc e [] = (match e with | .eof => [] | .fail => [.err]) := by
  cases e <;> rw [decodeSrc]

theorem decodeSrc_cons (e : Ending) (b : UInt8) (rest : Bytes) :
    decodeSrc e (b :: rest) =
      if (readOne b rest).2 = [] then
        (match e with | .eof => [.ok (readOne b rest).1] | .fail => [.err])
      else .ok (readOne b rest).1 :: decodeSrc e (readOne b rest).2 := by
  cases e <;> rw [decodeSrc]

theorem decodeSrc_cons_last (e : Ending) (b : UInt8) (rest : Bytes) (r : Fa)
    (h : readOne b rest = (r, [])) :
    decodeSrc e (b :: rest) = (match e with | .eof => [.ok r] | .fail => [.err]) := by
  rw [decodeSrc_cons, h]; simp

theorem decodeSrc_cons_more (e : Ending) (b : UInt8) (rest : Bytes) (r : Fa) (x : Bytes)
    (h : readOne b rest = (r, x)) (hx : x ≠ []) :
    decodeSrc e (b :: rest) = .ok r :: decodeSrc e x := by
  rw [decodeSrc_cons, h]; simp [hx]

theorem decodeSrc_ne_nil (e : Ending) (x : Bytes) (hx : x ≠ []) : decodeSrc e x ≠ [] := by
  cases x with
  | nil => exact absurd rfl hx
  | cons b rest =>
    rw [decodeSrc_cons]
    split
    · cases e <;> simp
    · simp

/-- An error item is always the last item. -/
theorem err_last (e : Ending) (x : Bytes) :
    ∀ i, (decodeSrc e x)[i]? = some Item.err → i + 1 = (decodeSrc e x).length := by
  induction x using decodeSrc.induct e with
  | case1 he => subst he; simp [decodeSrc_nil]
  | case2 he => subst he; intro i; cases i <;> simp [decodeSrc_nil]
  | case3 b rest p h he =>
    subst he; intro i
    rw [decodeSrc_cons, if_pos h]; cases i <;> simp
  | case4 b rest p h he =>
    subst he; intro i
    rw [decodeSrc_cons, if_pos h]; cases i <;> simp
  | case5 b rest p h ih =>
    intro i
    rw [decodeSrc_cons, if_neg h]
    cases i with
    | zero => simp
    | succ j => simpa using ih j

theorem eof_no_err' (x : Bytes) : Item.err ∉ decodeSrc .eof x := by
  induction x using decodeSrc.induct .eof with
  | case1 he => simp [decodeSrc_nil]
  | case2 he => cases he
  | case3 b rest p h he => rw [decodeSrc_cons, if_pos h]; simp
  | case4 b rest p h he => cases he
  | case5 b rest p h ih => rw [decodeSrc_cons, if_neg h]; simp; exact ih

/-- With a failing source the last item of the clean decode is replaced by an error. -/
theorem decodeSrc_fail_eq (x : Bytes) :
    decodeSrc .fail x = (decodeSrc .eof x).dropLast ++ [Item.err] := by
  induction h : x.length using Nat.strongRecOn generalizing x with
  | _ n ih =>
    cases x with
    | nil => simp [decodeSrc_nil]
    | cons b rest =>
      rw [decodeSrc_cons, decodeSrc_cons]
      split
      · simp
      · rename_i hne
        have hlt : (readOne b rest).2.length < n := by
          have := loop_rest_le (startState b) rest
          simp only [readOne] at *
          subst h; simp; omega
        rw [ih _ hlt _ rfl, List.dropLast_cons_of_ne_nil (decodeSrc_ne_nil _ _ hne)]
        simp

theorem readOne_append (b : UInt8) (y z : Bytes) (h : (readOne b y).2 ≠ []) :
    readOne b (y ++ z) = ((readOne b y).1, (readOne b y).2 ++ z) := by
  simp only [readOne] at h ⊢
  rw [loop_append _ _ _ h]

/-- The complete records of a prefix of the data are records of the whole data. -/
theorem decode_prefix (y z : Bytes) :
    (decodeSrc .eof y).dropLast <+: decodeSrc .eof (y ++ z) := by
  induction h : y.length using Nat.strongRecOn generalizing y with
  | _ n ih =>
    cases y with
    | nil => simp [decodeSrc_nil]
    | cons b rest =>
      rw [decodeSrc_cons]
      split
      · simp
      · rename_i hne
        have hlt : (readOne b rest).2.length < n := by
          have := loop_rest_le (startState b) rest
          simp only [readOne] at *
          subst h; simp; omega
        rw [List.dropLast_cons_of_ne_nil (decodeSrc_ne_nil _ _ hne), List.cons_append,
          decodeSrc_cons, readOne_append b rest z hne]
        simp only [List.append_eq_nil_iff, hne, false_and, if_false]
        exact List.cons_prefix_cons.mpr ⟨rfl, ih _ hlt _ rfl⟩

end Bio.Fasta
