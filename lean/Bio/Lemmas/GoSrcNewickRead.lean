/-
  `(*reader).read` and `Reader` of formats/newick/newick.go, translated from the Go source text on
  every run (`Bio.Generated.GoSrc.newick_read`, over an explicit heap of `Node` cells), against the
  hand-written model `Newick.readTree` / `Newick.decodeSrc`.  Part 3: the function-level statements
  (vocabulary: `Bio.Lemmas.GoSrcNewickRead1`; the loop: `Bio.Lemmas.GoSrcNewickRead2`).

  Guarded by the translator's `<f>_Found` flags as in `Bio.Lemmas.GoSrc`.
-/
import Bio.Lemmas.GoSrcNewickRead2
set_option linter.unusedVariables false
set_option linter.unusedSimpArgs false
namespace Bio.GoSrcLemmas
open Bio Bio.GoRt Bio.Generated Bio.Newick

namespace NwkRd

/-- a `ParseFloat` built from a model distance parser: its value and `nil` where `pd` accepts, the
zero value and an error (`*strconv.NumError`, translated `other`) where it rejects -/
def pfOf (pd : Bytes → Option Dist) : PF := fun s _ =>
  match pd s with
  | some d => (d, GoErr.nil)
  | none => (none, GoErr.other)

/-- the parameter never returns `io.EOF` as its error (`strconv.ParseFloat` returns `*NumError`s) -/
def PFNoEof (pf : PF) : Prop := ∀ s, (pf s 64).2 ≠ GoErr.eof

/-- (instance search needs a larger budget than the default for this nested product) -/
instance instDecEqRes : DecidableEq Res := by
  set_option synthInstance.maxSize 1024 in
  exact inferInstance

end NwkRd
open NwkRd

theorem pfModel_pfOf (pd : Bytes → Option Dist) : PFModel (pfOf pd) pd := by
  intro s
  unfold pfOf
  cases h : pd s with
  | none => simp
  | some d => simp

theorem pfNoEof_pfOf (pd : Bytes → Option Dist) : PFNoEof (pfOf pd) := by
  intro s
  unfold pfOf
  cases h : pd s <;> simp

section
variable {pf : PF} {pd : Bytes → Option Dist}

/-- One call of the translated `read()` with `x.length + 1` fuel is the model's `readTree`. -/
theorem newick_read_model (hR : GoSrc.newick_read_Found = true)
    (hT : GoSrc.newick_nextToken_Found = true) (hN : GoSrc.nameFromText_Found = true)
    (hQ : GoSrc.quoted_Found = true) (hpf : PFModel pf pd) (x : Bytes) (e : Ending) (h0 : Heap)
    (last : Option UInt8) (rb : Bytes) (fuel : Nat) (hf : x.length + 1 ≤ fuel) :
    match readTree pd e x with
    | .tree t rest => ∃ heap' last' rb',
        GoSrc.newick_read pf fuel h0 ⟨last, x, e⟩ rb
          = some ((h0.length : Int), GoErr.nil, heap', ⟨last', rest, e⟩, rb') ∧
        RepT heap' (h0.length : Int) t ∧ ∃ ext, heap' = h0 ++ ext
    | .eof => GoSrc.newick_read pf fuel h0 ⟨last, x, e⟩ rb
        = some (-1, GoErr.eof, h0 ++ [zero], ⟨none, [], e⟩, [])
    | .err => ∃ err heap' r' rb',
        GoSrc.newick_read pf fuel h0 ⟨last, x, e⟩ rb = some (-1, err, heap', r', rb') ∧
        err ≠ GoErr.nil ∧ (err = GoErr.other ∨ ∃ s, pd s = none ∧ err = (pf s 64).2) ∧
        (PFNoEof pf → err ≠ GoErr.eof) := by
  have hp := (newick_read_post (h0 := h0) (e := e) hR hT hN hQ hpf x last rb fuel).2 hf
  cases hr : readTree pd e x with
  | eof => simp only [hr, Post] at hp ⊢; exact hp.2
  | tree t rest => simp only [hr, Post] at hp ⊢; exact hp
  | err =>
    simp only [hr, Post] at hp ⊢
    obtain ⟨err, heap', r', rb', h1, h2, h3, _, _⟩ := hp
    refine ⟨err, heap', r', rb', h1, h2, h3, fun hne => ?_⟩
    rcases h3 with h3 | ⟨s, _, h3⟩
    · subst h3; decide
    · subst h3; exact hne s

/-- Whatever the fuel: if the translated `read()` returns at all, it returns what the model says. -/
theorem newick_read_partial (hR : GoSrc.newick_read_Found = true)
    (hT : GoSrc.newick_nextToken_Found = true) (hN : GoSrc.nameFromText_Found = true)
    (hQ : GoSrc.quoted_Found = true) (hpf : PFModel pf pd) (x : Bytes) (e : Ending) (h0 : Heap)
    (last : Option UInt8) (rb : Bytes) (fuel : Nat) (res : Res)
    (h : GoSrc.newick_read pf fuel h0 ⟨last, x, e⟩ rb = some res) :
    Post pf pd h0 e (h0 ++ [zero]) false (readTree pd e x) (some res) := by
  have hp := (newick_read_post (h0 := h0) (e := e) hR hT hN hQ hpf x last rb fuel).1
  rw [h] at hp
  rcases hp with hp | hp
  · cases hp
  · exact hp

end

/-- Frame, for an ARBITRARY `ParseFloat` and any fuel: whatever `read()` returns, the heap it hands
back is the initial heap with cells appended — no cell that existed before the call is written. -/
theorem newick_read_frame (hR : GoSrc.newick_read_Found = true)
    (hT : GoSrc.newick_nextToken_Found = true) (hN : GoSrc.nameFromText_Found = true)
    (hQ : GoSrc.quoted_Found = true) (pf : PF) (fuel : Nat) (h0 : Heap) (r : ByteRd) (rb : Bytes)
    (p : Int) (err : GoErr) (heap' : Heap) (r' : ByteRd) (rb' : Bytes)
    (h : GoSrc.newick_read pf fuel h0 r rb = some (p, err, heap', r', rb')) :
    ∃ ext, heap' = h0 ++ ext := by
  obtain ⟨last, x, e⟩ := r
  have hp := newick_read_partial hR hT hN hQ (pfModel_pdOf pf) x e h0 last rb fuel _ h
  cases hr : readTree (pdOf pf) e x with
  | eof =>
    simp only [hr, Post] at hp
    obtain ⟨_, hp⟩ := hp
    injection hp with hp
    injection hp with _ hp
    injection hp with _ hp
    injection hp with hp _
    exact ⟨[zero], hp⟩
  | tree t rest =>
    simp only [hr, Post] at hp
    obtain ⟨heap'', last', rb'', h1, _, h3⟩ := hp
    injection h1 with h1
    injection h1 with _ h1
    injection h1 with _ h1
    injection h1 with h1 _
    subst h1
    exact h3
  | err =>
    simp only [hr, Post] at hp
    obtain ⟨err', heap'', r'', rb'', h1, _, _, h3, _⟩ := hp
    injection h1 with h1
    injection h1 with _ h1
    injection h1 with _ h1
    injection h1 with h1 _
    subst h1
    exact h3

/-- For an ARBITRARY `ParseFloat`: with `x.length + 1` fuel the translated `read()` returns (no index
out of range, no `panic("unexpected state")`, no loop out of fuel). -/
theorem newick_read_isSome (hR : GoSrc.newick_read_Found = true)
    (hT : GoSrc.newick_nextToken_Found = true) (hN : GoSrc.nameFromText_Found = true)
    (hQ : GoSrc.quoted_Found = true) (pf : PF) (fuel : Nat) (h0 : Heap) (r : ByteRd) (rb : Bytes)
    (hf : r.rest.length + 1 ≤ fuel) : (GoSrc.newick_read pf fuel h0 r rb).isSome = true := by
  obtain ⟨last, x, e⟩ := r
  have hp := newick_read_model hR hT hN hQ (pfModel_pdOf pf) x e h0 last rb fuel hf
  cases hr : readTree (pdOf pf) e x with
  | eof => simp only [hr] at hp; rw [hp]; rfl
  | tree t rest =>
    simp only [hr] at hp
    obtain ⟨_, _, _, h1, _⟩ := hp
    rw [h1]; rfl
  | err =>
    simp only [hr] at hp
    obtain ⟨_, _, _, _, h1, _⟩ := hp
    rw [h1]; rfl

/-- The translated `Reader` is the model's `decodeSrc`. -/
theorem goNewickDecode_eq (hR : GoSrc.newick_read_Found = true)
    (hT : GoSrc.newick_nextToken_Found = true) (hN : GoSrc.nameFromText_Found = true)
    (hQ : GoSrc.quoted_Found = true) {pf : PF} {pd : Bytes → Option Dist} (hpf : PFModel pf pd)
    (x : Bytes) (e : Ending) (fuel : Nat) (hf : x.length + 1 ≤ fuel)
    (hH : (∀ s, pd s = none → (pf s 64).2 ≠ GoErr.eof) ∨ Item.err ∉ decodeSrc pd e x) :
    goNewickDecode pf fuel x e = some (decodeSrc pd e x) :=
  nwk_decode_loop hR hT hN hQ hpf fuel fuel x [] none [] hf hf hH

end Bio.GoSrcLemmas
