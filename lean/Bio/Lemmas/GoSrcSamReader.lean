/-
  `Reader` of formats/sam/iter.go, as translated on every run from the Go SOURCE TEXT into
  `Bio.Generated.GoSrc.sam_Reader`: a `for … range ReaderHeader(r)` loop, i.e. Go range-over-func: the
  translated `sam_ReaderHeader` is run with the loop body as its (history) consumer.

  * `SamRd.pick`: what the loop body hands on for one `ReaderHeader` item (`none` = `continue` without a
    callback); the translated body is `IterH.filterMapBodyH pick yield` (`step_eq`);
  * `SamRd.runG body`: the translator's replay `run` of an inner history through the body — a fold that
    IGNORES whatever follows an item on which the body answered `false`;
  * `runG_takeThroughH`: replaying the inner history `takeThroughH (fun l => (runG body l).2) [] IH` gives
    the outer log `takeThroughH yield [] (IH.filterMap pick)`; `runG_dropLast`: the body answered `true`
    on everything but the last item of that inner history (no "iterator continued after the loop body
    returned false");
  * `sam_Reader_raw`: the translated closure for ARBITRARY library functions and consumer;
  * `normO`, `outItems_norm`: the outer items, normalised, are the model's `Sam.decodeSrc`.

  Guarded by the translator's `_Found` flags as in `Bio.Lemmas.GoSrc`.
-/
import Bio.Lemmas.GoSrcSamIter
set_option linter.unusedVariables false
set_option linter.unusedSimpArgs false
namespace Bio.GoSrcLemmas
open Bio Bio.GoRt Bio.Generated

namespace SamRd
open BedRd SamP SamIt Bio.IterH Bio.Iter

/-- what `Reader` hands to `yield`: `(*SAM, error)` -/
abbrev OItem := Option SamT × GoErr

/-- the loop body of `Reader` on one `ReaderHeader` item `(sh, err)`: `err != nil` — `yield(nil, err)`;
`sh.S == nil` (a header line) — `continue`; else `yield(sh.S, nil)` -/
def pick : GoItem → Option OItem
  | ((_, _), GoErr.eof) => some (none, GoErr.eof)
  | ((_, _), GoErr.other) => some (none, GoErr.other)
  | ((_, none), GoErr.nil) => none
  | ((_, some t), GoErr.nil) => some (some t, GoErr.nil)

/-- the outer items of an uninterrupted run -/
def outItems (P : List Bytes → Option SamT × GoErr) (e : Ending) (x : Bytes) : List OItem :=
  (goItems P e x).filterMap pick

/-- the translator's replay of an inner history through the loop body, from the empty outer log: items
after one on which the body answered `false` are ignored -/
def runG {α β : Type} (body : List β → α → List β × Bool) (l : List α) : List β × Bool :=
  l.foldl (fun st item => if st.2 = true then body st.1 item else st) ([], true)

theorem runG_nil {α β : Type} (body : List β → α → List β × Bool) : runG body [] = ([], true) := rfl

theorem runG_concat {α β : Type} (body : List β → α → List β × Bool) (l : List α) (x : α) :
    runG body (l ++ [x]) = if (runG body l).2 = true then body (runG body l).1 x else runG body l := by
  unfold runG
  rw [List.foldl_append]
  rfl

/-- Replaying the inner history that an inner iterator with the take-through law produces when its
consumer is the loop body: the outer log is the take-through of the filtered-and-mapped items. -/
theorem runG_takeThroughH_acc {α β : Type} (g : α → Option β) (y : List β → Bool) (xs : List α) :
    ∀ acc : List α, (runG (filterMapBodyH g y) acc).2 = true →
      (runG (filterMapBodyH g y)
          (takeThroughH (fun l => (runG (filterMapBodyH g y) l).2) acc xs)).1
        = takeThroughH y (runG (filterMapBodyH g y) acc).1 (xs.filterMap g) := by
  induction xs with
  | nil => intro acc _; rfl
  | cons x xs ih =>
    intro acc hacc
    rw [takeThroughH_cons]
    have hc : runG (filterMapBodyH g y) (acc ++ [x])
        = filterMapBodyH g y (runG (filterMapBodyH g y) acc).1 x := by
      rw [runG_concat, if_pos hacc]
    cases hg : g x with
    | none =>
      have h2 : runG (filterMapBodyH g y) (acc ++ [x]) = ((runG (filterMapBodyH g y) acc).1, true) := by
        rw [hc]; simp [filterMapBodyH, hg]
      rw [h2, if_pos rfl, ih (acc ++ [x]) (by rw [h2]), h2, List.filterMap_cons_none hg]
    | some o =>
      have h2 : runG (filterMapBodyH g y) (acc ++ [x])
          = ((runG (filterMapBodyH g y) acc).1 ++ [o], y ((runG (filterMapBodyH g y) acc).1 ++ [o])) := by
        rw [hc]; simp [filterMapBodyH, hg]
      rw [List.filterMap_cons_some hg, takeThroughH_cons, h2]
      by_cases hy : y ((runG (filterMapBodyH g y) acc).1 ++ [o]) = true
      · rw [if_pos hy, if_pos hy, ih (acc ++ [x]) (by rw [h2]; exact hy), h2]
      · rw [if_neg hy, if_neg hy, h2]

theorem runG_takeThroughH {α β : Type} (g : α → Option β) (y : List β → Bool) (xs : List α) :
    (runG (filterMapBodyH g y) (takeThroughH (fun l => (runG (filterMapBodyH g y) l).2) [] xs)).1
      = takeThroughH y [] (xs.filterMap g) :=
  runG_takeThroughH_acc g y xs [] rfl

/-- The inner iterator stopped right after the body answered `false`: on everything but the last item
of the inner history the body answered `true`. -/
theorem runG_dropLast {α β : Type} (body : List β → α → List β × Bool) (xs : List α) :
    (runG body (takeThroughH (fun l => (runG body l).2) [] xs).dropLast).2 = true := by
  generalize hL : takeThroughH (fun l => (runG body l).2) [] xs = L
  by_cases hlen : L.length ≤ 1
  · have : L.dropLast = [] := by
      match L, hlen with
      | [], _ => rfl
      | [_], _ => rfl
    rw [this]; rfl
  · have h := takeThroughH_go_on (fun l => (runG body l).2) xs (L.length - 2) (by rw [hL]; omega)
    rw [hL] at h
    rw [List.dropLast_eq_take]
    have : L.length - 2 + 1 = L.length - 1 := by omega
    rw [this] at h
    exact h

/-! ## The translated closure -/

/-- the translated loop body is the filter-and-map body of `pick` -/
theorem step_eq (yield : List OItem → Bool) (log : List OItem) (item : GoItem) :
    (Id.run do
      let mut log := log
      let sh := item.1
      let err := item.2
      if err != GoErr.nil then
        log := log ++ [(none, err)]
        if !(yield log) then
          return (log, false)
        return (log, true)
      if Option.isNone sh.2 then
        return (log, true)
      log := log ++ [(sh.2, GoErr.nil)]
      if !(yield log) then
        return (log, false)
      return (log, true)) = filterMapBodyH pick yield log item := by
  obtain ⟨⟨H, S⟩, err⟩ := item
  cases err
  · cases S
    · simp [filterMapBodyH, pick]
    · rename_i t
      cases hy : yield (log ++ [(some t, GoErr.nil)]) <;> simp [filterMapBodyH, pick, hy]
  · cases hy : yield (log ++ [(none, GoErr.eof)]) <;> simp [filterMapBodyH, pick, hy]
  · cases hy : yield (log ++ [(none, GoErr.other)]) <;> simp [filterMapBodyH, pick, hy]

/-- for ARBITRARY library functions, fuel and consumer: the translated `Reader` runs the translated
`ReaderHeader` with the loop body as its consumer, panics if the inner history shows a call after the
body answered `false`, and else returns the replayed outer log -/
theorem sam_Reader_spec (hRd : GoSrc.sam_Reader_Found = true)
    (h : Bytes → Bytes × GoErr) (f : Bytes → Int × GoErr) (g : Bytes → Int → Bytes × GoErr)
    (fuel : Nat) (r : BufRd) (yield : List OItem → Bool) :
    GoSrc.sam_Reader h f g fuel r yield
      = (GoSrc.sam_ReaderHeader h f g fuel r (fun l => (runG (filterMapBodyH pick yield) l).2)).bind
          (fun inner => if (runG (filterMapBodyH pick yield) inner.dropLast).2 = true
            then some (runG (filterMapBodyH pick yield) inner).1 else none) := by
  first
  | exact absurd hRd (by decide)
  | (unfold GoSrc.sam_Reader
     simp only [step_eq]
     show Option.bind _ _ = Option.bind _ _
     congr 1
     funext inner
     show (if (!(runG (filterMapBodyH pick yield) inner.dropLast).2) = true then _ else _) = _
     cases (runG (filterMapBodyH pick yield) inner.dropLast).2 <;> rfl)

/-! ## `ReaderHeader` for ANY fuel: every answer but the last was `true` -/

/-- whatever the fuel: if the loop returns, the consumer answered `true` on every history but the last -/
theorem rhSpec_go_on (P : List Bytes → Option SamT × GoErr) (y : List GoItem → Bool) :
    ∀ (fuel : Nat) (log : List GoItem) (br : BufRd) (L : List GoItem), rhSpec P y fuel log br = some L →
      ∃ t, L = log ++ t ∧ ∀ j, j + 1 < t.length → y (log ++ t.take (j + 1)) = true := by
  intro fuel
  induction fuel with
  | zero => intro log br L h; cases h
  | succ fuel ih =>
    intro log br L h
    simp only [rhSpec] at h
    split at h
    · cases h; exact ⟨[_], rfl, by simp⟩
    · split at h
      · split at h
        · rename_i hy
          split at h
          · cases h; exact ⟨[_], rfl, by simp⟩
          · obtain ⟨t, rfl, ht⟩ := ih _ _ _ h
            refine ⟨_ :: t, List.append_assoc _ [_] t, ?_⟩
            intro j hj
            cases j with
            | zero => simpa using hy
            | succ j =>
              have := ht j (by simpa using hj)
              simpa using this
        · cases h; exact ⟨[_], rfl, by simp⟩
      · split at h
        · cases h; exact ⟨[], by simp, by simp⟩
        · exact ih _ _ _ h

/-- the replay of everything but the last item of a history on all of whose proper prefixes the body
answered `true` -/
theorem runG_dropLast_of_go_on {α β : Type} (body : List β → α → List β × Bool) (L : List α)
    (hgo : ∀ j, j + 1 < L.length → (runG body (L.take (j + 1))).2 = true) :
    (runG body L.dropLast).2 = true := by
  by_cases hlen : L.length ≤ 1
  · have : L.dropLast = [] := by
      match L, hlen with
      | [], _ => rfl
      | [_], _ => rfl
    rw [this]; rfl
  · have h := hgo (L.length - 2) (by omega)
    rw [List.dropLast_eq_take]
    have : L.length - 2 + 1 = L.length - 1 := by omega
    rw [this] at h
    exact h

/-- The Go runtime panic "range function continued iteration after function for loop body returned
false" is NEVER taken, whatever the library functions, the reader, the fuel and the consumer: the
translated `Reader` returns `none` exactly when the translated `ReaderHeader` ran out of fuel. -/
theorem sam_Reader_some (hRd : GoSrc.sam_Reader_Found = true) (hR : GoSrc.sam_ReaderHeader_Found = true)
    (hF : GoSrc.sam_parseLine_Found = true) (hI : GoSrc.parseInts_Found = true)
    (hT : GoSrc.parseTags_Found = true) (hS : GoSrc.splitTag_Found = true)
    (h : Bytes → Bytes × GoErr) (f : Bytes → Int × GoErr) (g : Bytes → Int → Bytes × GoErr)
    (fuel : Nat) (r : BufRd) (yield : List OItem → Bool) (inner : List GoItem)
    (hin : GoSrc.sam_ReaderHeader h f g fuel r (fun l => (runG (filterMapBodyH pick yield) l).2) = some inner) :
    (runG (filterMapBodyH pick yield) inner.dropLast).2 = true
    ∧ GoSrc.sam_Reader h f g fuel r yield = some (runG (filterMapBodyH pick yield) inner).1 := by
  have h1 : (runG (filterMapBodyH pick yield) inner.dropLast).2 = true := by
    rw [sam_ReaderHeader_spec hR hF hI hT hS] at hin
    obtain ⟨t, rfl, ht⟩ := rhSpec_go_on _ _ _ _ _ _ hin
    apply runG_dropLast_of_go_on
    intro j hj
    have := ht j (by simpa using hj)
    simpa using this
  refine ⟨h1, ?_⟩
  rw [sam_Reader_spec hRd, hin, Option.bind_some, if_pos h1]

theorem sam_Reader_none_iff (hRd : GoSrc.sam_Reader_Found = true) (hR : GoSrc.sam_ReaderHeader_Found = true)
    (hF : GoSrc.sam_parseLine_Found = true) (hI : GoSrc.parseInts_Found = true)
    (hT : GoSrc.parseTags_Found = true) (hS : GoSrc.splitTag_Found = true)
    (h : Bytes → Bytes × GoErr) (f : Bytes → Int × GoErr) (g : Bytes → Int → Bytes × GoErr)
    (fuel : Nat) (r : BufRd) (yield : List OItem → Bool) :
    GoSrc.sam_Reader h f g fuel r yield = none
      ↔ GoSrc.sam_ReaderHeader h f g fuel r (fun l => (runG (filterMapBodyH pick yield) l).2) = none := by
  cases hin : GoSrc.sam_ReaderHeader h f g fuel r (fun l => (runG (filterMapBodyH pick yield) l).2) with
  | none => rw [sam_Reader_spec hRd, hin]; simp
  | some inner => rw [(sam_Reader_some hRd hR hF hI hT hS h f g fuel r yield inner hin).2]; simp

/-! ## The log -/

/-- the translated closure, ARBITRARY library functions and ARBITRARY consumer: the outer items of the
uninterrupted run, cut by the consumer -/
theorem sam_Reader_raw (hRd : GoSrc.sam_Reader_Found = true) (hR : GoSrc.sam_ReaderHeader_Found = true)
    (hF : GoSrc.sam_parseLine_Found = true) (hI : GoSrc.parseInts_Found = true)
    (hT : GoSrc.parseTags_Found = true) (hS : GoSrc.splitTag_Found = true)
    (h : Bytes → Bytes × GoErr) (f : Bytes → Int × GoErr) (g : Bytes → Int → Bytes × GoErr)
    (fuel : Nat) (x : Bytes) (e : Ending) (y : List OItem → Bool)
    (hfuel : (textLines e x).length + 1 ≤ fuel) :
    GoSrc.sam_Reader h f g fuel ⟨x, e⟩ y = some (takeThroughH y [] (outItems (lineSpec h f g) e x)) := by
  rw [sam_Reader_spec hRd, sam_ReaderHeader_raw hR hF hI hT hS h f g fuel x e _ hfuel, Option.bind_some,
    if_pos (runG_dropLast _ _), runG_takeThroughH]
  rfl

/-! ## The two layers -/

/-- as long as the body answered `true` on everything but the last item, the outer log is what `pick`
keeps of the inner history -/
theorem runG_fst {α β : Type} (g : α → Option β) (y : List β → Bool) (l : List α) :
    ((runG (filterMapBodyH g y) l).2 = true → (runG (filterMapBodyH g y) l).1 = l.filterMap g)
    ∧ ((runG (filterMapBodyH g y) l.dropLast).2 = true → (runG (filterMapBodyH g y) l).1 = l.filterMap g) := by
  rw [← List.reverse_reverse l]
  generalize l.reverse = r
  induction r with
  | nil => exact ⟨fun _ => rfl, fun _ => rfl⟩
  | cons x r ih =>
    rw [List.reverse_cons]
    generalize r.reverse = l at ih ⊢
    have key : (runG (filterMapBodyH g y) l).2 = true →
        (runG (filterMapBodyH g y) (l ++ [x])).1 = (l ++ [x]).filterMap g := by
      intro hl
      rw [runG_concat, if_pos hl, ih.1 hl, List.filterMap_append]
      cases hg : g x <;> simp [filterMapBodyH, hg]
    refine ⟨fun h2 => ?_, fun h2 => key (by simpa using h2)⟩
    by_cases hl : (runG (filterMapBodyH g y) l).2 = true
    · exact key hl
    · rw [runG_concat, if_neg hl] at h2; exact absurd h2 hl

/-- the body's answer on an inner history on whose proper prefixes it answered `true`: `true` for an
item passed over by `continue`, else the outer consumer's answer on the outer history -/
theorem runG_answer {α β : Type} (g : α → Option β) (y : List β → Bool) (l : List α) (x : α)
    (hl : (runG (filterMapBodyH g y) l).2 = true) :
    (runG (filterMapBodyH g y) (l ++ [x])).2
      = match g x with
        | none => true
        | some o => y (l.filterMap g ++ [o]) := by
  rw [runG_concat, if_pos hl, (runG_fst g y l).1 hl]
  cases hg : g x <;> simp [filterMapBodyH, hg]

/-- the inner history, when the inner iterator obeys the take-through law: the outer log is what `pick`
keeps of it -/
theorem runG_inner_fst {α β : Type} (g : α → Option β) (y : List β → Bool) (xs : List α) :
    (runG (filterMapBodyH g y) (takeThroughH (fun l => (runG (filterMapBodyH g y) l).2) [] xs)).1
      = (takeThroughH (fun l => (runG (filterMapBodyH g y) l).2) [] xs).filterMap g :=
  (runG_fst g y _).2 (runG_dropLast _ xs)

/-- BOTH layers: once the outer consumer declines the item made of the `i`-th inner item, the inner
iterator hands over nothing more (no further line is read, not even a header line) -/
theorem inner_stop {α β : Type} (g : α → Option β) (y : List β → Bool) (xs : List α) (i : Nat)
    (hi : i < (takeThroughH (fun l => (runG (filterMapBodyH g y) l).2) [] xs).length) (o : β)
    (ho : g (takeThroughH (fun l => (runG (filterMapBodyH g y) l).2) [] xs)[i] = some o)
    (hy : y (((takeThroughH (fun l => (runG (filterMapBodyH g y) l).2) [] xs).take i).filterMap g ++ [o]) = false) :
    i + 1 = (takeThroughH (fun l => (runG (filterMapBodyH g y) l).2) [] xs).length := by
  apply takeThroughH_stop _ xs i hi
  generalize hL : takeThroughH (fun l => (runG (filterMapBodyH g y) l).2) [] xs = L at hi ho hy ⊢
  have hpre : (runG (filterMapBodyH g y) (L.take i)).2 = true := by
    cases i with
    | zero => rfl
    | succ j =>
      have := takeThroughH_go_on (fun l => (runG (filterMapBodyH g y) l).2) xs j (by rw [hL]; exact hi)
      rw [hL] at this
      exact this
  show (runG (filterMapBodyH g y) (L.take (i + 1))).2 = false
  rw [List.take_succ_eq_append_getElem hi, runG_answer g y _ _ hpre, ho]
  exact hy

/-! ## Shapes; normalised outer items -/

/-- no header reaches the consumer: an outer item is a record without error, or an error without record -/
theorem pick_shape (it : GoItem) (o : OItem) (h : pick it = some o) :
    (∃ s, o = (some s, GoErr.nil)) ∨ (∃ e, e ≠ GoErr.nil ∧ o = (none, e)) := by
  obtain ⟨⟨H, S⟩, err⟩ := it
  cases err
  · cases S
    · cases h
    · simp only [pick, Option.some.injEq] at h; exact .inl ⟨_, h.symm⟩
  · simp only [pick, Option.some.injEq] at h; exact .inr ⟨_, by decide, h.symm⟩
  · simp only [pick, Option.some.injEq] at h; exact .inr ⟨_, by decide, h.symm⟩

theorem pick_header (t : Bytes) : pick ((some t, none), GoErr.nil) = none := rfl

/-- an outer item as a model item: a record with its tags normalised, or an error -/
def normO : OItem → Item Sam.Sam
  | (some t, GoErr.nil) => .ok (samOfT t)
  | _ => .err

/-- on the item of a text line, under the three hypotheses, `pick` is the model's `samPick` -/
theorem pick_lineItemGo {h f g pf} (hf : AtoiModel f) (hg : PFModel g pf) (hh : HexModel h) (text : Bytes) :
    (pick (lineItemGo (lineSpec h f g) text)).map normO
      = samPick (normItem (lineItemGo (lineSpec h f g) text)) := by
  unfold lineItemGo
  by_cases c : List.isPrefixOf [64] text = true
  · rw [if_pos c]; rfl
  · rw [if_neg c]
    have hl := lineSpec_model hf hg hh (splitOn 9 text)
    cases hp : Sam.parseLine pf (splitOn 9 text) with
    | none =>
      rw [hp] at hl
      obtain ⟨e, he, hq⟩ := hl
      rw [hq]
      cases e with
      | nil => exact absurd rfl he
      | eof => rfl
      | other => rfl
    | some s =>
      rw [hp] at hl
      obtain ⟨r, hq, _, _⟩ := hl
      rw [hq]
      rfl

theorem pick_endItem (e : Ending) : ∀ it ∈ endItemsGo e, (pick it).map normO = samPick (normItem it) := by
  cases e with
  | eof => intro it hit; cases hit
  | fail => intro it hit; simp only [endItemsGo, List.mem_singleton] at hit; subst hit; rfl

theorem filterMap_congr' {α β : Type} (f g : α → Option β) (l : List α) (h : ∀ x ∈ l, f x = g x) :
    l.filterMap f = l.filterMap g := by
  induction l with
  | nil => rfl
  | cons a l ih =>
    have ha := h a (by simp)
    have ih' := ih (fun x hx => h x (by simp [hx]))
    cases hf : f a with
    | none => rw [List.filterMap_cons_none hf, List.filterMap_cons_none (ha ▸ hf), ih']
    | some b => rw [List.filterMap_cons_some hf, List.filterMap_cons_some (ha ▸ hf), ih']

/-- the normalised outer items of an uninterrupted run are the model's `Sam.decodeSrc` -/
theorem outItems_norm {h f g pf} (hf : AtoiModel f) (hg : PFModel g pf) (hh : HexModel h) (e : Ending) (x : Bytes) :
    (outItems (lineSpec h f g) e x).map normO = Sam.decodeSrc pf e x := by
  unfold outItems Sam.decodeSrc
  rw [← goItems_norm hf hg hh e x, dropHeaders_eq, List.map_filterMap, List.filterMap_map]
  apply filterMap_congr'
  intro it hit
  unfold goItems at hit
  rcases List.mem_append.1 hit with hit | hit
  · obtain ⟨l, _, rfl⟩ := List.mem_map.1 hit
    exact pick_lineItemGo hf hg hh l
  · exact pick_endItem e it hit

/-- after a failed read the last outer item is the read error -/
theorem outItems_fail (P : List Bytes → Option SamT × GoErr) (x : Bytes) :
    outItems P .fail x
      = (((textLines .fail x).filter (· ≠ [])).map (lineItemGo P)).filterMap pick ++ [(none, GoErr.other)] := by
  unfold outItems goItems
  rw [List.filterMap_append]
  rfl

theorem outItems_eof (P : List Bytes → Option SamT × GoErr) (x : Bytes) :
    outItems P .eof x = (((textLines .eof x).filter (· ≠ [])).map (lineItemGo P)).filterMap pick := by
  unfold outItems goItems
  rw [List.filterMap_append]
  simp [endItemsGo]

/-- a consumer that declines at the `k`-th item (`k ≥ 1`) sees exactly the first `k` items -/
theorem takeThroughH_count {α : Type} (k : Nat) (xs : List α) : ∀ acc : List α, acc.length < k →
    takeThroughH (fun l => decide (l.length < k)) acc xs = acc ++ xs.take (k - acc.length) := by
  induction xs with
  | nil => intro acc _; simp [takeThroughH]
  | cons x xs ih =>
    intro acc hk
    rw [takeThroughH_cons]
    by_cases hc : acc.length + 1 < k
    · rw [if_pos (by simpa using hc), ih (acc ++ [x]) (by simpa using hc)]
      have : k - acc.length = (k - (acc ++ [x]).length) + 1 := by simp; omega
      rw [this, List.take_succ_cons]; simp
    · rw [if_neg (by simpa using hc)]
      have : k - acc.length = 1 := by omega
      rw [this]; simp

end SamRd
end Bio.GoSrcLemmas
