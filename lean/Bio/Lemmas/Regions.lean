/-
  Helper lemmas for the regions model (property C16): `insertNat`/`erase`
  facts, the event order, the semantic characterisation of `at'` on a sweep,
  and the link between the swept events and the brute-force `covering`.
-/
import Bio.Model.Regions
namespace Bio.Regions

/-! ## `insertNat` / `erase` -/

theorem mem_insertNat {a x : Nat} {l : List Nat} : a ∈ insertNat x l ↔ a = x ∨ a ∈ l := by
  induction l with
  | nil => simp [insertNat]
  | cons y ys ih =>
    simp only [insertNat]
    split
    · simp
    · split
      · rename_i h; have : x = y := by simpa using h
        subst this; simp
      · simp only [List.mem_cons, ih]
        constructor
        · rintro (h | h | h) <;> simp [h]
        · rintro (h | h | h) <;> simp [h]

theorem pairwise_insertNat {x : Nat} {l : List Nat} (h : l.Pairwise (· < ·)) :
    (insertNat x l).Pairwise (· < ·) := by
  induction l with
  | nil => simp [insertNat]
  | cons y ys ih =>
    have hy := List.pairwise_cons.1 h
    simp only [insertNat]
    split
    · rename_i hxy
      refine List.pairwise_cons.2 ⟨?_, h⟩
      intro a ha
      rcases List.mem_cons.1 ha with rfl | ha
      · exact hxy
      · exact Nat.lt_trans hxy (hy.1 a ha)
    · split
      · exact h
      · rename_i h1 h2
        have hne : x ≠ y := by simpa using h2
        refine List.pairwise_cons.2 ⟨?_, ih hy.2⟩
        intro a ha
        rcases mem_insertNat.1 ha with rfl | ha
        · omega
        · exact hy.1 a ha

theorem mem_erase_of_pairwise {a x : Nat} {l : List Nat} (h : l.Pairwise (· < ·)) :
    a ∈ l.erase x ↔ a ≠ x ∧ a ∈ l := by
  have hn : l.Nodup := h.imp (fun h => Nat.ne_of_lt h)
  exact hn.mem_erase_iff

/-- Two strictly ascending lists with the same members are equal. -/
theorem eq_of_pairwise_lt_of_mem_iff : ∀ {l₁ l₂ : List Nat},
    l₁.Pairwise (· < ·) → l₂.Pairwise (· < ·) → (∀ a, a ∈ l₁ ↔ a ∈ l₂) → l₁ = l₂
  | [], [], _, _, _ => rfl
  | [], b :: _, _, _, h => by have := (h b).2 (by simp); simp at this
  | a :: _, [], _, _, h => by have := (h a).1 (by simp); simp at this
  | a :: l₁, b :: l₂, h₁, h₂, h => by
    have p₁ := List.pairwise_cons.1 h₁
    have p₂ := List.pairwise_cons.1 h₂
    have hab : a = b := by
      have ha := (h a).1 (by simp)
      have hb := (h b).2 (by simp)
      rcases List.mem_cons.1 ha with e | ha
      · exact e
      · rcases List.mem_cons.1 hb with e | hb
        · exact e.symm
        · have := p₁.1 b hb; have := p₂.1 a ha; omega
    subst hab
    congr 1
    apply eq_of_pairwise_lt_of_mem_iff p₁.2 p₂.2
    intro c
    constructor
    · intro hc
      have := (h c).1 (List.mem_cons_of_mem _ hc)
      rcases List.mem_cons.1 this with e | hc'
      · have := p₁.1 c hc; omega
      · exact hc'
    · intro hc
      have := (h c).2 (List.mem_cons_of_mem _ hc)
      rcases List.mem_cons.1 this with e | hc'
      · have := p₂.1 c hc; omega
      · exact hc'

/-! ## The event order -/

theorem evLess_irrefl (a : Ev) : evLess a a = false := by
  simp [evLess]

theorem evLe_refl (a : Ev) : evLe a a = true := by
  simp [evLe, evLess_irrefl]

theorem evLe_iff (a b : Ev) : evLe a b = true ↔
    a.pos < b.pos ∨ (a.pos = b.pos ∧ (a.start.toNat < b.start.toNat ∨
      (a.start.toNat = b.start.toNat ∧ a.idx ≤ b.idx))) := by
  obtain ⟨ai, ap, as⟩ := a
  obtain ⟨bi, bp, bs⟩ := b
  by_cases hp : ap = bp
  · subst hp
    cases as <;> cases bs <;> simp [evLe, evLess]
  · have hp' : ¬ bp = ap := fun h => hp h.symm
    simp [evLe, evLess, hp, hp']
    omega

theorem evLe_total (a b : Ev) : (evLe a b || evLe b a) = true := by
  simp only [Bool.or_eq_true, evLe_iff]
  omega

theorem evLe_trans (a b c : Ev) : evLe a b = true → evLe b c = true → evLe a c = true := by
  simp only [evLe_iff]
  omega

theorem evLe_pos {a b : Ev} (h : evLe a b = true) : a.pos ≤ b.pos := by
  rw [evLe_iff] at h
  omega

/-- A start event is not `evLe` a later end event of the same index… precisely:
an end event at a strictly larger position is not `≤` the start event. -/
theorem not_evLe_end_start {x : Nat} {s q : Int} (h : s < q) :
    evLe ⟨x, q, false⟩ ⟨x, s, true⟩ = false := by
  have : ¬ s = q := by omega
  simp [evLe, evLess, this, h]

theorem sorted_mergeSort_evLe (l : List Ev) : (l.mergeSort evLe).Pairwise (fun a b => evLe a b = true) :=
  List.pairwise_mergeSort evLe_trans evLe_total l

/-! ## Events of the input -/

theorem mem_eventsFrom {ev : Ev} : ∀ {k : Nat} {ss es : List Int},
    ev ∈ eventsFrom k ss es ↔
      ∃ j s q, ss[j]? = some s ∧ es[j]? = some q ∧ s < q ∧
        (ev = ⟨k + j, s, true⟩ ∨ ev = ⟨k + j, q, false⟩)
  | k, [], es => by simp [eventsFrom]
  | k, s :: ss, [] => by simp [eventsFrom]
  | k, s :: ss, e :: es => by
    have ih := @mem_eventsFrom ev (k + 1) ss es
    constructor
    · intro h
      simp only [eventsFrom] at h
      have hrec : ev ∈ eventsFrom (k + 1) ss es →
          ∃ j s' q, (s :: ss)[j]? = some s' ∧ (e :: es)[j]? = some q ∧ s' < q ∧
            (ev = ⟨k + j, s', true⟩ ∨ ev = ⟨k + j, q, false⟩) := by
        intro h
        obtain ⟨j, s', q, h1, h2, h3, h4⟩ := ih.1 h
        refine ⟨j + 1, s', q, by simpa using h1, by simpa using h2, h3, ?_⟩
        have : k + 1 + j = k + (j + 1) := by omega
        rw [this] at h4; exact h4
      split at h
      · rename_i hse
        rcases List.mem_cons.1 h with rfl | h
        · exact ⟨0, s, e, by simp, by simp, hse, Or.inl rfl⟩
        rcases List.mem_cons.1 h with rfl | h
        · exact ⟨0, s, e, by simp, by simp, hse, Or.inr rfl⟩
        exact hrec h
      · exact hrec h
    · rintro ⟨j, s', q, h1, h2, h3, h4⟩
      simp only [eventsFrom]
      cases j with
      | zero =>
        simp at h1 h2; subst h1; subst h2
        simp only [h3, if_true, List.mem_cons]
        rcases h4 with h4 | h4
        · exact Or.inl (by simpa using h4)
        · exact Or.inr (Or.inl (by simpa using h4))
      | succ j =>
        have hin : ev ∈ eventsFrom (k + 1) ss es := by
          refine ih.2 ⟨j, s', q, by simpa using h1, by simpa using h2, h3, ?_⟩
          have : k + 1 + j = k + (j + 1) := by omega
          rw [this]; exact h4
        split
        · exact List.mem_cons_of_mem _ (List.mem_cons_of_mem _ hin)
        · exact hin

theorem mem_events {ev : Ev} {starts ends : List Int} :
    ev ∈ eventsFrom 0 starts ends ↔
      ∃ s q, starts[ev.idx]? = some s ∧ ends[ev.idx]? = some q ∧ s < q ∧
        (ev = ⟨ev.idx, s, true⟩ ∨ ev = ⟨ev.idx, q, false⟩) := by
  rw [mem_eventsFrom]
  constructor
  · rintro ⟨j, s, q, h1, h2, h3, h4⟩
    have hj : ev.idx = j := by rcases h4 with h | h <;> simp [h]
    rw [hj]
    refine ⟨s, q, h1, h2, h3, ?_⟩
    simpa using h4
  · rintro ⟨s, q, h1, h2, h3, h4⟩
    exact ⟨ev.idx, s, q, h1, h2, h3, by simpa using h4⟩

theorem mem_covering {x : Nat} {starts ends : List Int} {i : Int} :
    x ∈ covering starts ends i ↔
      ∃ s q, starts[x]? = some s ∧ ends[x]? = some q ∧ s ≤ i ∧ i < q := by
  unfold covering
  rw [List.mem_filter, List.mem_range]
  constructor
  · rintro ⟨_, h⟩
    split at h
    · rename_i s q hs hq
      exact ⟨s, q, hs, hq, by simpa using h⟩
    · simp at h
  · rintro ⟨s, q, hs, hq, h⟩
    refine ⟨?_, ?_⟩
    · have := List.getElem?_eq_some_iff.1 hs
      exact this.1
    · rw [hs, hq]; simpa using h

theorem pairwise_covering (starts ends : List Int) (i : Int) :
    (covering starts ends i).Pairwise (· < ·) :=
  List.Pairwise.filter _ List.pairwise_lt_range

/-! ## Applying events to the active set -/

/-- One step of the sweep on the active set. -/
def step (act : List Nat) (e : Ev) : List Nat :=
  if e.start then insertNat e.idx act else act.erase e.idx

theorem pairwise_step {act : List Nat} (e : Ev) (h : act.Pairwise (· < ·)) :
    (step act e).Pairwise (· < ·) := by
  unfold step
  split
  · exact pairwise_insertNat h
  · exact h.erase _

theorem mem_step {act : List Nat} {e : Ev} {x : Nat} (h : act.Pairwise (· < ·)) :
    x ∈ step act e ↔ if e.idx = x then e.start = true else x ∈ act := by
  unfold step
  cases hs : e.start
  · simp only [Bool.false_eq_true, if_false]
    rw [mem_erase_of_pairwise h]
    split
    · rename_i hx; simp [hx]
    · rename_i hx
      have : x ≠ e.idx := fun h => hx h.symm
      simp [this]
  · simp only [if_true]
    rw [mem_insertNat]
    split
    · rename_i hx; simp [hx]
    · rename_i hx
      have : x ≠ e.idx := fun h => hx h.symm
      simp [this]

theorem pairwise_foldl_step : ∀ (l : List Ev) {act : List Nat}, act.Pairwise (· < ·) →
    (l.foldl step act).Pairwise (· < ·)
  | [], _, h => h
  | e :: l, _, h => pairwise_foldl_step l (pairwise_step e h)

/-- The `start` flag of the last event of index `x`, if any. -/
def lastFlag (x : Nat) : List Ev → Option Bool
  | [] => none
  | e :: es =>
    match lastFlag x es with
    | some b => some b
    | none => if e.idx = x then some e.start else none

theorem mem_foldl_step {x : Nat} : ∀ (l : List Ev) {act : List Nat}, act.Pairwise (· < ·) →
    (x ∈ l.foldl step act ↔
      match lastFlag x l with
      | some b => b = true
      | none => x ∈ act)
  | [], _, _ => by simp [lastFlag]
  | e :: l, act, h => by
    rw [List.foldl_cons, mem_foldl_step l (pairwise_step e h)]
    simp only [lastFlag]
    cases lastFlag x l with
    | some b => simp
    | none =>
      simp only []
      rw [mem_step h]
      split <;> simp

theorem lastFlag_eq_none {x : Nat} : ∀ {l : List Ev}, lastFlag x l = none → ∀ e ∈ l, e.idx ≠ x
  | [], _, e, he => by simp at he
  | a :: l, h, e, he => by
    simp only [lastFlag] at h
    cases hl : lastFlag x l with
    | some b => rw [hl] at h; simp at h
    | none =>
      rw [hl] at h
      simp only [] at h
      rcases List.mem_cons.1 he with rfl | he
      · intro hx; simp [hx] at h
      · exact lastFlag_eq_none hl e he

theorem lastFlag_eq_some {x : Nat} {b : Bool} : ∀ {l : List Ev},
    l.Pairwise (fun a b => evLe a b = true) → lastFlag x l = some b →
    ∃ e ∈ l, e.idx = x ∧ e.start = b ∧ ∀ e' ∈ l, e'.idx = x → evLe e' e = true
  | [], _, h => by simp [lastFlag] at h
  | a :: l, hp, h => by
    have hp' := List.pairwise_cons.1 hp
    simp only [lastFlag] at h
    cases hl : lastFlag x l with
    | some b' =>
      rw [hl] at h
      simp only [Option.some.injEq] at h
      subst h
      obtain ⟨e, he, h1, h2, h3⟩ := lastFlag_eq_some hp'.2 hl
      refine ⟨e, List.mem_cons_of_mem _ he, h1, h2, ?_⟩
      intro e' he' hx
      rcases List.mem_cons.1 he' with rfl | he'
      · exact hp'.1 e he
      · exact h3 e' he' hx
    | none =>
      rw [hl] at h
      simp only [] at h
      split at h
      · rename_i hx
        simp only [Option.some.injEq] at h
        refine ⟨a, by simp, hx, h, ?_⟩
        intro e' he' hx'
        rcases List.mem_cons.1 he' with rfl | he'
        · exact evLe_refl _
        · exact absurd hx' (lastFlag_eq_none hl e' he')
      · simp at h

/-! ## `at'` on a sweep -/

theorem sweep_head : ∀ (evs : List Ev) (pos : Int) (act : List Nat),
    ∃ a rest, sweep evs pos act = (pos, a) :: rest
  | [], pos, act => ⟨act, [], rfl⟩
  | e :: es, pos, act => by
    simp only [sweep]
    split
    · exact ⟨_, _, rfl⟩
    · exact sweep_head es pos _

theorem at'_sweep_lt (evs : List Ev) (pos : Int) (act : List Nat) (i : Int) (h : i < pos) :
    at' (sweep evs pos act) i = [] := by
  obtain ⟨a, rest, hs⟩ := sweep_head evs pos act
  have : ¬ pos ≤ i := by omega
  simp [at', hs, this]

theorem at'_cons_sweep (p : Int) (a : List Nat) (es : List Ev) (q : Int) (act : List Nat)
    (i : Int) (hp : p ≤ i) :
    at' ((p, a) :: sweep es q act) i = if q ≤ i then at' (sweep es q act) i else a := by
  obtain ⟨a', rest, hs⟩ := sweep_head es q act
  rw [hs]
  by_cases hq : q ≤ i
  · simp [at', hp, hq]
  · simp [at', hp, hq]

/-- For an event list sorted by position, all at or after `pos ≤ i`, `at'` of
the sweep is the active set after applying all events with position ≤ i. -/
theorem at'_sweep (i : Int) : ∀ (evs : List Ev) (pos : Int) (act : List Nat),
    evs.Pairwise (fun a b => a.pos ≤ b.pos) → (∀ e ∈ evs, pos ≤ e.pos) → pos ≤ i →
    at' (sweep evs pos act) i = (evs.takeWhile fun e => e.pos ≤ i).foldl step act
  | [], pos, act, _, _, hi => by simp [sweep, at', hi]
  | e :: es, pos, act, hs, hge, hi => by
    have hs' := List.pairwise_cons.1 hs
    have hstep : (if e.start then insertNat e.idx act else act.erase e.idx) = step act e := rfl
    simp only [sweep, hstep]
    by_cases hep : e.pos = pos
    · have hei : e.pos ≤ i := by omega
      simp only [hep, bne_self_eq_false, Bool.false_eq_true, if_false]
      rw [at'_sweep i es pos (step act e) hs'.2 (fun e' he' => hge e' (List.mem_cons_of_mem _ he')) hi]
      rw [List.takeWhile_cons]
      simp [hep, hi]
    · have hne : (e.pos != pos) = true := by simpa using hep
      simp only [hne, if_true]
      rw [at'_cons_sweep _ _ _ _ _ _ hi]
      by_cases hei : e.pos ≤ i
      · simp only [hei, if_true]
        rw [at'_sweep i es e.pos (step act e) hs'.2 hs'.1 hei]
        rw [List.takeWhile_cons]
        simp [hei]
      · simp only [hei, if_false]
        rw [List.takeWhile_cons]
        simp [hei]

theorem mem_takeWhile_pos {i : Int} {ev : Ev} : ∀ {evs : List Ev},
    evs.Pairwise (fun a b => a.pos ≤ b.pos) →
    (ev ∈ evs.takeWhile (fun e => e.pos ≤ i) ↔ ev ∈ evs ∧ ev.pos ≤ i)
  | [], _ => by simp
  | e :: es, hs => by
    have hs' := List.pairwise_cons.1 hs
    rw [List.takeWhile_cons]
    by_cases hei : e.pos ≤ i
    · simp only [hei, decide_true, if_true, List.mem_cons, mem_takeWhile_pos hs'.2]
      constructor
      · rintro (rfl | ⟨h1, h2⟩)
        · exact ⟨Or.inl rfl, hei⟩
        · exact ⟨Or.inr h1, h2⟩
      · rintro ⟨rfl | h1, h2⟩
        · exact Or.inl rfl
        · exact Or.inr ⟨h1, h2⟩
    · simp only [hei, decide_false, Bool.false_eq_true, if_false, List.not_mem_nil, false_iff]
      rintro ⟨h1, h2⟩
      rcases List.mem_cons.1 h1 with rfl | h1
      · exact hei h2
      · have := hs'.1 ev h1; omega

/-! ## Main lemma -/

/-- Applying all events at positions `≤ i` of a sorted event list with the
same members as `eventsFrom 0 starts ends` yields exactly `covering`. -/
theorem foldl_takeWhile_eq_covering (starts ends : List Int) (i : Int) (evs : List Ev)
    (hsorted : evs.Pairwise (fun a b => evLe a b = true))
    (hmem : ∀ e, e ∈ evs ↔ e ∈ eventsFrom 0 starts ends) :
    (evs.takeWhile fun e => e.pos ≤ i).foldl step [] = covering starts ends i := by
  have hpos : evs.Pairwise (fun a b => a.pos ≤ b.pos) := hsorted.imp evLe_pos
  have hL : (evs.takeWhile fun e => e.pos ≤ i).Pairwise (fun a b => evLe a b = true) :=
    hsorted.sublist (List.takeWhile_sublist _)
  have hin : ∀ e, e ∈ evs.takeWhile (fun e => e.pos ≤ i) ↔
      e ∈ eventsFrom 0 starts ends ∧ e.pos ≤ i := by
    intro e; rw [mem_takeWhile_pos hpos, hmem]
  apply eq_of_pairwise_lt_of_mem_iff (pairwise_foldl_step _ List.Pairwise.nil)
    (pairwise_covering _ _ _)
  intro x
  rw [mem_foldl_step _ List.Pairwise.nil, mem_covering]
  cases hl : lastFlag x (evs.takeWhile fun e => e.pos ≤ i) with
  | none =>
    simp only [List.not_mem_nil, false_iff]
    rintro ⟨s, q, hs, hq, h1, h2⟩
    have hne := lastFlag_eq_none hl ⟨x, s, true⟩
      ((hin _).2 ⟨mem_events.2 ⟨s, q, hs, hq, by omega, Or.inl rfl⟩, h1⟩)
    exact hne rfl
  | some b =>
    obtain ⟨e, he, hx, hb, hmax⟩ := lastFlag_eq_some hL hl
    simp only []
    have he' := (hin e).1 he
    obtain ⟨s, q, hs, hq, hsq, hev⟩ := mem_events.1 he'.1
    rw [hx] at hs hq hev
    constructor
    · intro hbt
      subst hbt
      rcases hev with hev | hev
      · refine ⟨s, q, hs, hq, ?_, ?_⟩
        · have := he'.2; rw [hev] at this; exact this
        · apply Classical.byContradiction
          intro hqi
          have hend : (⟨x, q, false⟩ : Ev) ∈ evs.takeWhile (fun e => e.pos ≤ i) :=
            (hin _).2 ⟨mem_events.2 ⟨s, q, hs, hq, hsq, Or.inr rfl⟩, by simp; omega⟩
          have := hmax _ hend rfl
          rw [hev, not_evLe_end_start hsq] at this
          simp at this
      · rw [hev] at hb; simp at hb
    · rintro ⟨s', q', hs', hq', h1, h2⟩
      rw [hs] at hs'; rw [hq] at hq'
      simp only [Option.some.injEq] at hs' hq'
      subst hs'; subst hq'
      rcases hev with hev | hev
      · rw [hev] at hb; simpa using hb.symm
      · have := he'.2; rw [hev] at this; simp at this; omega

/-- Nothing is covered below the first event position. -/
theorem covering_eq_nil_of_lt (starts ends : List Int) (i : Int) (evs : List Ev) (p : Int)
    (hmem : ∀ e, e ∈ evs ↔ e ∈ eventsFrom 0 starts ends)
    (hlow : ∀ e ∈ evs, p ≤ e.pos) (hi : i < p) : covering starts ends i = [] := by
  apply List.eq_nil_iff_forall_not_mem.2
  intro x hx
  obtain ⟨s, q, hs, hq, h1, h2⟩ := mem_covering.1 hx
  have : (⟨x, s, true⟩ : Ev) ∈ evs :=
    (hmem _).2 (mem_events.2 ⟨s, q, hs, hq, by omega, Or.inl rfl⟩)
  have := hlow _ this
  simp at this; omega

/-- `pos0` of `newIndex`: position of the first event (0 if none). -/
def firstPos (evs : List Ev) : Int :=
  match evs with
  | e :: _ => e.pos
  | [] => 0

theorem firstPos_le {evs : List Ev} (hpos : evs.Pairwise (fun a b => a.pos ≤ b.pos)) :
    ∀ e ∈ evs, firstPos evs ≤ e.pos := by
  intro e he
  match evs, he, hpos with
  | a :: l, he, hpos =>
    simp only [firstPos]
    rcases List.mem_cons.1 he with rfl | he
    · exact Int.le_refl _
    · exact (List.pairwise_cons.1 hpos).1 e he

/-- The sweep over ANY list of the input's events that is sorted by `evLe`
answers `covering` (so the result does not depend on which correct sorting
algorithm produced the list). -/
theorem at'_sweep_any_sorted (starts ends : List Int) (i : Int) (evs : List Ev)
    (hsorted : evs.Pairwise (fun a b => evLe a b = true))
    (hmem : ∀ e, e ∈ evs ↔ e ∈ eventsFrom 0 starts ends) :
    at' (sweep evs (firstPos evs) []) i = covering starts ends i := by
  have hpos : evs.Pairwise (fun a b => a.pos ≤ b.pos) := hsorted.imp evLe_pos
  have hlow := firstPos_le hpos
  by_cases hi : firstPos evs ≤ i
  · rw [at'_sweep i evs _ [] hpos hlow hi]
    exact foldl_takeWhile_eq_covering starts ends i evs hsorted hmem
  · rw [at'_sweep_lt _ _ _ _ (by omega)]
    exact (covering_eq_nil_of_lt starts ends i evs _ hmem hlow (by omega)).symm

theorem newIndex_eq {starts ends : List Int} (h : starts.length = ends.length) :
    newIndex starts ends =
      some (sweep ((eventsFrom 0 starts ends).mergeSort evLe)
        (firstPos ((eventsFrom 0 starts ends).mergeSort evLe)) []) := by
  simp only [newIndex, h, bne_self_eq_false, Bool.false_eq_true, if_false]
  rfl

theorem at'_sweep_sorted (starts ends : List Int) (i : Int) :
    at' (sweep ((eventsFrom 0 starts ends).mergeSort evLe)
        (firstPos ((eventsFrom 0 starts ends).mergeSort evLe)) []) i = covering starts ends i :=
  at'_sweep_any_sorted starts ends i _ (sorted_mergeSort_evLe _) (fun _ => List.mem_mergeSort)

/-! ## Breakpoints are strictly increasing (justifies reading `At`'s binary
search as "last breakpoint with position ≤ i") -/

theorem sweep_sorted : ∀ (evs : List Ev) (pos : Int) (act : List Nat),
    evs.Pairwise (fun a b => a.pos ≤ b.pos) → (∀ e ∈ evs, pos ≤ e.pos) →
    (sweep evs pos act).Pairwise (fun a b => a.1 < b.1) ∧ ∀ bp ∈ sweep evs pos act, pos ≤ bp.1
  | [], pos, act, _, _ => by simp [sweep]
  | e :: es, pos, act, hs, hge => by
    have hs' := List.pairwise_cons.1 hs
    simp only [sweep]
    by_cases hep : e.pos = pos
    · simp only [hep, bne_self_eq_false, Bool.false_eq_true, if_false]
      exact sweep_sorted es pos _ hs'.2 (fun e' he' => hge e' (List.mem_cons_of_mem _ he'))
    · have hne : (e.pos != pos) = true := by simpa using hep
      have hlt : pos < e.pos := by
        have := hge e (by simp); omega
      simp only [hne, if_true]
      have ih := sweep_sorted es e.pos
        (if e.start then insertNat e.idx act else act.erase e.idx) hs'.2 hs'.1
      refine ⟨List.pairwise_cons.2 ⟨?_, ih.1⟩, ?_⟩
      · intro bp hbp
        have := ih.2 bp hbp
        show pos < bp.1
        omega
      · intro bp hbp
        rcases List.mem_cons.1 hbp with rfl | hbp
        · exact Int.le_refl _
        · have := ih.2 bp hbp; omega

theorem breakpoints_sorted_aux (evs : List Ev)
    (hsorted : evs.Pairwise (fun a b => evLe a b = true)) :
    (sweep evs (firstPos evs) []).Pairwise (fun a b => a.1 < b.1) := by
  have hpos : evs.Pairwise (fun a b => a.pos ≤ b.pos) := hsorted.imp evLe_pos
  exact (sweep_sorted evs _ [] hpos (firstPos_le hpos)).1

end Bio.Regions
