/-
  Generic lemmas about a single-bit mask `K = 1#64 <<< i` on `BitVec 64`
  (the shape of the SAM flag constants, getters and setters generated from
  /repo/formats/sam/flag.go into `Bio/Generated/Flag.lean`).
  Nothing here mentions the generated definitions; `Bio/Props/C03Flag.lean`
  instantiates these lemmas once per flag name.
-/
namespace Bio.Flag

/-- The bits of the mask `1 <<< i`: bit `j` is set iff `j = i`. -/
theorem getLsbD_mask (i j : Nat) (hi : i < 64) :
    ((1#64 <<< i : BitVec 64)).getLsbD j = decide (j = i) := by
  rw [BitVec.getLsbD_shiftLeft, BitVec.getLsbD_one]
  by_cases h : j = i
  · subst h; simp [hi]
  · simp only [h, decide_false]
    by_cases h2 : j < i
    · simp [h2]
    · have : j - i ≠ 0 := by omega
      simp [this]

theorem toNat_mask (i : Nat) (hi : i < 64) : ((1#64 <<< i : BitVec 64)).toNat = 2 ^ i := by
  rw [BitVec.toNat_shiftLeft, Nat.shiftLeft_eq]
  simp only [BitVec.toNat_ofNat, Nat.reducePow, Nat.reduceMod, Nat.one_mul]
  exact Nat.mod_eq_of_lt (Nat.pow_lt_pow_right (by omega) hi)

/-- Below the sign bit the mask is a positive signed number. -/
theorem toInt_mask (i : Nat) (hi : i < 63) : ((1#64 <<< i : BitVec 64)).toInt = 2 ^ i := by
  rw [BitVec.toInt_eq_toNat_cond, toNat_mask i (by omega)]
  have : 2 * 2 ^ i < 2 ^ 64 := by
    have := Nat.pow_lt_pow_right (a := 2) (by omega) (show i + 1 < 64 by omega)
    rw [Nat.pow_succ] at this; omega
  simp [this]

/-- Go's signed test `f & K > 0` on a 64-bit int reads exactly bit `i`
(for `i < 63`; with `i = 63` the mask would be negative and the test always false). -/
theorem get_mask (f : BitVec 64) (i : Nat) (hi : i < 63) :
    decide (0 < (f &&& (1#64 <<< i)).toInt) = f.getLsbD i := by
  cases hb : f.getLsbD i
  · have : f &&& (1#64 <<< i) = 0#64 := by
      apply BitVec.eq_of_getLsbD_eq
      intro j hj
      rw [BitVec.getLsbD_and, getLsbD_mask i j (by omega)]
      by_cases h : j = i
      · subst h; simp [hb]
      · simp [h]
    rw [this]; simp
  · have : f &&& (1#64 <<< i) = (1#64 <<< i) := by
      apply BitVec.eq_of_getLsbD_eq
      intro j hj
      rw [BitVec.getLsbD_and, getLsbD_mask i j (by omega)]
      by_cases h : j = i
      · subst h; simp [hb]
      · simp [h]
    rw [this, toInt_mask i hi]
    have : (0:Int) < 2 ^ i := Int.pow_pos (by omega)
    simp [this]

theorem getLsbD_or_mask (f : BitVec 64) (i j : Nat) (hi : i < 64) :
    (f ||| (1#64 <<< i)).getLsbD j = if j = i then true else f.getLsbD j := by
  rw [BitVec.getLsbD_or, getLsbD_mask i j hi]
  by_cases h : j = i <;> simp [h]

theorem getLsbD_andNot_mask (f : BitVec 64) (i j : Nat) (hi : i < 64) :
    (f &&& ~~~(1#64 <<< i)).getLsbD j = if j = i then false else f.getLsbD j := by
  rw [BitVec.getLsbD_and, BitVec.getLsbD_not, getLsbD_mask i j hi]
  by_cases h : j = i
  · subst h; simp [hi]
  · by_cases hj : j < 64
    · simp [h, hj]
    · simp [h, hj, BitVec.getLsbD_of_ge f j (by omega)]

/-- The setter shape writes exactly bit `i`: every bit `j` (no bound on `j`
needed: bits ≥ 64 read `false` on both sides). -/
theorem getLsbD_set_mask (f : BitVec 64) (v : Bool) (i j : Nat) (hi : i < 64) :
    (if v then f ||| (1#64 <<< i) else f &&& ~~~(1#64 <<< i)).getLsbD j
      = if j = i then v else f.getLsbD j := by
  cases v
  · simpa using getLsbD_andNot_mask f i j hi
  · simpa using getLsbD_or_mask f i j hi

/-- Getter after setter, generic shape. -/
theorem get_set_mask (f : BitVec 64) (v : Bool) (i : Nat) (hi : i < 63) :
    decide (0 < ((if v then f ||| (1#64 <<< i) else f &&& ~~~(1#64 <<< i))
      &&& (1#64 <<< i)).toInt) = v := by
  rw [get_mask _ i hi, getLsbD_set_mask f v i i (by omega)]
  simp

/-- A bit vector is determined by the bit-table: anything with the bits
"`v` at `i`, those of `f` elsewhere" IS the setter's result. -/
theorem set_mask_unique (f g : BitVec 64) (v : Bool) (i : Nat) (hi : i < 64)
    (hg : ∀ j, g.getLsbD j = if j = i then v else f.getLsbD j) :
    (if v then f ||| (1#64 <<< i) else f &&& ~~~(1#64 <<< i)) = g := by
  apply BitVec.eq_of_getLsbD_eq
  intro j _
  rw [getLsbD_set_mask f v i j hi, hg j]

end Bio.Flag
