/-
  Lemmas about the substitution-matrix model (`Bio.Model.Matrix`): the sorted
  association list (`insert`, `get`), `symmetrical`, the entry list of
  `goString`, the quarter-decimal codec, `fields`, and the token-level view of
  `readRows` together with a family of file layouts.  Core Lean only.
-/
import Bio.Model.Matrix
import Bio.Lemmas.Codec
namespace Bio.Matrix

/-! ## Keys and their order -/

theorem keyLt_iff (a b : Key) : keyLt a b = true ↔
    a.1.toNat < b.1.toNat ∨ (a.1.toNat = b.1.toNat ∧ a.2.toNat < b.2.toNat) := by
  simp [keyLt, UInt8.lt_iff_toNat_lt, ← UInt8.toNat_inj]

theorem key_eq_iff (a b : Key) : a = b ↔ a.1.toNat = b.1.toNat ∧ a.2.toNat = b.2.toNat := by
  rcases a with ⟨a1, a2⟩; rcases b with ⟨b1, b2⟩
  simp [← UInt8.toNat_inj]

theorem keyLt_irrefl (a : Key) : keyLt a a = false := by
  cases h : keyLt a a with
  | false => rfl
  | true => rw [keyLt_iff] at h; omega

theorem keyLt_trans {a b c : Key} (h1 : keyLt a b = true) (h2 : keyLt b c = true) :
    keyLt a c = true := by
  rw [keyLt_iff] at *; omega

theorem keyLt_asymm {a b : Key} (h : keyLt a b = true) : keyLt b a = false := by
  cases h' : keyLt b a with
  | false => rfl
  | true => rw [keyLt_iff] at *; omega

theorem keyLt_of_not {a b : Key} (hne : a ≠ b) (h : keyLt a b = false) : keyLt b a = true := by
  have h' : ¬ keyLt a b = true := by simp [h]
  rw [ne_eq, key_eq_iff] at hne
  rw [keyLt_iff] at *; omega

theorem keyLt_ne {a b : Key} (h : keyLt a b = true) : a ≠ b := by
  rintro rfl; simp [keyLt_irrefl] at h

theorem flip_flip (k : Key) : flip (flip k) = k := rfl

theorem flip_eq_self_iff (k : Key) : flip k = k ↔ k.1 = k.2 := by
  rcases k with ⟨a, b⟩
  simp only [flip, Prod.mk.injEq]
  constructor
  · rintro ⟨h, _⟩; exact h.symm
  · rintro h; exact ⟨h.symm, h⟩

/-! ## `KeyUnique`, `Sorted`, `get` -/

/-- No key occurs twice. -/
def KeyUnique (m : M) : Prop := (m.map (·.1)).Nodup

/-- Strictly ascending keys. -/
def Sorted (m : M) : Prop := m.Pairwise (fun a b => keyLt a.1 b.1 = true)

instance (m : M) : Decidable (KeyUnique m) := by unfold KeyUnique; infer_instance
instance (m : M) : Decidable (Sorted m) := by unfold Sorted; infer_instance

theorem Sorted.keyUnique {m : M} (h : Sorted m) : KeyUnique m := by
  unfold KeyUnique Sorted at *
  rw [List.Nodup, List.pairwise_map]
  exact h.imp (fun hab => keyLt_ne hab)

theorem get_nil (k : Key) : get [] k = none := rfl

theorem get_cons (e : Key × Int) (m : M) (k : Key) :
    get (e :: m) k = if e.1 = k then some e.2 else get m k := by
  unfold get
  by_cases h : e.1 = k <;> simp [h]

theorem get_eq_none_iff (m : M) (k : Key) : get m k = none ↔ k ∉ m.map (·.1) := by
  induction m with
  | nil => simp [get_nil]
  | cons e m ih =>
    rw [get_cons]
    by_cases h : e.1 = k
    · simp [h]
    · simp [h, ih, Ne.symm h]

theorem mem_of_get {m : M} {k : Key} {v : Int} (h : get m k = some v) : (k, v) ∈ m := by
  induction m with
  | nil => simp [get_nil] at h
  | cons e m ih =>
    rw [get_cons] at h
    by_cases hk : e.1 = k
    · simp [hk] at h; subst hk; subst h; simp
    · simp [hk] at h; exact List.mem_cons_of_mem _ (ih h)

theorem get_of_mem {m : M} (hu : KeyUnique m) {k : Key} {v : Int} (h : (k, v) ∈ m) :
    get m k = some v := by
  induction m with
  | nil => simp at h
  | cons e m ih =>
    rw [get_cons]
    unfold KeyUnique at hu
    simp only [List.map_cons, List.nodup_cons] at hu
    rcases List.mem_cons.1 h with h | h
    · subst h; simp
    · have : e.1 ≠ k := by
        rintro rfl
        exact hu.1 (List.mem_map.2 ⟨_, h, rfl⟩)
      simp [this, ih hu.2 h]

theorem get_iff_mem {m : M} (hu : KeyUnique m) (k : Key) (v : Int) :
    get m k = some v ↔ (k, v) ∈ m := ⟨mem_of_get, get_of_mem hu⟩

/-! ## `insert` -/

/-- Lookup after `insert` (any list, sorted or not). -/
theorem get_insert (k : Key) (v : Int) (m : M) (k' : Key) :
    get (insert k v m) k' = if k' = k then some v else get m k' := by
  induction m with
  | nil =>
    simp only [insert, get_cons, get_nil]
    by_cases h : k = k' <;> simp [h, eq_comm]
  | cons e m ih =>
    obtain ⟨k0, v0⟩ := e
    simp only [insert]
    by_cases h0 : k = k0
    · subst h0
      simp only [beq_self_eq_true, if_true, get_cons]
      by_cases h : k = k' <;> simp [h, eq_comm]
    · have : (k == k0) = false := by simpa using h0
      simp only [this, Bool.false_eq_true, if_false]
      split
      · simp only [get_cons]
        by_cases h : k = k' <;> simp [h, eq_comm]
      · simp only [get_cons, ih]
        by_cases h : k' = k
        · subst h; simp [Ne.symm h0]
        · simp [h]

theorem mem_insert {k : Key} {v : Int} {m : M} {e : Key × Int} (h : e ∈ insert k v m) :
    e = (k, v) ∨ e ∈ m := by
  induction m with
  | nil => simpa [insert] using h
  | cons e0 m ih =>
    obtain ⟨k0, v0⟩ := e0
    simp only [insert] at h
    split at h
    · simp only [List.mem_cons] at h ⊢
      rcases h with h | h
      · exact Or.inl h
      · exact Or.inr (Or.inr h)
    · split at h
      · simpa using h
      · simp only [List.mem_cons] at h ⊢
        rcases h with h | h
        · exact Or.inr (Or.inl h)
        · rcases ih h with h | h
          · exact Or.inl h
          · exact Or.inr (Or.inr h)

/-- `insert` keeps the list strictly ascending. -/
theorem insert_sorted (k : Key) (v : Int) {m : M} (h : Sorted m) : Sorted (insert k v m) := by
  induction m with
  | nil => simp [insert, Sorted]
  | cons e0 m ih =>
    obtain ⟨k0, v0⟩ := e0
    unfold Sorted at h ih ⊢
    rw [List.pairwise_cons] at h
    simp only [insert]
    by_cases h0 : k = k0
    · subst h0
      simp only [beq_self_eq_true, if_true, List.pairwise_cons]
      exact ⟨h.1, h.2⟩
    · have hb : (k == k0) = false := by simpa using h0
      simp only [hb, Bool.false_eq_true, if_false]
      split
      · rename_i hlt
        rw [List.pairwise_cons]
        refine ⟨?_, List.pairwise_cons.2 h⟩
        intro e he
        rcases List.mem_cons.1 he with he | he
        · subst he; exact hlt
        · exact keyLt_trans hlt (h.1 e he)
      · rename_i hlt
        have hlt' : keyLt k0 k = true := keyLt_of_not h0 (by simpa using hlt)
        rw [List.pairwise_cons]
        refine ⟨?_, ih h.2⟩
        intro e he
        rcases mem_insert he with he | he
        · subst he; exact hlt'
        · exact h.1 e he

/-! ## Folding `insert` (what `goString` prints) -/

/-- The entry list `goString` prints. -/
def goEntries (m : M) : M := m.foldl (fun acc e => insert e.1 e.2 acc) []

theorem foldl_insert_sorted (m acc : M) (h : Sorted acc) :
    Sorted (m.foldl (fun acc e => insert e.1 e.2 acc) acc) := by
  induction m generalizing acc with
  | nil => exact h
  | cons e m ih => exact ih _ (insert_sorted _ _ h)

theorem get_foldl_insert (m acc : M) (hu : KeyUnique m) (k : Key) :
    get (m.foldl (fun acc e => insert e.1 e.2 acc) acc) k
      = match get m k with
        | some v => some v
        | none => get acc k := by
  induction m generalizing acc with
  | nil => rfl
  | cons e m ih =>
    unfold KeyUnique at hu
    simp only [List.map_cons, List.nodup_cons] at hu
    rw [List.foldl_cons, ih _ hu.2, get_cons, get_insert]
    by_cases h : e.1 = k
    · subst h
      have : get m e.1 = none := (get_eq_none_iff _ _).2 hu.1
      simp [this]
    · simp [h, Ne.symm h]

theorem goEntries_sorted (m : M) : Sorted (goEntries m) :=
  foldl_insert_sorted m [] (by simp [Sorted])

theorem get_goEntries {m : M} (hu : KeyUnique m) (k : Key) : get (goEntries m) k = get m k := by
  unfold goEntries
  rw [get_foldl_insert m [] hu k]
  cases get m k <;> rfl

/-- `goString` really iterates over `goEntries`. -/
theorem goString_eq (qt : List Bytes) (m : M) :
    goString qt m = "SubstitutionMatrix{\n".toUTF8.toList ++ (goEntries m).flatMap (fun e =>
      123 :: (qt[e.1.1.toNat]?).getD [] ++ 44 :: (qt[e.1.2.toNat]?).getD [] ++ [125, 58]
        ++ quarterText e.2 ++ [44, 10]) ++ [125, 10] := rfl

/-! ## `symmetrical` -/

/-- The fold step of `symmetrical`. -/
def symStep (acc : M) (e : Key × Int) : M := insert (flip e.1) e.2 (insert e.1 e.2 acc)

theorem get_symStep (acc : M) (e : Key × Int) (k : Key) :
    get (symStep acc e) k = if k = flip e.1 ∨ k = e.1 then some e.2 else get acc k := by
  unfold symStep
  rw [get_insert, get_insert]
  by_cases h1 : k = flip e.1 <;> by_cases h2 : k = e.1 <;> simp [h1, h2]

theorem symFold_sorted (l acc : M) (h : Sorted acc) : Sorted (l.foldl symStep acc) := by
  induction l generalizing acc with
  | nil => exact h
  | cons e l ih => exact ih _ (insert_sorted _ _ (insert_sorted _ _ h))

/-- Nothing appears from nowhere. -/
theorem symFold_sound (l acc : M) (k : Key) (v : Int)
    (h : get (l.foldl symStep acc) k = some v) :
    (k, v) ∈ l ∨ (flip k, v) ∈ l ∨ get acc k = some v := by
  induction l generalizing acc with
  | nil => exact Or.inr (Or.inr h)
  | cons e l ih =>
    rcases ih _ h with h | h | h
    · exact Or.inl (List.mem_cons_of_mem _ h)
    · exact Or.inr (Or.inl (List.mem_cons_of_mem _ h))
    · rw [get_symStep] at h
      split at h
      · rename_i hk
        simp only [Option.some.injEq] at h
        rcases hk with hk | hk
        · right; left
          have : flip k = e.1 := by rw [hk, flip_flip]
          rw [this, ← h]; simp
        · left; rw [hk, ← h]; simp
      · exact Or.inr (Or.inr h)

/-- Every entry whose key is `k` or the mirror image of `k` determines the result at `k`,
provided all such entries agree on the score. -/
theorem symFold_complete (l acc : M) (k : Key) (v : Int)
    (hc : ∀ e ∈ l, (e.1 = k ∨ flip e.1 = k) → e.2 = v)
    (h : get acc k = some v ∨ ∃ e ∈ l, e.1 = k ∨ flip e.1 = k) :
    get (l.foldl symStep acc) k = some v := by
  induction l generalizing acc with
  | nil => simpa using h
  | cons e l ih =>
    rw [List.foldl_cons]
    apply ih _ (fun e' he' => hc e' (List.mem_cons_of_mem _ he'))
    rw [get_symStep]
    by_cases hk : k = flip e.1 ∨ k = e.1
    · left
      rw [if_pos hk, hc e (by simp) (by rcases hk with hk | hk <;> simp [hk])]
    · rw [if_neg hk]
      rcases h with h | ⟨e', he', hk'⟩
      · exact Or.inl h
      · rcases List.mem_cons.1 he' with rfl | he'
        · exact absurd (by rcases hk' with hk' | hk' <;> simp [← hk']) hk
        · exact Or.inr ⟨e', he', hk'⟩

theorem symmetrical_eq_none_iff (m : M) :
    symmetrical m = none ↔
      ∃ e ∈ m, e.1.1 ≠ e.1.2 ∧ ∃ v2, get m (flip e.1) = some v2 ∧ v2 ≠ e.2 := by
  unfold symmetrical
  constructor
  · intro h
    split at h
    · rename_i hany
      obtain ⟨e, he, hc⟩ := List.any_eq_true.1 hany
      refine ⟨e, he, ?_⟩
      unfold conflicts at hc
      simp only [Bool.and_eq_true, bne_iff_ne, ne_eq] at hc
      refine ⟨hc.1, ?_⟩
      cases hg : get m (flip e.1) with
      | none => simp [hg] at hc
      | some v2 => exact ⟨v2, rfl, by simpa [hg] using hc.2⟩
    · simp at h
  · rintro ⟨e, he, hne, v2, hg, hv⟩
    have : m.any (conflicts m) = true := by
      apply List.any_eq_true.2
      refine ⟨e, he, ?_⟩
      unfold conflicts
      simp [hne, hg, hv]
    simp [this]

theorem symmetrical_eq_some {m r : M} (h : symmetrical m = some r) :
    r = m.foldl symStep [] ∧
    ∀ e ∈ m, e.1.1 ≠ e.1.2 → ∀ v2, get m (flip e.1) = some v2 → v2 = e.2 := by
  have hn : ¬ symmetrical m = none := by simp [h]
  rw [symmetrical_eq_none_iff] at hn
  constructor
  · unfold symmetrical at h
    split at h
    · simp at h
    · simp only [Option.some.injEq] at h
      exact h.symm
  · intro e he hne v2 hg
    apply Classical.byContradiction
    intro hv
    exact hn ⟨e, he, hne, v2, hg, hv⟩

/-! ## The quarter-decimal codec -/

theorem natDigits_zero : natDigits 0 = [48] := by rw [natDigits]; rfl

theorem digitChar_ne_zero : ∀ d, d < 10 → d ≠ 0 → digitChar d ≠ 48 := by decide

/-- No leading zero, except for `0` itself. -/
theorem natDigits_head (n : Nat) (h : n ≠ 0) : (natDigits n).head? ≠ some 48 := by
  induction n using Nat.strongRecOn with
  | _ n ih =>
    rw [natDigits]
    split
    · rename_i hlt
      simpa using digitChar_ne_zero n hlt h
    · have := ih (n / 10) (by omega) (by omega)
      have hne := natDigits_ne_nil (n / 10)
      revert this hne
      cases natDigits (n / 10) with
      | nil => simp
      | cons x xs => simp

/-- The integer-part check of `parseQuarter`. -/
def okInt (ip : Bytes) : Bool :=
  match ip with
  | [] => false
  | [48] => true
  | 48 :: _ => false
  | _ => true

/-- `parseQuarter` after sign and point have been split off. -/
def pqParts (neg : Bool) (ip fp : Bytes) : Option Int :=
  if !okInt ip then none else
  match parseNat ip with
  | none => none
  | some n =>
    let fq : Option Nat :=
      if fp == [] then some 0
      else if fp == [46, 50, 53] then some 1
      else if fp == [46, 53] then some 2
      else if fp == [46, 55, 53] then some 3
      else none
    match fq with
    | none => none
    | some f => let v : Int := (n * 4 + f : Nat); some (if neg then -v else v)

def pqSplit (body : Bytes) : Bytes × Bytes :=
  match splitOn 46 body with
    | [i] => (i, ([] : Bytes))
    | [i, f] => (i, 46 :: f)
    | _ => ([], [0])

def pqBody (neg : Bool) (body : Bytes) : Option Int :=
  pqParts neg (pqSplit body).1 (pqSplit body).2

theorem parseQuarter_neg (r : Bytes) : parseQuarter (45 :: r) = pqBody true r := rfl

theorem parseQuarter_nonneg {s : Bytes} (h : s.head? ≠ some 45) :
    parseQuarter s = pqBody false s := by
  unfold parseQuarter
  split
  · rename_i heq
    split at heq
    · simp at h
    · cases heq; rfl

theorem okInt_natDigits (n : Nat) : okInt (natDigits n) = true := by
  by_cases h : n = 0
  · subst h; rw [natDigits_zero]; rfl
  · have h1 := natDigits_head n h
    have h2 := natDigits_ne_nil n
    unfold okInt
    split <;> simp_all


/-- The fraction suffix of `quarterText`. -/
def fracText (r : Nat) : Bytes :=
  match r with
  | 1 => [46, 50, 53]
  | 2 => [46, 53]
  | 3 => [46, 55, 53]
  | _ => []

theorem quarterText_eq (q : Int) :
    quarterText q = (if q < 0 then [45] else []) ++ natDigits (q.natAbs / 4) ++ fracText (q.natAbs % 4) := by
  unfold quarterText fracText
  rfl

theorem pqSplit_natDigits_frac (n r : Nat) (hr : r < 4) :
    pqSplit (natDigits n ++ fracText r) = (natDigits n, fracText r) := by
  have h46 : (46 : UInt8) ∉ natDigits n := not_mem_natDigits n (by decide)
  unfold pqSplit
  have : r = 0 ∨ r = 1 ∨ r = 2 ∨ r = 3 := by omega
  rcases this with rfl | rfl | rfl | rfl
  · simp only [fracText, List.append_nil, splitOn_of_not_mem h46]
  · simp only [fracText, splitOn_append_sep h46]; rfl
  · simp only [fracText, splitOn_append_sep h46]; rfl
  · simp only [fracText, splitOn_append_sep h46]; rfl

theorem pqParts_natDigits_frac (neg : Bool) (n r : Nat) (hr : r < 4) :
    pqParts neg (natDigits n) (fracText r)
      = some (if neg then -((n * 4 + r : Nat) : Int) else ((n * 4 + r : Nat) : Int)) := by
  unfold pqParts
  rw [okInt_natDigits, parseNat_natDigits]
  have : r = 0 ∨ r = 1 ∨ r = 2 ∨ r = 3 := by omega
  rcases this with rfl | rfl | rfl | rfl <;> simp [fracText]

/-- The printed score text denotes exactly the score. -/
theorem quarter_roundtrip (q : Int) : parseQuarter (quarterText q) = some q := by
  rw [quarterText_eq]
  have hr : q.natAbs % 4 < 4 := Nat.mod_lt _ (by decide)
  by_cases hq : q < 0
  · simp only [hq, if_true, List.cons_append, List.nil_append]
    rw [parseQuarter_neg, pqBody, pqSplit_natDigits_frac _ _ hr, pqParts_natDigits_frac _ _ _ hr]
    simp only [if_true, Option.some.injEq]
    omega
  · simp only [hq, if_false, List.nil_append]
    rw [parseQuarter_nonneg, pqBody, pqSplit_natDigits_frac _ _ hr,
      pqParts_natDigits_frac _ _ _ hr]
    · simp only [Bool.false_eq_true, if_false, Option.some.injEq]
      omega
    · have hne := natDigits_ne_nil (q.natAbs / 4)
      have h45 : (45 : UInt8) ∉ natDigits (q.natAbs / 4) := not_mem_natDigits _ (by decide)
      revert hne h45
      cases natDigits (q.natAbs / 4) with
      | nil => simp
      | cons x xs => intro _ h; simp at h ⊢; exact fun hx => h.1 hx.symm

/-- Every byte of a printed score is `-`, `.` or a digit. -/
theorem quarterText_bytes (q : Int) :
    ∀ b ∈ quarterText q, b = 45 ∨ b = 46 ∨ isDigit b = true := by
  intro b hb
  rw [quarterText_eq] at hb
  simp only [List.mem_append] at hb
  rcases hb with (hb | hb) | hb
  · split at hb <;> simp at hb; exact Or.inl hb
  · exact Or.inr (Or.inr (natDigits_isDigit _ b hb))
  · have hr : q.natAbs % 4 < 4 := Nat.mod_lt _ (by decide)
    have : q.natAbs % 4 = 0 ∨ q.natAbs % 4 = 1 ∨ q.natAbs % 4 = 2 ∨ q.natAbs % 4 = 3 := by omega
    rcases this with h | h | h | h <;> rw [h] at hb <;> simp [fracText] at hb
    all_goals (rcases hb with rfl | rfl | rfl <;> simp [isDigit]) 

theorem quarterText_ne_nil (q : Int) : quarterText q ≠ [] := by
  rw [quarterText_eq]
  have := natDigits_ne_nil (q.natAbs / 4)
  simp [this]

/-- A printed score contains no whitespace, no `,`, no `}`, no `#`. -/
theorem quarterText_clean (q : Int) :
    ∀ b ∈ quarterText q, isSpace b = false ∧ b ≠ 44 ∧ b ≠ 125 ∧ b ≠ 35 := by
  intro b hb
  rcases quarterText_bytes q b hb with rfl | rfl | h
  · decide
  · decide
  · rw [isDigit_iff] at h
    have h1 : ∀ c : UInt8, b = c → b.toNat = c.toNat := fun c hc => by rw [hc]
    refine ⟨?_, ?_, ?_, ?_⟩
    · simp only [isSpace, Bool.or_eq_false_iff, beq_eq_false_iff_ne, ne_eq]
      refine ⟨⟨⟨⟨?_, ?_⟩, ?_⟩, ?_⟩, ?_⟩ <;> intro hc <;> have := h1 _ hc <;> simp at this <;> omega
    all_goals (intro hc; have := h1 _ hc; simp at this; omega)

/-! ## `fields` -/

theorem fields_nil : fields [] = [] := rfl

theorem fields_cons_space {b : UInt8} (h : isSpace b = true) (rest : Bytes) :
    fields (b :: rest) = fields rest := by
  cases rest <;> simp [fields, h]

theorem fields_spaces_append {ws : Bytes} (h : ∀ b ∈ ws, isSpace b = true) (x : Bytes) :
    fields (ws ++ x) = fields x := by
  induction ws with
  | nil => rfl
  | cons b ws ih =>
    rw [List.cons_append, fields_cons_space (h b (by simp)), ih (fun c hc => h c (by simp [hc]))]

theorem fields_single {b : UInt8} (h : isSpace b = false) : fields [b] = [[b]] := by
  rw [fields]; simp [h]

theorem fields_tok_space {t : Bytes} (hne : t ≠ []) (h : ∀ b ∈ t, isSpace b = false)
    {s : UInt8} (hs : isSpace s = true) (x : Bytes) :
    fields (t ++ s :: x) = t :: fields x := by
  induction t with
  | nil => exact absurd rfl hne
  | cons b r ih =>
    have hb : isSpace b = false := h b (by simp)
    cases r with
    | nil =>
      rw [List.singleton_append, fields]
      simp [hb, hs, fields_cons_space hs]
    | cons c r =>
      have hc : isSpace c = false := h c (by simp)
      have := ih (by simp) (fun d hd => h d (by simp [hd]))
      rw [List.cons_append, List.cons_append, fields]
      simp only [hb, Bool.false_eq_true, if_false, hc]
      rw [List.cons_append] at this
      rw [this]

theorem fields_tok {t : Bytes} (hne : t ≠ []) (h : ∀ b ∈ t, isSpace b = false) :
    fields t = [t] := by
  induction t with
  | nil => exact absurd rfl hne
  | cons b r ih =>
    have hb : isSpace b = false := h b (by simp)
    cases r with
    | nil => exact fields_single hb
    | cons c r =>
      have hc : isSpace c = false := h c (by simp)
      have := ih (by simp) (fun d hd => h d (by simp [hd]))
      rw [fields]
      simp only [hb, Bool.false_eq_true, if_false, hc]
      rw [this]

theorem fields_append_space (l : Bytes) {s : UInt8} (hs : isSpace s = true) :
    fields (l ++ [s]) = fields l := by
  induction l with
  | nil => simp [fields_cons_space hs, fields_nil]
  | cons b r ih =>
    by_cases hb : isSpace b = true
    · rw [List.cons_append, fields_cons_space hb, fields_cons_space hb, ih]
    · have hb : isSpace b = false := by simpa using hb
      cases r with
      | nil =>
        rw [List.singleton_append, fields_single hb, fields]
        simp [hb, hs, fields_cons_space hs, fields_nil]
      | cons c r =>
        rw [List.cons_append, List.cons_append, fields, fields]
        simp only [hb, Bool.false_eq_true, if_false]
        rw [List.cons_append] at ih
        rw [ih]

theorem fields_append_spaces (l : Bytes) {ws : Bytes} (h : ∀ b ∈ ws, isSpace b = true) :
    fields (l ++ ws) = fields l := by
  induction ws generalizing l with
  | nil => simp
  | cons s ws ih =>
    have : l ++ s :: ws = (l ++ [s]) ++ ws := by simp
    rw [this, ih _ (fun c hc => h c (by simp [hc])), fields_append_space l (h s (by simp))]

/-- A token: non-empty and free of whitespace. -/
def IsTok (t : Bytes) : Prop := t ≠ [] ∧ ∀ b ∈ t, isSpace b = false

/-- A separator: a non-empty run of whitespace. -/
def IsSep (g : Bytes) : Prop := g ≠ [] ∧ ∀ b ∈ g, isSpace b = true

theorem fields_tok_sep {t g : Bytes} (ht : IsTok t) (hg : IsSep g) (x : Bytes) :
    fields (t ++ g ++ x) = t :: fields x := by
  obtain ⟨hne, hsp⟩ := hg
  cases g with
  | nil => exact absurd rfl hne
  | cons s g =>
    rw [List.append_assoc, List.cons_append, fields_tok_space ht.1 ht.2 (hsp s (by simp)),
      fields_spaces_append (fun c hc => hsp c (by simp [hc]))]

/-! ## The token-level view of `readRows` -/

/-- What `readRows` sees of a scanned line: nothing (empty or comment), or its fields. -/
def lineToks (s : Bytes) : Option (List Bytes) :=
  match s with
  | [] => none
  | 35 :: _ => none
  | _ => some (fields s)

/-- `readRows` on the token lists of the non-skipped lines. -/
def readToks : Option (List UInt8) → List (List Bytes) → M → Option M
  | _, [], m => some m
  | none, ts :: rest, m =>
    match ts.mapM singleChar with
    | none => none
    | some cs => readToks (if cs.isEmpty then none else some cs) rest m
  | some cs, ts :: rest, m =>
    match ts with
    | [] => none
    | lab :: vals =>
      if vals.length != cs.length then none
      else match singleChar lab, vals.mapM parseQuarter with
        | some c, some vs => readToks (some cs) rest (rowInsert c cs vs m)
        | _, _ => none

theorem lineToks_nil : lineToks [] = none := rfl
theorem lineToks_comment (r : Bytes) : lineToks (35 :: r) = none := rfl

theorem lineToks_of {s : Bytes} (h1 : s ≠ []) (h2 : s.head? ≠ some 35) :
    lineToks s = some (fields s) := by
  unfold lineToks
  split
  · exact absurd rfl h1
  · simp at h2
  · rfl

theorem lineToks_eq_none_iff (s : Bytes) : lineToks s = none ↔ s = [] ∨ s.head? = some 35 := by
  unfold lineToks
  split
  · simp
  · simp
  · rename_i h1 h2
    simp only [reduceCtorEq, false_iff, not_or]
    refine ⟨h1, ?_⟩
    intro h
    cases s with
    | nil => simp at h
    | cons b r => simp at h; subst h; exact h2 r rfl

theorem readRows_eq_readToks (chars : Option (List UInt8)) (ls : List Bytes) (m : M) :
    readRows chars ls m = readToks chars (ls.filterMap lineToks) m := by
  induction ls generalizing chars m with
  | nil => cases chars <;> rfl
  | cons row rows ih =>
    rw [readRows.eq_def]
    simp only
    split
    · rw [List.filterMap_cons, lineToks_nil]; exact ih _ _
    · rw [List.filterMap_cons, lineToks_comment]; exact ih _ _
    · rename_i h1 h2
      have hl : lineToks row = some (fields row) := by
        apply lineToks_of
        · exact h1
        · intro h; cases row with
          | nil => simp at h
          | cons b r => simp at h; subst h; exact h2 r rfl
      rw [List.filterMap_cons, hl]
      cases chars with
      | none =>
        simp only [readToks]
        cases List.mapM singleChar (fields row) with
        | none => rfl
        | some cs => exact ih _ _
      | some cs =>
        simp only [readToks]
        cases fields row with
        | nil => rfl
        | cons lab vals =>
          simp only
          by_cases hlen : (vals.length != cs.length) = true
          · simp only [hlen, if_true]
          · simp only [hlen]
            cases singleChar lab <;> cases List.mapM parseQuarter vals <;>
              first | rfl | exact ih _ _

/-! ## `dropCR` and `lineToks` -/

theorem dropCR_single (a : UInt8) : dropCR [a] = if a = 13 then [] else [a] := by
  unfold dropCR
  by_cases h : a = 13
  · subst h; rfl
  · simp only [List.getLast?_singleton, h, if_false]
    split
    · rename_i h'; simp at h'; exact absurd h' h
    · rfl

theorem dropCR_cons_cons (a b : UInt8) (r : Bytes) :
    dropCR (a :: b :: r) = a :: dropCR (b :: r) := by
  unfold dropCR
  rw [List.getLast?_cons_cons]
  split <;> simp

theorem dropCR_eq_or (l : Bytes) : dropCR l = l ∨ ∃ l', l = l' ++ [13] ∧ dropCR l = l' := by
  unfold dropCR
  split
  · rename_i h
    right
    refine ⟨l.dropLast, ?_, rfl⟩
    have hne : l ≠ [] := by rintro rfl; simp at h
    have := List.dropLast_concat_getLast hne
    rw [List.getLast?_eq_some_getLast hne] at h
    simp only [Option.some.injEq] at h
    rw [h] at this
    exact this.symm
  · exact Or.inl rfl

/-- Stripping the CR does not change how a line with at least one field is read. -/
theorem lineToks_dropCR {b : Bytes} (h : fields b ≠ []) : lineToks (dropCR b) = lineToks b := by
  rcases dropCR_eq_or b with h' | ⟨l', hb, h'⟩
  · rw [h']
  · rw [h']
    have hf : fields l' = fields b := by
      rw [hb, fields_append_space l' (by decide)]
    cases l' with
    | nil => rw [← hf] at h; exact absurd rfl h
    | cons x r =>
      rw [hb]
      by_cases hx : x = 35
      · subst hx; rfl
      · rw [lineToks_of (by simp) (by simpa using hx), lineToks_of (by simp) (by simpa using hx), hf,
          hb]

/-- A comment or empty line (as it stands before the line terminator). -/
def IsJunk (j : Bytes) : Prop := (10 : UInt8) ∉ j ∧ (j = [] ∨ j.head? = some 35)

instance (j : Bytes) : Decidable (IsJunk j) := by unfold IsJunk; infer_instance

theorem lineToks_junk {j : Bytes} (h : IsJunk j) : lineToks j = none :=
  (lineToks_eq_none_iff j).2 h.2

theorem lineToks_dropCR_junk {j : Bytes} (h : IsJunk j) : lineToks (dropCR j) = none := by
  rcases h.2 with rfl | h2
  · rfl
  · cases j with
    | nil => rfl
    | cons a r =>
      simp at h2; subst h2
      cases r with
      | nil => rfl
      | cons b r => rw [dropCR_cons_cons]; rfl

/-! ## Physical lines and their terminators -/

/-- Line terminator. -/
inductive Eol where
  | lf
  | crlf
  deriving DecidableEq, Repr

def Eol.bytes : Eol → Bytes
  | .lf => [10]
  | .crlf => [13, 10]

/-- A physical line: its bytes and its terminator. -/
abbrev Phys := Bytes × Eol

/-- The file made of the given physical lines; with `fe = false` the last line lacks its
terminator. -/
def renderPhys (fe : Bool) : List Phys → Bytes
  | [] => []
  | [p] => p.1 ++ (if fe then p.2.bytes else [])
  | p :: q :: rest => p.1 ++ p.2.bytes ++ renderPhys fe (q :: rest)

/-- LF-free, and CR stripping does not change how the line is read. -/
def GoodBody (b : Bytes) : Prop := (10 : UInt8) ∉ b ∧ lineToks (dropCR b) = lineToks b

theorem GoodBody.of_junk {j : Bytes} (h : IsJunk j) : GoodBody j :=
  ⟨h.1, by rw [lineToks_dropCR_junk h, lineToks_junk h]⟩

theorem filterMap_scan_line (b : Bytes) (e : Eol) (hb : GoodBody b) (rest : Bytes) :
    (scanLines (b ++ e.bytes ++ rest)).filterMap lineToks
      = (lineToks b).toList ++ (scanLines rest).filterMap lineToks := by
  cases e with
  | lf =>
    simp only [Eol.bytes, List.append_assoc, List.singleton_append]
    rw [scanLines_append_LF' hb.1, List.filterMap_cons, hb.2]
    cases lineToks b <;> rfl
  | crlf =>
    simp only [Eol.bytes, List.append_assoc, List.cons_append, List.nil_append]
    rw [scanLines_append_CRLF hb.1, List.filterMap_cons]
    cases lineToks b <;> rfl

theorem filterMap_scan_last (b : Bytes) (hb : GoodBody b) :
    (scanLines b).filterMap lineToks = (lineToks b).toList := by
  by_cases hne : b = []
  · subst hne; rfl
  · unfold scanLines
    rw [rawLines_of_not_mem hne hb.1]
    simp only [List.map_cons, List.map_nil, List.filterMap_cons, List.filterMap_nil, hb.2]
    cases lineToks b <;> rfl

/-- Scanning a file recovers, line by line, what `readRows` sees. -/
theorem filterMap_scan_renderPhys (fe : Bool) (ps : List Phys) (h : ∀ p ∈ ps, GoodBody p.1) :
    (scanLines (renderPhys fe ps)).filterMap lineToks = ps.filterMap (fun p => lineToks p.1) := by
  induction ps with
  | nil => rfl
  | cons p ps ih =>
    cases ps with
    | nil =>
      simp only [renderPhys, List.filterMap_cons, List.filterMap_nil]
      cases fe with
      | true =>
        have := filterMap_scan_line p.1 p.2 (h p (by simp)) []
        simp only [List.append_nil] at this
        simp only [if_true, this, scanLines_nil, List.filterMap_nil, List.append_nil]
        cases lineToks p.1 <;> rfl
      | false =>
        simp only [Bool.false_eq_true, if_false, List.append_nil]
        rw [filterMap_scan_last _ (h p (by simp))]
        cases lineToks p.1 <;> rfl
    | cons q rest =>
      rw [renderPhys, filterMap_scan_line _ _ (h p (by simp)),
        ih (fun r hr => h r (List.mem_cons_of_mem _ hr)), List.filterMap_cons (a := p)]
      cases lineToks p.1 <;> rfl

/-! ## Line layouts -/

/-- Whitespace other than LF: TAB, FF, CR, SP. -/
def isGapw (b : UInt8) : Bool := b == 9 || b == 12 || b == 13 || b == 32

theorem isGapw_space {b : UInt8} (h : isGapw b = true) : isSpace b = true := by
  simp only [isGapw, Bool.or_eq_true, beq_iff_eq] at h
  rcases h with ((rfl | rfl) | rfl) | rfl <;> decide

theorem isGapw_ne_LF {b : UInt8} (h : isGapw b = true) : b ≠ 10 := by
  rintro rfl; simp [isGapw] at h

theorem isGapw_ne_hash {b : UInt8} (h : isGapw b = true) : b ≠ 35 := by
  rintro rfl; simp [isGapw] at h

/-- A gap between two tokens: a non-empty run of non-LF whitespace. -/
def IsGap (g : Bytes) : Prop := g ≠ [] ∧ ∀ b ∈ g, isGapw b = true

instance (t : Bytes) : Decidable (IsTok t) := by unfold IsTok; infer_instance
instance (g : Bytes) : Decidable (IsGap g) := by unfold IsGap; infer_instance

theorem IsGap.isSep {g : Bytes} (h : IsGap g) : IsSep g :=
  ⟨h.1, fun b hb => isGapw_space (h.2 b hb)⟩

theorem IsTok.no_LF {t : Bytes} (h : IsTok t) : (10 : UInt8) ∉ t := by
  intro hm; have := h.2 10 hm; simp [isSpace] at this

theorem gapw_no_LF {g : Bytes} (h : ∀ b ∈ g, isGapw b = true) : (10 : UInt8) ∉ g :=
  fun hm => isGapw_ne_LF (h 10 hm) rfl

theorem isGap_single_space : IsGap [32] := by decide

/-- Tokens separated by the given gaps (a single space where the gap list runs out). -/
def renderToks : List Bytes → List Bytes → Bytes
  | [], _ => []
  | [t], _ => t
  | t :: u :: ts, gs => t ++ gs.headD [32] ++ renderToks (u :: ts) gs.tail

theorem isGap_headD {gs : List Bytes} (hg : ∀ g ∈ gs, IsGap g) : IsGap (gs.headD [32]) := by
  cases gs with
  | nil => exact isGap_single_space
  | cons g gs => exact hg g (by simp)

theorem fields_renderToks (toks gs : List Bytes) (ht : ∀ t ∈ toks, IsTok t)
    (hg : ∀ g ∈ gs, IsGap g) : fields (renderToks toks gs) = toks := by
  induction toks generalizing gs with
  | nil => rfl
  | cons t ts ih =>
    cases ts with
    | nil => exact fields_tok (ht t (by simp)).1 (ht t (by simp)).2
    | cons u ts =>
      rw [renderToks, fields_tok_sep (ht t (by simp)) (isGap_headD hg).isSep,
        ih _ (fun x hx => ht x (List.mem_cons_of_mem _ hx))
          (fun g hg' => hg g (List.mem_of_mem_tail hg'))]

theorem renderToks_no_LF (toks gs : List Bytes) (ht : ∀ t ∈ toks, IsTok t)
    (hg : ∀ g ∈ gs, IsGap g) : (10 : UInt8) ∉ renderToks toks gs := by
  induction toks generalizing gs with
  | nil => simp [renderToks]
  | cons t ts ih =>
    cases ts with
    | nil => exact (ht t (by simp)).no_LF
    | cons u ts =>
      rw [renderToks]
      simp only [List.mem_append, not_or]
      exact ⟨⟨(ht t (by simp)).no_LF, gapw_no_LF (isGap_headD hg).2⟩,
        ih _ (fun x hx => ht x (List.mem_cons_of_mem _ hx))
          (fun g hg' => hg g (List.mem_of_mem_tail hg'))⟩

theorem renderToks_head (t : Bytes) (ts gs : List Bytes) (ht : t ≠ []) :
    (renderToks (t :: ts) gs).head? = t.head? := by
  cases t with
  | nil => exact absurd rfl ht
  | cons a t => cases ts <;> rfl

/-- The tokens of one non-skipped line as a reader must see them: at least one token, each
non-empty and whitespace-free, and the line does not begin with `#`. -/
def ProperToks (toks : List Bytes) : Prop :=
  toks ≠ [] ∧ (∀ t ∈ toks, IsTok t) ∧ toks.head?.bind List.head? ≠ some 35

instance (toks : List Bytes) : Decidable (ProperToks toks) := by unfold ProperToks; infer_instance

/-- Layout of one token line: comment/empty lines before it, leading whitespace, the gaps
between tokens, trailing whitespace, terminator. -/
structure LineLayout where
  before : List Phys := []
  lead : Bytes := []
  gaps : List Bytes := []
  trail : Bytes := []
  eol : Eol := .lf

def LineLayout.OK (l : LineLayout) : Prop :=
  (∀ j ∈ l.before, IsJunk j.1) ∧ (∀ b ∈ l.lead, isGapw b = true) ∧
  (∀ g ∈ l.gaps, IsGap g) ∧ (∀ b ∈ l.trail, isGapw b = true)

instance (l : LineLayout) : Decidable l.OK := by unfold LineLayout.OK; infer_instance

theorem LineLayout.default_OK : ({} : LineLayout).OK := by decide

def LineLayout.body (l : LineLayout) (toks : List Bytes) : Bytes :=
  l.lead ++ renderToks toks l.gaps ++ l.trail

theorem LineLayout.fields_body {l : LineLayout} (hl : l.OK) {toks : List Bytes}
    (ht : ∀ t ∈ toks, IsTok t) : fields (l.body toks) = toks := by
  unfold LineLayout.body
  rw [fields_append_spaces _ (fun b hb => isGapw_space (hl.2.2.2 b hb)),
    fields_spaces_append (fun b hb => isGapw_space (hl.2.1 b hb)),
    fields_renderToks _ _ ht hl.2.2.1]

theorem LineLayout.lineToks_body {l : LineLayout} (hl : l.OK) {toks : List Bytes}
    (ht : ProperToks toks) : lineToks (l.body toks) = some toks := by
  have hf := LineLayout.fields_body hl ht.2.1
  have hne : l.body toks ≠ [] := by
    intro h; rw [h] at hf; exact ht.1 hf.symm
  rw [lineToks_of hne, hf]
  unfold LineLayout.body
  rw [List.append_assoc]
  cases hlead : l.lead with
  | cons x r =>
    have := isGapw_ne_hash (hl.2.1 x (by simp [hlead]))
    simpa using this
  | nil =>
    obtain ⟨h1, h2, h3⟩ := ht
    cases toks with
    | nil => exact absurd rfl h1
    | cons t ts =>
      have htne : t ≠ [] := (h2 t (by simp)).1
      have hr := renderToks_head t ts l.gaps htne
      have hrne : renderToks (t :: ts) l.gaps ≠ [] := by
        intro h; rw [h] at hr
        cases t with
        | nil => exact htne rfl
        | cons a t => simp at hr
      rw [List.nil_append, List.head?_append, hr]
      simp only [List.head?_cons, Option.bind_some] at h3
      cases t with
      | nil => exact absurd rfl htne
      | cons a t => simpa using h3

theorem LineLayout.body_good {l : LineLayout} (hl : l.OK) {toks : List Bytes}
    (ht : ProperToks toks) : GoodBody (l.body toks) := by
  refine ⟨?_, lineToks_dropCR ?_⟩
  · unfold LineLayout.body
    simp only [List.mem_append, not_or]
    exact ⟨⟨gapw_no_LF hl.2.1, renderToks_no_LF _ _ ht.2.1 hl.2.2.1⟩, gapw_no_LF hl.2.2.2⟩
  · rw [LineLayout.fields_body hl ht.2.1]; exact ht.1

/-! ## Document layouts -/

/-- Layout of a whole file: one `LineLayout` per token line (the default one where the list
runs out), comment/empty lines at the end, and whether the last line is terminated. -/
structure Layout where
  lines : List LineLayout := []
  after : List Phys := []
  finalEol : Bool := true

def Layout.OK (L : Layout) : Prop := (∀ l ∈ L.lines, l.OK) ∧ ∀ j ∈ L.after, IsJunk j.1

instance (L : Layout) : Decidable L.OK := by unfold Layout.OK; infer_instance

/-- The physical lines of the token lines `doc` under the line layouts `ls`. -/
def docPhys : List LineLayout → List (List Bytes) → List Phys
  | _, [] => []
  | ls, toks :: rest =>
    (ls.headD {}).before ++ ((ls.headD {}).body toks, (ls.headD {}).eol) :: docPhys ls.tail rest

/-- The file with token lines `doc` laid out according to `L`. -/
def renderDoc (L : Layout) (doc : List (List Bytes)) : Bytes :=
  renderPhys L.finalEol (docPhys L.lines doc ++ L.after)

theorem headD_OK {ls : List LineLayout} (h : ∀ l ∈ ls, l.OK) : (ls.headD {}).OK := by
  cases ls with
  | nil => exact LineLayout.default_OK
  | cons l ls => exact h l (by simp)

theorem filterMap_junk (js : List Phys) (h : ∀ j ∈ js, IsJunk j.1) :
    js.filterMap (fun p => lineToks p.1) = [] := by
  rw [List.filterMap_eq_nil_iff]
  exact fun j hj => lineToks_junk (h j hj)

theorem docPhys_good (ls : List LineLayout) (doc : List (List Bytes))
    (hl : ∀ l ∈ ls, l.OK) (hd : ∀ toks ∈ doc, ProperToks toks) :
    ∀ p ∈ docPhys ls doc, GoodBody p.1 := by
  induction doc generalizing ls with
  | nil => simp [docPhys]
  | cons toks rest ih =>
    intro p hp
    have h0 := headD_OK hl
    simp only [docPhys, List.mem_append, List.mem_cons] at hp
    rcases hp with hp | rfl | hp
    · exact GoodBody.of_junk (h0.1 p hp)
    · exact LineLayout.body_good h0 (hd toks (by simp))
    · exact ih ls.tail (fun l hl' => hl l (List.mem_of_mem_tail hl'))
        (fun t ht => hd t (List.mem_cons_of_mem _ ht)) p hp

theorem filterMap_docPhys (ls : List LineLayout) (doc : List (List Bytes))
    (hl : ∀ l ∈ ls, l.OK) (hd : ∀ toks ∈ doc, ProperToks toks) :
    (docPhys ls doc).filterMap (fun p => lineToks p.1) = doc := by
  induction doc generalizing ls with
  | nil => rfl
  | cons toks rest ih =>
    have h0 := headD_OK hl
    rw [docPhys, List.filterMap_append, filterMap_junk _ h0.1, List.nil_append,
      List.filterMap_cons]
    simp only [LineLayout.lineToks_body h0 (hd toks (by simp))]
    rw [ih ls.tail (fun l hl' => hl l (List.mem_of_mem_tail hl'))
        (fun t ht => hd t (List.mem_cons_of_mem _ ht))]

/-- Layout independence: whatever the (well-formed) layout, the scan loop sees exactly the
token lines. -/
theorem filterMap_scan_renderDoc (L : Layout) (hL : L.OK) (doc : List (List Bytes))
    (hd : ∀ toks ∈ doc, ProperToks toks) :
    (scanLines (renderDoc L doc)).filterMap lineToks = doc := by
  unfold renderDoc
  rw [filterMap_scan_renderPhys, List.filterMap_append, filterMap_docPhys _ _ hL.1 hd,
    filterMap_junk _ hL.2, List.append_nil]
  intro p hp
  rcases List.mem_append.1 hp with hp | hp
  · exact docPhys_good _ _ hL.1 hd p hp
  · exact GoodBody.of_junk (hL.2 p hp)

theorem readNCBI_renderDoc (L : Layout) (hL : L.OK) (doc : List (List Bytes))
    (hd : ∀ toks ∈ doc, ProperToks toks) :
    readNCBI (renderDoc L doc) = readToks none doc [] := by
  rw [readNCBI, readRows_eq_readToks, filterMap_scan_renderDoc L hL doc hd]

/-! ## Tables as token lines -/

/-- In the file, `*` stands for the gap symbol 255. -/
def labelByte (b : UInt8) : UInt8 := if b = 42 then 255 else b

/-- A byte usable as a row/column label in the file. -/
def ValidLabel (b : UInt8) : Prop := isSpace b = false ∧ b ≠ 35 ∧ b ≠ 255

instance (b : UInt8) : Decidable (ValidLabel b) := by unfold ValidLabel; infer_instance

def hdrToks (cols : List UInt8) : List Bytes := cols.map fun c => [c]

def rowToks (r : UInt8 × List Int) : List Bytes := [r.1] :: r.2.map quarterText

theorem labelByte_inj {a b : UInt8} (ha : a ≠ 255) (hb : b ≠ 255)
    (h : labelByte a = labelByte b) : a = b := by
  unfold labelByte at h
  split at h <;> split at h <;> simp_all

theorem singleChar_label (b : UInt8) : singleChar [b] = some (labelByte b) := by
  unfold singleChar labelByte
  split
  · rename_i h; simp at h; simp [h]
  · rename_i c h1 h; simp at h; subst h
    have : ¬ b = 42 := fun hb => h1 (by rw [hb])
    simp [this]
  · rename_i h1 h2; exact absurd rfl (h2 b)

/-- A token of any length other than one is not a label. -/
theorem singleChar_long {t : Bytes} (h : t.length ≠ 1) : singleChar t = none := by
  unfold singleChar
  split
  · simp at h
  · simp at h
  · rfl

theorem mapM_map_some {α β γ : Type} {f : α → Option β} {g : γ → α} {h : γ → β}
    (hfg : ∀ x, f (g x) = some (h x)) (l : List γ) : (l.map g).mapM f = some (l.map h) := by
  induction l with
  | nil => rfl
  | cons x l ih => simp [List.mapM_cons, hfg, ih]

theorem mapM_eq_none_of_mem {α β : Type} {f : α → Option β} {l : List α} {x : α}
    (hx : x ∈ l) (hf : f x = none) : l.mapM f = none := by
  induction l with
  | nil => simp at hx
  | cons y l ih =>
    rw [List.mapM_cons]
    rcases List.mem_cons.1 hx with rfl | hx
    · simp [hf]
    · cases f y <;> simp [ih hx]

theorem isTok_label {b : UInt8} (h : ValidLabel b) : IsTok [b] :=
  ⟨by simp, by simpa using h.1⟩

theorem isTok_quarterText (q : Int) : IsTok (quarterText q) :=
  ⟨quarterText_ne_nil q, fun b hb => (quarterText_clean q b hb).1⟩

theorem properToks_hdr {cols : List UInt8} (hne : cols ≠ []) (h : ∀ c ∈ cols, ValidLabel c) :
    ProperToks (hdrToks cols) := by
  refine ⟨by simpa [hdrToks] using hne, ?_, ?_⟩
  · intro t ht
    obtain ⟨c, hc, rfl⟩ := List.mem_map.1 ht
    exact isTok_label (h c hc)
  · cases cols with
    | nil => exact absurd rfl hne
    | cons c cs =>
      have := (h c (by simp)).2.1
      simpa [hdrToks] using this

theorem properToks_row {r : UInt8 × List Int} (h : ValidLabel r.1) : ProperToks (rowToks r) := by
  refine ⟨by simp [rowToks], ?_, ?_⟩
  · intro t ht
    rcases List.mem_cons.1 ht with rfl | ht
    · exact isTok_label h
    · obtain ⟨q, _, rfl⟩ := List.mem_map.1 ht
      exact isTok_quarterText q
  · simpa [rowToks] using h.2.1

theorem readToks_header {cols : List UInt8} (hne : cols ≠ []) (rest : List (List Bytes)) (m : M) :
    readToks none (hdrToks cols :: rest) m = readToks (some (cols.map labelByte)) rest m := by
  rw [readToks, hdrToks, mapM_map_some (h := labelByte) (fun c => singleChar_label c)]
  simp [hne]

theorem readToks_row (cs : List UInt8) (r : UInt8 × List Int) (h : r.2.length = cs.length)
    (rest : List (List Bytes)) (m : M) :
    readToks (some cs) (rowToks r :: rest) m
      = readToks (some cs) rest (rowInsert (labelByte r.1) cs r.2 m) := by
  rw [rowToks, readToks]
  simp only [List.length_map, h, bne_self_eq_false, Bool.false_eq_true, if_false,
    singleChar_label, mapM_map_some (h := id) (fun q => quarter_roundtrip q), List.map_id]

theorem readToks_rows (cs : List UInt8) (rows : List (UInt8 × List Int))
    (h : ∀ r ∈ rows, r.2.length = cs.length) (rest : List (List Bytes)) (m : M) :
    readToks (some cs) (rows.map rowToks ++ rest) m
      = readToks (some cs) rest
          (rows.foldl (fun m r => rowInsert (labelByte r.1) cs r.2 m) m) := by
  induction rows generalizing m with
  | nil => rfl
  | cons r rows ih =>
    rw [List.map_cons, List.cons_append, readToks_row cs r (h r (by simp)),
      ih (fun r' hr' => h r' (List.mem_cons_of_mem _ hr')), List.foldl_cons]

/-- A data row the reader must reject, for `n` columns: wrong number of tokens, a label of
length other than one, or a score token that is not a number. -/
def BadRow (n : Nat) (bad : List Bytes) : Prop :=
  bad.length ≠ n + 1 ∨ (∃ t, bad.head? = some t ∧ t.length ≠ 1) ∨
    ∃ t ∈ bad.tail, parseQuarter t = none

theorem readToks_bad_row (cs : List UInt8) {bad : List Bytes} (hb : BadRow cs.length bad)
    (rest : List (List Bytes)) (m : M) : readToks (some cs) (bad :: rest) m = none := by
  cases bad with
  | nil => rfl
  | cons lab vals =>
    rw [readToks]
    by_cases hlen : vals.length = cs.length
    · simp only [hlen, bne_self_eq_false, Bool.false_eq_true, if_false]
      rcases hb with hb | ⟨t, ht, hl⟩ | ⟨t, ht, hp⟩
      · simp [hlen] at hb
      · simp only [List.head?_cons, Option.some.injEq] at ht; subst ht
        rw [singleChar_long hl]
      · rw [List.tail_cons] at ht
        rw [mapM_eq_none_of_mem ht hp]
        cases singleChar lab <;> rfl
    · have : (vals.length != cs.length) = true := by simpa using hlen
      simp only [this, if_true]

theorem readToks_bad_header {hdr : List Bytes} (h : ∃ t ∈ hdr, t.length ≠ 1)
    (rest : List (List Bytes)) (m : M) : readToks none (hdr :: rest) m = none := by
  obtain ⟨t, ht, hl⟩ := h
  rw [readToks, mapM_eq_none_of_mem ht (singleChar_long hl)]

/-! ## The matrix of a table -/

/-- The entries of one table row, in column order. -/
def rowEntries (cols : List UInt8) (r : UInt8 × List Int) : M :=
  (cols.zip r.2).map fun cv => ((labelByte r.1, labelByte cv.1), cv.2)

/-- All entries of a table, in file order. -/
def tableEntries (cols : List UInt8) (rows : List (UInt8 × List Int)) : M :=
  rows.flatMap (rowEntries cols)

theorem rowInsert_eq (c : UInt8) (cols : List UInt8) (vs : List Int) (m : M) :
    rowInsert (labelByte c) (cols.map labelByte) vs m
      = (rowEntries cols (c, vs)).foldl (fun acc e => insert e.1 e.2 acc) m := by
  induction cols generalizing vs m with
  | nil => simp [rowInsert, rowEntries]
  | cons ch chs ih =>
    cases vs with
    | nil => simp [rowInsert, rowEntries]
    | cons v vs =>
      rw [List.map_cons, rowInsert, ih]
      simp [rowEntries]

theorem rows_foldl_eq (cols : List UInt8) (rows : List (UInt8 × List Int)) (m : M) :
    rows.foldl (fun m r => rowInsert (labelByte r.1) (cols.map labelByte) r.2 m) m
      = (tableEntries cols rows).foldl (fun acc e => insert e.1 e.2 acc) m := by
  unfold tableEntries
  rw [List.foldl_flatMap]
  congr 1
  funext m r
  exact rowInsert_eq r.1 cols r.2 m

theorem mem_rowEntries_keys {cols : List UInt8} {r : UInt8 × List Int} {k : Key}
    (h : k ∈ (rowEntries cols r).map (·.1)) : k.1 = labelByte r.1 ∧ k.2 ∈ cols.map labelByte := by
  simp only [rowEntries, List.map_map, List.mem_map, Function.comp] at h
  obtain ⟨cv, hcv, rfl⟩ := h
  exact ⟨rfl, List.mem_map.2 ⟨cv.1, (List.of_mem_zip hcv).1, rfl⟩⟩

theorem rowEntries_keyUnique (cols : List UInt8) (r : UInt8 × List Int)
    (hc : (cols.map labelByte).Nodup) : KeyUnique (rowEntries cols r) := by
  obtain ⟨c, vs⟩ := r
  induction cols generalizing vs with
  | nil => simp [rowEntries, KeyUnique]
  | cons ch chs ih =>
    cases vs with
    | nil => simp [rowEntries, KeyUnique]
    | cons v vs =>
      simp only [List.map_cons, List.nodup_cons] at hc
      have h1 := ih hc.2 vs
      unfold KeyUnique at h1 ⊢
      have : rowEntries (ch :: chs) (c, v :: vs)
          = ((labelByte c, labelByte ch), v) :: rowEntries chs (c, vs) := by
        simp [rowEntries]
      rw [this, List.map_cons, List.nodup_cons]
      refine ⟨?_, h1⟩
      intro hm
      exact hc.1 (mem_rowEntries_keys hm).2

theorem tableEntries_keyUnique (cols : List UInt8) (rows : List (UInt8 × List Int))
    (hc : (cols.map labelByte).Nodup) (hr : (rows.map (fun r => labelByte r.1)).Nodup) :
    KeyUnique (tableEntries cols rows) := by
  induction rows with
  | nil => simp [tableEntries, KeyUnique]
  | cons r rows ih =>
    simp only [List.map_cons, List.nodup_cons] at hr
    have h1 := ih hr.2
    unfold KeyUnique at h1 ⊢
    have : tableEntries cols (r :: rows) = rowEntries cols r ++ tableEntries cols rows := by
      simp [tableEntries]
    rw [this, List.map_append, List.nodup_append]
    refine ⟨rowEntries_keyUnique cols r hc, h1, ?_⟩
    intro a ha b hb hab
    subst hab
    have h2 := (mem_rowEntries_keys ha).1
    simp only [tableEntries, List.map_flatMap, List.mem_flatMap] at hb
    obtain ⟨r', hr', hb⟩ := hb
    have h3 := (mem_rowEntries_keys hb).1
    exact hr.1 (List.mem_map.2 ⟨r', hr', by rw [← h3, h2]⟩)

theorem nodup_map_labelByte {l : List UInt8} (hv : ∀ b ∈ l, b ≠ 255) (hn : l.Nodup) :
    (l.map labelByte).Nodup := by
  rw [List.Nodup, List.pairwise_map]
  rw [List.Nodup] at hn
  refine List.Pairwise.imp_of_mem ?_ hn
  intro a b ha hb hab h
  exact hab (labelByte_inj (hv a ha) (hv b hb) h)

/-! ## Membership forms -/

theorem KeyUnique.nodup {m : M} (h : KeyUnique m) : m.Nodup := by
  unfold KeyUnique at h
  rw [List.Nodup, List.pairwise_map] at h
  exact h.imp (fun hab heq => hab (by rw [heq]))

theorem mem_goEntries {m : M} (hu : KeyUnique m) (e : Key × Int) : e ∈ goEntries m ↔ e ∈ m := by
  obtain ⟨k, v⟩ := e
  rw [← get_iff_mem (goEntries_sorted m).keyUnique, ← get_iff_mem hu, get_goEntries hu]

/-- For a key-unique matrix the printed entries are a rearrangement of the matrix. -/
theorem goEntries_perm {m : M} (hu : KeyUnique m) : (goEntries m).Perm m :=
  (List.perm_ext_iff_of_nodup (goEntries_sorted m).keyUnique.nodup hu.nodup).2 (mem_goEntries hu)

theorem goEntries_count {m : M} (hu : KeyUnique m) (k : Key) :
    ((goEntries m).map (·.1)).count k = if k ∈ m.map (·.1) then 1 else 0 := by
  have h := (goEntries_sorted m).keyUnique
  unfold KeyUnique at h
  rw [h.count]
  have : k ∈ (goEntries m).map (·.1) ↔ k ∈ m.map (·.1) := by
    have h1 := get_eq_none_iff (goEntries m) k
    have h2 := get_eq_none_iff m k
    rw [get_goEntries hu] at h1
    constructor
    · intro hk; exact Classical.byContradiction fun hn => (h1.1 (h2.2 hn)) hk
    · intro hk; exact Classical.byContradiction fun hn => (h2.1 (h1.2 hn)) hk
  simp only [this]

/-! ## The three kinds of bad rows -/

theorem badRow_wrong_count (n : Nat) (lab : Bytes) (vals : List Bytes) (h : vals.length ≠ n) :
    BadRow n (lab :: vals) := by
  left; simpa using h

theorem badRow_long_label (n : Nat) (lab : Bytes) (vals : List Bytes) (h : lab.length ≠ 1) :
    BadRow n (lab :: vals) :=
  Or.inr (Or.inl ⟨lab, rfl, h⟩)

theorem badRow_bad_score (n : Nat) (lab : Bytes) (vals : List Bytes) {t : Bytes} (ht : t ∈ vals)
    (hp : parseQuarter t = none) : BadRow n (lab :: vals) :=
  Or.inr (Or.inr ⟨t, ht, hp⟩)

end Bio.Matrix
