/-
  Lemmas about the substitution-matrix model (`Bio.Model.Matrix`): the sorted
  association list (`insert`, `get`), `symmetrical`, the entry list of
  `goString`, the quarter-decimal codec, `fields`, and the token-level view of
  `readRows` together with a family of file layouts.  Core Lean only.
-/
import Bio.Model.Matrix
import Bio.Lemmas.Codec
namespace Bio.Matrix

/-! ## Keys and their order -/

theorem keyLt_iff (a b : Key) : keyLt a b = true ↔
    a.1.toNat < b.1.toNat ∨ (a.1.toNat = b.1.toNat ∧ a.2.toNat < b.2.toNat) := by
  simp [keyLt, UInt8.lt_iff_toNat_lt, ← UInt8.toNat_inj]

theorem key_eq_iff (a b : Key) : a = b ↔ a.1.toNat = b.1.toNat ∧ a.2.toNat = b.2.toNat := by
  rcases a with ⟨a1, a2⟩; rcases b with ⟨b1, b2⟩
  simp [← UInt8.toNat_inj]

theorem keyLt_irrefl (a : Key) : keyLt a a = false := by
  cases h : keyLt a a with
  | false => rfl
  | true => rw [keyLt_iff] at h; omega

theorem keyLt_trans {a b c : Key} (h1 : keyLt a b = true) (h2 : keyLt b c = true) :
    keyLt a c = true := by
  rw [keyLt_iff] at *; omega

theorem keyLt_asymm {a b : Key} (h : keyLt a b = true) : keyLt b a = false := by
  cases h' : keyLt b a with
  | false => rfl
  | true => rw [keyLt_iff] at *; omega

theorem keyLt_of_not {a b : Key} (hne : a ≠ b) (h : keyLt a b = false) : keyLt b a = true := by
  have h' : ¬ keyLt a b = true := by simp [h]
  rw [ne_eq, key_eq_iff] at hne
  rw [keyLt_iff] at *; omega

theorem keyLt_ne {a b : Key} (h : keyLt a b = true) : a ≠ b := by
  rintro rfl; simp [keyLt_irrefl] at h

theorem flip_flip (k : Key) : flip (flip k) = k := rfl

theorem flip_eq_self_iff (k : Key) : flip k = k ↔ k.1 = k.2 := by
  rcases k with ⟨a, b⟩
  simp only [flip, Prod.mk.injEq]
  constructor
  · rintro ⟨h, _⟩; exact h.symm
  · rintro h; exact ⟨h.symm, h⟩

/-! ## `KeyUnique`, `Sorted`, `get` -/

/-- No key occurs twice. -/
def KeyUnique (m : M) : Prop := (m.map (·.1)).Nodup

/-- Strictly ascending keys. -/
def Sorted (m : M) : Prop := m.Pairwise (fun a b => keyLt a.1 b.1 = true)

instance (m : M) : Decidable (KeyUnique m) := by unfold KeyUnique; infer_instance
instance (m : M) : Decidable (Sorted m) := by unfold Sorted; infer_instance

theorem Sorted.keyUnique {m : M} (h : Sorted m) : KeyUnique m := by
  unfold KeyUnique Sorted at *
  rw [List.Nodup, List.pairwise_map]
  exact h.imp (fun hab => keyLt_ne hab)

theorem get_nil (k : Key) : get [] k = none := rfl

theorem get_cons (e : Key × Int) (m : M) (k : Key) :
    get (e :: m) k = if e.1 = k then some e.2 else get m k := by
  unfold get
  by_cases h : e.1 = k <;> simp [h]

theorem get_eq_none_iff (m : M) (k : Key) : get m k = none ↔ k ∉ m.map (·.1) := by
  induction m with
  | nil => simp [get_nil]
  | cons e m ih =>
    rw [get_cons]
    by_cases h : e.1 = k
    · simp [h]
    · simp [h, ih, Ne.symm h]

theorem mem_of_get {m : M} {k : Key} {v : Int} (h : get m k = some v) : (k, v) ∈ m := by
  induction m with
  | nil => simp [get_nil] at h
  | cons e m ih =>
    rw [get_cons] at h
    by_cases hk : e.1 = k
    · simp [hk] at h; subst hk; subst h; simp
    · simp [hk] at h; exact List.mem_cons_of_mem _ (ih h)

theorem get_of_mem {m : M} (hu : KeyUnique m) {k : Key} {v : Int} (h : (k, v) ∈ m) :
    get m k = some v := by
  induction m with
  | nil => simp at h
  | cons e m ih =>
    rw [get_cons]
    unfold KeyUnique at hu
    simp only [List.map_cons, List.nodup_cons] at hu
    rcases List.mem_cons.1 h with h | h
    · subst h; simp
    · have : e.1 ≠ k := by
        rintro rfl
        exact hu.1 (List.mem_map.2 ⟨_, h, rfl⟩)
      simp [this, ih hu.2 h]

theorem get_iff_mem {m : M} (hu : KeyUnique m) (k : Key) (v : Int) :
    get m k = some v ↔ (k, v) ∈ m := ⟨mem_of_get, get_of_mem hu⟩

/-! ## `insert` -/

/-- Lookup after `insert` (any list, sorted or not). -/
theorem get_insert (k : Key) (v : Int) (m : M) (k' : Key) :
    get (insert k v m) k' = if k' = k then some v else get m k' := by
  induction m with
  | nil =>
    simp only [insert, get_cons, get_nil]
    by_cases h : k = k' <;> simp [h, eq_comm]
  | cons e m ih =>
    obtain ⟨k0, v0⟩ := e
    simp only [insert]
    by_cases h0 : k = k0
    · subst h0
      simp only [beq_self_eq_true, if_true, get_cons]
      by_cases h : k = k' <;> simp [h, eq_comm]
    · have : (k == k0) = false := by simpa using h0
      simp only [this, Bool.false_eq_true, if_false]
      split
      · simp only [get_cons]
        by_cases h : k = k' <;> simp [h, eq_comm]
      · simp only [get_cons, ih]
        by_cases h : k' = k
        · subst h; simp [Ne.symm h0]
        · simp [h]

theorem mem_insert {k : Key} {v : Int} {m : M} {e : Key × Int} (h : e ∈ insert k v m) :
    e = (k, v) ∨ e ∈ m := by
  induction m with
  | nil => simpa [insert] using h
  | cons e0 m ih =>
    obtain ⟨k0, v0⟩ := e0
    simp only [insert] at h
    split at h
    · simp only [List.mem_cons] at h ⊢
      rcases h with h | h
      · exact Or.inl h
      · exact Or.inr (Or.inr h)
    · split at h
      · simpa using h
      · simp only [List.mem_cons] at h ⊢
        rcases h with h | h
        · exact Or.inr (Or.inl h)
        · rcases ih h with h | h
          · exact Or.inl h
          · exact Or.inr (Or.inr h)

/-- `insert` keeps the list strictly ascending. -/
theorem insert_sorted (k : Key) (v : Int) {m : M} (h : Sorted m) : Sorted (insert k v m) := by
  induction m with
  | nil => simp [insert, Sorted]
  | cons e0 m ih =>
    obtain ⟨k0, v0⟩ := e0
    unfold Sorted at h ih ⊢
    rw [List.pairwise_cons] at h
    simp only [insert]
    by_cases h0 : k = k0
    · subst h0
      simp only [beq_self_eq_true, if_true, List.pairwise_cons]
      exact ⟨h.1, h.2⟩
    · have hb : (k == k0) = false := by simpa using h0
      simp only [hb, Bool.false_eq_true, if_false]
      split
      · rename_i hlt
        rw [List.pairwise_cons]
        refine ⟨?_, List.pairwise_cons.2 h⟩
        intro e he
        rcases List.mem_cons.1 he with he | he
        · subst he; exact hlt
        · exact keyLt_trans hlt (h.1 e he)
      · rename_i hlt
        have hlt' : keyLt k0 k = true := keyLt_of_not h0 (by simpa using hlt)
        rw [List.pairwise_cons]
        refine ⟨?_, ih h.2⟩
        intro e he
        rcases mem_insert he with he | he
        · subst he; exact hlt'
        · exact h.1 e he

/-! ## Folding `insert` (what `goString` prints) -/

/-- The entry list `goString` prints. -/
def goEntries (m : M) : M := m.foldl (fun acc e => insert e.1 e.2 acc) []

theorem foldl_insert_sorted (m acc : M) (h : Sorted acc) :
    Sorted (m.foldl (fun acc e => insert e.1 e.2 acc) acc) := by
  induction m generalizing acc with
  | nil => exact h
  | cons e m ih => exact ih _ (insert_sorted _ _ h)

theorem get_foldl_insert (m acc : M) (hu : KeyUnique m) (k : Key) :
    get (m.foldl (fun acc e => insert e.1 e.2 acc) acc) k
      = match get m k with
        | some v => some v
        | none => get acc k := by
  induction m generalizing acc with
  | nil => rfl
  | cons e m ih =>
    unfold KeyUnique at hu
    simp only [List.map_cons, List.nodup_cons] at hu
    rw [List.foldl_cons, ih _ hu.2, get_cons, get_insert]
    by_cases h : e.1 = k
    · subst h
      have : get m e.1 = none := (get_eq_none_iff _ _).2 hu.1
      simp [this]
    · simp [h, Ne.symm h]

theorem goEntries_sorted (m : M) : Sorted (goEntries m) :=
  foldl_insert_sorted m [] (by simp [Sorted])

theorem get_goEntries {m : M} (hu : KeyUnique m) (k : Key) : get (goEntries m) k = get m k := by
  unfold goEntries
  rw [get_foldl_insert m [] hu k]
  cases get m k <;> rfl

/-- `goString` really iterates over `goEntries`. -/
theorem goString_eq (qt : List Bytes) (m : M) :
    goString qt m = "SubstitutionMatrix{\n".toUTF8.toList ++ (goEntries m).flatMap (fun e =>
      123 :: (qt[e.1.1.toNat]?).getD [] ++ 44 :: (qt[e.1.2.toNat]?).getD [] ++ [125, 58]
        ++ quarterText e.2 ++ [44, 10]) ++ [125, 10] := rfl

/-! ## `symmetrical` -/

/-- The fold step of `symmetrical`. -/
def symStep (acc : M) (e : Key × Int) : M := insert (flip e.1) e.2 (insert e.1 e.2 acc)

theorem get_symStep (acc : M) (e : Key × Int) (k : Key) :
    get (symStep acc e) k = if k = flip e.1 ∨ k = e.1 then some e.2 else get acc k := by
  unfold symStep
  rw [get_insert, get_insert]
  by_cases h1 : k = flip e.1 <;> by_cases h2 : k = e.1 <;> simp [h1, h2]

theorem symFold_sorted (l acc : M) (h : Sorted acc) : Sorted (l.foldl symStep acc) := by
  induction l generalizing acc with
  | nil => exact h
  | cons e l ih => exact ih _ (insert_sorted _ _ (insert_sorted _ _ h))

/-- Nothing appears from nowhere. -/
theorem symFold_sound (l acc : M) (k : Key) (v : Int)
    (h : get (l.foldl symStep acc) k = some v) :
    (k, v) ∈ l ∨ (flip k, v) ∈ l ∨ get acc k = some v := by
  induction l generalizing acc with
  | nil => exact Or.inr (Or.inr h)
  | cons e l ih =>
    rcases ih _ h with h | h | h
    · exact Or.inl (List.mem_cons_of_mem _ h)
    · exact Or.inr (Or.inl (List.mem_cons_of_mem _ h))
    · rw [get_symStep] at h
      split at h
      · rename_i hk
        simp only [Option.some.injEq] at h
        rcases hk with hk | hk
        · right; left
          have : flip k = e.1 := by rw [hk, flip_flip]
          rw [this, ← h]; simp
        · left; rw [hk, ← h]; simp
      · exact Or.inr (Or.inr h)

/-- Every entry whose key is `k` or the mirror image of `k` determines the result at `k`,
provided all such entries agree on the score. -/
theorem symFold_complete (l acc : M) (k : Key) (v : Int)
    (hc : ∀ e ∈ l, (e.1 = k ∨ flip e.1 = k) → e.2 = v)
    (h : get acc k = some v ∨ ∃ e ∈ l, e.1 = k ∨ flip e.1 = k) :
    get (l.foldl symStep acc) k = some v := by
  induction l generalizing acc with
  | nil => simpa using h
  | cons e l ih =>
    rw [List.foldl_cons]
    apply ih _ (fun e' he' => hc e' (List.mem_cons_of_mem _ he'))
    rw [get_symStep]
    by_cases hk : k = flip e.1 ∨ k = e.1
    · left
      rw [if_pos hk, hc e (by simp) (by rcases hk with hk | hk <;> simp [hk])]
    · rw [if_neg hk]
      rcases h with h | ⟨e', he', hk'⟩
      · exact Or.inl h
      · rcases List.mem_cons.1 he' with rfl | he'
        · exact absurd (by rcases hk' with hk' | hk' <;> simp [← hk']) hk
        · exact Or.inr ⟨e', he', hk'⟩

theorem symmetrical_eq_none_iff (m : M) :
    symmetrical m = none ↔
      ∃ e ∈ m, e.1.1 ≠ e.1.2 ∧ ∃ v2, get m (flip e.1) = some v2 ∧ v2 ≠ e.2 := by
  unfold symmetrical
  constructor
  · intro h
    split at h
    · rename_i hany
      obtain ⟨e, he, hc⟩ := List.any_eq_true.1 hany
      refine ⟨e, he, ?_⟩
      unfold conflicts at hc
      simp only [Bool.and_eq_true, bne_iff_ne, ne_eq] at hc
      refine ⟨hc.1, ?_⟩
      cases hg : get m (flip e.1) with
      | none => simp [hg] at hc
      | some v2 => exact ⟨v2, rfl, by simpa [hg] using hc.2⟩
    · simp at h
  · rintro ⟨e, he, hne, v2, hg, hv⟩
    have : m.any (conflicts m) = true := by
      apply List.any_eq_true.2
      refine ⟨e, he, ?_⟩
      unfold conflicts
      simp [hne, hg, hv]
    simp [this]

theorem symmetrical_eq_some {m r : M} (h : symmetrical m = some r) :
    r = m.foldl symStep [] ∧
    ∀ e ∈ m, e.1.1 ≠ e.1.2 → ∀ v2, get m (flip e.1) = some v2 → v2 = e.2 := by
  have hn : ¬ symmetrical m = none := by simp [h]
  rw [symmetrical_eq_none_iff] at hn
  constructor
  · unfold symmetrical at h
    split at h
    · simp at h
    · simp only [Option.some.injEq] at h
      exact h.symm
  · intro e he hne v2 hg
    apply Classical.byContradiction
    intro hv
    exact hn ⟨e, he, hne, v2, hg, hv⟩

end Bio.Matrix
