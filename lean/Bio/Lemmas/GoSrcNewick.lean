/-
  The newick name codec (`quoted`, `nameFromText`, `nameToText` of
  formats/newick/newick.go), translated from the Go source text on every run,
  IS the hand-written model of `Bio.Model.Newick`.  Guarded by the translator's
  `<f>_Found` flags as in `Bio.Lemmas.GoSrc`.
-/
import Bio.Model.Newick
import Bio.Generated.GoSrc
import Bio.Lemmas.GoRt
set_option linter.unusedVariables false
namespace Bio.GoSrcLemmas
open Bio Bio.GoRt Bio.Generated

/-! ### `strings.ReplaceAll` on the three patterns the codec uses -/

theorem replaceAllAux_single_map (o n : UInt8) (s : Bytes) :
    replaceAllAux [o] [n] 0 s = s.map fun b => if b == o then n else b := by
  induction s with
  | nil => rfl
  | cons b rest ih =>
    simp only [replaceAllAux, List.map_cons, List.length_singleton, Nat.sub_self]
    by_cases h : b = o
    · subst h; simp [ih, List.isPrefixOf]
    · have h' : ¬ o = b := fun e => h e.symm
      simp [h, h', ih, List.isPrefixOf]

theorem replaceAll_single_map (o n : UInt8) (s : Bytes) :
    replaceAll s [o] [n] = s.map fun b => if b == o then n else b := by
  simp [replaceAll, replaceAllAux_single_map]

theorem replaceAll_double (s : Bytes) : replaceAll s [39] [39, 39] = Newick.doubleQuotes s := by
  simp only [replaceAll, List.isEmpty_cons, Bool.false_eq_true, if_false]
  induction s with
  | nil => rfl
  | cons b rest ih =>
    simp only [replaceAllAux, Newick.doubleQuotes, Newick.QUOTE, List.length_singleton, Nat.sub_self]
    by_cases h : b = 39
    · subst h; simp [ih, List.isPrefixOf]
    · have h' : ¬ (39 : UInt8) = b := fun e => h e.symm
      simp [h, h', ih, List.isPrefixOf]

theorem replaceAll_undouble (s : Bytes) : replaceAll s [39, 39] [39] = Newick.undoubleQuotes s := by
  simp only [replaceAll, List.isEmpty_cons, Bool.false_eq_true, if_false]
  -- strong induction on the length (the model consumes two bytes at a time)
  generalize hn : s.length = n
  induction n using Nat.strongRecOn generalizing s with
  | _ n ih =>
    match s, hn with
    | [], _ => rfl
    | [b], _ =>
      simp [replaceAllAux, Newick.undoubleQuotes, List.isPrefixOf]
    | a :: b :: rest, hn =>
      simp only [replaceAllAux, Newick.undoubleQuotes, Newick.QUOTE, List.length_cons, List.length_nil]
      by_cases ha : a = 39
      · by_cases hb : b = 39
        · have := ih rest.length (by simp at hn; omega) rest rfl
          subst ha; subst hb
          simp [replaceAllAux, this, List.isPrefixOf]
        · have := ih (b :: rest).length (by simp at hn ⊢; omega) (b :: rest) rfl
          have hb' : ¬ (39 : UInt8) = b := fun e => hb e.symm
          subst ha
          rw [← this]
          simp [replaceAllAux, hb, hb', List.isPrefixOf]
      · have := ih (b :: rest).length (by simp at hn ⊢; omega) (b :: rest) rfl
        have ha' : ¬ (39 : UInt8) = a := fun e => ha e.symm
        rw [← this]
        simp [replaceAllAux, ha, ha', List.isPrefixOf]

/-! ### the three functions -/

theorem quoted_eq (hF : GoSrc.quoted_Found = true) (s : Bytes) :
    GoSrc.quoted s = some (Newick.quoted s) := by
  first
  | exact absurd hF (by decide)
  | (unfold GoSrc.quoted Newick.quoted
     simp only [Option.pure_def, Option.bind_eq_bind, len]
     by_cases h2 : (2 : Int) ≤ (s.length : Int)
     · have hl : 2 ≤ s.length := by omega
       have h0 : idx s 0 = s[0]? := idx_ofNat s 0
       have h1 : idx s ((s.length : Int) - 1) = s[s.length - 1]? := by
         rw [show ((s.length : Int) - 1) = ((s.length - 1 : Nat) : Int) by omega, idx_ofNat]
       have hlast : s.getLast? = s[s.length - 1]? := List.getLast?_eq_getElem? ..
       have hhead : s.head? = s[0]? := by cases s <;> simp
       simp only [ge_iff_le, h2, if_true, h0, h1, hhead, hlast, decide_true, hl, Bool.true_and, Newick.QUOTE]
       have e0 : s[0]? = some s[0] := List.getElem?_eq_getElem (by omega)
       have e1 : s[s.length - 1]? = some s[s.length - 1] := List.getElem?_eq_getElem (by omega)
       rw [e0, e1]
       by_cases ha : s[0] == 39 <;> by_cases hb : s[s.length - 1] == 39 <;> simp [ha, hb] <;>
         simp_all
     · have hl : ¬ 2 ≤ s.length := by omega
       simp [ge_iff_le, h2, hl])

theorem nameFromText_eq (hF : GoSrc.nameFromText_Found = true) (hQ : GoSrc.quoted_Found = true) (s : Bytes) :
    GoSrc.nameFromText s = some (Newick.nameFromText s) := by
  first
  | exact absurd hF (by decide)
  | (unfold GoSrc.nameFromText Newick.nameFromText
     simp only [Option.pure_def, Option.bind_eq_bind, quoted_eq hQ, Option.bind_some]
     by_cases hq : Newick.quoted s = true
     · have hl : 2 ≤ s.length := by
         unfold Newick.quoted at hq; simp at hq; omega
       have hs : slice s 1 (len s - 1) = some ((s.drop 1).dropLast) := by
         unfold slice len
         have : (0 : Int) ≤ 1 ∧ (1 : Int) ≤ (s.length : Int) - 1 ∧ (s.length : Int) - 1 ≤ (s.length : Int) := by omega
         simp only [this, and_self, if_true, Option.some.injEq]
         rw [show ((s.length : Int) - 1 - 1).toNat = s.length - 2 by omega, show (1 : Int).toNat = 1 by rfl]
         rw [List.dropLast_eq_take, List.length_drop]
         congr 1
       simp [hq, hs, replaceAll_undouble]
     · simp [hq, replaceAll_single_map])

theorem containsAny_eq_needsQuote (qs s : Bytes) : containsAny s qs = Newick.needsQuote qs s := rfl

theorem nameToText_eq (hF : GoSrc.nameToText_Found = true) (s : Bytes) :
    GoSrc.nameToText s = some (Newick.nameToText GoSrc.nameToText_lit0 s) := by
  first
  | exact absurd hF (by decide)
  | (unfold GoSrc.nameToText Newick.nameToText
     simp only [Option.pure_def, Option.bind_eq_bind, containsAny_eq_needsQuote, replaceAll_double,
       replaceAll_single_map, Newick.QUOTE]
     split <;> simp)

/-- `needsQuote` only depends on which bytes are in the quote set. -/
theorem needsQuote_congr (a b : Bytes) (h : ∀ x : UInt8, a.contains x = b.contains x) (s : Bytes) :
    Newick.needsQuote a s = Newick.needsQuote b s := by
  unfold Newick.needsQuote
  induction s with
  | nil => rfl
  | cons x rest ih => simp only [List.any_cons, h x, ih]

theorem nameToText_congr (a b : Bytes) (h : ∀ x : UInt8, a.contains x = b.contains x) (s : Bytes) :
    Newick.nameToText a s = Newick.nameToText b s := by
  unfold Newick.nameToText; rw [needsQuote_congr a b h]

end Bio.GoSrcLemmas
