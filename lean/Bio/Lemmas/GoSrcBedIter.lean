/-
  `Reader` of formats/bed/iter.go, as translated on every run from the Go SOURCE TEXT into
  `Bio.Generated.GoSrc.bed_Reader` (the closure `func(yield …)`: `newReader(r)` is a `BufRd` and
  `nfields = 0`, the `for { }` loop with fuel, `yield` a history consumer, the result the log of the items
  handed to it), over the translated `(*reader).read` (`Bio.Lemmas.GoSrcBedRead`), against the
  hand-written model `Bio.Bed` (`fromLines`, `decodeSrc`).

  * `BedIt.rdLoop rd y` is the loop with `read` as a parameter, by recursion on the fuel; for ARBITRARY
    `strconv` parameters the translated closure is `rdLoop (bed_read f g fuel) y fuel [] r 0`
    (`bed_Reader_spec`);
  * `fromLinesP P` is `Bed.fromLines` with the line parser as a parameter; one call of `readSpec P` is
    one step of `fromLinesP P` (`read_fromLinesP`);
  * with more fuel than text lines, the loop logs `takeThroughH y log` of the Go items of `fromLinesP P`
    (`rdLoop_lines`), and `decodeWith` of `Bio.Lemmas.GoSrcBedRead` computes the same items
    (`decodeWith_lines`): `bed_Reader_raw`, `goBedDecode_items`, `goBedItems_model`;
  * an error item ends the item list (`fromLinesP_err_last`, `fromLinesP_fail_last`, `log_error_last`);
  * `takeThroughH`: `takeThroughH_map`, `takeThroughH_first_false`, `takeThroughH_all_true`,
    `takeThroughH_count`, `takeThroughH_all_or_declined`.

  Guarded by the translator's `_Found` flags as in `Bio.Lemmas.GoSrc`.
-/
import Bio.Lemmas.GoSrcBedRead
import Bio.Lemmas.IterH
set_option linter.unusedVariables false
set_option linter.unusedSimpArgs false
namespace Bio.GoSrcLemmas
open Bio Bio.GoRt Bio.Generated
namespace BedIt
open BedRd

/-- what `Reader` hands to `yield`: `(*BED, error)` -/
abbrev GoItem := Option BedT × GoErr
abbrev RdrSt := Option (List GoItem) × List GoItem × BufRd × Int

/-- `rd := newReader(r); for { bed, err := rd.read(); if err == io.EOF { return }; if err != nil {
yield(nil, err); return }; if !yield(bed, nil) { return } }` with `read` given as a function of the reader
state (`none` = it panicked or ran out of fuel), at most `k` iterations; `log` = the items handed over so
far.  The answer to `yield(nil, err)` is not asked for. -/
def rdLoop (rd : BufRd → Int → Option RdOut) (y : List GoItem → Bool) :
    Nat → List GoItem → BufRd → Int → Option (List GoItem)
  | 0, _, _, _ => none
  | k + 1, log, r, nf =>
    match rd r nf with
    | none => none
    | some o =>
      if o.2.1 = GoErr.eof then some log
      else if o.2.1 ≠ GoErr.nil then some (log ++ [(none, o.2.1)])
      else if y (log ++ [(o.1, GoErr.nil)]) = true then
        rdLoop rd y k (log ++ [(o.1, GoErr.nil)]) o.2.2.1 o.2.2.2
      else some (log ++ [(o.1, GoErr.nil)])

/-- one iteration of the `for { }` loop, after the call of `read` -/
def rdStep (y : List GoItem → Bool) (log : List GoItem) (o : RdOut) : ForInStep RdrSt :=
  if o.2.1 = GoErr.eof then .done (some log, log, o.2.2.1, o.2.2.2)
  else if o.2.1 ≠ GoErr.nil then
    .done (some (log ++ [(none, o.2.1)]), log ++ [(none, o.2.1)], o.2.2.1, o.2.2.2)
  else if y (log ++ [(o.1, GoErr.nil)]) = true then
    .yield (none, log ++ [(o.1, GoErr.nil)], o.2.2.1, o.2.2.2)
  else .done (some (log ++ [(o.1, GoErr.nil)]), log ++ [(o.1, GoErr.nil)], o.2.2.1, o.2.2.2)

theorem rd_loop (rd : BufRd → Int → Option RdOut) (y : List GoItem → Bool)
    (body : Nat → RdrSt → Option (ForInStep RdrSt))
    (hbody : ∀ i o log r nf, body i (o, log, r, nf) = (rd r nf).bind fun t => some (rdStep y log t))
    (post : RdrSt → Option (List GoItem)) (hpost : ∀ s, post s = s.1) :
    ∀ (l : List Nat) (log : List GoItem) (r : BufRd) (nf : Int),
      (forIn l ((none, log, r, nf) : RdrSt) body).bind post = rdLoop rd y l.length log r nf := by
  intro l
  induction l with
  | nil => intro log r nf; simp [rdLoop, hpost]
  | cons a l ih =>
    intro log r nf
    simp only [List.forIn_cons, hbody, List.length_cons, rdLoop, Option.bind_eq_bind]
    cases hrd : rd r nf with
    | none => rfl
    | some o =>
      simp only [Option.bind_some]
      unfold rdStep
      by_cases c1 : o.2.1 = GoErr.eof
      · rw [if_pos c1, if_pos c1]; simp [hpost]
      · rw [if_neg c1, if_neg c1]
        by_cases c2 : o.2.1 ≠ GoErr.nil
        · rw [if_pos c2, if_pos c2]; simp [hpost]
        · rw [if_neg c2, if_neg c2]
          by_cases c3 : y (log ++ [(o.1, GoErr.nil)]) = true
          · rw [if_pos c3, if_pos c3]; exact ih _ _ _
          · rw [if_neg c3, if_neg c3]; simp [hpost]

/-- for ARBITRARY `strconv` functions the translated closure is the loop `rdLoop` over the translated
`read` -/
theorem bed_Reader_spec (hR : GoSrc.bed_Reader_Found = true)
    (f : Bytes → Int × GoErr) (g : Bytes → Int → Int → Int × GoErr) (fuel : Nat) (r : BufRd)
    (y : List GoItem → Bool) :
    GoSrc.bed_Reader f g fuel r y = rdLoop (GoSrc.bed_read f g fuel) y fuel [] r 0 := by
  first
  | exact absurd hR (by decide)
  | (unfold GoSrc.bed_Reader
     simp only [Option.pure_def, Option.bind_eq_bind]
     refine (rd_loop (GoSrc.bed_read f g fuel) y _ ?_ _ ?_ (List.range fuel) [] r 0).trans
       (by rw [List.length_range])
     · intro i o log r nf
       congr 1
       funext t
       obtain ⟨b, err, r', nf'⟩ := t
       unfold rdStep
       cases err <;> cases hy : y (log ++ [(b, GoErr.nil)]) <;> simp [hy]
     · intro s
       rcases s with ⟨_ | r, log, br, nf⟩ <;> rfl)


/-! ## The items -/

/-- a model item as the Go item `Reader` hands over -/
def goItem : Item Bed.Bed → GoItem
  | .ok b => (some (tupleOf b), GoErr.nil)
  | .err => (none, GoErr.other)

/-- a Go item as a model item (`(nil, nil)`, which `Reader` never produces, is classed with the errors) -/
def normItem : GoItem → Item Bed.Bed
  | (some t, GoErr.nil) => .ok (bedOf t)
  | _ => .err

theorem normItem_goItem (i : Item Bed.Bed) : normItem (goItem i) = i := by
  cases i <;> rfl

theorem map_normItem_goItem (l : List (Item Bed.Bed)) : (l.map goItem).map normItem = l := by
  rw [List.map_map]; conv => rhs; rw [← List.map_id l]
  apply List.map_congr_left; intro i _; exact normItem_goItem i

/-- `Bed.fromLines` with the line parser as a parameter -/
def fromLinesP (P : List Bytes → Option Bed.Bed) (e : Ending) : Option Nat → List Bytes → List (Item Bed.Bed)
  | _, [] => Bed.endItems e
  | nf, l :: rest =>
    if Bed.isSkipped l then fromLinesP P e nf rest
    else
      if nf.isSome && nf != some (splitOn TAB l).length then [.err]
      else match P (splitOn TAB l) with
        | none => [.err]
        | some b => .ok b :: fromLinesP P e (some (splitOn TAB l).length) rest

theorem fromLinesP_model (e : Ending) (nf : Option Nat) (ls : List Bytes) :
    fromLinesP Bed.parseLine e nf ls = Bed.fromLines e nf ls := by
  induction ls generalizing nf with
  | nil => rfl
  | cons l ls ih =>
    simp only [fromLinesP, Bed.fromLines, ih]
    split
    · rfl
    · split
      · rfl
      · cases Bed.parseLine (splitOn TAB l) <;> simp [ih]

theorem fromLinesP_dropWhile (P : List Bytes → Option Bed.Bed) (e : Ending) (nf : Option Nat) (ls : List Bytes) :
    fromLinesP P e nf ls = fromLinesP P e nf (ls.dropWhile Bed.isSkipped) := by
  induction ls with
  | nil => rfl
  | cons l ls ih =>
    by_cases hs : Bed.isSkipped l = true
    · simp only [List.dropWhile_cons, hs, if_true]
      rw [← ih]; simp [fromLinesP, hs]
    · simp [List.dropWhile_cons, hs]

/-- One call of `read` and the first step of `fromLinesP`. -/
theorem read_fromLinesP (P : List Bytes → Option Bed.Bed) (e : Ending) (rest : Bytes) (fuel : Nat)
    (nfo : Option Nat) (hfuel : leadSkips (textLines e rest) < fuel) (hnfo : nfo ≠ some 0) :
    (readSpec P fuel ⟨rest, e⟩ (nfInt nfo) = some (none, endErr e, ⟨[], e⟩, nfInt nfo)
        ∧ fromLinesP P e nfo (textLines e rest) = Bed.endItems e)
    ∨ (∃ r' nf', readSpec P fuel ⟨rest, e⟩ (nfInt nfo) = some (none, GoErr.other, r', nf')
        ∧ fromLinesP P e nfo (textLines e rest) = [.err])
    ∨ (∃ b rest' nfo', readSpec P fuel ⟨rest, e⟩ (nfInt nfo) = some (some (tupleOf b), GoErr.nil, ⟨rest', e⟩, nfInt nfo')
        ∧ nfo' ≠ some 0 ∧ (textLines e rest').length < (textLines e rest).length
        ∧ fromLinesP P e nfo (textLines e rest) = .ok b :: fromLinesP P e nfo' (textLines e rest')) := by
  have hL := readSpec_lines P e _ rest rfl fuel (nfInt nfo) hfuel
  rw [fromLinesP_dropWhile]
  cases hd : (textLines e rest).dropWhile Bed.isSkipped with
  | nil =>
    rw [hd] at hL
    exact Or.inl ⟨hL, rfl⟩
  | cons t more =>
    rw [hd] at hL
    obtain ⟨rest', hmore, hlt, hread⟩ := hL
    right
    have hns : Bed.isSkipped t = false := by
      have := List.head_dropWhile_not Bed.isSkipped (l := textLines e rest) (by rw [hd]; simp)
      simpa [hd] using this
    have hlen : (textLines e rest').length < (textLines e rest).length := by
      have := (List.dropWhile_sublist Bed.isSkipped (l := textLines e rest)).length_le
      rw [hd, ← hmore] at this
      simp at this; omega
    have hpos := splitOn_length_pos 9 t
    cases nfo with
    | none =>
      have hread' : readSpec P fuel ⟨rest, e⟩ 0 = some (lineOut P 0 t ⟨rest', e⟩) := hread
      simp only [nfInt, hread', fromLinesP, hns, Bool.false_eq_true, if_false, lineOut,
        TAB, if_true, Option.isSome_none, Bool.false_and]
      cases hp : P (splitOn 9 t) with
      | none => exact Or.inl ⟨_, _, rfl, rfl⟩
      | some b =>
        refine Or.inr ⟨b, rest', some (splitOn 9 t).length, rfl, ?_, hlen, ?_⟩
        · intro h; injection h with h; omega
        · rw [hmore]
    | some m =>
      have hread' : readSpec P fuel ⟨rest, e⟩ (m : Int) = some (lineOut P (m : Int) t ⟨rest', e⟩) := hread
      have hm : m ≠ 0 := by intro h; apply hnfo; rw [h]
      have hm' : ¬ ((m : Int) = 0) := by omega
      simp only [nfInt, hread', fromLinesP, hns, Bool.false_eq_true, if_false, lineOut,
        TAB, hm', Option.isSome_some, Bool.true_and]
      by_cases hl : (splitOn 9 t).length = m
      · have hl' : len (splitOn 9 t) = (m : Int) := by simp [len, hl]
        have hne : (some m != some (splitOn 9 t).length) = false := by simp [hl]
        simp only [hl', ne_eq, not_true_eq_false, if_false, hne, Bool.false_eq_true]
        cases hp : P (splitOn 9 t) with
        | none => exact Or.inl ⟨_, _, rfl, rfl⟩
        | some b =>
          refine Or.inr ⟨b, rest', some m, rfl, hnfo, hlen, ?_⟩
          rw [hmore, hl]
      · have hl' : ¬ (len (splitOn 9 t) = (m : Int)) := by simp [len]; omega
        have hne : (some m != some (splitOn 9 t).length) = true := by
          simp; exact fun h => hl h.symm
        simp only [hl', ne_eq, not_false_eq_true, if_true, hne]
        exact Or.inl ⟨_, _, rfl, trivial⟩


theorem leadSkips_le_length (ls : List Bytes) : leadSkips ls ≤ ls.length :=
  (List.takeWhile_sublist _).length_le

/-- With more fuel and more iterations than there are text lines, the loop over `readSpec P` logs the Go
items of `fromLinesP P`, cut by the consumer (the consumer is not asked about a final error item; its
verdict there does not matter to `takeThroughH`). -/
theorem rdLoop_lines (P : List Bytes → Option Bed.Bed) (y : List GoItem → Bool) (e : Ending) (fuel : Nat) :
    ∀ (n : Nat) (rest : Bytes), (textLines e rest).length = n →
    ∀ (k : Nat) (nfo : Option Nat) (log : List GoItem), n < fuel → n < k → nfo ≠ some 0 →
    rdLoop (readSpec P fuel) y k log ⟨rest, e⟩ (nfInt nfo)
      = some (takeThroughH y log ((fromLinesP P e nfo (textLines e rest)).map goItem)) := by
  intro n
  induction n using Nat.strongRecOn with
  | _ n ih =>
    intro rest hn k nfo log hfuel hk hnfo
    obtain ⟨k, rfl⟩ : ∃ k', k = k' + 1 := ⟨k - 1, by omega⟩
    have hls : leadSkips (textLines e rest) < fuel := by
      have := leadSkips_le_length (textLines e rest); omega
    rcases read_fromLinesP P e rest fuel nfo hls hnfo with
      ⟨hr, hi⟩ | ⟨r', nf', hr, hi⟩ | ⟨b, rest', nfo', hr, h0, hlen, hi⟩
    · rw [rdLoop, hr, hi]
      cases e <;> simp [endErr, Bed.endItems, goItem, takeThroughH, takeThroughH_singleton]
    · rw [rdLoop, hr, hi]
      simp [goItem, takeThroughH_singleton]
    · rw [rdLoop, hr, hi, List.map_cons, takeThroughH_cons]
      rw [show goItem (Item.ok b) = (some (tupleOf b), GoErr.nil) from rfl]
      simp only []
      rw [if_neg (by simp), if_neg (by simp)]
      by_cases hy : y (log ++ [(some (tupleOf b), GoErr.nil)]) = true
      · rw [if_pos hy, if_pos hy]
        exact ih _ (by omega) rest' rfl k nfo' _ (by omega) (by omega) h0
      · rw [if_neg hy, if_neg hy]

/-- the same for `decodeWith` of `Bio.Lemmas.GoSrcBedRead`, with an ARBITRARY line parser -/
theorem decodeWith_lines (P : List Bytes → Option Bed.Bed) (e : Ending) (fuel : Nat) :
    ∀ (n : Nat) (rest : Bytes), (textLines e rest).length = n →
    ∀ (k : Nat) (nfo : Option Nat), n < fuel → n < k → nfo ≠ some 0 →
    decodeWith (readSpec P fuel) k ⟨rest, e⟩ (nfInt nfo) = some (fromLinesP P e nfo (textLines e rest)) := by
  intro n
  induction n using Nat.strongRecOn with
  | _ n ih =>
    intro rest hn k nfo hfuel hk hnfo
    obtain ⟨k, rfl⟩ : ∃ k', k = k' + 1 := ⟨k - 1, by omega⟩
    have hls : leadSkips (textLines e rest) < fuel := by
      have := leadSkips_le_length (textLines e rest); omega
    rcases read_fromLinesP P e rest fuel nfo hls hnfo with
      ⟨hr, hi⟩ | ⟨r', nf', hr, hi⟩ | ⟨b, rest', nfo', hr, h0, hlen, hi⟩
    · rw [decodeWith, hr, hi]
      cases e <;> simp [endErr, Bed.endItems]
    · rw [decodeWith, hr, hi]
    · rw [decodeWith, hr, hi]
      simp only []
      rw [ih _ (by omega) rest' rfl k nfo' (by omega) (by omega) h0]
      simp [bedOf_tupleOf]


/-! ## The translated closure -/

/-- the items of an uninterrupted run of the translated `Reader`, as model items: `fromLinesP` at the
translated `parseLine` (= `parseSpec (reqA f) (u8G g)`), a fresh reader (`nfields` not fixed yet) -/
def goBedItems (f : Bytes → Int × GoErr) (g : Bytes → Int → Int → Int × GoErr) (e : Ending) (x : Bytes) :
    List (Item Bed.Bed) :=
  fromLinesP (parseSpec (reqA f) (u8G g)) e none (textLines e x)

/-- ARBITRARY `strconv` functions and ARBITRARY consumer: the Go items of the uninterrupted run, cut by
the consumer -/
theorem bed_Reader_raw (hR : GoSrc.bed_Reader_Found = true) (hF : GoSrc.bed_read_Found = true)
    (hP : GoSrc.parseLine_Found = true)
    (f : Bytes → Int × GoErr) (g : Bytes → Int → Int → Int × GoErr) (fuel : Nat) (x : Bytes) (e : Ending)
    (y : List GoItem → Bool) (hfuel : (textLines e x).length + 1 ≤ fuel) :
    GoSrc.bed_Reader f g fuel ⟨x, e⟩ y = some (takeThroughH y [] ((goBedItems f g e x).map goItem)) := by
  rw [bed_Reader_spec hR]
  have hrd : GoSrc.bed_read f g fuel = readSpec (parseSpec (reqA f) (u8G g)) fuel := by
    funext r nf; exact bed_read_spec hF hP f g fuel r nf
  rw [hrd]
  exact rdLoop_lines _ y e fuel _ x rfl fuel none [] (by omega) (by omega) (by simp)

/-- `goBedDecode` of `Bio.Lemmas.GoSrcBedRead` (iterating the translated `read`) computes those items -/
theorem goBedDecode_items (hF : GoSrc.bed_read_Found = true) (hP : GoSrc.parseLine_Found = true)
    (f : Bytes → Int × GoErr) (g : Bytes → Int → Int → Int × GoErr) (fuel : Nat) (x : Bytes) (e : Ending)
    (hfuel : (textLines e x).length + 1 ≤ fuel) :
    goBedDecode f g fuel x e = some (goBedItems f g e x) := by
  unfold goBedDecode
  have hrd : GoSrc.bed_read f g fuel = readSpec (parseSpec (reqA f) (u8G g)) fuel := by
    funext r nf; exact bed_read_spec hF hP f g fuel r nf
  rw [hrd]
  exact decodeWith_lines _ e fuel _ x rfl fuel none (by omega) (by omega) (by simp)

/-- under the two models the items are the hand model's -/
theorem goBedItems_model {f g} (hf : AtoiModel f) (hg : PUModel g) (e : Ending) (x : Bytes) :
    goBedItems f g e x = Bed.decodeSrc e x := by
  unfold goBedItems Bed.decodeSrc
  rw [parseSpec_of_models hf hg, fromLinesP_model]

/-- there are at most as many text lines as bytes -/
theorem lines_le (e : Ending) (x : Bytes) : (textLines e x).length + 1 ≤ x.length + 1 := by
  have := textLines_length_le e _ x rfl
  omega

/-! ## Shape of the item list: an error item ends it -/

theorem fromLinesP_err_last (P : List Bytes → Option Bed.Bed) (e : Ending) : ∀ (ls : List Bytes) (nf : Option Nat)
    (i : Nat), (fromLinesP P e nf ls)[i]? = some .err → i + 1 = (fromLinesP P e nf ls).length := by
  intro ls
  induction ls with
  | nil =>
    intro nf i h
    cases e with
    | eof => simp [fromLinesP, Bed.endItems] at h
    | fail =>
      simp only [fromLinesP, Bed.endItems] at h ⊢
      cases i with
      | zero => rfl
      | succ i => simp at h
  | cons l ls ih =>
    intro nf i h
    simp only [fromLinesP] at h ⊢
    split at h
    · rename_i hs; rw [if_pos hs]; exact ih nf i h
    · rename_i hs; rw [if_neg hs]
      split at h
      · rename_i hc; rw [if_pos hc]
        cases i with
        | zero => rfl
        | succ i => simp at h
      · rename_i hc; rw [if_neg hc]
        cases hp : P (splitOn TAB l) with
        | none =>
          rw [hp] at h
          cases i with
          | zero => rfl
          | succ i => simp at h
        | some b =>
          rw [hp] at h
          cases i with
          | zero => simp at h
          | succ i =>
            simp only [List.getElem?_cons_succ] at h
            have := ih _ i h
            simp only [List.length_cons]; omega

theorem fromLinesP_fail_last (P : List Bytes → Option Bed.Bed) : ∀ (ls : List Bytes) (nf : Option Nat),
    (fromLinesP P .fail nf ls).getLast? = some .err := by
  intro ls
  induction ls with
  | nil => intro nf; rfl
  | cons l ls ih =>
    intro nf
    simp only [fromLinesP]
    split
    · exact ih nf
    · split
      · rfl
      · cases hp : P (splitOn TAB l) with
        | none => rfl
        | some b =>
          simp only []
          rw [List.getLast?_cons, ih]; rfl

/-- a log that is a prefix of the Go items of a list in which an error ends the list: every item is a
record with a nil error or `(nil, err)`, and an error item is the last of the log -/
theorem log_error_last (I : List (Item Bed.Bed)) (hI : ∀ i, I[i]? = some .err → i + 1 = I.length)
    (L : List GoItem) (hL : L <+: I.map goItem) (i : Nat) (t : GoItem) (ht : L[i]? = some t) :
    ((∃ b, t = (some (tupleOf b), GoErr.nil)) ∨ t = (none, GoErr.other))
    ∧ (t.2 ≠ GoErr.nil → i + 1 = L.length ∧ t = (none, GoErr.other)) := by
  obtain ⟨s, hs⟩ := hL
  have hi : i < L.length := by
    rcases Nat.lt_or_ge i L.length with h | h
    · exact h
    · rw [List.getElem?_eq_none h] at ht; cases ht
  have h1 : (I.map goItem)[i]? = some t := by
    rw [← hs, List.getElem?_append_left hi]; exact ht
  rw [List.getElem?_map] at h1
  cases hit : I[i]? with
  | none => rw [hit] at h1; cases h1
  | some it =>
    rw [hit] at h1
    simp only [Option.map_some, Option.some.injEq] at h1
    cases it with
    | ok b =>
      subst h1
      exact ⟨Or.inl ⟨b, rfl⟩, fun h => absurd rfl h⟩
    | err =>
      subst h1
      refine ⟨Or.inr rfl, fun _ => ⟨?_, rfl⟩⟩
      have h2 := hI i hit
      have h3 : L.length ≤ I.length := by
        have := congrArg List.length hs
        simp at this; omega
      omega

/-! ## `takeThroughH` -/

theorem takeThroughH_map {α β : Type} (φ : α → β) (y' : List β → Bool) (xs : List α) : ∀ (acc : List α),
    (takeThroughH (fun l => y' (l.map φ)) acc xs).map φ = takeThroughH y' (acc.map φ) (xs.map φ) := by
  induction xs with
  | nil => intro acc; rfl
  | cons a xs ih =>
    intro acc
    rw [List.map_cons, takeThroughH_cons, takeThroughH_cons]
    simp only [List.map_append, List.map_cons, List.map_nil]
    split
    · rw [ih]; simp
    · simp

/-- a consumer that says "go on" `k` times and then declines sees exactly `k + 1` items -/
theorem takeThroughH_first_false {α : Type} (y : List α → Bool) (xs : List α) : ∀ (acc : List α) (k : Nat),
    k < xs.length → (∀ j, j < k → y (acc ++ xs.take (j + 1)) = true) → y (acc ++ xs.take (k + 1)) = false →
    takeThroughH y acc xs = acc ++ xs.take (k + 1) := by
  induction xs with
  | nil => intro acc k hk; simp at hk
  | cons a xs ih =>
    intro acc k hk ht hf
    rw [takeThroughH_cons]
    cases k with
    | zero =>
      have : y (acc ++ [a]) = false := by simpa using hf
      simp [this]
    | succ k =>
      have h0 : y (acc ++ [a]) = true := by simpa using ht 0 (by omega)
      rw [if_pos h0, ih (acc ++ [a]) k (by simpa using hk)]
      · simp
      · intro j hj
        have := ht (j + 1) (by omega)
        simpa using this
      · simpa using hf

/-- a consumer that says "go on" after every item but possibly the last sees all items -/
theorem takeThroughH_all_true {α : Type} (y : List α → Bool) (xs : List α) : ∀ (acc : List α),
    (∀ j, j + 1 < xs.length → y (acc ++ xs.take (j + 1)) = true) → takeThroughH y acc xs = acc ++ xs := by
  induction xs with
  | nil => intro acc _; simp [takeThroughH]
  | cons a xs ih =>
    intro acc ht
    cases xs with
    | nil => rw [takeThroughH_singleton]
    | cons b xs =>
      rw [takeThroughH_cons]
      have h0 : y (acc ++ [a]) = true := by simpa using ht 0 (by simp)
      rw [if_pos h0, ih (acc ++ [a])]
      · simp
      · intro j hj
        have := ht (j + 1) (by simp at hj ⊢; omega)
        simpa using this

/-- the consumer "at most `k` items" (`k ≥ 1`) sees the first `k` items -/
theorem takeThroughH_count {α : Type} (xs : List α) (k : Nat) (hk : 1 ≤ k) :
    takeThroughH (fun l => decide (l.length < k)) [] xs = xs.take k := by
  by_cases hlen : k ≤ xs.length
  · have := takeThroughH_first_false (fun l : List α => decide (l.length < k)) xs [] (k - 1) (by omega)
      (by intro j hj; simp; omega) (by simp; omega)
    rw [this, show k - 1 + 1 = k by omega]; simp
  · have := takeThroughH_all_true (fun l : List α => decide (l.length < k)) xs []
      (by intro j hj; simp; omega)
    rw [this, List.take_of_length_le (by omega)]; simp

/-- either every item was handed over, or the consumer declined the last item of the log -/
theorem takeThroughH_all_or_declined {α : Type} (y : List α → Bool) (xs : List α) : ∀ (acc : List α),
    takeThroughH y acc xs = acc ++ xs ∨ y (takeThroughH y acc xs) = false := by
  induction xs with
  | nil => intro acc; left; simp [takeThroughH]
  | cons a xs ih =>
    intro acc
    rw [takeThroughH_cons]
    by_cases h : y (acc ++ [a]) = true
    · rw [if_pos h]
      rcases ih (acc ++ [a]) with h1 | h1
      · left; rw [h1]; simp
      · right; exact h1
    · rw [if_neg h]; right; simpa using h

end BedIt
end Bio.GoSrcLemmas
