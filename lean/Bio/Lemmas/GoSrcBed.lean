/-
  `(*BED).Write` of formats/bed/bed.go, as translated on every run from the Go SOURCE TEXT into
  `Bio.Generated.GoSrc.bed_Write` over the abstract failing writer `Bio.GoRt.Wr` (one `fmt.Fprintf`
  = one `wrWrite`), against the hand-written model `Bio.Model.Bed`:

  * for `3 ≤ N ≤ 12` the translated `Write` performs exactly the calls `bedWriteCalls b` on the
    writer, in order, stopping at the first failing one (`wrWriteAll`), and returns that error;
  * for `N` outside `3…12` it returns an error and writes nothing;
  * the concatenation of the calls is the model's `Bed.encode b`;
  * hence on a writer with room for `k` more bytes: the first `k` bytes of the text, an error iff
    the text is longer than `k`; never a panic (the `[3]byte` array has its three elements).

  Guarded by the translator's `bed_Write_Found` flag as in `Bio.Lemmas.GoSrc`.
-/
import Bio.Lemmas.GoSrcRegions
import Bio.Lemmas.Bed
set_option linter.unusedVariables false
set_option linter.unusedSimpArgs false
namespace Bio.GoSrcLemmas
open Bio Bio.GoRt Bio.Generated

/-! ## The calls -/

/-- the text of one element of a block list: `fmt.Fprintf(w, "%v", x)` for the first element,
`fmt.Fprintf(w, ",%v", x)` for the others -/
def listCall (i : Nat) (x : Int) : Bytes := if i > 0 then 44 :: itoa x else itoa x

/-- one call per list element, `k` = index of the first one -/
def listCalls : Nat → List Int → List Bytes
  | _, [] => []
  | k, x :: xs => listCall k x :: listCalls (k + 1) xs

/-- The exact sequence of `Write` calls `(*BED).Write` performs for `3 ≤ b.n ≤ 12`: the first three
fields together, one call per optional field with its leading TAB, the TAB alone before each block
list and one call per list element (with its leading comma from the second on), the newline. -/
def bedWriteCalls (b : Bed.Bed) : List Bytes :=
  [b.chrom ++ [9] ++ itoa b.chromStart ++ [9] ++ itoa b.chromEnd]
  ++ (if b.n > 3 then [[9] ++ b.name] else [])
  ++ (if b.n > 4 then [[9] ++ itoa b.score] else [])
  ++ (if b.n > 5 then [[9] ++ b.strand] else [])
  ++ (if b.n > 6 then [[9] ++ itoa b.thickStart] else [])
  ++ (if b.n > 7 then [[9] ++ itoa b.thickEnd] else [])
  ++ (if b.n > 8 then [[9] ++ itoa (b.rgb.1.toNat : Int) ++ [44] ++ itoa (b.rgb.2.1.toNat : Int) ++ [44]
        ++ itoa (b.rgb.2.2.toNat : Int)] else [])
  ++ (if b.n > 9 then [[9] ++ itoa b.blockCount] else [])
  ++ (if b.n > 10 then [9] :: listCalls 0 b.blockSizes else [])
  ++ (if b.n > 11 then [9] :: listCalls 0 b.blockStarts else [])
  ++ [[10]]

/-- the translated `Write` on the fields of a model record (`ItemRGB [3]byte` as the 3-element list) -/
abbrev goBedWrite (b : Bed.Bed) (w : Wr) : Option (GoErr × Wr) :=
  GoSrc.bed_Write b.n b.chrom b.chromStart b.chromEnd b.name b.score b.strand b.thickStart b.thickEnd
    [b.rgb.1, b.rgb.2.1, b.rgb.2.2] b.blockCount b.blockSizes b.blockStarts w

/-! ## Run-time vocabulary facts -/

theorem sprintf1_v (t : Bytes) : sprintf1 [37, 118] t = some t := by
  simp [sprintf1]

theorem sprintf1_comma_v (t : Bytes) : sprintf1 [44, 37, 118] t = some (44 :: t) := by
  simp [sprintf1]

theorem idx3_0 {α : Type} (a b c : α) : idx [a, b, c] 0 = some a := rfl
theorem idx3_1 {α : Type} (a b c : α) : idx [a, b, c] 1 = some b := rfl
theorem idx3_2 {α : Type} (a b c : α) : idx [a, b, c] 2 = some c := rfl

theorem itoa_natCast (n : Nat) : itoa (n : Int) = natDigits n := rfl

/-! ## The `for i, x := range list { … Fprintf(w, txt, x) … }` loop -/

theorem bed_list_loop (body : Int × Int → WrSt → Option (ForInStep WrSt))
    (hbody : ∀ (i : Nat) (x : Int) (o : Option (GoErr × Wr)) (w : Wr),
      body ((i : Int), x) (o, w)
        = some (if (wrWrite w (listCall i x)).2 = GoErr.nil
            then .yield (none, (wrWrite w (listCall i x)).1)
            else .done (some ((wrWrite w (listCall i x)).2, (wrWrite w (listCall i x)).1),
                   (wrWrite w (listCall i x)).1))) :
    ∀ (l : List Int) (k : Nat) (w : Wr),
      forIn ((l.zipIdx k).map fun p => ((p.2 : Int), p.1)) ((none, w) : WrSt) body
        = some (wrResult (wrWriteAll w (listCalls k l))) := by
  intro l
  induction l with
  | nil => intro k w; simp [listCalls, wrWriteAll, wrResult]
  | cons x xs ih =>
    intro k w
    simp only [List.zipIdx_cons, List.map_cons, List.forIn_cons, hbody, listCalls, wrWriteAll,
      Option.bind_eq_bind, Option.bind_some]
    by_cases hw : (wrWrite w (listCall k x)).2 = GoErr.nil
    · simp only [hw, if_true]
      rw [ih]
    · simp [hw, wrResult]

theorem bed_enum_loop (body : Int × Int → WrSt → Option (ForInStep WrSt))
    (hbody : ∀ (i : Nat) (x : Int) (o : Option (GoErr × Wr)) (w : Wr),
      body ((i : Int), x) (o, w)
        = some (if (wrWrite w (listCall i x)).2 = GoErr.nil
            then .yield (none, (wrWrite w (listCall i x)).1)
            else .done (some ((wrWrite w (listCall i x)).2, (wrWrite w (listCall i x)).1),
                   (wrWrite w (listCall i x)).1)))
    (l : List Int) (w : Wr) :
    forIn (enum l) ((none, w) : WrSt) body = some (wrResult (wrWriteAll w (listCalls 0 l))) :=
  bed_list_loop body hbody l 0 w

/-! ## The translated `Write` is the sequence of calls -/

/-- one straight-line `if _, err := fmt.Fprintf(…); err != nil { return err }` on both sides -/
macro "wr_step" : tactic => `(tactic| (
  generalize wrWrite _ _ = r
  by_cases h0 : r.2 = GoErr.nil
  rotate_left
  · simp [h0]
  simp only [h0, bne_self_eq_false, Bool.false_eq_true, if_false, if_true]))

/-- the body of a block-list loop is one call of `listCall` -/
macro "wr_body" : tactic => `(tactic| (
  intro i x o w'
  by_cases hi : i > 0
  · have hi' : (i : Int) > 0 := by omega
    simp only [hi', if_true, sprintf1_comma_v, Option.bind_some, listCall, hi]
    by_cases hw : (wrWrite w' (44 :: itoa x)).2 = GoErr.nil <;> simp [hw]
  · have hi' : ¬ ((i : Int) > 0) := by omega
    simp only [hi', if_false, sprintf1_v, Option.bind_some, listCall, hi]
    by_cases hw : (wrWrite w' (itoa x)).2 = GoErr.nil <;> simp [hw]))

/-- one block-list loop on both sides -/
macro "wr_loop" : tactic => `(tactic| (
  rw [bed_enum_loop _ (by wr_body)]
  simp only [wrWriteAll_append, Option.bind_some, wrResult]
  generalize wrWriteAll _ (listCalls _ _) = r
  by_cases h0 : r.2 = GoErr.nil
  rotate_left
  · simp [h0]
  simp only [h0, if_true, wrWriteAll]))

/-- the straight-line part for a literal field count: decide the `if b.N > k`, then step through the calls -/
macro "bed_case" h:ident b:ident : tactic => `(tactic| (
  obtain ⟨n, chrom, cs, ce, name, score, strand, ts, te, ⟨r0, r1, r2⟩, bc, sizes, starts⟩ := $b
  simp only at $h:ident
  subst $h
  unfold goBedWrite GoSrc.bed_Write bedWriteCalls
  simp only [Option.pure_def, Option.bind_eq_bind, Int.reduceLT, Int.reduceGT, decide_false, decide_true,
    Bool.or_false, Bool.false_eq_true, if_false, if_true, idx3_0, idx3_1, idx3_2, Option.bind_some,
    List.append_nil, List.nil_append, List.cons_append, List.append_assoc, wrWriteAll]
  repeat wr_step))

theorem bed_Write_eq_3 (hF : GoSrc.bed_Write_Found = true) (b : Bed.Bed) (w : Wr) (hn : b.n = 3) :
    goBedWrite b w = some ((wrWriteAll w (bedWriteCalls b)).2, (wrWriteAll w (bedWriteCalls b)).1) := by
  first
  | exact absurd hF (by decide)
  | (bed_case hn b)

theorem bed_Write_eq_4 (hF : GoSrc.bed_Write_Found = true) (b : Bed.Bed) (w : Wr) (hn : b.n = 4) :
    goBedWrite b w = some ((wrWriteAll w (bedWriteCalls b)).2, (wrWriteAll w (bedWriteCalls b)).1) := by
  first
  | exact absurd hF (by decide)
  | (bed_case hn b)

theorem bed_Write_eq_5 (hF : GoSrc.bed_Write_Found = true) (b : Bed.Bed) (w : Wr) (hn : b.n = 5) :
    goBedWrite b w = some ((wrWriteAll w (bedWriteCalls b)).2, (wrWriteAll w (bedWriteCalls b)).1) := by
  first
  | exact absurd hF (by decide)
  | (bed_case hn b)

theorem bed_Write_eq_6 (hF : GoSrc.bed_Write_Found = true) (b : Bed.Bed) (w : Wr) (hn : b.n = 6) :
    goBedWrite b w = some ((wrWriteAll w (bedWriteCalls b)).2, (wrWriteAll w (bedWriteCalls b)).1) := by
  first
  | exact absurd hF (by decide)
  | (bed_case hn b)

theorem bed_Write_eq_7 (hF : GoSrc.bed_Write_Found = true) (b : Bed.Bed) (w : Wr) (hn : b.n = 7) :
    goBedWrite b w = some ((wrWriteAll w (bedWriteCalls b)).2, (wrWriteAll w (bedWriteCalls b)).1) := by
  first
  | exact absurd hF (by decide)
  | (bed_case hn b)

theorem bed_Write_eq_8 (hF : GoSrc.bed_Write_Found = true) (b : Bed.Bed) (w : Wr) (hn : b.n = 8) :
    goBedWrite b w = some ((wrWriteAll w (bedWriteCalls b)).2, (wrWriteAll w (bedWriteCalls b)).1) := by
  first
  | exact absurd hF (by decide)
  | (bed_case hn b)

theorem bed_Write_eq_9 (hF : GoSrc.bed_Write_Found = true) (b : Bed.Bed) (w : Wr) (hn : b.n = 9) :
    goBedWrite b w = some ((wrWriteAll w (bedWriteCalls b)).2, (wrWriteAll w (bedWriteCalls b)).1) := by
  first
  | exact absurd hF (by decide)
  | (bed_case hn b)

theorem bed_Write_eq_10 (hF : GoSrc.bed_Write_Found = true) (b : Bed.Bed) (w : Wr) (hn : b.n = 10) :
    goBedWrite b w = some ((wrWriteAll w (bedWriteCalls b)).2, (wrWriteAll w (bedWriteCalls b)).1) := by
  first
  | exact absurd hF (by decide)
  | (bed_case hn b)

theorem bed_Write_eq_11 (hF : GoSrc.bed_Write_Found = true) (b : Bed.Bed) (w : Wr) (hn : b.n = 11) :
    goBedWrite b w = some ((wrWriteAll w (bedWriteCalls b)).2, (wrWriteAll w (bedWriteCalls b)).1) := by
  first
  | exact absurd hF (by decide)
  | (bed_case hn b; wr_loop; repeat wr_step)

theorem bed_Write_eq_12 (hF : GoSrc.bed_Write_Found = true) (b : Bed.Bed) (w : Wr) (hn : b.n = 12) :
    goBedWrite b w = some ((wrWriteAll w (bedWriteCalls b)).2, (wrWriteAll w (bedWriteCalls b)).1) := by
  first
  | exact absurd hF (by decide)
  | (bed_case hn b; wr_loop; repeat wr_step; wr_loop; repeat wr_step)

/-- `(*BED).Write` with `3 ≤ N ≤ 12` performs `bedWriteCalls b` in order, stopping at the first error -/
theorem bed_Write_eq (hF : GoSrc.bed_Write_Found = true) (b : Bed.Bed) (w : Wr)
    (h3 : 3 ≤ b.n) (h12 : b.n ≤ 12) :
    goBedWrite b w = some ((wrWriteAll w (bedWriteCalls b)).2, (wrWriteAll w (bedWriteCalls b)).1) := by
  have hn : b.n = 3 ∨ b.n = 4 ∨ b.n = 5 ∨ b.n = 6 ∨ b.n = 7 ∨ b.n = 8 ∨ b.n = 9 ∨ b.n = 10 ∨ b.n = 11
      ∨ b.n = 12 := by omega
  rcases hn with h | h | h | h | h | h | h | h | h | h
  · exact bed_Write_eq_3 hF b w h
  · exact bed_Write_eq_4 hF b w h
  · exact bed_Write_eq_5 hF b w h
  · exact bed_Write_eq_6 hF b w h
  · exact bed_Write_eq_7 hF b w h
  · exact bed_Write_eq_8 hF b w h
  · exact bed_Write_eq_9 hF b w h
  · exact bed_Write_eq_10 hF b w h
  · exact bed_Write_eq_11 hF b w h
  · exact bed_Write_eq_12 hF b w h

/-- `N` outside `3…12`: an error, and the writer untouched -/
theorem bed_Write_bad_n (hF : GoSrc.bed_Write_Found = true) (b : Bed.Bed) (w : Wr)
    (h : b.n < 3 ∨ b.n > 12) : goBedWrite b w = some (GoErr.other, w) := by
  first
  | exact absurd hF (by decide)
  | (unfold goBedWrite GoSrc.bed_Write
     simp [h])

/-! ## The calls, concatenated, are the model's text -/

theorem joinWith_cons_eq (sep : UInt8) (p : Bytes) (ps : List Bytes) :
    joinWith sep (p :: ps) = p ++ (ps.map (sep :: ·)).flatten := by
  induction ps generalizing p with
  | nil => simp [joinWith]
  | cons q qs ih => simp [joinWith, ih]

theorem listCalls_succ_flatten (l : List Int) : ∀ (k : Nat),
    (listCalls (k + 1) l).flatten = ((l.map itoa).map (44 :: ·)).flatten := by
  induction l with
  | nil => intro k; rfl
  | cons x xs ih => intro k; simp [listCalls, listCall, ih]

theorem listCalls_zero_flatten (l : List Int) : (listCalls 0 l).flatten = Bed.intList l := by
  cases l with
  | nil => rfl
  | cons x xs =>
    simp [listCalls, listCall, listCalls_succ_flatten, Bed.intList, joinWith_cons_eq, Bed.COMMA]

theorem bedWriteCalls_flatten_eq (b : Bed.Bed) (h3 : 3 ≤ b.n) (h12 : b.n ≤ 12) :
    Bed.encode b = some (bedWriteCalls b).flatten := by
  obtain ⟨n, chrom, cs, ce, name, score, strand, ts, te, ⟨r0, r1, r2⟩, bc, sizes, starts⟩ := b
  simp only at h3 h12
  have hn : n = 3 ∨ n = 4 ∨ n = 5 ∨ n = 6 ∨ n = 7 ∨ n = 8 ∨ n = 9 ∨ n = 10 ∨ n = 11 ∨ n = 12 := by omega
  rcases hn with rfl | rfl | rfl | rfl | rfl | rfl | rfl | rfl | rfl | rfl <;>
    simp [Bed.encode, Bed.encodeLine, Bed.allFields, joinWith, bedWriteCalls, listCalls_zero_flatten,
      itoa_natCast, TAB, LF, Bed.COMMA]

theorem bed_encode_none (b : Bed.Bed) (h : b.n < 3 ∨ b.n > 12) : Bed.encode b = none := by
  simp [Bed.encode, Bed.encodeLine, h]

/-! ## On a writer that accepts `k` more bytes -/

/-- an error iff the text is longer than `k`; the bytes accepted are the first `k` bytes of the text -/
theorem bed_Write_fault (hF : GoSrc.bed_Write_Found = true) (b : Bed.Bed) (enc : Bytes)
    (he : Bed.encode b = some enc) (k : Nat) (o : Bytes) :
    goBedWrite b ⟨k, o⟩
      = some (if enc.length ≤ k then GoErr.nil else GoErr.other,
          ⟨k - (enc.take k).length, o ++ enc.take k⟩) := by
  by_cases h : b.n < 3 ∨ b.n > 12
  · rw [bed_encode_none b h] at he; cases he
  · have h3 : 3 ≤ b.n := by omega
    have h12 : b.n ≤ 12 := by omega
    rw [bedWriteCalls_flatten_eq b h3 h12] at he
    cases he
    rw [bed_Write_eq hF b _ h3 h12, wrWriteAll_take]

/-- `for _, b := range bs { if err := b.Write(w); err != nil { return err } }` over the translated
BED `Write` -/
def bedWriteAll : List Bed.Bed → Wr → Option (GoErr × Wr)
  | [], w => some (GoErr.nil, w)
  | b :: bs, w =>
    match goBedWrite b w with
    | none => none
    | some (GoErr.nil, w') => bedWriteAll bs w'
    | some (err, w') => some (err, w')

/-- the text `Write` produces for the records one after the other (`[]` for a refused record) -/
def bedEncodeAll (bs : List Bed.Bed) : Bytes := (bs.map fun b => (Bed.encode b).getD []).flatten

theorem bedWriteAll_ok (hF : GoSrc.bed_Write_Found = true) (bs : List Bed.Bed)
    (hn : ∀ b ∈ bs, 3 ≤ b.n ∧ b.n ≤ 12) (k : Nat) (o : Bytes) (h : (bedEncodeAll bs).length ≤ k) :
    bedWriteAll bs ⟨k, o⟩ = some (GoErr.nil, ⟨k - (bedEncodeAll bs).length, o ++ bedEncodeAll bs⟩) := by
  induction bs generalizing k o with
  | nil => simp [bedWriteAll, bedEncodeAll]
  | cons b bs ih =>
    have hb := hn b (by simp)
    have he := bedWriteCalls_flatten_eq b hb.1 hb.2
    have hall : bedEncodeAll (b :: bs) = (bedWriteCalls b).flatten ++ bedEncodeAll bs := by
      simp [bedEncodeAll, he]
    rw [hall, List.length_append] at h
    have h1 : (bedWriteCalls b).flatten.length ≤ k := by omega
    rw [bedWriteAll, bed_Write_fault hF b _ he k o]
    simp only [h1, if_true, List.take_of_length_le h1]
    rw [ih (fun b' hb' => hn b' (by simp [hb'])) _ _ (by omega), hall]
    simp only [List.length_append, List.append_assoc]
    congr 3
    omega

end Bio.GoSrcLemmas
