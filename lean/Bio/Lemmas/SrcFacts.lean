/- Helper for the best-effort source-level facts (Bio/Props/CxxSrc.lean). -/
namespace Bio.SrcFacts

/-- `true` when the fact was not found in the source; otherwise the check on it. -/
def holdsIfFound {α : Type} (o : Option α) (p : α → Bool) : Bool :=
  match o with
  | none => true
  | some x => p x

theorem holdsIfFound_some {α : Type} (o : Option α) (p : α → Bool) (h : holdsIfFound o p = true) :
    ∀ x, o = some x → p x = true := by
  intro x hx; subst hx; exact h

end Bio.SrcFacts
