/-
  trie/trie.go at the Go SOURCE level, part 1: the abstraction.

  The translator turns `type Trie struct{ m map[byte]*Trie }` (used through pointers, mutated in
  place) into code over an EXPLICIT HEAP: `heap : List (List (UInt8 × Int))` is the list of the map
  fields of all nodes allocated so far, a `*Trie` is an index into it (`nil = -1`).

  * `RepE heap es t S`: the edge list `es` (of some node), read in `heap`, is the model trie `t`
    (sibling list inlined), and `S` is the FOOTPRINT: the list of the heap cells visited (every
    edge target, then its subtree, in order).
  * `Rep heap p t`: pointer `p` is a valid node and its edge list represents `t`.
  * `HWF heap root`: the part of the heap reachable from `root` is a TREE (no cell is reached
    twice: the footprint, with `root` in front, has no duplicates — this is acyclicity and
    no-sharing at once) and the keys of every reachable node are pairwise distinct (a Go map).
    Cells that are not reachable from `root` (garbage left behind by `Delete`) are unconstrained.
  * `Good heap n t S`: both at once, with the footprint exposed (the working invariant).
-/
import Bio.Generated.GoSrc
import Bio.Lemmas.GoRt
import Bio.Lemmas.Trie
set_option linter.unusedVariables false
set_option linter.unusedSimpArgs false
namespace Bio.GoSrcLemmas
namespace TrieGo
open Bio Bio.GoRt Bio.Generated Bio.Trie

abbrev Heap := List (List (UInt8 × Int))

/-- the edge list `es`, read in `heap`, is the model trie `t`; `S` = the heap cells visited -/
inductive RepE (heap : Heap) : List (UInt8 × Int) → T → List Nat → Prop
  | nil : RepE heap [] .nil []
  | cons {k : UInt8} {v : Int} {c : Nat} {es' es : List (UInt8 × Int)} {tc tr : T}
      {Sc Sr : List Nat} :
      v = (c : Int) → heap[c]? = some es' → RepE heap es' tc Sc → RepE heap es tr Sr →
      RepE heap ((k, v) :: es) (.cons k tc tr) (c :: (Sc ++ Sr))

/-- the pointer `p` is a node of `heap` and the sub-trie below it is `t` -/
def Rep (heap : Heap) (p : Int) (t : T) : Prop :=
  ∃ (n : Nat) (es : List (UInt8 × Int)) (S : List Nat),
    p = (n : Int) ∧ heap[n]? = some es ∧ RepE heap es t S

/-- every cell of `S` holds a map: pairwise distinct keys -/
def KeysOK (heap : Heap) (S : List Nat) : Prop :=
  ∀ x ∈ S, ∀ es, heap[x]? = some es → (es.map Prod.fst).Nodup

/-- working invariant: node `n` represents `t` with footprint `S`; tree-shaped; maps -/
def Good (heap : Heap) (n : Nat) (t : T) (S : List Nat) : Prop :=
  ∃ es, heap[n]? = some es ∧ RepE heap es t S ∧ (n :: S).Nodup ∧ KeysOK heap (n :: S)

/-- the heap reachable from `root` is a tree of maps -/
def HWF (heap : Heap) (root : Int) : Prop :=
  ∃ (n : Nat) (t : T) (S : List Nat), root = (n : Int) ∧ Good heap n t S

/-! ## The model: sibling lists -/

def tapp : T → T → T
  | .nil, u => u
  | .cons k c r, u => .cons k c (tapp r u)

def tkeys : T → List UInt8
  | .nil => []
  | .cons k _ r => k :: tkeys r

@[simp] theorem tapp_nil_left (u : T) : tapp .nil u = u := rfl

@[simp] theorem tapp_nil_right : ∀ t : T, tapp t .nil = t
  | .nil => rfl
  | .cons k c r => by simp [tapp, tapp_nil_right r]

theorem tapp_eq_nil {t u : T} : tapp t u = .nil ↔ t = .nil ∧ u = .nil := by
  cases t <;> simp [tapp]

theorem has_tapp (k : UInt8) (bs : Bytes) : ∀ (t1 u : T), k ∉ tkeys t1 →
    has (k :: bs) (tapp t1 u) = has (k :: bs) u
  | .nil, u, _ => rfl
  | .cons k' c r, u, h => by
    simp only [tkeys, List.mem_cons, not_or] at h
    have hk : (k' == k) = false := by simpa using Ne.symm h.1
    simp only [tapp, has, hk]
    exact has_tapp k bs r u h.2

theorem add_tapp (k : UInt8) (bs : Bytes) : ∀ (t1 u : T), k ∉ tkeys t1 →
    add (k :: bs) (tapp t1 u) = tapp t1 (add (k :: bs) u)
  | .nil, u, _ => rfl
  | .cons k' c r, u, h => by
    simp only [tkeys, List.mem_cons, not_or] at h
    have hk : (k' == k) = false := by simpa using Ne.symm h.1
    simp only [tapp, add, hk]
    simp [add_tapp k bs r u h.2]

theorem del_tapp (k : UInt8) (bs : Bytes) : ∀ (t1 u : T), k ∉ tkeys t1 →
    del (k :: bs) (tapp t1 u) = (del (k :: bs) u).map (tapp t1 ·)
  | .nil, u, _ => by simp [tapp]
  | .cons k' c r, u, h => by
    simp only [tkeys, List.mem_cons, not_or] at h
    have hk : k' ≠ k := Ne.symm h.1
    simp only [tapp]
    rw [del_cons_cons_ne hk, del_tapp k bs r u h.2]
    cases del (k :: bs) u <;> simp [tapp]

theorem has_absent (k : UInt8) (bs : Bytes) (t : T) (h : k ∉ tkeys t) : has (k :: bs) t = false := by
  have := has_tapp k bs t .nil h
  simpa [has] using this

theorem add_absent (k : UInt8) (bs : Bytes) (t : T) (h : k ∉ tkeys t) :
    add (k :: bs) t = tapp t (.cons k (chain bs) .nil) := by
  have := add_tapp k bs t .nil h
  simpa [add] using this

theorem del_absent (k : UInt8) (bs : Bytes) (t : T) (h : k ∉ tkeys t) : del (k :: bs) t = none := by
  have := del_tapp k bs t .nil h
  simpa [del] using this

theorem has_present (k : UInt8) (bs : Bytes) (t1 tc t2 : T) (h : k ∉ tkeys t1) :
    has (k :: bs) (tapp t1 (.cons k tc t2)) = has bs tc := by
  rw [has_tapp k bs t1 _ h]; simp [has]

theorem add_present (k : UInt8) (bs : Bytes) (t1 tc t2 : T) (h : k ∉ tkeys t1) :
    add (k :: bs) (tapp t1 (.cons k tc t2)) = tapp t1 (.cons k (add bs tc) t2) := by
  rw [add_tapp k bs t1 _ h]; simp [add]

theorem del_present_single (k : UInt8) (t1 tc t2 : T) (h : k ∉ tkeys t1) :
    del [k] (tapp t1 (.cons k tc t2)) = some (tapp t1 t2) := by
  rw [del_tapp k [] t1 _ h, del_cons_cons_eq_single]; rfl

theorem del_present (k b1 : UInt8) (bs : Bytes) (t1 tc t2 : T) (h : k ∉ tkeys t1) :
    del (k :: b1 :: bs) (tapp t1 (.cons k tc t2)) =
      match del (b1 :: bs) tc with
      | none => none
      | some c' => if c'.isNil then some (tapp t1 t2) else some (tapp t1 (.cons k c' t2)) := by
  rw [del_tapp k (b1 :: bs) t1 _ h, del_cons_cons_eq]
  cases del (b1 :: bs) tc with
  | none => rfl
  | some c' => cases hc : c'.isNil <;> simp [hc]

/-! ## Go maps as association lists -/

theorem mapGet_nil (k : UInt8) (z : Int) : mapGet ([] : List (UInt8 × Int)) k z = z := rfl

theorem mapGet_cons (k' : UInt8) (v : Int) (es : List (UInt8 × Int)) (k : UInt8) (z : Int) :
    mapGet ((k', v) :: es) k z = if k' == k then v else mapGet es k z := by
  unfold mapGet
  simp only [List.find?_cons]
  cases h : (k' == k) <;> simp

theorem mapSet_absent (es : List (UInt8 × Int)) (k : UInt8) (v : Int)
    (h : k ∉ es.map Prod.fst) : mapSet es k v = es ++ [(k, v)] := by
  unfold mapSet
  have : es.any (fun e => e.1 == k) = false := by
    rw [List.any_eq_false]
    intro e he hk
    exact h (List.mem_map.2 ⟨e, he, by simpa using hk⟩)
  simp [this]

theorem mapErase_absent (es : List (UInt8 × Int)) (k : UInt8)
    (h : k ∉ es.map Prod.fst) : mapErase es k = es := by
  unfold mapErase
  rw [List.filter_eq_self]
  intro e he
  have : e.1 ≠ k := fun hk => h (List.mem_map.2 ⟨e, he, hk⟩)
  simpa using this

theorem mapErase_present (es1 es2 : List (UInt8 × Int)) (k : UInt8) (v : Int)
    (h : ((es1 ++ (k, v) :: es2).map Prod.fst).Nodup) :
    mapErase (es1 ++ (k, v) :: es2) k = es1 ++ es2 := by
  have h' : (es1.map Prod.fst ++ k :: es2.map Prod.fst).Nodup := by simpa using h
  have h1 : k ∉ es1.map Prod.fst := by
    intro hk
    exact (List.nodup_append.1 h').2.2 k hk k (by simp) rfl
  have h2 : k ∉ es2.map Prod.fst := by
    have := (List.nodup_append.1 h').2.1
    exact (List.nodup_cons.1 this).1
  have e1 := mapErase_absent es1 k h1
  have e2 := mapErase_absent es2 k h2
  unfold mapErase at *
  simp [List.filter_append, e1, e2]

/-! ## `RepE` -/

theorem RepE.keys {heap : Heap} {es t S} (h : RepE heap es t S) : tkeys t = es.map Prod.fst := by
  induction h with
  | nil => rfl
  | cons _ _ _ _ _ ih => simp [tkeys, ih]

theorem RepE.isNil {heap : Heap} {es t S} (h : RepE heap es t S) : t = .nil ↔ es = [] := by
  cases h <;> simp

theorem RepE.lt {heap : Heap} {es t S} (h : RepE heap es t S) : ∀ x ∈ S, x < heap.length := by
  induction h with
  | nil => simp
  | cons hv hc _ _ ih1 ih2 =>
    intro x hx
    simp only [List.mem_cons, List.mem_append] at hx
    rcases hx with rfl | hx | hx
    · exact (List.getElem?_eq_some_iff.1 hc).1
    · exact ih1 x hx
    · exact ih2 x hx

/-- frame: a heap that agrees with `heap` on the footprint represents the same trie -/
theorem RepE.frame {heap heap' : Heap} {es t S} (h : RepE heap es t S)
    (hf : ∀ x ∈ S, heap'[x]? = heap[x]?) : RepE heap' es t S := by
  induction h with
  | nil => exact .nil
  | cons hv hc _ _ ih1 ih2 =>
    refine .cons hv ?_ (ih1 ?_) (ih2 ?_)
    · rw [hf _ (by simp)]; exact hc
    · intro x hx; exact hf x (by simp [hx])
    · intro x hx; exact hf x (by simp [hx])

theorem RepE.det {heap : Heap} {es t S} (h : RepE heap es t S) :
    ∀ {t' S'}, RepE heap es t' S' → t = t' ∧ S = S' := by
  induction h with
  | nil => intro t' S' h'; cases h'; exact ⟨rfl, rfl⟩
  | cons hv hc _ _ ih1 ih2 =>
    intro t' S' h'
    cases h' with
    | cons hv' hc' h1 h2 =>
      have : (_ : Int) = _ := hv.symm.trans hv'
      have hcc := Int.ofNat.inj this
      subst hcc
      rw [hc] at hc'
      cases hc'
      obtain ⟨rfl, rfl⟩ := ih1 h1
      obtain ⟨rfl, rfl⟩ := ih2 h2
      exact ⟨rfl, rfl⟩

theorem RepE.append {heap : Heap} {es1 t1 S1 es2 t2 S2} (h1 : RepE heap es1 t1 S1)
    (h2 : RepE heap es2 t2 S2) : RepE heap (es1 ++ es2) (tapp t1 t2) (S1 ++ S2) := by
  induction h1 with
  | nil => exact h2
  | @cons k v c es' es tc tr Sc Sr hv hc hc1 _ _ ih =>
    have := RepE.cons (k := k) hv hc hc1 ih
    simpa [tapp, List.append_assoc] using this

theorem RepE.split {heap : Heap} (es1 : List (UInt8 × Int)) : ∀ {es2 t S},
    RepE heap (es1 ++ es2) t S →
    ∃ t1 t2 S1 S2, RepE heap es1 t1 S1 ∧ RepE heap es2 t2 S2 ∧ t = tapp t1 t2 ∧ S = S1 ++ S2 := by
  induction es1 with
  | nil => intro es2 t S h; exact ⟨.nil, t, [], S, .nil, h, rfl, rfl⟩
  | cons e es1 ih =>
    intro es2 t S h
    cases h with
    | cons hv hc hc1 hr =>
      obtain ⟨t1, t2, S1, S2, h1, h2, rfl, rfl⟩ := ih hr
      exact ⟨_, t2, _, S2, .cons hv hc hc1 h1, h2, rfl, by simp [List.append_assoc]⟩

/-- what a map lookup finds: nothing (`-1`), or the first edge with that key -/
theorem RepE.lookup {heap : Heap} {es t S} (h : RepE heap es t S) (k : UInt8) :
    (mapGet es k (-1) = -1 ∧ k ∉ es.map Prod.fst) ∨
    (∃ (es1 es2 : List (UInt8 × Int)) (c : Nat), mapGet es k (-1) = (c : Int) ∧ es = es1 ++ (k, (c : Int)) :: es2 ∧
      k ∉ es1.map Prod.fst) := by
  induction h with
  | nil => exact Or.inl ⟨rfl, by simp⟩
  | @cons k' v c es' es tc tr Sc Sr hv hc _ _ _ ih =>
    rw [mapGet_cons]
    by_cases hk : k' = k
    · subst hk
      refine Or.inr ⟨[], es, c, by simp [hv], by simp [hv], by simp⟩
    · have hk' : (k' == k) = false := by simpa using hk
      rw [hk']
      rcases ih with ⟨h1, h2⟩ | ⟨es1, es2, c', h1, h2, h3⟩
      · refine Or.inl ⟨by simpa using h1, ?_⟩
        simp only [List.map_cons, List.mem_cons, not_or]
        exact ⟨Ne.symm hk, h2⟩
      · refine Or.inr ⟨(k', v) :: es1, es2, c', by simpa using h1, by simp [h2], ?_⟩
        simp only [List.map_cons, List.mem_cons, not_or]
        exact ⟨Ne.symm hk, h3⟩

/-- inversion at the edge found -/
theorem RepE.at_edge {heap : Heap} {es1 es2 : List (UInt8 × Int)} {k : UInt8} {c : Nat} {t S}
    (h : RepE heap (es1 ++ (k, (c : Int)) :: es2) t S) :
    ∃ t1 tc t2 S1 Sc S2 es', heap[c]? = some es' ∧ RepE heap es1 t1 S1 ∧ RepE heap es' tc Sc ∧
      RepE heap es2 t2 S2 ∧ t = tapp t1 (.cons k tc t2) ∧ S = S1 ++ c :: (Sc ++ S2) := by
  obtain ⟨t1, u, S1, Su, h1, hu, rfl, rfl⟩ := RepE.split es1 h
  cases hu with
  | cons hv hc hc1 hr =>
    have hcc := Int.ofNat.inj hv
    subst hcc
    exact ⟨t1, _, _, S1, _, _, _, hc, h1, hc1, hr, rfl, rfl⟩

/-! ## Fresh chains -/

/-- the cells `New` appends while `Add` spells the rest `bs` below the fresh node `n` -/
def chainHeap (n : Nat) : Bytes → Heap
  | [] => [[]]
  | k :: bs => [(k, ((n + 1 : Nat) : Int))] :: chainHeap (n + 1) bs

def chainHead (n : Nat) : Bytes → List (UInt8 × Int)
  | [] => []
  | k :: _ => [(k, ((n + 1 : Nat) : Int))]

def chainFp (n : Nat) : Bytes → List Nat
  | [] => []
  | _ :: bs => (n + 1) :: chainFp (n + 1) bs

theorem chainHeap_length (n : Nat) (bs : Bytes) : (chainHeap n bs).length = bs.length + 1 := by
  induction bs generalizing n with
  | nil => rfl
  | cons k bs ih => simp [chainHeap, ih]

theorem chainHeap_eq (n : Nat) (bs : Bytes) :
    chainHeap n bs = chainHead n bs :: (chainHeap n bs).tail := by
  cases bs <;> rfl

theorem chainFp_gt (n : Nat) (bs : Bytes) : ∀ x ∈ chainFp n bs, n < x ∧ x ≤ n + bs.length := by
  induction bs generalizing n with
  | nil => simp [chainFp]
  | cons k bs ih =>
    intro x hx
    simp only [chainFp, List.mem_cons] at hx
    rcases hx with rfl | hx
    · simp
    · have := ih (n + 1) x hx
      simp only [List.length_cons]; omega

theorem chainFp_nodup (n : Nat) (bs : Bytes) : (chainFp n bs).Nodup := by
  induction bs generalizing n with
  | nil => simp [chainFp]
  | cons k bs ih =>
    simp only [chainFp, List.nodup_cons]
    refine ⟨fun h => ?_, ih (n + 1)⟩
    have := chainFp_gt (n + 1) bs _ h
    omega

/-- the fresh cells represent `chain bs` below the node at `H.length` -/
theorem chain_rep (bs : Bytes) : ∀ (H : Heap),
    RepE (H ++ chainHeap H.length bs) (chainHead H.length bs) (chain bs) (chainFp H.length bs) := by
  induction bs with
  | nil => intro H; exact .nil
  | cons k bs ih =>
    intro H
    have h := ih (H ++ [[(k, ((H.length + 1 : Nat) : Int))]])
    simp only [List.length_append, List.length_singleton, List.append_assoc,
      List.singleton_append] at h
    have hc : (H ++ chainHeap H.length (k :: bs))[H.length + 1]? = some (chainHead (H.length + 1) bs) := by
      simp only [chainHeap]
      rw [List.getElem?_append_right (by omega)]
      rw [chainHeap_eq]
      simp
    have := RepE.cons (heap := H ++ chainHeap H.length (k :: bs)) (k := k) rfl hc h RepE.nil
    simpa [chainHead, chain, chainFp] using this

theorem chain_keysOK (bs : Bytes) (H : Heap) (x : Nat) (hx : H.length ≤ x) :
    ∀ es, (H ++ chainHeap H.length bs)[x]? = some es → (es.map Prod.fst).Nodup := by
  induction bs generalizing H x with
  | nil =>
    intro es h
    rw [List.getElem?_append_right hx] at h
    simp only [chainHeap] at h
    have : es = [] := by
      cases hh : x - H.length with
      | zero => rw [hh] at h; simpa using h.symm
      | succ m => rw [hh] at h; simp at h
    subst this; simp
  | cons k bs ih =>
    intro es h
    by_cases hx0 : x = H.length
    · subst hx0
      simp [chainHeap] at h
      subst h; simp
    · have := ih (H ++ [[(k, ((H.length + 1 : Nat) : Int))]]) x (by simp; omega) es
      simp only [List.length_append, List.length_singleton, List.append_assoc,
        List.singleton_append] at this
      exact this h

end TrieGo
end Bio.GoSrcLemmas
