/-
  The four `File` wrappers — `bed.File` (formats/bed/iter.go), `newick.File` (formats/newick/newick.go),
  `sam.File`, `sam.FileHeader` (formats/sam/iter.go) — as translated on every run from the Go SOURCE TEXT
  into `Bio.Generated.GoSrc.bed_File`, `newick_File`, `sam_File`, `sam_FileHeader`:

      f, err := aio.Open(file); if err != nil { yield(nil, err); return }
      for x, err := range Reader(f) { if !yield(x, err) { break } }

  a Go range-over-func loop whose body FORWARDS every item to the outer consumer.

  * `FileW.fwd y`: the forwarding loop body, `log ↦ log ++ [item]`, continue iff `y` says so;
    `FileW.fwdC y`: the consumer the inner iterator is run with (`SamRd.runG (fwd y) ·` answers `true`);
  * `fwd_replay` — THE generic lemma: an inner history `L` with the take-through discipline for `fwdC y`
    (the inner iterator went on only while its consumer answered `true`), replayed through the forwarding
    body, gives back `L` itself, never trips the runtime-panic test, and `y` answered `true` on every
    proper prefix of `L`;
  * `takeThroughH_fwdC`: cutting an item list by `fwdC y` is cutting it by `y`; `readsDone_fwdC`: the same
    for the `read()` calls of `newick.Reader` (hence its final heap);
  * `*_File_spec`: each translated wrapper is "one error item" when `aio.Open` fails, else the inner
    iterator run with `fwdC yield`, the panic test, the replay;
  * `*_File_raw`: with enough fuel, `File = Reader` on the opened stream.

  Guarded by the translator's `_Found` flags as in `Bio.Lemmas.GoSrc`.
-/
import Bio.Lemmas.GoSrcBedIter
import Bio.Lemmas.GoSrcSamReader
import Bio.Lemmas.GoSrcNewickIter
set_option linter.unusedVariables false
set_option linter.unusedSimpArgs false
namespace Bio.GoSrcLemmas
open Bio Bio.GoRt Bio.Generated

namespace FileW
open SamRd

/-! ## The forwarding loop body, generically -/

/-- the loop body of `File`: hand the item on, continue iff the outer consumer says so -/
def fwd {α : Type} (y : List α → Bool) (log : List α) (item : α) : List α × Bool :=
  (log ++ [item], y (log ++ [item]))

/-- the consumer the inner iterator is run with: "the loop body answered `true` on this inner history" -/
def fwdC {α : Type} (y : List α → Bool) : List α → Bool := fun l => (runG (fwd y) l).2

theorem runG_fwd_snoc {α : Type} (y : List α → Bool) (l : List α) (x : α)
    (hl : runG (fwd y) l = (l, true)) : runG (fwd y) (l ++ [x]) = (l ++ [x], y (l ++ [x])) := by
  rw [runG_concat, hl]; rfl

/-- as long as the body answers `true`, the outer log IS the inner history -/
theorem runG_fwd_true {α : Type} (y : List α → Bool) (l : List α) :
    (runG (fwd y) l).2 = true → runG (fwd y) l = (l, true) := by
  rw [← List.reverse_reverse l]
  generalize l.reverse = r
  induction r with
  | nil => intro _; rfl
  | cons x r ih =>
    rw [List.reverse_cons]
    generalize r.reverse = l at ih ⊢
    intro h2
    by_cases hl : (runG (fwd y) l).2 = true
    · have h3 := runG_fwd_snoc y l x (ih hl)
      rw [h3] at h2 ⊢
      simp only at h2
      rw [h2]
    · rw [runG_concat, if_neg hl] at h2; exact absurd h2 hl

/-- THE GENERIC LEMMA.  Let `L` be an inner history with the take-through discipline for the consumer
`fwdC y = fun h => (run h).2`: the consumer answered `true` on every proper (non-empty) prefix of `L` —
the inner iterator went on only while it was told to.  Then
* the runtime-panic test `!(run L.dropLast).2` fails,
* the replay gives back `L` itself: `(run L).1 = L`,
* the OUTER consumer `y` answered `true` on every proper non-empty prefix of `L`, and the body's answer
  on `L` is `y`'s. -/
theorem fwd_replay {α : Type} (y : List α → Bool) (L : List α)
    (hgo : ∀ j, j + 1 < L.length → fwdC y (L.take (j + 1)) = true) :
    (runG (fwd y) L.dropLast).2 = true
    ∧ (runG (fwd y) L).1 = L
    ∧ (∀ j, j + 1 < L.length → y (L.take (j + 1)) = true)
    ∧ (L ≠ [] → fwdC y L = y L) := by
  have h1 : (runG (fwd y) L.dropLast).2 = true := runG_dropLast_of_go_on (fwd y) L hgo
  have h2 := runG_fwd_true y _ h1
  have h3 : L ≠ [] → runG (fwd y) L = (L, y L) := by
    intro hne
    have hL : L = L.dropLast ++ [L.getLast hne] := (List.dropLast_concat_getLast hne).symm
    have := runG_fwd_snoc y _ (L.getLast hne) h2
    rw [← hL] at this
    exact this
  refine ⟨h1, ?_, ?_, ?_⟩
  · by_cases hne : L = []
    · subst hne; rfl
    · rw [h3 hne]
  · intro j hj
    have hg := runG_fwd_true y _ (hgo j hj)
    have hlen : (L.take (j + 1)).length = j + 1 := by rw [List.length_take]; omega
    have hne : L.take (j + 1) ≠ [] := by intro hh; rw [hh] at hlen; cases hlen
    have hd : (runG (fwd y) (L.take (j + 1)).dropLast).2 = true := by
      have : (L.take (j + 1)).dropLast = L.take j := by
        rw [List.dropLast_eq_take, hlen, List.take_take]; congr 1; omega
      rw [this]
      cases j with
      | zero => rfl
      | succ i => exact hgo i (by omega)
    have hs := runG_fwd_snoc y _ ((L.take (j + 1)).getLast hne) (runG_fwd_true y _ hd)
    rw [List.dropLast_concat_getLast hne, hg] at hs
    exact (congrArg Prod.snd hs).symm
  · intro hne
    show (runG (fwd y) L).2 = y L
    rw [h3 hne]

/-- cutting an item list by the loop body's answers is cutting it by the outer consumer -/
theorem takeThroughH_fwdC_acc {α : Type} (y : List α → Bool) (xs : List α) : ∀ acc : List α,
    runG (fwd y) acc = (acc, true) → takeThroughH (fwdC y) acc xs = takeThroughH y acc xs := by
  induction xs with
  | nil => intro acc _; rfl
  | cons x xs ih =>
    intro acc hacc
    have hs := runG_fwd_snoc y acc x hacc
    have hc : fwdC y (acc ++ [x]) = y (acc ++ [x]) := by show (runG (fwd y) (acc ++ [x])).2 = _; rw [hs]
    rw [takeThroughH_cons, takeThroughH_cons, hc]
    by_cases hy : y (acc ++ [x]) = true
    · rw [if_pos hy, if_pos hy]; exact ih _ (by rw [hs, hy])
    · rw [if_neg hy, if_neg hy]

theorem takeThroughH_fwdC {α : Type} (y : List α → Bool) (xs : List α) :
    takeThroughH (fwdC y) [] xs = takeThroughH y [] xs :=
  takeThroughH_fwdC_acc y xs [] rfl

/-- an inner log of the form `takeThroughH (fwdC y) [] xs` (what every translated inner iterator returns
with enough fuel): the panic test fails and the replay is `takeThroughH y [] xs` -/
theorem fwd_replay_takeThroughH {α : Type} (y : List α → Bool) (xs : List α) :
    (runG (fwd y) (takeThroughH (fwdC y) [] xs).dropLast).2 = true
    ∧ (runG (fwd y) (takeThroughH (fwdC y) [] xs)).1 = takeThroughH y [] xs := by
  have h := fwd_replay y (takeThroughH (fwdC y) [] xs) (fun j hj => takeThroughH_go_on _ xs j hj)
  refine ⟨h.1, ?_⟩
  rw [h.2.1, takeThroughH_fwdC]

/-- the outcome of the translated wrapper once `aio.Open` succeeded: run the inner iterator with the loop
body as its consumer, panic if the inner history shows a call after the body answered `false`, else
return the replayed log -/
def after {α : Type} (y : List α → Bool) (inner : Option (List α)) : Option (List α) :=
  inner.bind fun L => if (runG (fwd y) L.dropLast).2 = true then some (runG (fwd y) L).1 else none

theorem after_takeThroughH {α : Type} (y : List α → Bool) (xs : List α) :
    after y (some (takeThroughH (fwdC y) [] xs)) = some (takeThroughH y [] xs) := by
  have h := fwd_replay_takeThroughH y xs
  simp only [after, Option.bind_some, if_pos h.1, h.2]

/-- the translated loop body (the same text in the four wrappers, up to the variable's name) -/
theorem step_eq {α β : Type} (yield : List (α × β) → Bool) (log : List (α × β)) (item : α × β) :
    (Id.run do
      let mut log := log
      let b := item.1
      let err := item.2
      log := log ++ [(b, err)]
      if !(yield log) then
        return (log, false)
      return (log, true)) = fwd yield log item := by
  obtain ⟨a, b⟩ := item
  cases hy : yield (log ++ [(a, b)]) <;> simp [fwd, hy]

/-! ## The translated wrappers -/

theorem bed_File_spec (hFl : GoSrc.bed_File_Found = true)
    (o : Bytes → BufRd × GoErr) (f : Bytes → Int × GoErr) (g : Bytes → Int → Int → Int × GoErr)
    (fuel : Nat) (file : Bytes) (yield : List BedIt.GoItem → Bool) :
    GoSrc.bed_File o f g fuel file yield
      = if (o file).2 ≠ GoErr.nil then some [(none, (o file).2)]
        else after yield (GoSrc.bed_Reader f g fuel (o file).1 (fwdC yield)) := by
  first
  | exact absurd hFl (by decide)
  | (unfold GoSrc.bed_File
     simp only [FileW.step_eq]
     by_cases he : (o file).2 = GoErr.nil
     · rw [if_neg (by simpa using he), if_neg (by simpa using he)]
       show Option.bind _ _ = Option.bind _ _
       congr 1
       funext inner
       show (if (!(runG (fwd yield) inner.dropLast).2) = true then _ else _) = _
       cases (runG (fwd yield) inner.dropLast).2 <;> rfl
     · rw [if_pos (by simpa using he), if_pos he]
       rfl)

theorem bed_File_raw (hFl : GoSrc.bed_File_Found = true) (hR : GoSrc.bed_Reader_Found = true)
    (hF : GoSrc.bed_read_Found = true) (hP : GoSrc.parseLine_Found = true)
    (o : Bytes → BufRd × GoErr) (f : Bytes → Int × GoErr) (g : Bytes → Int → Int → Int × GoErr)
    (fuel : Nat) (file : Bytes) (yield : List BedIt.GoItem → Bool) (ho : (o file).2 = GoErr.nil)
    (hfuel : (textLines (o file).1.ending (o file).1.rest).length + 1 ≤ fuel) :
    GoSrc.bed_File o f g fuel file yield = GoSrc.bed_Reader f g fuel (o file).1 yield := by
  rw [bed_File_spec hFl, if_neg (by simpa using ho)]
  generalize (o file).1 = r at hfuel ⊢
  obtain ⟨x, e⟩ := r
  rw [BedIt.bed_Reader_raw hR hF hP f g fuel x e _ hfuel, BedIt.bed_Reader_raw hR hF hP f g fuel x e _ hfuel,
    after_takeThroughH]

/-! ### sam -/

theorem sam_File_spec (hFl : GoSrc.sam_File_Found = true)
    (h : Bytes → Bytes × GoErr) (o : Bytes → BufRd × GoErr) (f : Bytes → Int × GoErr)
    (g : Bytes → Int → Bytes × GoErr) (fuel : Nat) (file : Bytes) (yield : List OItem → Bool) :
    GoSrc.sam_File h o f g fuel file yield
      = if (o file).2 ≠ GoErr.nil then some [(none, (o file).2)]
        else after yield (GoSrc.sam_Reader h f g fuel (o file).1 (fwdC yield)) := by
  first
  | exact absurd hFl (by decide)
  | (unfold GoSrc.sam_File
     simp only [FileW.step_eq]
     by_cases he : (o file).2 = GoErr.nil
     · rw [if_neg (by simpa using he), if_neg (by simpa using he)]
       show Option.bind _ _ = Option.bind _ _
       congr 1
       funext inner
       show (if (!(runG (fwd yield) inner.dropLast).2) = true then _ else _) = _
       cases (runG (fwd yield) inner.dropLast).2 <;> rfl
     · rw [if_pos (by simpa using he), if_pos he]
       rfl)

theorem sam_File_raw (hFl : GoSrc.sam_File_Found = true) (hRd : GoSrc.sam_Reader_Found = true)
    (hR : GoSrc.sam_ReaderHeader_Found = true)
    (hF : GoSrc.sam_parseLine_Found = true) (hI : GoSrc.parseInts_Found = true)
    (hT : GoSrc.parseTags_Found = true) (hS : GoSrc.splitTag_Found = true)
    (h : Bytes → Bytes × GoErr) (o : Bytes → BufRd × GoErr) (f : Bytes → Int × GoErr)
    (g : Bytes → Int → Bytes × GoErr) (fuel : Nat) (file : Bytes) (yield : List OItem → Bool)
    (ho : (o file).2 = GoErr.nil)
    (hfuel : (textLines (o file).1.ending (o file).1.rest).length + 1 ≤ fuel) :
    GoSrc.sam_File h o f g fuel file yield = GoSrc.sam_Reader h f g fuel (o file).1 yield := by
  rw [sam_File_spec hFl, if_neg (by simpa using ho)]
  generalize (o file).1 = r at hfuel ⊢
  obtain ⟨x, e⟩ := r
  rw [sam_Reader_raw hRd hR hF hI hT hS h f g fuel x e _ hfuel,
    sam_Reader_raw hRd hR hF hI hT hS h f g fuel x e _ hfuel, after_takeThroughH]

theorem sam_FileHeader_spec (hFl : GoSrc.sam_FileHeader_Found = true)
    (h : Bytes → Bytes × GoErr) (o : Bytes → BufRd × GoErr) (f : Bytes → Int × GoErr)
    (g : Bytes → Int → Bytes × GoErr) (fuel : Nat) (file : Bytes) (yield : List SamIt.GoItem → Bool) :
    GoSrc.sam_FileHeader h o f g fuel file yield
      = if (o file).2 ≠ GoErr.nil then some [((none, none), (o file).2)]
        else after yield (GoSrc.sam_ReaderHeader h f g fuel (o file).1 (fwdC yield)) := by
  first
  | exact absurd hFl (by decide)
  | (unfold GoSrc.sam_FileHeader
     simp only [FileW.step_eq]
     by_cases he : (o file).2 = GoErr.nil
     · rw [if_neg (by simpa using he), if_neg (by simpa using he)]
       show Option.bind _ _ = Option.bind _ _
       congr 1
       funext inner
       show (if (!(runG (fwd yield) inner.dropLast).2) = true then _ else _) = _
       cases (runG (fwd yield) inner.dropLast).2 <;> rfl
     · rw [if_pos (by simpa using he), if_pos he]
       rfl)

theorem sam_FileHeader_raw (hFl : GoSrc.sam_FileHeader_Found = true)
    (hR : GoSrc.sam_ReaderHeader_Found = true)
    (hF : GoSrc.sam_parseLine_Found = true) (hI : GoSrc.parseInts_Found = true)
    (hT : GoSrc.parseTags_Found = true) (hS : GoSrc.splitTag_Found = true)
    (h : Bytes → Bytes × GoErr) (o : Bytes → BufRd × GoErr) (f : Bytes → Int × GoErr)
    (g : Bytes → Int → Bytes × GoErr) (fuel : Nat) (file : Bytes) (yield : List SamIt.GoItem → Bool)
    (ho : (o file).2 = GoErr.nil)
    (hfuel : (textLines (o file).1.ending (o file).1.rest).length + 1 ≤ fuel) :
    GoSrc.sam_FileHeader h o f g fuel file yield = GoSrc.sam_ReaderHeader h f g fuel (o file).1 yield := by
  rw [sam_FileHeader_spec hFl, if_neg (by simpa using ho)]
  generalize (o file).1 = r at hfuel ⊢
  obtain ⟨x, e⟩ := r
  rw [SamIt.sam_ReaderHeader_raw hR hF hI hT hS h f g fuel x e _ hfuel,
    SamIt.sam_ReaderHeader_raw hR hF hI hT hS h f g fuel x e _ hfuel, after_takeThroughH]

/-- `FileHeader` for ANY fuel and reader: whenever the inner `ReaderHeader` (run with the loop body as its
consumer) returns a history, the runtime-panic test fails and `FileHeader` returns that very history
(`fwd_replay` on the take-through discipline `rhSpec_go_on` of `ReaderHeader`) -/
theorem sam_FileHeader_some (hFl : GoSrc.sam_FileHeader_Found = true)
    (hR : GoSrc.sam_ReaderHeader_Found = true)
    (hF : GoSrc.sam_parseLine_Found = true) (hI : GoSrc.parseInts_Found = true)
    (hT : GoSrc.parseTags_Found = true) (hS : GoSrc.splitTag_Found = true)
    (h : Bytes → Bytes × GoErr) (o : Bytes → BufRd × GoErr) (f : Bytes → Int × GoErr)
    (g : Bytes → Int → Bytes × GoErr) (fuel : Nat) (file : Bytes) (yield : List SamIt.GoItem → Bool)
    (ho : (o file).2 = GoErr.nil) (inner : List SamIt.GoItem)
    (hin : GoSrc.sam_ReaderHeader h f g fuel (o file).1 (fwdC yield) = some inner) :
    (runG (fwd yield) inner.dropLast).2 = true
    ∧ GoSrc.sam_FileHeader h o f g fuel file yield = some inner := by
  have hgo : ∀ j, j + 1 < inner.length → fwdC yield (inner.take (j + 1)) = true := by
    rw [SamIt.sam_ReaderHeader_spec hR hF hI hT hS] at hin
    obtain ⟨t, rfl, ht⟩ := rhSpec_go_on _ _ _ _ _ _ hin
    intro j hj
    have := ht j (by simpa using hj)
    simpa using this
  have hr := fwd_replay yield inner hgo
  refine ⟨hr.1, ?_⟩
  rw [sam_FileHeader_spec hFl, if_neg (by simpa using ho), hin]
  simp only [after, Option.bind_some, if_pos hr.1, hr.2.1]

/-! ### newick: the heap is threaded through -/

/-- the calls `newick.Reader` makes under the loop body are the calls it makes under the outer consumer -/
theorem readsDone_fwdC (y : List NwkIt.GoItem → Bool) : ∀ (R : List NwkRd.Res) (log : List NwkIt.GoItem),
    runG (fwd y) log = (log, true) → NwkIt.readsDone (fwdC y) log R = NwkIt.readsDone y log R := by
  intro R
  induction R with
  | nil => intro log _; rfl
  | cons res rs ih =>
    intro log hlog
    have hs := runG_fwd_snoc y log (res.1, GoErr.nil) hlog
    have hc : fwdC y (log ++ [(res.1, GoErr.nil)]) = y (log ++ [(res.1, GoErr.nil)]) := by
      show (runG (fwd y) (log ++ [(res.1, GoErr.nil)])).2 = _; rw [hs]
    simp only [NwkIt.readsDone, hc]
    split
    · rename_i hh
      rw [ih _ (by rw [hs, hh.2])]
    · rfl

/-- the outcome of the translated `newick.File` once `aio.Open` succeeded -/
def afterH {α H : Type} (y : List α → Bool) (inner : Option (List α × H)) : Option (List α × H) :=
  inner.bind fun p =>
    if (runG (fwd y) p.1.dropLast).2 = true then some ((runG (fwd y) p.1).1, p.2) else none

theorem newick_File_spec (hFl : GoSrc.newick_File_Found = true)
    (o : Bytes → ByteRd × GoErr) (pf : NwkRd.PF) (fuel : Nat) (heap : NwkRd.Heap) (file : Bytes)
    (yield : List NwkIt.GoItem → Bool) :
    GoSrc.newick_File o pf fuel heap file yield
      = if (o file).2 ≠ GoErr.nil then some ([(-1, (o file).2)], heap)
        else afterH yield (GoSrc.newick_Reader pf fuel heap (o file).1 (fwdC yield)) := by
  first
  | exact absurd hFl (by decide)
  | (unfold GoSrc.newick_File
     simp only [FileW.step_eq]
     by_cases he : (o file).2 = GoErr.nil
     · rw [if_neg (by simpa using he), if_neg (by simpa using he)]
       show Option.bind _ _ = Option.bind _ _
       congr 1
       funext inner
       show (if (!(runG (fwd yield) inner.1.dropLast).2) = true then _ else _) = _
       cases (runG (fwd yield) inner.1.dropLast).2 <;> rfl
     · rw [if_pos (by simpa using he), if_pos he]
       rfl)

theorem newick_File_raw (hFl : GoSrc.newick_File_Found = true)
    (hF : GoSrc.newick_Reader_Found = true) (hR : GoSrc.newick_read_Found = true)
    (hT : GoSrc.newick_nextToken_Found = true) (hN : GoSrc.nameFromText_Found = true)
    (hQ : GoSrc.quoted_Found = true)
    (o : Bytes → ByteRd × GoErr) (pf : NwkRd.PF) (fuel : Nat) (heap : NwkRd.Heap) (file : Bytes)
    (yield : List NwkIt.GoItem → Bool) (ho : (o file).2 = GoErr.nil)
    (hfuel : (o file).1.rest.length + 1 ≤ fuel) :
    GoSrc.newick_File o pf fuel heap file yield = GoSrc.newick_Reader pf fuel heap (o file).1 yield := by
  rw [newick_File_spec hFl, if_neg (by simpa using ho)]
  rw [(NwkIt.newick_Reader_raw hF hR hT hN hQ pf fuel heap _ (fwdC yield) hfuel).2.2.1,
    (NwkIt.newick_Reader_raw hF hR hT hN hQ pf fuel heap _ yield hfuel).2.2.1,
    readsDone_fwdC yield _ [] rfl]
  have h := fwd_replay_takeThroughH yield (NwkIt.goItems pf fuel heap (o file).1)
  simp only [afterH, Option.bind_some, if_pos h.1, h.2]

/-! ## One item list, cut by the consumer -/

/-- everything `takeThroughH` says about early stops, in one place (`L` the log under `y`, `xs` the log
of the consumer that never stops) -/
theorem takeThroughH_early_stop {α : Type} (y : List α → Bool) (xs : List α) :
    takeThroughH (fun _ => true) [] xs = xs
    ∧ takeThroughH y [] xs <+: xs
    ∧ (∀ i, i + 1 < (takeThroughH y [] xs).length → y ((takeThroughH y [] xs).take (i + 1)) = true)
    ∧ (∀ i, i < (takeThroughH y [] xs).length → y ((takeThroughH y [] xs).take (i + 1)) = false →
        i + 1 = (takeThroughH y [] xs).length)
    ∧ (∀ k, k < xs.length → (∀ j, j < k → y (xs.take (j + 1)) = true) → y (xs.take (k + 1)) = false →
        takeThroughH y [] xs = xs.take (k + 1) ∧ (takeThroughH y [] xs).length = k + 1)
    ∧ ((∀ j, j + 1 < xs.length → y (xs.take (j + 1)) = true) → takeThroughH y [] xs = xs)
    ∧ (∀ k, 1 ≤ k → takeThroughH (fun l => decide (l.length < k)) [] xs = xs.take k) := by
  refine ⟨by rw [IterH.takeThroughH_true]; rfl, takeThroughH_prefix _ _, takeThroughH_go_on _ _,
    takeThroughH_stop _ _, ?_, ?_, fun k hk => BedIt.takeThroughH_count xs k hk⟩
  · intro k hk ht hf
    have := BedIt.takeThroughH_first_false y xs [] k hk (by simpa using ht) (by simpa using hf)
    rw [this]
    refine ⟨by simp, ?_⟩
    simp only [List.nil_append, List.length_take]; omega
  · intro ht
    have := BedIt.takeThroughH_all_true y xs [] (by simpa using ht)
    simpa using this

/-- the items `bed.File` hands over when nobody stops it -/
def bedFileItems (o : Bytes → BufRd × GoErr) (f : Bytes → Int × GoErr) (g : Bytes → Int → Int → Int × GoErr)
    (file : Bytes) : List BedIt.GoItem :=
  if (o file).2 = GoErr.nil then (BedIt.goBedItems f g (o file).1.ending (o file).1.rest).map BedIt.goItem
  else [(none, (o file).2)]

theorem bed_File_log (hFl : GoSrc.bed_File_Found = true) (hR : GoSrc.bed_Reader_Found = true)
    (hF : GoSrc.bed_read_Found = true) (hP : GoSrc.parseLine_Found = true)
    (o : Bytes → BufRd × GoErr) (f : Bytes → Int × GoErr) (g : Bytes → Int → Int → Int × GoErr)
    (fuel : Nat) (file : Bytes) (yield : List BedIt.GoItem → Bool)
    (hfuel : (o file).2 = GoErr.nil → (textLines (o file).1.ending (o file).1.rest).length + 1 ≤ fuel) :
    GoSrc.bed_File o f g fuel file yield = some (takeThroughH yield [] (bedFileItems o f g file)) := by
  by_cases ho : (o file).2 = GoErr.nil
  · rw [bed_File_raw hFl hR hF hP o f g fuel file yield ho (hfuel ho), bedFileItems, if_pos ho]
    exact BedIt.bed_Reader_raw hR hF hP f g fuel _ _ yield (hfuel ho)
  · rw [bed_File_spec hFl, if_pos ho, bedFileItems, if_neg ho, takeThroughH_singleton]; rfl

/-- the items `sam.File` hands over when nobody stops it -/
def samFileItems (h : Bytes → Bytes × GoErr) (o : Bytes → BufRd × GoErr) (f : Bytes → Int × GoErr)
    (g : Bytes → Int → Bytes × GoErr) (file : Bytes) : List OItem :=
  if (o file).2 = GoErr.nil then outItems (SamP.lineSpec h f g) (o file).1.ending (o file).1.rest
  else [(none, (o file).2)]

theorem sam_File_log (hFl : GoSrc.sam_File_Found = true) (hRd : GoSrc.sam_Reader_Found = true)
    (hR : GoSrc.sam_ReaderHeader_Found = true)
    (hF : GoSrc.sam_parseLine_Found = true) (hI : GoSrc.parseInts_Found = true)
    (hT : GoSrc.parseTags_Found = true) (hS : GoSrc.splitTag_Found = true)
    (h : Bytes → Bytes × GoErr) (o : Bytes → BufRd × GoErr) (f : Bytes → Int × GoErr)
    (g : Bytes → Int → Bytes × GoErr) (fuel : Nat) (file : Bytes) (yield : List OItem → Bool)
    (hfuel : (o file).2 = GoErr.nil → (textLines (o file).1.ending (o file).1.rest).length + 1 ≤ fuel) :
    GoSrc.sam_File h o f g fuel file yield = some (takeThroughH yield [] (samFileItems h o f g file)) := by
  by_cases ho : (o file).2 = GoErr.nil
  · rw [sam_File_raw hFl hRd hR hF hI hT hS h o f g fuel file yield ho (hfuel ho), samFileItems, if_pos ho]
    exact sam_Reader_raw hRd hR hF hI hT hS h f g fuel _ _ yield (hfuel ho)
  · rw [sam_File_spec hFl, if_pos ho, samFileItems, if_neg ho, takeThroughH_singleton]; rfl

/-- the items `sam.FileHeader` hands over when nobody stops it -/
def samFileHeaderItems (h : Bytes → Bytes × GoErr) (o : Bytes → BufRd × GoErr) (f : Bytes → Int × GoErr)
    (g : Bytes → Int → Bytes × GoErr) (file : Bytes) : List SamIt.GoItem :=
  if (o file).2 = GoErr.nil then SamIt.goItems (SamP.lineSpec h f g) (o file).1.ending (o file).1.rest
  else [((none, none), (o file).2)]

theorem sam_FileHeader_log (hFl : GoSrc.sam_FileHeader_Found = true)
    (hR : GoSrc.sam_ReaderHeader_Found = true)
    (hF : GoSrc.sam_parseLine_Found = true) (hI : GoSrc.parseInts_Found = true)
    (hT : GoSrc.parseTags_Found = true) (hS : GoSrc.splitTag_Found = true)
    (h : Bytes → Bytes × GoErr) (o : Bytes → BufRd × GoErr) (f : Bytes → Int × GoErr)
    (g : Bytes → Int → Bytes × GoErr) (fuel : Nat) (file : Bytes) (yield : List SamIt.GoItem → Bool)
    (hfuel : (o file).2 = GoErr.nil → (textLines (o file).1.ending (o file).1.rest).length + 1 ≤ fuel) :
    GoSrc.sam_FileHeader h o f g fuel file yield
      = some (takeThroughH yield [] (samFileHeaderItems h o f g file)) := by
  by_cases ho : (o file).2 = GoErr.nil
  · rw [sam_FileHeader_raw hFl hR hF hI hT hS h o f g fuel file yield ho (hfuel ho), samFileHeaderItems,
      if_pos ho]
    exact SamIt.sam_ReaderHeader_raw hR hF hI hT hS h f g fuel _ _ yield (hfuel ho)
  · rw [sam_FileHeader_spec hFl, if_pos ho, samFileHeaderItems, if_neg ho, takeThroughH_singleton]; rfl

/-- the items `newick.File` hands over when nobody stops it -/
def newickFileItems (o : Bytes → ByteRd × GoErr) (pf : NwkRd.PF) (fuel : Nat) (heap : NwkRd.Heap)
    (file : Bytes) : List NwkIt.GoItem :=
  if (o file).2 = GoErr.nil then NwkIt.goItems pf fuel heap (o file).1 else [(-1, (o file).2)]

/-- the heap `newick.File` hands back: untouched when `aio.Open` fails, else the heap after the `read()`
calls `Reader` made under the consumer -/
def newickFileHeap (o : Bytes → ByteRd × GoErr) (pf : NwkRd.PF) (fuel : Nat) (heap : NwkRd.Heap)
    (file : Bytes) (yield : List NwkIt.GoItem → Bool) : NwkRd.Heap :=
  if (o file).2 = GoErr.nil then
    NwkIt.lastHeap heap (NwkIt.readsDone yield [] (NwkIt.reads pf fuel heap (o file).1))
  else heap

theorem newick_File_log (hFl : GoSrc.newick_File_Found = true)
    (hF : GoSrc.newick_Reader_Found = true) (hR : GoSrc.newick_read_Found = true)
    (hT : GoSrc.newick_nextToken_Found = true) (hN : GoSrc.nameFromText_Found = true)
    (hQ : GoSrc.quoted_Found = true)
    (o : Bytes → ByteRd × GoErr) (pf : NwkRd.PF) (fuel : Nat) (heap : NwkRd.Heap) (file : Bytes)
    (yield : List NwkIt.GoItem → Bool)
    (hfuel : (o file).2 = GoErr.nil → (o file).1.rest.length + 1 ≤ fuel) :
    GoSrc.newick_File o pf fuel heap file yield
      = some (takeThroughH yield [] (newickFileItems o pf fuel heap file),
          newickFileHeap o pf fuel heap file yield) := by
  by_cases ho : (o file).2 = GoErr.nil
  · rw [newick_File_raw hFl hF hR hT hN hQ o pf fuel heap file yield ho (hfuel ho), newickFileItems, if_pos ho,
      newickFileHeap, if_pos ho]
    exact (NwkIt.newick_Reader_raw hF hR hT hN hQ pf fuel heap _ yield (hfuel ho)).2.2.1
  · rw [newick_File_spec hFl, if_pos ho, newickFileItems, if_neg ho, newickFileHeap, if_neg ho,
      takeThroughH_singleton]; rfl

/-- both layers at once, for an inner iterator that obeys the take-through law: its history under the
loop body passes the runtime-panic test, is replayed to itself, and is the item list cut by the OUTER
consumer -/
theorem after_layers {α : Type} (y : List α → Bool) (xs : List α) :
    (runG (fwd y) (takeThroughH (fwdC y) [] xs).dropLast).2 = true
    ∧ (runG (fwd y) (takeThroughH (fwdC y) [] xs)).1 = takeThroughH (fwdC y) [] xs
    ∧ takeThroughH (fwdC y) [] xs = takeThroughH y [] xs := by
  have h := fwd_replay y (takeThroughH (fwdC y) [] xs) (fun j hj => takeThroughH_go_on _ xs j hj)
  exact ⟨h.1, h.2.1, takeThroughH_fwdC y xs⟩

end FileW
end Bio.GoSrcLemmas
