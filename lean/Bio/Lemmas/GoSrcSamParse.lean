/-
  The SAM line parser of formats/sam (`splitTag`, `parseTags`, `parseInts`, `parseLine`), as translated
  on every run from the Go SOURCE TEXT into `Bio.Generated.GoSrc`, against the hand-written model
  `Bio.Sam`: the statements about the translated functions themselves, under the hypotheses
  `AtoiModel f`, `PFModel g pf`, `HexModel h` about `strconv.Atoi`, `strconv.ParseFloat`,
  `hex.DecodeString` (parts 1 and 2 do the work: `Bio.Lemmas.GoSrcSamParse1`, `…2`).

  Guarded by the translator's `_Found` flags as in `Bio.Lemmas.GoSrc`.
-/
import Bio.Lemmas.GoSrcSamParse2
set_option linter.unusedVariables false
namespace Bio.GoSrcLemmas
open Bio Bio.GoRt Bio.Generated
namespace SamP
open BedRd (reqA AtoiModel)

/-- the translated `parseTags` under the three hypotheses IS the insertion-order parser at the model's
value parsers -/
theorem parseTags_insertion (hT : GoSrc.parseTags_Found = true) (hS : GoSrc.splitTag_Found = true)
    {h f g pf} (hf : AtoiModel f) (hg : PFModel g pf) (hh : HexModel h) (values : List Bytes) :
    GoSrc.parseTags h f g values = some (tagsRes (tagsSpec atoi pf hexDec values [])) := by
  rw [parseTags_eq hT hS, tagsSpec_of_models hf hg hh]

/-- the translated `parseTags` against the model's `parseTags` -/
theorem parseTags_model (hT : GoSrc.parseTags_Found = true) (hS : GoSrc.splitTag_Found = true)
    {h f g pf} (hf : AtoiModel f) (hg : PFModel g pf) (hh : HexModel h) (values : List Bytes) :
    match Sam.parseTags pf values [] with
    | none => GoSrc.parseTags h f g values = some ([], GoErr.other)
    | some m => ∃ r, GoSrc.parseTags h f g values = some (r, GoErr.nil) ∧ SameMap r m ∧ Sam.SortedTags m := by
  rw [parseTags_insertion hT hS hf hg hh]
  have ht := tagsSpec_model_nil pf values
  cases hm : Sam.parseTags pf values [] with
  | none => rw [hm] at ht; simp only at ht ⊢; rw [ht]; rfl
  | some m =>
    rw [hm] at ht
    obtain ⟨r, hr, hp, hs⟩ := ht
    exact ⟨r, by rw [hr]; rfl, sameMap_of_perm_sorted hp hs, hs⟩

/-- the translated `parseLine` against the model's `parseLine` -/
theorem sam_parseLine_model (hF : GoSrc.sam_parseLine_Found = true) (hI : GoSrc.parseInts_Found = true)
    (hT : GoSrc.parseTags_Found = true) (hS : GoSrc.splitTag_Found = true)
    {h f g pf} (hf : AtoiModel f) (hg : PFModel g pf) (hh : HexModel h) (line : List Bytes) :
    match Sam.parseLine pf line with
    | some s => ∃ r, GoSrc.sam_parseLine h f g line = some (some (tupleOf s r), GoErr.nil)
        ∧ SameMap r s.tags ∧ Sam.SortedTags s.tags
    | none => ∃ e, e ≠ GoErr.nil ∧ GoSrc.sam_parseLine h f g line = some (none, e) := by
  rw [sam_parseLine_eq hF hI hT hS]
  have hl := lineSpec_model hf hg hh line
  cases hm : Sam.parseLine pf line with
  | none =>
    rw [hm] at hl
    obtain ⟨e, he, hq⟩ := hl
    exact ⟨e, he, by rw [hq]⟩
  | some s =>
    rw [hm] at hl
    obtain ⟨r, hq, hp, hs⟩ := hl
    exact ⟨r, by rw [hq], sameMap_of_perm_sorted hp hs, hs⟩

/-- a model verdict `none` is an error of the translated `parseLine` -/
theorem sam_parseLine_none (hF : GoSrc.sam_parseLine_Found = true) (hI : GoSrc.parseInts_Found = true)
    (hT : GoSrc.parseTags_Found = true) (hS : GoSrc.splitTag_Found = true)
    {h f g pf} (hf : AtoiModel f) (hg : PFModel g pf) (hh : HexModel h) (line : List Bytes)
    (hm : Sam.parseLine pf line = none) :
    ∃ e, e ≠ GoErr.nil ∧ GoSrc.sam_parseLine h f g line = some (none, e) := by
  have := sam_parseLine_model hF hI hT hS hf hg hh line
  rw [hm] at this
  exact this

/-- fewer than eleven fields, arbitrary parameters -/
theorem sam_parseLine_too_few (hF : GoSrc.sam_parseLine_Found = true) (hI : GoSrc.parseInts_Found = true)
    (hT : GoSrc.parseTags_Found = true) (hS : GoSrc.splitTag_Found = true)
    (h : Bytes → Bytes × GoErr) (f : Bytes → Int × GoErr) (g : Bytes → Int → Bytes × GoErr) (line : List Bytes)
    (hn : line.length < 11) : GoSrc.sam_parseLine h f g line = some (none, GoErr.other) := by
  rw [sam_parseLine_eq hF hI hT hS]
  unfold lineSpec
  split
  · simp at hn; omega
  · rfl

/-! ## Errors that need less than the three hypotheses -/

theorem intsSpec_err_of_mem {f} (hf : AtoiModel f) (strs : List Bytes) (p : List Int)
    (hl : strs.length = p.length) (hb : ∃ s ∈ strs, atoi s = none) : (intsSpec f strs p).1 ≠ GoErr.nil := by
  induction strs generalizing p with
  | nil => obtain ⟨s, hs, _⟩ := hb; simp at hs
  | cons s0 strs ih =>
    cases p with
    | nil => simp at hl
    | cons x p =>
      unfold intsSpec
      by_cases he : (f s0).2 = GoErr.nil
      · rw [if_pos he]
        apply ih p (by simpa using hl)
        obtain ⟨s, hs, hbad⟩ := hb
        rcases List.mem_cons.1 hs with rfl | hm
        · exact absurd he (hf.bad _ hbad)
        · exact ⟨s, hm, hbad⟩
      · rw [if_neg he]; exact he

/-- a bad integer field: only `AtoiModel` is needed (the integers are parsed before the tags) -/
theorem lineSpec_bad_int {f} (hf : AtoiModel f) (h : Bytes → Bytes × GoErr) (g : Bytes → Int → Bytes × GoErr)
    (line : List Bytes) (hb : ∃ i ∈ [1, 3, 4, 7, 8], ∃ s, line[i]? = some s ∧ atoi s = none) :
    ∃ e, e ≠ GoErr.nil ∧ lineSpec h f g line = (none, e) := by
  by_cases hn : line.length < 11
  · refine ⟨GoErr.other, by decide, ?_⟩
    unfold lineSpec
    split
    · simp at hn; omega
    · rfl
  · rcases line with _ | ⟨qn, _ | ⟨fl, _ | ⟨rn, _ | ⟨po, _ | ⟨mq, _ | ⟨cg, _ | ⟨rx, _ | ⟨pn, _ | ⟨tl, _ | ⟨sq, _ | ⟨ql, tagFields⟩⟩⟩⟩⟩⟩⟩⟩⟩⟩⟩ <;>
      try (simp at hn; done)
    have herr : (intsSpec f [fl, po, mq, pn, tl] [0, 0, 0, 0, 0]).1 ≠ GoErr.nil := by
      apply intsSpec_err_of_mem hf _ _ rfl
      obtain ⟨i, hi, s, hs, hbad⟩ := hb
      refine ⟨s, ?_, hbad⟩
      simp only [List.mem_cons, List.not_mem_nil, or_false] at hi
      rcases hi with rfl | rfl | rfl | rfl | rfl <;> simp at hs <;> subst hs <;> simp
    unfold lineSpec
    simp only
    rw [if_pos herr]
    exact ⟨_, herr, rfl⟩

theorem tagsSpec_none_of_mem (A : Bytes → Option Int) (P H : Bytes → Option Bytes) {fld : Bytes} {vs : List Bytes}
    (hm : fld ∈ vs) (hs : ∀ acc, tagStep A P H fld acc = none) (acc : Sam.Tags) :
    tagsSpec A P H vs acc = none := by
  induction vs generalizing acc with
  | nil => simp at hm
  | cons v rest ih =>
    rw [tagsSpec]
    rcases List.mem_cons.1 hm with rfl | hm'
    · rw [hs]
    · cases tagStep A P H v acc with
      | none => rfl
      | some acc' => exact ih hm' acc'

/-- a tag field that no parameters can save (here: `splitTag` fails): arbitrary parameters -/
theorem lineSpec_bad_tag (h : Bytes → Bytes × GoErr) (f : Bytes → Int × GoErr) (g : Bytes → Int → Bytes × GoErr)
    (line : List Bytes) (ht : tagsSpec (reqA f) (reqP g) (reqH h) (line.drop 11) [] = none) :
    ∃ e, e ≠ GoErr.nil ∧ lineSpec h f g line = (none, e) := by
  by_cases hn : line.length < 11
  · refine ⟨GoErr.other, by decide, ?_⟩
    unfold lineSpec
    split
    · simp at hn; omega
    · rfl
  · rcases line with _ | ⟨qn, _ | ⟨fl, _ | ⟨rn, _ | ⟨po, _ | ⟨mq, _ | ⟨cg, _ | ⟨rx, _ | ⟨pn, _ | ⟨tl, _ | ⟨sq, _ | ⟨ql, tagFields⟩⟩⟩⟩⟩⟩⟩⟩⟩⟩⟩ <;>
      try (simp at hn; done)
    simp only [List.drop_succ_cons, List.drop_zero] at ht
    unfold lineSpec
    simp only
    by_cases herr : (intsSpec f [fl, po, mq, pn, tl] [0, 0, 0, 0, 0]).1 ≠ GoErr.nil
    · rw [if_pos herr]; exact ⟨_, herr, rfl⟩
    · rw [if_neg herr, ht]; exact ⟨GoErr.other, by decide, rfl⟩

theorem sam_parseLine_bad_int (hF : GoSrc.sam_parseLine_Found = true) (hI : GoSrc.parseInts_Found = true)
    (hT : GoSrc.parseTags_Found = true) (hS : GoSrc.splitTag_Found = true)
    {f} (hf : AtoiModel f) (h : Bytes → Bytes × GoErr) (g : Bytes → Int → Bytes × GoErr) (line : List Bytes)
    (hb : ∃ i ∈ [1, 3, 4, 7, 8], ∃ s, line[i]? = some s ∧ atoi s = none) :
    ∃ e, e ≠ GoErr.nil ∧ GoSrc.sam_parseLine h f g line = some (none, e) := by
  obtain ⟨e, he, hq⟩ := lineSpec_bad_int hf h g line hb
  exact ⟨e, he, by rw [sam_parseLine_eq hF hI hT hS, hq]⟩

theorem sam_parseLine_few_colons (hF : GoSrc.sam_parseLine_Found = true) (hI : GoSrc.parseInts_Found = true)
    (hT : GoSrc.parseTags_Found = true) (hS : GoSrc.splitTag_Found = true)
    (h : Bytes → Bytes × GoErr) (f : Bytes → Int × GoErr) (g : Bytes → Int → Bytes × GoErr) (line : List Bytes)
    (fld : Bytes) (hm : fld ∈ line.drop 11) (hc : fld.count 58 < 2) :
    ∃ e, e ≠ GoErr.nil ∧ GoSrc.sam_parseLine h f g line = some (none, e) := by
  have ht : tagsSpec (reqA f) (reqP g) (reqH h) (line.drop 11) [] = none :=
    tagsSpec_none_of_mem _ _ _ hm (fun acc => by
      unfold tagStep; rw [Sam.splitTag_none_of_count hc]) []
  obtain ⟨e, he, hq⟩ := lineSpec_bad_tag h f g line ht
  exact ⟨e, he, by rw [sam_parseLine_eq hF hI hT hS, hq]⟩

/-- the normal form of a Go tag map: inserting its entries into the model's sorted list -/
theorem insertAll_of_sameMap {r m : Sam.Tags} (h : SameMap r m) (hs : Sam.SortedTags m) :
    Sam.insertAll r [] = m :=
  Sam.insertAll_perm_sorted h.2.2 hs

end SamP
end Bio.GoSrcLemmas
